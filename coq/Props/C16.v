(* C16 — The unsat-core cache never changes a verdict.
   Statements only; every proof is `exact <lemma from Proofs/CacheProofs.v, CacheTestProofs.v or CoreTextProofs.v>`.
   Gen/GenUnsatCore.v (check_unsat_cores, regex and template literals, from_result decision),
   Gen/GenCoreAppend.v (callback append guard), Gen/GenCoreIds.v (id = tracked name) and
   Gen/GenCacheUsers.v (how the stuck-path / setUp-path / assertion consumers obtain their output) are
   regenerated from /repo/src/halmos/{solve,__main__,sevm}.py on every run.

   The statements are generic in the identifier type (any type with a correct equality test),
   the formula language, its semantics `holds`, and the solver `low`.  H2 (identifier stability)
   is a hypothesis: it is a property of z3's AST-id allocator and CPython's reference counting
   that this model cannot express; the check monitors it on the real code (label: partial). *)
From Coq Require Import ZArith List Bool.
From HV Require Import Gen.GenUnsatCore Gen.GenCoreAppend Gen.GenCoreIds Gen.GenCacheUsers
  Spec.CacheSpec Model.CacheModel Model.CacheTestModel Proofs.CacheProofs Proofs.CacheTestProofs Proofs.CoreTextProofs.
Import ListNotations.
Open Scope Z_scope.

(* the generated check_unsat_cores answers true exactly when some stored core is contained in
   the query's assertion ids *)
Theorem C16_check_spec :
  forall (id : Type) (id_eqb : id -> id -> bool), (forall a b, id_eqb a b = true <-> a = b) ->
  forall (a : list id) (cores : list (list id)),
    check_unsat_cores id id_eqb a cores = true <-> exists c, In c cores /\ forall i, In i c -> In i a.
Proof. exact check_spec. Qed.
Print Assumptions C16_check_spec.

(* SOUNDNESS, any schedule, any length.  A history is any interleaving of cache look-ups
   (EvCheck q: solve_end_to_end reads the core list for q) and callback runs (EvLearn q r: the
   output r obtained for q is handed to _solve_end_to_end_callback).
   H1: every non-empty core a solver returned for q names an unsatisfiable subset of q;
   H2: an identifier never denotes two different formulas within the history.
   Then every look-up that hits is on an unsatisfiable query. *)
Theorem C16_sound :
  forall (id : Type) (id_eqb : id -> id -> bool), (forall a b, id_eqb a b = true <-> a = b) ->
  forall (formula model V : Type) (holds : V -> formula -> Prop)
         (evs : list (event id formula model)),
    (forall q c, In (EvLearn q (Unsat (Some c))) evs -> c <> [] ->
       unsat formula V holds (select id id_eqb formula q c)) ->
    (forall e1 e2, In e1 evs -> In e2 evs ->
       forall i f1 f2,
         In (i, f1) (match e1 with EvCheck q => q | EvLearn q _ => q end) ->
         In (i, f2) (match e2 with EvCheck q => q | EvLearn q _ => q end) -> f1 = f2) ->
    forall pre q post, evs = pre ++ EvCheck q :: post ->
      check_unsat_cores id id_eqb (qids id formula q) (cores_after id formula model pre []) = true ->
      unsat formula V holds (map snd q).
Proof. exact cache_sound_events. Qed.
Print Assumptions C16_sound.

(* the same for one function context processing its queries in order with a solver `low`
   (refined? -> query -> outcome), through solve_end_to_end and the callback *)
Theorem C16_sound_run :
  forall (id : Type) (id_eqb : id -> id -> bool), (forall a b, id_eqb a b = true <-> a = b) ->
  forall (formula model V : Type) (holds : V -> formula -> Prop)
         (low : bool -> query id formula -> reply id model) (refine_changes : query id formula -> bool)
         (qs : list (query id formula)),
    (forall q b c, In q qs -> low b q = Unsat (Some c) -> c <> [] ->
       unsat formula V holds (select id id_eqb formula q c)) ->
    (forall q1 q2, In q1 qs -> In q2 qs -> forall i f1 f2, In (i, f1) q1 -> In (i, f2) q2 -> f1 = f2) ->
    forall pre q post, qs = pre ++ q :: post ->
      check_unsat_cores id id_eqb (qids id formula q)
        (cores_of_run id id_eqb formula model low refine_changes true [] pre) = true ->
      unsat formula V holds (map snd q).
Proof. exact cache_sound_run. Qed.
Print Assumptions C16_sound_run.

(* an empty core -- which would match every later query -- is never stored *)
Theorem C16_empty_core_ignored :
  forall (id model : Type) (cores : list (list id)) (r : reply id model),
    In [] (callback id model cores r) -> In [] cores.
Proof. exact callback_no_empty. Qed.
Print Assumptions C16_empty_core_ignored.

(* TRANSPARENCY.  If moreover the pipeline without cache answers unsat on the really
   unsatisfiable queries of the history (H3: the solver does not time out / err on them), the
   outputs with the cache equal the outputs without it, query by query: same result, same
   model, same validity flag (only the core payload, which no verdict looks at, differs). *)
Theorem C16_transparent :
  forall (id : Type) (id_eqb : id -> id -> bool), (forall a b, id_eqb a b = true <-> a = b) ->
  forall (formula model V : Type) (holds : V -> formula -> Prop)
         (low : bool -> query id formula -> reply id model) (refine_changes : query id formula -> bool)
         (qs : list (query id formula)),
    (forall q b c, In q qs -> low b q = Unsat (Some c) -> c <> [] ->
       unsat formula V holds (select id id_eqb formula q c)) ->
    (forall q1 q2, In q1 qs -> In q2 qs -> forall i f1 f2, In (i, f1) q1 -> In (i, f2) q2 -> f1 = f2) ->
    (forall q, In q qs -> unsat formula V holds (map snd q) ->
       strip id model (solve_end_to_end id id_eqb formula model low refine_changes false [] q) = Unsat None) ->
    map (strip id model) (run id id_eqb formula model low refine_changes true [] qs) =
    map (strip id model) (run id id_eqb formula model low refine_changes false [] qs).
Proof. exact run_transparent. Qed.
Print Assumptions C16_transparent.

(* ... hence the same verdict from run_test's if/elif chain, for any stuck / normal counts *)
Theorem C16_transparent_verdict :
  forall (id : Type) (id_eqb : id -> id -> bool), (forall a b, id_eqb a b = true <-> a = b) ->
  forall (formula model V : Type) (holds : V -> formula -> Prop)
         (low : bool -> query id formula -> reply id model) (refine_changes : query id formula -> bool)
         (qs : list (query id formula)),
    (forall q b c, In q qs -> low b q = Unsat (Some c) -> c <> [] ->
       unsat formula V holds (select id id_eqb formula q c)) ->
    (forall q1 q2, In q1 qs -> In q2 qs -> forall i f1 f2, In (i, f1) q1 -> In (i, f2) q2 -> f1 = f2) ->
    (forall q, In q qs -> unsat formula V holds (map snd q) ->
       strip id model (solve_end_to_end id id_eqb formula model low refine_changes false [] q) = Unsat None) ->
    forall stuck normal,
      verdict_of id model (run id id_eqb formula model low refine_changes true [] qs) stuck normal =
      verdict_of id model (run id id_eqb formula model low refine_changes false [] qs) stuck normal.
Proof. exact run_transparent_verdict. Qed.
Print Assumptions C16_transparent_verdict.

(* transparency of a single solve_end_to_end in ANY cache state all of whose cores were learnt
   soundly on queries of the history (covers every thread schedule of the solver pool) *)
Theorem C16_transparent_any_state :
  forall (id : Type) (id_eqb : id -> id -> bool), (forall a b, id_eqb a b = true <-> a = b) ->
  forall (formula model V : Type) (holds : V -> formula -> Prop)
         (low : bool -> query id formula -> reply id model) (refine_changes : query id formula -> bool)
         (qs : list (query id formula)) (cores : list (list id)) (q : query id formula),
    (forall q1 q2, In q1 qs -> In q2 qs -> forall i f1 f2, In (i, f1) q1 -> In (i, f2) q2 -> f1 = f2) ->
    (forall c, In c cores -> exists q0, In q0 qs /\ unsat formula V holds (select id id_eqb formula q0 c)) ->
    (forall q, In q qs -> unsat formula V holds (map snd q) ->
       strip id model (solve_end_to_end id id_eqb formula model low refine_changes false [] q) = Unsat None) ->
    In q qs ->
    strip id model (solve_end_to_end id id_eqb formula model low refine_changes true cores q) =
    strip id model (solve_end_to_end id id_eqb formula model low refine_changes false [] q).
Proof. exact e2e_transparent. Qed.
Print Assumptions C16_transparent_any_state.

(* without H3 (solver may time out or fail), assuming only that a `sat` answer is truthful:
   position by position the cached run gives the same output, or `unsat` where the uncached run
   gave a non-sat output (unknown / err / unsat) -- the verdict can only move from TIMEOUT/ERROR
   towards the truthful one, and FAIL is reported with the cache iff it is without *)
Theorem C16_monotone :
  forall (id : Type) (id_eqb : id -> id -> bool), (forall a b, id_eqb a b = true <-> a = b) ->
  forall (formula model V : Type) (holds : V -> formula -> Prop)
         (low : bool -> query id formula -> reply id model) (refine_changes : query id formula -> bool)
         (qs : list (query id formula)),
    (forall q b c, In q qs -> low b q = Unsat (Some c) -> c <> [] ->
       unsat formula V holds (select id id_eqb formula q c)) ->
    (forall q b m v, In q qs -> low b q = Sat m v -> sat formula V holds (map snd q)) ->
    (forall q1 q2, In q1 qs -> In q2 qs -> forall i f1 f2, In (i, f1) q1 -> In (i, f2) q2 -> f1 = f2) ->
    Forall2 (fun a b => strip id model a = strip id model b \/
                        (strip id model a = Unsat None /\ is_sat id model b = false))
      (run id id_eqb formula model low refine_changes true [] qs)
      (run id id_eqb formula model low refine_changes false [] qs).
Proof. exact run_refines. Qed.
Print Assumptions C16_monotone.

Theorem C16_fail_iff :
  forall (id : Type) (id_eqb : id -> id -> bool), (forall a b, id_eqb a b = true <-> a = b) ->
  forall (formula model V : Type) (holds : V -> formula -> Prop)
         (low : bool -> query id formula -> reply id model) (refine_changes : query id formula -> bool)
         (qs : list (query id formula)),
    (forall q b c, In q qs -> low b q = Unsat (Some c) -> c <> [] ->
       unsat formula V holds (select id id_eqb formula q c)) ->
    (forall q b m v, In q qs -> low b q = Sat m v -> sat formula V holds (map snd q)) ->
    (forall q1 q2, In q1 qs -> In q2 qs -> forall i f1 f2, In (i, f1) q1 -> In (i, f2) q2 -> f1 = f2) ->
    forall stuck normal,
      verdict_of id model (run id id_eqb formula model low refine_changes true [] qs) stuck normal = VFail <->
      verdict_of id model (run id id_eqb formula model low refine_changes false [] qs) stuck normal = VFail.
Proof. exact run_refines_fail. Qed.
Print Assumptions C16_fail_iff.

(* H2 IS NEEDED: with a sound solver but one recycled identifier (id 2 = "x0 is false" in the
   first query, "x1 is false" in the second), a satisfiable query is answered unsat.
   ids: N; formulas: literals (variable, value); valuations: N -> bool *)
Theorem C16_needs_stability_refuted :
  let holds := fun (v : N -> bool) (f : N * bool) => v (fst f) = snd f in
  exists (q1 q2 : query N (N * bool)) (core : list N),
    let evs : list (event N (N * bool) unit) := [EvLearn q1 (Unsat (Some core)); EvCheck q2] in
    (forall q c, In (EvLearn q (Unsat (Some c))) evs -> c <> [] ->
       unsat (N * bool) (N -> bool) holds (select N N.eqb (N * bool) q c)) /\
    check_unsat_cores N N.eqb (qids N (N * bool) q2)
      (cores_after N (N * bool) unit [EvLearn q1 (Unsat (Some core))] []) = true /\
    sat (N * bool) (N -> bool) holds (map snd q2).
Proof. exact (ex_intro _ wq1 (ex_intro _ wq2 (ex_intro _ [1%N; 2%N] needs_stability))). Qed.
Print Assumptions C16_needs_stability_refuted.

(* THE RECOGNISER.  On a solver reply of the SMT-LIB shape
     unsat <ws> [ ( <ws> error <ws+msg> ) <ws> ] ( <ws> <d1> ws+ <d2> ws+ ... <dn> <ws> ) <anything>
   parse_unsat_core returns exactly the listed identifiers d1 .. dn, in order *)
Theorem C16_parse_core :
  forall (ws0 err ws1 : list Z) (l : list (list Z * list Z)) (post : list Z),
    all_space ws0 -> error_line err -> all_space ws1 ->
    (forall d sep, In (d, sep) l -> ident d) -> seps_ok l ->
    parse_unsat_core (core_reply ws0 err ws1 l post) = Some (map fst l).
Proof. exact parse_core_exact. Qed.
Print Assumptions C16_parse_core.

(* malformed output => no core: whatever is accepted contains "unsat", later "(" white space,
   a sequence of <digits> names with white space after each, and ")"; the returned ids are the
   tokens of exactly that text with the brackets removed *)
Theorem C16_parse_core_inv :
  forall (s : list Z) (ids : list (list Z)), parse_unsat_core s = Some ids ->
    exists pre mid ws1 l post,
      s = pre ++ s_unsat ++ mid ++ c_lpar :: ws1 ++ render_names l ++ c_rpar :: post /\
      all_space ws1 /\ (forall d sep, In (d, sep) l -> ident d) /\
      (forall d sep, In (d, sep) l -> all_space sep) /\
      ids = map (sub_names false) (tokens (render_names l)).
Proof. exact parse_core_inv. Qed.
Print Assumptions C16_parse_core_inv.

(* the white space between names matters: "(<12><13>)" (one SMT-LIB symbol, never produced for
   halmos' names) is accepted and yields the single id 1213, which is not a listed name.
   Harmless with a conforming solver; recorded as a deviation of the recogniser. *)
Theorem C16_parse_core_adjacent_refuted :
  exists l : list (list Z * list Z),
    (forall d sep, In (d, sep) l -> ident d) /\ (forall d sep, In (d, sep) l -> all_space sep) /\
    parse_unsat_core (core_reply [] [] [] l []) = Some [[49; 50; 49; 51]] /\
    map fst l = [[49; 50]; [49; 51]].
Proof. exact parse_adjacent. Qed.
Print Assumptions C16_parse_core_adjacent_refuted.

(* the literals the matcher was written for are the ones in solve.py now; the name registered by
   dump() for id i is <i>, attached to the tracked literal |i|; the cache-mode file enables and
   requests unsat cores; the tracked literal is the id recorded in SMTQuery.assertions *)
Theorem C16_names :
  (gen_core_pattern = expected_core_pattern /\ gen_sub_pattern = expected_sub_pattern /\
   gen_sub_repl = expected_sub_repl /\ gen_core_group = 2) /\
  (forall i, named_assertion i =
     [40; 97; 115; 115; 101; 114; 116; 32; 40; 33; 32; 124] ++ i ++
     [124; 32; 58; 110; 97; 109; 101; 100; 32] ++ core_name i ++ [41; 41; 10]) /\
  ((exists pre, gen_file_tail = pre ++ [40; 103; 101; 116; 45; 117; 110; 115; 97; 116; 45; 99; 111; 114; 101; 41; 10]) /\
   (exists post, gen_file_head = [40; 115; 101; 116; 45; 111; 112; 116; 105; 111; 110; 32; 58; 112; 114; 111; 100; 117; 99; 101; 45; 117; 110; 115; 97; 116; 45; 99; 111; 114; 101; 115; 32; 116; 114; 117; 101; 41; 10] ++ post)) /\
  (gen_tracked_name_is_assertion_id = true /\ gen_id_is_z3_ast_id = true).
Proof. exact (conj pattern_pinned (conj named_assertion_shape (conj dump_requests_core (conj eq_refl eq_refl)))). Qed.
Print Assumptions C16_names.

(* ------------------------------------------------------------------ WHO MAY BE ANSWERED FROM THE CACHE.
   run_test has three consumers of the solver, and setup() one: an assertion violation goes to the
   thread pool through solve_end_to_end (look-up, solver, refinement) and its output to the callback;
   a stuck path and a candidate setUp path pose their query AS IS (solve_low_level, un-refined).
   How each of them obtains its SolverOutput is Gen/GenCacheUsers.v (gen_stuck_solve,
   gen_setup_solve, gen_assert_solve), regenerated from __main__.py on every run.
   Two semantics: holds_a = truth under an arbitrary interpretation of the abstracted operations
   (f_evm_bvmul_256 ...: the query as posed), holds_r = truth under the real operations (the
   refined query); every real valuation is an abstract one.  H1 per file: a core of the
   un-refined file is unsat as posed, a core of the refined file is unsat under holds_r only. *)

(* the un-refined consumers see the solver's answer to their own query, whatever the cache holds *)
Theorem C16_stuck_any_state :
  forall (id : Type) (id_eqb : id -> id -> bool) (formula model : Type)
         (low : bool -> query id formula -> reply id model) (refine_changes : query id formula -> bool)
         (cache : bool) (cores : list (list id)) (q : query id formula),
    strip id model (stuck_solve id id_eqb formula model low refine_changes cache cores q) =
      strip id model (low false q) /\
    strip id model (setup_solve id id_eqb formula model low refine_changes cache cores q) =
      strip id model (low false q) /\
    skips id id_eqb formula (@gen_stuck_solve bool) cache cores q = false.
Proof. exact unrefined_any_state. Qed.
Print Assumptions C16_stuck_any_state.

(* SOUNDNESS for a whole test, any number and order of assertion / stuck / normal / reverted paths:
   a consumer that is answered without a solver call has a query that is unsatisfiable in the
   semantics IT asks about (assertion: after refinement; stuck: as posed) *)
Theorem C16_test_sound :
  forall (id : Type) (id_eqb : id -> id -> bool), (forall a b, id_eqb a b = true <-> a = b) ->
  forall (formula model Va Vr : Type) (holds_a : Va -> formula -> Prop) (holds_r : Vr -> formula -> Prop),
    (forall fs, sat formula Vr holds_r fs -> sat formula Va holds_a fs) ->
  forall (low : bool -> query id formula -> reply id model) (refine_changes : query id formula -> bool)
         (ps : list (tpath id formula)),
    (forall q b c, In q (map snd ps) -> low b q = Unsat (Some c) -> c <> [] ->
       if b then unsat formula Vr holds_r (select id id_eqb formula q c)
       else unsat formula Va holds_a (select id id_eqb formula q c)) ->
    (forall q1 q2, In q1 (map snd ps) -> In q2 (map snd ps) ->
       forall i f1 f2, In (i, f1) q1 -> In (i, f2) q2 -> f1 = f2) ->
    forall pre p post, ps = pre ++ p :: post ->
      (match fst p with
       | KAssert => skips id id_eqb formula (@gen_assert_solve bool) true
                      (t_cores id model (test_run id id_eqb formula model low refine_changes true pre)) (snd p)
       | KStuck => skips id id_eqb formula (@gen_stuck_solve bool) true
                      (t_cores id model (test_run id id_eqb formula model low refine_changes true pre)) (snd p)
       | _ => false
       end) = true ->
      match fst p with
      | KAssert => unsat formula Vr holds_r (map snd (snd p))
      | _ => unsat formula Va holds_a (map snd (snd p))
      end.
Proof. exact test_sound. Qed.
Print Assumptions C16_test_sound.

(* TRANSPARENCY for a whole test: with H3 on the assertion queries, the outputs (result, model,
   validity), the number of stuck paths and of normal paths are the same with and without the
   cache -- hence the same verdict *)
Theorem C16_test_transparent :
  forall (id : Type) (id_eqb : id -> id -> bool), (forall a b, id_eqb a b = true <-> a = b) ->
  forall (formula model Va Vr : Type) (holds_a : Va -> formula -> Prop) (holds_r : Vr -> formula -> Prop),
    (forall fs, sat formula Vr holds_r fs -> sat formula Va holds_a fs) ->
  forall (low : bool -> query id formula -> reply id model) (refine_changes : query id formula -> bool)
         (ps : list (tpath id formula)),
    (forall q b c, In q (map snd ps) -> low b q = Unsat (Some c) -> c <> [] ->
       if b then unsat formula Vr holds_r (select id id_eqb formula q c)
       else unsat formula Va holds_a (select id id_eqb formula q c)) ->
    (forall q1 q2, In q1 (map snd ps) -> In q2 (map snd ps) ->
       forall i f1 f2, In (i, f1) q1 -> In (i, f2) q2 -> f1 = f2) ->
    (forall q, In (KAssert, q) ps -> unsat formula Vr holds_r (map snd q) ->
       strip id model (solve_end_to_end id id_eqb formula model low refine_changes false [] q) = Unsat None) ->
    observe id model (test_run id id_eqb formula model low refine_changes true ps) =
      observe id model (test_run id id_eqb formula model low refine_changes false ps) /\
    test_verdict id id_eqb formula model low refine_changes true ps =
      test_verdict id id_eqb formula model low refine_changes false ps.
Proof. exact test_transparent_both. Qed.
Print Assumptions C16_test_transparent.

(* ... and under ANY completion order of the solver pool.  A schedule is any list of events
   TPath p (the main loop takes path p: an assertion query is handed to the pool, a stuck path is
   solved on the spot in whatever state the cache is), TStart j (a worker enters solve_end_to_end
   for the query of path j: the look-up sees the cache as it is then), TCb j (its done-callback
   runs: output recorded, core learnt); events that do not apply change nothing.  For every
   schedule the outputs in callback order, the counters, the queries still pending and the verdict
   once the pool has drained are the same with and without the cache. *)
Theorem C16_test_transparent_any_schedule :
  forall (id : Type) (id_eqb : id -> id -> bool), (forall a b, id_eqb a b = true <-> a = b) ->
  forall (formula model Va Vr : Type) (holds_a : Va -> formula -> Prop) (holds_r : Vr -> formula -> Prop),
    (forall fs, sat formula Vr holds_r fs -> sat formula Va holds_a fs) ->
  forall (low : bool -> query id formula -> reply id model) (refine_changes : query id formula -> bool)
         (evs : list (tevent id formula)),
    let ps := sched_paths id formula evs in
    (forall q b c, In q (map snd ps) -> low b q = Unsat (Some c) -> c <> [] ->
       if b then unsat formula Vr holds_r (select id id_eqb formula q c)
       else unsat formula Va holds_a (select id id_eqb formula q c)) ->
    (forall q1 q2, In q1 (map snd ps) -> In q2 (map snd ps) ->
       forall i f1 f2, In (i, f1) q1 -> In (i, f2) q2 -> f1 = f2) ->
    (forall q, In (KAssert, q) ps -> unsat formula Vr holds_r (map snd q) ->
       strip id model (solve_end_to_end id id_eqb formula model low refine_changes false [] q) = Unsat None) ->
    observe id model (s_t id formula model (sched_run id id_eqb formula model low refine_changes true evs)) =
      observe id model (s_t id formula model (sched_run id id_eqb formula model low refine_changes false evs)) /\
    map fst (s_jobs id formula model (sched_run id id_eqb formula model low refine_changes true evs)) =
      map fst (s_jobs id formula model (sched_run id id_eqb formula model low refine_changes false evs)) /\
    sched_verdict id id_eqb formula model low refine_changes true evs =
      sched_verdict id id_eqb formula model low refine_changes false evs.
Proof. exact sched_transparent. Qed.
Print Assumptions C16_test_transparent_any_schedule.

(* non-vacuity: the stuck path taken while the assertion query is still in the pool, and after its
   callback has stored the core the stuck path contains: [ERROR] stuck either way, cache or not *)
Example C16_schedule_nonvacuous :
  let early := [TPath (KAssert, rq1); TPath (KStuck, rq2); TStart 0%nat; TCb 0%nat; TPath (KNormal, [])] in
  let late := [TPath (KAssert, rq1); TStart 0%nat; TCb 0%nat; TPath (KStuck, rq2); TPath (KNormal, [])] in
  sched_verdict N N.eqb (N * bool) N rlow (fun _ => true) true early = Some VStuck /\
  sched_verdict N N.eqb (N * bool) N rlow (fun _ => true) false early = Some VStuck /\
  sched_verdict N N.eqb (N * bool) N rlow (fun _ => true) true late = Some VStuck /\
  sched_verdict N N.eqb (N * bool) N rlow (fun _ => true) false late = Some VStuck /\
  sched_verdict N N.eqb (N * bool) N rlow (fun _ => true) true [TPath (KAssert, rq1); TStart 0%nat] = None.
Proof. vm_compute. repeat split. Qed.

(* THE CACHE INVARIANT IS "UNSAT AFTER REFINEMENT", NOT "UNSAT AS POSED": with a truthful solver and
   stable ids, after one assertion query whose refined file is unsat (core [1]) the cache contains a
   core that the stuck path q2 contains, and q2 is satisfiable as posed (the solver says sat).  An
   un-refined consumer that looked the cache up would drop a feasible stuck path: ERROR -> PASS.
   (variable 0 = value of an abstracted operation, fixed to `true` by the real semantics) *)
Theorem C16_refined_core_not_abstract_refuted :
  let holds_a := fun (v : N -> bool) (f : N * bool) => v (fst f) = snd f in
  let holds_r := fun (v : N -> bool) (f : N * bool) => v (fst f) = snd f /\ v 0%N = true in
  exists (low : bool -> query N (N * bool) -> reply N N) (q1 q2 : query N (N * bool)),
    (forall q b c, In q [q1; q2] -> low b q = Unsat (Some c) -> c <> [] ->
       if b then unsat (N * bool) (N -> bool) holds_r (select N N.eqb (N * bool) q c)
       else unsat (N * bool) (N -> bool) holds_a (select N N.eqb (N * bool) q c)) /\
    (forall qa qb, In qa [q1; q2] -> In qb [q1; q2] ->
       forall i f1 f2, In (i, f1) qa -> In (i, f2) qb -> f1 = f2) /\
    check_unsat_cores N N.eqb (qids N (N * bool) q2)
      (t_cores N N (test_run N N.eqb (N * bool) N low (fun _ => true) true [(KAssert, q1)])) = true /\
    sat (N * bool) (N -> bool) holds_a (map snd q2) /\
    is_unsat N N (low false q2) = false.
Proof. exact (ex_intro _ rlow (ex_intro _ rq1 (ex_intro _ rq2 refined_core_not_abstract))). Qed.
Print Assumptions C16_refined_core_not_abstract_refuted.

(* non-vacuity of C16_test_transparent on that very test followed by a normal path: the real
   run_test reports [ERROR] (stuck) with and without the cache, and the cache did learn the core *)
Example C16_test_nonvacuous :
  test_verdict N N.eqb (N * bool) N rlow (fun _ => true) true [(KAssert, rq1); (KStuck, rq2); (KNormal, [])] = VStuck /\
  test_verdict N N.eqb (N * bool) N rlow (fun _ => true) false [(KAssert, rq1); (KStuck, rq2); (KNormal, [])] = VStuck /\
  t_cores N N (test_run N N.eqb (N * bool) N rlow (fun _ => true) true [(KAssert, rq1); (KStuck, rq2); (KNormal, [])]) = [[1%N]].
Proof. exact test_nonvacuous. Qed.

(* non-vacuity: a stable three-query history with a truthful solver; the third query is
   answered from the cache (no core in its output) and all outputs agree with the uncached run *)
Example C16_nonvacuous :
  run N N.eqb lit N nlow (fun _ => false) true [] [nq1; nq2; nq3]
    = [Unsat (Some [2%N; 1%N]); Sat 7%N true; Unsat None] /\
  run N N.eqb lit N nlow (fun _ => false) false [] [nq1; nq2; nq3]
    = [Unsat None; Sat 7%N true; Unsat None] /\
  (forall q1 q2, In q1 [nq1; nq2; nq3] -> In q2 [nq1; nq2; nq3] ->
     forall i f1 f2, In (i, f1) q1 -> In (i, f2) q2 -> f1 = f2).
Proof. exact nonvacuous_run. Qed.

(* non-vacuity of the recogniser theorem: z3's actual reply shape *)
Example C16_parse_nonvacuous :
  parse_unsat_core
    (core_reply [10] (c_lpar :: [] ++ s_error ++ 32 :: [34; 120; 34] ++ c_rpar :: [10]) []
       [([52; 49], [32]); ([55], [])] [10])
  = Some [[52; 49]; [55]].
Proof. vm_compute. reflexivity. Qed.
