(* C10 -- Incomplete exploration is always reported.
   Statements only; proofs are `exact <lemma>` from Proofs/JumpiProofs.v (over Gen/GenJumpi.v, the
   decision part of SEVM.jumpi regenerated on every run) and Proofs/RunnerProofs.v (over
   Gen/GenRunTest.v: which logs/warnings run_test, setup and run_target_function report). *)
From Coq Require Import ZArith List Bool.
From HV Require Import Gen.GenJumpi Gen.GenRunTest Spec.PanicSpec Model.RunnerModel Proofs.JumpiProofs Proofs.RunnerProofs.
Import ListNotations.
Open Scope Z_scope.

(* a branch side is abandoned only if its feasibility check answered unsat, or the loop-bound log is
   written -- whatever the solver answered (sat / unknown), every visit count, every --loop *)
Theorem C10_cover_true : forall ct cf vt vf loop,
  ct <> R_UNSAT ->
  d_follow_true (jumpi_decide ct cf vt vf loop) = true \/ d_logged (jumpi_decide ct cf vt vf loop) = true.
Proof. exact cover_true. Qed.
Print Assumptions C10_cover_true.

Theorem C10_cover_false : forall ct cf vt vf loop,
  cf <> R_UNSAT ->
  d_follow_false (jumpi_decide ct cf vt vf loop) = true \/ d_logged (jumpi_decide ct cf vt vf loop) = true.
Proof. exact cover_false. Qed.
Print Assumptions C10_cover_false.

(* loops whose condition is concrete (one side sat, the other unsat) are never cut and never logged,
   for every loop bound including 0 and every visit count *)
Theorem C10_const_never_cut_true : forall vt vf loop,
  let d := jumpi_decide R_SAT R_UNSAT vt vf loop in
  d_follow_true d = true /\ d_follow_false d = false /\ d_logged d = false.
Proof. exact const_never_cut_true. Qed.
Print Assumptions C10_const_never_cut_true.

Theorem C10_const_never_cut_false : forall vt vf loop,
  let d := jumpi_decide R_UNSAT R_SAT vt vf loop in
  d_follow_true d = false /\ d_follow_false d = true /\ d_logged d = false.
Proof. exact const_never_cut_false. Qed.
Print Assumptions C10_const_never_cut_false.

(* whenever a potentially feasible side is not followed the bounded-loop log is written *)
Theorem C10_cut_logged : forall ct cf vt vf loop,
  let d := jumpi_decide ct cf vt vf loop in
  (d_potential_true d = true /\ d_follow_true d = false) \/
  (d_potential_false d = true /\ d_follow_false d = false) ->
  d_logged d = true.
Proof. exact cut_logged. Qed.
Print Assumptions C10_cut_logged.

(* under the bound nothing is cut and nothing is logged *)
Theorem C10_within_bound : forall ct cf vt vf loop,
  vt < loop -> vf < loop ->
  let d := jumpi_decide ct cf vt vf loop in
  d_follow_true d = d_potential_true d /\ d_follow_false d = d_potential_false d /\ d_logged d = false.
Proof. exact within_bound. Qed.
Print Assumptions C10_within_bound.

(* runner: the bounded-loop log and the --depth cut of the TEST transaction reach the report of a
   regular test, for every exploration result *)
Theorem C10_run_test_flags : forall (Q : Type) (sa sl : Q -> Z) codes width (e : exploration Q),
  (ex_bounded e = true -> r_warn_loop (run_test Q sa sl codes width e) = true) /\
  (ex_depth_cut e = true -> r_warn_depth (run_test Q sa sl codes width e) = true).
Proof. exact run_test_flags. Qed.
Print Assumptions C10_run_test_flags.

(* --width: the loop over the reported paths stops (with the warning) exactly when width <> 0 and
   the index of the path just classified is >= width; without the warning and without an escaped
   exception every reported path was classified *)
Theorem C10_width_cut : forall width pid, width_cut width pid = true <-> (width <> 0 /\ pid >= width).
Proof. exact width_cut_spec. Qed.
Print Assumptions C10_width_cut.

Theorem C10_no_width_warning_all_classified : forall (Q : Type) (sa sl : Q -> Z) codes width (e : exploration Q),
  r_warn_width (run_test Q sa sl codes width e) = false ->
  r_exit (run_test Q sa sl codes width e) <> EX_EXCEPTION ->
  forall l, In l (ex_leaves e) -> is_panic_of (l_err Q l) (l_data l) codes <> TRaise.
Proof. exact run_test_no_width_warn_all_processed. Qed.
Print Assumptions C10_no_width_warning_all_classified.

(* invariant mode: one run = setUp, the target transactions executed by run_target_function (each in a
   private SEVM) and the invariant_* transaction.  The LOOP_BOUND warning is printed exactly when the
   bounded-loop log of at least ONE of these transactions is non-empty -- for every number of target
   transactions (regenerated constants setup/test/target_warns_loop_bound) *)
Theorem C10_invariant_flags : forall r,
  loop_bound_warned r = true <-> (iv_setup r = true \/ In true (iv_targets r) \/ iv_test r = true).
Proof. exact loop_bound_warned_iff. Qed.
Print Assumptions C10_invariant_flags.

Example C10_nonvacuous :
  (* symbolic condition at the bound: the true side is cut and logged; one below the bound it is followed *)
  d_follow_true (jumpi_decide R_SAT R_SAT 2 0 2) = false /\ d_logged (jumpi_decide R_SAT R_SAT 2 0 2) = true /\
  d_follow_true (jumpi_decide R_SAT R_SAT 1 0 2) = true /\ d_logged (jumpi_decide R_SAT R_SAT 1 0 2) = false /\
  (* unknown answers are treated as potentially feasible *)
  d_follow_false (jumpi_decide R_UNKNOWN R_UNKNOWN 0 0 1) = true /\
  (* concrete condition, --loop 0 *)
  d_follow_true (jumpi_decide R_SAT R_UNSAT 1000 0 0) = true /\
  loop_bound_warned (mkInvRun false [false; true] false) = true /\
  loop_bound_warned (mkInvRun false [false; false] false) = false.
Proof. repeat split; reflexivity. Qed.
