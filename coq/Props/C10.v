(* C10 -- Incomplete exploration is always reported.
   Statements only; proofs are `exact <lemma>` from Proofs/JumpiProofs.v (over Gen/GenJumpi.v, the
   decision part of SEVM.jumpi regenerated on every run) and Proofs/RunnerProofs.v (over
   Gen/GenRunTest.v: which logs/warnings run_test, setup and run_target_function report) and
   Proofs/ReportProofs.v (over Gen/GenCutWarn.v: the --depth cut of SEVM.run and the text of its warning,
   Gen/GenLogFilter.v: the de-duplicating logger of logs.py) and Proofs/InvCutProofs.v (over Gen/GenFrontierCls.v: the
   filters _compute_frontier applies to each result state of a target transaction, in source order). *)
From Coq Require Import ZArith List Bool.
From HV Require Import Gen.GenJumpi Gen.GenRunTest Gen.GenCutWarn Gen.GenLogFilter Gen.GenFrontierCls Spec.PanicSpec Model.RunnerModel Model.ReportModel
  Model.InvCutModel Proofs.JumpiProofs Proofs.RunnerProofs Proofs.ReportProofs Proofs.InvCutProofs.
Import ListNotations.
Open Scope Z_scope.

(* a branch side is abandoned only if its feasibility check answered unsat, or the loop-bound log is
   written -- whatever the solver answered (sat / unknown), every visit count, every --loop *)
Theorem C10_cover_true : forall ct cf vt vf loop,
  ct <> R_UNSAT ->
  d_follow_true (jumpi_decide ct cf vt vf loop) = true \/ d_logged (jumpi_decide ct cf vt vf loop) = true.
Proof. exact cover_true. Qed.
Print Assumptions C10_cover_true.

Theorem C10_cover_false : forall ct cf vt vf loop,
  cf <> R_UNSAT ->
  d_follow_false (jumpi_decide ct cf vt vf loop) = true \/ d_logged (jumpi_decide ct cf vt vf loop) = true.
Proof. exact cover_false. Qed.
Print Assumptions C10_cover_false.

(* loops whose condition is concrete (one side sat, the other unsat) are never cut and never logged,
   for every loop bound including 0 and every visit count *)
Theorem C10_const_never_cut_true : forall vt vf loop,
  let d := jumpi_decide R_SAT R_UNSAT vt vf loop in
  d_follow_true d = true /\ d_follow_false d = false /\ d_logged d = false.
Proof. exact const_never_cut_true. Qed.
Print Assumptions C10_const_never_cut_true.

Theorem C10_const_never_cut_false : forall vt vf loop,
  let d := jumpi_decide R_UNSAT R_SAT vt vf loop in
  d_follow_true d = false /\ d_follow_false d = true /\ d_logged d = false.
Proof. exact const_never_cut_false. Qed.
Print Assumptions C10_const_never_cut_false.

(* whenever a potentially feasible side is not followed the bounded-loop log is written *)
Theorem C10_cut_logged : forall ct cf vt vf loop,
  let d := jumpi_decide ct cf vt vf loop in
  (d_potential_true d = true /\ d_follow_true d = false) \/
  (d_potential_false d = true /\ d_follow_false d = false) ->
  d_logged d = true.
Proof. exact cut_logged. Qed.
Print Assumptions C10_cut_logged.

(* under the bound nothing is cut and nothing is logged *)
Theorem C10_within_bound : forall ct cf vt vf loop,
  vt < loop -> vf < loop ->
  let d := jumpi_decide ct cf vt vf loop in
  d_follow_true d = d_potential_true d /\ d_follow_false d = d_potential_false d /\ d_logged d = false.
Proof. exact within_bound. Qed.
Print Assumptions C10_within_bound.

(* runner: the bounded-loop log and the --depth cut of the TEST transaction reach the report of a
   regular test, for every exploration result *)
Theorem C10_run_test_flags : forall (Q : Type) (sa sl : Q -> Z) codes width (e : exploration Q),
  (ex_bounded e = true -> r_warn_loop (run_test Q sa sl codes width e) = true) /\
  (ex_depth_cut e = true -> r_warn_depth (run_test Q sa sl codes width e) = true).
Proof. exact run_test_flags. Qed.
Print Assumptions C10_run_test_flags.

(* --width: the loop over the reported paths stops (with the warning) exactly when width <> 0 and
   the index of the path just classified is >= width; without the warning and without an escaped
   exception every reported path was classified *)
Theorem C10_width_cut : forall width pid, width_cut width pid = true <-> (width <> 0 /\ pid >= width).
Proof. exact width_cut_spec. Qed.
Print Assumptions C10_width_cut.

Theorem C10_no_width_warning_all_classified : forall (Q : Type) (sa sl : Q -> Z) codes width (e : exploration Q),
  (forall q, sl q <> S_SHUTDOWN) ->
  r_warn_width (run_test Q sa sl codes width e) = false ->
  r_exit (run_test Q sa sl codes width e) <> EX_EXCEPTION ->
  forall l, In l (ex_leaves e) -> is_panic_of (l_err Q l) (l_data l) codes <> TRaise.
Proof. exact run_test_no_width_warn_all_processed. Qed.
Print Assumptions C10_no_width_warning_all_classified.

(* invariant mode: one run = setUp, the target transactions executed by run_target_function (each in a
   private SEVM) and the invariant_* transaction.  The LOOP_BOUND warning is printed exactly when the
   bounded-loop log of at least ONE of these transactions is non-empty -- for every number of target
   transactions (regenerated constants setup/test/target_warns_loop_bound) *)
Theorem C10_invariant_flags : forall r,
  loop_bound_warned r = true <-> (iv_setup r = true \/ In true (iv_targets r) \/ iv_test r = true).
Proof. exact loop_bound_warned_iff. Qed.
Print Assumptions C10_invariant_flags.

(* an unsupported feature stops a path: the path is reported with output data None or a HalmosException
   (wherever in the call tree the internal error was raised).  A PASS without --width warning means that
   EVERY such path was an assertion-failure candidate (answered by the assertion solver) or was refuted by
   the solver -- for every list of reported paths.  (is_stuck = CallContext.is_stuck, tied at L1/L3.) *)
Theorem C10_pass_no_stuck : forall (Q : Type) (sa sl : Q -> Z) codes width (e : exploration Q),
  (forall q, sl q <> S_SHUTDOWN) ->
  r_exit (run_test Q sa sl codes width e) = EX_PASS ->
  r_warn_width (run_test Q sa sl codes width e) = false ->
  forall l, In l (ex_leaves e) ->
    (match l_data l with None => true | Some _ => match root_err (l_ctx l) with EHalmos => true | _ => false end end) = true ->
    (match is_panic_of (root_err (l_ctx l)) (l_data l) codes with TTrue => true | _ => false end) = true \/
    global_fail (l_ctx l) = true \/ sl (l_query l) = S_UNSAT.
Proof. exact pass_no_stuck. Qed.
Print Assumptions C10_pass_no_stuck.

(* setup(): the success test regenerated from the source (setup_path_ok has_error is_stuck) accepts a path of setUp
   only if it has no error AND is not stuck; so the post-setUp state every test starts from is never a path that
   halmos could not continue (e.g. stopped by an internal error inside a sub-call: no error at the top level,
   output data None), for every list of explored paths and every solver ... *)
Theorem C10_setup_selected_path_not_stuck :
  forall (Q : Type) (solve_low : Q -> Z) (paths : list (spath Q)) p,
    setup_select Q solve_low paths = SetupOk p -> sp_error p = false /\ sp_stuck p = false.
Proof. exact setup_selected_not_stuck. Qed.
Print Assumptions C10_setup_selected_path_not_stuck.

(* ... and a path that is dropped without having an error of its own is reported by an unconditional
   INTERNAL_ERROR warning (regenerated: which arm of setup()'s chain a path takes and whether that arm warns) *)
Theorem C10_setup_stuck_path_reported : forall e st,
  setup_path_ok e st = false -> e = false -> setup_reports e st = true.
Proof. exact setup_dropped_stuck_reported. Qed.
Print Assumptions C10_setup_stuck_path_reported.

(* confirming a stuck path: a solver call that fails is the `err` answer (counted as stuck), it does not escape
   run_test; an interruption by the early exit (S_SHUTDOWN, excluded above by hypothesis) ends the path loop *)
Theorem C10_stuck_solve_failure_counted : stuck_failure_counts = true /\ stuck_counts S_ERR = true.
Proof. exact stuck_solve_failure_counted. Qed.
Print Assumptions C10_stuck_solve_failure_counted.

(* --depth: the guard regenerated from SEVM.run *)
Theorem C10_depth_cut_guard : forall max_depth step_id,
  depth_cut max_depth step_id = true <-> (max_depth <> 0 /\ step_id > max_depth).
Proof. exact depth_cut_spec. Qed.
Print Assumptions C10_depth_cut_guard.

(* --depth: the warning goes through the process-wide de-duplicating logger (key = message text).  For every
   sequence of test executions of one halmos process whose (contract, signature) pairs are pairwise distinct
   (overloads in one contract, the same signature in several contracts), every limit, every number of abandoned
   states per test and every initial filter state that has not seen their texts: a test's run prints the warning
   exactly when one of its states was abandoned. *)
Theorem C10_depth_cut_reported : forall d runs records,
  NoDup (map (fun t => (fi_contract (tr_fun t), fi_sig (tr_fun t))) runs) ->
  (forall t, In t runs -> ~ In (depth_msg (tr_fun t) d) records) ->
  session d runs records = map (fun t => negb (Nat.eqb (tr_cuts t) 0)) runs.
Proof. exact depth_cut_reported. Qed.
Print Assumptions C10_depth_cut_reported.

(* one SEVM executes the invariant transaction on EVERY frontier state and its bounded-loop log is read once, at the
   end: the log accumulates over the transactions (regenerated: run_message does not replace / clear self.logs), so a
   loop cut on ANY frontier state -- not only the last -- is warned about.  For every number of states / targets. *)
Theorem C10_invariant_all_states_flags : forall s targets states,
  loop_bound_warned (mkInvRun s targets (sevm_logs_after states)) = true <->
  (s = true \/ In true targets \/ In true states).
Proof. exact invariant_run_loop_bound_warned. Qed.
Print Assumptions C10_invariant_all_states_flags.

(* an opcode halmos has no handler for ends the path with a HalmosException (regenerated from the catch-all arm of
   the dispatch in SEVM.run, checked against the imported class hierarchy): such a path is stuck, hence -- by
   C10_pass_no_stuck -- never part of a PASS unless the solver refuted it *)
Theorem C10_unsupported_opcode_is_stuck :
  unsupported_opcode_is_halmos_exception = true /\
  forall (Q : Type) (l : leaf Q), root_err (l_ctx l) = EHalmos ->
    (match l_data l with None => true | Some _ => match root_err (l_ctx l) with EHalmos => true | _ => false end end) = true.
Proof. exact unsupported_opcode_stuck. Qed.
Print Assumptions C10_unsupported_opcode_is_stuck.

(* invariant testing, _compute_frontier: the filters applied to each result state of a target transaction are
   regenerated IN SOURCE ORDER (Gen/GenFrontierCls.v: frontier_step = the effects performed on the state).  A state
   whose call is stuck is reported by an ERROR line (error(<text>), never de-duplicated), does not join the frontier
   and raises nothing -- for EVERY combination of the other observations: output.error set or not (the internal error
   was raised in the target's own frame or further down), is_panic_of true / false / raising, fail flag, probe
   already reported, state already visited *)
Theorem C10_frontier_stuck_decision : forall he p fs pr v,
  has_eff (frontier_step true he p fs pr v) FE_ERROR = true /\
  has_eff (frontier_step true he p fs pr v) FE_NEXT = false /\
  has_eff (frontier_step true he p fs pr v) FE_RAISE = false.
Proof. exact step_stuck. Qed.
Print Assumptions C10_frontier_stuck_decision.

(* ... hence, for every list of result states (all targets, selectors, paths and depths, in execution order), every
   panic-code configuration and whatever was reported / visited before: EVERY explored target-call path that ended in
   a HalmosException of its own frame (EHalmos) or without output (internal error in a nested call) is named by an
   ERROR line -- unless an exception raised on an EARLIER state ended the computation (the test then gets [ERROR]) *)
Theorem C10_frontier_cut_path_reported : forall (Q : Type) codes (ss : list (tstate Q)) k s,
  nth_error ss k = Some s ->
  (root_err (l_ctx (ts_leaf s)) = EHalmos \/ l_data (ts_leaf s) = None) ->
  In k (f_errors (frontier_run Q codes ss)) \/
  (exists j, f_raised (frontier_run Q codes ss) = Some j /\ (j < k)%nat).
Proof. exact frontier_cut_reported. Qed.
Print Assumptions C10_frontier_cut_path_reported.

(* the states that join a frontier (the invariant is evaluated on them, deeper transactions start from them) belong
   to calls that completed without any error *)
Theorem C10_frontier_next_states_complete : forall (Q : Type) codes (ss : list (tstate Q)) x,
  In x (f_next (frontier_run Q codes ss)) ->
  exists s, nth_error ss x = Some s /\
            ~ (root_err (l_ctx (ts_leaf s)) = EHalmos \/ l_data (ts_leaf s) = None) /\
            root_err (l_ctx (ts_leaf s)) = ENone.
Proof. exact frontier_next_complete. Qed.
Print Assumptions C10_frontier_next_states_complete.

(* a result state is dropped SILENTLY (no effect at all) only if its call completed: an ordinary revert (no configured
   panic, no fail flag), an assertion failure of a probe that was already reported, or a state already visited *)
Theorem C10_frontier_silent_drop_is_complete : forall (Q : Type) codes (s : tstate Q),
  step_effects Q codes s = 0 ->
  ~ (root_err (l_ctx (ts_leaf s)) = EHalmos \/ l_data (ts_leaf s) = None) /\
  ((has_error Q (ts_leaf s) = true /\
    ((is_panic_of (l_err Q (ts_leaf s)) (l_data (ts_leaf s)) codes = TFalse /\ global_fail (l_ctx (ts_leaf s)) = false)
     \/ ts_probe_reported s = true))
   \/ (has_error Q (ts_leaf s) = false /\ ts_visited s = true)).
Proof. exact step_effects_silent. Qed.
Print Assumptions C10_frontier_silent_drop_is_complete.

(* an invariant test with nothing reported (no ERROR line about a target transaction, no escaped exception, PASS of the
   invariant transaction without warning): no target transaction of any depth was cut by an internal error *)
Theorem C10_invariant_clean_pass_no_cut_target : forall (Q : Type) codes (ss : list (tstate Q)) rep,
  inv_clean_pass (frontier_run Q codes ss) rep = true ->
  forall s, In s ss -> ~ (root_err (l_ctx (ts_leaf s)) = EHalmos \/ l_data (ts_leaf s) = None).
Proof. exact inv_clean_pass_no_cut. Qed.
Print Assumptions C10_invariant_clean_pass_no_cut_target.

(* the same precedence in run_test and setup(): a stuck path is an assertion / stuck candidate, never a normal or ignored
   path, and never a post-setUp state -- whether or not it has an error of its own *)
Theorem C10_run_test_stuck_never_dropped : forall pf fs he,
  classify pf fs true he = CL_POTENTIAL \/ classify pf fs true he = CL_STUCK.
Proof. exact classify_stuck_never_dropped. Qed.
Print Assumptions C10_run_test_stuck_never_dropped.

Theorem C10_setup_stuck_never_selected : forall he, setup_path_ok he true = false.
Proof. exact setup_stuck_never_ok. Qed.
Print Assumptions C10_setup_stuck_never_selected.

Example C10_nonvacuous :
  (* symbolic condition at the bound: the true side is cut and logged; one below the bound it is followed *)
  d_follow_true (jumpi_decide R_SAT R_SAT 2 0 2) = false /\ d_logged (jumpi_decide R_SAT R_SAT 2 0 2) = true /\
  d_follow_true (jumpi_decide R_SAT R_SAT 1 0 2) = true /\ d_logged (jumpi_decide R_SAT R_SAT 1 0 2) = false /\
  (* unknown answers are treated as potentially feasible *)
  d_follow_false (jumpi_decide R_UNKNOWN R_UNKNOWN 0 0 1) = true /\
  (* concrete condition, --loop 0 *)
  d_follow_true (jumpi_decide R_SAT R_UNSAT 1000 0 0) = true /\
  loop_bound_warned (mkInvRun false [false; true] false) = true /\
  loop_bound_warned (mkInvRun false [false; false] false) = false /\
  (* --depth: two overloads and another name in one contract, all cut: all warned; an uncut test is silent *)
  session 200 [mkTestRun (mkFunInfo 1 5 7 9) 2; mkTestRun (mkFunInfo 1 5 8 10) 1; mkTestRun (mkFunInfo 1 6 11 12) 0] [] = [true; true; false] /\
  (* the same signature in a second contract keeps its own warning; a second run of the very same test is de-duplicated *)
  session 200 [mkTestRun (mkFunInfo 1 5 7 9) 1; mkTestRun (mkFunInfo 2 5 7 9) 1; mkTestRun (mkFunInfo 1 5 7 9) 1] [] = [true; true; false] /\
  (* the invariant cuts a loop on the first of three frontier states only: still warned *)
  loop_bound_warned (mkInvRun false [false; false] (sevm_logs_after [true; false; false])) = true /\
  sevm_logs_after [false; false] = false /\
  (* setUp: the only path is stuck inside a sub-call: no state is selected, and the path is reported *)
  setup_select unit (fun _ => S_SAT) [mkSpath false true tt] = SetupNoPath /\ setup_reports false true = true /\
  setup_select unit (fun _ => S_SAT) [mkSpath true false tt; mkSpath false false tt] = SetupOk (mkSpath false false tt) /\
  depth_cut 200 201 = true /\ depth_cut 200 200 = false /\ depth_cut 0 1000000 = false /\
  (* a path stopped by an internal error inside a sub-call (data None, no error at the root) makes the test STUCK *)
  r_exit (run_test bool (fun _ => S_SAT) (fun _ => S_SAT) [1] 0
            (mkExploration [mkLeaf (CNode ENone []) (Some []) true; mkLeaf (CNode ENone [CNode EHalmos []]) None true] false false)) = EX_STUCK /\
  (* invariant target: [completed call; call stopped by an internal error in its OWN frame (error set, no output);
     ordinary revert; call stopped inside a nested call]: states 1 and 3 are reported, state 0 is the next frontier *)
  frontier_run unit [1] [mkTstate (mkLeaf (CNode ENone []) (Some []) tt) false false;
                         mkTstate (mkLeaf (CNode EHalmos []) None tt) false false;
                         mkTstate (mkLeaf (CNode ERevert []) (Some []) tt) false false;
                         mkTstate (mkLeaf (CNode ENone [CNode EHalmos []]) None tt) false false]
    = mkFres [1%nat; 3%nat] [] [0%nat] None /\
  step_effects unit [1] (mkTstate (mkLeaf (CNode EHalmos []) None tt) true true) = FE_ERROR.
Proof. repeat split; reflexivity. Qed.
