(* C14 — Prank, state-setting cheatcodes and fresh symbols behave as specified.
   Statements only; every proof is `exact <lemma from Proofs/*.v>`.
   Gen/GenCheatSelectors.v (selector tables, cheatcode addresses, the addresses exempted by
   Prank.lookup, creator widths, vm.random* dispatch) is regenerated from
   /repo/src/halmos/{cheatcodes,console,sevm}.py on every run. *)
From Coq Require Import ZArith NArith List Bool String.
From HV Require Import Base.Keccak Base.SmtBV Gen.GenCheatSelectors Spec.FoundrySpec Spec.PrankKindSpec
  Gen.GenCopies Gen.GenPrankUse Model.PrankModel Model.PrankKindModel Model.CheatModel Model.ForkModel
  Proofs.PrankProofs Proofs.PrankKindProofs Proofs.CheatSelProofs Proofs.CheatProofs Proofs.ForkProofs.
Import ListNotations.
Open Scope Z_scope.

(* ------------------------------------------------------------------ selectors *)
(* every hevm cheatcode selector constant is the first four bytes of Keccak-256 of the
   signature written next to it; no selector occurs twice *)
Theorem C14_selectors_hevm :
  (forall sel sig, In (sel, sig) hevm_selectors -> selector_of_sig sig = sel) /\
  NoDup (map fst hevm_selectors).
Proof. exact (conj hevm_selectors_keccak hevm_selectors_nodup). Qed.
Print Assumptions C14_selectors_hevm.

Theorem C14_selectors_svm :
  (forall sel sig f, In (sel, sig, f) svm_handlers -> selector_of_sig sig = sel) /\
  NoDup (map (fun p => fst (fst p)) svm_handlers).
Proof. exact (conj svm_handlers_keccak svm_handlers_nodup). Qed.
Print Assumptions C14_selectors_svm.

(* ------------------------------------------------------------------ prank *)
(* For EVERY finite sequence of prank / prank2 / startPrank / startPrank2 / stopPrank /
   cheatcode call (vm.*, svm.*, console.log) / call / static call / create / return / new
   transaction, starting from any top-level frame, the sender and origin each entered frame
   observes under the model of halmos equal those of Foundry's documented meaning
   (ordinary calls do not target a cheatcode address: those are the OCheat ops). *)
Theorem C14_prank_trace :
  forall this sender origin ops,
    Forall target_ok ops ->
    m_run [m_fresh this sender origin] ops = s_run [s_fresh this sender origin] ops.
Proof. exact prank_trace. Qed.
Print Assumptions C14_prank_trace.

(* "never cheatcode calls": the callees Prank.lookup exempts are exactly the addresses
   SEVM.call treats as cheatcode addresses (hevm, svm, console -- both lists regenerated from
   the source), and a call to any of them, anywhere in any sequence, changes nothing any
   entered frame observes *)
Theorem C14_prank_exempt :
  forall a, In a prank_exempt <-> In a cheatcode_addresses.
Proof. exact prank_exempt_exact. Qed.
Print Assumptions C14_prank_exempt.

Theorem C14_prank_cheat_transparent :
  forall pre c post st,
    m_run st (pre ++ OCheat c :: post) = m_run st (pre ++ post).
Proof. exact cheat_call_transparent. Qed.
Print Assumptions C14_prank_cheat_transparent.

(* a second prank/startPrank while one is in force (by Foundry's reading of the frame's own
   history) is rejected, after every accepted prefix; otherwise it is accepted *)
Theorem C14_prank_reject :
  forall this sender origin pre o post sf srest,
    Forall target_ok pre ->
    s_after [s_fresh this sender origin] pre = Some (sf :: srest) ->
    in_effect (s_hist sf) false <> None -> is_prank_op o = true ->
    m_run [m_fresh this sender origin] (pre ++ o :: post) =
    m_run [m_fresh this sender origin] pre ++ [ObsError].
Proof. exact prank_reject. Qed.
Print Assumptions C14_prank_reject.

Theorem C14_prank_accept :
  forall this sender origin pre o sf srest,
    Forall target_ok pre ->
    s_after [s_fresh this sender origin] pre = Some (sf :: srest) ->
    in_effect (s_hist sf) false = None -> is_prank_op o = true ->
    m_after [m_fresh this sender origin] (pre ++ [o]) <> None.
Proof. exact prank_accept. Qed.
Print Assumptions C14_prank_accept.

(* never nested frames, never later transactions: an entered frame and a new transaction
   start with no prank, whatever the caller had set *)
Theorem C14_prank_not_inherited :
  (forall f rest k a st' out, m_step (f :: rest) (OCall k a) = MOk st' out ->
     exists g tl, st' = g :: tl /\ m_prank g = fresh_prank) /\
  (forall st t s o, m_step st (ONewTx t s o) = MOk [m_fresh t s o] []).
Proof. exact (conj entered_frame_is_clean new_tx_is_clean). Qed.
Print Assumptions C14_prank_not_inherited.

Example C14_prank_nonvacuous :
  (* startPrank2 in the outer frame, a nested frame pranking on its own, return, stop *)
  let ops := [OStartPrank2 7 8; OCall KCall 20; OCall KStatic 21; OReturn; OPrank 9; OCheat CHevm;
              OCheat CConsole; OCreate 22; OReturn; OCall KCall 23; OReturn; OReturn; OCall KCall 24; OReturn; OStopPrank;
              OCall KCall 25; OReturn; ONewTx 30 31 32; OCall KCall 33] in
  Forall target_ok ops /\
  m_run [m_fresh 1 2 3] ops =
    [Obs 7 8; Obs 20 8; Obs 9 8; Obs 20 8; Obs 7 8; Obs 1 3; Obs 30 32].
Proof.
  cbv zeta. split.
  - repeat constructor; cbn; vm_compute; intuition discriminate.
  - vm_compute. reflexivity.
Qed.

(* ------------------------------------------------------------------ prank x call kind x value
   Model/PrankKindModel.v: what SEVM.call / SEVM.create do with the resolved prank for CALL, CALLCODE,
   DELEGATECALL, STATICCALL, CREATE and CREATE2 -- which expression becomes the Message's target /
   caller / origin / value, which account handle_insufficient_fund_case and transfer_value are given --
   every selection regenerated from sevm.py (Gen/GenPrankUse.v) on every run.
   Spec/PrankKindSpec.v: the EVM's call family with the calling account replaced by the prank in force.

   For EVERY finite sequence of prank-family calls (one- and two-argument, one-shot and persistent),
   stopPrank, cheatcode calls, message calls of every kind, creations of both kinds -- each with any
   value --, returns and balance reads, from every top-level frame and every initial balance map:
   ADDRESS / CALLER / ORIGIN / CALLVALUE seen by each entered frame, which calls fail for lack of funds
   (decided on the PRANKED account's balance) and every balance read afterwards equal the specification's.
   (ks_scope: a value-bearing CALLCODE is made from the executing account itself, see C14_prank_callcode_value_outside.) *)
Theorem C14_prank_kinds :
  forall this sender origin value b ops,
    Forall ktarget_ok ops -> ks_scope [ks_fresh this sender origin value] b ops = true ->
    km_run [k_fresh this sender origin value] b ops = ks_run [ks_fresh this sender origin value] b ops.
Proof. exact prank_kinds. Qed.
Print Assumptions C14_prank_kinds.

(* the failing and the continuing side of the funds fork talk about the same account for every kind:
   no input is dropped (covered by no path) or covered by both *)
Theorem C14_prank_kinds_total :
  forall this sender origin value b ops,
    Forall ktarget_ok ops -> ks_scope [ks_fresh this sender origin value] b ops = true ->
    ~ In KObsLost (km_run [k_fresh this sender origin value] b ops) /\
    ~ In KObsDouble (km_run [k_fresh this sender origin value] b ops).
Proof. exact prank_kinds_total. Qed.
Print Assumptions C14_prank_kinds_total.

(* stated directly on one step: a prank (s, og) in force decides msg.sender of the next call of EVERY
   kind but DELEGATECALL, tx.origin when given, whose balance must cover the value; a one-shot prank
   is used up by that call -- also when it fails for lack of funds -- and the entered frame has none *)
Theorem C14_prank_every_call_kind :
  forall k a v this caller origin cv s og keep rest b,
  ~ In a cheatcode_addresses -> k <> CkDelegate ->
  let f := {| k_f := {| m_this := this; m_caller := caller; m_origin := origin;
                        m_prank := {| active := {| p_sender := Some s; p_origin := og |}; keep := keep |} |};
              k_value := cv |} in
  let o' := match og with Some x => x | None => origin end in
  let after := {| k_f := {| m_this := this; m_caller := caller; m_origin := origin;
                            m_prank := if keep then m_prank (k_f f) else fresh_prank |}; k_value := cv |} in
  (short (b s) (moved k v) = true /\ km_step (f :: rest) b (KCallK k a v) = KMOk (after :: rest) b [KObsNoFunds]) \/
  (short (b s) (moved k v) = false /\
   exists g b', km_step (f :: rest) b (KCallK k a v) = KMOk (g :: after :: rest) b' [k_obs g] /\
     m_caller (k_f g) = s /\ m_origin (k_f g) = o' /\ k_value g = moved k v /\ m_prank (k_f g) = fresh_prank /\
     m_this (k_f g) = match k with CkCall | CkStatic => a | _ => this end).
Proof. exact pending_prank_every_kind. Qed.
Print Assumptions C14_prank_every_call_kind.

(* ... and of a creation of either kind, which is paid for by the pranked account *)
Theorem C14_prank_every_create_kind :
  forall k a v this caller origin cv s og keep rest b,
  let f := {| k_f := {| m_this := this; m_caller := caller; m_origin := origin;
                        m_prank := {| active := {| p_sender := Some s; p_origin := og |}; keep := keep |} |};
              k_value := cv |} in
  let o' := match og with Some x => x | None => origin end in
  let after := {| k_f := {| m_this := this; m_caller := caller; m_origin := origin;
                            m_prank := if keep then m_prank (k_f f) else fresh_prank |}; k_value := cv |} in
  (short (b s) v = true /\ km_step (f :: rest) b (KCreate k a v) = KMOk (after :: rest) b [KObsNoFunds]) \/
  (short (b s) v = false /\
   exists b', km_step (f :: rest) b (KCreate k a v) = KMOk (k_fresh a s o' v :: after :: rest) b' [KObs a s o' v] /\
              forall x, b' x = move b s a v x).
Proof. exact pending_prank_create. Qed.
Print Assumptions C14_prank_every_create_kind.

(* outside the fragment (and said so): under a prank of ANOTHER address a CALLCODE that carries value
   moves nothing in halmos (SEVM.call's send_callvalue only requires the pranked account to hold it) *)
Theorem C14_prank_callcode_value_outside :
  km_run [k_fresh 1 2 3 0] gap_bal gap_ops <> ks_run [ks_fresh 1 2 3 0] gap_bal gap_ops /\
  ks_scope [ks_fresh 1 2 3 0] gap_bal gap_ops = false.
Proof. exact callcode_value_gap. Qed.
Print Assumptions C14_prank_callcode_value_outside.

Example C14_prank_kinds_nonvacuous :
  (* account 1 (holding 10) pranks as 7 (holding 100): a value-bearing CALL, then a persistent two-argument
     prank over CALLCODE / STATICCALL / DELEGATECALL / CREATE2 with value, a CREATE the pranked account cannot pay *)
  let b0 : balances := fun a => if a =? 7 then 100 else if a =? 1 then 10 else 0 in
  let ops := [KPrank false 7 None; KCallK CkCall 20 30; KReturn; KBalance 7; KBalance 1; KBalance 20;
              KPrank true 7 (Some 8); KCallK CkCallcode 21 0; KReturn; KCallK CkStatic 22 0; KReturn;
              KCallK CkDelegate 23 0; KReturn; KCreate NkCreate2 24 60; KReturn; KCreate NkCreate 25 60; KBalance 7; KBalance 24;
              KStopPrank; KCallK CkCallcode 26 4] in
  Forall ktarget_ok ops /\ ks_scope [ks_fresh 1 2 3 0] b0 ops = true /\
  km_run [k_fresh 1 2 3 0] b0 ops =
    [KObs 20 7 3 30; KObsBal 70; KObsBal 10; KObsBal 30;
     KObs 1 7 8 0; KObs 22 7 8 0; KObs 1 2 8 0; KObs 24 7 8 60; KObsNoFunds; KObsBal 10; KObsBal 60;
     KObs 1 1 3 4].
Proof.
  cbv zeta. split; [|split].
  - repeat constructor; cbn; vm_compute; intuition discriminate.
  - vm_compute. reflexivity.
  - vm_compute. reflexivity.
Qed.

(* ------------------------------------------------------------------ state cheatcodes *)
(* deal: a subsequent BALANCE of the targeted account returns the supplied amount, every
   other account, all storage, code and block fields are unchanged *)
Theorem C14_state_deal :
  forall w who amt,
  exists w', do_cheat w (Deal who amt) = SDone w' None /\
    (forall a, read_balance w' a = if u160 a =? u160 who then amt else read_balance w a) /\
    mw_storage w' = mw_storage w /\ mw_code w' = mw_code w /\ block_of w' = block_of w.
Proof. exact state_deal. Qed.
Print Assumptions C14_state_deal.

(* ... and the BALANCE opcode (which refuses concrete balances above MAX_ETH = 2^128) returns it *)
Theorem C14_state_deal_read :
  forall w who amt, 0 <= who < 2 ^ 160 -> 0 <= amt <= MAX_ETH ->
  exists w', do_cheat w (Deal who amt) = SDone w' None /\ read_balance_checked w' who = Some amt.
Proof. exact state_deal_read. Qed.
Print Assumptions C14_state_deal_read.

(* store (on an account with code, other than the DSTest fail() payload): that slot of that
   account reads the value, every other slot/account, balances, code and block unchanged *)
Theorem C14_state_store :
  forall w acct slot v,
  exists_acct w (u160 acct) = true -> is_fail_payload acct slot v = false ->
  exists w', do_cheat w (Store acct slot v) = SDone w' None /\
    (forall a s, read_storage w' a s = if (a =? u160 acct) && (s =? slot) then v else read_storage w a s) /\
    mw_balance w' = mw_balance w /\ mw_code w' = mw_code w /\ block_of w' = block_of w.
Proof. exact state_store. Qed.
Print Assumptions C14_state_store.

(* load returns what the account's slot holds (0 for an account that does not exist) and changes nothing;
   load after store returns the stored value *)
Theorem C14_state_load :
  (forall w acct slot,
     do_cheat w (Load acct slot) =
       SDone w (Some (if exists_acct w (u160 acct) then read_storage w (u160 acct) slot else 0))) /\
  (forall w acct slot v,
     exists_acct w (u160 acct) = true -> is_fail_payload acct slot v = false ->
     exists w', do_cheat w (Store acct slot v) = SDone w' None /\
                do_cheat w' (Load acct slot) = SDone w' (Some v)).
Proof. exact (conj state_load state_store_load). Qed.
Print Assumptions C14_state_load.

(* etch: the targeted account's code is the supplied code, other accounts' code, all storage
   (not cleared), balances and block unchanged *)
Theorem C14_state_etch :
  forall w who code,
  exists w', do_cheat w (Etch who code) = SDone w' None /\
    (forall a, read_code w' a = if a =? u160 who then Some code else read_code w a) /\
    mw_balance w' = mw_balance w /\ mw_storage w' = mw_storage w /\ block_of w' = block_of w.
Proof. exact state_etch. Qed.
Print Assumptions C14_state_etch.

(* warp / roll / fee / chainId / coinbase / difficulty: exactly that block field becomes the
   supplied word (coinbase: its low 160 bits), the other five and all accounts unchanged *)
Theorem C14_state_block :
  forall w x,
  (exists w', do_cheat w (Warp x) = SDone w' None /\ same_accounts w w' /\
     block_of w' = (mw_basefee w, mw_chainid w, mw_coinbase w, mw_difficulty w, mw_number w, x)) /\
  (exists w', do_cheat w (Roll x) = SDone w' None /\ same_accounts w w' /\
     block_of w' = (mw_basefee w, mw_chainid w, mw_coinbase w, mw_difficulty w, x, mw_timestamp w)) /\
  (exists w', do_cheat w (Fee x) = SDone w' None /\ same_accounts w w' /\
     block_of w' = (x, mw_chainid w, mw_coinbase w, mw_difficulty w, mw_number w, mw_timestamp w)) /\
  (exists w', do_cheat w (ChainId x) = SDone w' None /\ same_accounts w w' /\
     block_of w' = (mw_basefee w, x, mw_coinbase w, mw_difficulty w, mw_number w, mw_timestamp w)) /\
  (exists w', do_cheat w (Coinbase x) = SDone w' None /\ same_accounts w w' /\
     block_of w' = (mw_basefee w, mw_chainid w, u160 x, mw_difficulty w, mw_number w, mw_timestamp w)) /\
  (exists w', do_cheat w (Difficulty x) = SDone w' None /\ same_accounts w w' /\
     block_of w' = (mw_basefee w, mw_chainid w, mw_coinbase w, x, mw_number w, mw_timestamp w)).
Proof. exact state_block. Qed.
Print Assumptions C14_state_block.

(* ------------------------------------------------------------------ ... on every path *)
(* The theorems above are about one path.  halmos keeps the world of a path in mutable objects
   (ex.block, ex.storage, ex.code; ex.balance is an immutable term) and at a symbolic branch
   SEVM.create_branch derives the sibling's Exec, copying some fields and sharing others
   (Gen/GenCopies.v create_branch_table, regenerated from sevm.py on every run).
   Model/ForkModel.v gives objects identity: heaps of Block / storage / code objects, in-place
   mutation through the Exec's references, the worklist order of SEVM.jumpi.

   For EVERY program -- any tree of state cheatcodes, reads and symbolic two-sided branches,
   nested to any depth -- from every initial world, the outputs of the paths of that run are
   those of the value semantics spec_run, where both sides of a branch continue from the same
   world VALUE: what one path sets, no sibling path reads. *)
Theorem C14_fork_isolation :
  forall t w, snd (run (init_heaps w) (init_exec w) t []) = spec_run w t [].
Proof. exact fork_isolation_init. Qed.
Print Assumptions C14_fork_isolation.

(* the same from any heap and any Exec whose references are valid *)
Theorem C14_fork_isolation_any_heap :
  forall t h x, wfx h x -> snd (run h x t []) = spec_run (view h x) t [].
Proof. exact fork_isolation. Qed.
Print Assumptions C14_fork_isolation_any_heap.

(* and the value semantics is "every path on its own": each output is the straight-line run
   (lin_run: do_cheat and the reads of the theorems above, item after item) of a root-to-leaf
   item sequence, and every root-to-leaf sequence is represented *)
Theorem C14_fork_paths :
  (forall t w acc out, In out (spec_run w t acc) -> exists p, In p (paths t) /\ out = acc ++ lin_run w p) /\
  (forall t w acc p, In p (paths t) -> In (acc ++ lin_run w p) (spec_run w t acc)).
Proof. exact (conj spec_run_sound spec_run_complete). Qed.
Print Assumptions C14_fork_paths.

(* the copies are what makes it true: for a create_branch with arbitrary copy kinds
   (kb, ks, kc) for block / storage / code, isolation holds for every program EXACTLY when the
   new Exec gets its own Block object, a deep copy of the storage and its own code dict *)
Theorem C14_fork_isolation_iff :
  forall kb ks kc,
    (forall t w, snd (run_with kb ks kc (init_heaps w) (init_exec w) t []) = spec_run w t []) <->
    copied kb && deep_copied ks && copied kc = true.
Proof. exact fork_isolation_iff. Qed.
Print Assumptions C14_fork_isolation_iff.

(* the in-place premise, tied to the source: for every arm of hevm_cheat_code.handle in the
   regenerated table (selector constant, attribute of ex.block, uint160?) and all worlds and
   words, the model's cheat for that selector sets exactly that attribute and nothing else;
   all six block-setting selectors are in the table *)
Theorem C14_block_handlers :
  (forall sel f trunc, In (sel, f, trunc) block_handlers -> forall w x,
     exists c w' i,
       cheat_of_selector sel x = Some c /\ do_cheat w c = SDone w' None /\ field_index f = Some i /\
       blk_list w' = ForkModel.upd (blk_list w) i (if trunc then u160 x else x) /\
       mw_balance w' = mw_balance w /\ mw_storage w' = mw_storage w /\ mw_code w' = mw_code w) /\
  forallb (fun s => existsb (fun e => N.eqb (fst (fst e)) s) block_handlers)
          [fee_sig; chainid_sig; coinbase_sig; difficulty_sig; roll_sig; warp_sig] = true /\
  List.length block_handlers = 6%nat.
Proof. exact (conj block_handlers_in_place block_handlers_cover). Qed.
Print Assumptions C14_block_handlers.

Example C14_fork_nonvacuous :
  (* vm.warp(100); vm.store(1,5,7); if (c) { if (d) { timestamp } else { vm.roll(4); number } ; sload }
     else { vm.warp(300); vm.store(1,5,9); vm.etch(2, ..) ; timestamp } *)
  let t := FItem (ICheat (Warp 100)) (FItem (ICheat (Store 1 5 7))
             (FFork (FItem (ICheat (Warp 300)) (FItem (ICheat (Store 1 5 9)) (FItem (ICheat (Etch 2 [1; 2])) (FItem ITimestamp FEnd))))
                    (FFork (FItem (ICheat (Roll 4)) (FItem INumber (FItem (ISload 1 5) FEnd)))
                           (FItem ITimestamp (FItem INumber (FItem (ISload 1 5) (FItem (IExtcodesize 2) FEnd))))))) in
  snd (run (init_heaps w0) (init_exec w0) t []) = [[1; 1; 1; 1; 1; 300]; [1; 1; 1; 4; 7]; [1; 1; 100; 0; 7; -1]] /\
  (* with a shared Block object the last path would read the sibling's vm.warp(300) and vm.roll(4) *)
  snd (run_with Share Deep Shallow (init_heaps w0) (init_exec w0) t []) =
    [[1; 1; 1; 1; 1; 300]; [1; 1; 1; 4; 7]; [1; 1; 300; 4; 7; -1]].
Proof. split; vm_compute; reflexivity. Qed.

(* ------------------------------------------------------------------ created values *)
(* createUint(n) / randomUint(n), every width 1..256: one fresh symbol, a 32-byte word that
   is < 2^n under every valuation, and every value < 2^n is denoted by some valuation *)
Theorem C14_create_w_uint :
  forall cnt n, 1 <= n <= 256 ->
  exists t, create_uint cnt n = COk (cnt + 1)%N [CTerm 32 t] [] /\ term_ids t = [(cnt + 1)%N] /\
    (forall rho, is_uintN n (eval rho t)) /\
    (forall v, 0 <= v < 2 ^ n -> eval (fun _ => v) t = v).
Proof. exact create_uint_ok. Qed.
Print Assumptions C14_create_w_uint.

(* createInt(n) / randomInt(n): sign extension -- exactly the two's-complement words of
   [-2^(n-1), 2^(n-1)) *)
Theorem C14_create_w_int :
  forall cnt n, 1 <= n <= 256 ->
  exists t, create_int cnt n = COk (cnt + 1)%N [CTerm 32 t] [] /\ term_ids t = [(cnt + 1)%N] /\
    (forall rho, is_intN n (eval rho t)) /\
    (forall s, - 2 ^ (n - 1) <= s < 2 ^ (n - 1) -> exists rho, eval rho t = s mod 2 ^ 256).
Proof. exact create_int_ok. Qed.
Print Assumptions C14_create_w_int.

Theorem C14_create_w_too_wide : forall cnt n, 256 < n -> create_uint cnt n = CErr cnt.
Proof. exact create_uint_too_wide. Qed.
Print Assumptions C14_create_w_too_wide.

Theorem C14_create_w_bool :
  forall cnt,
  exists t, create_fixed "create_bool" cnt = COk (cnt + 1)%N [CTerm 32 t] [] /\ term_ids t = [(cnt + 1)%N] /\
    (forall rho, is_bool (eval rho t)) /\ (forall v, is_bool v -> eval (fun _ => v) t = v).
Proof. exact create_bool_ok. Qed.
Print Assumptions C14_create_w_bool.

Theorem C14_create_w_address :
  forall cnt,
  exists t, create_fixed "create_address" cnt = COk (cnt + 1)%N [CTerm 32 t] [] /\ term_ids t = [(cnt + 1)%N] /\
    (forall rho, is_address (eval rho t)) /\ (forall v, is_address v -> eval (fun _ => v) t = v).
Proof. exact create_address_ok. Qed.
Print Assumptions C14_create_w_address.

(* bytes4 / bytes8: left aligned, zero padded on the right *)
Theorem C14_create_w_bytesN :
  forall cnt,
  (exists ret, create_fixed "create_bytes4" cnt = COk (cnt + 1)%N ret [] /\ ret_ids ret = [(cnt + 1)%N] /\ ret_len ret = 32 /\
     (forall rho, is_bytesN 4 (ret_value rho ret 0)) /\
     (forall v, 0 <= v < 2 ^ 32 -> ret_value (fun _ => v) ret 0 = v * 2 ^ (8 * 28))) /\
  (exists ret, create_fixed "create_bytes8" cnt = COk (cnt + 1)%N ret [] /\ ret_ids ret = [(cnt + 1)%N] /\ ret_len ret = 32 /\
     (forall rho, is_bytesN 8 (ret_value rho ret 0)) /\
     (forall v, 0 <= v < 2 ^ 64 -> ret_value (fun _ => v) ret 0 = v * 2 ^ (8 * 24))).
Proof. exact create_bytesN_ok. Qed.
Print Assumptions C14_create_w_bytesN.

(* bytes / string of n > 0 bytes: 64 + n bytes = offset 32 ‖ length n ‖ n unconstrained bytes
   (read as one big-endian number); n = 0: offset ‖ 0, no symbol, counter untouched *)
Theorem C14_create_w_bytes :
  (forall cnt ty n, 0 < n ->
   exists ret, create_bytes cnt ty n = COk (cnt + 1)%N ret [] /\ ret_ids ret = [(cnt + 1)%N] /\
     ret_len ret = 64 + n /\
     (forall rho, exists d, 0 <= d < 2 ^ (8 * n) /\ ret_value rho ret 0 = (32 * 2 ^ 256 + n) * 2 ^ (8 * n) + d) /\
     (forall d, 0 <= d < 2 ^ (8 * n) -> ret_value (fun _ => d) ret 0 = (32 * 2 ^ 256 + n) * 2 ^ (8 * n) + d)) /\
  (forall cnt ty,
     create_bytes cnt ty 0 = COk cnt [CConst 32 32; CConst 32 0] [] /\
     (forall rho, ret_value rho [CConst 32 32; CConst 32 0] 0 = 32 * 2 ^ 256)).
Proof. exact (conj create_bytes_ok create_bytes_empty). Qed.
Print Assumptions C14_create_w_bytes.

(* createUint256(name, min, max) / randomUint(min, max): the constraints put on the path hold
   exactly for the values of [min, max]; min > max is rejected *)
Theorem C14_create_w_min_max :
  (forall cnt mn mx, 0 <= mn -> mn <= mx < 2 ^ 256 ->
   exists t cs, create_min_max cnt mn mx = COk (cnt + 1)%N [CTerm 32 t] cs /\ term_ids t = [(cnt + 1)%N] /\
     (forall rho, forallb (cond_holds rho) cs = true <-> mn <= eval rho t <= mx) /\
     (forall v, mn <= v <= mx -> eval (fun _ => v) t = v /\ forallb (cond_holds (fun _ => v)) cs = true)) /\
  (forall cnt mn mx, mx < mn -> create_min_max cnt mn mx = CErr (cnt + 1)%N).
Proof. exact (conj create_min_max_ok create_min_max_reject). Qed.
Print Assumptions C14_create_w_min_max.

(* vm.random* and svm.create* reach the creator of their Solidity return type *)
Theorem C14_create_dispatch :
  (forallb (fun '(_, sig, f, _) => opt_str_eqb (sig_lookup sig sig_creator) f) random_dispatch = true /\
   List.length random_dispatch = 10%nat) /\
  forallb (fun '(sig, f) =>
             existsb (fun '(_, sig', f') => String.eqb sig sig' && String.eqb f f') svm_handlers)
          (firstn 11 sig_creator) = true.
Proof. exact (conj random_dispatch_ok svm_dispatch_ok). Qed.
Print Assumptions C14_create_dispatch.

(* ------------------------------------------------------------------ freshness *)
(* names with different counters differ, whatever variable name, type name and uid fragment *)
Theorem C14_fresh :
  forall n1 t1 u1 id1 n2 t2 u2 id2, id1 <> id2 -> label n1 t1 u1 id1 <> label n2 t2 u2 id2.
Proof. exact label_fresh. Qed.
Print Assumptions C14_fresh.

(* for EVERY sequence of creator calls on a path (any creators, arguments, starting counter):
   the created symbol ids, and hence their names, are pairwise distinct *)
Theorem C14_fresh_sequence :
  forall calls cnt (nm uid ty : N -> string),
    NoDup (flat_map cres_ids (run_creators cnt calls)) /\
    NoDup (map (fun id => label (nm id) (ty id) (uid id) id) (flat_map cres_ids (run_creators cnt calls))).
Proof. exact fresh_sequence. Qed.
Print Assumptions C14_fresh_sequence.

(* independence: giving the new symbol any value leaves every term over other symbols unchanged *)
Theorem C14_fresh_independent :
  forall t rho id v, ~ In id (term_ids t) -> eval (upd rho id v) t = eval rho t.
Proof. exact eval_upd_other. Qed.
Print Assumptions C14_fresh_independent.

Example C14_create_nonvacuous :
  run_creators 8 [("create_uint"%string, 8, 0); ("create_bytes"%string, 0, 0); ("create_int"%string, 300, 0);
                  ("create_uint256_min_max"%string, 5, 4); ("create_bool"%string, 0, 0)] =
  [ COk 9 [CTerm 32 (TZext 248 (TSym 9 8 "uint8"))] [];
    COk 9 [CConst 32 32; CConst 32 0] [];
    CErr 9;
    CErr 10;
    COk 11 [CTerm 32 (TZext 255 (TSym 11 1 "bool"))] [] ] /\
  label "x" "uint8" "abcdef0" 9 = "halmos_x_uint8_abcdef0_09"%string /\
  label "x" "uint8" "abcdef0" 100 = "halmos_x_uint8_abcdef0_100"%string.
Proof. repeat split; vm_compute; reflexivity. Qed.
