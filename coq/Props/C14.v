(* C14 — Prank, state-setting cheatcodes and fresh symbols behave as specified.
   Statements only; every proof is `exact <lemma from Proofs/*.v>`.
   Gen/GenCheatSelectors.v (selector tables, cheatcode addresses, the addresses exempted by
   Prank.lookup, creator widths, vm.random* dispatch) is regenerated from
   /repo/src/halmos/{cheatcodes,console,sevm}.py on every run. *)
From Coq Require Import ZArith NArith List Bool String.
From HV Require Import Base.Keccak Base.SmtBV Gen.GenCheatSelectors Spec.FoundrySpec
  Model.PrankModel Model.CheatModel Proofs.PrankProofs Proofs.CheatSelProofs Proofs.CheatProofs.
Import ListNotations.
Open Scope Z_scope.

(* ------------------------------------------------------------------ selectors *)
(* every hevm cheatcode selector constant is the first four bytes of Keccak-256 of the
   signature written next to it; no selector occurs twice *)
Theorem C14_selectors_hevm :
  (forall sel sig, In (sel, sig) hevm_selectors -> selector_of_sig sig = sel) /\
  NoDup (map fst hevm_selectors).
Proof. exact (conj hevm_selectors_keccak hevm_selectors_nodup). Qed.
Print Assumptions C14_selectors_hevm.

Theorem C14_selectors_svm :
  (forall sel sig f, In (sel, sig, f) svm_handlers -> selector_of_sig sig = sel) /\
  NoDup (map (fun p => fst (fst p)) svm_handlers).
Proof. exact (conj svm_handlers_keccak svm_handlers_nodup). Qed.
Print Assumptions C14_selectors_svm.

(* ------------------------------------------------------------------ prank *)
(* For EVERY finite sequence of prank / prank2 / startPrank / startPrank2 / stopPrank /
   cheatcode call / call / static call / create / return / new transaction, starting from
   any top-level frame, the sender and origin each entered frame observes under the model of
   halmos equal those of Foundry's documented meaning -- provided no console.log call
   occurs (see C14_prank_trace_refuted) and ordinary calls do not target a cheatcode address. *)
Theorem C14_prank_trace_partial :
  forall this sender origin ops,
    Forall not_console ops -> Forall target_ok ops ->
    m_run [m_fresh this sender origin] ops = s_run [s_fresh this sender origin] ops.
Proof. exact prank_trace. Qed.
Print Assumptions C14_prank_trace_partial.

(* The full statement (console.log included among the cheatcode calls, as in
   sevm.CHEATCODE_ADDRESSES and in Foundry) is false of halmos: Prank.lookup exempts only
   the hevm and svm addresses, so a console.log between vm.prank(a) and the call consumes
   the prank and the call is made with the unpranked sender. *)
Theorem C14_prank_trace_refuted :
  exists this sender origin ops,
    Forall target_ok ops /\
    m_run [m_fresh this sender origin] ops <> s_run [s_fresh this sender origin] ops.
Proof. exact prank_trace_refuted. Qed.
Print Assumptions C14_prank_trace_refuted.

Theorem C14_prank_exempt_refuted :
  exists a, In a cheatcode_addresses /\ ~ In a prank_exempt.
Proof. exact prank_exempt_incomplete. Qed.
Print Assumptions C14_prank_exempt_refuted.

(* a second prank/startPrank while one is in force (by Foundry's reading of the frame's own
   history) is rejected, after every accepted prefix; otherwise it is accepted *)
Theorem C14_prank_reject :
  forall this sender origin pre o post sf srest,
    Forall not_console pre -> Forall target_ok pre ->
    s_after [s_fresh this sender origin] pre = Some (sf :: srest) ->
    in_effect (s_hist sf) false <> None -> is_prank_op o = true ->
    m_run [m_fresh this sender origin] (pre ++ o :: post) =
    m_run [m_fresh this sender origin] pre ++ [ObsError].
Proof. exact prank_reject. Qed.
Print Assumptions C14_prank_reject.

Theorem C14_prank_accept :
  forall this sender origin pre o sf srest,
    Forall not_console pre -> Forall target_ok pre ->
    s_after [s_fresh this sender origin] pre = Some (sf :: srest) ->
    in_effect (s_hist sf) false = None -> is_prank_op o = true ->
    m_after [m_fresh this sender origin] (pre ++ [o]) <> None.
Proof. exact prank_accept. Qed.
Print Assumptions C14_prank_accept.

(* never nested frames, never later transactions: an entered frame and a new transaction
   start with no prank, whatever the caller had set *)
Theorem C14_prank_not_inherited :
  (forall f rest k a st' out, m_step (f :: rest) (OCall k a) = MOk st' out ->
     exists g tl, st' = g :: tl /\ m_prank g = fresh_prank) /\
  (forall st t s o, m_step st (ONewTx t s o) = MOk [m_fresh t s o] []).
Proof. exact (conj entered_frame_is_clean new_tx_is_clean). Qed.
Print Assumptions C14_prank_not_inherited.

Example C14_prank_nonvacuous :
  (* startPrank2 in the outer frame, a nested frame pranking on its own, return, stop *)
  let ops := [OStartPrank2 7 8; OCall KCall 20; OCall KStatic 21; OReturn; OPrank 9; OCheat CHevm;
              OCreate 22; OReturn; OCall KCall 23; OReturn; OReturn; OCall KCall 24; OReturn; OStopPrank;
              OCall KCall 25; OReturn; ONewTx 30 31 32; OCall KCall 33] in
  Forall not_console ops /\ Forall target_ok ops /\
  m_run [m_fresh 1 2 3] ops =
    [Obs 7 8; Obs 20 8; Obs 9 8; Obs 20 8; Obs 7 8; Obs 1 3; Obs 30 32].
Proof.
  cbv zeta. split; [|split].
  - repeat constructor.
  - repeat constructor; cbn; vm_compute; intuition discriminate.
  - vm_compute. reflexivity.
Qed.
