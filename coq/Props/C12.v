(* C12 -- symbolic calldata is a fully general, well-formed ABI encoding.
   Statements only; every proof is `exact <lemma from Proofs/AbiEnc*.v>`.
   Spec/AbiSpec.v: the ABI decoder [decode], the admitted values [admits], [cfg_ok], [wf_ty].
   Model/AbiEncModel.v: [encode] = Calldata.encode, [parse_inputs] = parse_tuple_type,
   [calldataload] = the size-symbol branching of SEVM.calldataload, [prun] = a path registering
   several calldata.  Gen/GenAbiEnc.v (size_pad_right, head_size, sizes, flags, type-name
   patterns) is regenerated from /repo/src/halmos/calldata.py, Gen/GenDynParams.v
   (process_dyn_params, the decision chain of calldataload, the concretization a path gets from
   Path.branch / Path.extend_path) from /repo/src/halmos/sevm.py, on every run. *)
From Coq Require Import String.
From Coq Require Import ZArith List Bool Lia.
From HV Require Import Spec.AbiSpec Gen.GenAbiEnc Gen.GenDynParams Model.AbiEncModel
  Proofs.AbiEncProofs Proofs.AbiEncInv Proofs.AbiEncInstance Proofs.AbiEncMain Proofs.AbiEncCand.
Import ListNotations.
Open Scope Z_scope.

(* GENERALITY.  For every type tree without zero-length fixed arrays, every usable length
   configuration, every parameter name and starting symbol index: every value of that type whose
   dynamic lengths are among the configured candidates of the respective parameter is an instance
   of the symbolic calldata -- there is a valuation of the symbols (word symbols rw, byte-string
   symbols rb) that gives every size symbol one of its candidates and under which the ABI
   decoder returns exactly that value.  (Calldata shorter than 2^256 bytes.) *)
Theorem C12_instance :
  forall t c name k e ds k' v,
    wf_ty t -> cfg_ok c -> encode c name t k = (e, ds, k') -> Z.of_nat (e_size e) < W256 ->
    admits c name t v ->
    exists rw rb,
      (forall d, In d ds -> exists n, In n (d_sizes d) /\ rw (d_id d) = Z.of_nat n) /\
      decode (instantiate rw rb (e_items e)) t 0 = Some v.
Proof. exact instance_valuation. Qed.
Print Assumptions C12_instance.

(* SIZE.  The reported size is the byte length of the calldata under every valuation (this is
   also the sanity check of Calldata.create), and the sum of the item sizes. *)
Theorem C12_size :
  forall t c name k e ds k' rw rb,
    encode c name t k = (e, ds, k') ->
    length (instantiate rw rb (e_items e)) = e_size e /\ e_size e = items_size (e_items e).
Proof.
  exact (fun t c name k e ds k' rw rb H =>
           conj (instantiate_length t c name k e ds k' rw rb H)
                (inv_size _ _ _ _ _ (encode_inv t c name k e ds k' H))).
Qed.
Print Assumptions C12_size.

(* the static/dynamic flag is the ABI's notion, and a static encoding has the ABI's head size *)
Theorem C12_static_flag :
  forall t, wf_ty t -> forall c name k e ds k',
    encode c name t k = (e, ds, k') ->
    e_static e = negb (is_dyn t) /\ (e_static e = true -> e_size e = static_size t).
Proof. exact encode_static. Qed.
Print Assumptions C12_static_flag.

(* INDEPENDENCE.  No symbol occurs twice: the symbol indices of the items are pairwise distinct
   and lie in [k, k'), so consecutive encodings never share a symbol either.  (With C12_instance:
   the leaves of the decoded value are distinct symbols, or disjoint slices of a bytes symbol.) *)
Theorem C12_indep :
  forall t c name k e ds k',
    encode c name t k = (e, ds, k') ->
    NoDup (ids (e_items e)) /\ (k <= k')%nat /\
    forall i, In i (ids (e_items e)) -> (k <= i < k')%nat.
Proof.
  exact (fun t c name k e ds k' H =>
           let Hi := encode_inv t c name k e ds k' H in
           conj (inv_nodup _ _ _ _ _ Hi) (conj (inv_le _ _ _ _ _ Hi) (inv_ids _ _ _ _ _ Hi))).
Qed.
Print Assumptions C12_indep.

(* every constant in the calldata is an offset within it *)
Theorem C12_offsets_in_range :
  forall t c name k e ds k' z,
    encode c name t k = (e, ds, k') -> In (Con z) (e_items e) -> 0 <= z <= Z.of_nat (e_size e).
Proof. exact (fun t c name k e ds k' z H => inv_con _ _ _ _ _ (encode_inv t c name k e ds k' H) z). Qed.
Print Assumptions C12_offsets_in_range.

(* CANDIDATES.  The size symbols in the calldata are exactly the registered dynamic parameters,
   in order, each with exactly the lengths configured for its name and kind ... *)
Theorem C12_dynparams :
  forall t c name k e ds k',
    encode c name t k = (e, ds, k') ->
    dyns (e_items e) = map dpair ds /\
    Forall (fun d => d_sizes d = cand c (d_name d) (d_array d)) ds.
Proof.
  exact (fun t c name k e ds k' H =>
           let Hi := encode_inv t c name k e ds k' H in
           conj (inv_dyn _ _ _ _ _ Hi) (inv_dcand _ _ _ _ _ Hi)).
Qed.
Print Assumptions C12_dynparams.

(* ... and loading a size symbol that the path has not fixed yet gives one successor per
   candidate, in order, none dropped: condition `symbol == candidate`, candidate pushed *)
Theorem C12_candidates :
  forall t c name k e ds k' d,
    encode c name t k = (e, ds, k') -> In d ds ->
    calldataload [] (process_dyn_params ds []) (LVar (d_id d))
    = map (fun n => (Some (d_id d, n), PConst (Z.of_nat n))) (d_sizes d).
Proof. exact candidates_branch. Qed.
Print Assumptions C12_candidates.

(* EVERY CALLDATA OF THE PATH.  A path registers many calldata (setUp's, the test's, one per
   invariant transaction, one per target function of svm.createCalldata), in one
   Concretization that is copied by Path.branch / Path.extend_path, while the symbol counter runs
   on and branch conditions fix size symbols.  For every sequence of such events, from every
   state: at the end every size symbol of every calldata registered along the way still yields
   one successor per candidate, in order (or the constant the path has fixed it to) -- no later
   registration, copy or fix drops the candidates of an earlier calldata -- and the candidates
   are the ones configured for that parameter in the calldata event that created it.
   (process_dyn_params and the two copies are regenerated from sevm.py: Gen/GenDynParams.v.) *)
Theorem C12_candidates_path :
  forall evs s s' all d,
    prun s evs = (s', all) -> In d all ->
    calldataload (p_subst s') (p_cands s') (LVar (d_id d))
    = match assoc (p_subst s') (d_id d) with
      | Some z => [(None, PConst z)]
      | None => map (fun n => (Some (d_id d, n), PConst (Z.of_nat n))) (d_sizes d)
      end.
Proof. exact candidates_path. Qed.
Print Assumptions C12_candidates_path.

Theorem C12_candidates_path_configured :
  forall evs s s' all d,
    prun s evs = (s', all) -> In d all ->
    exists c t, In (EvCalldata c t) evs /\ d_sizes d = cand c (d_name d) (d_array d).
Proof. exact path_configured. Qed.
Print Assumptions C12_candidates_path_configured.

(* ... and no symbol is shared between two calldata of a path either: all the items created along
   a run carry pairwise distinct symbol indices (the leaves of different transactions' arguments
   are independent of each other, too) *)
Theorem C12_path_indep :
  forall evs s,
    NoDup (ids (pitems s evs)) /\ forall i, In i (ids (pitems s evs)) -> (p_next s <= i)%nat.
Proof. exact path_symbols_distinct. Qed.
Print Assumptions C12_path_indep.

(* non-vacuity: svm.createCalldata on a contract with f(bytes data) and g(uint256[] xs), then the
   path of the call made with f's calldata: data still branches over {0,65,1024}, xs over {3,5} *)
Example C12_candidates_path_nonvacuous :
  let c := {| c_lengths := [(codes "xs", [3%nat; 5%nat])]; c_array := [0%nat; 1%nat; 2%nat];
              c_bytes := [0%nat; 65%nat; 1024%nat] |} in
  let f := Tuple [(codes "data", Base s_bytes)] in
  let g := Tuple [(codes "xs", Dyn (Base (codes "uint256"%string)))] in
  let '(s', all) := prun {| p_next := 0; p_subst := []; p_cands := [] |}
                         [EvSkip 2; EvCalldata c f; EvCalldata c g; EvExtend; EvBranch] in
  map d_id all = [3%nat; 4%nat] /\
  calldataload (p_subst s') (p_cands s') (LVar 3)
  = [(Some (3%nat, 0%nat), PConst 0); (Some (3%nat, 65%nat), PConst 65); (Some (3%nat, 1024%nat), PConst 1024)] /\
  calldataload (p_subst s') (p_cands s') (LVar 4)
  = [(Some (4%nat, 3%nat), PConst 3); (Some (4%nat, 5%nat), PConst 5)].
Proof. vm_compute. repeat split; reflexivity. Qed.

(* once fixed by the path condition the symbol reads as that constant; other words are untouched *)
Theorem C12_candidates_fixed :
  forall subst cands k z,
    assoc subst k = Some z -> calldataload subst cands (LVar k) = [(None, PConst z)].
Proof. exact calldataload_fixed. Qed.
Print Assumptions C12_candidates_fixed.

Theorem C12_candidates_other :
  forall subst cands k,
    assoc subst k = None -> assoc cands k = None ->
    calldataload subst cands (LVar k) = [(None, PSame)] /\ calldataload subst cands LOther = [(None, PSame)].
Proof. exact calldataload_other. Qed.
Print Assumptions C12_candidates_other.

(* REJECTION.  Whatever parse_tuple_type accepts has only elementary leaves that are lexically
   ABI type names (address, bool, string, uint/int/bytes + digits) -- up to Python's `$` also
   matching before one trailing newline; everything else (fixedMxN, ufixedMxN, function, ...)
   raises instead of being encoded. *)
Theorem C12_reject :
  forall inputs t s,
    parse_inputs inputs = Some t -> In s (leaves t) ->
    strip_nl s = gen_s_tuple \/ lex_elementary (strip_nl s).
Proof. exact parse_reject. Qed.
Print Assumptions C12_reject.

Example C12_reject_examples :
  parse_inputs [JItem [] (codes "function"%string) []] = None /\
  parse_inputs [JItem [] (codes "fixed128x18"%string) []] = None /\
  parse_inputs [JItem [] (codes "ufixed8x1[]"%string) []] = None /\
  parse_inputs [JItem [] (codes "uint256["%string) []] = None /\
  parse_inputs [JItem [] (codes "tuple[2]"%string) [JItem [] (codes "function"%string) []]] = None /\
  parse_inputs [JItem (codes "x"%string) (codes "bytes32[2][]"%string) []]
    = Some (Tuple [(codes "x", Dyn (Fixed (Base (codes "bytes32"%string)) 2))]).
Proof. repeat split; vm_compute; reflexivity. Qed.

(* recorded gaps (the full-strength statements are false of the code as it is; none of these
   inputs can come out of solc):
   - the pattern admits widths that do not exist (uint7, bytes33): accepted, not classified *)
Theorem C12_reject_widths_refuted :
  exists s t, parse_inputs [JItem [] s []] = Some t /\ In s (leaves t) /\ classify s = KUnknown.
Proof. exact reject_widths_witness. Qed.
Print Assumptions C12_reject_widths_refuted.

(*  - `bytes` followed by a newline is accepted and then encoded as a static word *)
Theorem C12_reject_newline_refuted :
  exists s t, parse_inputs [JItem [] s []] = Some t /\ In s (leaves t) /\
              strip_nl s = s_bytes /\ is_dyn_base s = false.
Proof. exact reject_newline_witness. Qed.
Print Assumptions C12_reject_newline_refuted.

(*  - T[0] with a dynamic T is reported static (hence wf_ty in C12_static_flag / C12_instance) *)
Theorem C12_static_flag_zero_length_refuted :
  exists c t, ~ wf_ty t /\
    e_static (fst (fst (encode c [] t 0))) <> negb (is_dyn t).
Proof. exact static_flag_zero_length_witness. Qed.
Print Assumptions C12_static_flag_zero_length_refuted.

(* non-vacuity: f(bytes[] x, uint256) with x in {1,2} elements, bytes of length 0 or 2 *)
Example C12_instance_nonvacuous :
  let c := {| c_lengths := []; c_array := [1%nat; 2%nat]; c_bytes := [0%nat; 2%nat] |} in
  let t := Tuple [(codes "x", Dyn (Base s_bytes)); ([], Base (codes "uint256"%string))] in
  let v := VSeq [VSeq [VBytes [171; 205]]; VWord 5] in
  wf_ty t /\ cfg_ok c /\ admits c [] t v /\
  exists e ds k', encode c [] t 0 = (e, ds, k') /\ Z.of_nat (e_size e) < W256 /\
                  length ds = 3%nat /\ e_size e = 288%nat /\ e_static e = false /\
                  decode (instantiate (fun i => match i with 0%nat => 1 | 2%nat => 2 | 5%nat => 5 | _ => 0 end)
                                      (fun i => match i with 1%nat => [171; 205] | _ => [] end)
                                      (e_items e)) t 0 = Some v.
Proof.
  cbv zeta. split; [cbn; tauto|]. split.
  { intros name arr. unfold cand. cbn [lookup c_lengths]. destruct arr; cbn [c_array c_bytes].
    - split; [discriminate|]. repeat constructor; unfold W256; vm_compute; reflexivity.
    - split; [discriminate|]. repeat constructor; unfold W256; vm_compute; reflexivity. }
  split.
  { cbn [admits map fst snd all2]. eexists. split; [reflexivity|]. cbn [all2]. split.
    - eexists. split; [reflexivity|]. split; [vm_compute; auto|].
      cbn [length seq map all2]. split; [|exact I].
      cbn [admits]. change (base_dyn s_bytes) with true. cbv iota.
      eexists. split; [reflexivity|]. split; [vm_compute; auto|].
      constructor; [unfold byte_ok; lia|constructor; [unfold byte_ok; lia|constructor]].
    - split; [|exact I]. cbn [admits].
      replace (base_dyn (codes "uint256"%string)) with false by (vm_compute; reflexivity).
      eexists. split; [reflexivity|]. vm_compute. reflexivity. }
  do 3 eexists. split; [vm_compute; reflexivity|].
  repeat split; try (vm_compute; reflexivity).
Qed.
