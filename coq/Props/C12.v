(* C12 -- symbolic calldata is a fully general, well-formed ABI encoding.  Statements only. *)
From Coq Require Import ZArith List Bool.
From HV Require Import Spec.AbiSpec Gen.GenAbiEnc Model.AbiEncModel Proofs.AbiEncProofs.
Import ListNotations.
Open Scope Z_scope.

Theorem C12_pad : forall n, (pad n = (n + 31) / 32 * 32)%nat.
Proof. exact pad_spec. Qed.
Print Assumptions C12_pad.
