(* C19 — Bytecode decoding and jump-destination validity follow the EVM.
   Statements only; every proof is `exact <lemma from Proofs/CodeProofs.v>`.
   GenOpcodes.v (opcode constants, insn_len) is regenerated from
   /repo/src/halmos/contract.py on every run. *)
From Coq Require Import ZArith List Bool.
From HV Require Import Gen.GenOpcodes Spec.CodeSpec Model.CodeModel Proofs.CodeProofs.
Import ListNotations.
Open Scope Z_scope.

(* the instruction length halmos computes is the EVM's, for every opcode value *)
Theorem C19_insn_len : forall op, insn_len op = spec_insn_len op.
Proof. exact insn_len_spec. Qed.
Print Assumptions C19_insn_len.

(* the set computed by Contract.valid_jumpdests is exactly the set of JUMPDEST bytes at
   instruction boundaries: for every code (concrete, or with symbolic bytes anywhere),
   every length of the concrete fast-path prefix, every pc *)
Theorem C19_jumpdests : forall nfast c pc, In pc (jumpdests nfast c) <-> valid_jd c pc.
Proof. exact jumpdests_correct. Qed.
Print Assumptions C19_jumpdests.

(* the two-phase scan (fast prefix, then whole ByteVec, sharing pc) does not depend on
   where the prefix ends -- in particular not on a split inside PUSH data *)
Theorem C19_two_phase : forall n m c pc, In pc (jumpdests n c) <-> In pc (jumpdests m c).
Proof. exact jumpdests_prefix_independent. Qed.
Print Assumptions C19_two_phase.

(* no reported jump destination lies inside the immediate data of an instruction *)
Theorem C19_not_in_push :
  forall nfast c b op pc,
    boundary c b -> nth_error c b = Some (Some op) ->
    (b < pc < b + spec_len op)%nat -> ~ In pc (jumpdests nfast c).
Proof. exact jumpdests_not_in_push. Qed.
Print Assumptions C19_not_in_push.

(* a genuine JUMPDEST is never rejected *)
Theorem C19_complete : forall nfast c pc, valid_jd c pc -> In pc (jumpdests nfast c).
Proof. exact jumpdests_complete. Qed.
Print Assumptions C19_complete.

(* decoding: opcode, next pc, operand = big-endian value of the immediate bytes
   right-padded with zeros past the end of the code *)
Theorem C19_decode :
  forall nfast c pc op, (nfast <= length c)%nat ->
    nth_error c pc = Some (Some op) ->
    decode nfast c pc =
      DInsn op (pc + spec_len op)
        (if (1 <? spec_len op)%nat
         then Some (be_value 0 (zext_bytes c (pc + 1) (spec_len op - 1)))
         else None).
Proof. exact decode_spec. Qed.
Print Assumptions C19_decode.

Theorem C19_operand_value : forall l acc, be_value acc (map Some l) = Some (be_num acc l).
Proof. exact be_value_concrete. Qed.
Print Assumptions C19_operand_value.

(* implicit STOP beyond the end *)
Theorem C19_stop_beyond : forall nfast c pc, (length c <= pc)%nat -> decode nfast c pc = DStop.
Proof. exact decode_stop_beyond. Qed.
Print Assumptions C19_stop_beyond.

(* code slices and single-byte reads: fast path = slow path = zero-extended array *)
Theorem C19_slice_zero_ext :
  forall nfast c start size, (nfast <= length c)%nat ->
    slice nfast c start size = zext_bytes c start size.
Proof. exact slice_flat. Qed.
Print Assumptions C19_slice_zero_ext.

Theorem C19_getitem : forall nfast c key, getitem nfast c key = code_byte c key.
Proof. exact getitem_flat. Qed.
Print Assumptions C19_getitem.

(* non-vacuity: a concrete program with a JUMPDEST inside PUSH data (not valid), a real
   one after it, a truncated trailing PUSH2 and a symbolic tail *)
Example C19_nonvacuous :
  let c := [Some 96; Some 91; Some 91; Some 97; Some 91; Some 0; Some 91; None; Some 91; Some 97; Some 1] in
  jumpdests 4 c = [6; 2]%nat /\ valid_jd c 2 /\ ~ valid_jd c 1 /\
  decode 4 c 9 = DInsn 97 12 (Some (Some 256)) /\ decode 4 c 11 = DStop /\ decode 4 c 7 = DSymbolic.
Proof.
  cbv zeta. repeat split; try reflexivity.
  - apply (boundary_S _ 0%nat 96); [constructor | reflexivity].
  - intros Hv. apply (C19_complete 0%nat) in Hv. revert Hv.
    apply (jumpdests_not_in_push 0 _ 0%nat 96 1%nat); [constructor | reflexivity | cbn; auto with arith].
Qed.
