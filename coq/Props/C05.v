(* C05 -- Verdict aggregation is fail-safe and independent of solver timing.
   Statements only; every proof is `exact <lemma from Proofs/VerdictProofs.v>`.
   Gen/GenVerdict.v (Exitcode enum, the verdict if/elif chain, the path classification chain,
   the exit-code expressions of _main, the result recorded for a test that raised) and
   Gen/GenSolveDispatch.v (first-line dispatch of SolverOutput.from_result, timeout -> unknown,
   from_error -> err, refinement guard) are regenerated from /repo/src/halmos on every run.

   Vocabulary (Spec/VerdictSpec.v): a finished path has a `kind` (Success | Revert | Panic |
   FailFlag | Stuck) and `ans`, the truthful final answer of the solver for the path's query
   (Sat valid? | Unsat | Unknown | Err); `potential` = Panic or FailFlag.
   `model_verdict ps` (Model/VerdictModel.v) is what run_test computes when every query is
   answered truthfully: the generated chain applied to Counter(results), len(stuck), normal.
   `run early_exit ps sched` executes the small-step model of run_test (main loop steps and
   solver callbacks interleaved as the event list `sched` dictates; EvMainRaise = a main-loop step
   in which the synchronous solve of a stuck path fails by raising instead of returning an `err`
   output); `result` is the TestResult (label, exitcode) once the main loop and all callbacks are
   over.  How the stuck arm treats an exception of that solve (escapes / break / from_error output)
   is regenerated from the source as stuck_shutdown_escapes, stuck_exception_escapes.

   --cache-solver (Model/VerdictCacheModel.v; Gen/GenUnsatCore.v = check_unsat_cores and the
   cache_solver switch of from_result, Gen/GenCoreAppend.v = the guard under which the callback
   appends a core, both regenerated on every run): a `qpath` adds to a path the ids naming the
   assertions of its query (`qids`) and the core list carried by the solver's `unsat` reply
   (`qcore`: None = no parsable core, Some [] = the empty list `()`).  `crun cache early_exit qs
   sched` is the small-step system with the shared core list: CStart j = the worker thread
   enters solve_end_to_end for the query of path j and consults the cache as it is at that
   moment (a hit answers `unsat` without asking the solver), CCb j = the done-callback records
   the result and possibly appends the reply's core; `cresult` is the TestResult. *)
From Coq Require Import ZArith List Bool String Ascii Permutation.
From HV Require Import Spec.VerdictSpec Gen.GenVerdict Gen.GenSolveDispatch Gen.GenUnsatCore Gen.GenCoreAppend
                       Model.VerdictModel Model.VerdictCacheModel Proofs.VerdictProofs Proofs.VerdictCacheProofs.
Import ListNotations.
Local Open Scope list_scope.
Local Open Scope nat_scope.

(* PASS exactly when every potential-violation query is unsat, every stuck path is refuted by
   the solver (unsat), and at least one path succeeded *)
Theorem C05_pass_iff : forall ps,
  fst (model_verdict ps) = LPass <->
  (forall p, In p ps -> potential p = true -> ans p = Unsat) /\
  (forall p, In p ps -> kind p = Stuck -> ans p = Unsat) /\
  (exists p, In p ps /\ kind p = Success).
Proof. exact model_pass_iff. Qed.
Print Assumptions C05_pass_iff.

(* the numeric exit code of the test is 0 exactly when the specification says PASS *)
Theorem C05_pass_code : forall ps, snd (model_verdict ps) = EX_PASS <-> spec_verdict ps = LPass.
Proof. exact model_verdict_code. Qed.
Print Assumptions C05_pass_code.

(* the label halmos prints is the one the property prescribes (spec_verdict: FAIL, then ERROR
   for a failed solver call, then TIMEOUT, then ERROR for stuck / nothing succeeded, then PASS) *)
Theorem C05_verdict_spec : forall ps, fst (model_verdict ps) = spec_verdict ps.
Proof. exact model_verdict_label. Qed.
Print Assumptions C05_verdict_spec.

(* precedence with the numeric codes, case by case: Sat > Err > Unknown > confirmed stuck >
   nothing succeeded > PASS.  Stuck paths and "all reverted" rank BELOW a timeout. *)
Theorem C05_precedence : forall ps,
  let S := existsb (fun p => potential p && is_sat (ans p)) ps in
  let E := existsb (fun p => potential p && is_err (ans p)) ps in
  let K := existsb (fun p => potential p && is_unknown (ans p)) ps in
  let T := existsb confirmed_stuck ps in
  let N := existsb succeeded ps in
  (S = true -> model_verdict ps = (LFail, EX_COUNTEREXAMPLE)) /\
  (S = false -> E = true -> model_verdict ps = (LError, EX_EXCEPTION)) /\
  (S = false -> E = false -> K = true -> model_verdict ps = (LTimeout, EX_TIMEOUT)) /\
  (S = false -> E = false -> K = false -> T = true -> model_verdict ps = (LError, EX_STUCK)) /\
  (S = false -> E = false -> K = false -> T = false -> N = false -> model_verdict ps = (LError, EX_REVERT_ALL)) /\
  (S = false -> E = false -> K = false -> T = false -> N = true -> model_verdict ps = (LPass, EX_PASS)).
Proof. exact model_verdict_cases. Qed.
Print Assumptions C05_precedence.

(* under the strict reading "every ERROR outranks TIMEOUT" the code deviates: a confirmed stuck
   path together with a timed-out violation query is reported TIMEOUT, not ERROR *)
Theorem C05_precedence_strict_refuted :
  exists ps, fst (model_verdict ps) = LTimeout /\ spec_verdict_strict ps = LError.
Proof.
  exists [mkpath Stuck Err; mkpath Panic Unknown; mkpath Success Unsat]. split; reflexivity.
Qed.
Print Assumptions C05_precedence_strict_refuted.

(* order independence: the verdict is a function of the multiset of path outcomes, and of the
   multiset of recorded solver outputs *)
Theorem C05_perm : forall ps ps', Permutation ps ps' -> model_verdict ps = model_verdict ps'.
Proof. exact model_verdict_perm. Qed.
Print Assumptions C05_perm.

Theorem C05_perm_outputs : forall outs outs' nstuck normal,
  Permutation outs outs' -> verdict_of outs nstuck normal = verdict_of outs' nstuck normal.
Proof. exact verdict_of_perm. Qed.
Print Assumptions C05_perm_outputs.

(* schedules, at full strength: whatever the interleaving of main-loop steps, solver callbacks and
   stuck-path solves that fail by raising (EvMainRaise), with or without --early-exit, a finished run
   reports exactly model_verdict, whose label is the specified one.  (Before fix e923044 this failed
   on two schedules: a ShutdownError, or any other exception, of the synchronous stuck-path solve left
   run_test and the test was reported ERROR / Exitcode.EXCEPTION although another path had a valid
   counterexample.) *)
Theorem C05_schedule_full : forall ee ps sched r,
  result (run ee ps sched) = Some r -> r = model_verdict ps /\ fst r = spec_verdict ps.
Proof. exact schedule_full. Qed.
Print Assumptions C05_schedule_full.

(* run_test is never left through an exception: the state "raised" is unreachable *)
Theorem C05_never_raises : forall ee ps sched, mst (run ee ps sched) <> MCrashed.
Proof. exact never_crashes. Qed.
Print Assumptions C05_never_raises.

(* an exception of the stuck-path solve never changes anything for the other paths: the run is, state
   for state, the run in which that solve returned an `err` output instead *)
Theorem C05_stuck_solve_exception_harmless : forall ee ps sched,
  run ee ps sched = run ee ps (map (fun e => match e with EvMainRaise => EvMain | _ => e end) sched).
Proof. exact run_unraise. Qed.
Print Assumptions C05_stuck_solve_exception_harmless.

(* the executor was shut down (--early-exit, valid counterexample) after the main loop's check and
   before the synchronous solve of a stuck path: the path loop ends, exactly as for assertion queries *)
Theorem C05_stuck_solve_shutdown_ends_loop : forall s p rest,
  mst s = MBody -> todo s = p :: rest -> kind p = Stuck -> flag s = true ->
  step_main s = set_mst s MDone.
Proof. exact shutdown_ends_loop. Qed.
Print Assumptions C05_stuck_solve_shutdown_ends_loop.

(* in particular PASS is never affected: under every schedule and both settings of --early-exit the
   reported label is PASS (the exit code 0) iff the specification says PASS *)
Theorem C05_failsafe_any_schedule : forall ee ps sched r,
  result (run ee ps sched) = Some r ->
  (fst r = LPass <-> spec_verdict ps = LPass) /\ (snd r = EX_PASS <-> spec_verdict ps = LPass).
Proof. exact schedule_failsafe. Qed.
Print Assumptions C05_failsafe_any_schedule.

(* ---------------------------------------------------------------- --cache-solver: the answer to a
   query may come from the shared core list, i.e. depend on which callbacks ran before the
   worker started -- the completion order of the solver processes. *)

(* every run with the cache is observably a run without it on the same paths (hence every theorem
   above about `run` applies), for all interleavings of worker starts, callbacks and main-loop
   steps -- without --cache-solver unconditionally, with it provided the solver honours its own
   non-empty cores: it answers unsat on every potential-violation query that contains a non-empty
   core it reported for another one.
   An EMPTY core list names no assertion and promises nothing: it is exempt, so the theorem
   holds only because the code never caches one. *)
Theorem C05_cache_refines : forall cache ee qs sched,
  (cache = true ->
   forall p q c, In p qs -> In q qs -> potential (base p) = true -> potential (base q) = true ->
     ans (base p) = Unsat -> qcore p = Some c -> c <> [] ->
     (forall x, In x c -> In x (qids q)) -> ans (base q) = Unsat) ->
  exists sched',
    (In EvMainRaise sched' -> In CMainRaise sched) /\
    cresult (crun cache ee qs sched) = result (run ee (map base qs) sched').
Proof. exact cache_refines. Qed.
Print Assumptions C05_cache_refines.

(* in particular the verdict is the specified one for every order in which solver answers arrive and
   are consumed, cache on or off, with or without --early-exit *)
Theorem C05_cache_schedule_full : forall cache ee qs sched r,
  (cache = true ->
   forall p q c, In p qs -> In q qs -> potential (base p) = true -> potential (base q) = true ->
     ans (base p) = Unsat -> qcore p = Some c -> c <> [] ->
     (forall x, In x c -> In x (qids q)) -> ans (base q) = Unsat) ->
  cresult (crun cache ee qs sched) = Some r ->
  r = model_verdict (map base qs) /\ fst r = spec_verdict (map base qs).
Proof. exact cache_schedule_full. Qed.
Print Assumptions C05_cache_schedule_full.

(* PASS is never affected by the cache or the schedule *)
Theorem C05_cache_failsafe : forall cache ee qs sched r,
  (cache = true ->
   forall p q c, In p qs -> In q qs -> potential (base p) = true -> potential (base q) = true ->
     ans (base p) = Unsat -> qcore p = Some c -> c <> [] ->
     (forall x, In x c -> In x (qids q)) -> ans (base q) = Unsat) ->
  cresult (crun cache ee qs sched) = Some r ->
  (fst r = LPass <-> spec_verdict (map base qs) = LPass) /\ (snd r = EX_PASS <-> spec_verdict (map base qs) = LPass).
Proof. exact cache_failsafe. Qed.
Print Assumptions C05_cache_failsafe.

(* PASS is sound with the cache under solver SOUNDNESS alone (no assumption that the solver answers
   every query it could): let `sem ids = true` mean "the assertions named by ids are jointly
   unsatisfiable" (monotone in ids).  If every `unsat` answer and every NON-EMPTY core of the solver
   is true, then a PASS -- under every schedule, with or without --early-exit -- implies that every
   potential-violation query really is unsatisfiable, every stuck path was refuted, and some path
   succeeded.  (For a real `sem`, sem [] = false: the empty list cannot be a true core.) *)
Theorem C05_cache_pass_sound : forall (sem : list nat -> bool) qs,
  (forall a b, (forall x, In x a -> In x b) -> sem a = true -> sem b = true) ->
  (forall p, In p qs -> potential (base p) = true -> ans (base p) = Unsat ->
     sem (qids p) = true /\ (forall c, qcore p = Some c -> c <> [] -> sem c = true)) ->
  forall cache ee sched r,
  cresult (crun cache ee qs sched) = Some r -> fst r = LPass ->
  (forall p, In p qs -> potential (base p) = true -> sem (qids p) = true) /\
  (forall p, In p qs -> kind (base p) = Stuck -> ans (base p) = Unsat) /\
  (exists p, In p qs /\ kind (base p) = Success).
Proof. exact (fun sem qs M S => cache_pass_sound sem M qs S). Qed.
Print Assumptions C05_cache_pass_sound.

(* without --cache-solver the two systems agree whatever core lists the replies carry *)
Theorem C05_nocache_refines : forall ee qs sched,
  exists sched',
    (In EvMainRaise sched' -> In CMainRaise sched) /\
    cresult (crun false ee qs sched) = result (run ee (map base qs) sched').
Proof. exact nocache_refines. Qed.
Print Assumptions C05_nocache_refines.

(* without --cache-solver the shared list stays empty and no query is answered from it *)
Theorem C05_nocache_inert : forall ee qs sched,
  ccores (crun false ee qs sched) = [] /\ chits (crun false ee qs sched) = [].
Proof. exact nocache_no_cores. Qed.
Print Assumptions C05_nocache_inert.

(* the consistency hypothesis cannot be dropped: a solver that reports the core [1] for one query
   but times out on another query containing assertion 1 makes the verdict depend on the
   completion order -- PASS if the core arrives before the second query is started, TIMEOUT
   otherwise (both are defensible: the second query IS unsatisfiable) *)
Theorem C05_cache_order_dependent_without_consistency :
  exists qs s1 s2,
    cresult (crun true false qs s1) = Some (LPass, EX_PASS) /\
    cresult (crun true false qs s2) = Some (LTimeout, EX_TIMEOUT).
Proof. exact cache_order_dependent_without_consistency. Qed.
Print Assumptions C05_cache_order_dependent_without_consistency.

(* non-vacuity of the cache model: two panic paths sharing assertion 1; the first is answered
   `unsat` with core [1]; started after that callback the second is answered from the cache (one
   hit, PASS -- consistent, its truthful answer is unsat); an EMPTY core is not cached: the second
   query goes to the solver, which says sat: FAIL in both orders *)
Example C05_cache_nonvacuous :
  let mains := [CMain; CMain; CMain; CMain; CMain; CMain; CMain] in
  let qs := [mkq (mkpath Panic Unsat) [1; 2] (Some [1]); mkq (mkpath Panic Unsat) [1; 3] (Some [1; 3]); mkq (mkpath Success Unsat) [1] None] in
  let qe := [mkq (mkpath Panic Unsat) [1; 2] (Some []); mkq (mkpath Panic (Sat true)) [1; 3] None; mkq (mkpath Success Unsat) [1] None] in
  cresult (crun true false qs (mains ++ [CStart 0; CCb 0; CStart 1; CCb 1])) = Some (LPass, EX_PASS) /\
  chits (crun true false qs (mains ++ [CStart 0; CCb 0; CStart 1; CCb 1])) = [1] /\
  chits (crun true false qs (mains ++ [CStart 0; CStart 1; CCb 0; CCb 1])) = [] /\
  cresult (crun true false qs (mains ++ [CStart 0; CCb 0; CStart 1])) = None /\
  cresult (crun true false qe (mains ++ [CStart 0; CCb 0; CStart 1; CCb 1])) = Some (LFail, EX_COUNTEREXAMPLE) /\
  cresult (crun true false qe (mains ++ [CStart 1; CCb 1; CStart 0; CCb 0])) = Some (LFail, EX_COUNTEREXAMPLE) /\
  ccores (crun true false qe (mains ++ [CStart 0; CCb 0; CStart 1; CCb 1])) = [].
Proof. cbv zeta. repeat split; reflexivity. Qed.

(* SolverOutput.from_result, completely: the class is decided by the first line of stdout alone
   (exactly "unsat" / "sat" / "unknown"); everything else -- empty output, garbage, different
   case, leading blanks, "\r\n" -- is err; a sat answer whose model cannot be parsed raises
   (None), which the callback turns into err; the return code is not consulted *)
Theorem C05_first_line : forall s ok,
  let first_line_is (l : string) := s = l \/ exists rest, s = (l ++ String "010"%char rest)%string in
  (from_result s ok = Some Unsat <-> first_line_is "unsat"%string) /\
  (from_result s ok = Some Unknown <-> first_line_is "unknown"%string) /\
  ((exists v, from_result s ok = Some (Sat v)) <-> first_line_is "sat"%string /\ ok = true) /\
  (from_result s ok = None <-> first_line_is "sat"%string /\ ok = false) /\
  (from_result s ok = Some Err <->
     ~ first_line_is "sat"%string /\ ~ first_line_is "unsat"%string /\ ~ first_line_is "unknown"%string).
Proof. exact from_result_char. Qed.
Print Assumptions C05_first_line.

(* solver faults: timeout -> unknown; exception in the worker, or any result read after the
   executor was shut down -> err *)
Theorem C05_solver_faults :
  solve_low_level RawTimeout = Some Unknown /\
  (forall sh, get_solver_output sh None = Err) /\
  (forall r, get_solver_output true r = Err).
Proof. exact (conj solve_low_level_timeout (conj get_output_exception get_output_shutdown)). Qed.
Print Assumptions C05_solver_faults.

(* process exit code.  A contract is (number of selected tests, exit codes of the TestResults
   that came back); at most one result per selected test.  Exit code 0 iff some test was
   selected and every selected test has a result and it is PASS; otherwise the exit code is 1 --
   in particular when a test raised (its result is Exitcode.EXCEPTION), when setUp failed (no
   results), and when no test was selected at all. *)
Theorem C05_exitcode : forall cs : list contract,
  (forall c, In c cs -> (Z.of_nat (List.length (snd c)) <= fst c)%Z) ->
  (main_exit cs = 0%Z <->
     (exists c, In c cs /\ fst c <> 0%Z) /\
     (forall c, In c cs -> Z.of_nat (List.length (snd c)) = fst c /\ forall r, In r (snd c) -> r = EX_PASS)).
Proof. exact main_exit_char. Qed.
Print Assumptions C05_exitcode.

Theorem C05_exitcode_nonzero : forall cs : list contract,
  (forall c, In c cs -> (Z.of_nat (List.length (snd c)) <= fst c)%Z) ->
  ((exists c r, In c cs /\ In r (snd c) /\ r <> EX_PASS) \/
   (exists c, In c cs /\ (Z.of_nat (List.length (snd c)) < fst c)%Z) \/
   (forall c, In c cs -> fst c = 0%Z)) ->
  main_exit cs = 1%Z.
Proof. exact main_exit_nonzero. Qed.
Print Assumptions C05_exitcode_nonzero.

(* what _main counts as "passed" is the label PASS, for every output of the chain *)
Theorem C05_label_code : forall ns nu nk ne nst nn,
  test_passed (snd (verdict_chain ns nu nk ne nst nn)) = label_eqb (fst (verdict_chain ns nu nk ne nst nn)) LPass.
Proof. exact chain_code_passed. Qed.
Print Assumptions C05_label_code.

(* non-vacuity: a four-path test (success, revert, panic answered unsat, stuck refuted) passes under a
   schedule where the callback arrives between main-loop steps; turning the panic's answer into
   a timeout gives TIMEOUT; a raised test makes the process exit code 1 *)
(* the two interleavings that refuted the statement before the fix: path 0 panics (sat, valid model),
   path 1 is stuck; (1) --early-exit, the callback of path 0 runs between the flag check and the body
   of path 1; (2) the stuck-path solve raises.  Both are FAIL now. *)
Example C05_former_counterexamples :
  result (run true [mkpath Panic (Sat true); mkpath Stuck (Sat true)] [EvMain; EvMain; EvMain; EvCb 0; EvMain])
    = Some (LFail, EX_COUNTEREXAMPLE) /\
  result (run false [mkpath Panic (Sat true); mkpath Stuck Err] [EvMain; EvMain; EvMain; EvMainRaise; EvMain; EvCb 0])
    = Some (LFail, EX_COUNTEREXAMPLE) /\
  result (run false [mkpath Stuck Err; mkpath Success Unsat] [EvMain; EvMainRaise; EvMain; EvMain; EvMain])
    = Some (LError, EX_STUCK).
Proof. repeat split; reflexivity. Qed.

Example C05_nonvacuous :
  let ps := [mkpath Success Unsat; mkpath Revert Unsat; mkpath Panic Unsat; mkpath Stuck Unsat] in
  let sched := [EvMain; EvMain; EvMain; EvMain; EvMain; EvMain; EvCb 2; EvMain; EvMain; EvMain] in
  result (run true ps sched) = Some (LPass, EX_PASS) /\
  result (run true ps (removelast sched)) = None /\
  model_verdict [mkpath Success Unsat; mkpath Panic Unknown] = (LTimeout, EX_TIMEOUT) /\
  main_exit [(2%Z, [EX_PASS; EX_PASS])] = 0%Z /\
  main_exit [(2%Z, [EX_PASS; EX_EXCEPTION])] = 1%Z /\
  main_exit [(2%Z, [])] = 1%Z /\ main_exit [] = 1%Z /\
  from_result "unsat" true = Some Unsat /\ from_result "Unsat" true = Some Err /\ from_result "" true = Some Err.
Proof. cbv zeta. repeat split; reflexivity. Qed.
