(* Specification side of "every frontier state is explored on its own" (C15: the invariant is checked
   on every frontier state; C20: what a test finds on one state does not depend on the states explored
   before it).  Written from the property texts, independently of halmos' code.

   A test started on a frontier state is a decision tree over conditions on symbolic values; the
   state stands for the concrete valuations that satisfy its own constraints.  What the test DOES on
   the state is the set of leaves those valuations reach -- a function of the state alone. *)
From Coq Require Import ZArith List Bool.
Import ListNotations.
Open Scope Z_scope.

Section Spec.
  Variable cond : Type.                  (* a branching condition / constraint *)
  Variable env : Type.                   (* a valuation of the symbols *)
  Variable holds : env -> cond -> bool.

  (* the test body specialised to one state: outcome codes at the leaves (0 success, 1 assertion
     failure, ...), a two-way branch on a condition at the inner nodes (JUMPI) *)
  Inductive prog :=
  | Leaf (o : Z)
  | Br (c : cond) (t f : prog).

  Fixpoint run_env (e : env) (p : prog) : Z :=
    match p with
    | Leaf o => o
    | Br c t f => if holds e c then run_env e t else run_env e f
    end.

  (* a frontier state as a test sees it: the constraints that come with the state (the sliced path
     conditions Path.extend_path hands to the solver) and the decision tree of the test on it *)
  Record fstate := mkF { f_slice : list cond; f_prog : prog }.

  Definition satisfies (e : env) (cs : list cond) : Prop := forall c, In c cs -> holds e c = true.

  (* o is an outcome of the test on state st: some concrete state that st stands for reaches it *)
  Definition outcome_of (st : fstate) (o : Z) : Prop :=
    exists e, satisfies e (f_slice st) /\ run_env e (f_prog st) = o.
End Spec.

Arguments Leaf {cond} o.
Arguments Br {cond} c t f.
Arguments run_env {cond env} holds e p.
Arguments mkF {cond} f_slice f_prog.
Arguments f_slice {cond} _.
Arguments f_prog {cond} _.
Arguments satisfies {cond env} holds e cs.
Arguments outcome_of {cond env} holds st o.

(* the element at depth d, index i of a list of frontiers (or of the outcomes reported for them) *)
Definition at_pos {A : Type} (x : list (list A)) (d i : nat) : option A :=
  match nth_error x d with Some l => nth_error l i | None => None end.
