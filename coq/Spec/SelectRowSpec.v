(* Specification side of a storage / balance read (array theory, independent of halmos' code):
   an array defined by a chain of writes over an initial array holds, at an index, the value of the
   NEWEST write whose key evaluates to that index, and the initial array's value when there is none. *)
From Coq Require Import ZArith List.
Import ListNotations.
Open Scope Z_scope.

(* key / value terms: constants and variables (the test's arguments), valued by rho *)
Inductive term := TConst (z : Z) | TVar (n : nat).

Definition ev (rho : nat -> Z) (t : term) : Z :=
  match t with TConst z => z | TVar n => rho n end.

(* chain of writes, NEWEST FIRST, over the initial array `init` *)
Fixpoint last_write (rho : nat -> Z) (init : Z -> Z) (chain : list (term * term)) (kz : Z) : Z :=
  match chain with
  | [] => init kz
  | (k0, v0) :: older => if ev rho k0 =? kz then ev rho v0 else last_write rho init older kz
  end.

(* feasibility queries about two key terms *)
Inductive query := QEq (a b : term) | QNe (a b : term).

Definition holds (rho : nat -> Z) (q : query) : Prop :=
  match q with
  | QEq a b => ev rho a = ev rho b
  | QNe a b => ev rho a <> ev rho b
  end.

(* all a feasibility oracle (the branching solver, 1 ms budget) guarantees: the answer `unsat` (0) is
   given only to queries no admissible valuation satisfies.  `sat` (1) and `unknown` (2) -- and any
   other value -- may be answered at will. *)
Definition sound_on_unsat (P : (nat -> Z) -> Prop) (check : query -> Z) : Prop :=
  forall q, check q = 0 -> forall rho, P rho -> ~ holds rho q.
