(* Reference concrete EVM interpreter for the instruction subset halmos supports.
   Written from the Yellow Paper / execution-specs (Cancun), independent of halmos'
   source, EXCEPT for the documented modelling conventions it shares with halmos so that
   the two can be compared at all (each is a parameter or is listed here):
     - gas is not modelled; instead any memory access beyond [mem_limit] bytes is an
       out-of-gas halt (halmos: MAX_MEMORY_SIZE; regenerated into Gen/GenConsts.v);
     - CREATE addresses come from a counter: 0xAAAA0000 + 1 + n for the n-th CREATE
       executed on the path (halmos: new_address); nonces are not modelled;
     - CREATE2 addresses are the EVM's (EIP-1014: the low 160 bits of
       keccak256(0xff ++ sender ++ salt ++ keccak256(init code))), passed through the
       renaming [c2name] given by the association list [b_c2names] of the block context:
       the EMPTY list is the EVM itself.  halmos does not compute these addresses, it NAMES
       them (0xBBBB0000 + the registration number of the hash term on the path); the L2 tie
       computes, per path and input, which EVM address each name stands for and hands that
       list to the reference, so that the two can be compared at all.  Everything about
       CREATE2 except the name of the new account is the reference's own;
     - GAS, GASPRICE, BLOCKHASH, SELFDESTRUCT, precompiles and cheatcode
       addresses are outside the subset: the interpreter answers [RUnsupported].
   Words are Z in [0, 2^256); bytes are Z in [0, 256).  No proofs in this file. *)
From Coq Require Import ZArith NArith List Bool.
From HV Require Import Base.Word Base.Keccak Spec.CodeSpec.
Import ListNotations.
Open Scope Z_scope.

(* ---------------------------------------------------------------- finite maps *)
Fixpoint alookup {V} (k : Z) (l : list (Z * V)) : option V :=
  match l with
  | [] => None
  | (k', v) :: r => if k =? k' then Some v else alookup k r
  end.
Definition aset {V} (k : Z) (v : V) (l : list (Z * V)) : list (Z * V) := (k, v) :: l.

(* ---------------------------------------------------------------- world *)
Record world := mkWorld {
  w_code : list (Z * list Z);              (* accounts that exist (halmos: keys of ex.code) *)
  w_storage : list (Z * list (Z * Z));
  w_transient : list (Z * list (Z * Z));
  w_balance : list (Z * Z);
}.

Record blockctx := mkBlock {
  b_basefee : Z; b_chainid : Z; b_coinbase : Z; b_difficulty : Z;
  b_gaslimit : Z; b_number : Z; b_timestamp : Z;
  b_c2names : list (Z * Z);   (* naming of CREATE2 addresses (EVM address, name); [] = the EVM *)
}.

Record env := mkEnv {
  e_this : Z;            (* address whose storage/balance is used (ADDRESS) *)
  e_code : list Z;       (* code being executed *)
  e_caller : Z;
  e_origin : Z;
  e_value : Z;
  e_data : list Z;       (* calldata (empty for creation frames) *)
  e_static : bool;
  e_depth : nat;
  e_block : blockctx;
}.

Inductive result :=
| ROk (w : world) (ctr : Z) (ret : list Z) (logs : list (Z * list Z * list Z))
| RRevert (ctr : Z) (ret : list Z)
| RHalt (ctr : Z) (kind : Z)
| RFuel
| RUnsupported (what : Z).

(* exceptional-halt kinds *)
Definition H_UNDERFLOW := 1.  Definition H_OVERFLOW := 2.  Definition H_OOG := 3.
Definition H_INVALID := 4.    Definition H_BADJUMP := 5.   Definition H_STATIC := 6.
Definition H_OOB := 7.        Definition H_DEPTH := 8.

Definition get_code (w : world) (a : Z) : list Z :=
  match alookup a (w_code w) with Some c => c | None => [] end.
Definition has_account (w : world) (a : Z) : bool :=
  match alookup a (w_code w) with Some _ => true | None => false end.
Definition get_balance (w : world) (a : Z) : Z :=
  match alookup a (w_balance w) with Some b => b | None => 0 end.
Definition sload_of (m : list (Z * list (Z * Z))) (a k : Z) : Z :=
  match alookup a m with
  | Some s => match alookup k s with Some v => v | None => 0 end
  | None => 0
  end.
Definition sstore_of (m : list (Z * list (Z * Z))) (a k v : Z) : list (Z * list (Z * Z)) :=
  let s := match alookup a m with Some s => s | None => [] end in
  aset a (aset k v s) m.
Definition set_balance (w : world) (a v : Z) : world :=
  mkWorld (w_code w) (w_storage w) (w_transient w) (aset a v (w_balance w)).
(* value transfer; the debit happens first, so a self-transfer is neutral *)
Definition transfer (w : world) (from to v : Z) : world :=
  let w1 := set_balance w from (get_balance w from - v) in
  set_balance w1 to (get_balance w1 to + v).

(* ---------------------------------------------------------------- memory *)
Definition ceil32 (n : nat) : nat := ((n + 31) / 32 * 32)%nat.
Definition mexpand (mem : list Z) (off size : nat) : list Z :=
  if (size =? 0)%nat then mem
  else
    let need := ceil32 (off + size) in
    if (length mem <? need)%nat then mem ++ repeat 0 (need - length mem) else mem.
Definition mread (mem : list Z) (off size : nat) : list Z :=
  firstn size (skipn off mem ++ repeat 0 size).
(* precondition: off + length bs <= length mem (after mexpand) *)
Definition mwrite (mem : list Z) (off : nat) (bs : list Z) : list Z :=
  firstn off mem ++ bs ++ skipn (off + length bs) mem.
Fixpoint be_num (acc : Z) (l : list Z) : Z :=
  match l with [] => acc | b :: r => be_num (acc * 256 + b) r end.
Fixpoint be_bytes_aux (n : nat) (x : Z) (acc : list Z) : list Z :=
  match n with O => acc | S k => be_bytes_aux k (x / 256) (x mod 256 :: acc) end.
Definition be_bytes (n : nat) (x : Z) : list Z := be_bytes_aux n x [].
Definition zread (bs : list Z) (off size : nat) : list Z :=
  firstn size (skipn off bs ++ repeat 0 size).

Definition keccak_bytes (bs : list Z) : Z :=
  Z.of_N (keccak256_num (map Z.to_N bs)).

(* valid jump destinations by a single structural scan (spec_len from CodeSpec) *)
Fixpoint jd_scan (skip pc : nat) (c : list Z) : list nat :=
  match c with
  | [] => []
  | b :: r =>
      match skip with
      | S k => jd_scan k (S pc) r
      | O =>
          let rest := jd_scan (spec_len b - 1) (S pc) r in
          if b =? 91 then pc :: rest else rest
      end
  end.
Definition is_jumpdest (code : list Z) (t : Z) : bool :=
  (0 <=? t) && existsb (Nat.eqb (Z.to_nat t)) (jd_scan 0 0 code).

(* ---------------------------------------------------------------- machine state *)
Record mstate := mkSt {
  s_pc : nat;
  s_stack : list Z;
  s_mem : list Z;
  s_ret : list Z;                              (* returndata of the last sub-call *)
  s_world : world;
  s_ctr : Z;                                   (* CREATE address counter *)
  s_logs : list (Z * list Z * list Z);
}.

Inductive step_result :=
| Continue (s : mstate)
| Done (r : result).

Definition init_state (w : world) (ctr : Z) : mstate := mkSt 0 [] [] [] w ctr [].

Section Step.
Variable mem_limit : Z.                         (* MAX_MEMORY_SIZE *)
Variable run_sub : env -> world -> Z -> result. (* runs a sub-frame to completion *)

Definition halt (s : mstate) (k : Z) : step_result := Done (RHalt (s_ctr s) k).
Definition with_stack (s : mstate) (st : list Z) (pc : nat) : mstate :=
  mkSt pc st (s_mem s) (s_ret s) (s_world s) (s_ctr s) (s_logs s).
Definition next (s : mstate) (st : list Z) : step_result :=
  if (1024 <? length st)%nat then halt s H_OVERFLOW
  else Continue (with_stack s st (S (s_pc s))).
Definition with_mem (s : mstate) (m : list Z) : mstate :=
  mkSt (s_pc s) (s_stack s) m (s_ret s) (s_world s) (s_ctr s) (s_logs s).
Definition with_world (s : mstate) (w : world) : mstate :=
  mkSt (s_pc s) (s_stack s) (s_mem s) (s_ret s) w (s_ctr s) (s_logs s).

(* modelled out-of-gas rule: word accesses fail when off > limit; range accesses when
   size <> 0 and off + size > limit *)
Definition oog_word (off : Z) : bool := mem_limit <? off.
Definition oog_range (off size : Z) : bool := negb (size =? 0) && (mem_limit <? off + size).

Definition binop (s : mstate) (f : Z -> Z -> Z) : step_result :=
  match s_stack s with
  | a :: b :: r => next s (f a b :: r)
  | _ => halt s H_UNDERFLOW
  end.
Definition unop (s : mstate) (f : Z -> Z) : step_result :=
  match s_stack s with
  | a :: r => next s (f a :: r)
  | _ => halt s H_UNDERFLOW
  end.
Definition ternop (s : mstate) (f : Z -> Z -> Z -> Z) : step_result :=
  match s_stack s with
  | a :: b :: c :: r => next s (f a b c :: r)
  | _ => halt s H_UNDERFLOW
  end.
Definition push (s : mstate) (v : Z) : step_result := next s (v :: s_stack s).

Definition copy_to_mem (s : mstate) (r : list Z) (dst src size : Z) (source : list Z) : step_result :=
  if oog_range dst size then halt s H_OOG
  else
    let n := Z.to_nat size in
    let m := mexpand (s_mem s) (Z.to_nat dst) n in
    let m' := if (n =? 0)%nat then m else mwrite m (Z.to_nat dst) (zread source (Z.to_nat src) n) in
    next (with_mem s m') r.

(* the 7-/6-argument message calls *)
Definition do_call (e : env) (s : mstate) (op : Z) : step_result :=
  let args :=
    match op, s_stack s with
    | 241, _ :: to :: v :: ao :: asz :: ro :: rsz :: r => Some (to, v, ao, asz, ro, rsz, r)   (* CALL *)
    | 242, _ :: to :: v :: ao :: asz :: ro :: rsz :: r => Some (to, v, ao, asz, ro, rsz, r)   (* CALLCODE *)
    | 244, _ :: to :: ao :: asz :: ro :: rsz :: r => Some (to, 0, ao, asz, ro, rsz, r)        (* DELEGATECALL *)
    | 250, _ :: to :: ao :: asz :: ro :: rsz :: r => Some (to, 0, ao, asz, ro, rsz, r)        (* STATICCALL *)
    | _, _ => None
    end in
  match args with
  | None => halt s H_UNDERFLOW
  | Some (to0, v, ao, asz, ro, rsz, r) =>
      let to := to0 mod 2 ^ 160 in
      if (op =? 241) && e_static e && negb (v =? 0) then halt s H_STATIC
      else if oog_range ao asz || oog_range ro rsz then halt s H_OOG
      else if ((1 <=? to) && (to <=? 10)) then Done (RUnsupported 1)
      else
        let m1 := mexpand (mexpand (s_mem s) (Z.to_nat ao) (Z.to_nat asz)) (Z.to_nat ro) (Z.to_nat rsz) in
        let data := mread m1 (Z.to_nat ao) (Z.to_nat asz) in
        let w := s_world s in
        let fail_now (ret : list Z) (ctr : Z) :=
          Continue (mkSt (S (s_pc s)) (0 :: r) m1 ret w ctr (s_logs s)) in
        if (1024 <? Z.of_nat (e_depth e) + 1) then fail_now [] (s_ctr s)
        else if ((op =? 241) || (op =? 242)) && (get_balance w (e_this e) <? v) then fail_now [] (s_ctr s)
        else
          let w1 := if op =? 241 then transfer w (e_this e) to v else w in
          let sub :=
            mkEnv (if (op =? 241) || (op =? 250) then to else e_this e)
                  (get_code w to)
                  (if op =? 244 then e_caller e else e_this e)
                  (e_origin e)
                  (if op =? 244 then e_value e else v)
                  data
                  (e_static e || (op =? 250))
                  (S (e_depth e))
                  (e_block e) in
          match run_sub sub w1 (s_ctr s) with
          | ROk w2 ctr ret logs =>
              let n := Nat.min (Z.to_nat rsz) (length ret) in
              let m2 := if (n =? 0)%nat then m1 else mwrite m1 (Z.to_nat ro) (firstn n ret) in
              Continue (mkSt (S (s_pc s)) (1 :: r) m2 ret w2 ctr (s_logs s ++ logs))
          | RRevert ctr ret =>
              let n := Nat.min (Z.to_nat rsz) (length ret) in
              let m2 := if (n =? 0)%nat then m1 else mwrite m1 (Z.to_nat ro) (firstn n ret) in
              Continue (mkSt (S (s_pc s)) (0 :: r) m2 ret w ctr (s_logs s))
          | RHalt ctr _ => fail_now [] ctr
          | RFuel => Done RFuel
          | RUnsupported x => Done (RUnsupported x)
          end
  end.

Definition CREATE_BASE : Z := 2863267840 + 1.   (* 0xAAAA0000 + new_address_offset *)

Definition do_create (e : env) (s : mstate) : step_result :=
  match s_stack s with
  | v :: off :: size :: r =>
      if e_static e then halt s H_STATIC
      else if oog_range off size then halt s H_OOG
      else
        let m1 := mexpand (s_mem s) (Z.to_nat off) (Z.to_nat size) in
        let init := mread m1 (Z.to_nat off) (Z.to_nat size) in
        let ctr := s_ctr s + 1 in
        let new := CREATE_BASE + ctr in
        let w := s_world s in
        let fail_now (ret : list Z) (ctr' : Z) :=
          Continue (mkSt (S (s_pc s)) (0 :: r) m1 ret w ctr' (s_logs s)) in
        if (1024 <? Z.of_nat (e_depth e) + 1) then fail_now [] ctr
        else if get_balance w (e_this e) <? v then fail_now [] ctr
        else if has_account w new then fail_now [] ctr
        else
          let w0 := mkWorld (aset new [] (w_code w)) (aset new [] (w_storage w))
                            (aset new [] (w_transient w)) (w_balance w) in
          let w1 := transfer w0 (e_this e) new v in
          let sub := mkEnv new init (e_this e) (e_origin e) v [] false (S (e_depth e)) (e_block e) in
          match run_sub sub w1 ctr with
          | ROk w2 ctr' ret logs =>
              let w3 := mkWorld (aset new ret (w_code w2)) (w_storage w2) (w_transient w2) (w_balance w2) in
              Continue (mkSt (S (s_pc s)) (new :: r) m1 [] w3 ctr' (s_logs s ++ logs))
          | RRevert ctr' ret => fail_now ret ctr'
          | RHalt ctr' _ => fail_now [] ctr'
          | RFuel => Done RFuel
          | RUnsupported x => Done (RUnsupported x)
          end
  | _ => halt s H_UNDERFLOW
  end.

(* CREATE2 (EIP-1014).  The address does not depend on a nonce, so the CREATE counter is NOT
   consumed; everything after the choice of the address is CREATE's: depth limit, funds,
   collision (the address already names an account), creation frame, code deposit, rollback
   and returndata on failure. *)
Definition create2_preimage (sender salt : Z) (init : list Z) : list Z :=
  255 :: be_bytes 20 sender ++ be_bytes 32 salt ++ be_bytes 32 (keccak_bytes init).
Definition create2_address (sender salt : Z) (init : list Z) : Z :=
  keccak_bytes (create2_preimage sender salt init) mod 2 ^ 160.
Definition c2name (b : blockctx) (a : Z) : Z :=
  match alookup a (b_c2names b) with Some n => n | None => a end.

Definition do_create2 (e : env) (s : mstate) : step_result :=
  match s_stack s with
  | v :: off :: size :: salt :: r =>
      if e_static e then halt s H_STATIC
      else if oog_range off size then halt s H_OOG
      else
        let m1 := mexpand (s_mem s) (Z.to_nat off) (Z.to_nat size) in
        let init := mread m1 (Z.to_nat off) (Z.to_nat size) in
        let ctr := s_ctr s in
        let new := c2name (e_block e) (create2_address (e_this e) salt init) in
        let w := s_world s in
        let fail_now (ret : list Z) (ctr' : Z) :=
          Continue (mkSt (S (s_pc s)) (0 :: r) m1 ret w ctr' (s_logs s)) in
        if (1024 <? Z.of_nat (e_depth e) + 1) then fail_now [] ctr
        else if get_balance w (e_this e) <? v then fail_now [] ctr
        else if has_account w new then fail_now [] ctr
        else
          let w0 := mkWorld (aset new [] (w_code w)) (aset new [] (w_storage w))
                            (aset new [] (w_transient w)) (w_balance w) in
          let w1 := transfer w0 (e_this e) new v in
          let sub := mkEnv new init (e_this e) (e_origin e) v [] false (S (e_depth e)) (e_block e) in
          match run_sub sub w1 ctr with
          | ROk w2 ctr' ret logs =>
              let w3 := mkWorld (aset new ret (w_code w2)) (w_storage w2) (w_transient w2) (w_balance w2) in
              Continue (mkSt (S (s_pc s)) (new :: r) m1 [] w3 ctr' (s_logs s ++ logs))
          | RRevert ctr' ret => fail_now ret ctr'
          | RHalt ctr' _ => fail_now [] ctr'
          | RFuel => Done RFuel
          | RUnsupported x => Done (RUnsupported x)
          end
  | _ => halt s H_UNDERFLOW
  end.

Definition do_log (e : env) (s : mstate) (ntopics : nat) : step_result :=
  match s_stack s with
  | off :: size :: r =>
      if e_static e then halt s H_STATIC
      else if (length r <? ntopics)%nat then halt s H_UNDERFLOW
      else if oog_range off size then halt s H_OOG
      else
        let m1 := mexpand (s_mem s) (Z.to_nat off) (Z.to_nat size) in
        let data := mread m1 (Z.to_nat off) (Z.to_nat size) in
        Continue (mkSt (S (s_pc s)) (skipn ntopics r) m1 (s_ret s) (s_world s) (s_ctr s)
                       (s_logs s ++ [(e_this e, firstn ntopics r, data)]))
  | _ => halt s H_UNDERFLOW
  end.

(* ---- decoded instructions (shared with the symbolic executor model) ---- *)
Inductive bop := BAdd | BMul | BSub | BDiv | BSdiv | BMod | BSmod | BExp | BSignextend
  | BLt | BGt | BSlt | BSgt | BEq | BAnd | BOr | BXor | BByte | BShl | BShr | BSar.
Inductive uop := UIszero | UNot.
Inductive top := TAddmod | TMulmod.
Inductive envop := EAddress | EOrigin | ECaller | ECallvalue | ECalldatasize | ECodesize
  | EReturndatasize | ECoinbase | ETimestamp | ENumber | EDifficulty | EGaslimit | EChainid
  | ESelfbalance | EBasefee | EPc | EMsize.
Inductive instr :=
| IStop | IBin (b : bop) | IUn (u : uop) | ITern (t : top) | ISha3 | IEnv (g : envop)
| IBalance | ICalldataload | ICalldatacopy | ICodecopy | IExtcodesize | IExtcodecopy
| IReturndatacopy | IExtcodehash | IPop | IMload | IMstore | IMstore8 | ISload | ISstore
| IJump | IJumpi | IJumpdest | ITload | ITstore | IMcopy | IPush0
| IPush (n : nat) | IDup (n : nat) | ISwap (n : nat) | ILog (n : nat)
| ICreate | ICreate2 | ICall (op : Z) | IReturn | IRevert | IInvalid | IUnsupported (op : Z).

Definition bop_sem (b : bop) : Z -> Z -> Z :=
  match b with
  | BAdd => evm_add | BMul => evm_mul | BSub => evm_sub | BDiv => evm_div | BSdiv => evm_sdiv
  | BMod => evm_mod | BSmod => evm_smod | BExp => evm_exp | BSignextend => evm_signextend
  | BLt => evm_lt | BGt => evm_gt | BSlt => evm_slt | BSgt => evm_sgt | BEq => evm_eq
  | BAnd => evm_and | BOr => evm_or | BXor => evm_xor | BByte => evm_byte
  | BShl => evm_shl | BShr => evm_shr | BSar => evm_sar
  end.
Definition uop_sem (u : uop) : Z -> Z := match u with UIszero => evm_iszero | UNot => evm_not end.
Definition top_sem (t : top) : Z -> Z -> Z -> Z :=
  match t with TAddmod => evm_addmod | TMulmod => evm_mulmod end.

Definition decode_op (op : Z) : instr :=
  if (96 <=? op) && (op <=? 127) then IPush (Z.to_nat (op - 95))
  else if (128 <=? op) && (op <=? 143) then IDup (Z.to_nat (op - 128))
  else if (144 <=? op) && (op <=? 159) then ISwap (Z.to_nat (op - 143))
  else if (160 <=? op) && (op <=? 164) then ILog (Z.to_nat (op - 160))
  else
  match op with
  | 0 => IStop
  | 1 => IBin BAdd | 2 => IBin BMul | 3 => IBin BSub | 4 => IBin BDiv | 5 => IBin BSdiv
  | 6 => IBin BMod | 7 => IBin BSmod | 8 => ITern TAddmod | 9 => ITern TMulmod
  | 10 => IBin BExp | 11 => IBin BSignextend
  | 16 => IBin BLt | 17 => IBin BGt | 18 => IBin BSlt | 19 => IBin BSgt | 20 => IBin BEq
  | 21 => IUn UIszero | 22 => IBin BAnd | 23 => IBin BOr | 24 => IBin BXor | 25 => IUn UNot
  | 26 => IBin BByte | 27 => IBin BShl | 28 => IBin BShr | 29 => IBin BSar
  | 32 => ISha3
  | 48 => IEnv EAddress | 49 => IBalance | 50 => IEnv EOrigin | 51 => IEnv ECaller
  | 52 => IEnv ECallvalue | 53 => ICalldataload | 54 => IEnv ECalldatasize | 55 => ICalldatacopy
  | 56 => IEnv ECodesize | 57 => ICodecopy | 58 => IUnsupported 58 | 59 => IExtcodesize
  | 60 => IExtcodecopy | 61 => IEnv EReturndatasize | 62 => IReturndatacopy | 63 => IExtcodehash
  | 64 => IUnsupported 64
  | 65 => IEnv ECoinbase | 66 => IEnv ETimestamp | 67 => IEnv ENumber | 68 => IEnv EDifficulty
  | 69 => IEnv EGaslimit | 70 => IEnv EChainid | 71 => IEnv ESelfbalance | 72 => IEnv EBasefee
  | 80 => IPop | 81 => IMload | 82 => IMstore | 83 => IMstore8 | 84 => ISload | 85 => ISstore
  | 86 => IJump | 87 => IJumpi | 88 => IEnv EPc | 89 => IEnv EMsize | 90 => IUnsupported 90
  | 91 => IJumpdest | 92 => ITload | 93 => ITstore | 94 => IMcopy | 95 => IPush0
  | 240 => ICreate | 241 | 242 | 244 | 250 => ICall op
  | 243 => IReturn | 253 => IRevert
  | 245 => ICreate2 | 254 => IInvalid | 255 => IUnsupported 255
  | _ => IInvalid                                            (* undefined opcode *)
  end.

Definition env_value (e : env) (s : mstate) (g : envop) : Z :=
  let w := s_world s in
  match g with
  | EAddress => e_this e | EOrigin => e_origin e | ECaller => e_caller e | ECallvalue => e_value e
  | ECalldatasize => Z.of_nat (length (e_data e)) | ECodesize => Z.of_nat (length (e_code e))
  | EReturndatasize => Z.of_nat (length (s_ret s))
  | ECoinbase => b_coinbase (e_block e) | ETimestamp => b_timestamp (e_block e)
  | ENumber => b_number (e_block e) | EDifficulty => b_difficulty (e_block e)
  | EGaslimit => b_gaslimit (e_block e) | EChainid => b_chainid (e_block e)
  | ESelfbalance => get_balance w (e_this e) | EBasefee => b_basefee (e_block e)
  | EPc => Z.of_nat (s_pc s) | EMsize => Z.of_nat (length (s_mem s))
  end.

Definition step_i (i : instr) (e : env) (s : mstate) : step_result :=
  let code := e_code e in
  let pc := s_pc s in
  let st := s_stack s in
  let w := s_world s in
  match i with
  | IPush n =>
      let v := be_num 0 (zread code (S pc) n) in
      if (1024 <? S (length st))%nat then halt s H_OVERFLOW
      else Continue (with_stack s (v :: st) (pc + 1 + n))
  | IDup n =>
      match nth_error st n with
      | Some v => push s v
      | None => halt s H_UNDERFLOW
      end
  | ISwap n =>
      match st, nth_error st n with
      | a :: r, Some b => next s (b :: firstn (n - 1) r ++ a :: skipn n r)
      | _, _ => halt s H_UNDERFLOW
      end
  | ILog n => do_log e s n
  | IStop => Done (ROk w (s_ctr s) [] (s_logs s))
  | IBin b => binop s (bop_sem b)
  | IUn u => unop s (uop_sem u)
  | ITern t => ternop s (top_sem t)
  | ISha3 =>
      match st with
      | off :: size :: r =>
          if oog_range off size then halt s H_OOG
          else
            let m1 := mexpand (s_mem s) (Z.to_nat off) (Z.to_nat size) in
            next (with_mem s m1) (keccak_bytes (mread m1 (Z.to_nat off) (Z.to_nat size)) :: r)
      | _ => halt s H_UNDERFLOW
      end
  | IEnv g => push s (env_value e s g)
  | IBalance => unop s (fun a => get_balance w (a mod 2 ^ 160))
  | ICalldataload => unop s (fun off => be_num 0 (zread (e_data e) (Z.to_nat off) 32))
  | ICalldatacopy =>
      match st with
      | d :: o :: n :: r => copy_to_mem s r d o n (e_data e)
      | _ => halt s H_UNDERFLOW end
  | ICodecopy =>
      match st with
      | d :: o :: n :: r => copy_to_mem s r d o n code
      | _ => halt s H_UNDERFLOW end
  | IExtcodesize => unop s (fun a => Z.of_nat (length (get_code w (a mod 2 ^ 160))))
  | IExtcodecopy =>
      match st with
      | a :: d :: o :: n :: r => copy_to_mem s r d o n (get_code w (a mod 2 ^ 160))
      | _ => halt s H_UNDERFLOW end
  | IReturndatacopy =>
      match st with
      | d :: o :: n :: r =>
          if Z.of_nat (length (s_ret s)) <? o + n then halt s H_OOB
          else copy_to_mem s r d o n (s_ret s)
      | _ => halt s H_UNDERFLOW end
  | IExtcodehash =>
      unop s (fun a => let a := a mod 2 ^ 160 in
                       if has_account w a then keccak_bytes (get_code w a) else 0)
  | IPop => match st with _ :: r => next s r | _ => halt s H_UNDERFLOW end
  | IMload =>
      match st with
      | off :: r =>
          if oog_word off then halt s H_OOG
          else let m1 := mexpand (s_mem s) (Z.to_nat off) 32 in
               next (with_mem s m1) (be_num 0 (mread m1 (Z.to_nat off) 32) :: r)
      | _ => halt s H_UNDERFLOW end
  | IMstore =>
      match st with
      | off :: v :: r =>
          if oog_word off then halt s H_OOG
          else let m1 := mexpand (s_mem s) (Z.to_nat off) 32 in
               next (with_mem s (mwrite m1 (Z.to_nat off) (be_bytes 32 v))) r
      | _ => halt s H_UNDERFLOW end
  | IMstore8 =>
      match st with
      | off :: v :: r =>
          if oog_word off then halt s H_OOG
          else let m1 := mexpand (s_mem s) (Z.to_nat off) 1 in
               next (with_mem s (mwrite m1 (Z.to_nat off) [v mod 256])) r
      | _ => halt s H_UNDERFLOW end
  | ISload => unop s (fun k => sload_of (w_storage w) (e_this e) k)
  | ISstore =>
      match st with
      | k :: v :: r =>
          if e_static e then halt s H_STATIC
          else next (with_world s (mkWorld (w_code w) (sstore_of (w_storage w) (e_this e) k v)
                                           (w_transient w) (w_balance w))) r
      | _ => halt s H_UNDERFLOW end
  | IJump =>
      match st with
      | t :: r => if is_jumpdest code t then Continue (with_stack s r (Z.to_nat t))
                  else halt s H_BADJUMP
      | _ => halt s H_UNDERFLOW end
  | IJumpi =>
      match st with
      | t :: c :: r =>
          if c =? 0 then next s r
          else if is_jumpdest code t then Continue (with_stack s r (Z.to_nat t))
          else halt s H_BADJUMP
      | _ => halt s H_UNDERFLOW end
  | IJumpdest => next s st
  | ITload => unop s (fun k => sload_of (w_transient w) (e_this e) k)
  | ITstore =>
      match st with
      | k :: v :: r =>
          if e_static e then halt s H_STATIC
          else next (with_world s (mkWorld (w_code w) (w_storage w)
                                           (sstore_of (w_transient w) (e_this e) k v) (w_balance w))) r
      | _ => halt s H_UNDERFLOW end
  | IMcopy =>
      match st with
      | d :: o :: n :: r =>
          if oog_range o n then halt s H_OOG
          else
            let m1 := mexpand (s_mem s) (Z.to_nat o) (Z.to_nat n) in
            copy_to_mem (with_mem s m1) r d 0 n (mread m1 (Z.to_nat o) (Z.to_nat n))
      | _ => halt s H_UNDERFLOW end
  | IPush0 => push s 0
  | ICreate => do_create e s
  | ICreate2 => do_create2 e s
  | ICall op => do_call e s op
  | IReturn | IRevert =>
      match st with
      | off :: size :: _ =>
          if oog_range off size then halt s H_OOG
          else
            let m1 := mexpand (s_mem s) (Z.to_nat off) (Z.to_nat size) in
            let data := mread m1 (Z.to_nat off) (Z.to_nat size) in
            match i with
            | IReturn => Done (ROk w (s_ctr s) data (s_logs s))
            | _ => Done (RRevert (s_ctr s) data)
            end
      | _ => halt s H_UNDERFLOW
      end
  | IInvalid => halt s H_INVALID
  | IUnsupported x => Done (RUnsupported x)
  end.

Definition step (e : env) (s : mstate) : step_result :=
  match nth_error (e_code e) (s_pc s) with
  | None => Done (ROk (s_world s) (s_ctr s) [] (s_logs s))            (* implicit STOP *)
  | Some op => step_i (decode_op op) e s
  end.
End Step.

(* run a frame to completion; [fuel] bounds the total number of steps of the frame plus
   the nesting of sub-frames *)
Fixpoint exec (mem_limit : Z) (fuel : nat) (e : env) (s : mstate) : result :=
  match fuel with
  | O => RFuel
  | S f =>
      match step mem_limit (fun e' w' ctr' => exec mem_limit f e' (init_state w' ctr')) e s with
      | Continue s' => exec mem_limit f e s'
      | Done r => r
      end
  end.

Definition run_message (mem_limit : Z) (fuel : nat) (e : env) (w : world) (ctr : Z) : result :=
  exec mem_limit fuel e (init_state w ctr).
