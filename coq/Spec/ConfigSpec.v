(* Specification side of C18: what "resolves by precedence" and "round-trips" mean.
   Written from the property statement and halmos' documentation (README / --help: "command
   line > function annotation > contract annotation > config file > default"), independent of
   the code of config.py.

   A configuration is a stack of layers, position 0 = the most recently added layer.  A layer
   has a source (an integer rank: higher = higher precedence) and sets some options.        *)
From Coq Require Import ZArith List Bool QArith.
Import ListNotations.
Open Scope Z_scope.

Definition layer := (Z * list (Z * Z))%type.          (* source rank, option id |-> value *)
Definition stack := list layer.

Fixpoint assoc (o : Z) (l : list (Z * Z)) : option Z :=
  match l with
  | [] => None
  | (k, v) :: r => if k =? o then Some v else assoc o r
  end.

Definition layer_sets (l : layer) (o v : Z) : Prop := assoc o (snd l) = Some v.
Definition layer_unset (l : layer) (o : Z) : Prop := assoc o (snd l) = None.

(* layer number i (value v, source s) is THE winner for option o: it sets o, and every other
   layer that sets o has a strictly lower source, or the same source and is older (j >= i). *)
Definition wins (st : stack) (o : Z) (i : nat) (v s : Z) : Prop :=
  exists l, nth_error st i = Some l /\ fst l = s /\ layer_sets l o v /\
    forall j l', nth_error st j = Some l' -> ~ layer_unset l' o ->
                 fst l' < s \/ (fst l' = s /\ (i <= j)%nat).

(* the effective (value, source) of an option; None when no layer sets it *)
Definition effective (st : stack) (o : Z) (r : option (Z * Z)) : Prop :=
  match r with
  | Some (v, s) => exists i, wins st o i v s
  | None => forall l, In l st -> layer_unset l o
  end.

(* precedence chain of the documented sources: the first source in this order that sets the
   option provides the value *)
Fixpoint first_some (l : list (option Z)) : option Z :=
  match l with
  | [] => None
  | Some v :: _ => Some v
  | None :: r => first_some r
  end.

Definition opt_assoc (o : Z) (l : option (list (Z * Z))) : option Z :=
  match l with Some l => assoc o l | None => None end.

(* ---- structured values ---- *)

(* what a timeout value denotes: a rational number of seconds, or (the float type has them and
   the parser produces them) an infinity or "not a number".  The two zeros denote the same
   number. *)
Inductive tval := TNan | TInf (neg : bool) | TFin (q : Q).

Definition same_tval (a b : tval) : Prop :=
  match a, b with
  | TNan, TNan => True
  | TInf x, TInf y => x = y
  | TFin p, TFin q => (p == q)%Q
  | _, _ => False
  end.

(* a rendering [s] of [v] is faithful when parsing it gives back what [v] denotes *)
Definition faithful_rendering (parse : list Z -> option tval) (s : list Z) (v : tval) : Prop :=
  exists w, parse s = Some w /\ same_tval w v.

(* two lists denote the same set *)
Definition same_set (a b : list Z) : Prop := forall x, In x a <-> In x b.
