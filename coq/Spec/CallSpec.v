(* C09 -- SPECIFICATION side: the EVM meaning of trees of message calls, written from
   the Yellow Paper / execution-specs rules for CALL, CALLCODE, DELEGATECALL, STATICCALL
   and CREATE (snapshot before the frame, rollback on failure), independent of halmos'
   source.  It shares the world type, [transfer], the CREATE address convention and the
   "no gas" convention with the reference interpreter Spec/Evm.v.

   A frame is described by a SCRIPT: what the code executing in the frame does in this
   invocation (the behaviour of callee code is thus universally quantified: every tree of
   scripts).  Every frame owns an observation buffer [ob] (bytes): SObserve appends what
   the frame sees (CALLER, CALLVALUE, ADDRESS, ORIGIN, CODESIZE, SLOAD k, TLOAD k,
   SELFBALANCE); after a call it appends the success flag, RETURNDATASIZE and the
   [rsz]-byte return area the call wrote into; after a CREATE the pushed word and
   RETURNDATASIZE.  [SIf cond s1 s2] is a conditional jump on a word of the transaction
   input (the value it has in the run at hand): the frame goes on as s1 if it is non-zero.  [EReturn tag] / [ERevert tag] return  word(tag) ++ ob.
   Besides, a ghost log (never rolled back) records every frame's context and outcome.
   No proofs in this file. *)
From Coq Require Import ZArith List Bool.
From HV Require Import Base.Word Spec.Evm.
Import ListNotations.
Open Scope Z_scope.

Inductive ckind := KCall | KCallcode | KDelegate | KStatic.
Inductive ending := EStop | EReturn (tag : Z) | ERevert (tag : Z) | EInvalid.

Inductive script :=
| SEnd (e : ending)
| SSstore (k v : Z) (rest : script)
| STstore (k v : Z) (rest : script)
| SLog (rest : script)
| SObserve (k : Z) (rest : script)
| SRetCopy (off size : Z) (rest : script)            (* RETURNDATACOPY into the buffer *)
| SIf (cond : Z) (s1 s2 : script)                    (* JUMPI on a word of the input: s1 if it is non-zero *)
| SExtCode (a off : Z) (rest : script)               (* EXTCODESIZE a; EXTCODECOPY of a, 32 bytes from [off], over non-zero memory *)
| SCall (kd : ckind) (to v rsz : Z) (callee rest : script)
| SCreate (v : Z) (initcode : list Z) (init rest : script).

(* what a frame can observe about itself *)
Record fctx := mkCtx {
  c_this : Z; c_caller : Z; c_origin : Z; c_value : Z;
  c_code : list Z; c_static : bool; c_depth : Z;
}.

Inductive fres := FOk (ret : list Z) | FRevert (ret : list Z) | FHalt.

Inductive logitem :=
| LFrame (c : fctx)              (* a frame starts executing with this context *)
| LEnd (r : fres)                (* ... and ends like this *)
| LEvent (this : Z).             (* LOG executed by [this] *)

Inductive sres := SOk (ret : list Z) (w : world) | SRevert (ret : list Z) | SHalt.

Definition ADDR_MOD : Z := 2 ^ 160.
Definition MAX_DEPTH : Z := 1024.

Definition words (l : list Z) : list Z := flat_map (be_bytes 32) l.
Definition blen (l : list Z) : Z := Z.of_nat (length l).

(* a transfer of 0 changes nothing *)
Definition xfer (w : world) (from to v : Z) : world :=
  if v =? 0 then w else transfer w from to v.

(* paying 0 is always possible *)
Definition can_pay (w : world) (a v : Z) : bool := (v =? 0) || (v <=? get_balance w a).

Definition set_storage (w : world) (a k v : Z) : world :=
  mkWorld (w_code w) (sstore_of (w_storage w) a k v) (w_transient w) (w_balance w).
Definition set_transient (w : world) (a k v : Z) : world :=
  mkWorld (w_code w) (w_storage w) (sstore_of (w_transient w) a k v) (w_balance w).
Definition new_account (w : world) (a : Z) : world :=
  mkWorld (aset a [] (w_code w)) (aset a [] (w_storage w)) (aset a [] (w_transient w)) (w_balance w).
Definition set_code (w : world) (a : Z) (c : list Z) : world :=
  mkWorld (aset a c (w_code w)) (w_storage w) (w_transient w) (w_balance w).

Definition observation (c : fctx) (w : world) (k : Z) : list Z :=
  words [c_caller c; c_value c; c_this c; c_origin c; blen (c_code c);
         sload_of (w_storage w) (c_this c) k; sload_of (w_transient w) (c_this c) k;
         get_balance w (c_this c)].

(* what a frame sees of the code of account [a]: its size, and the 32 bytes from offset [off]
   on (zeros beyond the end of the code; an account without code reads as zeros) *)
Definition code_window (code : list Z) (off : Z) : list Z :=
  firstn 32 (skipn (Z.to_nat off) code ++ repeat 0 32).
Definition ext_observation (w : world) (a off : Z) : list Z :=
  let code := get_code w (a mod 2 ^ 160) in
  words [blen code] ++ code_window code off.

(* the [rsz]-byte return area (initially zero) after the call wrote min(rsz, |ret|) bytes *)
Definition ret_area (rsz : Z) (ret : list Z) : list Z :=
  let n := Nat.min (Z.to_nat rsz) (length ret) in
  firstn n ret ++ repeat 0 (Z.to_nat rsz - n).

Definition after_call (ob : list Z) (flag : Z) (rd : list Z) (rsz : Z) (copied : list Z) : list Z :=
  ob ++ words [flag; blen rd] ++ ret_area rsz copied.
Definition after_create (ob : list Z) (pushed : Z) (rd : list Z) : list Z :=
  ob ++ words [pushed; blen rd].

Definition end_result (e : ending) (ob : list Z) (w : world) : sres :=
  match e with
  | EStop => SOk [] w
  | EReturn tag => SOk (words [tag] ++ ob) w
  | ERevert tag => SRevert (words [tag] ++ ob)
  | EInvalid => SHalt
  end.
Definition fres_of (r : sres) : fres :=
  match r with SOk ret _ => FOk ret | SRevert ret => FRevert ret | SHalt => FHalt end.

(* context of the frame started by a call instruction executed in frame [c] *)
Definition sub_ctx (kd : ckind) (c : fctx) (w : world) (to v : Z) : fctx :=
  match kd with
  | KCall => mkCtx to (c_this c) (c_origin c) v (get_code w to) (c_static c) (c_depth c + 1)
  | KCallcode => mkCtx (c_this c) (c_this c) (c_origin c) v (get_code w to) (c_static c) (c_depth c + 1)
  | KDelegate => mkCtx (c_this c) (c_caller c) (c_origin c) (c_value c) (get_code w to) (c_static c) (c_depth c + 1)
  | KStatic => mkCtx to (c_this c) (c_origin c) 0 (get_code w to) true (c_depth c + 1)
  end.
Definition carries_value (kd : ckind) : bool :=
  match kd with KCall | KCallcode => true | _ => false end.
Definition is_kcall (kd : ckind) : bool := match kd with KCall => true | _ => false end.
Definition is_kcallcode (kd : ckind) : bool := match kd with KCallcode => true | _ => false end.

Definition stop_frame (c : fctx) (w : world) (ctr : Z) : sres * Z * list logitem :=
  (SOk [] w, ctr, [LFrame c; LEnd (FOk [])]).

(* [sexec s c w ctr ob rd]: run the rest [s] of the script of a frame with context [c];
   [w] current world, [ctr] CREATE counter, [ob] observation buffer, [rd] return data of
   the last sub-frame.  Result: outcome, counter, ghost log of this part. *)
Fixpoint sexec (s : script) (c : fctx) (w : world) (ctr : Z) (ob rd : list Z) {struct s}
  : sres * Z * list logitem :=
  match s with
  | SEnd e => let r := end_result e ob w in (r, ctr, [LEnd (fres_of r)])
  | SSstore k v rest =>
      if c_static c then (SHalt, ctr, [LEnd FHalt])
      else sexec rest c (set_storage w (c_this c) k v) ctr ob rd
  | STstore k v rest =>
      if c_static c then (SHalt, ctr, [LEnd FHalt])
      else sexec rest c (set_transient w (c_this c) k v) ctr ob rd
  | SLog rest =>
      if c_static c then (SHalt, ctr, [LEnd FHalt])
      else let '(r, ctr', lg) := sexec rest c w ctr ob rd in (r, ctr', LEvent (c_this c) :: lg)
  | SObserve k rest => sexec rest c w ctr (ob ++ observation c w k) rd
  | SRetCopy off size rest =>
      if blen rd <? off + size then
        (SHalt, ctr, [LEnd FHalt])         (* EIP-211: also for size 0 *)
      else sexec rest c w ctr (ob ++ firstn (Z.to_nat size) (skipn (Z.to_nat off) rd)) rd
  | SIf cond s1 s2 => if cond =? 0 then sexec s2 c w ctr ob rd else sexec s1 c w ctr ob rd
  | SExtCode a off rest => sexec rest c w ctr (ob ++ ext_observation w a off) rd
  | SCall kd to0 v0 rsz callee rest =>
      let to := to0 mod ADDR_MOD in
      let v := if carries_value kd then v0 else 0 in
      if is_kcall kd && c_static c && negb (v =? 0) then
        (SHalt, ctr, [LEnd FHalt])         (* a value-bearing CALL is a state modification *)
      else if MAX_DEPTH <? c_depth c + 1 then
        sexec rest c w ctr (after_call ob 0 [] rsz []) []       (* also when [to] has no account *)
      else if carries_value kd && negb (can_pay w (c_this c) v) then
        sexec rest c w ctr (after_call ob 0 [] rsz []) []
      else
        let w1 := if is_kcall kd then xfer w (c_this c) to v else w in
        let sc := sub_ctx kd c w to v in
        let '(r, ctr1, lg1) :=
          match c_code sc with
          | [] => stop_frame sc w1 ctr          (* no code: behaves as STOP *)
          | _ => let '(r, ctr1, lg1) := sexec callee sc w1 ctr [] [] in (r, ctr1, LFrame sc :: lg1)
          end in
        let '(r2, ctr2, lg2) :=
          match r with
          | SOk ret w2 => sexec rest c w2 ctr1 (after_call ob 1 ret rsz ret) ret
          | SRevert ret => sexec rest c w ctr1 (after_call ob 0 ret rsz ret) ret
          | SHalt => sexec rest c w ctr1 (after_call ob 0 [] rsz []) []
          end in
        (r2, ctr2, lg1 ++ lg2)
  | SCreate v initcode init rest =>
      if c_static c then (SHalt, ctr, [LEnd FHalt])
      else
        let ctr0 := ctr + 1 in
        let new := CREATE_BASE + ctr0 in
        if (MAX_DEPTH <? c_depth c + 1) || negb (can_pay w (c_this c) v) || has_account w new then
          sexec rest c w ctr0 (after_create ob 0 []) []
        else
          let w1 := xfer (new_account w new) (c_this c) new v in
          let sc := mkCtx new (c_this c) (c_origin c) v initcode false (c_depth c + 1) in
          let '(r, ctr1, lg1) :=
            match initcode with
            | [] => stop_frame sc w1 ctr0
            | _ => let '(r, ctr1, lg1) := sexec init sc w1 ctr0 [] [] in (r, ctr1, LFrame sc :: lg1)
            end in
          let '(r2, ctr2, lg2) :=
            match r with
            | SOk ret w2 => sexec rest c (set_code w2 new ret) ctr1 (after_create ob new []) []
            | SRevert ret => sexec rest c w ctr1 (after_create ob 0 ret) ret
            | SHalt => sexec rest c w ctr1 (after_create ob 0 []) []
            end in
          (r2, ctr2, lg1 ++ lg2)
  end.

(* a whole (top-level or sub-) frame *)
Definition sframe (s : script) (c : fctx) (w : world) (ctr : Z) : sres * Z * list logitem :=
  match c_code c with
  | [] => stop_frame c w ctr
  | _ => let '(r, ctr', lg) := sexec s c w ctr [] [] in (r, ctr', LFrame c :: lg)
  end.

(* addresses with built-in behaviour are outside the subset (as in Spec/Evm.v) *)
Definition HEVM_ADDR : Z := 645326474426547203313410069153905908525362434349.
Definition SVM_ADDR : Z := 1390701857259574547118865050343858777485928729545.
Definition CONSOLE_ADDR : Z := 120209876281281145568259943.
Definition reserved (a : Z) : bool :=
  ((1 <=? a) && (a <=? 10)) || (a =? HEVM_ADDR) || (a =? SVM_ADDR) || (a =? CONSOLE_ADDR).

Fixpoint supported (s : script) : bool :=
  match s with
  | SEnd _ => true
  | SSstore _ _ r | STstore _ _ r | SLog r | SObserve _ r | SRetCopy _ _ r => supported r
  | SIf _ s1 s2 => supported s1 && supported s2
  | SExtCode a _ r => negb (reserved (a mod ADDR_MOD)) && supported r
  | SCall _ to _ _ callee r => negb (reserved (to mod ADDR_MOD)) && supported callee && supported r
  | SCreate _ _ init r => supported init && supported r
  end.

(* sum of the balances of a list of addresses *)
Fixpoint total (addrs : list Z) (w : world) : Z :=
  match addrs with [] => 0 | a :: r => get_balance w a + total r w end.
