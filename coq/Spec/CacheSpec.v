(* C16 — specification side, written from what the property talks about (satisfiability of
   the path constraints, the SMT-LIB shape of a (get-unsat-core) reply), not from halmos' code. *)
From Coq Require Import ZArith List Bool.
Import ListNotations.
Open Scope Z_scope.

(* ---- satisfiability of a set of constraints, for any formula language and semantics *)
Section Sem.
  Variables (formula V : Type).
  Variable holds : V -> formula -> Prop.

  Definition sat (fs : list formula) : Prop := exists v, forall f, In f fs -> holds v f.
  Definition unsat (fs : list formula) : Prop := ~ sat fs.
End Sem.

(* ---- the text a solver prints after (check-sat) (get-model) (get-unsat-core) on an
   unsatisfiable query whose assertions are named <id> (characters are code points) *)

(* white space as Python's `\s` / str.split() see it (Unicode White_Space + FS/GS/RS/US) *)
Definition space_codes : list Z :=
  [9; 10; 11; 12; 13; 28; 29; 30; 31; 32; 133; 160; 5760;
   8192; 8193; 8194; 8195; 8196; 8197; 8198; 8199; 8200; 8201; 8202;
   8232; 8233; 8239; 8287; 12288].
Definition sp_space (c : Z) : Prop := In c space_codes.
Definition all_space (ws : list Z) : Prop := forall c, In c ws -> sp_space c.

Definition sp_digit (c : Z) : Prop := 48 <= c <= 57.
(* an identifier: a non-empty string of ASCII digits *)
Definition ident (d : list Z) : Prop := d <> [] /\ forall c, In c d -> sp_digit c.

Definition s_unsat : list Z := [117; 110; 115; 97; 116].          (* "unsat" *)
Definition s_error : list Z := [101; 114; 114; 111; 114].         (* "error" *)
Definition c_lpar : Z := 40.
Definition c_rpar : Z := 41.
Definition c_lt : Z := 60.
Definition c_gt : Z := 62.

(* "<d1>sep1<d2>sep2..." : every name followed by its separator *)
Fixpoint render_names (l : list (list Z * list Z)) : list Z :=
  match l with
  | [] => []
  | (d, sep) :: r => c_lt :: d ++ c_gt :: sep ++ render_names r
  end.

(* separators are white space, non-empty except possibly after the last name *)
Fixpoint seps_ok (l : list (list Z * list Z)) : Prop :=
  match l with
  | [] => True
  | (_, sep) :: r => all_space sep /\ (r <> [] -> sep <> []) /\ seps_ok r
  end.

(* the optional `(error "...")` line printed for (get-model) on an unsat context *)
Inductive error_line : list Z -> Prop :=
  | el_none : error_line []
  | el_some : forall ws1 c msg ws3,
      all_space ws1 -> sp_space c -> ~ In c_rpar msg -> all_space ws3 ->
      error_line (c_lpar :: ws1 ++ s_error ++ c :: msg ++ c_rpar :: ws3).

(* unsat <ws> [error line] ( <ws> names ) <anything> *)
Definition core_reply (ws0 err ws1 : list Z) (names : list (list Z * list Z)) (post : list Z) : list Z :=
  s_unsat ++ ws0 ++ err ++ c_lpar :: ws1 ++ render_names names ++ c_rpar :: post.

(* ---- verdict classes of a test (Foundry semantics: any counterexample => FAIL) *)
Inductive verdict := VFail | VError | VTimeout | VStuck | VRevertAll | VPass.
