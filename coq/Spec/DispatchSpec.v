(* What each method of halmos' word type (HalmosBitVec / HalmosBool) is meant to compute, receiver first,
   written from the methods' names and documentation with the EVM word functions of Base/Word.v
   (that the methods really compute this is property C06).  Used by Gen/GenDispatch.v (the table
   regenerated from the dispatch of SEVM.run) and Proofs/DispatchProofs.v. *)
From Coq Require Import ZArith List.
From HV Require Import Base.Word.
Import ListNotations.
Open Scope Z_scope.

Inductive meth :=
| M_add | M_sub | M_mul | M_div | M_sdiv | M_mod | M_smod | M_exp | M_signextend
| M_ult | M_ugt | M_slt | M_sgt | M_eq | M_is_zero
| M_bitwise_and | M_bitwise_or | M_bitwise_xor | M_bitwise_not
| M_byte | M_lshl | M_lshr | M_ashr | M_addmod | M_mulmod.

(* recv.method(args) *)
Definition meth_sem (m : meth) (recv : Z) (args : list Z) : Z :=
  match m, args with
  | M_add, [a] => evm_add recv a
  | M_sub, [a] => evm_sub recv a                 (* recv - a *)
  | M_mul, [a] => evm_mul recv a
  | M_div, [a] => evm_div recv a                 (* recv / a *)
  | M_sdiv, [a] => evm_sdiv recv a
  | M_mod, [a] => evm_mod recv a                 (* recv % a *)
  | M_smod, [a] => evm_smod recv a
  | M_exp, [a] => evm_exp recv a                 (* recv ** a *)
  | M_signextend, [a] => evm_signextend a recv   (* value.signextend(byte index) *)
  | M_ult, [a] => evm_lt recv a                  (* recv < a *)
  | M_ugt, [a] => evm_gt recv a
  | M_slt, [a] => evm_slt recv a
  | M_sgt, [a] => evm_sgt recv a
  | M_eq, [a] => evm_eq recv a
  | M_is_zero, [] => evm_iszero recv
  | M_bitwise_and, [a] => evm_and recv a
  | M_bitwise_or, [a] => evm_or recv a
  | M_bitwise_xor, [a] => evm_xor recv a
  | M_bitwise_not, [] => evm_not recv
  | M_byte, [a] => evm_byte a recv               (* word.byte(index) *)
  | M_lshl, [a] => evm_shl a recv                (* value.lshl(shift) *)
  | M_lshr, [a] => evm_shr a recv
  | M_ashr, [a] => evm_sar a recv
  | M_addmod, [a; n] => evm_addmod recv a n      (* (recv + a) % n *)
  | M_mulmod, [a; n] => evm_mulmod recv a n
  | _, _ => -1                                   (* wrong arity: no EVM word *)
  end.
