(* C15 specification side, written from the property text and Foundry's documented
   invariant-testing rules, independently of halmos' code.

   1. Bounded call sequences on an abstract deterministic transition system.
   2. Foundry's filter rules as predicates (no algorithm). *)
From Coq Require Import ZArith List Bool String.
Import ListNotations.
Open Scope Z_scope.

(* ------------------------------------------------------------------ 1. call sequences *)
Section Sequences.
  Variable CS : Type.                      (* concrete world state incl. block fields *)
  Variable Tx : Type.                      (* one transaction: target, selector, args, sender, value, next timestamp *)
  Variable cstep : CS -> Tx -> option CS.  (* None: the call reverts (state unchanged, sequence not continued) *)
  Variable adm : CS -> Tx -> Prop.         (* admissible: selected target/selector/sender, affordable value, timestamp not decreasing *)

  (* [creach s txs s']: the admissible calls txs, executed in order from s, all succeed and end in s' *)
  Inductive creach : CS -> list Tx -> CS -> Prop :=
  | creach_nil : forall s, creach s [] s
  | creach_cons : forall s tx s1 txs s2,
      adm s tx -> cstep s tx = Some s1 -> creach s1 txs s2 -> creach s (tx :: txs) s2.
End Sequences.
Arguments creach {CS Tx} cstep adm _ _ _.
Arguments creach_nil {CS Tx} cstep adm _.
Arguments creach_cons {CS Tx} cstep adm _ _ _ _ _ _ _ _.

(* ------------------------------------------------------------------ 2. filters (Foundry) *)
(* targetContracts(), excludeContracts(), targetSelectors(), excludeSelectors(),
   targetSenders(), excludeSenders() as declared by the test contract *)
Record filters := mkFilters {
  f_tc : list Z; f_ec : list Z;
  f_tsel : list (Z * list Z); f_esel : list (Z * list Z);
  f_tsend : list Z; f_esend : list Z }.

(* the selectors targeted / excluded for address a *)
Definition sel_targeted (f : filters) (a s : Z) : Prop := exists l, In (a, l) (f_tsel f) /\ In s l.
Definition sel_excluded (f : filters) (a s : Z) : Prop := exists l, In (a, l) (f_esel f) /\ In s l.
Definition has_sel_target (f : filters) (a : Z) : Prop := exists s, sel_targeted f a s.

(* Target contracts: the targeted contracts if any were declared, otherwise all deployed
   ones; minus the excluded ones; plus every contract named in targetSelectors(); the test
   contract itself only when it is explicitly targeted (as a contract, or by a selector). *)
Definition spec_target_contract (f : filters) (deployed : list Z) (test a : Z) : Prop :=
  ((((f_tc f = [] /\ In a deployed) \/ In a (f_tc f)) /\ ~ In a (f_ec f))
   \/ In a (map fst (f_tsel f)))
  /\ (a = test -> In test (f_tc f) \/ has_sel_target f test).

(* Senders: the targeted senders that are not excluded; if there is none, any sender that
   is not excluded. *)
Definition spec_sender (f : filters) (s : Z) : Prop :=
  let eff t := In t (f_tsend f) /\ ~ In t (f_esend f) in
  ((exists t, eff t) -> eff s) /\ (~ (exists t, eff t) -> ~ In s (f_esend f)).

(* Selectors of a target contract a with method table [methods] (selector, mutability
   0 pure / 1 view / 2 nonpayable / 3 payable, signature):
   if selectors are targeted for a, exactly those (exclusion is ignored);
   otherwise every state-changing function that is not excluded -- and, on the test
   contract, not one of the reserved test entry points. *)
Definition reserved_sig (s : string) : bool :=
  prefix "test_" s || prefix "check_" s || prefix "prove_" s || prefix "invariant_" s
  || String.eqb s "setUp()" || String.eqb s "afterInvariant()".

Definition spec_selector (f : filters) (test a : Z) (sig : string) (sel mut : Z) : Prop :=
  (has_sel_target f a -> sel_targeted f a sel) /\
  (~ has_sel_target f a ->
     mut <> 0 /\ mut <> 1 /\ ~ sel_excluded f a sel /\ (a = test -> reserved_sig sig = false)).
