(* SPECIFICATION side of C13: what the forge-std `vm.assert*` / `vm.assume` cheatcodes mean.
   Written from the Forge-std `Vm` interface and the Solidity ABI specification, not from
   halmos' code:
     - a cheatcode is described by (operator, operand type, is_array, has message);
       `render` prints the canonical Solidity signature of a description, and the description
       a signature *denotes* is the unique one that renders to it (`descr_of_sig`);
     - the operands are ABI-decoded *strictly* from the calldata (in bounds; bool is 0/1,
       address < 2^160) -- `None` when the calldata is not a valid encoding;
     - `rel` is the stated relation: unsigned order for uint256, two's-complement order for
       int256, value equality for word types, length-and-content equality for bytes/string,
       length and element-wise equality for T[].
   Also: the plain data type `handler` (the parameters halmos' mk_assert_handler derives), with
   `expected_handler`, the parameters a description calls for.  No proofs here. *)
From Coq Require Import ZArith List Bool String Ascii.
From HV Require Import Base.Word.
Import ListNotations.
Open Scope Z_scope.

Inductive aop := OTrue | OFalse | OEq | ONotEq | OLt | OGt | OLe | OGe.
Inductive aty := TBool | TUint | TInt | TAddress | TBytes32 | TString | TBytes.
Record descr := mkDescr { d_op : aop; d_ty : aty; d_arr : bool; d_msg : bool }.

Definition op_name (o : aop) : string :=
  match o with
  | OTrue => "True" | OFalse => "False" | OEq => "Eq" | ONotEq => "NotEq"
  | OLt => "Lt" | OGt => "Gt" | OLe => "Le" | OGe => "Ge"
  end.
Definition ty_name (t : aty) : string :=
  match t with
  | TBool => "bool" | TUint => "uint256" | TInt => "int256" | TAddress => "address"
  | TBytes32 => "bytes32" | TString => "string" | TBytes => "bytes"
  end.
Definition is_unary (o : aop) : bool := match o with OTrue | OFalse => true | _ => false end.
Definition is_order (o : aop) : bool := match o with OLt | OGt | OLe | OGe => true | _ => false end.
Definition is_dyn (t : aty) : bool := match t with TString | TBytes => true | _ => false end.

(* the overloads that exist in forge-std's Vm interface (without the decimal / approx families,
   which halmos does not bind) *)
Definition valid_descr (d : descr) : bool :=
  if is_unary (d_op d) then (match d_ty d with TBool => true | _ => false end) && negb (d_arr d)
  else if is_order (d_op d) then (match d_ty d with TUint | TInt => true | _ => false end) && negb (d_arr d)
  else true.

Definition operand_ty (d : descr) : string :=
  (ty_name (d_ty d) ++ (if d_arr d then "[]" else ""))%string.
Definition render (d : descr) : string :=
  ("assert" ++ op_name (d_op d) ++ "(" ++ operand_ty d
     ++ (if is_unary (d_op d) then "" else "," ++ operand_ty d)
     ++ (if d_msg d then ",string" else "") ++ ")")%string.

Definition all_ops := [OTrue; OFalse; OEq; ONotEq; OLt; OGt; OLe; OGe].
Definition all_tys := [TBool; TUint; TInt; TAddress; TBytes32; TString; TBytes].
Definition all_descrs : list descr :=
  filter valid_descr
    (flat_map (fun o => flat_map (fun t => flat_map (fun a => map (fun m => mkDescr o t a m) [false; true])
                                                   [false; true]) all_tys) all_ops).
Definition descr_of_sig (s : string) : option descr :=
  find (fun d => String.eqb (render d) s) all_descrs.

(* ------------------------------------------------------------------ strict ABI decoding *)
Definition zlen (l : list Z) : Z := Z.of_nat (List.length l).
Definition byte_ok (b : Z) : Prop := 0 <= b < 256.
Definition bytes_ok (l : list Z) : Prop := Forall byte_ok l.

(* big-endian value of a byte string *)
Fixpoint be_num (acc : Z) (l : list Z) : Z :=
  match l with [] => acc | b :: r => be_num (acc * 256 + b) r end.
Definition be_val (l : list Z) : Z := be_num 0 l.

(* bytes [off, off+n) when in bounds *)
Definition sub (l : list Z) (off n : Z) : option (list Z) :=
  if (0 <=? off) && (0 <=? n) && (off + n <=? zlen l)
  then Some (firstn (Z.to_nat n) (skipn (Z.to_nat off) l)) else None.

Definition bind {A B} (o : option A) (f : A -> option B) : option B :=
  match o with Some a => f a | None => None end.

(* the argument block: everything after the 4-byte selector *)
Definition args_of (cd : list Z) : option (list Z) :=
  if 4 <=? zlen cd then Some (skipn 4 cd) else None.
Definition head_word (args : list Z) (i : Z) : option Z :=
  option_map be_val (sub args (32 * i) 32).
Definition word_at (args : list Z) (off : Z) : option Z :=
  option_map be_val (sub args off 32).

(* i-th argument of type bytes/string: head word = offset, then length, then the content *)
Definition dyn_bytes (args : list Z) (i : Z) : option (list Z) :=
  bind (head_word args i) (fun off =>
  bind (word_at args off) (fun len =>
  sub args (off + 32) len)).

Fixpoint words_of (n : nat) (l : list Z) : list Z :=
  match n with O => [] | S k => be_val (firstn 32 l) :: words_of k (skipn 32 l) end.

(* i-th argument of type T[] with a one-word T: offset, length, then length words *)
Definition dyn_words (args : list Z) (i : Z) : option (list Z) :=
  bind (head_word args i) (fun off =>
  bind (word_at args off) (fun len =>
  bind (sub args (off + 32) (32 * len)) (fun c =>
  Some (words_of (Z.to_nat len) c)))).

(* strict validity of a decoded word for its type *)
Definition valid_word (t : aty) (w : Z) : bool :=
  match t with TBool => w <=? 1 | TAddress => w <? 2 ^ 160 | _ => true end.

Inductive aval := VWord (w : Z) | VBytes (l : list Z) | VArr (ws : list Z).

Definition decode_arg (t : aty) (arr : bool) (args : list Z) (i : Z) : option aval :=
  if is_dyn t then
    if arr then None  (* bytes[] / string[]: nested dynamic arrays, see Props: not supported by halmos (the path is stuck) *)
    else option_map VBytes (dyn_bytes args i)
  else if arr then
    bind (dyn_words args i) (fun ws => if forallb (valid_word t) ws then Some (VArr ws) else None)
  else
    bind (head_word args i) (fun w => if valid_word t w then Some (VWord w) else None).

(* ------------------------------------------------------------------ the stated relations *)
Fixpoint list_eqb {A} (eqb : A -> A -> bool) (l1 l2 : list A) : bool :=
  match l1, l2 with
  | [], [] => true
  | a :: r1, b :: r2 => eqb a b && list_eqb eqb r1 r2
  | _, _ => false
  end.

Definition word_truth (w : Z) : bool := negb (w =? 0).
(* value equality of two decoded words of type t *)
Definition word_eq (t : aty) (a b : Z) : bool :=
  match t with
  | TInt => to_signed a =? to_signed b
  | TBool => Bool.eqb (word_truth a) (word_truth b)
  | _ => a =? b
  end.
Definition word_lt (t : aty) (a b : Z) : option bool :=
  match t with
  | TUint => Some (a <? b)
  | TInt => Some (to_signed a <? to_signed b)
  | _ => None
  end.

Definition val_eq (t : aty) (v1 v2 : aval) : option bool :=
  match v1, v2 with
  | VWord a, VWord b => Some (word_eq t a b)
  | VBytes a, VBytes b => Some (list_eqb Z.eqb a b)
  | VArr a, VArr b => Some (list_eqb (word_eq t) a b)
  | _, _ => None
  end.

Definition rel (o : aop) (t : aty) (v1 v2 : aval) : option bool :=
  match o with
  | OEq => val_eq t v1 v2
  | ONotEq => option_map negb (val_eq t v1 v2)
  | OLt => match v1, v2 with VWord a, VWord b => word_lt t a b | _, _ => None end
  | OGt => match v1, v2 with VWord a, VWord b => word_lt t b a | _, _ => None end
  | OLe => match v1, v2 with VWord a, VWord b => option_map negb (word_lt t b a) | _, _ => None end
  | OGe => match v1, v2 with VWord a, VWord b => option_map negb (word_lt t a b) | _, _ => None end
  | _ => None
  end.

(* position of the message argument *)
Definition msg_index (d : descr) : Z := if is_unary (d_op d) then 1 else 2.
(* the decoded message bytes, when the overload has one *)
Definition spec_msg (d : descr) (cd : list Z) : option (list Z) :=
  if d_msg d then bind (args_of cd) (fun args => dyn_bytes args (msg_index d)) else None.

(* Some b: the calldata is a valid encoding for description d and the assertion HOLDS iff b.
   None: not a valid encoding (or an overload outside the specification above). *)
Definition spec_assert (d : descr) (cd : list Z) : option bool :=
  bind (args_of cd) (fun args =>
  bind (if d_msg d then option_map (fun _ => tt) (dyn_bytes args (msg_index d)) else Some tt) (fun _ =>
  if is_unary (d_op d) then
    bind (decode_arg (d_ty d) (d_arr d) args 0) (fun v =>
      match v, d_op d with
      | VWord w, OTrue => Some (word_truth w)
      | VWord w, OFalse => Some (negb (word_truth w))
      | _, _ => None
      end)
  else
    bind (decode_arg (d_ty d) (d_arr d) args 0) (fun v1 =>
    bind (decode_arg (d_ty d) (d_arr d) args 1) (fun v2 =>
    rel (d_op d) (d_ty d) v1 v2)))).

(* vm.assume(bool): the condition the path must be restricted to *)
Definition spec_assume (cd : list Z) : option bool :=
  bind (args_of cd) (fun args =>
  bind (decode_arg TBool false args 0) (fun v =>
    match v with VWord w => Some (word_truth w) | _ => None end)).

(* ------------------------------------------------------------------ handler parameters *)
(* what mk_assert_handler derives from a signature (plain data shared with the model):
   the comparison operator as halmos names it, and which argument extractor is used *)
Inductive handler :=
  | HWord (bop : string) (log : bool)        (* one-word operands at calldata 4 and 36 *)
  | HBytes (bop : string) (log : bool)       (* bytes / string operands *)
  | HArr (bop : string) (log : bool)         (* T[] with one-word T *)
  | HNotImpl (bop : string) (typ : string)   (* bytes[] / string[]: not supported, the handler raises *)
  | HUnary (expected : bool) (log : bool).   (* assertTrue / assertFalse *)

(* operator name used by halmos' mk_cond: Eq/NotEq, or U|S ++ Lt/Gt/Le/Ge by signedness *)
Definition expected_bop (d : descr) : string :=
  match d_op d with
  | OEq => "Eq" | ONotEq => "NotEq"
  | o => ((match d_ty d with TUint => "U" | _ => "S" end) ++ op_name o)%string
  end.
Definition expected_handler (d : descr) : handler :=
  if is_unary (d_op d) then HUnary (match d_op d with OTrue => true | _ => false end) (d_msg d)
  else if is_dyn (d_ty d) then
    if d_arr d then HNotImpl (expected_bop d) (ty_name (d_ty d)) else HBytes (expected_bop d) (d_msg d)
  else if d_arr d then HArr (expected_bop d) (d_msg d) else HWord (expected_bop d) (d_msg d).

(* ------------------------------------------------------------------ a test body as a sequence *)
(* A test that issues assume / assert cheatcodes one after the other, as Foundry runs it on ONE
   input i: execution stops at the first assertion whose relation is false (the test FAILS for
   i), at the first assumption that does not hold (i is REJECTED: neither pass nor fail), or at
   a cheatcode the tool under verification does not support (no verdict may be claimed for i:
   it must be neither passed nor dropped silently).  Ordinary control flow between the calls --
   a two-way branch on any condition whose sides rejoin -- changes nothing for a single input. *)
Section SeqSpec.
  Variable Input : Type.
  Inductive pstep :=
    | PAssert (c : Input -> bool)
    | PAssume (c : Input -> bool)
    | PBranch (c : Input -> bool)
    | PUnsupported.
  Inductive verdict := VPass | VFail | VRejected | VUnsupported.
  Fixpoint foundry_run (i : Input) (p : list pstep) : verdict :=
    match p with
    | [] => VPass
    | PAssert c :: r => if c i then foundry_run i r else VFail
    | PAssume c :: r => if c i then foundry_run i r else VRejected
    | PBranch _ :: r => foundry_run i r
    | PUnsupported :: _ => VUnsupported
    end.
End SeqSpec.
