(* Foundry's documented meaning of the prank family, of the state-setting cheatcodes and
   of the symbolic-value constructors.  Written from the Foundry book / forge-std Vm.sol
   comments and the halmos-cheatcodes SVM.sol interface, independent of halmos' source.

   prank(s)            "Sets msg.sender to s for the next call"; prank(s,o) also tx.origin.
                       "The next call includes static calls as well, but not calls to the
                       cheat code address."  Contract creations count as calls.
   startPrank(s[,o])   "for all subsequent calls until stopPrank is called".
   Both act on calls made by the frame that invoked the cheatcode (its call depth), not
   on calls made by the callee, and do not survive the end of the transaction.
   A prank may not be set while another one is in force.                              *)
From Coq Require Import ZArith List Bool.
Import ListNotations.
Open Scope Z_scope.

Definition addr := Z.

Inductive cheat_target := CHevm | CSvm | CConsole.
Inductive callkind := KCall | KStatic.

Inductive op :=
| OPrank (s : addr)
| OPrank2 (s o : addr)
| OStartPrank (s : addr)
| OStartPrank2 (s o : addr)
| OStopPrank
| OCheat (c : cheat_target)       (* any other call to a cheatcode address (vm.*, svm.*, console.log) *)
| OCall (k : callkind) (a : addr) (* message call to a: control enters a frame of a *)
| OCreate (a : addr)              (* contract creation; a = address of the new account *)
| OReturn                         (* the current frame finishes; control returns to its caller *)
| ONewTx (this sender origin : addr).  (* a new transaction starts *)

(* what a callee observes *)
Inductive obs :=
| Obs (sender origin : addr)      (* msg.sender / tx.origin seen by the frame just entered *)
| ObsError.                       (* the cheatcode call is rejected *)

(* events of one frame activation that matter for pranks, most recent first *)
Inductive levent :=
| LPrank (keep : bool) (s : addr) (o : option addr)
| LStop
| LCall        (* a non-cheatcode call or creation made by this frame *)
| LCheat.      (* a call to a cheatcode address *)

(* the prank in force for the next call of a frame with local history [h]:
   the latest prank-family event decides -- stopPrank: none; startPrank: in force;
   prank: in force iff this frame made no call or creation since. *)
Fixpoint in_effect (h : list levent) (called_since : bool) : option (addr * option addr) :=
  match h with
  | [] => None
  | LCall :: r => in_effect r true
  | LCheat :: r => in_effect r called_since
  | LStop :: _ => None
  | LPrank keep s o :: _ => if keep then Some (s, o) else if called_since then None else Some (s, o)
  end.

Record sframe := { s_this : addr; s_caller : addr; s_origin : addr; s_hist : list levent }.

Definition s_log (e : levent) (f : sframe) : sframe :=
  {| s_this := s_this f; s_caller := s_caller f; s_origin := s_origin f; s_hist := e :: s_hist f |}.

Definition s_fresh (this sender origin : addr) : sframe :=
  {| s_this := this; s_caller := sender; s_origin := origin; s_hist := [] |}.

(* sender and origin of the next call made by frame f *)
Definition s_next_call (f : sframe) : addr * addr :=
  match in_effect (s_hist f) false with
  | Some (s, Some o) => (s, o)
  | Some (s, None) => (s, s_origin f)
  | None => (s_this f, s_origin f)
  end.

Inductive sres := SErr | SOk (frames : list sframe) (out : list obs).

Definition s_set_prank (keep : bool) (s : addr) (o : option addr) (f : sframe) (rest : list sframe) : sres :=
  match in_effect (s_hist f) false with
  | Some _ => SErr
  | None => SOk (s_log (LPrank keep s o) f :: rest) []
  end.

Definition s_step (st : list sframe) (o : op) : sres :=
  match o, st with
  | ONewTx this sender origin, _ => SOk [s_fresh this sender origin] []
  | _, [] => SOk [] []
  | OPrank s, f :: rest => s_set_prank false s None f rest
  | OPrank2 s og, f :: rest => s_set_prank false s (Some og) f rest
  | OStartPrank s, f :: rest => s_set_prank true s None f rest
  | OStartPrank2 s og, f :: rest => s_set_prank true s (Some og) f rest
  | OStopPrank, f :: rest => SOk (s_log LStop f :: rest) []
  | OCheat _, f :: rest => SOk (s_log LCheat f :: rest) []
  | OCall _ a, f :: rest =>
      let '(sender, origin) := s_next_call f in
      SOk (s_fresh a sender origin :: s_log LCall f :: rest) [Obs sender origin]
  | OCreate a, f :: rest =>
      let '(sender, origin) := s_next_call f in
      SOk (s_fresh a sender origin :: s_log LCall f :: rest) [Obs sender origin]
  | OReturn, f :: [] => SOk [f] []        (* the transaction's outermost frame: nothing to return to *)
  | OReturn, _ :: rest => SOk rest []
  end.

Fixpoint s_run (st : list sframe) (ops : list op) : list obs :=
  match ops with
  | [] => []
  | o :: r => match s_step st o with
              | SErr => [ObsError]
              | SOk st' out => out ++ s_run st' r
              end
  end.

(* ------------------------------------------------------------------ state cheatcodes *)
(* World state as far as the cheatcodes are concerned.  Reads are total functions. *)
Record world := {
  w_balance : addr -> Z;
  w_storage : addr -> Z -> Z;
  w_code : addr -> option (list Z);
  w_basefee : Z; w_chainid : Z; w_coinbase : Z; w_prevrandao : Z; w_number : Z; w_timestamp : Z
}.

(* ------------------------------------------------------------------ created values *)
(* meaning of the Solidity types returned by svm.create* / vm.random*, as sets of
   256-bit words (ABI: uintN zero-extended, intN sign-extended, bool 0/1, address
   zero-extended 160 bits, bytesN left-aligned) *)
Definition is_uintN (n w : Z) : Prop := 0 <= w < 2 ^ n.
Definition is_intN (n w : Z) : Prop :=
  0 <= w < 2 ^ 256 /\ let s := if w <? 2 ^ 255 then w else w - 2 ^ 256 in - 2 ^ (n - 1) <= s < 2 ^ (n - 1).
Definition is_bool (w : Z) : Prop := w = 0 \/ w = 1.
Definition is_address (w : Z) : Prop := 0 <= w < 2 ^ 160.
Definition is_bytesN (n w : Z) : Prop := exists v, 0 <= v < 2 ^ (8 * n) /\ w = v * 2 ^ (8 * (32 - n)).
(* abi.encode(bytes data) as a byte list: offset 32, length, data *)
Fixpoint be_bytes (n : nat) (x : Z) : list Z :=
  match n with O => [] | S k => be_bytes k (x / 256) ++ [x mod 256] end.
Definition abi_bytes_tuple (data : list Z) : list Z :=
  be_bytes 32 32 ++ be_bytes 32 (Z.of_nat (length data)) ++ data.
