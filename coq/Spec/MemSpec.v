(* C07 specification side, second part: what the EVM instructions that move bytes between
   memory, calldata, code, returndata do, on flat zero-extended byte arrays.  Written from
   the EVM definition (yellow paper / EIP-211 RETURNDATACOPY / EIP-5656 MCOPY), independent
   of halmos' sevm.py.  Gas is not modelled; memory length is the highest offset WRITTEN
   (the property's notion: a read does not grow the array, a write of 0 bytes neither).
   Parametric in the byte type B with a distinguished [zero]. *)
From Coq Require Import List Arith Bool.
Import ListNotations.

Section MemSpec.
Variable B : Type.
Variable zero : B.

(* size bytes of src from offset off, zeros beyond its end *)
Definition read_padded (src : list B) (off size : nat) : list B :=
  firstn size (skipn off src ++ repeat zero size).

(* memory with data written at loc (zero filled gap when loc is beyond the end);
   writing no byte changes nothing *)
Definition mem_write (mem : list B) (loc : nat) (data : list B) : list B :=
  match data with
  | [] => mem
  | _ => firstn loc (mem ++ repeat zero (loc - length mem)) ++ data ++ skipn (loc + length data) mem
  end.

(* the *COPY instructions: mem[loc, loc + size) := src[off, off + size) *)
Definition mem_copy (mem : list B) (loc : nat) (src : list B) (off size : nat) : list B :=
  mem_write mem loc (read_padded src off size).

(* MSIZE as halmos defines it on this array: its length rounded up to a multiple of 32 *)
Definition round32 (n : nat) : nat := ((n + 31) / 32) * 32.

(* ---- one frame: memory and the returndata buffer; calldata and code are fixed ---- *)

Record fframe : Type := FF { f_mem : list B; f_rd : list B }.
Record fenv : Type := FE { f_cd : list B; f_code : list B }.

(* where a copy reads from: calldata, the running code, the code of another account
   ([None]: the account has no code -- it reads as zeros) *)
Inductive fsrc : Type :=
| FCalldata
| FCode
| FExt (c : option (list B)).

Definition src_bytes (e : fenv) (s : fsrc) : list B :=
  match s with
  | FCalldata => f_cd e
  | FCode => f_code e
  | FExt (Some c) => c
  | FExt None => []
  end.

(* instructions that do not leave the frame *)
Inductive fbop : Type :=
| FMStore (loc : nat) (w : list B)            (* MSTORE: w has 32 bytes *)
| FMStore8 (loc : nat) (x : B)                (* MSTORE8 *)
| FCopyIn (s : fsrc) (loc off size : nat)     (* CALLDATACOPY / CODECOPY / EXTCODECOPY *)
| FRetCopy (loc off size : nat)               (* RETURNDATACOPY *)
| FMCopy (dst src size : nat).                (* MCOPY (source read before the write) *)

(* None = exceptional halt (RETURNDATACOPY reading beyond the buffer, also for size 0) *)
Definition fb_apply (e : fenv) (st : fframe) (o : fbop) : option fframe :=
  let mem := f_mem st in
  match o with
  | FMStore loc w => Some (FF (mem_write mem loc w) (f_rd st))
  | FMStore8 loc x => Some (FF (mem_write mem loc [x]) (f_rd st))
  | FCopyIn s loc off size => Some (FF (mem_copy mem loc (src_bytes e s) off size) (f_rd st))
  | FRetCopy loc off size =>
      if length (f_rd st) <? off + size then None
      else Some (FF (mem_copy mem loc (f_rd st) off size) (f_rd st))
  | FMCopy dst src size => Some (FF (mem_copy mem dst mem src size) (f_rd st))
  end.

Fixpoint fb_run (e : fenv) (st : fframe) (ops : list fbop) : option fframe :=
  match ops with
  | [] => Some st
  | o :: r =>
      match fb_apply e st o with
      | Some st' => fb_run e st' r
      | None => None
      end
  end.

(* a message call: the callee runs [body] on an empty memory and an empty returndata
   buffer, its calldata is mem[aloc, aloc + asize); it ends with RETURN / REVERT of
   its mem[roff, roff + rsize), or halts exceptionally (then it returns nothing).  The
   caller keeps the returned bytes as its returndata buffer and gets the first
   min(osize, returned) of them written at oloc *)
(* A creation (CREATE / CREATE2): the init code is mem[loc, loc + size); it runs [body] on an
   empty memory with an EMPTY calldata (its own code is the init code) and ends with
   RETURN (the returned bytes become the code of the new account) or REVERT of its
   mem[roff, roff + rsize), or halts exceptionally.  The creator's memory is unchanged; its
   returndata buffer is empty after a successful creation or an exceptional halt, the
   reverted bytes otherwise *)
Inductive fop : Type :=
| FB (o : fbop)
| FCall (ccode : list B) (aloc asize : nat) (body : list fbop) (roff rsize : nat) (oloc osize : nat)
| FCreate (loc size : nat) (body : list fbop) (roff rsize : nat) (reverts : bool).

Definition callee_returns (ccode : list B) (args : list B) (body : list fbop) (roff rsize : nat) : list B :=
  match fb_run (FE args ccode) (FF [] []) body with
  | Some st => read_padded (f_mem st) roff rsize
  | None => []
  end.

(* what the init code returns / reverts with; None = it halts exceptionally *)
Definition init_returns (mem : list B) (loc size : nat) (body : list fbop) (roff rsize : nat) : option (list B) :=
  match fb_run (FE [] (read_padded mem loc size)) (FF [] []) body with
  | Some st => Some (read_padded (f_mem st) roff rsize)
  | None => None
  end.

Definition f_apply (e : fenv) (st : fframe) (o : fop) : option fframe :=
  match o with
  | FB b => fb_apply e st b
  | FCreate loc size body roff rsize reverts =>
      Some (FF (f_mem st)
               match init_returns (f_mem st) loc size body roff rsize with
               | Some d => if reverts then d else []
               | None => []
               end)
  | FCall ccode aloc asize body roff rsize oloc osize =>
      let rd := callee_returns ccode (read_padded (f_mem st) aloc asize) body roff rsize in
      Some (FF (mem_write (f_mem st) oloc (firstn (Nat.min osize (length rd)) rd)) rd)
  end.

Fixpoint f_run (e : fenv) (st : fframe) (ops : list fop) : option fframe :=
  match ops with
  | [] => Some st
  | o :: r =>
      match f_apply e st o with
      | Some st' => f_run e st' r
      | None => None
      end
  end.

End MemSpec.

Arguments FF {B}.
Arguments FE {B}.
Arguments f_mem {B}.
Arguments f_rd {B}.
Arguments f_cd {B}.
Arguments f_code {B}.
Arguments FCalldata {B}.
Arguments FCode {B}.
Arguments FExt {B}.
Arguments FMStore {B}.
Arguments FMStore8 {B}.
Arguments FCopyIn {B}.
Arguments FRetCopy {B}.
Arguments FMCopy {B}.
Arguments FB {B}.
Arguments FCall {B}.
Arguments FCreate {B}.
