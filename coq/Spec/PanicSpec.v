(* SPEC side of C03: what it means for a concrete execution to violate a test.
   Written from the Solidity ABI (Panic(uint256) error encoding) and the DSTest convention
   (global failure flag), independently of halmos' code. *)
From Coq Require Import ZArith List Bool.
Import ListNotations.
Open Scope Z_scope.

Definition is_byte (b : Z) : Prop := 0 <= b < 256.

(* n-byte big-endian representation of v (the low n bytes) *)
Fixpoint be_bytes (n : nat) (v : Z) : list Z :=
  match n with
  | O => []
  | S k => be_bytes k (v / 256) ++ [v mod 256]
  end.

(* bytes4(keccak256("Panic(uint256)")) *)
Definition panic_selector : list Z := [78; 72; 123; 113].

(* abi.encodeWithSignature("Panic(uint256)", k): 4 + 32 bytes *)
Definition panic_encoding (k : Z) : list Z := panic_selector ++ be_bytes 32 k.

(* revert data d is Panic(k) for a configured code k (empty configuration = every code) *)
Definition is_panic_data (codes : list Z) (d : list Z) : Prop :=
  exists k, 0 <= k < 2 ^ 256 /\ d = panic_encoding k /\ (codes = [] \/ In k codes).

(* how a call ended, as far as the verdict is concerned *)
Inductive errkind :=
| ENone          (* no error: STOP / RETURN *)
| ERevert        (* REVERT *)
| EEvm           (* any other exceptional halt (invalid opcode, out of gas, ...) *)
| EFail          (* the failure flag was raised here (halmos: FailCheatcode) *)
| EHalmos.       (* halmos-internal error (the path is stuck); has no EVM counterpart *)

(* a call with its subcalls *)
Inductive ctree := CNode (err : errkind) (subs : list ctree).

(* the failure flag was raised somewhere in the call tree *)
Inductive has_fail : ctree -> Prop :=
| hf_here : forall subs, has_fail (CNode EFail subs)
| hf_sub : forall e subs s, In s subs -> has_fail s -> has_fail (CNode e subs).

(* how a concrete execution of the test transaction ends *)
Inductive okind := OSuccess | ORevert | OHalt.
Record outcome := mkOutcome {
  o_kind : okind;
  o_data : list Z;       (* return / revert data *)
  o_fail : bool          (* the global failure flag was set (DSTest.fail / vm.store(HEVM, "failed", 1)) *)
}.

Definition violates (codes : list Z) (o : outcome) : Prop :=
  (o_kind o = ORevert /\ is_panic_data codes (o_data o)) \/ o_fail o = true.
