(* C15 specification side: which path conditions are constraints on the state.

   Written from the meaning of "the constraints on the symbols held in the state", independently of
   halmos' bookkeeping: a condition constrains the state variables when it mentions one of them, or
   shares a variable with a condition that constrains them -- in whatever order they were added
   (x == y; y < 3 constrains x just as y < 3; x == y does).
   Conditions are named by their position, variables by numbers. *)
From Coq Require Import ZArith List Bool.
Import ListNotations.
Open Scope Z_scope.

(* two variable sets share a variable *)
Definition share (a b : list Z) : Prop := exists v, In v a /\ In v b.

(* the variables of condition i of a path whose conditions have the variable sets vs *)
Definition cvars (vs : list (list Z)) (i : nat) : list Z := nth i vs [].

Inductive constrains (vs : list (list Z)) (S : list Z) : nat -> Prop :=
| constrains_direct : forall i, (i < length vs)%nat -> share (cvars vs i) S -> constrains vs S i
| constrains_step : forall i j, (i < length vs)%nat -> constrains vs S j -> share (cvars vs i) (cvars vs j) ->
                                constrains vs S i.
