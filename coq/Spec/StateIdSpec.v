(* C15 specification side for "states are merged only when they are identical".

   Written from the property text, independently of how halmos computes a state id:
   what a symbolic state at a transaction boundary consists of, which path conditions are
   constraints ON THE STATE, which concrete states it stands for, and when two symbolic
   states are identical. *)
From Coq Require Import ZArith List Bool.
Import ListNotations.
Open Scope Z_scope.

(* ------------------------------------------------------------------ the data
   Terms and conditions are hash-consed: they are named by their ids (equal id = same term). *)
(* a storage key: an int, or a tuple of ints (slot, number of keys, size of keys) *)
Inductive xkey := KInt (k : Z) | KTup (ks : list Z).
(* the storage of one account: (key, id of the value term), in the order of first use *)
Definition xstorage := list (xkey * Z).

(* the fields of the block environment *)
Inductive bfield := BBasefee | BChainid | BCoinbase | BDifficulty | BGaslimit | BNumber | BTimestamp.

Record xstate := mkX {
  x_balance : Z;                          (* id of the balance term *)
  x_code : list (Z * Z);                  (* (address, identity of the code), in deployment order *)
  x_storage : list (Z * xstorage);        (* (address, storage) *)
  x_conds : list Z;                       (* ids of the path conditions, in the order they were added *)
  x_sliced : option (list Z);             (* positions of the conditions that constrain state variables
                                             (None: not determined yet) *)
  x_block : bfield -> Z }.                (* id of the term held in each block field *)

Definition key_words (k : xkey) : list Z := match k with KInt z => [z] | KTup ks => ks end.
Definition storage_items (st : xstorage) : list (list Z * Z) := map (fun kv => (key_words (fst kv), snd kv)) st.
Definition storage_terms (ex : xstate) : list (Z * list (list Z * Z)) :=
  map (fun p => (fst p, storage_items (snd p))) (x_storage ex).

(* all storage keys have the same shape (one storage layout per run): n words each *)
Definition uniform_keys (n : nat) (ex : xstate) : Prop :=
  forall addr st k v, In (addr, st) (x_storage ex) -> In (k, v) st -> length (key_words k) = n.

(* c is a constraint on the state: it sits at a position of the slice *)
Definition constraint_of (ex : xstate) (c : Z) : Prop :=
  match x_sliced ex with
  | Some sl => exists k : nat, In (Z.of_nat k) sl /\ nth_error (x_conds ex) k = Some c
  | None => False
  end.

(* ------------------------------------------------------------------ identity *)
(* two symbolic states are identical: the same balance, code and storage terms, the same
   constraints on the symbols occurring in them, and the same block environment -- except for the
   timestamp, which every invariant transaction replaces by a fresh symbol (>= the previous one) *)
Definition same_identity (a b : xstate) : Prop :=
  x_balance a = x_balance b /\ x_code a = x_code b /\ storage_terms a = storage_terms b /\
  (forall c, constraint_of a c <-> constraint_of b c) /\
  (forall fld, fld <> BTimestamp -> x_block a fld = x_block b fld).

(* ------------------------------------------------------------------ meaning *)
Section Meaning.
  Variable V : Type.                       (* valuations of the symbols *)
  Variable val : Type.                     (* values of terms (words, arrays) *)
  Variable ev : V -> Z -> val.             (* value of the term with this id *)
  Variable holds : V -> Z -> Prop.         (* truth of the condition with this id *)

  (* concrete state: balances, code, storage contents, block environment (without the timestamp) *)
  (* the block fields other than the timestamp, in a fixed order *)
  Definition env_fields : list bfield := [BBasefee; BChainid; BCoinbase; BDifficulty; BGaslimit; BNumber].

  Definition cworld := (val * list (Z * Z) * list (Z * list (list Z * val)) * list val)%type.

  Definition concretize (v : V) (ex : xstate) : cworld :=
    (ev v (x_balance ex), x_code ex,
     map (fun p => (fst p, map (fun kt => (fst kt, ev v (snd kt))) (snd p))) (storage_terms ex),
     map (fun fld => ev v (x_block ex fld)) env_fields).

  (* the concrete states a symbolic state stands for *)
  Definition represents (ex : xstate) (w : cworld) : Prop :=
    exists v, (forall c, constraint_of ex c -> holds v c) /\ w = concretize v ex.
End Meaning.
