(* Specification side of C20 (test isolation and determinism), written from the
   property statement, independently of halmos' control flow.

   1. What a test's result IS when it runs alone from the post-setUp state: the outcomes
      of its body over the layers of states reachable by 0..D target transactions (first
      come, first kept; duplicates by state id dropped) -- no caches, no generators, no
      budgets.  Isolation = the result in any schedule equals this.
   2. Which nesting depth of each Exec / Path field is mutated in place by the
      interpreter (so must be private to a path), and which fields may be shared.
   3. What a verdict may depend on: satisfiability, which is a property of a formula up
      to injective renaming of its symbols. *)
From Coq Require Import String ZArith List Bool.
Import ListNotations.
Open Scope Z_scope.

(* ---------------------------------------------------------------- 1. a test alone *)

(* transition system of one test contract after setUp *)
Record system := mkSystem {
  step : Z -> list Z;      (* successor states of a state: every non-reverting target call, in order *)
  sid  : Z -> Z            (* the state id used to recognise already-visited states *)
}.

Definition memZ (x : Z) (l : list Z) : bool := existsb (Z.eqb x) l.

(* keep the posts whose id has not been seen, in order; returns (seen', kept) *)
Fixpoint dedup (sd : Z -> Z) (seen : list Z) (posts : list Z) : list Z * list Z :=
  match posts with
  | [] => (seen, [])
  | p :: r =>
      if memZ (sd p) seen then dedup sd seen r
      else let '(s', k) := dedup sd (sd p :: seen) r in (s', p :: k)
  end.

(* layers 0..n of reachable states with the ids seen so far: (layers, seen).  The post-setUp state itself is
   not "seen": it keeps the concrete setUp timestamp, so a state with the same id reached by a transaction
   (fresh timestamp) is a different starting point and is explored. *)
Fixpoint layers (sys : system) (s0 : Z) (n : nat) : list (list Z) * list Z :=
  match n with
  | O => ([[s0]], [])
  | S n' =>
      let '(ls, seen) := layers sys s0 n' in
      let '(seen', nxt) := dedup (sid sys) seen (flat_map (step sys) (last ls [])) in
      (ls ++ [nxt], seen')
  end.

(* outcome codes of the paths of a test: 0 success, 1 assertion violation with a
   counterexample, 2 revert, 3 stuck *)
Definition spec_paths (sys : system) (body : Z -> list Z) (s0 : Z) (D : nat) : list Z :=
  flat_map body (concat (fst (layers sys s0 D))).

(* halmos' exit codes: 0 PASS, 1 COUNTEREXAMPLE, 3 STUCK, 4 REVERT_ALL *)
Definition countZ (x : Z) (l : list Z) : Z := Z.of_nat (length (filter (Z.eqb x) l)).

Definition verdict_of (paths : list Z) : Z :=
  if memZ 1 paths then 1
  else if memZ 3 paths then 3
  else if countZ 0 paths =? 0 then 4
  else 0.

(* ---------------------------------------------------------------- 2. what must be private *)

(* nesting depth of in-place mutation below each Exec field (0 = the field is only ever
   rebound or is immutable, so it may be shared):
     code      dict addr -> Contract; entries are added (CREATE), Contract objects are not mutated   1
     storage   dict addr -> StorageData -> _mapping dict (sstore mutates the inner dict)            3
     transient_storage  likewise                                                                      3
     balance   z3 array term, rebound by balance_update                                               0
     block     Block object whose attributes are assigned by cheatcodes                               1
     context   CallContext: output, trace list, nested CallContexts with their own lists              4
     st        State -> stack list (words are immutable) / memory ByteVec; the independence of
               ByteVec.copy() below the ByteVec object itself is property C07                           2
     jumpis    dict jumpid -> dict bool -> int                                                        2
     alias, storages, balances   flat dicts of immutable terms                                        1
     cnts      defaultdict str -> int (the `fresh` counters)                                          1
     sha3s     KeccakRegistry -> (_hash_ids dict, _hash_values map)                                   2
     call_sequence   list, never mutated in place (`pre.call_sequence + [call]` rebinds)              0
     known_keys / known_sigs   registries of vm.addr / vm.sign results, deliberately path-global      0
     callback, pgm   closure / Contract, never mutated                                                0 *)
Definition exec_need : list (string * nat) :=
  [ ("code", 1); ("storage", 3); ("transient_storage", 3); ("balance", 0); ("block", 1);
    ("context", 4); ("call_sequence", 0); ("callback", 0); ("pgm", 0); ("pc", 0); ("st", 2);
    ("jumpis", 2); ("addresses_to_delete", 1); ("alias", 1); ("cnts", 1); ("sha3s", 2);
    ("storages", 1); ("balances", 1); ("known_keys", 0); ("known_sigs", 0) ]%string%nat.

(* Path attributes: conditions dict (append adds entries) 1; concretization -> two dicts 2;
   pending list 1; related dict idx -> set, the sets are never mutated after creation 1;
   var_to_conds dict var -> set mutated by .add 2; term_to_vars a pure memo table
   (term -> variables of the term: a function of the key alone) 0; the solver is an
   external object shared on purpose and protected by push/pop scopes 0. *)
Definition path_need : list (string * nat) :=
  [ ("solver", 0); ("num_scopes", 0); ("conditions", 1); ("concretization", 2); ("pending", 1);
    ("related", 1); ("var_to_conds", 2); ("term_to_vars", 0); ("sliced", 0) ]%string%nat.

(* ---------------------------------------------------------------- 3. formulas and satisfiability *)

Inductive term :=
| TVar (n : Z) | TConst (z : Z) | TAdd (a b : term) | TMul (a b : term)
| TEq (a b : term) | TLt (a b : term) | TNot (a : term) | TAnd (a b : term).

Fixpoint eval (s : Z -> Z) (t : term) : Z :=
  match t with
  | TVar n => s n
  | TConst z => z
  | TAdd a b => eval s a + eval s b
  | TMul a b => eval s a * eval s b
  | TEq a b => if eval s a =? eval s b then 1 else 0
  | TLt a b => if eval s a <? eval s b then 1 else 0
  | TNot a => if eval s a =? 0 then 1 else 0
  | TAnd a b => if (eval s a =? 0) || (eval s b =? 0) then 0 else 1
  end.

Definition holds (s : Z -> Z) (t : term) : Prop := eval s t <> 0.
Definition sat (t : term) : Prop := exists s, holds s t.

Fixpoint rename (r : Z -> Z) (t : term) : term :=
  match t with
  | TVar n => TVar (r n)
  | TConst z => TConst z
  | TAdd a b => TAdd (rename r a) (rename r b)
  | TMul a b => TMul (rename r a) (rename r b)
  | TEq a b => TEq (rename r a) (rename r b)
  | TLt a b => TLt (rename r a) (rename r b)
  | TNot a => TNot (rename r a)
  | TAnd a b => TAnd (rename r a) (rename r b)
  end.

Fixpoint vars (t : term) : list Z :=
  match t with
  | TVar n => [n]
  | TConst _ => []
  | TAdd a b | TMul a b | TEq a b | TLt a b | TAnd a b => vars a ++ vars b
  | TNot a => vars a
  end.

Definition inj_on (r : Z -> Z) (l : list Z) : Prop :=
  forall x y, In x l -> In y l -> r x = r y -> x = y.
