(* C15 specification side for "any assertion inside a target is checked after each call".

   While the frontier is computed, target transactions that end in an assertion failure are
   handed to the solver; the answer arrives later.  The vocabulary of that protocol, independent
   of halmos' bookkeeping: *)
From Coq Require Import ZArith List Bool.
Import ListNotations.
Open Scope Z_scope.

(* what the solver says about a candidate *)
Inductive sresult := RSat | RUnsat | RUnknown | RErr.
Definition sres_eqb (a b : sresult) : bool :=
  match a, b with
  | RSat, RSat | RUnsat, RUnsat | RUnknown, RUnknown | RErr, RErr => true
  | _, _ => false
  end.

(* what happens, in order, while the frontier is explored *)
Inductive pevent :=
| EPath (p : Z) (r : sresult) (has_model : bool)   (* a target transaction ends in an assertion failure inside function p;
                                                      r / has_model: what the solver will answer for this path *)
| EDone (k : nat).                                 (* the answer to the k-th submitted query arrives *)

(* the failure is genuine: the solver finds a model of the path *)
Definition genuine (e : pevent) (p : Z) : Prop := e = EPath p RSat true.
