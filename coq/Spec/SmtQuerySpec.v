(* C11 / C04 specification side, written from the EVM definition (Yellow Paper: DIV, MOD,
   SDIV, SMOD give 0 for a zero divisor; MUL wraps) and from the meaning of an SMT-LIB
   script (a query is satisfied by an assignment that makes every asserted formula true).
   Independent of halmos' code.  No proofs. *)
From Coq Require Import ZArith List String Bool.
From HV Require Import Base.Word.
Import ListNotations.
Open Scope Z_scope.

(* two's complement reading of an N-bit value *)
Definition signedN (N x : Z) : Z := if x <? 2 ^ (N - 1) then x else x - 2 ^ N.

(* the exact EVM instruction on N-bit operands (N = 256 for the instructions themselves,
   264 / 512 for the widened intermediate results of ADDMOD / MULMOD) *)
Definition exact_mul (N x y : Z) : Z := (x * y) mod 2 ^ N.
Definition exact_div (N x y : Z) : Z := if y =? 0 then 0 else x / y.
Definition exact_mod (N x y : Z) : Z := if y =? 0 then 0 else x mod y.
Definition exact_sdiv (N x y : Z) : Z :=
  if y =? 0 then 0 else (Z.quot (signedN N x) (signedN N y)) mod 2 ^ N.
Definition exact_smod (N x y : Z) : Z :=
  if y =? 0 then 0 else (Z.rem (signedN N x) (signedN N y)) mod 2 ^ N.

(* the abstraction symbol f_evm_<op>_<N> stands for the EVM instruction whose SMT
   encoding is <op> guarded against a zero divisor *)
Definition exact_op (op : string) : option (Z -> Z -> Z -> Z) :=
  if String.eqb op "bvmul" then Some exact_mul
  else if String.eqb op "bvudiv" then Some exact_div
  else if String.eqb op "bvurem" then Some exact_mod
  else if String.eqb op "bvsdiv" then Some exact_sdiv
  else if String.eqb op "bvsrem" then Some exact_smod
  else None.

(* the arithmetic abstractions halmos introduces that have an exact bit-vector meaning;
   f_evm_exp has none in QF_BV and must stay uninterpreted *)
Definition refinable_ops : list string :=
  ["bvmul"; "bvudiv"; "bvurem"; "bvsdiv"; "bvsrem"]%string.

(* ---- what a query means -------------------------------------------------------- *)
Section QueryMeaning.
  Variable env : Type.                 (* assignment to the declared symbols *)
  Variable form : Type.                (* a path condition *)
  Variable sem : env -> form -> Prop.  (* its truth under an assignment *)

  (* the three assertion shapes of a dumped query; tracking literals live in their own
     name space (they are the decimal ids |123|, never names of program symbols) *)
  Inductive assertion : Type :=
  | APlain (c : form)                      (* (assert c) *)
  | ATracked (id : Z) (c : form)           (* (assert (=> |id| c)) *)
  | ANamed (id : Z).                       (* (assert (! |id| :named <id>)) *)

  Definition holds (e : env) (b : Z -> bool) (a : assertion) : Prop :=
    match a with
    | APlain c => sem e c
    | ATracked id c => b id = true -> sem e c
    | ANamed id => b id = true
    end.

  (* the specification of a path's query: exactly the path's constraints *)
  Definition path_constraints_hold (e : env) (cs : list form) : Prop := Forall (sem e) cs.
End QueryMeaning.

Arguments APlain {form} c.
Arguments ATracked {form} id c.
Arguments ANamed {form} id.
Arguments holds {env form} sem e b a.
Arguments path_constraints_hold {env form} sem e cs.

(* the constraint set of a path, as a list without repetition: the first occurrences of the
   simplified constraints that are not literally `true` (acc = what is already there) *)
Section ConstraintSet.
  Variable cond : Type.
  Variable cond_eqb : cond -> cond -> bool.
  Variable simp : cond -> cond.
  Variable is_true : cond -> bool.
  Fixpoint add_all (acc cs : list cond) : list cond :=
    match cs with
    | [] => acc
    | c :: r =>
        let c' := simp c in
        if is_true c' || existsb (cond_eqb c') acc then add_all acc r
        else add_all (acc ++ [c']) r
    end.
End ConstraintSet.

(* ---- C04: solver value syntaxes (SMT-LIB 2.6 section 3.1: <binary> #b[01]+,
   <hexadecimal> #x[0-9a-fA-F]+, and the bit-vector literal (_ bvK W) with K decimal) --- *)
Definition digit_char (d : Z) : Ascii.ascii :=
  Ascii.ascii_of_N (Z.to_N (if d <? 10 then 48 + d else 87 + d)).   (* 0-9 a-f *)
Definition digit_char_upper (d : Z) : Ascii.ascii :=
  Ascii.ascii_of_N (Z.to_N (if d <? 10 then 48 + d else 55 + d)).   (* 0-9 A-F *)

(* n printed with exactly k digits in radix r (most significant first) *)
Fixpoint print_fixed (upper : bool) (r : Z) (k : nat) (n : Z) : string :=
  match k with
  | O => EmptyString
  | S k' => (print_fixed upper r k' (n / r) ++
             String ((if upper then digit_char_upper else digit_char) (n mod r)) EmptyString)%string
  end.

(* n printed in decimal without leading zeros ("0" for zero); fuel = number of digits *)
Fixpoint print_dec_go (fuel : nat) (n : Z) : string :=
  match fuel with
  | O => EmptyString
  | S f => if n =? 0 then EmptyString
           else (print_dec_go f (n / 10) ++ String (digit_char (n mod 10)) EmptyString)%string
  end.
Definition print_dec (n : Z) : string :=
  if n =? 0 then "0"%string else print_dec_go (S (Z.to_nat (Z.log2 n))) n.

(* the three ways solvers print the value n of a w-bit variable *)
Definition print_b (w : nat) (n : Z) : string := ("#b" ++ print_fixed false 2 w n)%string.
Definition print_x (upper : bool) (w4 : nat) (n : Z) : string := ("#x" ++ print_fixed upper 16 w4 n)%string.
Definition print_d (n : Z) (w : Z) : string := ("(_ bv" ++ print_dec n ++ " " ++ print_dec w ++ ")")%string.
