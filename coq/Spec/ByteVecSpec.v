(* C07 specification side: a flat byte array that reads as zero beyond its end and
   whose length is the highest offset written.  Written from the property statement
   (EVM memory / calldata / returndata / code semantics), independent of halmos' ByteVec.
   Parametric in the byte type B (a concrete byte, a symbolic byte, or its value under
   any valuation) with a distinguished [zero]. *)
From Coq Require Import List Arith Bool.
Import ListNotations.

Section FlatArray.
Variable B : Type.
Variable zero : B.

Definition zeros (n : nat) : list B := repeat zero n.

(* the array extended with zeros so that it has at least n bytes *)
Definition zext (l : list B) (n : nat) : list B := l ++ zeros (n - length l).

(* read one byte: zero beyond the end *)
Definition fa_get (l : list B) (off : nat) : B := nth off l zero.

(* read [a, b): always b - a bytes, zero beyond the end, empty when b <= a *)
Definition fa_slice (l : list B) (a b : nat) : list B :=
  firstn (b - a) (skipn a l ++ zeros (b - a)).

(* read a 32-byte word *)
Definition fa_word (l : list B) (off : nat) : list B := fa_slice l off (off + 32).

Definition fa_append (l data : list B) : list B := l ++ data.

(* write one byte (the array grows, zero filled, when off is beyond the end) *)
Definition fa_set_byte (l : list B) (off : nat) (x : B) : list B :=
  firstn off (zext l off) ++ x :: skipn (off + 1) l.

(* write data over [a, b): rejected (None) when b < a or the data does not have b - a
   bytes; a = b is a no-op whatever the data *)
Definition fa_set_slice (l : list B) (a b : nat) (data : list B) : option (list B) :=
  if a =? b then Some l
  else if (b <? a) || negb (length data =? b - a) then None
  else Some (firstn a (zext l a) ++ data ++ skipn b l).

(* slice assignment a[start:stop] = data with optional bounds: an omitted start is 0, an
   omitted stop is the current length *)
Definition bound (x : option nat) (d : nat) : nat := match x with Some n => n | None => d end.

Definition fa_setitem (l : list B) (start stop : option nat) (data : list B) : option (list B) :=
  fa_set_slice l (bound start 0) (bound stop (length l)) data.

(* slice read a[start:stop] with optional bounds *)
Definition fa_getitem (l : list B) (start stop : option nat) : list B :=
  fa_slice l (bound start 0) (bound stop (length l)).

(* ---- operation sequences on the flat array ---- *)

Inductive fop : Type :=
| FAppend (data : list B)
| FSetByte (off : nat) (x : B)
| FSetSlice (a b : nat) (data : list B)
| FCopyWithin (dst a b : nat)          (* write a[a:b] (read first) at dst *)
| FAppendSelf (a b : nat).             (* append a[a:b] *)

Definition or_same (l : list B) (r : option (list B)) : list B :=
  match r with Some l' => l' | None => l end.

(* a rejected write leaves the array as it was *)
Definition fa_apply (l : list B) (o : fop) : list B :=
  match o with
  | FAppend d => fa_append l d
  | FSetByte off x => fa_set_byte l off x
  | FSetSlice a b d => or_same l (fa_set_slice l a b d)
  | FCopyWithin dst a b => or_same l (fa_set_slice l dst (dst + (b - a)) (fa_slice l a b))
  | FAppendSelf a b => fa_append l (fa_slice l a b)
  end.

Definition fa_run (ops : list fop) : list B := fold_left fa_apply ops [].

(* ---- observations: everything that can be read off the array.  They are functions of the
   array alone: reading does not change it, and reading twice gives the same ---- *)

Inductive fobs : Type :=
| FOLen
| FOGet (off : nat)
| FOSlice (a b : nat)
| FOWord (off : nat)
| FOAll                                   (* the whole content *)
| FOItem (start stop : option nat).       (* a[start:stop] with optional bounds *)

Inductive fres : Type := FRLen (n : nat) | FRBytes (l : list B).

Definition fa_observe (l : list B) (q : fobs) : fres :=
  match q with
  | FOLen => FRLen (length l)
  | FOGet off => FRBytes [fa_get l off]
  | FOSlice a b => FRBytes (fa_slice l a b)
  | FOWord off => FRBytes (fa_word l off)
  | FOAll => FRBytes l
  | FOItem start stop => FRBytes (fa_getitem l start stop)
  end.

(* a history in which writes and observations are interleaved in any way: the list of what
   the observations return *)
Inductive fev : Type := FEOp (o : fop) | FEObs (q : fobs).

Fixpoint fa_trace (l : list B) (es : list fev) : list fres :=
  match es with
  | [] => []
  | FEOp o :: r => fa_trace (fa_apply l o) r
  | FEObs q :: r => fa_observe l q :: fa_trace l r
  end.

End FlatArray.

Arguments FRLen {B}.
Arguments FRBytes {B}.
Arguments FEOp {B}.
Arguments FEObs {B}.

Arguments FAppend {B}.
Arguments FSetByte {B}.
Arguments FSetSlice {B}.
Arguments FCopyWithin {B}.
Arguments FAppendSelf {B}.
