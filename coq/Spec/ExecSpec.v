(* C17 -- what the property demands of a solver-job executor, written over the
   *observable events* of a run (a schedule = list of events), independently of how
   halmos' PopenExecutor / PopenFuture are coded.

   Threads: one submitter per job j (submit the job, then wait for its result), one
   worker per accepted job (spawn the solver process, collect its output, clean up,
   deliver), any number of shutdown callers k, and the operating system. *)
From Coq Require Import List Arith Bool.
Import ListNotations.

(* first line of a solver's stdout *)
Inductive answer := AUnsat | ASat | AUnknown | AGarbage.

(* what the caller of solve_low_level gets for one job *)
Inductive verdict := VUnsat | VSat | VUnknown | VErr | VRaise.

Inductive label :=
(* submitter j: executor.submit(future); future.result() *)
| LSubCheck (j : nat)          (* reads the shutdown flag (rejected if set) *)
| LSubAcquire (j : nat)        (* takes the executor lock *)
| LSubRecheck (j : nat)        (* reads the shutdown flag again, now holding the lock *)
| LSubUnlock (j : nat)         (* flag found set under the lock: releases the lock; submit() raises (REJECTED) *)
| LSubAppend (j : nat)         (* registers the job *)
| LSubStart (j : nat)          (* starts the job's worker thread: the job is ACCEPTED *)
| LSubRelease (j : nat)        (* releases the lock; submit() returns *)
| LSubWait (j : nat)           (* future.result() returns / raises *)
(* worker j *)
| LSpawnEnter (j : nat)        (* takes the job's spawn lock and tests whether a cancel was requested *)
| LPopen (j : nat) (ok : bool) (* spawns the solver process (ok) or fails to; releases the spawn lock *)
| LExit (j : nat)              (* OS: the process of job j terminates by itself *)
| LCommRet (j : nat) (a : answer) (* communicate() returns the output *)
| LCommTimeout (j : nat)       (* communicate() raises TimeoutExpired: time limit exceeded *)
| LCommExc (j : nat)           (* communicate() raises something else *)
| LFinally (j : nat)           (* cleanup: kill the process if it still runs *)
| LSetResult (j : nat)         (* the result / exception is DELIVERED *)
(* shutdown caller k *)
| LSdSet (k : nat)             (* the shutdown REQUEST: sets the flag *)
| LSdAcquire (k : nat)         (* takes the lock (wait=False: and snapshots the registry for its cancel tasks) *)
| LSdCancel (k j : nat)        (* wait=False: cancel task for job j *)
| LSdSnap (k : nat)            (* wait=True: snapshots the registry (holding the lock) *)
| LSdRelease (k : nat)         (* wait=True: releases the lock after the snapshot *)
| LSdJoin (k : nat)            (* wait=True: result() of the next job of the snapshot returns *)
| LSdRaise (k : nat)           (* shutdown() terminates with an exception (e.g. of a job): must never happen *)
| LSdReturn (k : nat).         (* shutdown() RETURNS *)

(* ---- exceptions of the process libraries (facts about subprocess / psutil, not about halmos;
   cross-checked against the installed libraries on every run by translate/t_cancel.py) ----- *)
Inductive exn_class := EcSubTimeout   (* subprocess.TimeoutExpired *)
                     | EcPsTimeout    (* psutil.TimeoutExpired *)
                     | EcNoProc       (* psutil.NoSuchProcess *)
                     | EcShutdown     (* halmos.processes.ShutdownError (a RuntimeError) *)
                     | EcAny.         (* Exception: catches each of the above *)
Inductive receiver := RcPsutil (* psutil.Process *) | RcPopen (* subprocess.Popen *).

(* does an except / suppress list catch an exception of class c?  (the three concrete classes
   are unrelated by inheritance) *)
Definition catches1 (h c : exn_class) : bool :=
  match h, c with
  | EcAny, _ => true
  | EcSubTimeout, EcSubTimeout | EcPsTimeout, EcPsTimeout | EcNoProc, EcNoProc
  | EcShutdown, EcShutdown => true
  | _, _ => false
  end.
Definition catches (hs : list exn_class) (c : exn_class) : bool := existsb (fun h => catches1 h c) hs.

(* <obj>.wait(timeout=t) on a process that is still alive after t raises the TimeoutExpired of
   the library <obj> belongs to; Popen.communicate(timeout=t) raises subprocess.TimeoutExpired *)
Definition wait_timeout_exn (r : receiver) : exn_class :=
  match r with RcPsutil => EcPsTimeout | RcPopen => EcSubTimeout end.
Definition communicate_timeout_exn : exn_class := EcSubTimeout.

Definition label_eq_dec : forall a b : label, {a = b} + {a <> b}.
Proof. repeat decide equality. Defined.

(* ---- delivered exactly once ------------------------------------------------ *)

Fixpoint deliveries (j : nat) (tr : list label) : nat :=
  match tr with
  | [] => 0
  | LSetResult i :: r => (if Nat.eqb i j then 1 else 0) + deliveries j r
  | _ :: r => deliveries j r
  end.

Definition accepted (j : nat) (tr : list label) : Prop := In (LSubStart j) tr.
Definition wait_returned (j : nat) (tr : list label) : Prop := In (LSubWait j) tr.
Definition timed_out (j : nat) (tr : list label) : Prop := In (LCommTimeout j) tr.
Definition shutdown_raised (k : nat) (tr : list label) : Prop := In (LSdRaise k) tr.

(* ---- after shutdown() has returned (the weakest reading of "after a shutdown
   request"): no job is accepted any more, no solver process is spawned any more --- *)

Definition accepted_after_return (tr : list label) : Prop :=
  exists pre post j k, tr = pre ++ LSubStart j :: post /\ In (LSdReturn k) pre.

Definition spawned_after_return (tr : list label) : Prop :=
  exists pre post j k, tr = pre ++ LPopen j true :: post /\ In (LSdReturn k) pre.

(* the same for one particular shutdown() call k *)
Definition accepted_after_return_of (k : nat) (tr : list label) : Prop :=
  exists pre post j, tr = pre ++ LSubStart j :: post /\ In (LSdReturn k) pre.

(* job j was registered before the shutdown(wait=True) call k looked at the registry *)
Definition registered_before_snapshot (k j : nat) (tr : list label) : Prop :=
  exists pre post, tr = pre ++ LSdSnap k :: post /\ In (LSubAppend j) pre.

(* the solver process of job j existed when a cancel task for it ran (of any caller) *)
Definition cancelled_while_spawned (j : nat) (tr : list label) : Prop :=
  exists pre post k, tr = pre ++ LSdCancel k j :: post /\ In (LPopen j true) pre.

(* the solver process of job j existed when the shutdown(wait=False) call k took the
   lock (all its cancel tasks come later) *)
Definition spawned_before_acquire (k j : nat) (tr : list label) : Prop :=
  exists pre post, tr = pre ++ LSdAcquire k :: post /\ In (LPopen j true) pre.

(* a solver process is spawned for job j after a cancel task for j has run *)
Definition spawned_after_cancel (j : nat) (tr : list label) : Prop :=
  exists pre post k, tr = pre ++ LSdCancel k j :: post /\ In (LPopen j true) post.

(* ---- a job that exceeded its time limit is reported as unknown ------------- *)
Definition spec_timeout_verdict : verdict := VUnknown.
