(* C17 -- what the property demands of a solver-job executor, written over the
   *observable events* of a run (a schedule = list of events), independently of how
   halmos' PopenExecutor / PopenFuture are coded.

   Threads: one submitter per job j (submit the job, then wait for its result), one
   worker per accepted job (spawn the solver process, collect its output, clean up,
   deliver), any number of shutdown callers k, and the operating system. *)
From Coq Require Import List Arith Bool.
Import ListNotations.

(* first line of a solver's stdout *)
Inductive answer := AUnsat | ASat | AUnknown | AGarbage.

(* what the caller of solve_low_level gets for one job *)
Inductive verdict := VUnsat | VSat | VUnknown | VErr | VRaise.

Inductive label :=
(* submitter j: executor.submit(future); future.result() *)
| LSubCheck (j : nat)          (* reads the shutdown flag (rejected if set) *)
| LSubAcquire (j : nat)        (* takes the executor lock *)
| LSubAppend (j : nat)         (* registers the job *)
| LSubStart (j : nat)          (* starts the job's worker thread: the job is ACCEPTED *)
| LSubRelease (j : nat)        (* releases the lock; submit() returns *)
| LSubWait (j : nat)           (* future.result() returns / raises *)
(* worker j *)
| LPopen (j : nat) (ok : bool) (* spawns the solver process (ok) or fails to *)
| LExit (j : nat)              (* OS: the process of job j terminates by itself *)
| LCommRet (j : nat) (a : answer) (* communicate() returns the output *)
| LCommTimeout (j : nat)       (* communicate() raises TimeoutExpired: time limit exceeded *)
| LCommExc (j : nat)           (* communicate() raises something else *)
| LFinally (j : nat)           (* cleanup: kill the process if it still runs *)
| LSetResult (j : nat)         (* the result / exception is DELIVERED *)
(* shutdown caller k *)
| LSdSet (k : nat)             (* the shutdown REQUEST: sets the flag *)
| LSdAcquire (k : nat)         (* wait=False: takes the lock, snapshots the registry *)
| LSdCancel (k j : nat)        (* wait=False: cancel task for job j *)
| LSdSnap (k : nat)            (* wait=True: snapshots the registry *)
| LSdJoin (k : nat)            (* wait=True: result() of the next job of the snapshot returns *)
| LSdRaise (k : nat)           (* wait=True: result() of the next job raises; shutdown() terminates with that exception *)
| LSdReturn (k : nat).         (* shutdown() RETURNS *)

Definition label_eq_dec : forall a b : label, {a = b} + {a <> b}.
Proof. repeat decide equality. Defined.

(* ---- delivered exactly once ------------------------------------------------ *)

Fixpoint deliveries (j : nat) (tr : list label) : nat :=
  match tr with
  | [] => 0
  | LSetResult i :: r => (if Nat.eqb i j then 1 else 0) + deliveries j r
  | _ :: r => deliveries j r
  end.

Definition accepted (j : nat) (tr : list label) : Prop := In (LSubStart j) tr.
Definition wait_returned (j : nat) (tr : list label) : Prop := In (LSubWait j) tr.
Definition timed_out (j : nat) (tr : list label) : Prop := In (LCommTimeout j) tr.
Definition shutdown_raised (k : nat) (tr : list label) : Prop := In (LSdRaise k) tr.

(* ---- after shutdown() has returned (the weakest reading of "after a shutdown
   request"): no job is accepted any more, no solver process is spawned any more --- *)

Definition accepted_after_return (tr : list label) : Prop :=
  exists pre post j k, tr = pre ++ LSubStart j :: post /\ In (LSdReturn k) pre.

Definition spawned_after_return (tr : list label) : Prop :=
  exists pre post j k, tr = pre ++ LPopen j true :: post /\ In (LSdReturn k) pre.

(* ---- a job that exceeded its time limit is reported as unknown ------------- *)
Definition spec_timeout_verdict : verdict := VUnknown.
