(* C04, the reader's side of a printed counterexample.  halmos prints

     Counterexample:
         p_x_uint256_00 = 0x2a
         p_y_address_01 = 0x00

   and the user replays the test with the values read off this text.  This file says what
   the text DENOTES (an assignment name -> natural number), written from the output format
   alone; it does not mention halmos' rendering code.  No proofs. *)
From Coq Require Import ZArith List String Ascii Bool.
Import ListNotations.
Open Scope Z_scope.

Definition nl : ascii := "010"%char.
Definition sp : ascii := " "%char.

(* a variable name as it stands on a printed line: no space (halmos_var_pattern admits none)
   and no newline (a solver prints a name on one line) *)
Definition plain (c : ascii) : bool := negb (Ascii.eqb c nl) && negb (Ascii.eqb c sp).
Fixpoint all_plain (s : string) : bool :=
  match s with EmptyString => true | String c r => plain c && all_plain r end.

(* a lower-case hexadecimal digit (what follows 0x) *)
Definition hexval (c : ascii) : option Z :=
  let n := Z.of_N (N_of_ascii c) in
  if (48 <=? n) && (n <=? 57) then Some (n - 48)
  else if (97 <=? n) && (n <=? 102) then Some (n - 87)
  else None.

Fixpoint read_hex (s : string) (acc : Z) : option Z :=
  match s with
  | EmptyString => Some acc
  | String c r => match hexval c with Some d => read_hex r (acc * 16 + d) | None => None end
  end.

(* the lines of a text *)
Fixpoint split_nl (s : string) : list string :=
  match s with
  | EmptyString => [EmptyString]
  | String c r =>
      if Ascii.eqb c nl then EmptyString :: split_nl r
      else match split_nl r with
           | h :: t => String c h :: t
           | [] => [String c EmptyString]
           end
  end.

Fixpoint drop_prefix (p s : string) : option string :=
  match p with
  | EmptyString => Some s
  | String a p' =>
      match s with
      | String b s' => if Ascii.eqb a b then drop_prefix p' s' else None
      | EmptyString => None
      end
  end.

(* the name: everything up to the first space *)
Fixpoint span_name (s : string) : string * string :=
  match s with
  | EmptyString => (EmptyString, EmptyString)
  | String c r =>
      if Ascii.eqb c sp then (EmptyString, s)
      else let (a, b) := span_name r in (String c a, b)
  end.

(* one line: four spaces, a name, " = 0x", at least one hex digit, nothing else *)
Definition read_line (l : string) : option (string * Z) :=
  match drop_prefix "    " l with
  | Some r =>
      let (name, rest) := span_name r in
      match name with
      | EmptyString => None
      | _ =>
          match drop_prefix " = 0x" rest with
          | Some EmptyString => None
          | Some h => match read_hex h 0 with Some n => Some (name, n) | None => None end
          | None => None
          end
      end
  | None => None
  end.

Fixpoint read_lines (ls : list string) : option (list (string * Z)) :=
  match ls with
  | [] => Some []
  | l :: r =>
      match read_line l, read_lines r with
      | Some a, Some t => Some (a :: t)
      | _, _ => None
      end
  end.

(* the empty assignment is printed as the empty-set sign (UTF-8: e2 88 85) *)
Definition empty_sign : string :=
  String (ascii_of_N 226) (String (ascii_of_N 136) (String (ascii_of_N 133) EmptyString)).

(* the assignment a printed counterexample denotes (None: not a well-formed counterexample) *)
Definition read_cex (t : string) : option (list (string * Z)) :=
  if String.eqb t empty_sign then Some []
  else match t with
       | String c r => if Ascii.eqb c nl then read_lines (split_nl r) else None
       | EmptyString => None
       end.
