(* C05 -- specification side: what the verdict of a test and the process exit status must
   be, written from the wording of the property (not from halmos' code).

   A test run yields a collection of finished paths.  Each path ended in one of five ways;
   for a path that is a potential violation (panic / fail flag) or that got stuck, an external
   solver was asked one question, and `ans` is the solver's final truthful answer to it. *)
From Coq Require Import List Bool ZArith.
Import ListNotations.

Inductive label := LPass | LFail | LError | LTimeout.

Inductive outcome := Success | Revert | Panic | FailFlag | Stuck.

(* final answer of the solver for a query: sat with a model (valid, or still mentioning an
   abstraction: "abstract model"), unsat, unknown (incl. timed out), or a failure (crashed,
   non-zero exit without an answer, garbage / empty output, could not be started) *)
Inductive answer := Sat (valid : bool) | Unsat | Unknown | Err.

(* the four result classes a single solver output is sorted into *)
Inductive rclass := CSat | CUnsat | CUnknown | CErr.

Record path := mkpath { kind : outcome; ans : answer }.

Definition label_eqb (a b : label) : bool :=
  match a, b with
  | LPass, LPass | LFail, LFail | LError, LError | LTimeout, LTimeout => true
  | _, _ => false
  end.

Definition is_sat (a : answer) := match a with Sat _ => true | _ => false end.
Definition is_unsat (a : answer) := match a with Unsat => true | _ => false end.
Definition is_unknown (a : answer) := match a with Unknown => true | _ => false end.
Definition is_err (a : answer) := match a with Err => true | _ => false end.

Definition potential (p : path) : bool :=
  match kind p with Panic | FailFlag => true | _ => false end.
Definition succeeded (p : path) : bool :=
  match kind p with Success => true | _ => false end.
(* a path that got stuck and was not shown infeasible by the solver *)
Definition confirmed_stuck (p : path) : bool :=
  match kind p with Stuck => negb (is_unsat (ans p)) | _ => false end.

(* The verdict as the property words it: FAIL if some potential violation is satisfiable;
   otherwise ERROR if a solver call for a potential violation failed; otherwise TIMEOUT if one
   was unknown / timed out; otherwise ERROR when a path is stuck or no path succeeded;
   PASS only in the remaining case.  (Reading of "FAIL, ERROR or TIMEOUT in that precedence"
   for the solver-reply classes; stuck / nothing-succeeded are errors of the run itself.) *)
Definition spec_verdict (ps : list path) : label :=
  if existsb (fun p => potential p && is_sat (ans p)) ps then LFail
  else if existsb (fun p => potential p && is_err (ans p)) ps then LError
  else if existsb (fun p => potential p && is_unknown (ans p)) ps then LTimeout
  else if existsb confirmed_stuck ps then LError
  else if negb (existsb succeeded ps) then LError
  else LPass.

(* the stricter reading: every ERROR cause (including stuck / nothing succeeded) outranks TIMEOUT *)
Definition spec_verdict_strict (ps : list path) : label :=
  if existsb (fun p => potential p && is_sat (ans p)) ps then LFail
  else if existsb (fun p => potential p && is_err (ans p)) ps
          || existsb confirmed_stuck ps || negb (existsb succeeded ps) then LError
  else if existsb (fun p => potential p && is_unknown (ans p)) ps then LTimeout
  else LPass.
