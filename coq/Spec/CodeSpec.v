(* EVM specification of instruction boundaries and valid jump destinations
   (Yellow Paper 9.4.3, D_J).  Written by hand from the specification, independent
   of halmos' source. *)
From Coq Require Import ZArith List Bool.
Import ListNotations.
Open Scope Z_scope.

(* length of the instruction whose opcode is [op]: PUSH1..PUSH32 (0x60..0x7f) carry
   1..32 immediate bytes; every other opcode (PUSH0 = 0x5f included) is one byte. *)
Definition spec_insn_len (op : Z) : Z :=
  if (96 <=? op) && (op <=? 127) then op - 95 + 1 else 1.

Definition spec_len (op : Z) : nat := Z.to_nat (spec_insn_len op).

(* instruction boundaries of code [c] (None = byte whose value is unknown: the
   chain of boundaries cannot be continued through it). *)
Inductive boundary (c : list (option Z)) : nat -> Prop :=
| boundary_0 : boundary c O
| boundary_S pc op :
    boundary c pc -> nth_error c pc = Some (Some op) ->
    boundary c (pc + spec_len op)%nat.

Definition valid_jd (c : list (option Z)) (pc : nat) : Prop :=
  boundary c pc /\ nth_error c pc = Some (Some 91).   (* 0x5b JUMPDEST *)

(* flat zero-extended view of code *)
Definition zext_bytes (c : list (option Z)) (start size : nat) : list (option Z) :=
  firstn size (skipn start c ++ repeat (Some 0) size).
