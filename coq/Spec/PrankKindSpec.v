(* What a prank means for a message call or contract creation of EVERY kind, values included.
   Written from the EVM's definition of the call family and from Foundry's description of
   prank/startPrank (Spec/FoundrySpec.v: which prank is in force for the next call of a frame),
   independent of halmos' source.

   EVM (yellow paper 9.4.x / execution-specs, call family), for a call made by a frame running as
   account I_a, entered with sender I_s and value I_v:
     CALL          callee runs as the target;  msg.sender = I_a;  msg.value = v;  v moves I_a -> target
     CALLCODE      callee code runs as I_a;    msg.sender = I_a;  msg.value = v;  v "moves" I_a -> I_a
     DELEGATECALL  callee code runs as I_a;    msg.sender = I_s;  msg.value = I_v; nothing moves
     STATICCALL    callee runs as the target;  msg.sender = I_a;  msg.value = 0;  nothing moves
     CREATE/2      initcode runs as the new account; msg.sender = I_a; msg.value = v; v moves I_a -> new
   A call or creation whose payer cannot cover v fails (0 on the stack), no frame is entered.
   Foundry: a prank in force replaces the account the call is made FROM -- msg.sender for every kind
   that takes its sender from the calling account (all but DELEGATECALL, which keeps the frame's own
   sender), the paying account of a value-bearing call or creation, and tx.origin for the
   two-argument forms; a one-shot prank is used up by the next call or creation of the pranking
   frame whatever its kind. *)
From Coq Require Import ZArith List Bool.
From HV Require Import Spec.FoundrySpec.
Import ListNotations.
Open Scope Z_scope.

Inductive ckind := CkCall | CkCallcode | CkDelegate | CkStatic.
Inductive nkind := NkCreate | NkCreate2.

Inductive kop :=
| KPrank (keep : bool) (s : addr) (o : option addr)   (* prank / startPrank, one- and two-argument forms *)
| KStopPrank
| KCheat (c : cheat_target)
| KCallK (k : ckind) (a : addr) (v : Z)   (* v: the value operand (STATICCALL / DELEGATECALL have none: ignored) *)
| KCreate (k : nkind) (a : addr) (v : Z) (* a: address of the new account *)
| KReturn                                (* the current frame finishes successfully *)
| KBalance (a : addr).                   (* the current frame reads BALANCE(a) *)

Inductive kobs :=
| KObs (this sender origin value : Z)    (* ADDRESS / CALLER / ORIGIN / CALLVALUE seen by the frame just entered *)
| KObsBal (b : Z)
| KObsNoFunds                            (* the call / creation fails: the payer cannot cover the value *)
| KObsError                              (* the cheatcode call is rejected *)
| KObsLost                               (* never by the specification: the input is covered by no path *)
| KObsDouble.                            (* never by the specification: the input is covered by a failing AND a succeeding path *)

Definition balances := addr -> Z.
Definition bupd (b : balances) (a : addr) (x : Z) : balances := fun y => if Z.eqb y a then x else b y.
(* v moves from p to r (debit, then credit: a transfer to oneself changes nothing) *)
Definition move (b : balances) (p r : addr) (v : Z) : balances :=
  let b1 := bupd b p (b p - v) in bupd b1 r (b1 r + v).

(* a frame: FoundrySpec's frame (this, sender, origin, prank history) + its msg.value *)
Record ksframe := { ks_f : sframe; ks_value : Z }.
Definition ks_fresh (this sender origin value : addr) : ksframe := {| ks_f := s_fresh this sender origin; ks_value := value |}.
Definition ks_log (e : levent) (f : ksframe) : ksframe := {| ks_f := s_log e (ks_f f); ks_value := ks_value f |}.

Inductive ksres := KSErr | KSOk (frames : list ksframe) (b : balances) (out : list kobs).

(* the frame entered by a call of kind k to a with value v made from f, when the call is made FROM
   account s with origin o; and who pays how much to whom *)
Definition entered (k : ckind) (f : ksframe) (a v s o : Z) : ksframe :=
  match k with
  | CkCall => ks_fresh a s o v
  | CkCallcode => ks_fresh (s_this (ks_f f)) s o v
  | CkDelegate => ks_fresh (s_this (ks_f f)) (s_caller (ks_f f)) o (ks_value f)
  | CkStatic => ks_fresh a s o 0
  end.
Definition moved (k : ckind) (v : Z) : Z := match k with CkCall | CkCallcode => v | _ => 0 end.
Definition receiver (k : ckind) (f : ksframe) (a : Z) : Z := match k with CkCall => a | _ => s_this (ks_f f) end.

(* a value-bearing call / creation whose payer holds less than the value fails *)
Definition short (held v : Z) : bool := negb (v =? 0) && (held <? v).

Definition obs_of (f : ksframe) : kobs :=
  KObs (s_this (ks_f f)) (s_caller (ks_f f)) (s_origin (ks_f f)) (ks_value f).

Definition ks_step (st : list ksframe) (b : balances) (o : kop) : ksres :=
  match o, st with
  | _, [] => KSOk [] b []
  | KPrank keep s og, f :: rest =>
      match in_effect (s_hist (ks_f f)) false with
      | Some _ => KSErr
      | None => KSOk (ks_log (LPrank keep s og) f :: rest) b []
      end
  | KStopPrank, f :: rest => KSOk (ks_log LStop f :: rest) b []
  | KCheat _, f :: rest => KSOk (ks_log LCheat f :: rest) b []
  | KCallK k a v, f :: rest =>
      let '(s, og) := s_next_call (ks_f f) in
      let f' := ks_log LCall f in
      if short (b s) (moved k v) then KSOk (f' :: rest) b [KObsNoFunds]
      else let g := entered k f a v s og in
           KSOk (g :: f' :: rest) (move b s (receiver k f a) (moved k v)) [obs_of g]
  | KCreate _ a v, f :: rest =>
      let '(s, og) := s_next_call (ks_f f) in
      let f' := ks_log LCall f in
      if short (b s) v then KSOk (f' :: rest) b [KObsNoFunds]
      else let g := ks_fresh a s og v in
           KSOk (g :: f' :: rest) (move b s a v) [obs_of g]
  | KReturn, f :: [] => KSOk [f] b []
  | KReturn, _ :: rest => KSOk rest b []
  | KBalance a, _ => KSOk st b [KObsBal (b a)]
  end.

Fixpoint ks_run (st : list ksframe) (b : balances) (ops : list kop) : list kobs :=
  match ops with
  | [] => []
  | o :: r => match ks_step st b o with
              | KSErr => [KObsError]
              | KSOk st' b' out => out ++ ks_run st' b' r
              end
  end.

(* The fragment the theorems are about: a CALLCODE that carries value is made from the executing
   account itself (no prank of another address is in force for it).  [Under such a prank the value
   would have to move from the pranked account to the executing one; halmos moves nothing for
   CALLCODE -- outside the model, see Props/C14.v.] *)
Definition kop_scope (f : ksframe) (o : kop) : bool :=
  match o with
  | KCallK CkCallcode _ v => (v =? 0) || (fst (s_next_call (ks_f f)) =? s_this (ks_f f))
  | _ => true
  end.

Fixpoint ks_scope (st : list ksframe) (b : balances) (ops : list kop) : bool :=
  match ops with
  | [] => true
  | o :: r => match st with [] => true | f :: _ => kop_scope f o end &&
              match ks_step st b o with
              | KSErr => true
              | KSOk st' b' _ => ks_scope st' b' r
              end
  end.
