(* C08 -- specification side: what a storage location expression denotes in the EVM and
   what SLOAD/SSTORE (TLOAD/TSTORE) mean.  Written from the EVM (storage = a flat
   word-indexed word array per account, zero initially; transient storage the same but
   empty at the start of every transaction) and from Solidity's storage layout
   (docs "Layout of State Variables in Storage": value at slot p; mapping element
   keccak256(h(k) . p); dynamic array element keccak256(p) + i; struct member = base +
   offset).  Nothing here mentions halmos. *)
From Coq Require Import ZArith List Bool.
Import ListNotations.
Open Scope Z_scope.

Definition W : Z := 2 ^ 256.

(* keys narrower/wider than one word (string / bytes keys are hashed unpadded) *)
Inductive nkey := NKc (z : Z) | NKv (x : nat).

(* location expressions: the 256-bit words a program computes and passes to SLOAD/SSTORE *)
Inductive loc :=
| K (z : Z)                              (* constant word *)
| V (x : nat)                            (* symbolic word (calldata, caller, ...) *)
| Sha256 (a : loc)                       (* keccak256 of the 32 bytes of a *)
| Sha512 (k a : loc)                     (* keccak256 of the 64 bytes k . a *)
| ShaN (bits : Z) (k : nkey) (a : loc)   (* keccak256 of (bits/8 bytes of k) . a,  bits <> 256 *)
| ShaC (bits : Z) (p : Z)                (* keccak256 of the bits/8-byte constant p *)
| Add (l : list loc).                    (* sum modulo 2^256 *)

Definition env := nat -> Z.

Section Eval.
  (* H bits x : the hash (as a number) of the bits/8-byte string whose big-endian value is x *)
  Variable H : Z -> Z -> Z.
  Variable e : env.

  Definition eval_nkey (bits : Z) (k : nkey) : Z :=
    match k with NKc z => z mod 2 ^ bits | NKv x => e x mod 2 ^ bits end.

  Fixpoint eval (l : loc) : Z :=
    match l with
    | K z => z mod W
    | V x => e x mod W
    | Sha256 a => H 256 (eval a)
    | Sha512 k a => H 512 (eval k * W + eval a)
    | ShaN bits k a => H (bits + 256) (eval_nkey bits k * W + eval a)
    | ShaC bits p => H bits p
    | Add ls => (fold_right (fun x acc => eval x + acc) 0 ls) mod W
    end.
End Eval.

(* the EVM's storage of one account *)
Definition flat := Z -> Z.
Definition fempty : flat := fun _ => 0.
Definition fstore (f : flat) (k v : Z) : flat := fun k' => if k' =? k then v else f k'.

(* a straight-line sequence of storage operations; stored values are opaque words *)
Inductive op (val : Type) :=
| OStore (l : loc) (v : val)
| OLoad (l : loc).
Arguments OStore {val}. Arguments OLoad {val}.

Section Ref.
  Variable H : Z -> Z -> Z.
  Variable e : env.
  Variable val : Type.
  Variable evalv : env -> val -> Z.

  (* values returned by the loads, in order *)
  Fixpoint ref_run (f : flat) (ops : list (op val)) : list Z :=
    match ops with
    | [] => []
    | OStore l v :: r => ref_run (fstore f (eval H e l) (evalv e v)) r
    | OLoad l :: r => f (eval H e l) :: ref_run f r
    end.
End Ref.

(* ---- Solidity's layout, as paths: base slot, then mapping / array steps, each followed by
   a member offset.  The slot of a path is what the compiler computes. *)
Inductive step :=
| SMap (bits : Z) (key : Z) (off : Z)    (* mapping with a bits-wide key, then + off *)
| SArr (off : Z).                        (* dynamic array data area, then + index/offset *)

Section Path.
  Variable H : Z -> Z -> Z.
  Definition step_val (cur : Z) (s : step) : Z :=
    match s with
    | SMap bits key off => (H (bits + 256) (key * W + cur) + off) mod W
    | SArr off => (H 256 cur + off) mod W
    end.
  Definition path_val (slot : Z) (steps : list step) : Z := fold_left step_val steps slot.
End Path.
