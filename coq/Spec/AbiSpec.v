(* Specification side of C12: the Solidity contract ABI (docs.soliditylang.org, "Contract
   ABI Specification", formal specification of the encoding) read as a DECODER:
   a total function  decode : bytes -> ty -> position -> option value.
   Written from the ABI document, independently of halmos' calldata.py.

   - type descriptions are what the ABI JSON gives: a type string for elementary
     types, T[k], T[], and tuples whose components carry a name (names are ignored by
     the decoder; they only matter for *which lengths the user configured*, see [admits]);
   - enc(X) of a tuple = head(X1)..head(Xk) tail(X1)..tail(Xk); the head of a dynamic
     component is the offset of its tail measured from the start of enc(X);
   - T[k] is the tuple of k copies of T;  T[] is  enc(len) enc(T[len]);
     bytes/string is  enc(len) followed by the bytes, padded (padding not inspected);
   - elementary values are validated the way the Solidity decoder validates them
     (high bits clean); no canonicity (minimal offsets) is required -- as in Solidity. *)
From Coq Require Import String Ascii.
From Coq Require Import ZArith List Bool Lia.
Import ListNotations.
Open Scope Z_scope.

Definition str := list Z.     (* a python str as its list of code points *)
Definition bytes := list Z.   (* each 0..255 *)

Definition codes (s : string) : str := map (fun a => Z.of_N (N_of_ascii a)) (list_ascii_of_string s).

Fixpoint str_eqb (a b : str) : bool :=
  match a, b with
  | [], [] => true
  | x :: a', y :: b' => (x =? y) && str_eqb a' b'
  | _, _ => false
  end.

(* ---------------------------------------------------------------- type descriptions *)

Inductive ty :=
| Base (s : str)                       (* elementary type, by its ABI type string *)
| Fixed (t : ty) (n : nat)             (* T[n] *)
| Dyn (t : ty)                         (* T[]  *)
| Tuple (items : list (str * ty)).     (* (name1 : T1, ..., namek : Tk) *)

Inductive bkind :=
| KUint (n : nat) | KInt (n : nat) | KAddress | KBool | KBytesN (n : nat)
| KBytes | KString | KUnknown.

Definition is_digit (c : Z) : bool := (48 <=? c) && (c <=? 57).

(* decimal numeral (non-empty, digits only) -> number *)
Fixpoint dec_acc (acc : Z) (s : str) : option Z :=
  match s with
  | [] => Some acc
  | c :: r => if is_digit c then dec_acc (acc * 10 + (c - 48)) r else None
  end.
Definition parse_dec (s : str) : option Z :=
  match s with [] => None | _ => dec_acc 0 s end.

Fixpoint strip_prefix (p s : str) : option str :=
  match p, s with
  | [], _ => Some s
  | x :: p', y :: s' => if x =? y then strip_prefix p' s' else None
  | _ :: _, [] => None
  end.

Definition s_bytes : str := Eval compute in codes "bytes".
Definition s_string : str := Eval compute in codes "string".
Definition s_address : str := Eval compute in codes "address".
Definition s_bool : str := Eval compute in codes "bool".
Definition s_uint : str := Eval compute in codes "uint".
Definition s_int : str := Eval compute in codes "int".

(* the elementary types of the ABI: uint<M>, int<M> (M in 8..256, M mod 8 = 0),
   address, bool, bytes<M> (M in 1..32), bytes, string *)
Definition classify (s : str) : bkind :=
  if str_eqb s s_bytes then KBytes
  else if str_eqb s s_string then KString
  else if str_eqb s s_address then KAddress
  else if str_eqb s s_bool then KBool
  else
    match strip_prefix s_uint s with
    | Some d =>
        match parse_dec d with
        | Some m => if (8 <=? m) && (m <=? 256) && (m mod 8 =? 0) then KUint (Z.to_nat m) else KUnknown
        | None => KUnknown
        end
    | None =>
        match strip_prefix s_int s with
        | Some d =>
            match parse_dec d with
            | Some m => if (8 <=? m) && (m <=? 256) && (m mod 8 =? 0) then KInt (Z.to_nat m) else KUnknown
            | None => KUnknown
            end
        | None =>
            match strip_prefix s_bytes s with
            | Some d =>
                match parse_dec d with
                | Some m => if (1 <=? m) && (m <=? 32) then KBytesN (Z.to_nat m) else KUnknown
                | None => KUnknown
                end
            | None => KUnknown
            end
        end
    end.

Definition W256 : Z := 2 ^ 256.

(* what the Solidity decoder accepts as a value of an elementary static type *)
Definition valid_word (k : bkind) (w : Z) : bool :=
  (0 <=? w) && (w <? W256) &&
  match k with
  | KUint n => w <? 2 ^ Z.of_nat n
  | KInt n => (w <? 2 ^ (Z.of_nat n - 1)) || (W256 - 2 ^ (Z.of_nat n - 1) <=? w)
  | KAddress => w <? 2 ^ 160
  | KBool => w <? 2
  | KBytesN n => w mod 2 ^ (8 * (32 - Z.of_nat n)) =? 0
  | KBytes | KString | KUnknown => false
  end.

Definition base_dyn (s : str) : bool :=
  match classify s with KBytes | KString => true | _ => false end.

(* dynamic types: bytes, string, T[], T[k] for dynamic T, tuples with a dynamic component *)
Fixpoint is_dyn (t : ty) : bool :=
  match t with
  | Base s => base_dyn s
  | Fixed t' _ => is_dyn t'
  | Dyn _ => true
  | Tuple its => existsb (fun it => is_dyn (snd it)) its
  end.

(* size of the (head-only) encoding of a static type *)
Fixpoint static_size (t : ty) : nat :=
  match t with
  | Base _ => 32
  | Fixed t' n => n * static_size t'
  | Dyn _ => 32
  | Tuple its => list_sum (map (fun it => static_size (snd it)) its)
  end.

(* ---------------------------------------------------------------- values and the decoder *)

Inductive value :=
| VWord (w : Z)               (* elementary static value, as its 256-bit word *)
| VBytes (bs : bytes)         (* bytes / string *)
| VSeq (vs : list value).     (* arrays and tuples *)

Definition be_val (bs : bytes) : Z := fold_left (fun acc b => acc * 256 + b) bs 0.

Definition word (buf : bytes) (p : nat) : option Z :=
  if (p + 32 <=? length buf)%nat then Some (be_val (firstn 32 (skipn p buf))) else None.

(* n bytes at p; the comparison is made in Z so that an absurd length is rejected
   without converting it to a unary number *)
Definition slice (buf : bytes) (p : nat) (n : Z) : option bytes :=
  if (0 <=? n) && (Z.of_nat p + n <=? Z.of_nat (length buf))
  then Some (firstn (Z.to_nat n) (skipn p buf)) else None.

(* components of a tuple: (is dynamic, head size when static, decoder at a position) *)
Definition comp := (bool * nat * (nat -> option value))%type.

Fixpoint dec_seq (buf : bytes) (comps : list comp) (base hp : nat) : option (list value) :=
  match comps with
  | [] => Some []
  | (dyn, hs, d) :: r =>
      let ov := if dyn
                then match word buf hp with
                     | Some o => d (base + Z.to_nat o)%nat
                     | None => None
                     end
                else d hp in
      match ov with
      | None => None
      | Some v =>
          match dec_seq buf r base (hp + (if dyn then 32 else hs))%nat with
          | Some vs => Some (v :: vs)
          | None => None
          end
      end
  end.

Fixpoint decode (buf : bytes) (t : ty) (p : nat) {struct t} : option value :=
  match t with
  | Base s =>
      match word buf p with
      | None => None
      | Some w =>
          match classify s with
          | KBytes | KString =>
              match slice buf (p + 32) w with
              | Some bs => Some (VBytes bs)
              | None => None
              end
          | k => if valid_word k w then Some (VWord w) else None
          end
      end
  | Fixed t' n =>
      option_map VSeq (dec_seq buf (repeat (is_dyn t', static_size t', decode buf t') n) p p)
  | Dyn t' =>
      match word buf p with
      | None => None
      | Some w =>
          option_map VSeq
            (dec_seq buf (repeat (is_dyn t', static_size t', decode buf t') (Z.to_nat w)) (p + 32) (p + 32))
      end
  | Tuple its =>
      option_map VSeq
        (dec_seq buf (map (fun it => (is_dyn (snd it), static_size (snd it), decode buf (snd it))) its) p p)
  end.

(* ---------------------------------------------------------------- which values are asked for

   halmos lets the user give, per dynamic parameter, the list of lengths to consider:
   --array-lengths name={..}, else --default-array-lengths for T[] and
   --default-bytes-lengths for bytes/string.  Parameters are addressed by path:
   the i-th element of x is "x[i]", component f of x is "x.f" (just "f" at top level). *)

Record cfg := { c_lengths : list (str * list nat); c_array : list nat; c_bytes : list nat }.

Fixpoint lookup (m : list (str * list nat)) (k : str) : option (list nat) :=
  match m with
  | [] => None
  | (k', v) :: r => if str_eqb k' k then Some v else lookup r k
  end.

Definition cand (c : cfg) (name : str) (is_array : bool) : list nat :=
  match lookup (c_lengths c) name with
  | Some l => l
  | None => if is_array then c_array c else c_bytes c
  end.

Fixpoint uint_codes (u : Decimal.uint) : str :=
  match u with
  | Decimal.Nil => []
  | Decimal.D0 r => 48 :: uint_codes r | Decimal.D1 r => 49 :: uint_codes r
  | Decimal.D2 r => 50 :: uint_codes r | Decimal.D3 r => 51 :: uint_codes r
  | Decimal.D4 r => 52 :: uint_codes r | Decimal.D5 r => 53 :: uint_codes r
  | Decimal.D6 r => 54 :: uint_codes r | Decimal.D7 r => 55 :: uint_codes r
  | Decimal.D8 r => 56 :: uint_codes r | Decimal.D9 r => 57 :: uint_codes r
  end.
Definition dec_str (n : nat) : str := uint_codes (Nat.to_uint n).

Definition idx (name : str) (i : nat) : str := name ++ [91] ++ dec_str i ++ [93].       (* name[i] *)
Definition field (name fld : str) : str :=
  match name with [] => fld | _ => name ++ [46] ++ fld end.                              (* name.fld *)

Definition byte_ok (b : Z) : Prop := 0 <= b < 256.

Fixpoint all2 {A} (ps : list (A -> Prop)) (xs : list A) : Prop :=
  match ps, xs with
  | [], [] => True
  | p :: ps', x :: xs' => p x /\ all2 ps' xs'
  | _, _ => False
  end.

(* [admits c name t v]: v is a well-typed value of type t in which the length of every
   dynamic parameter is one of the lengths configured for it *)
Fixpoint admits (c : cfg) (name : str) (t : ty) (v : value) {struct t} : Prop :=
  match t with
  | Base s =>
      if base_dyn s
      then exists bs, v = VBytes bs /\ In (length bs) (cand c name false) /\ Forall byte_ok bs
      else exists w, v = VWord w /\ valid_word (classify s) w = true
  | Fixed t' n =>
      exists vs, v = VSeq vs /\
        all2 (map (fun i => admits c (idx name i) t') (seq 0 n)) vs
  | Dyn t' =>
      exists vs, v = VSeq vs /\ In (length vs) (cand c name true) /\
        all2 (map (fun i => admits c (idx name i) t') (seq 0 (length vs))) vs
  | Tuple its =>
      exists vs, v = VSeq vs /\
        all2 (map (fun it => admits c (field name (fst it)) (snd it)) its) vs
  end.

(* zero-length fixed arrays do not exist in Solidity; the statements exclude them *)
Fixpoint wf_ty (t : ty) : Prop :=
  match t with
  | Base _ => True
  | Fixed t' n => (1 <= n)%nat /\ wf_ty t'
  | Dyn t' => wf_ty t'
  | Tuple its => fold_right (fun it acc => wf_ty (snd it) /\ acc) True its
  end.

(* the configuration is usable: every parameter has at least one candidate length, and
   lengths fit the 256-bit length word *)
Definition cfg_ok (c : cfg) : Prop :=
  forall name arr, cand c name arr <> [] /\ Forall (fun n => Z.of_nat n < W256) (cand c name arr).

(* the elementary type names occurring in a type description *)
Fixpoint leaves (t : ty) : list str :=
  match t with
  | Base s => [s]
  | Fixed t' _ => leaves t'
  | Dyn t' => leaves t'
  | Tuple its => flat_map (fun it => leaves (snd it)) its
  end.

(* lexically an elementary ABI type name: address, bool, string, or uint/int/bytes followed
   by decimal digits (possibly none).  [classify] additionally checks the width. *)
Definition lex_elementary (s : str) : Prop :=
  s = s_address \/ s = s_bool \/ s = s_string \/
  exists d, forallb is_digit d = true /\ (s = s_uint ++ d \/ s = s_int ++ d \/ s = s_bytes ++ d).
