(* C11, specification side of the dump / solve protocol, independent of how solve.py
   organises its files: which solver processes a sequence of solve_end_to_end calls must
   start, and what each of them must read.

   A context stands for (path, query); `text c` is the query of c as SMT-LIB text,
   `refine c` the context of the refined query.  The solver is any function from the text
   it reads to an answer (stdout, stderr), None = no answer in time. *)
From Coq Require Import List String Bool.
Import ListNotations.

Section Spec.
  Variable ctx : Type.
  Variable text : ctx -> string.
  Variable refine : ctx -> ctx.
  Variable solver : option string -> option (string * string).

  (* one call: nothing when a known unsat core answers it; otherwise the path's own query
     is solved, and - when the answer TO THAT QUERY makes the caller ask again - its refinement *)
  Definition solves_of (c : ctx) (core_hit : bool) (again : string -> bool) : list ctx :=
    if core_hit then []
    else c :: match solver (Some (text c)) with
              | Some (o, _) => if again o then [refine c] else []
              | None => []
              end.

  (* every process reads the text of the query it is started for *)
  Definition reads_of (c : ctx) : option string := Some (text c).
End Spec.
