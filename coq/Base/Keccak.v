(* Executable Keccak-256 (the Ethereum hash: original Keccak padding 0x01..0x80, rate 136)
   on lists of bytes (N).  Used to check selector tables and the precomputed storage-slot
   hash tables inside Coq by vm_compute. *)
From Coq Require Import NArith List.
Import ListNotations.
Definition m5 (n : nat) : nat := Nat.modulo n 5.
Definition d5 (n : nat) : nat := Nat.div n 5.
Definition idx (x y : nat) : nat := Nat.add x (Nat.mul 5 y).
Definition pix (Y y : nat) : nat := Nat.modulo (Nat.mul 3 (Nat.sub (Nat.add Y 15) (Nat.mul 3 y))) 5.
Open Scope N_scope.
Definition mask64 := 18446744073709551615.
Definition rotl (x : N) (n : N) : N :=
  if n =? 0 then x else N.lor (N.land (N.shiftl x n) mask64) (N.shiftr x (64 - n)).
Definition RC : list N := [1; 32898; 9223372036854808714; 9223372039002292224; 32907; 2147483649; 9223372039002292353; 9223372036854808585; 138; 136; 2147516425; 2147483658; 2147516555; 9223372036854775947; 9223372036854808713; 9223372036854808579; 9223372036854808578; 9223372036854775936; 32778; 9223372039002259466; 9223372039002292353; 9223372036854808704; 2147483649; 9223372039002292232].
Definition ROT : list N := [0;1;62;28;27; 36;44;6;55;20; 3;10;43;25;39; 41;45;15;21;8; 18;2;61;56;14].
Definition nthN (l : list N) (i : nat) := nth i l 0.
Definition range5 : list nat := [0;1;2;3;4]%nat.
Definition range25 := seq 0 25.
Definition round (st : list N) (rc : N) : list N :=
  let C := map (fun x : nat => fold_left N.lxor (map (fun y : nat => nthN st (idx x y)) range5) 0) range5 in
  let D := map (fun x : nat => N.lxor (nthN C (m5 (Nat.add x 4))) (rotl (nthN C (m5 (S x))) 1)) range5 in
  let st1 := map (fun i : nat => N.lxor (nthN st i) (nthN D (m5 i))) range25 in
  let B := map (fun i : nat =>
      let X := m5 i in let Y := d5 i in
      let y := X in
      let x := pix Y y in
      rotl (nthN st1 (idx x y)) (nthN ROT (idx x y))) range25 in
  let st2 := map (fun i : nat => let x := m5 i in let y := d5 i in
      N.lxor (nthN B i) (N.land (N.lxor (nthN B (idx (m5 (S x)) y)) mask64) (nthN B (idx (m5 (S (S x))) y)))) range25 in
  match st2 with
  | a :: r => N.lxor a rc :: r
  | [] => []
  end.
Definition keccakf (st : list N) : list N := fold_left round RC st.
Fixpoint lane_of_bytes (bs : list N) : N := match bs with [] => 0 | b :: r => b + 256 * lane_of_bytes r end.
Fixpoint chunks8 (n : nat) (bs : list N) : list N :=
  match n with O => [] | S n' => lane_of_bytes (firstn 8 bs) :: chunks8 n' (skipn 8 bs) end.
Definition rate := 136%nat.
Definition pad (msg : list N) : list N :=
  let q := Nat.sub rate (Nat.modulo (length msg) rate) in
  if Nat.eqb q 1 then msg ++ [129] else msg ++ [1] ++ repeat 0 (Nat.sub q 2) ++ [128].
Fixpoint absorb (fuel : nat) (st : list N) (bs : list N) : list N :=
  match fuel with O => st | S f =>
    match bs with [] => st | _ =>
      let blk := chunks8 17 (firstn rate bs) in
      let st' := map (fun i : nat => N.lxor (nthN st i) (nthN blk i)) range25 in
      absorb f (keccakf st') (skipn rate bs)
    end end.
Fixpoint bytes_of_lane (n : nat) (x : N) : list N := match n with O => [] | S n' => (x mod 256) :: bytes_of_lane n' (x / 256) end.
(* digest as 32 bytes *)
Definition keccak256 (msg : list N) : list N :=
  let st := absorb (S (length msg)) (repeat 0 25) (pad msg) in
  flat_map (bytes_of_lane 8) (firstn 4 st).
Fixpoint be (bs : list N) (acc : N) : N := match bs with [] => acc | b :: r => be r (acc * 256 + b) end.
(* digest as a 256-bit number *)
Definition keccak256_num (msg : list N) : N := be (keccak256 msg) 0.
(* 32-byte big-endian encoding of a word *)
Definition word_bytes (x : N) : list N := rev (bytes_of_lane 32 x).
(* first four bytes of the digest as a number: the function selector *)
Definition selector4 (msg : list N) : N := be (firstn 4 (keccak256 msg)) 0.

(* bytes of an ASCII string *)
From Coq Require Import String Ascii.
Fixpoint bytes_of_string (s : string) : list N :=
  match s with EmptyString => [] | String a r => N_of_ascii a :: bytes_of_string r end.
Definition selector_of_sig (s : string) : N := selector4 (bytes_of_string s).

(* known-answer tests (Keccak-256 of "" and of "abc") *)
Example keccak_empty :
  keccak256_num [] = 89477152217924674838424037953991966239322087453347756267410168184682657981552.
Proof. vm_compute. reflexivity. Qed.
Example keccak_abc :
  keccak256_num [97;98;99] = 35286403120855365962805127237049809881669876751651884979611909062921250761797.
Proof. vm_compute. reflexivity. Qed.
Example selector_transfer : selector_of_sig "transfer(address,uint256)" = 2835717307.
Proof. vm_compute. reflexivity. Qed.
