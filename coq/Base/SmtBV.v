(* SMT-LIB QF_BV semantics on Z (what a z3 bit-vector term denotes), for any width n > 0.
   Values of width n are integers in [0, 2^n).  From the SMT-LIB FixedSizeBitVectors
   theory + QF_BV logic definitions: bvudiv x 0 = 2^n-1, bvurem x 0 = x, bvsdiv/bvsrem/
   bvsmod by sign case analysis, shifts by >= n give 0 (or the sign fill). *)
From Coq Require Import ZArith Bool.
Open Scope Z_scope.

Definition bvmod (n x : Z) : Z := x mod 2 ^ n.
Definition bvsigned (n x : Z) : Z := if x <? 2 ^ (n - 1) then x else x - 2 ^ n.
Definition bvneg (n x : Z) : Z := bvmod n (- x).
Definition bvadd (n x y : Z) : Z := bvmod n (x + y).
Definition bvsub (n x y : Z) : Z := bvmod n (x - y).
Definition bvmul (n x y : Z) : Z := bvmod n (x * y).
Definition bvudiv (n x y : Z) : Z := if y =? 0 then 2 ^ n - 1 else x / y.
Definition bvurem (n x y : Z) : Z := if y =? 0 then x else x mod y.
Definition msb (n x : Z) : bool := 2 ^ (n - 1) <=? x.
(* SMT-LIB: bvsdiv s t = case on msb s, msb t of
     0,0: bvudiv s t | 1,0: bvneg (bvudiv (bvneg s) t) | 0,1: bvneg (bvudiv s (bvneg t))
     1,1: bvudiv (bvneg s) (bvneg t) *)
Definition bvsdiv (n x y : Z) : Z :=
  match msb n x, msb n y with
  | false, false => bvudiv n x y
  | true, false => bvneg n (bvudiv n (bvneg n x) y)
  | false, true => bvneg n (bvudiv n x (bvneg n y))
  | true, true => bvudiv n (bvneg n x) (bvneg n y)
  end.
Definition bvsrem (n x y : Z) : Z :=
  match msb n x, msb n y with
  | false, false => bvurem n x y
  | true, false => bvneg n (bvurem n (bvneg n x) y)
  | false, true => bvurem n x (bvneg n y)
  | true, true => bvneg n (bvurem n (bvneg n x) (bvneg n y))
  end.
Definition bvshl (n x s : Z) : Z := if s <? n then bvmod n (x * 2 ^ s) else 0.
Definition bvlshr (n x s : Z) : Z := if s <? n then x / 2 ^ s else 0.
Definition bvashr (n x s : Z) : Z :=
  if s <? n then bvmod n (bvsigned n x / 2 ^ s)
  else if msb n x then 2 ^ n - 1 else 0.
Definition bvand (x y : Z) : Z := Z.land x y.
Definition bvor (x y : Z) : Z := Z.lor x y.
Definition bvxor (x y : Z) : Z := Z.lxor x y.
Definition bvnot (n x : Z) : Z := 2 ^ n - 1 - x.
(* ((_ extract hi lo) x) *)
Definition bvextract (hi lo x : Z) : Z := (x / 2 ^ lo) mod 2 ^ (hi - lo + 1).
(* (concat x y) with y of width m *)
Definition bvconcat (m x y : Z) : Z := x * 2 ^ m + y.
Definition bvzext (x : Z) : Z := x.
(* sign-extend x of width n by k bits *)
Definition bvsext (n k x : Z) : Z := if msb n x then x + (2 ^ (n + k) - 2 ^ n) else x.
Definition bvult (x y : Z) : bool := x <? y.
Definition bvule (x y : Z) : bool := x <=? y.
Definition bvslt (n x y : Z) : bool := bvsigned n x <? bvsigned n y.
Definition bvsle (n x y : Z) : bool := bvsigned n x <=? bvsigned n y.
