(* EVM 256-bit word algebra on Z — the SPECIFICATION of the word-level instructions,
   written from the Yellow Paper / execution-specs (x/0 = x%0 = 0, ADDMOD/MULMOD with
   unbounded intermediate, signed ops in two's complement, shifts >= 256).
   Operands and results are integers in [0, 2^256).  No proofs here. *)
From Coq Require Import ZArith Bool.
Open Scope Z_scope.

Definition WB : Z := 256.
Definition W : Z := 2 ^ 256.
Definition W2 : Z := 2 ^ 255.

Definition wrap (x : Z) : Z := x mod W.
Definition in_word (x : Z) : Prop := 0 <= x < W.
Definition to_signed (x : Z) : Z := if x <? W2 then x else x - W.
Definition b2w (b : bool) : Z := if b then 1 else 0.

Definition evm_add (a b : Z) : Z := wrap (a + b).
Definition evm_sub (a b : Z) : Z := wrap (a - b).
Definition evm_mul (a b : Z) : Z := wrap (a * b).
Definition evm_div (a b : Z) : Z := if b =? 0 then 0 else a / b.
Definition evm_mod (a b : Z) : Z := if b =? 0 then 0 else a mod b.
(* SDIV truncates toward zero; SMOD takes the sign of the dividend (Z.quot / Z.rem) *)
Definition evm_sdiv (a b : Z) : Z :=
  if b =? 0 then 0 else wrap (Z.quot (to_signed a) (to_signed b)).
Definition evm_smod (a b : Z) : Z :=
  if b =? 0 then 0 else wrap (Z.rem (to_signed a) (to_signed b)).
Definition evm_addmod (a b n : Z) : Z := if n =? 0 then 0 else (a + b) mod n.
Definition evm_mulmod (a b n : Z) : Z := if n =? 0 then 0 else (a * b) mod n.

(* executable modular exponentiation (square and multiply) *)
Fixpoint modpow_pos (a : Z) (p : positive) (m : Z) : Z :=
  match p with
  | xH => a mod m
  | xO q => let r := modpow_pos a q m in (r * r) mod m
  | xI q => let r := modpow_pos a q m in (r * r * a) mod m
  end.
Definition modpow (a e m : Z) : Z :=
  match e with Z0 => 1 mod m | Zpos p => modpow_pos a p m | Zneg _ => 0 end.
Definition evm_exp (a e : Z) : Z := modpow a e W.
(* the mathematical definition; Proofs/WordLemmas.v shows evm_exp = evm_exp_math *)
Definition evm_exp_math (a e : Z) : Z := (a ^ e) mod W.

(* SIGNEXTEND b x: x sign-extended from (b+1) bytes; identity for b >= 31 *)
Definition evm_signextend (b x : Z) : Z :=
  if b <? 31 then
    let n := 8 * (b + 1) in
    let low := x mod 2 ^ n in
    if low <? 2 ^ (n - 1) then low else low + (W - 2 ^ n)
  else x.

Definition evm_lt (a b : Z) : Z := b2w (a <? b).
Definition evm_gt (a b : Z) : Z := b2w (b <? a).
Definition evm_slt (a b : Z) : Z := b2w (to_signed a <? to_signed b).
Definition evm_sgt (a b : Z) : Z := b2w (to_signed b <? to_signed a).
Definition evm_eq (a b : Z) : Z := b2w (a =? b).
Definition evm_iszero (a : Z) : Z := b2w (a =? 0).
Definition evm_and (a b : Z) : Z := Z.land a b.
Definition evm_or (a b : Z) : Z := Z.lor a b.
Definition evm_xor (a b : Z) : Z := Z.lxor a b.
Definition evm_not (a : Z) : Z := W - 1 - a.
(* BYTE i x: i-th byte counting from the most significant; 0 for i >= 32 *)
Definition evm_byte (i x : Z) : Z :=
  if i <? 32 then (x / 2 ^ (8 * (31 - i))) mod 256 else 0.
Definition evm_shl (s x : Z) : Z := if s <? 256 then wrap (x * 2 ^ s) else 0.
Definition evm_shr (s x : Z) : Z := if s <? 256 then x / 2 ^ s else 0.
Definition evm_sar (s x : Z) : Z :=
  if s <? 256 then wrap (to_signed x / 2 ^ s)
  else if to_signed x <? 0 then W - 1 else 0.
