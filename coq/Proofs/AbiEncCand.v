(* C12: size-symbol candidates / calldataload branching, and what parse_type lets through. *)
From Coq Require Import String.
From Coq Require Import ZArith List Bool Lia ZifyBool.
From HV Require Import Spec.AbiSpec Gen.GenAbiEnc Model.AbiEncModel Proofs.AbiEncProofs Proofs.AbiEncInv.
Import ListNotations.
Open Scope Z_scope.

(* ------------------------------------------------------------------ candidates *)

Lemma process_rev : forall ds acc, process_dyn_params ds acc = rev (map dpair ds) ++ acc.
Proof.
  unfold process_dyn_params. induction ds as [|d ds IH]; intros acc; cbn; [reflexivity|].
  rewrite IH. rewrite <- app_assoc. reflexivity.
Qed.

Lemma assoc_in : forall {A} (m : list (nat * A)) k v,
  NoDup (map fst m) -> In (k, v) m -> assoc m k = Some v.
Proof.
  intros A m k v. induction m as [|[k' v'] m IH]; intros Hnd Hin; [destruct Hin|].
  cbn in Hnd. inversion Hnd as [|? ? Hni Hnd']; subst. cbn [assoc].
  destruct Hin as [Heq|Hin].
  - inversion Heq; subst. rewrite Nat.eqb_refl. reflexivity.
  - destruct (Nat.eqb_spec k' k) as [->|]; [|apply IH; assumption].
    exfalso. apply Hni. apply (in_map fst) in Hin. exact Hin.
Qed.

Lemma dyns_keys_nodup : forall its, NoDup (ids its) -> NoDup (map fst (dyns its)).
Proof.
  induction its as [|it its IH]; intros H; [constructor|].
  unfold ids in H. cbn [flat_map] in H. fold (ids its) in H.
  unfold dyns. cbn [flat_map]. fold (dyns its).
  destruct it as [k nm tp|k nm tp n|k nm sz|z]; cbn [item_id dyn_of_item app map] in *;
    try (inversion H; subst; apply IH; assumption); try (apply IH; assumption).
  inversion H as [|? ? Hni Hnd]; subst. constructor; [|apply IH; exact Hnd].
  intros Hin. apply Hni. clear -Hin. induction its as [|it its IH]; [destruct Hin|].
  unfold dyns in Hin. cbn [flat_map] in Hin. fold (dyns its) in Hin.
  unfold ids. cbn [flat_map]. fold (ids its). rewrite map_app in Hin. apply in_or_app.
  apply in_app_or in Hin. destruct Hin as [Hin|Hin]; [left|right; apply IH; exact Hin].
  destruct it; cbn in *; tauto.
Qed.

Theorem candidates_branch : forall t c name k e ds k' d,
  encode c name t k = (e, ds, k') -> In d ds ->
  calldataload [] (process_dyn_params ds []) (LVar (d_id d))
  = map (fun n => (Some (d_id d, n), PConst (Z.of_nat n))) (d_sizes d).
Proof.
  intros t c name k e ds k' d H Hin. pose proof (encode_inv _ _ _ _ _ _ _ H) as Hi.
  unfold calldataload. cbn [assoc]. rewrite process_rev, app_nil_r.
  rewrite (assoc_in _ (d_id d) (d_sizes d)); [reflexivity| |].
  - rewrite map_rev. apply NoDup_rev. rewrite <- (inv_dyn _ _ _ _ _ Hi).
    apply dyns_keys_nodup. exact (inv_nodup _ _ _ _ _ Hi).
  - apply -> in_rev. apply (in_map dpair) in Hin. exact Hin.
Qed.

(* ------------------------------------------------------------------ parse_type: what gets through *)

Lemma parse_str_leaves : forall fuel typ tup t,
  parse_str fuel typ tup = Some t ->
  (forall t0, tup = Some t0 -> Forall (fun s => supported s = true) (leaves t0)) ->
  Forall (fun s => supported s = true) (leaves t).
Proof.
  induction fuel as [|f IH]; intros typ tup t H Ht; cbn [parse_str] in H; [discriminate|].
  destruct (match_array typ) as [[bt al]|].
  - destruct (parse_str f bt tup) as [b|] eqn:E; [|discriminate].
    specialize (IH _ _ _ E Ht). destruct al; inversion H; subst; exact IH.
  - destruct (supported typ) eqn:Es; [|discriminate].
    destruct (str_eqb typ gen_s_tuple).
    + apply Ht. exact H.
    + inversion H; subst. constructor; [exact Es|constructor].
Qed.

Lemma sequence_some : forall {A} (l : list (option A)) xs,
  sequence l = Some xs -> l = map Some xs.
Proof.
  intros A. induction l as [|[x|] l IH]; intros xs H; cbn in H; try discriminate.
  - inversion H. reflexivity.
  - destruct (sequence l) as [ys|] eqn:E; [|discriminate]. inversion H; subst.
    cbn. rewrite (IH _ eq_refl). reflexivity.
Qed.

Section JInd.
  Variable P : jitem -> Prop.
  Hypothesis HJ : forall n tp comps, Forall P comps -> P (JItem n tp comps).
  Fixpoint jitem_ind' (j : jitem) : P j :=
    match j with
    | JItem n tp comps =>
        HJ n tp comps ((fix go (l : list jitem) : Forall P l :=
                          match l with
                          | [] => Forall_nil _
                          | x :: r => Forall_cons x (jitem_ind' x) (go r)
                          end) comps)
    end.
End JInd.

Lemma comps_leaves : forall comps its,
  Forall (fun j => forall t, parse_item j = Some t -> Forall (fun s => supported s = true) (leaves t)) comps ->
  sequence (map (fun cj => option_map (pair (jname cj)) (parse_item cj)) comps) = Some its ->
  Forall (fun s => supported s = true) (flat_map (fun it => leaves (snd it)) its).
Proof.
  induction comps as [|cj comps IH]; intros its Hall H; cbn in H.
  - inversion H. constructor.
  - inversion Hall as [|? ? Hc Hall']; subst.
    destruct (parse_item cj) as [t|] eqn:E; cbn in H; [|discriminate].
    destruct (sequence _) as [r|] eqn:Er; [|discriminate]. inversion H; subst.
    cbn [flat_map snd]. apply Forall_app. split; [apply Hc; reflexivity|apply IH; [exact Hall'|reflexivity]].
Qed.

(* every elementary type that reaches the encoder matched the supported-type pattern:
   anything else made parse_type raise *)
Theorem parse_leaves_supported : forall j t,
  parse_item j = Some t -> Forall (fun s => supported s = true) (leaves t).
Proof.
  induction j as [n tp comps IH] using jitem_ind'. intros t H. cbn [parse_item] in H.
  eapply parse_str_leaves; [exact H|].
  intros t0 Ht0. destruct (sequence _) as [its|] eqn:Es; [|discriminate].
  cbn in Ht0. inversion Ht0; subst. cbn [leaves]. eapply comps_leaves; eassumption.
Qed.

Theorem parse_inputs_supported : forall inputs t,
  parse_inputs inputs = Some t -> Forall (fun s => supported s = true) (leaves t).
Proof.
  intros inputs t H. unfold parse_inputs in H.
  destruct (sequence _) as [its|] eqn:Es; [|discriminate]. cbn in H. inversion H; subst.
  cbn [leaves]. eapply comps_leaves; [|exact Es].
  apply Forall_forall. intros j _ t0. apply parse_leaves_supported.
Qed.

(* what the supported-type pattern means, in terms of the ABI's lexical grammar *)
Lemma strip_prefix_app : forall p s d, strip_prefix p s = Some d -> s = p ++ d.
Proof.
  induction p as [|x p IH]; intros s d H; cbn in H.
  - inversion H. reflexivity.
  - destruct s as [|y s]; [discriminate|]. destruct (Z.eqb_spec x y) as [->|]; [|discriminate].
    cbn. f_equal. apply IH. exact H.
Qed.

Lemma match_word_spec : forall lit digits s, match_word lit digits s = true ->
  exists d, s = lit ++ d /\ (if digits then all_digits d = true else d = []).
Proof.
  intros lit digits s H. unfold match_word in H.
  destruct (strip_prefix lit s) as [d|] eqn:E; [|discriminate].
  apply strip_prefix_app in E. exists d. split; [exact E|].
  destruct digits; [exact H|]. destruct d; [reflexivity|discriminate].
Qed.

Theorem supported_lexical : forall s,
  supported s = true -> strip_nl s <> gen_s_tuple -> lex_elementary (strip_nl s).
Proof.
  intros s H Hnt. unfold supported, gen_supported_alts in H. set (s' := strip_nl s) in *.
  cbn [existsb] in H. unfold match_alt in H.
  apply orb_true_iff in H; destruct H as [H|H].
  { apply orb_true_iff in H. destruct H as [H|H].
    + apply match_word_spec in H. destruct H as (d & -> & Hd).
      right. right. right. exists d. split; [exact Hd|]. right. left. reflexivity.
    + destruct s' as [|c r]; [discriminate|]. destruct (Z.eqb_spec c 117) as [->|Hc].
      * apply match_word_spec in H. destruct H as (d & -> & Hd).
        right. right. right. exists d. split; [exact Hd|]. left. reflexivity.
      * destruct c; try discriminate. repeat (destruct p; try discriminate). exfalso. apply Hc. reflexivity. }
  apply orb_true_iff in H; destruct H as [H|H].
  { rewrite orb_false_r in H. apply match_word_spec in H. destruct H as (d & -> & ->).
    left. rewrite app_nil_r. reflexivity. }
  apply orb_true_iff in H; destruct H as [H|H].
  { rewrite orb_false_r in H. apply match_word_spec in H. destruct H as (d & -> & ->).
    right. left. rewrite app_nil_r. reflexivity. }
  apply orb_true_iff in H; destruct H as [H|H].
  { rewrite orb_false_r in H. apply match_word_spec in H. destruct H as (d & -> & Hd).
    right. right. right. exists d. split; [exact Hd|]. right. right. reflexivity. }
  apply orb_true_iff in H; destruct H as [H|H].
  { rewrite orb_false_r in H. apply match_word_spec in H. destruct H as (d & -> & ->).
    right. right. left. rewrite app_nil_r. reflexivity. }
  apply orb_true_iff in H; destruct H as [H|H]; [|discriminate].
  rewrite orb_false_r in H. apply match_word_spec in H. destruct H as (d & Hs & ->).
  exfalso. apply Hnt. rewrite Hs, app_nil_r. reflexivity.
Qed.

Theorem calldataload_fixed : forall subst cands k z,
  assoc subst k = Some z -> calldataload subst cands (LVar k) = [(None, PConst z)].
Proof. intros subst cands k z H. unfold calldataload. rewrite H. reflexivity. Qed.

Theorem calldataload_other : forall subst cands k,
  assoc subst k = None -> assoc cands k = None ->
  calldataload subst cands (LVar k) = [(None, PSame)] /\ calldataload subst cands LOther = [(None, PSame)].
Proof. intros subst cands k H1 H2. unfold calldataload. rewrite H1, H2. split; reflexivity. Qed.

Theorem parse_reject : forall inputs t s,
  parse_inputs inputs = Some t -> In s (leaves t) ->
  strip_nl s = gen_s_tuple \/ lex_elementary (strip_nl s).
Proof.
  intros inputs t s H Hin. pose proof (parse_inputs_supported _ _ H) as Hs.
  rewrite Forall_forall in Hs. specialize (Hs _ Hin).
  destruct (str_eqb (strip_nl s) gen_s_tuple) eqn:E.
  - left. apply str_eqb_eq. exact E.
  - right. apply supported_lexical; [exact Hs|]. intros Heq. rewrite Heq, str_eqb_refl in E. discriminate.
Qed.

(* witnesses of the recorded gaps *)
Lemma reject_widths_witness :
  exists s t, parse_inputs [JItem [] s []] = Some t /\ In s (leaves t) /\ classify s = KUnknown.
Proof. exists (codes "uint7"%string). eexists. repeat split; vm_compute; auto. Qed.

Lemma reject_newline_witness :
  exists s t, parse_inputs [JItem [] s []] = Some t /\ In s (leaves t) /\
              strip_nl s = s_bytes /\ is_dyn_base s = false.
Proof. exists (codes "bytes"%string ++ [10]). eexists. repeat split; vm_compute; auto. Qed.

Lemma static_flag_zero_length_witness :
  exists c t, ~ wf_ty t /\
    e_static (fst (fst (encode c [] t 0))) <> negb (is_dyn t).
Proof.
  exists {| c_lengths := []; c_array := [1%nat]; c_bytes := [1%nat] |}, (Fixed (Base s_bytes) 0).
  split; [cbn; intros [H _]; inversion H|vm_compute; discriminate].
Qed.
