(* C12: size-symbol candidates / calldataload branching, and what parse_type lets through. *)
From Coq Require Import String.
From Coq Require Import ZArith List Bool Lia ZifyBool.
From HV Require Import Spec.AbiSpec Gen.GenAbiEnc Gen.GenDynParams Model.AbiEncModel Proofs.AbiEncProofs Proofs.AbiEncInv.
Import ListNotations.
Open Scope Z_scope.

(* ------------------------------------------------------------------ candidates *)

(* what the regenerated process_dyn_params does: every parameter is bound, nothing else changes *)
Lemma fold_register : forall (ds acc : list (nat * list nat)),
  fold_left (fun m d => (fst d, snd d) :: m) ds acc = rev ds ++ acc.
Proof.
  induction ds as [|[k v] ds IH]; intros acc; cbn; [reflexivity|].
  rewrite IH. rewrite <- app_assoc. reflexivity.
Qed.

(* (robust against the equivalent forms the translator accepts: early return on an empty list,
   dict.update with a comprehension) *)
Lemma gen_process_rev : forall ds acc, gen_process_dyn_params ds acc = rev ds ++ acc.
Proof.
  intros ds acc. unfold gen_process_dyn_params.
  destruct ds as [|d ds]; cbv beta iota zeta; rewrite ?fold_register; reflexivity.
Qed.

Lemma process_rev : forall ds acc, process_dyn_params ds acc = rev (map dpair ds) ++ acc.
Proof. intros ds acc. unfold process_dyn_params. apply gen_process_rev. Qed.

Lemma assoc_in : forall {A} (m : list (nat * A)) k v,
  NoDup (map fst m) -> In (k, v) m -> assoc m k = Some v.
Proof.
  intros A m k v. induction m as [|[k' v'] m IH]; intros Hnd Hin; [destruct Hin|].
  cbn in Hnd. inversion Hnd as [|? ? Hni Hnd']; subst. cbn [assoc].
  destruct Hin as [Heq|Hin].
  - inversion Heq; subst. rewrite Nat.eqb_refl. reflexivity.
  - destruct (Nat.eqb_spec k' k) as [->|]; [|apply IH; assumption].
    exfalso. apply Hni. apply (in_map fst) in Hin. exact Hin.
Qed.

Lemma dyns_keys_nodup : forall its, NoDup (ids its) -> NoDup (map fst (dyns its)).
Proof.
  induction its as [|it its IH]; intros H; [constructor|].
  unfold ids in H. cbn [flat_map] in H. fold (ids its) in H.
  unfold dyns. cbn [flat_map]. fold (dyns its).
  destruct it as [k nm tp|k nm tp n|k nm sz|z]; cbn [item_id dyn_of_item app map] in *;
    try (inversion H; subst; apply IH; assumption); try (apply IH; assumption).
  inversion H as [|? ? Hni Hnd]; subst. constructor; [|apply IH; exact Hnd].
  intros Hin. apply Hni. clear -Hin. induction its as [|it its IH]; [destruct Hin|].
  unfold dyns in Hin. cbn [flat_map] in Hin. fold (dyns its) in Hin.
  unfold ids. cbn [flat_map]. fold (ids its). rewrite map_app in Hin. apply in_or_app.
  apply in_app_or in Hin. destruct Hin as [Hin|Hin]; [left|right; apply IH; exact Hin].
  destruct it; cbn in *; tauto.
Qed.

Theorem candidates_branch : forall t c name k e ds k' d,
  encode c name t k = (e, ds, k') -> In d ds ->
  calldataload [] (process_dyn_params ds []) (LVar (d_id d))
  = map (fun n => (Some (d_id d, n), PConst (Z.of_nat n))) (d_sizes d).
Proof.
  intros t c name k e ds k' d H Hin. pose proof (encode_inv _ _ _ _ _ _ _ H) as Hi.
  unfold calldataload, gen_calldataload. cbn [assoc]. rewrite process_rev, app_nil_r.
  rewrite (assoc_in _ (d_id d) (d_sizes d)); [reflexivity| |].
  - rewrite map_rev. apply NoDup_rev. rewrite <- (inv_dyn _ _ _ _ _ Hi).
    apply dyns_keys_nodup. exact (inv_nodup _ _ _ _ _ Hi).
  - apply -> in_rev. apply (in_map dpair) in Hin. exact Hin.
Qed.

(* ------------------------------------------------------------------ several calldata in one path *)

Lemma assoc_app : forall {A} (a b : list (nat * A)) k,
  assoc (a ++ b) k = match assoc a k with Some v => Some v | None => assoc b k end.
Proof.
  intros A a b k. induction a as [|[k' v] a IH]; [reflexivity|].
  cbn [app assoc]. destruct (Nat.eqb k' k); [reflexivity|exact IH].
Qed.

Lemma assoc_notin : forall {A} (m : list (nat * A)) k, ~ In k (map fst m) -> assoc m k = None.
Proof.
  intros A m k. induction m as [|[k' v] m IH]; intros H; [reflexivity|].
  cbn [assoc]. destruct (Nat.eqb_spec k' k) as [->|]; [exfalso; apply H; left; reflexivity|].
  apply IH. intros Hin. apply H. right. exact Hin.
Qed.

Lemma dyns_in_ids : forall its k sz, In (k, sz) (dyns its) -> In k (ids its).
Proof.
  induction its as [|it its IH]; intros k sz Hin; [destruct Hin|].
  unfold dyns in Hin. cbn [flat_map] in Hin. fold (dyns its) in Hin.
  unfold ids. cbn [flat_map]. fold (ids its). apply in_or_app. apply in_app_or in Hin.
  destruct Hin as [Hin|Hin]; [left|right; eapply IH; exact Hin].
  destruct it; cbn in *; try tauto. destruct Hin as [Heq|[]]. inversion Heq. left. reflexivity.
Qed.

(* registering the dynamic parameters of a calldata binds each of them ... *)
Lemma process_assoc_new : forall t c name k e ds k' d cands,
  encode c name t k = (e, ds, k') -> In d ds ->
  assoc (process_dyn_params ds cands) (d_id d) = Some (d_sizes d).
Proof.
  intros t c name k e ds k' d cands H Hin. pose proof (encode_inv _ _ _ _ _ _ _ H) as Hi.
  rewrite process_rev, assoc_app.
  rewrite (assoc_in _ (d_id d) (d_sizes d)); [reflexivity| |].
  - rewrite map_rev. apply NoDup_rev. rewrite <- (inv_dyn _ _ _ _ _ Hi).
    apply dyns_keys_nodup. exact (inv_nodup _ _ _ _ _ Hi).
  - apply -> in_rev. apply (in_map dpair) in Hin. exact Hin.
Qed.

(* ... and leaves the candidates of every symbol created before (or after) this calldata alone *)
Lemma process_assoc_old : forall t c name k e ds k' cands i,
  encode c name t k = (e, ds, k') -> ~ (k <= i < k')%nat ->
  assoc (process_dyn_params ds cands) i = assoc cands i.
Proof.
  intros t c name k e ds k' cands i H Hout. pose proof (encode_inv _ _ _ _ _ _ _ H) as Hi.
  rewrite process_rev, assoc_app. rewrite assoc_notin; [reflexivity|].
  intros Hin. apply Hout. rewrite map_rev in Hin. apply in_rev in Hin.
  rewrite <- (inv_dyn _ _ _ _ _ Hi) in Hin. apply in_map_iff in Hin. destruct Hin as ([k0 sz] & Hk & Hin).
  cbn in Hk. subst k0. apply dyns_in_ids in Hin. exact (inv_ids _ _ _ _ _ Hi _ Hin).
Qed.

Lemma dyn_id_range : forall t c name k e ds k' d,
  encode c name t k = (e, ds, k') -> In d ds -> (k <= d_id d < k')%nat.
Proof.
  intros t c name k e ds k' d H Hin. pose proof (encode_inv _ _ _ _ _ _ _ H) as Hi.
  apply (inv_ids _ _ _ _ _ Hi). apply (dyns_in_ids _ _ (d_sizes d)).
  rewrite (inv_dyn _ _ _ _ _ Hi). apply (in_map dpair) in Hin. exact Hin.
Qed.

(* the invariant of a path: every dynamic parameter registered so far was created before the
   current symbol index and still has exactly its candidates *)
Definition path_inv (s : pstate) (regs : list dynp) : Prop :=
  forall d, In d regs -> (d_id d < p_next s)%nat /\ assoc (p_cands s) (d_id d) = Some (d_sizes d).

Lemma pstep_inv : forall s ev s1 ds1 regs,
  path_inv s regs -> pstep s ev = (s1, ds1) -> path_inv s1 (regs ++ ds1).
Proof.
  intros s ev s1 ds1 regs Hinv Hstep. destruct ev as [c t| | |k z|n]; cbn [pstep] in Hstep.
  - unfold create in Hstep. destruct (encode c [] t (p_next s)) as [[e ds] k'] eqn:E.
    inversion Hstep; subst s1 ds1; clear Hstep.
    pose proof (inv_le _ _ _ _ _ (encode_inv _ _ _ _ _ _ _ E)) as Hle.
    intros d Hin. apply in_app_or in Hin. cbn [p_next p_cands]. destruct Hin as [Hin|Hin].
    + destruct (Hinv d Hin) as [Hlt Has]. split; [lia|].
      rewrite (process_assoc_old _ _ _ _ _ _ _ _ _ E); [exact Has|lia].
    + split; [exact (proj2 (dyn_id_range _ _ _ _ _ _ _ _ E Hin))|].
      exact (process_assoc_new _ _ _ _ _ _ _ _ _ E Hin).
  - unfold gen_branch_conc in Hstep. inversion Hstep; subst s1 ds1. rewrite app_nil_r. exact Hinv.
  - unfold gen_extend_conc in Hstep. inversion Hstep; subst s1 ds1. rewrite app_nil_r. exact Hinv.
  - inversion Hstep; subst s1 ds1. rewrite app_nil_r. exact Hinv.
  - inversion Hstep; subst s1 ds1. rewrite app_nil_r.
    intros d Hin. destruct (Hinv d Hin) as [Hlt Has]. cbn [p_next p_cands]. split; [lia|exact Has].
Qed.

Lemma prun_inv : forall evs s s' ds regs,
  path_inv s regs -> prun s evs = (s', ds) -> path_inv s' (regs ++ ds).
Proof.
  induction evs as [|ev evs IH]; intros s s' ds regs Hinv H; cbn [prun] in H.
  - inversion H; subst. rewrite app_nil_r. exact Hinv.
  - destruct (pstep s ev) as [s1 ds1] eqn:E1. destruct (prun s1 evs) as [s2 ds2] eqn:E2.
    inversion H; subst s' ds. rewrite app_assoc.
    eapply IH; [|exact E2]. eapply pstep_inv; eassumption.
Qed.

(* whatever else the path registered, copied or fixed before or after: every size symbol of every
   calldata of the path still branches over exactly its candidates (or reads as the constant the
   path has fixed it to) *)
Theorem candidates_path : forall evs s s' all d,
  prun s evs = (s', all) -> In d all ->
  calldataload (p_subst s') (p_cands s') (LVar (d_id d))
  = match assoc (p_subst s') (d_id d) with
    | Some z => [(None, PConst z)]
    | None => map (fun n => (Some (d_id d, n), PConst (Z.of_nat n))) (d_sizes d)
    end.
Proof.
  intros evs s s' all d H Hin.
  assert (Hinv : path_inv s' ([] ++ all)) by (eapply prun_inv; [|exact H]; intros ? []).
  destruct (Hinv d Hin) as [_ Has]. unfold calldataload, gen_calldataload. rewrite Has. reflexivity.
Qed.

(* ... and these candidates are the configured ones of the calldata event that created it *)
Lemma pstep_configured : forall s ev s1 ds1 d,
  pstep s ev = (s1, ds1) -> In d ds1 ->
  exists c t, ev = EvCalldata c t /\ d_sizes d = cand c (d_name d) (d_array d).
Proof.
  intros s ev s1 ds1 d Hstep Hin. destruct ev as [c t| | |k z|n]; cbn [pstep] in Hstep.
  - unfold create in Hstep. destruct (encode c [] t (p_next s)) as [[e ds] k'] eqn:E.
    inversion Hstep; subst s1 ds1. exists c, t. split; [reflexivity|].
    pose proof (inv_dcand _ _ _ _ _ (encode_inv _ _ _ _ _ _ _ E)) as Hc.
    rewrite Forall_forall in Hc. exact (Hc d Hin).
  - destruct (gen_branch_conc _ _). inversion Hstep; subst. destruct Hin.
  - destruct (gen_extend_conc _ _). inversion Hstep; subst. destruct Hin.
  - inversion Hstep; subst. destruct Hin.
  - inversion Hstep; subst. destruct Hin.
Qed.

Theorem path_configured : forall evs s s' all d,
  prun s evs = (s', all) -> In d all ->
  exists c t, In (EvCalldata c t) evs /\ d_sizes d = cand c (d_name d) (d_array d).
Proof.
  induction evs as [|ev evs IH]; intros s s' all d H Hin; cbn [prun] in H.
  - inversion H; subst. destruct Hin.
  - destruct (pstep s ev) as [s1 ds1] eqn:E1. destruct (prun s1 evs) as [s2 ds2] eqn:E2.
    inversion H; subst s' all. apply in_app_or in Hin. destruct Hin as [Hin|Hin].
    + destruct (pstep_configured _ _ _ _ _ E1 Hin) as (c & t & -> & Hc). exists c, t. split; [left; reflexivity|exact Hc].
    + destruct (IH _ _ _ _ E2 Hin) as (c & t & Hev & Hc). exists c, t. split; [right; exact Hev|exact Hc].
Qed.

(* symbols of different calldata of one path are distinct (the counter only moves forward) *)
Lemma pstep_next_le : forall s ev, (p_next s <= p_next (fst (pstep s ev)))%nat.
Proof.
  intros s ev. destruct ev as [c t| | |k z|n]; cbn [pstep].
  - unfold create. destruct (encode c [] t (p_next s)) as [[e ds] k'] eqn:E. cbn [fst p_next].
    exact (inv_le _ _ _ _ _ (encode_inv _ _ _ _ _ _ _ E)).
  - destruct (gen_branch_conc _ _). cbn. lia.
  - destruct (gen_extend_conc _ _). cbn. lia.
  - cbn. lia.
  - cbn. lia.
Qed.

Theorem path_symbols_distinct : forall evs s,
  NoDup (ids (pitems s evs)) /\ forall i, In i (ids (pitems s evs)) -> (p_next s <= i)%nat.
Proof.
  induction evs as [|ev evs IH]; intros s; cbn [pitems].
  - split; [constructor|intros i []].
  - destruct (IH (fst (pstep s ev))) as [IHn IHr]. pose proof (pstep_next_le s ev) as Hle.
    rewrite ids_app. destruct ev as [c t| | |k z|n]; cbn [app ids flat_map];
      try (split; [exact IHn|intros i Hi; apply IHr in Hi; lia]).
    fold (ids (e_items (fst (fst (create c t (p_next s)))))).
    unfold create in *. cbn [pstep] in *. unfold create in *.
    destruct (encode c [] t (p_next s)) as [[e ds] k'] eqn:E. cbn [fst p_next] in *.
    pose proof (encode_inv _ _ _ _ _ _ _ E) as Hi. split.
    + apply NoDup_app_intro; [exact (inv_nodup _ _ _ _ _ Hi)|exact IHn|].
      intros i H1 H2. apply (inv_ids _ _ _ _ _ Hi) in H1. apply IHr in H2. lia.
    + intros i Hin. apply in_app_or in Hin. destruct Hin as [Hin|Hin].
      * apply (inv_ids _ _ _ _ _ Hi) in Hin. lia.
      * apply IHr in Hin. lia.
Qed.

(* ------------------------------------------------------------------ parse_type: what gets through *)

Lemma parse_str_leaves : forall fuel typ tup t,
  parse_str fuel typ tup = Some t ->
  (forall t0, tup = Some t0 -> Forall (fun s => supported s = true) (leaves t0)) ->
  Forall (fun s => supported s = true) (leaves t).
Proof.
  induction fuel as [|f IH]; intros typ tup t H Ht; cbn [parse_str] in H; [discriminate|].
  destruct (match_array typ) as [[bt al]|].
  - destruct (parse_str f bt tup) as [b|] eqn:E; [|discriminate].
    specialize (IH _ _ _ E Ht). destruct al; inversion H; subst; exact IH.
  - destruct (supported typ) eqn:Es; [|discriminate].
    destruct (str_eqb typ gen_s_tuple).
    + apply Ht. exact H.
    + inversion H; subst. constructor; [exact Es|constructor].
Qed.

Lemma sequence_some : forall {A} (l : list (option A)) xs,
  sequence l = Some xs -> l = map Some xs.
Proof.
  intros A. induction l as [|[x|] l IH]; intros xs H; cbn in H; try discriminate.
  - inversion H. reflexivity.
  - destruct (sequence l) as [ys|] eqn:E; [|discriminate]. inversion H; subst.
    cbn. rewrite (IH _ eq_refl). reflexivity.
Qed.

Section JInd.
  Variable P : jitem -> Prop.
  Hypothesis HJ : forall n tp comps, Forall P comps -> P (JItem n tp comps).
  Fixpoint jitem_ind' (j : jitem) : P j :=
    match j with
    | JItem n tp comps =>
        HJ n tp comps ((fix go (l : list jitem) : Forall P l :=
                          match l with
                          | [] => Forall_nil _
                          | x :: r => Forall_cons x (jitem_ind' x) (go r)
                          end) comps)
    end.
End JInd.

Lemma comps_leaves : forall comps its,
  Forall (fun j => forall t, parse_item j = Some t -> Forall (fun s => supported s = true) (leaves t)) comps ->
  sequence (map (fun cj => option_map (pair (jname cj)) (parse_item cj)) comps) = Some its ->
  Forall (fun s => supported s = true) (flat_map (fun it => leaves (snd it)) its).
Proof.
  induction comps as [|cj comps IH]; intros its Hall H; cbn in H.
  - inversion H. constructor.
  - inversion Hall as [|? ? Hc Hall']; subst.
    destruct (parse_item cj) as [t|] eqn:E; cbn in H; [|discriminate].
    destruct (sequence _) as [r|] eqn:Er; [|discriminate]. inversion H; subst.
    cbn [flat_map snd]. apply Forall_app. split; [apply Hc; reflexivity|apply IH; [exact Hall'|reflexivity]].
Qed.

(* every elementary type that reaches the encoder matched the supported-type pattern:
   anything else made parse_type raise *)
Theorem parse_leaves_supported : forall j t,
  parse_item j = Some t -> Forall (fun s => supported s = true) (leaves t).
Proof.
  induction j as [n tp comps IH] using jitem_ind'. intros t H. cbn [parse_item] in H.
  eapply parse_str_leaves; [exact H|].
  intros t0 Ht0. destruct (sequence _) as [its|] eqn:Es; [|discriminate].
  cbn in Ht0. inversion Ht0; subst. cbn [leaves]. eapply comps_leaves; eassumption.
Qed.

Theorem parse_inputs_supported : forall inputs t,
  parse_inputs inputs = Some t -> Forall (fun s => supported s = true) (leaves t).
Proof.
  intros inputs t H. unfold parse_inputs in H.
  destruct (sequence _) as [its|] eqn:Es; [|discriminate]. cbn in H. inversion H; subst.
  cbn [leaves]. eapply comps_leaves; [|exact Es].
  apply Forall_forall. intros j _ t0. apply parse_leaves_supported.
Qed.

(* what the supported-type pattern means, in terms of the ABI's lexical grammar *)
Lemma strip_prefix_app : forall p s d, strip_prefix p s = Some d -> s = p ++ d.
Proof.
  induction p as [|x p IH]; intros s d H; cbn in H.
  - inversion H. reflexivity.
  - destruct s as [|y s]; [discriminate|]. destruct (Z.eqb_spec x y) as [->|]; [|discriminate].
    cbn. f_equal. apply IH. exact H.
Qed.

Lemma match_word_spec : forall lit digits s, match_word lit digits s = true ->
  exists d, s = lit ++ d /\ (if digits then all_digits d = true else d = []).
Proof.
  intros lit digits s H. unfold match_word in H.
  destruct (strip_prefix lit s) as [d|] eqn:E; [|discriminate].
  apply strip_prefix_app in E. exists d. split; [exact E|].
  destruct digits; [exact H|]. destruct d; [reflexivity|discriminate].
Qed.

Theorem supported_lexical : forall s,
  supported s = true -> strip_nl s <> gen_s_tuple -> lex_elementary (strip_nl s).
Proof.
  intros s H Hnt. unfold supported, gen_supported_alts in H. set (s' := strip_nl s) in *.
  cbn [existsb] in H. unfold match_alt in H.
  apply orb_true_iff in H; destruct H as [H|H].
  { apply orb_true_iff in H. destruct H as [H|H].
    + apply match_word_spec in H. destruct H as (d & -> & Hd).
      right. right. right. exists d. split; [exact Hd|]. right. left. reflexivity.
    + destruct s' as [|c r]; [discriminate|]. destruct (Z.eqb_spec c 117) as [->|Hc].
      * apply match_word_spec in H. destruct H as (d & -> & Hd).
        right. right. right. exists d. split; [exact Hd|]. left. reflexivity.
      * destruct c; try discriminate. repeat (destruct p; try discriminate). exfalso. apply Hc. reflexivity. }
  apply orb_true_iff in H; destruct H as [H|H].
  { rewrite orb_false_r in H. apply match_word_spec in H. destruct H as (d & -> & ->).
    left. rewrite app_nil_r. reflexivity. }
  apply orb_true_iff in H; destruct H as [H|H].
  { rewrite orb_false_r in H. apply match_word_spec in H. destruct H as (d & -> & ->).
    right. left. rewrite app_nil_r. reflexivity. }
  apply orb_true_iff in H; destruct H as [H|H].
  { rewrite orb_false_r in H. apply match_word_spec in H. destruct H as (d & -> & Hd).
    right. right. right. exists d. split; [exact Hd|]. right. right. reflexivity. }
  apply orb_true_iff in H; destruct H as [H|H].
  { rewrite orb_false_r in H. apply match_word_spec in H. destruct H as (d & -> & ->).
    right. right. left. rewrite app_nil_r. reflexivity. }
  apply orb_true_iff in H; destruct H as [H|H]; [|discriminate].
  rewrite orb_false_r in H. apply match_word_spec in H. destruct H as (d & Hs & ->).
  exfalso. apply Hnt. rewrite Hs, app_nil_r. reflexivity.
Qed.

Theorem calldataload_fixed : forall subst cands k z,
  assoc subst k = Some z -> calldataload subst cands (LVar k) = [(None, PConst z)].
Proof. intros subst cands k z H. unfold calldataload, gen_calldataload. rewrite H. reflexivity. Qed.

Theorem calldataload_other : forall subst cands k,
  assoc subst k = None -> assoc cands k = None ->
  calldataload subst cands (LVar k) = [(None, PSame)] /\ calldataload subst cands LOther = [(None, PSame)].
Proof. intros subst cands k H1 H2. unfold calldataload, gen_calldataload. rewrite H1, H2. split; reflexivity. Qed.

Theorem parse_reject : forall inputs t s,
  parse_inputs inputs = Some t -> In s (leaves t) ->
  strip_nl s = gen_s_tuple \/ lex_elementary (strip_nl s).
Proof.
  intros inputs t s H Hin. pose proof (parse_inputs_supported _ _ H) as Hs.
  rewrite Forall_forall in Hs. specialize (Hs _ Hin).
  destruct (str_eqb (strip_nl s) gen_s_tuple) eqn:E.
  - left. apply str_eqb_eq. exact E.
  - right. apply supported_lexical; [exact Hs|]. intros Heq. rewrite Heq, str_eqb_refl in E. discriminate.
Qed.

(* witnesses of the recorded gaps *)
Lemma reject_widths_witness :
  exists s t, parse_inputs [JItem [] s []] = Some t /\ In s (leaves t) /\ classify s = KUnknown.
Proof. exists (codes "uint7"%string). eexists. repeat split; vm_compute; auto. Qed.

Lemma reject_newline_witness :
  exists s t, parse_inputs [JItem [] s []] = Some t /\ In s (leaves t) /\
              strip_nl s = s_bytes /\ is_dyn_base s = false.
Proof. exists (codes "bytes"%string ++ [10]). eexists. repeat split; vm_compute; auto. Qed.

Lemma static_flag_zero_length_witness :
  exists c t, ~ wf_ty t /\
    e_static (fst (fst (encode c [] t 0))) <> negb (is_dyn t).
Proof.
  exists {| c_lengths := []; c_array := [1%nat]; c_bytes := [1%nat] |}, (Fixed (Base s_bytes) 0).
  split; [cbn; intros [H _]; inversion H|vm_compute; discriminate].
Qed.
