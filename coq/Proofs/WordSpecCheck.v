(* Validation of the SPECIFICATION Base/Word.v against a second, independently phrased reading of the
   EVM word instructions (execution-specs style: bit operations, shifts, two's complement by xor).
   Base/Word.v is in the trusted base of C06 ("my reading of the Yellow Paper"); the lemmas here show
   that reading agrees with the bit-level one, for every operand, and that every instruction maps words
   to words.  Nothing here mentions halmos: it narrows what has to be trusted about the spec itself. *)
From Coq Require Import ZArith Bool Lia ZifyBool.
From HV Require Import Base.Word Base.SmtBV.
Open Scope Z_scope.

Local Lemma W_pos : 0 < W. Proof. reflexivity. Qed.
Local Lemma W_val : W = 2 ^ 256. Proof. reflexivity. Qed.
Local Lemma W2_val : W2 = 2 ^ 255. Proof. reflexivity. Qed.
Local Lemma W_W2 : W = 2 * W2. Proof. reflexivity. Qed.

Lemma wrap_in_word x : in_word (wrap x).
Proof. unfold in_word, wrap. apply Z.mod_pos_bound. exact W_pos. Qed.

Lemma b2w_in_word b : in_word (b2w b).
Proof. unfold in_word; rewrite W_val; destruct b; cbn [b2w]; split; try lia; apply Z.pow_pos_nonneg; lia. Qed.

(* -- closure: every binary instruction of the spec maps words to words ------------------------------ *)
Lemma spec_add_closed a b : in_word (evm_add a b).   Proof. apply wrap_in_word. Qed.
Lemma spec_sub_closed a b : in_word (evm_sub a b).   Proof. apply wrap_in_word. Qed.
Lemma spec_mul_closed a b : in_word (evm_mul a b).   Proof. apply wrap_in_word. Qed.
Lemma spec_div_closed a b : in_word a -> in_word b -> in_word (evm_div a b).
Proof.
  unfold in_word, evm_div; intros Ha Hb. pose proof W_pos.
  destruct (b =? 0) eqn:E; [lia|].
  assert (0 < b) by lia. split; [apply Z.div_pos; lia|].
  apply Z.le_lt_trans with a; [|lia]. apply Z.div_le_upper_bound; nia.
Qed.
Lemma spec_mod_closed a b : in_word a -> in_word b -> in_word (evm_mod a b).
Proof.
  unfold in_word, evm_mod; intros Ha Hb. pose proof W_pos.
  destruct (b =? 0) eqn:E; [lia|].
  assert (0 < b) by lia. pose proof (Z.mod_pos_bound a b H0). lia.
Qed.
Lemma spec_sdiv_closed a b : in_word (evm_sdiv a b).
Proof. unfold evm_sdiv. destruct (b =? 0); [|apply wrap_in_word]. unfold in_word; pose proof W_pos; lia. Qed.
Lemma spec_smod_closed a b : in_word (evm_smod a b).
Proof. unfold evm_smod. destruct (b =? 0); [|apply wrap_in_word]. unfold in_word; pose proof W_pos; lia. Qed.
Lemma spec_cmp_closed a b :
  in_word (evm_lt a b) /\ in_word (evm_gt a b) /\ in_word (evm_slt a b) /\ in_word (evm_sgt a b) /\
  in_word (evm_eq a b) /\ in_word (evm_iszero a).
Proof. repeat split; apply b2w_in_word. Qed.
Lemma spec_not_closed a : in_word a -> in_word (evm_not a).
Proof. unfold in_word, evm_not; lia. Qed.
Lemma spec_shl_closed s x : in_word (evm_shl s x).
Proof. unfold evm_shl. destruct (s <? 256); [apply wrap_in_word|]. unfold in_word; pose proof W_pos; lia. Qed.
Lemma spec_shr_closed s x : 0 <= s -> in_word x -> in_word (evm_shr s x).
Proof.
  unfold in_word, evm_shr; intros Hs Hx. pose proof W_pos.
  destruct (s <? 256); [|lia].
  assert (0 < 2 ^ s) by (apply Z.pow_pos_nonneg; lia).
  split; [apply Z.div_pos; lia|].
  apply Z.le_lt_trans with x; [|lia]. apply Z.div_le_upper_bound; nia.
Qed.
Lemma spec_sar_closed s x : in_word (evm_sar s x).
Proof.
  unfold evm_sar. destruct (s <? 256); [apply wrap_in_word|].
  unfold in_word; pose proof W_pos. destruct (to_signed x <? 0); lia.
Qed.

(* -- two's complement: to_signed is the inverse of wrap on the signed range ------------------------- *)
Lemma to_signed_range x : in_word x -> - W2 <= to_signed x < W2.
Proof. unfold in_word, to_signed. rewrite W_W2. intros H. destruct (x <? W2) eqn:E; lia. Qed.
Lemma wrap_to_signed x : in_word x -> wrap (to_signed x) = x.
Proof.
  unfold in_word, to_signed, wrap; intros H. pose proof W_pos.
  destruct (x <? W2).
  - apply Z.mod_small; lia.
  - replace (x - W) with (x + (-1) * W) by lia. rewrite Z.mod_add by lia. apply Z.mod_small; lia.
Qed.
Lemma to_signed_wrap v : - W2 <= v < W2 -> to_signed (wrap v) = v.
Proof.
  unfold to_signed, wrap. rewrite W_W2. intros H. assert (0 < W2) by reflexivity.
  destruct (Z_lt_le_dec v 0) as [Hn|Hp].
  - replace (v mod (2 * W2)) with (v + 2 * W2).
    + destruct (v + 2 * W2 <? W2) eqn:E; lia.
    + symmetry. replace v with ((v + 2 * W2) + (-1) * (2 * W2)) at 1 by lia.
      rewrite Z.mod_add by lia. apply Z.mod_small; lia.
  - rewrite Z.mod_small by lia. destruct (v <? W2) eqn:E; lia.
Qed.

(* -- NOT is xor with the all-ones word (execution-specs: ~x) ---------------------------------------- *)
(* bit-level proof: bit i of (ones 256 - a) is the negation of bit i of a for i < 256, 0 above *)
Lemma spec_not_is_xor_ones a : in_word a -> evm_not a = Z.lxor a (W - 1).
Proof.
  unfold in_word, evm_not; intros H.
  assert (E : W - 1 - a = Z.lnot a mod 2 ^ 256).
  { unfold Z.lnot. rewrite <- W_val. replace (Z.pred (- a)) with ((W - 1 - a) + (-1) * W) by lia.
    pose proof W_pos. rewrite Z.mod_add by lia. symmetry; apply Z.mod_small; lia. }
  rewrite E. replace (W - 1) with (Z.ones 256) by reflexivity.
  apply Z.bits_inj'; intros n Hn.
  rewrite Z.lxor_spec.
  destruct (Z_lt_le_dec n 256) as [Hlt|Hge].
  - rewrite Z.mod_pow2_bits_low by lia. rewrite Z.lnot_spec by lia.
    rewrite Z.ones_spec_low by lia. destruct (Z.testbit a n); reflexivity.
  - rewrite Z.mod_pow2_bits_high by lia. rewrite Z.ones_spec_high by lia.
    rewrite xorb_false_r. symmetry.
    destruct (Z.eq_dec a 0) as [->|Hnz]; [apply Z.bits_0|].
    apply Z.bits_above_log2; [lia|].
    apply Z.lt_le_trans with 256; [|lia]. apply Z.log2_lt_pow2; [lia|]. rewrite <- W_val; lia.
Qed.

(* -- shifts are the machine shifts ---------------------------------------------------------------- *)
Lemma spec_shl_is_shiftl s x : 0 <= s < 256 -> evm_shl s x = wrap (Z.shiftl x s).
Proof. intros H. unfold evm_shl. replace (s <? 256) with true by lia. rewrite Z.shiftl_mul_pow2 by lia. reflexivity. Qed.
Lemma spec_shr_is_shiftr s x : 0 <= s < 256 -> evm_shr s x = Z.shiftr x s.
Proof. intros H. unfold evm_shr. replace (s <? 256) with true by lia. rewrite Z.shiftr_div_pow2 by lia. reflexivity. Qed.
Lemma spec_sar_is_signed_shiftr s x : 0 <= s < 256 -> evm_sar s x = wrap (Z.shiftr (to_signed x) s).
Proof. intros H. unfold evm_sar. replace (s <? 256) with true by lia. rewrite Z.shiftr_div_pow2 by lia. reflexivity. Qed.
(* SAR by 256 or more saturates to the sign: 0 or the all-ones word *)
Lemma spec_sar_saturates s x : 256 <= s -> in_word x ->
  evm_sar s x = if x <? W2 then 0 else W - 1.
Proof.
  intros Hs Hx. unfold evm_sar, to_signed. replace (s <? 256) with false by lia.
  unfold in_word in Hx. destruct (x <? W2) eqn:E.
  - replace (x <? 0) with false by lia. reflexivity.
  - replace (x - W <? 0) with true by lia. reflexivity.
Qed.
(* BYTE i x is a shift and a mask *)
Lemma spec_byte_is_shift_mask i x : 0 <= i < 32 ->
  evm_byte i x = Z.land (Z.shiftr x (8 * (31 - i))) 255.
Proof.
  intros H. unfold evm_byte. replace (i <? 32) with true by lia.
  rewrite Z.shiftr_div_pow2 by lia. replace 255 with (Z.ones 8) by reflexivity.
  rewrite Z.land_ones by lia. reflexivity.
Qed.

(* -- signed division: the one overflowing case, and signs ------------------------------------------- *)
(* SDIV(-2^255, -1) = -2^255 (the quotient 2^255 does not fit and wraps onto the dividend) *)
Lemma spec_sdiv_overflow : evm_sdiv W2 (W - 1) = W2.
Proof. vm_compute. reflexivity. Qed.
(* in every other case the result is the truncated signed quotient, read back as a signed word *)
Lemma spec_sdiv_signed a b : in_word a -> in_word b -> b <> 0 -> ~ (a = W2 /\ b = W - 1) ->
  to_signed (evm_sdiv a b) = Z.quot (to_signed a) (to_signed b).
Proof.
  intros Ha Hb Hnz Hov. unfold evm_sdiv. replace (b =? 0) with false by lia.
  apply to_signed_wrap.
  pose proof (to_signed_range a Ha) as Ra. pose proof (to_signed_range b Hb) as Rb.
  assert (Hb0 : to_signed b <> 0).
  { unfold to_signed. unfold in_word in Hb. destruct (b <? W2); lia. }
  assert (Hcase : ~ (to_signed a = - W2 /\ to_signed b = -1)).
  { intros [E1 E2]. apply Hov. unfold to_signed in E1, E2. unfold in_word in Ha, Hb.
    rewrite W_W2 in *. destruct (a <? W2) eqn:Ea; destruct (b <? 2 * W2 / 2) eqn:Eb;
    destruct (b <? W2) eqn:Eb'; lia. }
  assert (0 < W2) by reflexivity.
  pose proof (Z.quot_abs (to_signed a) (to_signed b) Hb0) as Habs.
  rewrite Z.quot_div_nonneg in Habs by lia.
  assert (Hle : Z.abs (Z.quot (to_signed a) (to_signed b)) <= Z.abs (to_signed a)).
  { rewrite <- Habs. apply Z.div_le_upper_bound; [lia|]. nia. }
  destruct (Z.eq_dec (Z.abs (to_signed b)) 1) as [E1|N1].
  - (* divisor +-1 *)
    assert (to_signed b = 1 \/ to_signed b = -1) as [E|E] by lia; rewrite E.
    + rewrite Z.quot_1_r. lia.
    + replace (-1) with (- (1)) by lia. rewrite Z.quot_opp_r by lia. rewrite Z.quot_1_r. lia.
  - (* |divisor| >= 2: |quotient| <= |a| / 2 < W2 *)
    assert (2 <= Z.abs (to_signed b)) by lia.
    assert (Z.abs (Z.quot (to_signed a) (to_signed b)) <= Z.abs (to_signed a) / 2).
    { rewrite <- Habs. apply Z.div_le_lower_bound; [lia|].
      pose proof (Z.mul_div_le (Z.abs (to_signed a)) (Z.abs (to_signed b))).
      assert (0 <= Z.abs (to_signed a) / Z.abs (to_signed b)) by (apply Z.div_pos; lia). nia. }
    assert (Z.abs (to_signed a) / 2 < W2) by (apply Z.div_lt_upper_bound; lia).
    lia.
Qed.
(* SMOD: the signed remainder, with the sign of the dividend and smaller than the divisor *)
Lemma spec_smod_signed a b : in_word a -> in_word b -> b <> 0 ->
  to_signed (evm_smod a b) = Z.rem (to_signed a) (to_signed b) /\
  Z.abs (to_signed (evm_smod a b)) < Z.abs (to_signed b) /\
  0 <= to_signed (evm_smod a b) * to_signed a.
Proof.
  intros Ha Hb Hnz. unfold evm_smod. replace (b =? 0) with false by lia.
  pose proof (to_signed_range a Ha) as Ra. pose proof (to_signed_range b Hb) as Rb.
  assert (Hb0 : to_signed b <> 0).
  { unfold to_signed. unfold in_word in Hb. destruct (b <? W2); lia. }
  pose proof (Z.rem_bound_abs (to_signed a) (to_signed b) Hb0) as Hbd.
  pose proof (Z.rem_sign_mul (to_signed a) (to_signed b) Hb0) as Hsg.
  rewrite to_signed_wrap by lia. split; [reflexivity|]. split; [exact Hbd|]. exact Hsg.
Qed.

(* -- SIGNEXTEND: bit-level reading ----------------------------------------------------------------
   below the sign position 8(b+1)-1 the bits of x are kept; from there up to bit 255 every bit is the sign bit *)
Lemma spec_signextend_bits b x i : 0 <= b < 31 -> in_word x -> 0 <= i < 256 ->
  Z.testbit (evm_signextend b x) i =
    if i <? 8 * (b + 1) then Z.testbit x i else Z.testbit x (8 * (b + 1) - 1).
Proof.
  intros Hb Hx Hi. unfold evm_signextend. replace (b <? 31) with true by lia. cbv zeta.
  set (n := 8 * (b + 1)). assert (Hn : 8 <= n <= 248) by (unfold n; lia).
  assert (Hpn : 0 < 2 ^ n) by (apply Z.pow_pos_nonneg; lia).
  assert (Hlow : 0 <= x mod 2 ^ n < 2 ^ n) by (apply Z.mod_pos_bound; exact Hpn).
  assert (Hh : 0 < 2 ^ (n - 1)) by (apply Z.pow_pos_nonneg; lia).
  assert (E2 : 2 ^ n = 2 * 2 ^ (n - 1)).
  { replace n with (Z.succ (n - 1)) at 1 by lia. apply Z.pow_succ_r; lia. }
  assert (Hsign : Z.testbit x (n - 1) = negb (x mod 2 ^ n <? 2 ^ (n - 1))).
  { rewrite <- (Z.mod_pow2_bits_low x n (n - 1)) by lia.
    rewrite Z.testbit_eqb by lia.
    destruct (x mod 2 ^ n <? 2 ^ (n - 1)) eqn:E; cbn [negb].
    - rewrite Z.div_small by lia. reflexivity.
    - replace (x mod 2 ^ n / 2 ^ (n - 1)) with 1; [reflexivity|].
      apply Z.div_unique with (x mod 2 ^ n - 2 ^ (n - 1)); lia. }
  destruct (x mod 2 ^ n <? 2 ^ (n - 1)) eqn:E.
  - destruct (i <? n) eqn:Ei.
    + apply Z.mod_pow2_bits_low; lia.
    + rewrite Z.mod_pow2_bits_high by lia. rewrite Hsign. reflexivity.
  - assert (EW : W - 2 ^ n = Z.ones (256 - n) * 2 ^ n).
    { rewrite Z.ones_equiv, W_val. rewrite <- Z.sub_1_r. rewrite Z.mul_sub_distr_r.
      rewrite <- Z.pow_add_r by lia. replace (256 - n + n) with 256 by lia. lia. }
    rewrite EW.
    destruct (i <? n) eqn:Ei.
    + rewrite <- (Z.mod_pow2_bits_low (x mod 2 ^ n + Z.ones (256 - n) * 2 ^ n) n i) by lia.
      rewrite Z.mod_add by lia. rewrite Z.mod_mod by lia.
      apply Z.mod_pow2_bits_low; lia.
    + rewrite Hsign. cbn [negb].
      replace i with ((i - n) + n) by lia.
      rewrite <- Z.div_pow2_bits by lia.
      rewrite Z.div_add by lia. rewrite Z.div_small by lia. rewrite Z.add_0_l.
      apply Z.ones_spec_low; lia.
Qed.

(* b >= 31: identity *)
Lemma spec_signextend_id b x : 31 <= b -> evm_signextend b x = x.
Proof. intros H. unfold evm_signextend. replace (b <? 31) with false by lia. reflexivity. Qed.

Lemma spec_signextend_closed b x : 0 <= b -> in_word x -> in_word (evm_signextend b x).
Proof.
  intros Hb Hx. unfold evm_signextend. destruct (b <? 31) eqn:Eb; [|exact Hx]. cbv zeta.
  set (n := 8 * (b + 1)). assert (Hn : 8 <= n <= 248) by (unfold n; lia).
  assert (Hpn : 0 < 2 ^ n) by (apply Z.pow_pos_nonneg; lia).
  assert (Hlow : 0 <= x mod 2 ^ n < 2 ^ n) by (apply Z.mod_pos_bound; exact Hpn).
  assert (2 ^ n < W). { rewrite W_val. apply Z.pow_lt_mono_r; lia. }
  unfold in_word. destruct (x mod 2 ^ n <? 2 ^ (n - 1)); lia.
Qed.

(* -- the SMT-LIB reading (Base/SmtBV.v): extract and concat are the bit operations -------------------- *)
Lemma smt_extract_is_shift_mask hi lo x : 0 <= lo <= hi ->
  bvextract hi lo x = Z.land (Z.shiftr x lo) (Z.ones (hi - lo + 1)).
Proof.
  intros H. unfold bvextract. rewrite Z.shiftr_div_pow2 by lia. rewrite Z.land_ones by lia. reflexivity.
Qed.
Lemma smt_extract_bits hi lo x i : 0 <= lo <= hi -> 0 <= i ->
  Z.testbit (bvextract hi lo x) i = if i <? hi - lo + 1 then Z.testbit x (i + lo) else false.
Proof.
  intros H Hi. unfold bvextract. destruct (i <? hi - lo + 1) eqn:E.
  - rewrite Z.mod_pow2_bits_low by lia. apply Z.div_pow2_bits; lia.
  - apply Z.mod_pow2_bits_high; lia.
Qed.
Lemma smt_concat_is_lor m x y : 0 <= m -> 0 <= y < 2 ^ m ->
  bvconcat m x y = Z.lor (Z.shiftl x m) y.
Proof.
  intros Hm Hy. unfold bvconcat. rewrite <- Z.shiftl_mul_pow2 by lia.
  assert (D : Z.land (Z.shiftl x m) y = 0).
  { apply Z.bits_inj'; intros n Hn. rewrite Z.land_spec, Z.bits_0.
    destruct (Z_lt_le_dec n m) as [Hl|Hg].
    - rewrite Z.shiftl_spec_low by lia. reflexivity.
    - rewrite <- (Z.mod_small y (2 ^ m)) by lia. rewrite Z.mod_pow2_bits_high by lia.
      apply andb_false_r. }
  rewrite Z.add_nocarry_lxor by exact D. apply Z.lxor_lor. exact D.
Qed.
Lemma smt_concat_bits m x y i : 0 <= m -> 0 <= y < 2 ^ m -> 0 <= i ->
  Z.testbit (bvconcat m x y) i = if i <? m then Z.testbit y i else Z.testbit x (i - m).
Proof.
  intros Hm Hy Hi. rewrite smt_concat_is_lor by assumption. rewrite Z.lor_spec.
  destruct (i <? m) eqn:E.
  - rewrite Z.shiftl_spec_low by lia. reflexivity.
  - rewrite Z.shiftl_spec by lia.
    rewrite <- (Z.mod_small y (2 ^ m)) by lia. rewrite Z.mod_pow2_bits_high by lia.
    apply orb_false_r.
Qed.
(* extract undoes concat: the two halves come back *)
Lemma smt_extract_concat m k x y : 0 < m -> 0 < k -> 0 <= y < 2 ^ m -> 0 <= x < 2 ^ k ->
  bvextract (m - 1) 0 (bvconcat m x y) = y /\ bvextract (m + k - 1) m (bvconcat m x y) = x.
Proof.
  intros Hm Hk Hy Hx. unfold bvextract, bvconcat. assert (0 < 2 ^ m) by (apply Z.pow_pos_nonneg; lia).
  split.
  - rewrite Z.pow_0_r, Z.div_1_r. replace (m - 1 - 0 + 1) with m by lia.
    rewrite Z.add_comm, Z.mod_add by lia. apply Z.mod_small; lia.
  - replace (m + k - 1 - m + 1) with k by lia.
    rewrite Z.add_comm, Z.div_add by lia. rewrite Z.div_small by lia. apply Z.mod_small; lia.
Qed.

(* ((_ sign_extend k) x) for x of width n, bit by bit *)
Lemma smt_sext_bits n k x i : 0 < n -> 0 <= k -> 0 <= x < 2 ^ n -> 0 <= i < n + k ->
  Z.testbit (bvsext n k x) i = if i <? n then Z.testbit x i else Z.testbit x (n - 1).
Proof.
  intros Hn Hk Hx Hi. unfold bvsext, msb.
  assert (Hpn : 0 < 2 ^ n) by (apply Z.pow_pos_nonneg; lia).
  assert (Hh : 0 < 2 ^ (n - 1)) by (apply Z.pow_pos_nonneg; lia).
  assert (E2 : 2 ^ n = 2 * 2 ^ (n - 1)).
  { replace n with (Z.succ (n - 1)) at 1 by lia. apply Z.pow_succ_r; lia. }
  destruct (2 ^ (n - 1) <=? x) eqn:E.
  - assert (Hs : Z.testbit x (n - 1) = true).
    { rewrite Z.testbit_eqb by lia. replace (x / 2 ^ (n - 1)) with 1; [reflexivity|].
      apply Z.div_unique with (x - 2 ^ (n - 1)); lia. }
    assert (EW : 2 ^ (n + k) - 2 ^ n = Z.ones k * 2 ^ n).
    { rewrite Z.ones_equiv. rewrite <- Z.sub_1_r. rewrite Z.mul_sub_distr_r.
      rewrite <- Z.pow_add_r by lia. replace (k + n) with (n + k) by lia. lia. }
    rewrite EW. destruct (i <? n) eqn:Ei.
    + rewrite <- (Z.mod_pow2_bits_low (x + Z.ones k * 2 ^ n) n i) by lia.
      rewrite Z.mod_add by lia. apply Z.mod_pow2_bits_low; lia.
    + rewrite Hs. replace i with ((i - n) + n) by lia.
      rewrite <- Z.div_pow2_bits by lia.
      rewrite Z.div_add by lia. rewrite Z.div_small by lia. rewrite Z.add_0_l.
      apply Z.ones_spec_low; lia.
  - destruct (i <? n) eqn:Ei; [reflexivity|].
    rewrite <- (Z.mod_small x (2 ^ n)) at 1 by lia. rewrite Z.mod_pow2_bits_high by lia.
    rewrite <- (Z.mod_small x (2 ^ (n - 1))) by lia. rewrite Z.mod_pow2_bits_high by lia. reflexivity.
Qed.

(* bvneg is two's complement (bvnot, then add one); bvnot is xor with the all-ones vector; at width 256
   the SMT-LIB reading and the EVM spec agree on NOT and on the signed value of a word *)
Lemma smt_neg_is_not_plus_one n x : 0 <= n -> bvneg n x = bvadd n (bvnot n x) 1.
Proof.
  intros Hn. unfold bvneg, bvadd, bvnot, bvmod.
  assert (0 < 2 ^ n) by (apply Z.pow_pos_nonneg; lia).
  replace (2 ^ n - 1 - x + 1) with (- x + 1 * 2 ^ n) by lia. rewrite Z.mod_add by lia. reflexivity.
Qed.
Lemma smt_not_is_xor_ones n x : 0 <= n -> 0 <= x < 2 ^ n -> bvnot n x = Z.lxor x (Z.ones n).
Proof.
  intros Hn Hx. unfold bvnot.
  assert (Hp : 0 < 2 ^ n) by (apply Z.pow_pos_nonneg; lia).
  assert (E : 2 ^ n - 1 - x = Z.lnot x mod 2 ^ n).
  { unfold Z.lnot. replace (Z.pred (- x)) with ((2 ^ n - 1 - x) + (-1) * 2 ^ n) by lia.
    rewrite Z.mod_add by lia. symmetry; apply Z.mod_small; lia. }
  rewrite E. apply Z.bits_inj'; intros i Hi. rewrite Z.lxor_spec.
  destruct (Z_lt_le_dec i n) as [Hl|Hg].
  - rewrite Z.mod_pow2_bits_low by lia. rewrite Z.lnot_spec by lia.
    rewrite Z.ones_spec_low by lia. destruct (Z.testbit x i); reflexivity.
  - rewrite Z.mod_pow2_bits_high by lia. rewrite Z.ones_spec_high by lia. rewrite xorb_false_r.
    rewrite <- (Z.mod_small x (2 ^ n)) by lia. symmetry. apply Z.mod_pow2_bits_high; lia.
Qed.
Lemma smt_evm_agree_256 x : bvnot 256 x = evm_not x /\ bvsigned 256 x = to_signed x.
Proof. split; reflexivity. Qed.
