(* Proofs about the codecs of Model/ConfigModel.v: integer rendering / parsing, CSV splitting,
   round trips of ParseCSVInt, ParseErrorCodes, ParseCSVTraceEvent, rejection lemmas. *)
From Coq Require Import ZArith List Bool Lia Arith ZifyBool.
From HV Require Import Gen.GenConfig Gen.GenConfigTime Gen.GenConfigMain Spec.ConfigSpec Model.ConfigModel.
Import ListNotations.
Open Scope Z_scope.
Ltac Zify.zify_post_hook ::= Z.to_euclidean_division_equations.

(* ---------------------------------------------------------------- digits *)

Definition ofd (b : Z) (init : Z) (ds : list Z) : Z := fold_left (fun a d => a * b + d) ds init.

Lemma to_digits_fuel_value : forall b fuel n acc,
  2 <= b -> 0 <= n < 2 ^ Z.of_nat fuel ->
  ofd b 0 (to_digits_fuel b fuel n acc) = ofd b n acc.
Proof.
  intros b fuel. induction fuel as [|f IH]; intros n acc Hb Hn.
  - cbn in Hn. assert (n = 0) by lia. subst. reflexivity.
  - cbn [to_digits_fuel]. destruct (n <? b) eqn:Hlt.
    + unfold ofd. cbn [fold_left]. replace (0 * b + n) with n by lia. reflexivity.
    + rewrite IH; [|exact Hb|].
      * unfold ofd. cbn [fold_left]. replace (n / b * b + n mod b) with n; [reflexivity|].
        assert (Hb0 : b <> 0) by lia. pose proof (Z.div_mod n b Hb0). lia.
      * rewrite Nat2Z.inj_succ, Z.pow_succ_r in Hn by lia.
        split; [apply Z.div_pos; lia|]. apply Z.div_lt_upper_bound; [lia|]. nia.
Qed.

Lemma to_digits_fuel_range : forall b fuel n acc,
  2 <= b -> 0 <= n -> Forall (fun d => 0 <= d < b) acc ->
  Forall (fun d => 0 <= d < b) (to_digits_fuel b fuel n acc) \/ False.
Proof.
  intros b fuel. induction fuel as [|f IH]; intros n acc Hb Hn Hacc.
  - left. exact Hacc.
  - cbn [to_digits_fuel]. destruct (n <? b) eqn:Hlt.
    + left. constructor; [lia|exact Hacc].
    + apply IH; [exact Hb| apply Z.div_pos; lia|].
      constructor; [|exact Hacc]. apply Z.mod_pos_bound. lia.
Qed.

Lemma to_digits_fuel_nonempty : forall b fuel n acc,
  (fuel <> O \/ acc <> []) -> to_digits_fuel b fuel n acc <> [].
Proof.
  intros b fuel. induction fuel as [|f IH]; intros n acc H.
  - cbn. destruct H; [contradiction|assumption].
  - cbn [to_digits_fuel]. destruct (n <? b); [discriminate|]. apply IH. right. discriminate.
Qed.

Lemma log2_fuel : forall n, 0 <= n -> n < 2 ^ Z.of_nat (S (Z.to_nat (Z.log2 n))).
Proof.
  intros n Hn. rewrite Nat2Z.inj_succ, Z2Nat.id by apply Z.log2_nonneg.
  destruct (Z.eq_dec n 0) as [->|Hne]; [cbn; lia|].
  apply Z.log2_spec. lia.
Qed.

Lemma to_digits_value : forall b n, 2 <= b -> 0 <= n -> ofd b 0 (to_digits b n) = n.
Proof.
  intros b n Hb Hn. unfold to_digits. rewrite to_digits_fuel_value; [reflexivity|exact Hb|].
  split; [exact Hn | apply log2_fuel; exact Hn].
Qed.

Lemma to_digits_range : forall b n, 2 <= b -> 0 <= n -> Forall (fun d => 0 <= d < b) (to_digits b n).
Proof.
  intros b n Hb Hn. unfold to_digits.
  destruct (to_digits_fuel_range b (S (Z.to_nat (Z.log2 n))) n [] Hb Hn (Forall_nil _)) as [H|[]]. exact H.
Qed.

Lemma to_digits_nonempty : forall b n, to_digits b n <> [].
Proof. intros. unfold to_digits. apply to_digits_fuel_nonempty. left. discriminate. Qed.

(* ---------------------------------------------------------------- digit characters *)

Lemma digit_val_char : forall u d, 0 <= d < 36 -> digit_val (digit_char u d) = Some d.
Proof.
  intros u d Hd. unfold digit_val, digit_char.
  destruct (d <? 10) eqn:H10.
  - replace ((48 <=? 48 + d) && (48 + d <=? 57)) with true by lia. f_equal. lia.
  - destruct u.
    + replace ((48 <=? 55 + d) && (55 + d <=? 57)) with false by lia.
      replace ((97 <=? 55 + d) && (55 + d <=? 122)) with false by lia.
      replace ((65 <=? 55 + d) && (55 + d <=? 90)) with true by lia. f_equal. lia.
    + replace ((48 <=? 87 + d) && (87 + d <=? 57)) with false by lia.
      replace ((97 <=? 87 + d) && (87 + d <=? 122)) with true by lia. f_equal. lia.
Qed.

Lemma digit_char_not_us : forall u d, 0 <= d < 36 -> (digit_char u d =? 95) = false.
Proof. intros u d Hd. unfold digit_char. destruct (d <? 10) eqn:H; destruct u; lia. Qed.

(* a digit string parses to the value of its digits *)
Lemma pdu_digits : forall base u ds acc prev,
  base <= 36 -> Forall (fun d => 0 <= d < base) ds -> (ds <> [] \/ prev = true) ->
  pdu base (map (digit_char u) ds) acc prev = Some (ofd base acc ds).
Proof.
  intros base u ds. induction ds as [|d r IH]; intros acc prev Hb Hr Hne.
  - destruct Hne as [H|H]; [contradiction|subst]. reflexivity.
  - inversion Hr as [|? ? Hd Hr']; subst. cbn [map pdu].
    rewrite digit_char_not_us by lia. rewrite digit_val_char by lia.
    replace (d <? base) with true by lia. rewrite IH; [reflexivity|exact Hb|exact Hr'|right; reflexivity].
Qed.

(* ---------------------------------------------------------------- characters of renderings *)

Definition plain (c : Z) : Prop := is_ws c = false /\ is_ws_num c = false /\ (c =? 44) = false.

Lemma digit_char_plain : forall u d, 0 <= d < 36 -> plain (digit_char u d).
Proof.
  intros u d Hd. unfold plain, digit_char, is_ws, is_ws_num.
  destruct (d <? 10) eqn:H; destruct u; repeat split; lia.
Qed.

Lemma plain_45 : plain 45. Proof. repeat split. Qed.
Lemma plain_48 : plain 48. Proof. repeat split. Qed.
Lemma plain_120 : plain 120. Proof. repeat split. Qed.

Lemma Forall_map_digit_plain : forall u b ds, b <= 36 ->
  Forall (fun d => 0 <= d < b) ds -> Forall plain (map (digit_char u) ds).
Proof.
  intros u b ds Hb H. induction H as [|d r Hd Hr IH]; cbn; constructor; [apply digit_char_plain; lia|exact IH].
Qed.

Lemma str_of_nonneg_plain : forall n, 0 <= n -> Forall plain (str_of_nonneg n).
Proof.
  intros n Hn. unfold str_of_nonneg. apply (Forall_map_digit_plain false 10); [lia|].
  apply to_digits_range; lia.
Qed.

Lemma str_of_Z_plain : forall n, Forall plain (str_of_Z n).
Proof.
  intros n. unfold str_of_Z. destruct (n <? 0) eqn:H.
  - constructor; [apply plain_45 | apply str_of_nonneg_plain; lia].
  - apply str_of_nonneg_plain. lia.
Qed.

Lemma str_of_nonneg_nonempty : forall n, str_of_nonneg n <> [].
Proof.
  intros n. unfold str_of_nonneg. pose proof (to_digits_nonempty 10 n).
  destruct (to_digits 10 n); [contradiction|discriminate].
Qed.

Lemma str_of_Z_nonempty : forall n, str_of_Z n <> [].
Proof.
  intros n. unfold str_of_Z. destruct (n <? 0); [discriminate|apply str_of_nonneg_nonempty].
Qed.

(* ---------------------------------------------------------------- strip *)

Lemma lstrip_noop : forall s, Forall plain s -> lstrip s = s.
Proof. intros s H. destruct H as [|c r [Hc _] _]; [reflexivity|]. cbn. rewrite Hc. reflexivity. Qed.

Lemma lstrip_num_noop : forall s, Forall plain s -> lstrip_num s = s.
Proof. intros s H. destruct H as [|c r [_ [Hc _]] _]; [reflexivity|]. cbn. rewrite Hc. reflexivity. Qed.

Lemma Forall_rev_plain : forall s, Forall plain s -> Forall plain (rev s).
Proof. intros s H. apply Forall_forall. intros x Hx. apply in_rev in Hx. rewrite Forall_forall in H. auto. Qed.

Lemma strip_noop : forall s, Forall plain s -> strip s = s.
Proof.
  intros s H. unfold strip. rewrite (lstrip_noop s H).
  rewrite (lstrip_noop (rev s) (Forall_rev_plain s H)). apply rev_involutive.
Qed.

Lemma strip_num_noop : forall s, Forall plain s -> strip_num s = s.
Proof.
  intros s H. unfold strip_num. rewrite (lstrip_num_noop s H).
  rewrite (lstrip_num_noop (rev s) (Forall_rev_plain s H)). apply rev_involutive.
Qed.

(* ---------------------------------------------------------------- int(str(n)) = n *)

Lemma py_int10_str_nonneg : forall n, 0 <= n ->
  pdu 10 (str_of_nonneg n) 0 false = Some n.
Proof.
  intros n Hn. unfold str_of_nonneg. rewrite pdu_digits.
  - rewrite to_digits_value by lia. reflexivity.
  - lia.
  - apply to_digits_range; lia.
  - left. apply to_digits_nonempty.
Qed.

Lemma head_digit : forall n, 0 <= n -> exists c r, str_of_nonneg n = c :: r /\ 48 <= c <= 57.
Proof.
  intros n Hn. unfold str_of_nonneg.
  pose proof (to_digits_nonempty 10 n) as Hne. pose proof (to_digits_range 10 n ltac:(lia) Hn) as Hr.
  destruct (to_digits 10 n) as [|d r]; [contradiction|]. inversion Hr; subst.
  exists (digit_char false d), (map (digit_char false) r). split; [reflexivity|].
  unfold digit_char. replace (d <? 10) with true by lia. lia.
Qed.

Lemma py_int10_str : forall n, py_int10 (str_of_Z n) = Some n.
Proof.
  intros n. unfold py_int10. rewrite strip_num_noop by apply str_of_Z_plain.
  unfold str_of_Z. destruct (n <? 0) eqn:Hneg.
  - cbn [with_sign]. replace (45 =? 43) with false by reflexivity. replace (45 =? 45) with true by reflexivity.
    rewrite py_int10_str_nonneg by lia. cbn. f_equal. lia.
  - destruct (head_digit n ltac:(lia)) as (c & r & Heq & Hc).
    pose proof (py_int10_str_nonneg n ltac:(lia)) as Hp. rewrite Heq in *.
    cbn [with_sign]. replace (c =? 43) with false by lia. replace (c =? 45) with false by lia. exact Hp.
Qed.

(* ---------------------------------------------------------------- split / join *)

Definition no_sep (sep : Z) (s : list Z) : Prop := Forall (fun c => (c =? sep) = false) s.

Lemma split_nosep : forall sep s, no_sep sep s -> split sep s = [s].
Proof.
  intros sep s H. induction H as [|c r Hc Hr IH]; [reflexivity|].
  cbn [split]. rewrite Hc, IH. reflexivity.
Qed.

Lemma split_app : forall sep a b, no_sep sep a -> split sep (a ++ sep :: b) = a :: split sep b.
Proof.
  intros sep a b H. induction H as [|c r Hc Hr IH].
  - cbn. rewrite Z.eqb_refl. reflexivity.
  - cbn [app split]. rewrite Hc, IH. reflexivity.
Qed.

Lemma split_join : forall sep items, items <> [] -> Forall (no_sep sep) items ->
  split sep (join [sep] items) = items.
Proof.
  intros sep items. induction items as [|x r IH]; intros Hne H; [contradiction|].
  inversion H as [|? ? Hx Hr]; subst. destruct r as [|y r'].
  - cbn [join]. apply split_nosep. exact Hx.
  - change (join [sep] (x :: y :: r')) with (x ++ sep :: join [sep] (y :: r')).
    rewrite split_app by exact Hx. f_equal. apply IH; [discriminate|exact Hr].
Qed.

Lemma plain_no_comma : forall s, Forall plain s -> no_sep 44 s.
Proof. intros s H. induction H as [|c r [_ [_ Hc]] _ IH]; constructor; assumption. Qed.

(* parse_csv of a join of plain non-empty items gives the items back *)
Lemma parse_csv_join : forall items,
  items <> [] -> Forall (fun x => Forall plain x /\ x <> []) items ->
  parse_csv [44] (join [44] items) = items.
Proof.
  intros items Hne H. unfold parse_csv. cbn [sep_char].
  rewrite split_join; [|exact Hne|].
  - clear Hne. induction H as [|x r [Hp Hx] Hr IH]; [reflexivity|].
    cbn [map filter]. rewrite strip_noop by exact Hp.
    destruct x; [contradiction|]. cbn [nonempty]. f_equal. exact IH.
  - eapply Forall_impl; [|exact H]. intros x [Hp _]. apply plain_no_comma. exact Hp.
Qed.

Lemma map_opt_map : forall {A B} (f : A -> option B) (g : B -> A) l,
  (forall x, f (g x) = Some x) -> map_opt f (map g l) = Some l.
Proof.
  intros A B f g l H. induction l as [|x r IH]; [reflexivity|]. cbn. rewrite H, IH. reflexivity.
Qed.

Lemma map_opt_map_on : forall {A B} (f : A -> option B) (g : B -> A) (P : B -> Prop) l,
  (forall x, P x -> f (g x) = Some x) -> Forall P l -> map_opt f (map g l) = Some l.
Proof.
  intros A B f g P l H HP. induction HP as [|x r Hx Hr IH]; [reflexivity|]. cbn. rewrite (H x Hx), IH. reflexivity.
Qed.

Lemma map_opt_none : forall {A B} (f : A -> option B) l x, In x l -> f x = None -> map_opt f l = None.
Proof.
  intros A B f l x Hin Hx. induction l as [|y r IH]; [destruct Hin|].
  cbn. destruct Hin as [->|Hin]; [rewrite Hx; reflexivity|].
  rewrite (IH Hin). destruct (f y); reflexivity.
Qed.

Lemma map_opt_some_all : forall {A B} (f : A -> option B) l l', map_opt f l = Some l' ->
  Forall2 (fun x y => f x = Some y) l l'.
Proof.
  intros A B f l. induction l as [|x r IH]; intros l' H; cbn in H.
  - inversion H. constructor.
  - destruct (f x) eqn:Hx; [|discriminate]. destruct (map_opt f r) eqn:Hr; [|discriminate].
    inversion H; subst. constructor; [exact Hx|apply IH; reflexivity].
Qed.

(* ---------------------------------------------------------------- ParseCSVInt *)

Lemma csv_literals : csv_sep = [44] /\ csvint_join = [44] /\ errcodes_join = [44] /\ trace_join = [44].
Proof. repeat split. Qed.

Lemma csvint_roundtrip : forall l, l <> [] -> csvint_parse (csvint_unparse l) = Some l.
Proof.
  intros l Hne. unfold csvint_parse, csvint_unparse.
  destruct csv_literals as (-> & -> & _ & _).
  rewrite parse_csv_join.
  - rewrite map_opt_map by apply py_int10_str. destruct l; [contradiction|reflexivity].
  - destruct l; [contradiction|discriminate].
  - apply Forall_forall. intros x Hx. apply in_map_iff in Hx. destruct Hx as (n & <- & _).
    split; [apply str_of_Z_plain | apply str_of_Z_nonempty].
Qed.

(* malformed => rejected: an empty list of items, or any item that is not an integer literal *)
Lemma csvint_rejects_empty : forall s, parse_csv csv_sep s = [] -> csvint_parse s = None.
Proof. intros s H. unfold csvint_parse. rewrite H. reflexivity. Qed.

Lemma csvint_rejects_bad_item : forall s x,
  In x (parse_csv csv_sep s) -> py_int10 x = None -> csvint_parse s = None.
Proof. intros s x Hin Hx. unfold csvint_parse. rewrite (map_opt_none _ _ x Hin Hx). reflexivity. Qed.

(* accepted => every item is an integer literal with exactly that value (nothing is defaulted) *)
Lemma csvint_accepts_only : forall s l, csvint_parse s = Some l ->
  l <> [] /\ Forall2 (fun x v => py_int10 x = Some v) (parse_csv csv_sep s) l.
Proof.
  intros s l H. unfold csvint_parse in H.
  destruct (map_opt py_int10 (parse_csv csv_sep s)) as [l0|] eqn:Hm; [|discriminate].
  destruct l0; cbn in H; [discriminate|]. inversion H; subst.
  split; [discriminate|]. apply map_opt_some_all. exact Hm.
Qed.

(* ---------------------------------------------------------------- ParseErrorCodes *)

Lemma ofd_zeros : forall b k ds, ofd b 0 (repeat 0 k ++ ds) = ofd b 0 ds.
Proof. intros b k ds. induction k as [|k IH]; [reflexivity|]. cbn [repeat app]. unfold ofd in *. cbn. exact IH. Qed.

Lemma zero_pad_digits : forall u w ds,
  zero_pad w (map (digit_char u) ds) = map (digit_char u) (repeat 0 (Z.to_nat w - length ds) ++ ds).
Proof.
  intros u w ds. unfold zero_pad. rewrite map_length, map_app. f_equal.
  induction (Z.to_nat w - length ds)%nat as [|k IH]; [reflexivity|]. cbn. f_equal. exact IH.
Qed.

(* "0x" followed by the zero-padded hex digits of v reads back as v (int(x, 0) after the sign) *)
Lemma hex_unsigned_parses : forall w u v, 0 <= v ->
  py_int0_unsigned ([48; 120] ++ fmt_hex w u v) = Some v.
Proof.
  intros w u v Hv. unfold fmt_hex. replace (v <? 0) with false by lia.
  rewrite zero_pad_digits.
  set (ds := (repeat 0 (Z.to_nat w - length (to_digits 16 v)) ++ to_digits 16 v)).
  assert (Hr : Forall (fun d => 0 <= d < 16) ds).
  { apply Forall_app. split; [apply Forall_forall; intros x Hx; apply repeat_spec in Hx; lia|apply to_digits_range; lia]. }
  assert (Hne : ds <> []).
  { unfold ds. pose proof (to_digits_nonempty 16 v). destruct (repeat 0 _); cbn; [assumption|discriminate]. }
  cbn [app py_int0_unsigned]. replace (negb (48 =? 48)) with false by reflexivity.
  replace ((120 =? 120) || (120 =? 88)) with true by reflexivity.
  unfold prefixed. destruct ds as [|d r] eqn:Hds; [contradiction|]. cbn [map].
  inversion Hr; subst. rewrite digit_char_not_us by lia.
  change (digit_char u d :: map (digit_char u) r) with (map (digit_char u) (d :: r)).
  rewrite pdu_digits; [|lia|constructor; assumption|left; discriminate].
  f_equal. rewrite <- Hds. unfold ds. rewrite ofd_zeros. apply to_digits_value; lia.
Qed.

Lemma hex_plain : forall w u v, 0 <= v -> Forall plain ([48; 120] ++ fmt_hex w u v).
Proof.
  intros w u v Hv. unfold fmt_hex. replace (v <? 0) with false by lia. rewrite zero_pad_digits.
  cbn [app]. constructor; [apply plain_48|]. constructor; [apply plain_120|].
  apply (Forall_map_digit_plain u 16); [lia|].
  apply Forall_app. split; [apply Forall_forall; intros x Hx; apply repeat_spec in Hx; lia|apply to_digits_range; lia].
Qed.

(* every code, of either sign, is rendered as a literal that int(x, 0) reads back *)
Lemma errcode_item_parses : forall v, py_int errcodes_int_base (errcodes_item v) = Some v.
Proof.
  intros v. unfold errcodes_int_base, py_int. cbn [Z.eqb]. unfold py_int0, errcodes_item, errcodes_neg_bound.
  destruct (v <? 0) eqn:Hneg.
  - unfold errcodes_neg_prefix, errcodes_neg_width.
    change ([45; 48; 120] ++ fmt_hex 2 errcodes_neg_upper (- v)) with (45 :: ([48; 120] ++ fmt_hex 2 errcodes_neg_upper (- v))).
    rewrite strip_num_noop by (constructor; [apply plain_45|apply hex_plain; lia]).
    cbn [with_sign]. replace (45 =? 43) with false by reflexivity. replace (45 =? 45) with true by reflexivity.
    rewrite hex_unsigned_parses by lia. cbn. f_equal. lia.
  - unfold errcodes_fmt_prefix, errcodes_fmt_width.
    rewrite strip_num_noop by (apply hex_plain; lia).
    change ([48; 120] ++ fmt_hex 2 errcodes_fmt_upper v) with (48 :: ([120] ++ fmt_hex 2 errcodes_fmt_upper v)).
    cbn [with_sign]. replace (48 =? 43) with false by reflexivity. replace (48 =? 45) with false by reflexivity.
    change (48 :: ([120] ++ fmt_hex 2 errcodes_fmt_upper v)) with ([48; 120] ++ fmt_hex 2 errcodes_fmt_upper v).
    apply hex_unsigned_parses. lia.
Qed.

(* ... is made of plain characters and does not start like the "any code" literal *)
Lemma errcode_item_plain : forall v,
  Forall plain (errcodes_item v) /\ exists c r, errcodes_item v = c :: r /\ (c =? 42) = false.
Proof.
  intros v. unfold errcodes_item, errcodes_neg_bound. destruct (v <? 0) eqn:Hneg.
  - unfold errcodes_neg_prefix, errcodes_neg_width.
    change ([45; 48; 120] ++ fmt_hex 2 errcodes_neg_upper (- v)) with (45 :: ([48; 120] ++ fmt_hex 2 errcodes_neg_upper (- v))).
    split; [constructor; [apply plain_45|apply hex_plain; lia]|]. eexists _, _. split; reflexivity.
  - unfold errcodes_fmt_prefix, errcodes_fmt_width. split; [apply hex_plain; lia|].
    eexists 48, _. split; reflexivity.
Qed.

Lemma list_eqb_head_ne : forall c r d, (c =? d) = false -> list_eqb (c :: r) [d] = false.
Proof. intros c r d H. cbn. rewrite H. reflexivity. Qed.

Lemma lstrip_nows : forall s, Forall (fun c => is_ws c = false) s -> lstrip s = s.
Proof. intros s H. destruct H as [|c r Hc _]; [reflexivity|]. cbn. rewrite Hc. reflexivity. Qed.

Lemma strip_nows : forall s, Forall (fun c => is_ws c = false) s -> strip s = s.
Proof.
  intros s H. unfold strip. rewrite (lstrip_nows s H).
  rewrite lstrip_nows; [apply rev_involutive|].
  apply Forall_forall. intros x Hx. apply in_rev in Hx. rewrite Forall_forall in H. auto.
Qed.

Lemma join_nows : forall items, Forall (fun x => Forall plain x /\ x <> []) items ->
  Forall (fun c => is_ws c = false) (join [44] items).
Proof.
  intros items H. induction H as [|x r [Hp _] Hr IH]; [constructor|].
  assert (Hx : Forall (fun c => is_ws c = false) x).
  { eapply Forall_impl; [|exact Hp]. intros c [Hc _]. exact Hc. }
  destruct r as [|y r']; [exact Hx|].
  change (join [44] (x :: y :: r')) with (x ++ 44 :: join [44] (y :: r')).
  apply Forall_app. split; [exact Hx|]. constructor; [reflexivity|exact IH].
Qed.

Lemma join_head : forall sep c x r, exists t, join sep ((c :: x) :: r) = c :: t.
Proof. intros sep c x r. destruct r; cbn; eexists; reflexivity. Qed.

Lemma errcodes_roundtrip : forall l, errcodes_parse (errcodes_unparse l) = Some l.
Proof.
  intros l. destruct l as [|v0 r0]; [reflexivity|].
  change (errcodes_unparse (v0 :: r0)) with (join errcodes_join (map errcodes_item (v0 :: r0))).
  assert (Hit : Forall (fun x => Forall plain x /\ x <> []) (map errcodes_item (v0 :: r0))).
  { apply Forall_forall. intros x Hx. apply in_map_iff in Hx. destruct Hx as (v & <- & Hin).
    destruct (errcode_item_plain v) as [Hp (c & r & Hr & _)].
    split; [exact Hp|]. rewrite Hr. discriminate. }
  destruct csv_literals as (Hsep & _ & Hj & _). unfold errcodes_parse. rewrite Hj, Hsep.
  rewrite strip_nows by (apply join_nows; exact Hit).
  assert (Hstar : list_eqb (join [44] (map errcodes_item (v0 :: r0))) errcodes_any = false).
  { destruct (errcode_item_plain v0) as [_ (c & r & Hr & Hc)].
    cbn [map]. rewrite Hr. destruct (join_head [44] c r (map errcodes_item r0)) as (t & ->).
    unfold errcodes_any. cbn [list_eqb]. rewrite Hc. reflexivity. }
  rewrite Hstar. rewrite parse_csv_join; [|discriminate|exact Hit].
  rewrite (map_opt_map _ errcodes_item); [reflexivity|].
  intros v. apply errcode_item_parses.
Qed.

Lemma errcodes_rejects_bad_item : forall s x,
  list_eqb (strip s) errcodes_any = false ->
  In x (parse_csv csv_sep (strip s)) -> py_int errcodes_int_base x = None -> errcodes_parse s = None.
Proof.
  intros s x Hs Hin Hx. unfold errcodes_parse. rewrite Hs. rewrite (map_opt_none _ _ x Hin Hx). reflexivity.
Qed.

Lemma errcodes_rejects_empty : forall s,
  list_eqb (strip s) errcodes_any = false -> parse_csv csv_sep (strip s) = [] -> errcodes_parse s = None.
Proof. intros s Hs H. unfold errcodes_parse. rewrite Hs, H. reflexivity. Qed.

(* ---------------------------------------------------------------- ParseCSVTraceEvent *)

Lemma trace_names_plain : Forall (fun x => Forall plain x /\ x <> []) trace_event_names.
Proof. repeat constructor; discriminate. Qed.

Lemma trace_index_nth : forall i, 0 <= i < Z.of_nat (length trace_event_names) ->
  index_of trace_event_names (nth (Z.to_nat i) trace_event_names []) 0 = Some i.
Proof.
  intros i Hi. unfold trace_event_names in *. cbn [length] in Hi.
  assert (i = 0 \/ i = 1 \/ i = 2) as [ Hi0 | [ Hi0 | Hi0 ] ] by lia; subst i; reflexivity.
Qed.

Lemma trace_roundtrip : forall l,
  Forall (fun i => 0 <= i < Z.of_nat (length trace_event_names)) l ->
  trace_parse (trace_unparse l) = Some l.
Proof.
  intros l Hl. unfold trace_parse, trace_unparse.
  destruct csv_literals as (Hsep & _ & _ & Hj). rewrite Hj, Hsep.
  destruct l as [|i0 r0]; [reflexivity|].
  set (g := fun i => nth (Z.to_nat i) trace_event_names []).
  rewrite parse_csv_join; [|discriminate|].
  - apply (map_opt_map_on _ g (fun i => 0 <= i < Z.of_nat (length trace_event_names))); [|exact Hl].
    intros i Hi. apply trace_index_nth. exact Hi.
  - apply Forall_forall. intros x Hx. apply in_map_iff in Hx. destruct Hx as (i & <- & Hin).
    rewrite Forall_forall in Hl. specialize (Hl i Hin).
    pose proof trace_names_plain as Hp. rewrite Forall_forall in Hp. apply Hp.
    unfold g. apply nth_In. lia.
Qed.

Lemma trace_rejects_bad_item : forall s x,
  In x (parse_csv csv_sep s) -> index_of trace_event_names x 0 = None -> trace_parse s = None.
Proof. intros s x Hin Hx. unfold trace_parse. apply (map_opt_none _ _ x Hin Hx). Qed.

(* ---------------------------------------------------------------- string lemmas used by Proofs/ConfigTimeoutProofs.v *)

Lemma list_eqb_refl : forall a, list_eqb a a = true.
Proof. induction a as [|x r IH]; [reflexivity|]. cbn. rewrite Z.eqb_refl, IH. reflexivity. Qed.

Lemma endswith_app : forall a suf, endswith (a ++ suf) suf = true.
Proof.
  intros a suf. unfold endswith. rewrite app_length.
  replace (length a + length suf - length suf)%nat with (length a) by lia.
  rewrite skipn_app, skipn_all, Nat.sub_diag. cbn [skipn app]. rewrite list_eqb_refl.
  replace (length suf <=? length a + length suf)%nat with true; [reflexivity|].
  symmetry. apply Nat.leb_le. lia.
Qed.

Lemma endswith_2_false : forall a c d p q, (c =? p) = false -> endswith (a ++ [c; d]) [p; q] = false.
Proof.
  intros a c d p q H. unfold endswith. rewrite app_length. cbn [length].
  replace (length a + 2 - 2)%nat with (length a) by lia.
  rewrite skipn_app, skipn_all, Nat.sub_diag. cbn [skipn app list_eqb]. rewrite H.
  cbn [andb]. apply andb_false_r.
Qed.

Lemma firstn_strip_suffix : forall (a suf : list Z) k, k = length suf ->
  firstn (length (a ++ suf) - k) (a ++ suf) = a.
Proof.
  intros a suf k ->. rewrite app_length.
  replace (length a + length suf - length suf)%nat with (length a) by lia.
  rewrite firstn_app, Nat.sub_diag, firstn_all. cbn [firstn]. apply app_nil_r.
Qed.

Lemma span_not_absent : forall c0 s, Forall (fun c => (c =? c0) = false) s -> span_not c0 s = (s, []).
Proof.
  intros c0 s H. induction H as [|c r Hc Hr IH]; [reflexivity|]. cbn [span_not]. rewrite Hc, IH. reflexivity.
Qed.

Lemma str_of_nonneg_digits : forall n, 0 <= n -> Forall (fun c => 48 <= c <= 57) (str_of_nonneg n).
Proof.
  intros n Hn. unfold str_of_nonneg. pose proof (to_digits_range 10 n ltac:(lia) Hn) as Hr.
  induction Hr as [|d r Hd Hr IH]; cbn; constructor; [|exact IH].
  unfold digit_char. replace (d <? 10) with true by lia. lia.
Qed.

Lemma last_digit : forall n, 0 <= n -> exists a c, str_of_nonneg n = a ++ [c] /\ 48 <= c <= 57.
Proof.
  intros n Hn. pose proof (str_of_nonneg_nonempty n) as Hne. pose proof (str_of_nonneg_digits n Hn) as Hd.
  destruct (exists_last Hne) as (a & c & Heq). exists a, c. split; [exact Heq|].
  rewrite Heq in Hd. apply Forall_app in Hd. destruct Hd as [_ Hd]. inversion Hd; subst. assumption.
Qed.

Lemma timeout_default_unit_ok :
  nonempty timeout_default_unit && negb (mem_str timeout_default_unit time_allowed_default_units) = false.
Proof. reflexivity. Qed.

Lemma csvint_rejects : forall s,
  (parse_csv csv_sep s = [] \/ exists x, In x (parse_csv csv_sep s) /\ py_int10 x = None) ->
  csvint_parse s = None.
Proof.
  intros s [H|(x & Hin & Hx)]; [apply csvint_rejects_empty; exact H | apply (csvint_rejects_bad_item s x Hin Hx)].
Qed.

Lemma errcodes_rejects : forall s,
  list_eqb (strip s) errcodes_any = false ->
  (parse_csv csv_sep (strip s) = [] \/
   exists x, In x (parse_csv csv_sep (strip s)) /\ py_int errcodes_int_base x = None) ->
  errcodes_parse s = None.
Proof.
  intros s Hs [H|(x & Hin & Hx)];
    [apply errcodes_rejects_empty; assumption | apply (errcodes_rejects_bad_item s x Hs Hin Hx)].
Qed.

(* ---------------------------------------------------------------- ParseArrayLengths: pinned regexes *)

Lemma arrlen_regexes_pinned :
  arrlen_check_re = [94; 40; 91; 94; 61; 44; 92; 123; 92; 125; 93; 43; 61; 40; 92; 123; 91; 92; 100; 44; 93; 43; 92; 125; 124; 92; 100; 43; 41; 40; 44; 124; 36; 41; 41; 42; 36]
  /\ arrlen_find_re = [40; 91; 94; 61; 44; 92; 123; 92; 125; 93; 43; 41; 61; 40; 63; 58; 92; 123; 40; 91; 92; 100; 44; 93; 43; 41; 92; 125; 124; 40; 92; 100; 43; 41; 41]
  /\ arrlen_ws_join = [] /\ arrlen_join = [44] /\ arrlen_item_open = [61; 123] /\ arrlen_item_close = [125]
  /\ arrlen_sizes_join = [44].
Proof. repeat split. Qed.
