(* Proofs for C11: refinement bodies are the exact EVM operations (all widths), refine
   touches only matching f_evm_ declarations, the named-assertion encoding is
   equisatisfiable, and the query of a path asserts exactly the path's constraints. *)
From Coq Require Import ZArith List String Ascii Bool Lia.
From HV Require Import Base.Word Base.SmtBV Model.SexpDefs Gen.GenRefine
  Spec.SmtQuerySpec Model.SmtTextModel.
Import ListNotations.
Open Scope Z_scope.

(* ================================================================== arithmetic *)
Lemma pow2_split : forall N, 0 < N -> 2 ^ N = 2 * 2 ^ (N - 1) /\ 0 < 2 ^ (N - 1).
Proof.
  intros N HN. split.
  - replace N with (1 + (N - 1)) at 1 by lia. rewrite Z.pow_add_r by lia. reflexivity.
  - apply Z.pow_pos_nonneg; lia.
Qed.

Lemma neg_mod : forall P x, 0 < x < P -> (- x) mod P = P - x.
Proof.
  intros P x Hx. symmetry. apply (Z.mod_unique_pos _ _ (-1)); lia.
Qed.

Lemma div_le_self : forall a b, 0 <= a -> 0 < b -> 0 <= a / b <= a.
Proof.
  intros a b Ha Hb. split.
  - apply Z.div_pos; lia.
  - destruct (Z.eq_dec a 0) as [->|Hne]; [rewrite Z.div_0_l; lia|].
    destruct (Z.eq_dec b 1) as [->|Hb1]; [rewrite Z.div_1_r; lia|].
    assert (a / b < a) by (apply Z.div_lt; lia). lia.
Qed.

Lemma mul_exact : forall N x y, bvmul N x y = exact_mul N x y.
Proof. reflexivity. Qed.

Lemma udiv_exact : forall N x y,
  (if y =? 0 then 0 else bvudiv N x y) = exact_div N x y.
Proof. intros. unfold bvudiv, exact_div. destruct (y =? 0); reflexivity. Qed.

Lemma urem_exact : forall N x y,
  (if y =? 0 then 0 else bvurem N x y) = exact_mod N x y.
Proof. intros. unfold bvurem, exact_mod. destruct (y =? 0); reflexivity. Qed.

Lemma sdiv_exact : forall N x y, 0 < N -> 0 <= x < 2 ^ N -> 0 <= y < 2 ^ N ->
  (if y =? 0 then 0 else bvsdiv N x y) = exact_sdiv N x y.
Proof.
  intros N x y HN Hx Hy. unfold exact_sdiv.
  destruct (y =? 0) eqn:Hy0; [reflexivity|]. apply Z.eqb_neq in Hy0.
  destruct (pow2_split N HN) as [HP HH].
  unfold bvsdiv, msb, signedN, bvneg, bvmod, bvudiv.
  set (P := 2 ^ N) in *. set (H := 2 ^ (N - 1)) in *.
  destruct (H <=? x) eqn:Hmx; destruct (H <=? y) eqn:Hmy;
    [apply Z.leb_le in Hmx | apply Z.leb_le in Hmx | apply Z.leb_gt in Hmx | apply Z.leb_gt in Hmx];
    [apply Z.leb_le in Hmy | apply Z.leb_gt in Hmy | apply Z.leb_le in Hmy | apply Z.leb_gt in Hmy].
  - (* both negative *)
    destruct (x <? H) eqn:E1; [apply Z.ltb_lt in E1; lia|].
    destruct (y <? H) eqn:E2; [apply Z.ltb_lt in E2; lia|].
    rewrite (neg_mod P x) by lia. rewrite (neg_mod P y) by lia.
    destruct (P - y =? 0) eqn:E3; [apply Z.eqb_eq in E3; lia|].
    replace (x - P) with (- (P - x)) by lia. replace (y - P) with (- (P - y)) by lia.
    rewrite Z.quot_opp_opp by lia. rewrite Z.quot_div_nonneg by lia.
    symmetry. apply Z.mod_small.
    pose proof (div_le_self (P - x) (P - y)). lia.
  - (* x negative, y positive *)
    destruct (x <? H) eqn:E1; [apply Z.ltb_lt in E1; lia|].
    destruct (y <? H) eqn:E2; [|apply Z.ltb_ge in E2; lia].
    rewrite (neg_mod P x) by lia.
    destruct (y =? 0) eqn:E3; [apply Z.eqb_eq in E3; lia|].
    replace (x - P) with (- (P - x)) by lia.
    rewrite Z.quot_opp_l by lia. rewrite Z.quot_div_nonneg by lia. reflexivity.
  - (* x positive, y negative *)
    destruct (x <? H) eqn:E1; [|apply Z.ltb_ge in E1; lia].
    destruct (y <? H) eqn:E2; [apply Z.ltb_lt in E2; lia|].
    rewrite (neg_mod P y) by lia.
    destruct (P - y =? 0) eqn:E3; [apply Z.eqb_eq in E3; lia|].
    replace (y - P) with (- (P - y)) by lia.
    rewrite Z.quot_opp_r by lia. rewrite Z.quot_div_nonneg by lia. reflexivity.
  - (* both positive *)
    destruct (x <? H) eqn:E1; [|apply Z.ltb_ge in E1; lia].
    destruct (y <? H) eqn:E2; [|apply Z.ltb_ge in E2; lia].
    destruct (y =? 0) eqn:E3; [apply Z.eqb_eq in E3; lia|].
    rewrite Z.quot_div_nonneg by lia.
    symmetry. apply Z.mod_small. pose proof (div_le_self x y). lia.
Qed.

Lemma srem_exact : forall N x y, 0 < N -> 0 <= x < 2 ^ N -> 0 <= y < 2 ^ N ->
  (if y =? 0 then 0 else bvsrem N x y) = exact_smod N x y.
Proof.
  intros N x y HN Hx Hy. unfold exact_smod.
  destruct (y =? 0) eqn:Hy0; [reflexivity|]. apply Z.eqb_neq in Hy0.
  destruct (pow2_split N HN) as [HP HH].
  unfold bvsrem, msb, signedN, bvneg, bvmod, bvurem.
  set (P := 2 ^ N) in *. set (H := 2 ^ (N - 1)) in *.
  destruct (H <=? x) eqn:Hmx; destruct (H <=? y) eqn:Hmy;
    [apply Z.leb_le in Hmx | apply Z.leb_le in Hmx | apply Z.leb_gt in Hmx | apply Z.leb_gt in Hmx];
    [apply Z.leb_le in Hmy | apply Z.leb_gt in Hmy | apply Z.leb_le in Hmy | apply Z.leb_gt in Hmy].
  - destruct (x <? H) eqn:E1; [apply Z.ltb_lt in E1; lia|].
    destruct (y <? H) eqn:E2; [apply Z.ltb_lt in E2; lia|].
    rewrite (neg_mod P x) by lia. rewrite (neg_mod P y) by lia.
    destruct (P - y =? 0) eqn:E3; [apply Z.eqb_eq in E3; lia|].
    replace (x - P) with (- (P - x)) by lia. replace (y - P) with (- (P - y)) by lia.
    rewrite Z.rem_opp_opp by lia. rewrite Z.rem_mod_nonneg by lia. reflexivity.
  - destruct (x <? H) eqn:E1; [apply Z.ltb_lt in E1; lia|].
    destruct (y <? H) eqn:E2; [|apply Z.ltb_ge in E2; lia].
    rewrite (neg_mod P x) by lia.
    destruct (y =? 0) eqn:E3; [apply Z.eqb_eq in E3; lia|].
    replace (x - P) with (- (P - x)) by lia.
    rewrite Z.rem_opp_l by lia. rewrite Z.rem_mod_nonneg by lia. reflexivity.
  - destruct (x <? H) eqn:E1; [|apply Z.ltb_ge in E1; lia].
    destruct (y <? H) eqn:E2; [apply Z.ltb_lt in E2; lia|].
    rewrite (neg_mod P y) by lia.
    destruct (P - y =? 0) eqn:E3; [apply Z.eqb_eq in E3; lia|].
    replace (y - P) with (- (P - y)) by lia.
    rewrite Z.rem_opp_r by lia. rewrite Z.rem_mod_nonneg by lia.
    symmetry. apply Z.mod_small. pose proof (Z.mod_pos_bound x (P - y)). lia.
  - destruct (x <? H) eqn:E1; [|apply Z.ltb_ge in E1; lia].
    destruct (y <? H) eqn:E2; [|apply Z.ltb_ge in E2; lia].
    destruct (y =? 0) eqn:E3; [apply Z.eqb_eq in E3; lia|].
    rewrite Z.rem_mod_nonneg by lia.
    symmetry. apply Z.mod_small. pose proof (Z.mod_pos_bound x y). lia.
Qed.

Lemma signed_semantics : forall N x y, 0 < N -> 0 <= x < 2 ^ N -> 0 <= y < 2 ^ N ->
  (if y =? 0 then 0 else bvsdiv N x y) = exact_sdiv N x y /\
  (if y =? 0 then 0 else bvsrem N x y) = exact_smod N x y.
Proof. intros N x y HN Hx Hy. split; [exact (sdiv_exact N x y HN Hx Hy) | exact (srem_exact N x y HN Hx Hy)]. Qed.

(* at width 256 the exact operations are Base/Word's EVM instructions *)
Lemma exact_256 : forall x y,
  exact_mul 256 x y = evm_mul x y /\ exact_div 256 x y = evm_div x y /\
  exact_mod 256 x y = evm_mod x y /\ exact_sdiv 256 x y = evm_sdiv x y /\
  exact_smod 256 x y = evm_smod x y.
Proof. intros. repeat split; reflexivity. Qed.

(* ================================================================== refine: exactness *)
Lemma parse_dec_0 : parse_dec "0" = Some 0.
Proof. reflexivity. Qed.

Lemma append_empty_r : forall s : string, (s ++ "")%string = s.
Proof. induction s as [|c s IH]; simpl; [reflexivity | rewrite IH; reflexivity]. Qed.

Local Opaque parse_dec.
Local Arguments bvmul : simpl never.
Local Arguments bvudiv : simpl never.
Local Arguments bvurem : simpl never.
Local Arguments bvsdiv : simpl never.
Local Arguments bvsrem : simpl never.
Local Arguments Z.pow : simpl never.
Local Arguments Z.modulo : simpl never.
Local Arguments Z.eqb : simpl never.
Local Arguments Z.ltb : simpl never.

Lemma refine_exact : forall r op ns N x y,
  In r refine_rules -> In op (rule_ops r) -> parse_dec ns = Some N -> 0 < N ->
  0 <= x < 2 ^ N -> 0 <= y < 2 ^ N ->
  exists f, exact_op op = Some f /\
    eval_define (inst op ns (rule_repl r)) [VBV N x; VBV N y] = Some (VBV N (f N x y)).
Proof.
  intros r op ns N x y Hr Hop Hns HN Hx Hy.
  assert (HN' : (0 <? N) = true) by (apply Z.ltb_lt; exact HN).
  unfold refine_rules in Hr. simpl in Hr.
  repeat (destruct Hr as [<-|Hr]; [simpl in Hop;
    repeat (destruct Hop as [<-|Hop]; [eexists; split; [reflexivity|]|]); try contradiction|]);
    try contradiction.
  all: cbn.
  all: repeat (progress (rewrite ?append_empty_r, ?Hns, ?parse_dec_0, ?HN', ?Z.eqb_refl; cbn)).
  - rewrite mul_exact. reflexivity.
  - rewrite Z.mod_0_l by (apply Z.pow_nonzero; lia). rewrite udiv_exact. reflexivity.
  - rewrite Z.mod_0_l by (apply Z.pow_nonzero; lia). rewrite urem_exact. reflexivity.
  - rewrite Z.mod_0_l by (apply Z.pow_nonzero; lia). rewrite sdiv_exact by assumption. reflexivity.
  - rewrite Z.mod_0_l by (apply Z.pow_nonzero; lia). rewrite srem_exact by assumption. reflexivity.
Qed.

(* ================================================================== s-expressions *)
Section SexpInd.
  Variable P : sexp -> Prop.
  Hypothesis HA : forall a, P (Atom a).
  Hypothesis HL : forall l, Forall P l -> P (SList l).
  Fixpoint sexp_ind' (s : sexp) : P s :=
    match s with
    | Atom a => HA a
    | SList l =>
        HL l ((fix go (l : list sexp) : Forall P l :=
                 match l with
                 | [] => Forall_nil P
                 | x :: r => Forall_cons x (sexp_ind' x) (go r)
                 end) l)
    end.
End SexpInd.

Lemma sexp_eqb_eq : forall a b, sexp_eqb a b = true -> a = b.
Proof.
  induction a as [a|l IH] using sexp_ind'; intros [b|m] E; simpl in E; try discriminate.
  - apply String.eqb_eq in E. subst. reflexivity.
  - f_equal. revert m E. induction IH as [|x l Hx Hl IHl]; intros [|y m] E; try discriminate.
    + reflexivity.
    + apply andb_true_iff in E. destruct E as [E1 E2].
      rewrite (Hx y E1). f_equal. apply IHl. exact E2.
Qed.

Lemma sexp_eqb_refl : forall a, sexp_eqb a a = true.
Proof.
  induction a as [a|l IH] using sexp_ind'; simpl.
  - apply String.eqb_refl.
  - induction IH as [|x l Hx Hl IHl]; [reflexivity|]. rewrite Hx. exact IHl.
Qed.

(* ================================================================== refine: structure *)
Lemma match_rule_sound : forall r c op ns,
  match_rule r c = Some (op, ns) ->
  In op (rule_ops r) /\ is_digits ns = true /\ c = inst op ns (rule_decl r).
Proof.
  intros r c op ns H. unfold match_rule in H.
  destruct (find_g2 (rule_decl r) c) as [n|]; [|discriminate].
  destruct (is_digits n) eqn:Hd; [|discriminate].
  destruct (find _ (rule_ops r)) as [o|] eqn:Hf; [|discriminate].
  inversion H; subst. apply find_some in Hf. destruct Hf as [Hin He].
  repeat split; [exact Hin | exact Hd | apply sexp_eqb_eq; exact He].
Qed.

Lemma fold_rules_changed : forall rules c,
  fold_left apply_rule rules c <> c ->
  exists r op ns, In r rules /\ In op (rule_ops r) /\ is_digits ns = true /\
                  c = inst op ns (rule_decl r).
Proof.
  induction rules as [|r rs IH]; intros c H; simpl in H; [congruence|].
  unfold apply_rule in H at 2.
  destruct (match_rule r c) as [[op ns]|] eqn:Hm.
  - apply match_rule_sound in Hm. destruct Hm as (H1 & H2 & H3).
    exists r, op, ns. simpl. auto.
  - destruct (IH c H) as (r' & op & ns & H0 & H1 & H2 & H3).
    exists r', op, ns. simpl. auto.
Qed.

Lemma refine_cmd_changed : forall c,
  refine_cmd c <> c ->
  exists r op ns, In r refine_rules /\ In op (rule_ops r) /\ is_digits ns = true /\
                  c = inst op ns (rule_decl r).
Proof. intros c H. exact (fold_rules_changed refine_rules c H). Qed.

Lemma refine_cmd_dec : forall c, refine_cmd c = c \/ refine_cmd c <> c.
Proof.
  intros c. destruct (sexp_eqb (refine_cmd c) c) eqn:E.
  - left. apply sexp_eqb_eq. exact E.
  - right. intros Heq. rewrite Heq, sexp_eqb_refl in E. discriminate.
Qed.

Ltac rule_cases Hr Hop :=
  unfold refine_rules in Hr; simpl in Hr;
  repeat (destruct Hr as [<-|Hr]; [simpl in Hop; repeat (destruct Hop as [<-|Hop]); try contradiction|]);
  try contradiction.

(* only a declaration of an f_evm_ symbol can change *)
Lemma refine_only_decl : forall c,
  refine_cmd c <> c ->
  exists name args ret,
    c = SList [Atom "declare-fun"; Atom name; args; ret] /\
    strip_prefix "f_evm_" name <> None.
Proof.
  intros c H. destruct (refine_cmd_changed c H) as (r & op & ns & Hr & Hop & Hd & ->).
  rule_cases Hr Hop; cbn; eexists; eexists; eexists; (split; [reflexivity|]); cbn; discriminate.
Qed.

Lemma refine_assert_unchanged : forall body, refine_cmd (SList (Atom "assert" :: body)) = SList (Atom "assert" :: body).
Proof.
  intros body. destruct (refine_cmd_dec (SList (Atom "assert" :: body))) as [E|E]; [exact E|].
  apply refine_only_decl in E. destruct E as (n & a & r & E & _). discriminate.
Qed.

(* every matching declaration IS rewritten, to the instantiated replacement *)
Lemma refine_applies : forall r op ns,
  In r refine_rules -> In op (rule_ops r) -> is_digits ns = true ->
  refine_cmd (inst op ns (rule_decl r)) = inst op ns (rule_repl r).
Proof.
  intros r op ns Hr Hop Hd. rule_cases Hr Hop.
  all: unfold refine_cmd, refine_rules, apply_rule, match_rule.
  all: repeat (progress (cbn; rewrite ?append_empty_r, ?Hd, ?String.eqb_refl)).
  all: reflexivity.
Qed.

(* f_evm_exp (and any op outside the alternations) stays an uninterpreted declaration *)
Lemma refine_exp_unchanged : forall r ns,
  In r refine_rules -> refine_cmd (inst "exp" ns (rule_decl r)) = inst "exp" ns (rule_decl r).
Proof.
  intros r ns Hr. unfold refine_rules in Hr. simpl in Hr.
  repeat (destruct Hr as [<-|Hr]); try contradiction.
  all: unfold refine_cmd, refine_rules, apply_rule, match_rule.
  all: destruct (is_digits ns) eqn:Hd.
  all: repeat (progress (cbn; rewrite ?append_empty_r, ?Hd)).
  all: reflexivity.
Qed.

(* the definition has the name and the sorts of the declaration it replaces *)
Lemma refine_signature : forall r op ns,
  In r refine_rules -> In op (rule_ops r) ->
  signature (inst op ns (rule_repl r)) = signature (inst op ns (rule_decl r)) /\
  signature (inst op ns (rule_decl r)) <> None.
Proof.
  intros r op ns Hr Hop. rule_cases Hr Hop; cbn; (split; [reflexivity | discriminate]).
Qed.

(* every abstraction with an exact bit-vector meaning is covered by some rule *)
Lemma refine_covers : forall op, In op refinable_ops -> exists r, In r refine_rules /\ In op (rule_ops r).
Proof.
  intros op H.
  assert (E : existsb (fun r => existsb (String.eqb op) (rule_ops r)) refine_rules = true).
  { unfold refinable_ops in H. simpl in H.
    repeat (destruct H as [<-|H]; [vm_compute; reflexivity|]). contradiction. }
  apply existsb_exists in E. destruct E as (r & Hr & E).
  apply existsb_exists in E. destruct E as (o & Ho & E).
  apply String.eqb_eq in E. subst o. exists r. auto.
Qed.

(* the query keeps its assertion ids, the number of commands, and every assert *)
Lemma refine_query_ids : forall q, snd (refine_query q) = snd q.
Proof. reflexivity. Qed.

Lemma refine_only : forall c, refine_cmd c <> c ->
  (exists r op ns, In r refine_rules /\ In op (rule_ops r) /\ is_digits ns = true /\
                   c = inst op ns (rule_decl r)) /\
  (exists name args ret, c = SList [Atom "declare-fun"; Atom name; args; ret] /\
                         strip_prefix "f_evm_" name <> None).
Proof. intros c H. split; [exact (refine_cmd_changed c H) | exact (refine_only_decl c H)]. Qed.

Lemma refine_keeps_asserts :
  (forall body, refine_cmd (SList (Atom "assert" :: body)) = SList (Atom "assert" :: body)) /\
  (forall q, snd (refine_query q) = snd q).
Proof. split; [exact refine_assert_unchanged | exact refine_query_ids]. Qed.

(* text level *)
Lemma refine_line_changed : forall s,
  refine_line s <> s ->
  exists r op ns, In r refine_rules /\ In op (rule_ops r) /\ is_digits ns = true /\
                  s = render (inst op ns (rule_decl r)).
Proof.
  intros s H. unfold refine_line in H.
  destruct (parse_line s) as [c|]; [|congruence].
  destruct (String.eqb (render c) s) eqn:E; [|congruence].
  apply String.eqb_eq in E. subst s.
  destruct (refine_cmd_dec c) as [Ec|Ec]; [rewrite Ec in H; congruence|].
  destruct (refine_cmd_changed c Ec) as (r & op & ns & H1 & H2 & H3 & ->).
  exists r, op, ns. auto.
Qed.

(* ================================================================== dump: text = commands *)
Lemma sapp_assoc : forall a b c : string, ((a ++ b) ++ c)%string = (a ++ b ++ c)%string.
Proof. induction a as [|x a IH]; intros; simpl; [reflexivity | rewrite IH; reflexivity]. Qed.

Lemma named_text_cmds : forall ids, named_text ids = unlines (map render (dump_named_cmds ids)).
Proof.
  induction ids as [|i r IH]; [reflexivity|].
  cbn [named_text dump_named_cmds map unlines]. fold (dump_named_cmds r). rewrite <- IH.
  unfold named_assertion, named_assertion_sx, nl.
  repeat (progress (cbn; rewrite ?sapp_assoc, ?append_empty_r)). reflexivity.
Qed.

Lemma dump_text_plain : forall smtlib ids,
  dump_text false smtlib ids =
  (unlines (map render dump_plain_pre_sx) ++ smtlib ++ nl ++ unlines (map render dump_plain_post_sx))%string.
Proof.
  intros. unfold dump_text, dump_plain, dump_plain_pre_sx, dump_plain_post_sx, nl.
  repeat (progress (cbn; rewrite ?sapp_assoc, ?append_empty_r)). reflexivity.
Qed.

Lemma dump_text_cached : forall smtlib ids,
  dump_text true smtlib ids =
  (unlines (map render dump_cached_pre_sx) ++ smtlib ++ nl ++
   unlines (map render (dump_named_cmds ids)) ++ unlines (map render dump_cached_post_sx))%string.
Proof.
  intros. rewrite <- named_text_cmds.
  unfold dump_text, dump_cached, dump_cached_pre_sx, dump_cached_post_sx, nl.
  repeat (progress (cbn; rewrite ?sapp_assoc, ?append_empty_r)). reflexivity.
Qed.

Lemma dump_text_both : forall smtlib ids,
  dump_text false smtlib ids =
    (unlines (map render dump_plain_pre_sx) ++ smtlib ++ nl ++
     unlines (map render dump_plain_post_sx))%string /\
  dump_text true smtlib ids =
    (unlines (map render dump_cached_pre_sx) ++ smtlib ++ nl ++
     unlines (map render (dump_named_cmds ids)) ++
     unlines (map render dump_cached_post_sx))%string.
Proof. intros. split; [apply dump_text_plain | apply dump_text_cached]. Qed.

(* ================================================================== named assertions *)
Lemma named_equisat_prop : forall cs : list Prop,
  (exists ids : list bool,
      Forall2 (fun (id : bool) (c : Prop) => id = true -> c) ids cs /\
      Forall (fun id => id = true) ids)
  <-> Forall (fun c : Prop => c) cs.
Proof.
  induction cs as [|c cs IH]; split.
  - intros _. constructor.
  - intros _. exists []. split; constructor.
  - intros (ids & H2 & Hall). inversion H2 as [|id c' ids' cs' Hic Hrest]; subst.
    inversion Hall; subst. constructor; [auto|]. apply IH. exists ids'. auto.
  - intros H. inversion H as [|c' cs' Hc Hcs]; subst.
    destruct (proj2 IH Hcs) as (ids & H2 & Hall).
    exists (true :: ids). split; constructor; auto.
Qed.

Section PathProofs.
  Variable cond : Type.
  Variable cond_eqb : cond -> cond -> bool.
  Variable simp : cond -> cond.
  Variable is_true : cond -> bool.
  Variable vars : cond -> list Z.
  Variable cid : cond -> Z.
  Variable env : Type.
  Variable sem : env -> cond -> Prop.

  (* what z3 is trusted for *)
  Hypothesis simp_sound : forall e c, sem e (simp c) <-> sem e c.
  Hypothesis is_true_sound : forall c, is_true c = true -> forall e, sem e c.
  Hypothesis eqb_sound : forall c d, cond_eqb c d = true -> forall e, sem e c <-> sem e d.

  Notation path := (path cond).
  Notation append := (append cond cond_eqb simp is_true vars).
  Notation step := (step cond cond_eqb simp is_true vars).
  Notation extend := (extend cond cond_eqb simp is_true vars).
  Notation activate := (activate cond cond_eqb simp is_true vars).
  Notation run := (run cond cond_eqb simp is_true vars).
  Notation conds p := (map fst (conditions p)).

  Notation add_all := (add_all cond cond_eqb simp is_true).

  Lemma has_cond_map : forall c l, has_cond cond cond_eqb c l = existsb (cond_eqb c) (map fst l).
  Proof. intros c l. unfold has_cond. induction l as [|x l IH]; simpl; [reflexivity | rewrite IH; reflexivity]. Qed.

  Lemma append_conds : forall p c b, conds (append p c b) = add_all (conds p) [c].
  Proof.
    intros p c b. unfold SmtTextModel.append. simpl. rewrite has_cond_map.
    destruct (is_true (simp c)); simpl; [reflexivity|].
    destruct (existsb (cond_eqb (simp c)) (conds p)); simpl; [reflexivity|].
    destruct (get_related cond p (vars (simp c))) as [rel m1]. simpl.
    rewrite map_app. reflexivity.
  Qed.

  Lemma append_pending : forall p c b, pending (append p c b) = pending p.
  Proof.
    intros p c b. unfold SmtTextModel.append.
    destruct (is_true (simp c)); [reflexivity|].
    destruct (has_cond cond cond_eqb (simp c) (conditions p)); [reflexivity|].
    destruct (get_related cond p (vars (simp c))) as [rel m1]. reflexivity.
  Qed.

  Lemma add_all_app : forall cs1 cs2 acc, add_all acc (cs1 ++ cs2) = add_all (add_all acc cs1) cs2.
  Proof.
    induction cs1 as [|c cs1 IH]; intros; simpl; [reflexivity|].
    destruct (is_true (simp c) || existsb (cond_eqb (simp c)) acc); apply IH.
  Qed.

  Lemma extend_conds : forall cs p b, conds (extend p cs b) = add_all (conds p) cs.
  Proof.
    unfold SmtTextModel.extend.
    induction cs as [|c cs IH]; intros p b; simpl fold_left; [reflexivity|].
    rewrite IH, append_conds. change (c :: cs) with ([c] ++ cs)%list. rewrite add_all_app. reflexivity.
  Qed.

  Lemma extend_pending : forall cs p b, pending (extend p cs b) = pending p.
  Proof.
    unfold SmtTextModel.extend.
    induction cs as [|c cs IH]; intros p b; simpl fold_left; [reflexivity|].
    rewrite IH. apply append_pending.
  Qed.

  Lemma activate_conds : forall p, conds (activate p) = add_all (conds p) (pending p).
  Proof. intros p. unfold SmtTextModel.activate. cbn [conditions]. apply extend_conds. Qed.

  Lemma activate_pending : forall p, pending (activate p) = [].
  Proof. reflexivity. Qed.

  (* one step: the conditions grow by what joins the path, the pending list is the model's *)
  Lemma step_conds : forall p o q r, step p o = Some q ->
    add_all (conds q) (accumulated_from cond (pending q) r)
    = add_all (conds p) (accumulated_from cond (pending p) (o :: r)).
  Proof.
    intros p o q r H. destruct o as [c b|c|c| |vs|s0]; simpl in H; cbn [accumulated_from].
    - inversion H; subst. rewrite append_pending, append_conds.
      change (c :: accumulated_from cond (pending p) r) with ([c] ++ accumulated_from cond (pending p) r)%list.
      rewrite add_all_app. reflexivity.
    - unfold branch in H. destruct (pending p) eqn:Hp; [|discriminate]. inversion H; subst.
      rewrite activate_pending, activate_conds. cbn [pending conditions].
      change (c :: accumulated_from cond [] r) with ([c] ++ accumulated_from cond [] r)%list.
      rewrite add_all_app. reflexivity.
    - unfold branch in H. destruct (pending p) eqn:Hp; [|discriminate]. inversion H; subst.
      reflexivity.
    - inversion H; subst. rewrite activate_pending, activate_conds, add_all_app. reflexivity.
    - unfold slice in H. destruct (sliced p); [discriminate|].
      destruct (slice_loop _ _ _ _ _ _ _ _) as [[sl m']|]; [|discriminate]. inversion H; subst. reflexivity.
    - inversion H; subst. reflexivity.
  Qed.

  Lemma run_conds_gen : forall ops p q, run p ops = Some q ->
    conds q = add_all (conds p) (accumulated_from cond (pending p) ops).
  Proof.
    induction ops as [|o ops IH]; intros p q H; simpl in H.
    - inversion H; subst. reflexivity.
    - destruct (step p o) as [p'|] eqn:Hs; [|discriminate].
      rewrite <- (step_conds _ _ _ ops Hs). apply IH. exact H.
  Qed.

  Lemma run_conds : forall ops s0 q, run (empty_path cond s0) ops = Some q ->
    conds q = add_all [] (accumulated cond ops).
  Proof. intros ops s0 q H. apply (run_conds_gen _ _ _ H). Qed.

  Lemma add_all_sem : forall e cs acc,
    Forall (sem e) (add_all acc cs) <-> Forall (sem e) acc /\ Forall (sem e) cs.
  Proof.
    induction cs as [|c cs IH]; intros acc; simpl.
    - split; [intros H; split; [exact H | constructor] | intros [H _]; exact H].
    - destruct (is_true (simp c)) eqn:Ht; simpl.
      + rewrite IH. split; intros [Ha Hc]; split; auto.
        * constructor; [apply simp_sound; apply is_true_sound; exact Ht | exact Hc].
        * inversion Hc; assumption.
      + destruct (existsb (cond_eqb (simp c)) acc) eqn:Hex.
        * rewrite IH. apply existsb_exists in Hex. destruct Hex as (d & Hd & He).
          split; intros [Ha Hc]; split; auto.
          -- constructor; [|exact Hc]. apply simp_sound. apply (eqb_sound _ _ He).
             rewrite Forall_forall in Ha. apply Ha. exact Hd.
          -- inversion Hc; assumption.
        * rewrite IH. rewrite Forall_app. split.
          -- intros [[Ha Hs] Hc]. split; [exact Ha|]. constructor; [|exact Hc].
             inversion Hs; subst. apply simp_sound. assumption.
          -- intros [Ha Hc]. inversion Hc; subst. repeat split; auto.
             constructor; [apply simp_sound; assumption | constructor].
  Qed.

  (* Path.to_smt2 + solve.dump assert exactly `conditions`, plain or tracked+named *)
  Lemma dump_plain_sem : forall e b (p : path),
    Forall (holds sem e b) (dump_asserts false (to_smt2 cond cid p false)) <-> Forall (sem e) (conds p).
  Proof.
    intros e b p. unfold dump_asserts, to_smt2. simpl. rewrite app_nil_r.
    rewrite map_map. rewrite !Forall_forall. split; intros H x Hx.
    - apply in_map_iff in Hx. destruct Hx as (cb & <- & Hin).
      apply (H (APlain (fst cb))). apply in_map_iff. exists cb. auto.
    - apply in_map_iff in Hx. destruct Hx as (cb & <- & Hin). simpl.
      apply H. apply in_map. exact Hin.
  Qed.

  Lemma dump_cached_sem : forall e (p : path),
    (exists b, Forall (holds sem e b) (dump_asserts true (to_smt2 cond cid p true)))
    <-> Forall (sem e) (conds p).
  Proof.
    intros e p. unfold dump_asserts, to_smt2. simpl. rewrite !map_map. split.
    - intros (b & H). rewrite Forall_app in H. destruct H as [Ht Hn].
      rewrite Forall_forall in *. intros c Hc.
      apply in_map_iff in Hc. destruct Hc as (cb & <- & Hin).
      assert (Hb : b (cid (fst cb)) = true).
      { apply (Hn (ANamed (cid (fst cb)))). apply in_map_iff. exists cb. auto. }
      apply (Ht (ATracked (cid (fst cb)) (fst cb))); [|exact Hb].
      apply in_map_iff. exists cb. auto.
    - intros H. exists (fun _ => true). rewrite Forall_app. rewrite !Forall_forall in *. split.
      + intros a Ha. apply in_map_iff in Ha. destruct Ha as (cb & <- & Hin). simpl.
        intros _. apply H. apply in_map. exact Hin.
      + intros a Ha. apply in_map_iff in Ha. destruct Ha as (cb & <- & Hin). reflexivity.
  Qed.

  (* the ids handed to the unsat-core cache are the ids of the conditions, in order *)
  Lemma to_smt2_ids : forall (p : path) cs, snd (to_smt2 cond cid p cs) = map cid (conds p).
  Proof. intros. unfold to_smt2. simpl. rewrite map_map. reflexivity. Qed.

  Lemma to_smt2_asserted : forall (p : path) cs,
    map (fun a => match a with QPlain c => c | QTracked _ c => c end) (fst (to_smt2 cond cid p cs)) = conds p.
  Proof.
    intros. unfold to_smt2. simpl. rewrite map_map. apply map_ext. intros [c b]. destruct cs; reflexivity.
  Qed.

  (* main statement: the dumped query is satisfied exactly by the assignments that satisfy
     every constraint ever handed to the path (regular or extending a sliced parent) *)
  Theorem query_equals_constraints : forall ops s0 (p : path) cs e,
    run (empty_path cond s0) ops = Some p ->
    ((exists b, Forall (holds sem e b) (dump_asserts cs (to_smt2 cond cid p cs)))
     <-> path_constraints_hold sem e (accumulated cond ops)).
  Proof.
    intros ops s0 p cs e Hrun. unfold path_constraints_hold.
    pose proof (run_conds _ _ _ Hrun) as Hc.
    assert (Hsem : Forall (sem e) (conds p) <-> Forall (sem e) (accumulated cond ops)).
    { rewrite Hc. rewrite add_all_sem. split; [intros [_ H]; exact H | intros H; split; [constructor | exact H]]. }
    rewrite <- Hsem. destruct cs.
    - apply dump_cached_sem.
    - split.
      + intros (b & H). apply (dump_plain_sem e b p). exact H.
      + intros H. exists (fun _ => true). apply dump_plain_sem. exact H.
  Qed.

  (* syntactic form: nothing dropped, nothing added, order kept *)
  Theorem all_conditions : forall ops s0 (p : path) cs,
    run (empty_path cond s0) ops = Some p ->
    map (fun a => match a with QPlain c => c | QTracked _ c => c end) (fst (to_smt2 cond cid p cs))
      = add_all [] (accumulated cond ops)
    /\ snd (to_smt2 cond cid p cs) = map cid (add_all [] (accumulated cond ops)).
  Proof.
    intros ops s0 p cs Hrun. pose proof (run_conds _ _ _ Hrun) as Hc.
    rewrite to_smt2_asserted, to_smt2_ids, Hc. split; reflexivity.
  Qed.

  (* slicing never changes `conditions` (hence never the query), only the solver *)
  Lemma slice_conds : forall (p q : path) vs, slice cond vars p vs = Some q -> conditions q = conditions p.
  Proof.
    intros p q vs H. unfold slice in H. destruct (sliced p); [discriminate|].
    destruct (slice_loop _ _ _ _ _ _ _ _) as [[sl m']|]; [|discriminate]. inversion H; reflexivity.
  Qed.

  Lemma extend_path_conds : forall (p parent : path), conditions (extend_path cond p parent) = conditions parent.
  Proof. reflexivity. Qed.

  (* ---- conditions vs solver: the solver holds the fresh solver's content plus a SUBSET of
     the conditions; all of them as long as no ancestor state was sliced *)
  Lemma append_both : forall p c b,
    (solver (append p c b) = solver p /\ conds (append p c b) = conds p /\ sliced (append p c b) = sliced p) \/
    (solver (append p c b) = (solver p ++ [simp c])%list /\ conds (append p c b) = (conds p ++ [simp c])%list /\
     sliced (append p c b) = sliced p).
  Proof.
    intros p c b. unfold SmtTextModel.append.
    destruct (is_true (simp c)); [left; auto|].
    destruct (has_cond cond cond_eqb (simp c) (conditions p)); [left; auto|].
    destruct (get_related cond p (vars (simp c))) as [rel m1]. right. simpl. rewrite map_app. auto.
  Qed.

  Lemma extend_both : forall cs p b, exists l,
    solver (extend p cs b) = (solver p ++ l)%list /\ conds (extend p cs b) = (conds p ++ l)%list /\
    sliced (extend p cs b) = sliced p.
  Proof.
    unfold SmtTextModel.extend.
    induction cs as [|c cs IH]; intros p b; simpl fold_left.
    - exists []. rewrite !app_nil_r. auto.
    - destruct (IH (append p c b) b) as (l & E1 & E2 & E3).
      destruct (append_both p c b) as [(A1 & A2 & A3)|(A1 & A2 & A3)].
      + exists l. rewrite E1, E2, E3, A1, A2, A3. auto.
      + exists (simp c :: l). rewrite E1, E2, E3, A1, A2, A3. rewrite <- !app_assoc. auto.
  Qed.

  Lemma select_idx_incl : forall l idx keep c, In c (select_idx cond l idx keep) -> In c (map fst l).
  Proof.
    induction l as [|[c0 b0] l IH]; intros idx keep c H; simpl in *; [exact H|].
    destruct (existsb (Nat.eqb idx) keep); [destruct H as [->|H]; [left; reflexivity | right; eapply IH; exact H] | right; eapply IH; exact H].
  Qed.

  Notation bases := (bases cond).
  Notation no_slice := (no_slice cond).
  Notation last_base := (last_base cond).

  Lemma step_solver_incl : forall p o q B, step p o = Some q ->
    (forall c, In c (solver p) -> In c B \/ In c (conds p)) ->
    (forall c, In c (solver q) -> In c (bases B [o]) \/ In c (conds q)).
  Proof.
    intros p o q B H Hin. unfold SmtTextModel.bases.
    assert (Hext : forall cs (p0 : path) b, (forall c, In c (solver p0) -> In c B \/ In c (conds p0)) ->
               forall c, In c (solver (extend p0 cs b)) -> In c B \/ In c (conds (extend p0 cs b))).
    { intros cs p0 b H0 c Hc. destruct (extend_both cs p0 b) as (l & E1 & E2 & _). rewrite E1 in Hc. rewrite E2.
      apply in_app_or in Hc. destruct Hc as [Hc|Hc]; [|right; apply in_or_app; right; exact Hc].
      destruct (H0 c Hc) as [H1|H1]; [left; exact H1 | right; apply in_or_app; left; exact H1]. }
    destruct o as [c0 b|c0|c0| |vs|s1]; simpl in H; simpl flat_map; rewrite ?app_nil_r.
    - inversion H; subst q. apply (Hext [c0] p b Hin).
    - unfold branch in H. destruct (pending p); [|discriminate]. inversion H; subst q.
      unfold SmtTextModel.activate. cbn [solver conditions pending]. apply (Hext [c0]). exact Hin.
    - unfold branch in H. destruct (pending p); [|discriminate]. inversion H; subst q. exact Hin.
    - inversion H; subst q. unfold SmtTextModel.activate. cbn [solver conditions]. apply Hext. exact Hin.
    - unfold slice in H. destruct (sliced p); [discriminate|].
      destruct (slice_loop _ _ _ _ _ _ _ _) as [[sl m']|]; [|discriminate].
      inversion H; subst q. exact Hin.
    - inversion H; subst q. unfold extend_path, empty_path, solver_additions. cbn [solver conditions].
      intros c Hc. apply in_app_or in Hc. destruct Hc as [Hc|Hc]; [left; apply in_or_app; right; exact Hc|].
      right. destruct (sliced p); [apply (select_idx_incl _ _ _ _ Hc) | exact Hc].
  Qed.

  Lemma run_solver_incl : forall ops p q B, run p ops = Some q ->
    (forall c, In c (solver p) -> In c B \/ In c (conds p)) ->
    (forall c, In c (solver q) -> In c (bases B ops) \/ In c (conds q)).
  Proof.
    induction ops as [|o ops IH]; intros p q B H Hin; simpl in H.
    - inversion H; subst q. unfold SmtTextModel.bases. simpl. rewrite app_nil_r. exact Hin.
    - destruct (step p o) as [p'|] eqn:Hs; [|discriminate].
      pose proof (IH p' q (bases B [o]) H (step_solver_incl _ _ _ _ Hs Hin)) as H'.
      intros c Hc. destruct (H' c Hc) as [H1|H1]; [left | right; exact H1].
      unfold SmtTextModel.bases in *. simpl in *. rewrite app_nil_r in H1. rewrite <- app_assoc in H1. exact H1.
  Qed.

  Theorem solver_subset_of_conditions : forall ops s0 p,
    run (empty_path cond s0) ops = Some p ->
    forall c, In c (solver p) -> In c (bases s0 ops) \/ In c (conds p).
  Proof.
    intros ops s0 p H. apply (run_solver_incl ops _ _ s0 H). intros c Hc. left. exact Hc.
  Qed.

  Lemma run_solver_full : forall ops p q B, run p ops = Some q -> no_slice ops = true ->
    sliced p = None -> solver p = (B ++ conds p)%list ->
    sliced q = None /\ solver q = (last_base B ops ++ conds q)%list.
  Proof.
    induction ops as [|o ops IH]; intros p q B H Hns Hsl Hso; simpl in H.
    - inversion H; subst q. auto.
    - destruct (step p o) as [p'|] eqn:Hs; [|discriminate].
      simpl in Hns. apply andb_true_iff in Hns. destruct Hns as [Hn1 Hn2].
      assert (Hext : forall cs (p0 : path) b, sliced p0 = None -> solver p0 = (B ++ conds p0)%list ->
                 sliced (extend p0 cs b) = None /\ solver (extend p0 cs b) = (B ++ conds (extend p0 cs b))%list).
      { intros cs p0 b H0 H1. destruct (extend_both cs p0 b) as (l & E1 & E2 & E3).
        rewrite E1, E2, E3, H1, app_assoc. auto. }
      destruct o as [c0 b|c0|c0| |vs|s1]; simpl in Hs; try discriminate; simpl.
      + inversion Hs; subst p'. destruct (Hext [c0] p b Hsl Hso) as [E1 E2]. apply (IH _ _ B H Hn2 E1 E2).
      + unfold branch in Hs. destruct (pending p); [|discriminate]. inversion Hs; subst p'.
        apply (IH _ _ B H Hn2).
        * unfold SmtTextModel.activate. cbn [sliced conditions pending]. apply (Hext [c0]); [reflexivity | exact Hso].
        * unfold SmtTextModel.activate. cbn [solver sliced conditions pending]. apply (Hext [c0]); [reflexivity | exact Hso].
      + unfold branch in Hs. destruct (pending p); [|discriminate]. inversion Hs; subst p'.
        apply (IH _ _ B H Hn2); [reflexivity | exact Hso].
      + inversion Hs; subst p'. unfold SmtTextModel.activate in *.
        apply (IH _ _ B H Hn2); cbn [sliced solver conditions]; apply Hext; assumption.
      + inversion Hs; subst p'. apply (IH _ _ s1 H Hn2); [reflexivity|].
        unfold extend_path, empty_path, solver_additions. cbn [solver conditions]. rewrite Hsl. reflexivity.
  Qed.

  Theorem solver_holds_all_when_unsliced : forall ops s0 p,
    run (empty_path cond s0) ops = Some p -> no_slice ops = true ->
    solver p = (last_base s0 ops ++ conds p)%list.
  Proof.
    intros ops s0 p H Hns. apply (run_solver_full ops _ _ s0 H Hns); [reflexivity|]. simpl. rewrite app_nil_r. reflexivity.
  Qed.
End PathProofs.

Section PendingProofs.
  Variable cond : Type.
  Variable cond_eqb : cond -> cond -> bool.
  Variable simp : cond -> cond.
  Variable is_true : cond -> bool.
  Variable vars : cond -> list Z.
  Notation path := (path cond).
  Notation step := (step cond cond_eqb simp is_true vars).
  Notation run := (run cond cond_eqb simp is_true vars).

  (* ---- pending fork conditions are exactly what the conditions (hence the query) lack *)
  Lemma run_pending : forall ops p q, run p ops = Some q ->
    pending q = pending_after cond (pending p) ops.
  Proof.
    induction ops as [|o ops IH]; intros p q H; simpl in H.
    - inversion H; subst. reflexivity.
    - destruct (step p o) as [p'|] eqn:Hs; [|discriminate]. rewrite (IH _ _ H). clear IH H.
      destruct o as [c b|c|c| |vs|s0]; simpl in Hs; cbn [pending_after].
      + inversion Hs; subst. rewrite (append_pending cond cond_eqb simp is_true vars). reflexivity.
      + unfold branch in Hs. destruct (pending p) eqn:Hp; [|discriminate]. inversion Hs; subst. reflexivity.
      + unfold branch in Hs. destruct (pending p) eqn:Hp; [|discriminate]. inversion Hs; subst. reflexivity.
      + inversion Hs; subst. reflexivity.
      + unfold slice in Hs. destruct (sliced p); [discriminate|].
        destruct (slice_loop _ _ _ _ _ _ _ _) as [[sl m']|]; [|discriminate]. inversion Hs; subst. reflexivity.
      + inversion Hs; subst. reflexivity.
  Qed.

  Lemma handed_split : forall ops pend c, extends_active_from cond pend ops = true ->
    ((In c pend \/ In c (handed cond ops)) <->
     (In c (accumulated_from cond pend ops) \/ In c (pending_after cond pend ops))).
  Proof.
    induction ops as [|o ops IH]; intros pend c H.
    - simpl. tauto.
    - destruct o as [c0 b|c0|c0| |vs|s0]; simpl in H; unfold handed; simpl flat_map; cbn [accumulated_from pending_after].
      + specialize (IH pend c H). simpl. tauto.
      + specialize (IH pend c H). simpl. tauto.
      + specialize (IH (pend ++ [c0])%list c H). rewrite in_app_iff in IH. simpl in IH |- *. tauto.
      + specialize (IH [] c H). rewrite in_app_iff. simpl in IH |- *. tauto.
      + specialize (IH pend c H). simpl. tauto.
      + destruct pend; [|discriminate]. specialize (IH [] c H). simpl in IH |- *. tauto.
  Qed.

  Theorem handed_accumulated_pending : forall ops s0 p,
    run (empty_path cond s0) ops = Some p -> extends_active_from cond [] ops = true ->
    forall c, In c (handed cond ops) <-> In c (accumulated cond ops) \/ In c (pending p).
  Proof.
    intros ops s0 p H Hx c. rewrite (run_pending _ _ _ H). cbn [pending empty_path].
    pose proof (handed_split ops [] c Hx) as E. simpl in E. unfold accumulated. split.
    - intros Hc. apply E. right. exact Hc.
    - intros Hc. destruct (proj2 E Hc) as [[]|Hh]. exact Hh.
  Qed.

End PendingProofs.

Lemma slicing_keeps_conditions : forall (cond : Type) (vars : cond -> list Z) (p q parent : path cond) vs,
  (slice cond vars p vs = Some q -> conditions q = conditions p) /\
  conditions (extend_path cond p parent) = conditions parent.
Proof. intros. split; [apply slice_conds | apply extend_path_conds]. Qed.
