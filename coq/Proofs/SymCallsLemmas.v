(* What a local (non-call, non-create) step of the reference interpreter leaves unchanged. *)
From Coq Require Import ZArith List Bool Lia Arith.
From HV Require Import Base.Word Spec.Evm Gen.GenJumpi Gen.GenBranch.
Import ListNotations.
Open Scope Z_scope.

Definition is_sub (i : instr) : bool :=
  match i with ICall _ | ICreate | ICreate2 => true | _ => false end.

Lemma sload_sstore_other : forall m a b k0 v0 k, a <> b ->
  sload_of (sstore_of m b k0 v0) a k = sload_of m a k.
Proof.
  intros m a b k0 v0 k Hab. unfold sload_of, sstore_of, aset. simpl.
  destruct (a =? b) eqn:E; [apply Z.eqb_eq in E; contradiction | reflexivity].
Qed.

Definition rest_same (this : Z) (s s' : mstate) : Prop :=
  s_ctr s' = s_ctr s /\
  w_code (s_world s') = w_code (s_world s) /\
  w_balance (s_world s') = w_balance (s_world s) /\
  (forall a k, a <> this -> sload_of (w_storage (s_world s')) a k = sload_of (w_storage (s_world s)) a k) /\
  (forall a k, a <> this -> sload_of (w_transient (s_world s')) a k = sload_of (w_transient (s_world s)) a k).

Lemma rest_same_refl_world : forall this s s',
  s_ctr s' = s_ctr s -> s_world s' = s_world s -> rest_same this s s'.
Proof. intros this s s' H1 H2. unfold rest_same. rewrite H1, H2. repeat split; reflexivity. Qed.

Ltac crush H :=
  repeat match type of H with
         | (match ?a with _ => _ end) = _ => destruct a eqn:?; try discriminate
         | (if ?a then _ else _) = _ => destruct a eqn:?; try discriminate
         end.

Lemma next_inv : forall s st s', next s st = Continue s' -> s' = with_stack s st (S (s_pc s)).
Proof. intros s st s' H. unfold next in H. destruct (1024 <? length st)%nat; [discriminate | inversion H; reflexivity]. Qed.

Lemma copy_to_mem_inv : forall lim s r d o n src s',
  copy_to_mem lim s r d o n src = Continue s' -> s_ctr s' = s_ctr s /\ s_world s' = s_world s.
Proof.
  intros lim s r d o n src s' H. unfold copy_to_mem in H.
  destruct (oog_range lim d n); [discriminate|]. apply next_inv in H. subst s'. split; reflexivity.
Qed.

Lemma step_i_local : forall lim rs i e s s',
  is_sub i = false -> step_i lim rs i e s = Continue s' -> rest_same (e_this e) s s'.
Proof.
  intros lim rs i e s s' Hi H.
  destruct i; try discriminate Hi; cbn [step_i] in H; cbv zeta in H;
    unfold binop, unop, ternop, push, halt, do_log in H;
    try (crush H;
         try (apply next_inv in H; subst s'; apply rest_same_refl_world; reflexivity);
         try (apply copy_to_mem_inv in H; destruct H as [H1 H2]; apply rest_same_refl_world; assumption);
         try (inversion H; subst s'; apply rest_same_refl_world; reflexivity);
         fail).
  - (* ISstore *)
    crush H. apply next_inv in H. subst s'. unfold rest_same. cbn. repeat split; auto.
    intros a k Ha. apply sload_sstore_other. exact Ha.
  - (* ITstore *)
    crush H. apply next_inv in H. subst s'. unfold rest_same. cbn. repeat split; auto.
    intros a k Ha. apply sload_sstore_other. exact Ha.
Qed.

Lemma step_i_local_done : forall lim rs i e s w ctr ret logs,
  is_sub i = false -> step_i lim rs i e s = Done (ROk w ctr ret logs) -> w = s_world s /\ ctr = s_ctr s.
Proof.
  intros lim rs i e s w ctr ret logs Hi H.
  destruct i; try discriminate Hi; cbn [step_i] in H; cbv zeta in H;
    unfold binop, unop, ternop, push, halt, do_log, copy_to_mem, next in H;
    crush H; inversion H; subst; split; reflexivity.
Qed.

Lemma step_i_local_ctr : forall lim rs i e s r,
  is_sub i = false -> step_i lim rs i e s = Done r ->
  match r with
  | ROk _ c _ _ | RRevert c _ | RHalt c _ => c = s_ctr s
  | _ => True
  end.
Proof.
  intros lim rs i e s r Hi H.
  destruct i; try discriminate Hi; cbn [step_i] in H; cbv zeta in H;
    unfold binop, unop, ternop, push, halt, do_log, copy_to_mem, next in H;
    crush H; inversion H; subst; try reflexivity; exact I.
Qed.

(* the insufficient-funds alternative is abandoned exactly when the solver answered `unsat`
   (decision function regenerated from SEVM.handle_insufficient_fund_case) *)
Lemma funds_fail_keep_eq : forall r, funds_fail_keep r = negb (r =? R_UNSAT).
Proof. intros r. reflexivity. Qed.
