(* Proofs about Model/PrankModel.v against Spec/FoundrySpec.v *)
From Coq Require Import ZArith List Bool Lia.
From HV Require Import Gen.GenCheatSelectors Spec.FoundrySpec Model.PrankModel.
Import ListNotations.
Open Scope Z_scope.

(* ---------------------------------------------------------------- finite facts about the
   regenerated address lists *)
Lemma exempt_hevm : mem_addr hevm_address prank_exempt = true.
Proof. vm_compute. reflexivity. Qed.
Lemma exempt_svm : mem_addr svm_address prank_exempt = true.
Proof. vm_compute. reflexivity. Qed.
Lemma exempt_console : mem_addr console_address prank_exempt = true.
Proof. vm_compute. reflexivity. Qed.
Lemma exempt_zero : mem_addr 0 prank_exempt = false.
Proof. vm_compute. reflexivity. Qed.
Lemma exempt_sub_cheat : forallb (fun a => mem_addr a cheatcode_addresses) prank_exempt = true.
Proof. vm_compute. reflexivity. Qed.

(* every address SEVM.call treats as a cheatcode address is exempted by Prank.lookup *)
Lemma cheat_sub_exempt : forallb (fun a => mem_addr a prank_exempt) cheatcode_addresses = true.
Proof. vm_compute. reflexivity. Qed.

Lemma mem_addr_In : forall a l, mem_addr a l = true <-> In a l.
Proof.
  intros a l. unfold mem_addr. rewrite existsb_exists. split.
  - intros [x [Hin Heq]]. apply Z.eqb_eq in Heq. subst. exact Hin.
  - intros Hin. exists a. split; [exact Hin | apply Z.eqb_refl].
Qed.

Lemma not_cheat_not_exempt : forall a, ~ In a cheatcode_addresses -> mem_addr a prank_exempt = false.
Proof.
  intros a Hn. destruct (mem_addr a prank_exempt) eqn:E; [|reflexivity].
  exfalso. apply Hn. apply mem_addr_In in E.
  pose proof exempt_sub_cheat as Hs. rewrite forallb_forall in Hs.
  apply mem_addr_In. apply Hs. exact E.
Qed.

Lemma cheat_exempt : forall a, In a cheatcode_addresses -> mem_addr a prank_exempt = true.
Proof.
  intros a Hin. pose proof cheat_sub_exempt as Hs. rewrite forallb_forall in Hs. apply Hs. exact Hin.
Qed.

(* the callee of every cheatcode-call op is one of sevm.CHEATCODE_ADDRESSES ... *)
Lemma cheat_addr_is_cheat : forall c, In (cheat_addr c) cheatcode_addresses.
Proof. intros c. apply mem_addr_In. destruct c; vm_compute; reflexivity. Qed.

(* ... hence exempted *)
Lemma cheat_addr_exempt : forall c, mem_addr (cheat_addr c) prank_exempt = true.
Proof. intros c. apply cheat_exempt. apply cheat_addr_is_cheat. Qed.

(* Prank.lookup's exemption list and sevm.CHEATCODE_ADDRESSES are the same set *)
Theorem prank_exempt_exact : forall a, In a prank_exempt <-> In a cheatcode_addresses.
Proof.
  intros a. split; intros H.
  - pose proof exempt_sub_cheat as Hs. rewrite forallb_forall in Hs.
    apply mem_addr_In. apply Hs. exact H.
  - apply mem_addr_In. apply cheat_exempt. exact H.
Qed.

(* ---------------------------------------------------------------- the abstraction *)
(* like in_effect, but remembering the keep flag *)
Fixpoint scan (h : list levent) (c : bool) : option (bool * addr * option addr) :=
  match h with
  | [] => None
  | LCall :: r => scan r true
  | LCheat :: r => scan r c
  | LStop :: _ => None
  | LPrank k s o :: _ => if k then Some (k, s, o) else if c then None else Some (k, s, o)
  end.

Definition drop_keep (x : bool * addr * option addr) : addr * option addr :=
  let '(_, s, o) := x in (s, o).

Lemma in_effect_scan : forall h c, in_effect h c = option_map drop_keep (scan h c).
Proof.
  induction h as [|e r IH]; intros c; cbn; [reflexivity|].
  destruct e as [k s o| | |]; cbn; auto.
  destruct k; [reflexivity|]. destruct c; reflexivity.
Qed.

Lemma scan_true_keep : forall h k s o, scan h true = Some (k, s, o) -> k = true.
Proof.
  induction h as [|e r IH]; intros k s o; cbn; [discriminate|].
  destruct e as [k' s' o'| | |]; cbn; try discriminate; eauto.
  destruct k'; [|discriminate]. intros H. inversion H. reflexivity.
Qed.

Lemma scan_true : forall h,
  scan h true = match scan h false with
                | Some (true, s, o) => Some (true, s, o)
                | _ => None
                end.
Proof.
  induction h as [|e r IH]; cbn; [reflexivity|].
  destruct e as [k s o| | |]; cbn; auto.
  - destruct k; reflexivity.
  - destruct (scan r true) as [[[k s] o]|] eqn:E; [|reflexivity].
    apply scan_true_keep in E. subst. reflexivity.
Qed.

Definition abs_prank (h : list levent) : prank :=
  match scan h false with
  | None => fresh_prank
  | Some (k, s, o) => {| active := {| p_sender := Some s; p_origin := o |}; keep := k |}
  end.

Definition frel (sf : sframe) (mf : mframe) : Prop :=
  m_this mf = s_this sf /\ m_caller mf = s_caller sf /\ m_origin mf = s_origin sf /\
  m_prank mf = abs_prank (s_hist sf).

Lemma frel_fresh : forall a s o, frel (s_fresh a s o) (m_fresh a s o).
Proof. intros. repeat split. Qed.

(* ---------------------------------------------------------------- lookup *)
Lemma lookup_exempt : forall p to, mem_addr to prank_exempt = true -> lookup p to = (NO_PRANK, p).
Proof. intros p to H. unfold lookup. rewrite H. rewrite andb_false_r. reflexivity. Qed.

Lemma lookup_consume : forall h to, mem_addr to prank_exempt = false ->
  lookup (abs_prank h) to =
    (match scan h false with
     | None => NO_PRANK
     | Some (_, s, o) => {| p_sender := Some s; p_origin := o |}
     end, abs_prank (LCall :: h)).
Proof.
  intros h to H. unfold lookup, abs_prank. rewrite H. cbn [scan]. rewrite scan_true.
  destruct (scan h false) as [[[k s] o]|]; cbn; [|reflexivity].
  destruct k; reflexivity.
Qed.

Lemma resolve_exempt : forall f to, mem_addr to prank_exempt = true ->
  resolve_prank f to = ((m_this f, m_origin f), f).
Proof.
  intros f to H. unfold resolve_prank. rewrite lookup_exempt by exact H. cbn.
  destruct f; reflexivity.
Qed.

Lemma resolve_consume : forall sf mf to, frel sf mf -> mem_addr to prank_exempt = false ->
  fst (resolve_prank mf to) = s_next_call sf /\ frel (s_log LCall sf) (snd (resolve_prank mf to)).
Proof.
  intros sf mf to (Ht & Hc & Ho & Hp) H. unfold resolve_prank. rewrite Hp.
  rewrite lookup_consume by exact H. unfold s_next_call. rewrite in_effect_scan.
  destruct (scan (s_hist sf) false) as [[[k s] o]|] eqn:E; cbn.
  - split; [destruct o; cbn; congruence|]. repeat split; cbn; auto.
  - split; [congruence|]. repeat split; cbn; auto.
Qed.

(* ---------------------------------------------------------------- one step *)
Definition res_rel (a : sres) (b : mres) : Prop :=
  match a, b with
  | SErr, MErr => True
  | SOk ss out, MOk ms out' => out = out' /\ Forall2 frel ss ms
  | _, _ => False
  end.

Lemma set_prank_sim : forall k s o sf mf srest mrest,
  frel sf mf -> Forall2 frel srest mrest ->
  res_rel (s_set_prank k s o sf srest) (m_set_prank k s o mf mrest).
Proof.
  intros k s o sf mf srest mrest Hf Hr. unfold s_set_prank, m_set_prank.
  rewrite resolve_exempt by exact exempt_hevm.
  destruct Hf as (Ht & Hc & Ho & Hp). unfold do_prank. rewrite Hp.
  rewrite in_effect_scan. unfold abs_prank.
  destruct (scan (s_hist sf) false) as [[[k' s'] o']|] eqn:E; cbn.
  - exact I.
  - split; [reflexivity|]. constructor; [|exact Hr].
    repeat split; cbn; auto. unfold abs_prank. cbn [scan]. destruct k; reflexivity.
Qed.

Lemma step_sim : forall ss ms o,
  Forall2 frel ss ms -> target_ok o -> res_rel (s_step ss o) (m_step ms o).
Proof.
  intros ss ms o HF Hto.
  destruct HF as [|sf mf srest mrest Hf Hr].
  - destruct o; cbn; repeat split; auto using frel_fresh.
  - destruct o as [s|s og|s|s og| |c|k a|a| |t sd og]; cbn [s_step m_step].
    + apply set_prank_sim; assumption.
    + apply set_prank_sim; assumption.
    + apply set_prank_sim; assumption.
    + apply set_prank_sim; assumption.
    + rewrite resolve_exempt by exact exempt_hevm. cbn. split; [reflexivity|].
      constructor; [|exact Hr]. destruct Hf as (Ht & Hc & Ho & Hp). repeat split; cbn; auto.
    + rewrite resolve_exempt by apply cheat_addr_exempt. cbn. split; [reflexivity|].
      constructor; [|exact Hr]. destruct Hf as (Ht & Hc & Ho & Hp). repeat split; cbn; auto.
    + cbn in Hto. apply not_cheat_not_exempt in Hto.
      destruct (resolve_consume sf mf a Hf Hto) as [H1 H2].
      destruct (resolve_prank mf a) as [[sender origin] f1]. cbn in H1, H2. rewrite <- H1.
      cbn. split; [reflexivity|]. constructor; [apply frel_fresh|]. constructor; assumption.
    + destruct (resolve_consume sf mf 0 Hf exempt_zero) as [H1 H2].
      destruct (resolve_prank mf 0) as [[sender origin] f1]. cbn in H1, H2. rewrite <- H1.
      cbn. split; [reflexivity|]. constructor; [apply frel_fresh|]. constructor; assumption.
    + destruct Hr as [|sf2 mf2 sr2 mr2 Hf2 Hr2]; cbn.
      * split; [reflexivity|]. constructor; [exact Hf|constructor].
      * split; [reflexivity|]. constructor; assumption.
    + cbn. split; [reflexivity|]. constructor; [apply frel_fresh|constructor].
Qed.

Lemma run_sim : forall ops ss ms,
  Forall2 frel ss ms -> Forall target_ok ops ->
  m_run ms ops = s_run ss ops.
Proof.
  induction ops as [|o r IH]; intros ss ms HF Hto; [reflexivity|].
  inversion Hto as [|? ? Hto1 Hto2]; subst.
  pose proof (step_sim ss ms o HF Hto1) as Hs. cbn [m_run s_run].
  destruct (s_step ss o) as [|ss' out]; destruct (m_step ms o) as [|ms' out']; cbn in Hs; try contradiction.
  - reflexivity.
  - destruct Hs as [-> HF']. f_equal. apply IH; assumption.
Qed.

(* the sender/origin every call observes, for every finite op sequence *)
Theorem prank_trace : forall this sender origin ops,
  Forall target_ok ops ->
  m_run [m_fresh this sender origin] ops = s_run [s_fresh this sender origin] ops.
Proof.
  intros. apply run_sim; auto. constructor; [apply frel_fresh|constructor].
Qed.

(* the same from any reachable pair of states, and from the empty state *)
Theorem prank_trace_from_empty : forall ops,
  Forall target_ok ops -> m_run [] ops = s_run [] ops.
Proof. intros. apply run_sim; auto. Qed.

(* cheatcode calls -- vm.*, svm.*, console.log alike -- are invisible to pranks: a call to any
   cheatcode address leaves every frame (its prank included) as it was and enters no frame ... *)
Lemma cheat_step_id : forall st c, m_step st (OCheat c) = MOk st [].
Proof.
  intros [|f rest] c; cbn [m_step]; [reflexivity|].
  rewrite resolve_exempt by apply cheat_addr_exempt. reflexivity.
Qed.

(* ... so deleting (or inserting) one anywhere in any op sequence changes no observed sender/origin *)
Theorem cheat_call_transparent : forall pre c post st,
  m_run st (pre ++ OCheat c :: post) = m_run st (pre ++ post).
Proof.
  induction pre as [|o r IH]; intros c post st; cbn [app m_run].
  - rewrite cheat_step_id. reflexivity.
  - destruct (m_step st o) as [|st' out]; [reflexivity|]. f_equal. apply IH.
Qed.

(* ---------------------------------------------------------------- reject *)
Definition is_prank_op (o : op) : bool :=
  match o with OPrank _ | OPrank2 _ _ | OStartPrank _ | OStartPrank2 _ _ => true | _ => false end.

Lemma prank_reject_model : forall f rest o ops,
  is_prank_op o = true -> prank_bool (m_prank f) = true -> m_run (f :: rest) (o :: ops) = [ObsError].
Proof.
  intros f rest o ops Ho Hp.
  destruct o; try discriminate; cbn [m_run m_step]; unfold m_set_prank;
    rewrite resolve_exempt by exact exempt_hevm; unfold do_prank; cbn;
    unfold prank_bool in Hp; rewrite Hp; reflexivity.
Qed.

Lemma prank_accept_model : forall f rest o,
  is_prank_op o = true -> prank_bool (m_prank f) = false ->
  exists p, m_step (f :: rest) o = MOk (m_with f p :: rest) [] /\ prank_bool p = true.
Proof.
  intros f rest o Ho Hp.
  destruct o; try discriminate; cbn [m_step]; unfold m_set_prank;
    rewrite resolve_exempt by exact exempt_hevm; unfold do_prank; cbn;
    unfold prank_bool in Hp; rewrite Hp; eexists; split; reflexivity.
Qed.

(* a prank is active in the model exactly when the spec says one is in force *)
Lemma active_iff_in_effect : forall sf mf, frel sf mf ->
  prank_bool (m_prank mf) = match in_effect (s_hist sf) false with Some _ => true | None => false end.
Proof.
  intros sf mf (_ & _ & _ & Hp). rewrite Hp, in_effect_scan. unfold abs_prank.
  destruct (scan (s_hist sf) false) as [[[k s] o]|]; reflexivity.
Qed.

(* states reached by running a prefix *)
Fixpoint m_after (st : list mframe) (ops : list op) : option (list mframe) :=
  match ops with
  | [] => Some st
  | o :: r => match m_step st o with MErr => None | MOk st' _ => m_after st' r end
  end.
Fixpoint s_after (st : list sframe) (ops : list op) : option (list sframe) :=
  match ops with
  | [] => Some st
  | o :: r => match s_step st o with SErr => None | SOk st' _ => s_after st' r end
  end.

Lemma after_sim : forall ops ss ms, Forall2 frel ss ms -> Forall target_ok ops ->
  match s_after ss ops, m_after ms ops with
  | Some ss', Some ms' => Forall2 frel ss' ms'
  | None, None => True
  | _, _ => False
  end.
Proof.
  induction ops as [|o r IH]; intros ss ms HF Hto; cbn; [exact HF|].
  inversion Hto as [|? ? Hto1 Hto2]; subst.
  pose proof (step_sim ss ms o HF Hto1) as Hs.
  destruct (s_step ss o); destruct (m_step ms o); cbn in Hs; try contradiction; auto.
  destruct Hs. apply IH; assumption.
Qed.

Lemma m_run_app : forall pre st post st',
  m_after st pre = Some st' -> m_run st (pre ++ post) = m_run st pre ++ m_run st' post.
Proof.
  induction pre as [|o r IH]; intros st post st' H; cbn in *.
  - inversion H. reflexivity.
  - destruct (m_step st o); [discriminate|]. rewrite <- app_assoc. f_equal. apply IH. exact H.
Qed.

(* C14_prank_reject, history form: after any accepted prefix, if Foundry's reading says a
   prank is in force for the current frame, a further prank/startPrank is an error *)
Theorem prank_reject : forall this sender origin pre o post sf srest,
  Forall target_ok pre ->
  s_after [s_fresh this sender origin] pre = Some (sf :: srest) ->
  in_effect (s_hist sf) false <> None -> is_prank_op o = true ->
  m_run [m_fresh this sender origin] (pre ++ o :: post) =
  m_run [m_fresh this sender origin] pre ++ [ObsError].
Proof.
  intros this sender origin pre o post sf srest Hto Hs Hin Ho.
  pose proof (after_sim pre [s_fresh this sender origin] [m_fresh this sender origin]) as Ha.
  rewrite Hs in Ha.
  destruct (m_after [m_fresh this sender origin] pre) as [ms'|] eqn:Em.
  2:{ exfalso. apply Ha; auto. constructor; [apply frel_fresh|constructor]. }
  assert (HF : Forall2 frel (sf :: srest) ms').
  { apply Ha; auto. constructor; [apply frel_fresh|constructor]. }
  inversion HF as [|? mf ? mrest Hf Hr]; subst.
  rewrite (m_run_app pre _ (o :: post) _ Em). f_equal.
  apply prank_reject_model; [exact Ho|].
  rewrite (active_iff_in_effect sf mf Hf). destruct (in_effect (s_hist sf) false); [reflexivity|congruence].
Qed.

(* and it is accepted otherwise *)
Theorem prank_accept : forall this sender origin pre o sf srest,
  Forall target_ok pre ->
  s_after [s_fresh this sender origin] pre = Some (sf :: srest) ->
  in_effect (s_hist sf) false = None -> is_prank_op o = true ->
  m_after [m_fresh this sender origin] (pre ++ [o]) <> None.
Proof.
  intros this sender origin pre o sf srest Hto Hs Hin Ho.
  pose proof (after_sim pre [s_fresh this sender origin] [m_fresh this sender origin]) as Ha.
  rewrite Hs in Ha.
  destruct (m_after [m_fresh this sender origin] pre) as [ms'|] eqn:Em.
  2:{ exfalso. apply Ha; auto. constructor; [apply frel_fresh|constructor]. }
  assert (HF : Forall2 frel (sf :: srest) ms').
  { apply Ha; auto. constructor; [apply frel_fresh|constructor]. }
  inversion HF as [|? mf ? mrest Hf Hr]; subst.
  assert (Happ : forall pre st st', m_after st pre = Some st' -> m_after st (pre ++ [o]) = m_after st' [o]).
  { induction pre0 as [|x r IH]; intros st st' H; cbn in *; [inversion H; reflexivity|].
    destruct (m_step st x); [discriminate|]. apply IH. exact H. }
  rewrite (Happ _ _ _ Em).
  destruct (prank_accept_model mf mrest o Ho) as [p [Hst _]].
  { rewrite (active_iff_in_effect sf mf Hf), Hin. reflexivity. }
  cbn [m_after]. rewrite Hst. discriminate.
Qed.

(* ---------------------------------------------------------------- structural corollaries of the spec
   (what "exactly the calls Foundry specifies" means, stated on the model) *)

(* a frame just entered never inherits the caller's prank *)
Lemma entered_frame_is_clean : forall f rest k a st' out,
  m_step (f :: rest) (OCall k a) = MOk st' out ->
  exists g tl, st' = g :: tl /\ m_prank g = fresh_prank.
Proof.
  intros f rest k a st' out H. cbn in H.
  destruct (resolve_prank f a) as [[s o] f1]. inversion H. eexists. eexists. split; reflexivity.
Qed.

(* a new transaction starts without any prank *)
Lemma new_tx_is_clean : forall st t s o, m_step st (ONewTx t s o) = MOk [m_fresh t s o] [].
Proof. intros st t s o. destruct st; reflexivity. Qed.
