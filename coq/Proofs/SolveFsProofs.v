(* Proofs for C04, file-system level: whatever the dump directory holds beforehand, the
   solver is handed the text of the current query, and solve_end_to_end's outcome is the
   outcome of SolveModel.solve_e2e on the solver's answers to the current query and to its
   refinement. *)
From Coq Require Import ZArith List String Ascii Bool Lia.
From HV Require Import Model.SexpDefs Gen.GenRefine Spec.SmtQuerySpec Model.SmtTextModel
  Model.SolveModel Model.SolveFsDefs Gen.GenSolveFs Model.SolveFsModel Proofs.SolveProofs.
Import ListNotations.
Open Scope Z_scope.

(* ------------------------------------------------------------------ strings / directory *)
Lemma app_nil_r_s : forall s : string, (s ++ "")%string = s.
Proof. induction s as [|a s IH]; simpl; [reflexivity | now rewrite IH]. Qed.

Lemma app_length_s : forall a b : string, String.length (a ++ b) = (String.length a + String.length b)%nat.
Proof. induction a as [|x a IH]; intros b; simpl; [reflexivity | now rewrite IH]. Qed.

Lemma app_neq_self : forall (s : string) a t, (s ++ String a t)%string <> s.
Proof.
  intros s a t H. apply (f_equal String.length) in H. rewrite app_length_s in H. simpl in H. lia.
Qed.

Lemma eqb_app_self : forall (s : string) a t, String.eqb (s ++ String a t) s = false.
Proof. intros s a t. apply String.eqb_neq. apply app_neq_self. Qed.

Lemma dir_get_put_same : forall d n x, dir_get (dir_put d n x) n = Some x.
Proof. intros d n x. unfold dir_put. cbn [dir_get]. now rewrite String.eqb_refl. Qed.

Lemma dir_get_put_other : forall d n m x, String.eqb n m = false -> dir_get (dir_put d n x) m = dir_get d m.
Proof. intros d n m x H. unfold dir_put. cbn [dir_get]. now rewrite H. Qed.

(* ------------------------------------------------------------------ dump *)
(* solve.dump writes the text of the current query to the query file, whatever was there *)
Lemma run_dump_spec : forall solver c s,
  run_dump solver c s = RGo (mkSt (dir_put (st_dir s) (dump_name c) (query_text c)) (st_out s)).
Proof.
  intros solver c s. unfold run_dump, gen_dump, query_text.
  cbn [exec_list exec eval_cond].
  destruct (cache c); reflexivity.
Qed.

(* ------------------------------------------------------------------ solve_low_level *)
Definition dir_after (c : pctx) (d : dir) (a : option (string * string)) : dir :=
  let d0 := dir_put d (dump_name c) (query_text c) in
  match a with
  | None => d0
  | Some (o, e) =>
      let d1 := dir_put d0 (dump_name c ++ ".out") o in
      if String.eqb e "" then d1 else dir_put d1 (dump_name c ++ ".err") e
  end.

Definition answer_outcome (a : option (string * string)) : outcome :=
  match a with Some (o, _) => from_result o | None => OUnknown end.

Lemma app_inj_l : forall (s a b : string), (s ++ a)%string = (s ++ b)%string -> a = b.
Proof. induction s as [|x s IH]; simpl; intros a b H; [exact H | inversion H; auto]. Qed.

(* directories are compared by content (the order of independent writes does not matter) *)
Definition dir_equiv (a b : dir) : Prop := forall n, dir_get a n = dir_get b n.

(* both sides are chains of writes to <name>, <name>.out, <name>.err over the same directory *)
Ltac dir_ext :=
  let n := fresh "n" in
  intro n; unfold dir_put; cbn [st_dir st_out]; cbn [dir_get];
  repeat match goal with
         | |- context [String.eqb ?a n] =>
             let E := fresh "E" in destruct (String.eqb a n) eqn:E
         end;
  try reflexivity;
  exfalso;
  repeat match goal with H : String.eqb _ n = true |- _ => apply String.eqb_eq in H end;
  repeat match goal with H : String.eqb _ n = false |- _ => clear H end;
  match goal with
  | H1 : ?x = n, H2 : ?y = n |- _ =>
      rewrite <- H2 in H1;
      first [ apply app_inj_l in H1; discriminate
            | apply app_neq_self in H1; exact H1
            | symmetry in H1; apply app_neq_self in H1; exact H1 ]
  end.

Ltac low_step :=
  cbn [exec_list exec eval_cond st_dir st_out file_of negb answer_outcome];
  rewrite ?run_dump_spec; cbn [st_dir st_out];
  rewrite ?app_nil_r_s, ?dir_get_put_same.

Lemma run_low_spec : forall solver c d,
  exists d1,
    run_low solver c d = (Some (answer_outcome (solver (Some (query_text c)))), d1) /\
    dir_equiv d1 (dir_after c d (solver (Some (query_text c)))).
Proof.
  intros solver c d. unfold run_low, gen_low_level.
  (* evaluate the regenerated program statement by statement; split on whatever it inspects:
     the presence of a file in the (arbitrary) directory, the solver's answer, its stderr *)
  repeat (low_step;
          try match goal with
              | |- context [match dir_get d ?nn with _ => _ end] =>
                  let E := fresh "Ed" in destruct (dir_get d nn) eqn:E
              | |- context [match solver ?q with _ => _ end] =>
                  let E := fresh "Es" in destruct (solver q) as [[? ?]|] eqn:E
              | |- context [String.eqb ?e ""] =>
                  let E := fresh "Ee" in destruct (String.eqb e "") eqn:E
              end).
  all: eexists; (split; [reflexivity|]); unfold dir_equiv, dir_after;
       repeat match goal with H : String.eqb _ "" = _ |- _ => rewrite ?H; clear H end; dir_ext.
Qed.

Lemma answer_outcome_text : forall solver q,
  answer_outcome (solver (Some q)) = from_result (answer_text solver q).
Proof.
  intros solver q. unfold answer_outcome, answer_text.
  destruct (solver (Some q)) as [[o e]|]; reflexivity.
Qed.

(* the files left behind belong to the current query *)
Lemma dir_after_query : forall c d a, dir_get (dir_after c d a) (dump_name c) = Some (query_text c).
Proof.
  intros c d a. unfold dir_after. destruct a as [[o e]|]; [|apply dir_get_put_same].
  destruct (String.eqb e "").
  - rewrite dir_get_put_other by apply eqb_app_self. apply dir_get_put_same.
  - rewrite dir_get_put_other by apply eqb_app_self.
    rewrite dir_get_put_other by apply eqb_app_self. apply dir_get_put_same.
Qed.

Lemma dir_after_out : forall c d o e,
  dir_get (dir_after c d (Some (o, e))) (dump_name c ++ ".out") = Some o.
Proof.
  intros c d o e. unfold dir_after. destruct (String.eqb e "").
  - apply dir_get_put_same.
  - rewrite dir_get_put_other; [apply dir_get_put_same|].
    apply String.eqb_neq. intro H. apply app_inj_l in H. discriminate.
Qed.

Lemma run_low_current_query : forall solver c d,
  exists d1,
    run_low solver c d =
      (Some (match solver (Some (query_text c)) with Some (o, _) => from_result o | None => OUnknown end), d1) /\
    dir_get d1 (dump_name c) = Some (query_text c) /\
    (forall o e, solver (Some (query_text c)) = Some (o, e) ->
                 dir_get d1 (dump_name c ++ ".out") = Some o).
Proof.
  intros solver c d. destruct (run_low_spec solver c d) as [d1 [H1 H2]].
  exists d1. split; [exact H1|]. split; [rewrite H2; apply dir_after_query|].
  intros o e H. rewrite H2, H. apply dir_after_out.
Qed.

(* ------------------------------------------------------------------ file names *)
(* paths of one function are solved concurrently in one directory: distinct (path id, refined)
   pairs get distinct query files, and a query file is never another path's .out / .err *)
Lemma digit_char_is_digit : forall d, 0 <= d < 10 -> is_digit (digit_char d) = true.
Proof.
  intros d Hd.
  assert (H : In d [0;1;2;3;4;5;6;7;8;9]) by (simpl; lia).
  simpl in H.
  repeat (destruct H as [<-|H]; [vm_compute; reflexivity|]). contradiction.
Qed.

Lemma all_digits_app : forall a b, all_digits (a ++ b) = all_digits a && all_digits b.
Proof. induction a as [|x a IH]; intros b; simpl; [reflexivity | now rewrite IH, andb_assoc]. Qed.

Lemma print_dec_go_digits : forall f n, 0 <= n -> all_digits (print_dec_go f n) = true.
Proof.
  induction f as [|f IH]; intros n Hn; [reflexivity|].
  cbn [print_dec_go]. destruct (n =? 0); [reflexivity|].
  rewrite all_digits_app, IH by (apply Z.div_pos; lia). simpl.
  rewrite digit_char_is_digit by (apply Z.mod_pos_bound; lia). reflexivity.
Qed.

Lemma print_dec_digits : forall n, 0 <= n -> all_digits (print_dec n) = true.
Proof.
  intros n Hn. unfold print_dec. destruct (n =? 0); [reflexivity | apply print_dec_go_digits; exact Hn].
Qed.

Lemma print_dec_inj : forall a b, 0 <= a -> 0 <= b -> print_dec a = print_dec b -> a = b.
Proof.
  intros a b Ha Hb H. apply (f_equal (py_int 10)) in H.
  rewrite !py_int_print_dec in H by assumption. now inversion H.
Qed.

Definition nondigit_head (t : string) : Prop :=
  match t with String ch _ => is_digit ch = false | EmptyString => False end.

(* a run of digits followed by something that starts with a non-digit splits uniquely *)
Lemma digits_split : forall a b t1 t2,
  all_digits a = true -> all_digits b = true -> nondigit_head t1 -> nondigit_head t2 ->
  (a ++ t1)%string = (b ++ t2)%string -> a = b /\ t1 = t2.
Proof.
  induction a as [|x a IH]; intros b t1 t2 Ha Hb H1 H2 H.
  - destruct b as [|y b]; [split; [reflexivity | exact H]|].
    simpl in H. destruct t1 as [|ch t1]; [contradiction|]. inversion H; subst.
    simpl in H1, Hb. apply andb_true_iff in Hb. destruct Hb as [Hy _]. congruence.
  - destruct b as [|y b].
    + simpl in H. destruct t2 as [|ch t2]; [contradiction|]. inversion H; subst.
      simpl in H2, Ha. apply andb_true_iff in Ha. destruct Ha as [Hx _]. congruence.
    + simpl in H. inversion H; subst. simpl in Ha, Hb.
      apply andb_true_iff in Ha. apply andb_true_iff in Hb.
      destruct (IH b t1 t2) as [-> ->]; try tauto; try (split; reflexivity).
Qed.

Definition name_tail (r : bool) : string :=
  ((if r then gen_refined_infix else gen_plain_infix) ++ gen_query_ext)%string.

Lemma dump_name_split : forall c, dump_name c = (print_dec (path_id c) ++ name_tail (refined c))%string.
Proof. reflexivity. Qed.

Lemma name_tail_head : forall r sfx, nondigit_head (name_tail r ++ sfx).
Proof. intros [|] sfx; vm_compute; reflexivity. Qed.

Lemma dump_name_inj : forall c1 c2, 0 <= path_id c1 -> 0 <= path_id c2 ->
  dump_name c1 = dump_name c2 -> path_id c1 = path_id c2 /\ refined c1 = refined c2.
Proof.
  intros c1 c2 H1 H2 H. rewrite !dump_name_split in H.
  rewrite <- (app_nil_r_s (name_tail (refined c1))), <- (app_nil_r_s (name_tail (refined c2))) in H.
  apply digits_split in H; try apply print_dec_digits; try apply name_tail_head; try assumption.
  destruct H as [Hn Ht]. split; [apply print_dec_inj; assumption|].
  destruct (refined c1), (refined c2); try reflexivity; vm_compute in Ht; discriminate.
Qed.

Lemma app_assoc_s : forall a b c : string, ((a ++ b) ++ c)%string = (a ++ (b ++ c))%string.
Proof. induction a as [|x a IH]; intros; simpl; [reflexivity | now rewrite IH]. Qed.

Lemma dump_name_not_output : forall c1 c2 sfx, 0 <= path_id c1 -> 0 <= path_id c2 ->
  sfx = ".out"%string \/ sfx = ".err"%string ->
  dump_name c1 <> (dump_name c2 ++ sfx)%string.
Proof.
  intros c1 c2 sfx H1 H2 Hs H. rewrite !dump_name_split, app_assoc_s in H.
  rewrite <- (app_nil_r_s (name_tail (refined c1))) in H.
  apply digits_split in H; try apply print_dec_digits; try apply name_tail_head; try assumption.
  destruct H as [_ Ht].
  destruct Hs as [-> | ->]; destruct (refined c1), (refined c2); vm_compute in Ht; discriminate.
Qed.

(* ------------------------------------------------------------------ solve_end_to_end *)
Definition refine_changes (rf : string -> string) (c : pctx) : bool :=
  negb (String.eqb (rf (smtlib c)) (smtlib c)).

Lemma solve_e2e_fs_spec : forall solver rf core_hit c d,
  fst (solve_e2e_fs solver rf core_hit c d) =
  (let ok := solve_e2e core_hit (refined c) (answer_text solver (query_text c)) (refine_changes rf c)
               (answer_text solver (query_text (refine_ctx rf c))) in
   (Some (fst ok), snd ok)).
Proof.
  intros solver rf core_hit c d. unfold solve_e2e_fs, solve_e2e, refine_changes.
  destruct core_hit; [reflexivity|].
  destruct (run_low_spec solver c d) as [d1 [-> _]]. rewrite answer_outcome_text.
  destruct (from_result (answer_text solver (query_text c))) as [|v s| |]; try reflexivity.
  destruct v; [reflexivity|].
  destruct (refined c); cbn [negb]; [reflexivity|].
  cbn [refine_ctx smtlib].
  destruct (negb (String.eqb (rf (smtlib c)) (smtlib c))); [|reflexivity].
  destruct (run_low_spec solver (refine_ctx rf c) d1) as [d2 [H2 _]].
  cbn [refine_ctx] in H2. rewrite H2, answer_outcome_text. reflexivity.
Qed.

(* the outcome does not depend on what the directory held *)
Lemma solve_e2e_fs_dir_independent : forall solver rf core_hit c d d',
  fst (solve_e2e_fs solver rf core_hit c d) = fst (solve_e2e_fs solver rf core_hit c d').
Proof. intros. now rewrite !solve_e2e_fs_spec. Qed.

Lemma from_result_sat_line : forall out v s, from_result out = OSat v s -> first_line out = "sat"%string /\ s = out.
Proof.
  intros out v s H. unfold from_result in H.
  destruct (String.eqb (first_line out) "unsat"); [discriminate|].
  destruct (String.eqb (first_line out) "sat") eqn:E.
  - apply String.eqb_eq in E. inversion H; subst. auto.
  - destruct (String.eqb (first_line out) "unknown"); discriminate.
Qed.

Lemma from_result_unknown : forall v s, from_result "unknown" <> OSat v s.
Proof. intros v s. vm_compute. discriminate. Qed.

Section Sound.
  (* satisfies out q: the model printed in the solver output `out` satisfies the query file
     text q.  The solver is assumed sound: when it answers sat on a file, the model it prints
     satisfies that file. *)
  Variable satisfies : string -> string -> Prop.
  Variable solver : solver_t.
  Hypothesis solver_sound : forall q o e,
    solver (Some q) = Some (o, e) -> first_line o = "sat"%string -> satisfies o q.

  Lemma answer_text_sat : forall q v s,
    from_result (answer_text solver q) = OSat v s -> satisfies s q.
  Proof.
    intros q v s H. unfold answer_text in H.
    destruct (solver (Some q)) as [[o e]|] eqn:E.
    - apply from_result_sat_line in H. destruct H as [Hl ->]. eapply solver_sound; eauto.
    - exfalso. eapply from_result_unknown; eauto.
  Qed.

  Lemma valid_cex_satisfies_current_query : forall rf core_hit c d s k d',
    solve_e2e_fs solver rf core_hit c d = (Some (OSat true s), k, d') ->
    contains invalid_marker s = false /\
    (satisfies s (query_text c) \/
     (refined c = false /\ satisfies s (query_text (refine_ctx rf c)))).
  Proof.
    intros rf core_hit c d s k d' H.
    pose proof (solve_e2e_fs_spec solver rf core_hit c d) as Hs. rewrite H in Hs. cbn [fst] in Hs.
    destruct (solve_e2e core_hit (refined c) (answer_text solver (query_text c)) (refine_changes rf c)
                (answer_text solver (query_text (refine_ctx rf c)))) as [o k'] eqn:E.
    cbn [fst snd] in Hs. inversion Hs; subst o k'. clear Hs.
    unfold solve_e2e in E. destruct core_hit; [discriminate|].
    destruct (from_result (answer_text solver (query_text c))) as [|v s1| |] eqn:E1; try discriminate.
    destruct v.
    - inversion E; subst s1 k. split.
      + pose proof (from_result_valid _ _ E1) as [Heq Hc]. rewrite Heq. exact Hc.
      + left. eapply answer_text_sat. exact E1.
    - destruct (refined c) eqn:Hr; cbn [negb] in E; [discriminate|].
      destruct (refine_changes rf c); [|discriminate].
      inversion E as [[E2 Hk]]. split.
      + pose proof (from_result_valid _ _ E2) as [Heq Hc]. rewrite Heq. exact Hc.
      + right. split; [reflexivity|]. eapply answer_text_sat. exact E2.
  Qed.
End Sound.
