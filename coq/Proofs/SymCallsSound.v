(* Soundness of the mini-SEVM with calls and creations (Model/SymCalls.v) against the
   reference interpreter Spec/Evm.v. *)
From Coq Require Import ZArith List Bool Lia Arith.
From HV Require Import Gen.GenBranch Base.Word Spec.Evm Gen.GenJumpi Model.SymExec Model.SymCalls
  Proofs.SymExecLemmas Proofs.SymExecSound Proofs.EvmMono Proofs.SymCallsLemmas.
Import ListNotations.
Open Scope Z_scope.

Lemma get_writes_head : forall a l m, get_writes ((a, l) :: m) a = l.
Proof. intros. unfold get_writes. cbn. rewrite Z.eqb_refl. reflexivity. Qed.

Lemma get_writes_other : forall a b l m, b <> a -> get_writes ((a, l) :: m) b = get_writes m b.
Proof.
  intros a b l m H. unfold get_writes. cbn.
  destruct (b =? a) eqn:E; [apply Z.eqb_eq in E; contradiction | reflexivity].
Qed.

(* ---- the concrete argument parsing of do_call, named ---- *)
Definition cargs (op : Z) (st : list Z) : option (Z * Z * Z * Z * Z * Z * list Z) :=
  match op, st with
  | 241, _ :: to :: v :: ao :: asz :: ro :: rsz :: r => Some (to, v, ao, asz, ro, rsz, r)
  | 242, _ :: to :: v :: ao :: asz :: ro :: rsz :: r => Some (to, v, ao, asz, ro, rsz, r)
  | 244, _ :: to :: ao :: asz :: ro :: rsz :: r => Some (to, 0, ao, asz, ro, rsz, r)
  | 250, _ :: to :: ao :: asz :: ro :: rsz :: r => Some (to, 0, ao, asz, ro, rsz, r)
  | _, _ => None
  end.

Definition call_ops : list Z := [241; 242; 244; 250].

Definition decode_call_ok (opc : Z) : bool :=
  match decode_op opc with
  | ICall op => (op =? opc) && existsb (Z.eqb op) call_ops
  | _ => true
  end.

Lemma decode_call_table : forallb decode_call_ok (map Z.of_nat (seq 0 256)) = true.
Proof. vm_compute. reflexivity. Qed.

Lemma decode_call_op : forall opc op, 0 <= opc < 256 -> decode_op opc = ICall op -> In op call_ops.
Proof.
  intros opc op Hr Hd. pose proof decode_call_table as T. rewrite forallb_forall in T.
  assert (Hin : In opc (map Z.of_nat (seq 0 256))).
  { apply in_map_iff. exists (Z.to_nat opc). split; [lia|]. apply in_seq. lia. }
  specialize (T opc Hin). unfold decode_call_ok in T. rewrite Hd in T.
  apply andb_true_iff in T. destruct T as [_ T]. apply existsb_exists in T.
  destruct T as [x [Hx Heq]]. apply Z.eqb_eq in Heq. subst x. exact Hx.
Qed.

Section CS.
Variable lim : Z.
Variable special : Z -> bool.
Variable oracle : list cond -> term -> bool -> Z.
Variable loop : Z.
Variable rho : var -> Z.

Definition inst_frame (fr : frame) : env :=
  mkEnv (f_this fr) (f_code fr) (eval rho (f_caller fr)) (eval rho (f_origin fr))
        (eval rho (f_value fr)) (map (beval rho) (f_data fr)) (f_static fr) (f_depth fr) (f_block fr).

Lemma inst_frame_eq : forall fr w, inst_env (se_of fr w) rho = inst_frame fr.
Proof. reflexivity. Qed.

Definition bytes_ok (c : list Z) : Prop := Forall (fun b => 0 <= b < 256) c.

(* the symbolic world describes the concrete one under rho *)
Record WA (w : sworld) (cw : world) : Prop := mkWA {
  WA_code : forall a, get_code cw a = sw_get_code w a;
  WA_acc : forall a, has_account cw a = sw_has_account w a;
  WA_store : forall a k, sload_of (w_storage cw) a k = lookupZ k (map (evalp rho) (get_writes (sw_store w) a));
  WA_tstore : forall a k, sload_of (w_transient cw) a k = lookupZ k (map (evalp rho) (get_writes (sw_tstore w) a));
  WA_bal : forall a, get_balance cw a = eval rho (sw_balance w a);
  WA_codes_ok : forall a, bytes_ok (sw_get_code w a);
}.

Record R2 (fr : frame) (w : sworld) (ctr : Z) (sg : sstate) (s : mstate) : Prop := mkR2 {
  R2_pc : s_pc s = ss_pc sg;
  R2_stack : s_stack s = map (eval rho) (ss_stack sg);
  R2_len : (length (ss_stack sg) <= 1024)%nat;
  R2_mem : forall i, nth i (s_mem s) 0 = nth i (map (beval rho) (ss_mem sg)) 0;
  R2_ret : s_ret s = map (beval rho) (ss_ret sg);
  R2_ctr : s_ctr s = ctr;
  R2_world : WA (sync fr w sg) (s_world s);
  R2_code : bytes_ok (f_code fr);
}.

Lemma R2_R : forall fr w ctr sg s, R2 fr w ctr sg s -> R (se_of fr w) rho sg s.
Proof.
  intros fr w ctr sg s [h1 h2 h3 h4 h5 h6 h7 h8]. destruct h7 as [c1 c2 c3 c4 c5 c6].
  constructor; auto.
  - intros k. cbn [se_this se_of]. rewrite c3. cbn [sw_store sync]. rewrite get_writes_head. reflexivity.
  - intros k. cbn [se_this se_of]. rewrite c4. cbn [sw_tstore sync]. rewrite get_writes_head. reflexivity.
Qed.

(* from the frame-level relation R after a local step back to R2 *)
Lemma R_R2 : forall fr w ctr sg s sg' s',
  R2 fr w ctr sg s -> R (se_of fr w) rho sg' s' -> rest_same (f_this fr) s s' ->
  R2 fr w ctr sg' s'.
Proof.
  intros fr w ctr sg s sg' s' H2 HR Hrest.
  destruct H2 as [h1 h2 h3 h4 h5 h6 h7 h8]. destruct h7 as [c1 c2 c3 c4 c5 c6].
  destruct HR as [r1 r2 r3 r4 r5 r6 r7 r8].
  destruct Hrest as [e1 [e2 [e3 [e4 e5]]]].
  constructor; auto; try congruence.
  constructor.
  - intros a. unfold get_code. rewrite e2. apply c1.
  - intros a. unfold has_account. rewrite e2. apply c2.
  - intros a k. cbn [sw_store sync]. destruct (Z.eq_dec a (f_this fr)) as [->|Hne].
    + rewrite get_writes_head. apply r5.
    + rewrite get_writes_other by exact Hne. rewrite e4 by exact Hne. rewrite c3.
      cbn [sw_store sync]. rewrite get_writes_other by exact Hne. reflexivity.
  - intros a k. cbn [sw_tstore sync]. destruct (Z.eq_dec a (f_this fr)) as [->|Hne].
    + rewrite get_writes_head. apply r6.
    + rewrite get_writes_other by exact Hne. rewrite e5 by exact Hne. rewrite c4.
      cbn [sw_tstore sync]. rewrite get_writes_other by exact Hne. reflexivity.
  - intros a. apply r7.
  - exact c6.
Qed.

Definition outcome2 (k : kind2) (r : result) : Prop :=
  match k with
  | K2Ok ret w ctr => exists cw logs, r = ROk cw ctr (map (beval rho) ret) logs /\ WA w cw
  | K2Revert ret ctr => r = RRevert ctr (map (beval rho) ret)
  | K2Halt kd ctr => r = RHalt ctr kd
  | K2Stuck _ | K2Fuel => True
  end.

Definition sound_rec (rec : recfun) : Prop :=
  forall fr w ctr sg s,
    R2 fr w ctr sg s ->
    forall l, In l (fst (rec fr w ctr sg)) -> sat rho (l2_path l) ->
    exists n, outcome2 (l2_kind l) (exec lim n (inst_frame fr) s).

Definition extends_rec (rec : recfun) : Prop :=
  forall fr w ctr sg l, In l (fst (rec fr w ctr sg)) -> exists pre, l2_path l = pre ++ ss_path sg.

Definition rs0 : env -> world -> Z -> result := fun _ _ _ => RFuel.

(* exec with one more unit of fuel, when the step does not consult the sub-frame runner *)
Lemma exec_step_continue : forall n e s s',
  (forall rs, step lim rs e s = Continue s') -> exec lim (S n) e s = exec lim n e s'.
Proof. intros n e s s' H. cbn [exec]. rewrite H. reflexivity. Qed.

Lemma exec_step_done : forall n e s r,
  (forall rs, step lim rs e s = Done r) -> exec lim (S n) e s = r.
Proof. intros n e s r H. cbn [exec]. rewrite H. reflexivity. Qed.

Lemma sat_app2 : forall p q, sat rho (p ++ q) -> sat rho q.
Proof. intros p q H. unfold sat in *. apply Forall_app in H. tauto. Qed.

Lemma step_i_irrel : forall i rs1 rs2 e s,
  is_sub i = false -> step_i lim rs1 i e s = step_i lim rs2 i e s.
Proof. intros i rs1 rs2 e s H. destruct i; try discriminate H; reflexivity. Qed.

Lemma WA_replace_this : forall fr w sg cw st tst,
  WA (sync fr w sg) cw ->
  (forall k, sload_of (w_storage cw) (f_this fr) k = lookupZ k (map (evalp rho) st)) ->
  (forall k, sload_of (w_transient cw) (f_this fr) k = lookupZ k (map (evalp rho) tst)) ->
  WA (mkSW (sw_code w) ((f_this fr, st) :: sw_store w) ((f_this fr, tst) :: sw_tstore w) (sw_bal w)) cw.
Proof.
  intros fr w sg cw st tst [c1 c2 c3 c4 c5 c6] H1 H2. constructor; auto.
  - intros a k. cbn [sw_store]. destruct (Z.eq_dec a (f_this fr)) as [->|Hne].
    + rewrite get_writes_head. apply H1.
    + rewrite get_writes_other by exact Hne. rewrite c3. cbn [sw_store sync].
      rewrite get_writes_other by exact Hne. reflexivity.
  - intros a k. cbn [sw_tstore]. destruct (Z.eq_dec a (f_this fr)) as [->|Hne].
    + rewrite get_writes_head. apply H2.
    + rewrite get_writes_other by exact Hne. rewrite c4. cbn [sw_tstore sync].
      rewrite get_writes_other by exact Hne. reflexivity.
Qed.

(* the concrete parsing, in the same shape *)
Definition cargs' (op : Z) (st : list Z) : option (Z * Z * Z * Z * Z * Z * list Z) :=
  let with_value := (op =? 241) || (op =? 242) in
  match st with
  | _ :: to :: rest =>
      let vr := if with_value then match rest with v :: r' => Some (v, r') | [] => None end
                else Some (0, rest) in
      match vr with
      | Some (v, ao :: asz :: ro :: rsz :: r) => Some (to, v, ao, asz, ro, rsz, r)
      | _ => None
      end
  | _ => None
  end.

Lemma cargs_eq : forall op st, In op call_ops -> cargs op st = cargs' op st.
Proof.
  intros op st Hop. unfold call_ops in Hop. cbn [In] in Hop.
  destruct Hop as [<-|[<-|[<-|[<-|[]]]]];
    repeat (destruct st as [|? st]; try reflexivity).
Qed.

Lemma as_const_eval : forall t z, as_const t = Some z -> eval rho t = z.
Proof. intros t z H. destruct t; try discriminate. inversion H. reflexivity. Qed.

Lemma call_args_none : forall op st,
  call_args op st = None -> cargs' op (map (eval rho) st) = None.
Proof.
  intros op st H. unfold call_args, cargs' in *.
  destruct st as [|g [|to rest]]; cbn [map]; try reflexivity.
  destruct ((op =? 241) || (op =? 242)).
  - destruct rest as [|v [|ao [|asz [|ro [|rsz r]]]]]; cbn [map]; try reflexivity.
    destruct (as_const to), (as_const ao), (as_const asz), (as_const ro), (as_const rsz); discriminate.
  - destruct rest as [|ao [|asz [|ro [|rsz r]]]]; cbn [map]; try reflexivity.
    destruct (as_const to), (as_const ao), (as_const asz), (as_const ro), (as_const rsz); discriminate.
Qed.

Lemma call_args_some : forall op st to0 v ao asz ro rsz r,
  call_args op st = Some (Some (to0, v, ao, asz, ro, rsz, r)) ->
  cargs' op (map (eval rho) st) = Some (to0, eval rho v, ao, asz, ro, rsz, map (eval rho) r).
Proof.
  intros op st to0 v ao asz ro rsz r H. unfold call_args, cargs' in *.
  destruct st as [|g [|to rest]]; try discriminate. cbn [map].
  destruct ((op =? 241) || (op =? 242)).
  - destruct rest as [|v' [|ao' [|asz' [|ro' [|rsz' r']]]]]; try discriminate. cbn [map].
    destruct (as_const to) eqn:E1, (as_const ao') eqn:E2, (as_const asz') eqn:E3, (as_const ro') eqn:E4, (as_const rsz') eqn:E5; try discriminate.
    inversion H; subst.
    rewrite (as_const_eval _ _ E1), (as_const_eval _ _ E2), (as_const_eval _ _ E3), (as_const_eval _ _ E4), (as_const_eval _ _ E5).
    reflexivity.
  - destruct rest as [|ao' [|asz' [|ro' [|rsz' r']]]]; try discriminate. cbn [map].
    destruct (as_const to) eqn:E1, (as_const ao') eqn:E2, (as_const asz') eqn:E3, (as_const ro') eqn:E4, (as_const rsz') eqn:E5; try discriminate.
    inversion H; subst.
    rewrite (as_const_eval _ _ E1), (as_const_eval _ _ E2), (as_const_eval _ _ E3), (as_const_eval _ _ E4), (as_const_eval _ _ E5).
    reflexivity.
Qed.

(* ---- world agreement: congruence, transfers, resuming the caller ---- *)
Definition sw_equiv (w1 w2 : sworld) : Prop :=
  (forall a, sw_get_code w1 a = sw_get_code w2 a) /\
  (forall a, sw_has_account w1 a = sw_has_account w2 a) /\
  (forall a, get_writes (sw_store w1) a = get_writes (sw_store w2) a) /\
  (forall a, get_writes (sw_tstore w1) a = get_writes (sw_tstore w2) a) /\
  (forall a, sw_balance w1 a = sw_balance w2 a).

Lemma WA_equiv : forall w1 w2 cw, sw_equiv w1 w2 -> WA w1 cw -> WA w2 cw.
Proof.
  intros w1 w2 cw [e1 [e2 [e3 [e4 e5]]]] [c1 c2 c3 c4 c5 c6]. constructor; intros.
  - rewrite <- e1. apply c1.
  - rewrite <- e2. apply c2.
  - rewrite <- e3. apply c3.
  - rewrite <- e4. apply c4.
  - rewrite <- e5. apply c5.
  - rewrite <- e1. apply c6.
Qed.

(* syncing a frame whose storage was just loaded from the world changes nothing *)
Lemma sync_loaded_equiv : forall fr w sg,
  ss_store sg = get_writes (sw_store w) (f_this fr) ->
  ss_tstore sg = get_writes (sw_tstore w) (f_this fr) ->
  sw_equiv w (sync fr w sg).
Proof.
  intros fr w sg H1 H2. unfold sw_equiv, sync. cbn [sw_store sw_tstore sw_code sw_bal].
  repeat split; try reflexivity.
  - intros a. destruct (Z.eq_dec a (f_this fr)) as [->|Hne].
    + rewrite get_writes_head. symmetry. exact H1.
    + rewrite get_writes_other by exact Hne. reflexivity.
  - intros a. destruct (Z.eq_dec a (f_this fr)) as [->|Hne].
    + rewrite get_writes_head. symmetry. exact H2.
    + rewrite get_writes_other by exact Hne. reflexivity.
Qed.

Lemma get_balance_set : forall cw a v b,
  get_balance (set_balance cw a v) b = if b =? a then v else get_balance cw b.
Proof.
  intros cw a v b. unfold get_balance, set_balance, aset. cbn [w_balance alookup].
  destruct (b =? a); reflexivity.
Qed.

Lemma sw_balance_set : forall w a t b,
  sw_balance (sw_set_balance w a t) b = if b =? a then t else sw_balance w b.
Proof.
  intros w a t b. unfold sw_balance, sw_set_balance. cbn [sw_bal alookup].
  destruct (b =? a); reflexivity.
Qed.

Lemma WA_transfer : forall w cw a b v,
  WA w cw -> WA (sw_transfer w a b v) (transfer cw a b (eval rho v)).
Proof.
  intros w cw a b v [c1 c2 c3 c4 c5 c6]. constructor; auto.
  intros x. unfold transfer, sw_transfer.
  rewrite get_balance_set, sw_balance_set.
  destruct (x =? b) eqn:E.
  - cbn [eval]. rewrite get_balance_set, sw_balance_set.
    destruct (b =? a); cbn [eval]; rewrite ?c5; reflexivity.
  - rewrite get_balance_set, sw_balance_set.
    destruct (x =? a); cbn [eval]; rewrite ?c5; reflexivity.
Qed.

Lemma outcome2_definite : forall k r,
  outcome2 k r -> (match k with K2Stuck _ | K2Fuel => True | _ => r <> RFuel end).
Proof.
  intros k r H. destruct k; cbn in *; auto.
  - destruct H as [cw [logs [-> _]]]. discriminate.
  - subst r. discriminate.
  - subst r. discriminate.
Qed.

(* one concrete step whose only use of the sub-frame runner is the call whose result we know,
   followed by a continuation *)
Lemma step_then : forall e s s_cont k sub w1c ctrc rsub n1,
  exec lim n1 sub (init_state w1c ctrc) = rsub -> rsub <> RFuel ->
  (forall rs, rs sub w1c ctrc = rsub -> step lim rs e s = Continue s_cont) ->
  (exists n2, outcome2 k (exec lim n2 e s_cont)) ->
  exists n, outcome2 k (exec lim n e s).
Proof.
  intros e s s_cont k sub w1c ctrc rsub n1 H1 Hne Hstep [n2 H2].
  pose proof (outcome2_definite _ _ H2) as Hdef.
  destruct k; try (exists O; exact I).
  all: exists (S (Nat.max n1 n2)); cbn [exec];
    rewrite (Hstep _ (exec_mono lim n1 sub (init_state w1c ctrc) rsub H1 Hne _ (Nat.le_max_l n1 n2)));
    rewrite (exec_mono lim n2 e s_cont _ eq_refl Hdef _ (Nat.le_max_r n1 n2)); exact H2.
Qed.

(* one concrete step that does not consult the runner, then a continuation *)
Lemma step_then0 : forall e s s_cont k,
  (forall rs, step lim rs e s = Continue s_cont) ->
  (exists n2, outcome2 k (exec lim n2 e s_cont)) ->
  exists n, outcome2 k (exec lim n e s).
Proof.
  intros e s s_cont k Hstep [n2 H2]. exists (S n2). cbn [exec]. rewrite Hstep. exact H2.
Qed.

(* the caller's state after a sub-frame returned *)
Lemma R2_resume : forall fr w ctr sg s g r w' cw' ctr' status ret ro rsz p m1c logs,
  R2 fr w ctr sg s ->
  ss_stack sg = g ++ r -> (1 <= length g)%nat ->
  WA w' cw' ->
  (forall i, nth i m1c 0 = nth i (s_mem s) 0) ->
  (Z.to_nat rsz <> 0%nat -> (Z.to_nat ro + Z.to_nat rsz <= length m1c)%nat) ->
  R2 fr w' ctr' (resume fr sg r status ret ro rsz w' p)
     (mkSt (S (s_pc s)) (status :: map (eval rho) r)
           (let n := Nat.min (Z.to_nat rsz) (length (map (beval rho) ret)) in
            if (n =? 0)%nat then m1c else mwrite m1c (Z.to_nat ro) (firstn n (map (beval rho) ret)))
           (map (beval rho) ret) cw' ctr' logs).
Proof.
  intros fr w ctr sg s g r w' cw' ctr' status ret ro rsz p m1c logs H2 Hst Hg HW Hm Hlen.
  destruct H2 as [h1 h2 h3 h4 h5 h6 h7 h8].
  constructor; cbn [s_pc s_stack s_mem s_ret s_ctr s_world resume ss_pc ss_stack ss_mem ss_ret ss_store ss_tstore].
  - rewrite h1. reflexivity.
  - reflexivity.
  - rewrite Hst, app_length in h3. cbn [length]. lia.
  - intros i. rewrite map_length.
    set (n := Nat.min (Z.to_nat rsz) (length ret)).
    destruct (n =? 0)%nat eqn:En.
    + rewrite Hm. apply h4.
    + apply Nat.eqb_neq in En.
      assert (Hn : (n <= Z.to_nat rsz)%nat) by (subst n; apply Nat.le_min_l).
      assert (Hl : length (firstn n (map (beval rho) ret)) = n).
      { rewrite firstn_length, map_length. subst n. lia. }
      rewrite mwrite_nth by (rewrite Hl; specialize (Hlen ltac:(lia)); lia).
      rewrite smwrite_nth, <- firstn_map, Hl.
      assert (Hl2 : length (firstn n ret) = n) by (rewrite firstn_length; subst n; lia).
      rewrite Hl2.
      destruct ((Z.to_nat ro <=? i) && (i <? Z.to_nat ro + n))%nat; [reflexivity|].
      rewrite Hm. apply h4.
  - reflexivity.
  - reflexivity.
  - eapply WA_equiv; [|exact HW]. apply sync_loaded_equiv; reflexivity.
  - exact h8.
Qed.

(* do_call after argument parsing *)
Definition call_body (rs : env -> world -> Z -> result) (e : env) (s : mstate) (op : Z)
           (to0 v ao asz ro rsz : Z) (r : list Z) : step_result :=
  let to := to0 mod 2 ^ 160 in
  if (op =? 241) && e_static e && negb (v =? 0) then halt s H_STATIC
  else if oog_range lim ao asz || oog_range lim ro rsz then halt s H_OOG
  else if ((1 <=? to) && (to <=? 10)) then Done (RUnsupported 1)
  else
    let m1 := mexpand (mexpand (s_mem s) (Z.to_nat ao) (Z.to_nat asz)) (Z.to_nat ro) (Z.to_nat rsz) in
    let data := mread m1 (Z.to_nat ao) (Z.to_nat asz) in
    let w := s_world s in
    let fail_now (ret : list Z) (ctr : Z) :=
      Continue (mkSt (S (s_pc s)) (0 :: r) m1 ret w ctr (s_logs s)) in
    if (1024 <? Z.of_nat (e_depth e) + 1) then fail_now [] (s_ctr s)
    else if ((op =? 241) || (op =? 242)) && (get_balance w (e_this e) <? v) then fail_now [] (s_ctr s)
    else
      let w1 := if op =? 241 then transfer w (e_this e) to v else w in
      let sub :=
        mkEnv (if (op =? 241) || (op =? 250) then to else e_this e)
              (get_code w to)
              (if op =? 244 then e_caller e else e_this e)
              (e_origin e)
              (if op =? 244 then e_value e else v)
              data
              (e_static e || (op =? 250))
              (S (e_depth e))
              (e_block e) in
      match rs sub w1 (s_ctr s) with
      | ROk w2 ctr ret logs =>
          let n := Nat.min (Z.to_nat rsz) (length ret) in
          let m2 := if (n =? 0)%nat then m1 else mwrite m1 (Z.to_nat ro) (firstn n ret) in
          Continue (mkSt (S (s_pc s)) (1 :: r) m2 ret w2 ctr (s_logs s ++ logs))
      | RRevert ctr ret =>
          let n := Nat.min (Z.to_nat rsz) (length ret) in
          let m2 := if (n =? 0)%nat then m1 else mwrite m1 (Z.to_nat ro) (firstn n ret) in
          Continue (mkSt (S (s_pc s)) (0 :: r) m2 ret w ctr (s_logs s))
      | RHalt ctr _ => fail_now [] ctr
      | RFuel => Done RFuel
      | RUnsupported x => Done (RUnsupported x)
      end.

Lemma do_call_cargs : forall rs e s op,
  do_call lim rs e s op =
  match cargs op (s_stack s) with
  | None => halt s H_UNDERFLOW
  | Some (to0, v, ao, asz, ro, rsz, r) => call_body rs e s op to0 v ao asz ro rsz r
  end.
Proof. reflexivity. Qed.

Lemma nth_error_bytes : forall c i b, bytes_ok c -> nth_error c i = Some b -> 0 <= b < 256.
Proof.
  intros c i b H Hn. unfold bytes_ok in H. rewrite Forall_forall in H. apply H.
  eapply nth_error_In. exact Hn.
Qed.

Lemma eval_if : forall (b : bool) x y, eval rho (if b then x else y) = if b then eval rho x else eval rho y.
Proof. intros [] x y; reflexivity. Qed.

Lemma be_bytes_aux_range : forall n x acc,
  Forall (fun b => 0 <= b < 256) acc -> Forall (fun b => 0 <= b < 256) (be_bytes_aux n x acc).
Proof.
  induction n as [|n IH]; intros x acc H; cbn; [exact H|]. apply IH. constructor; [|exact H].
  apply Z.mod_pos_bound. lia.
Qed.

Lemma be_bytes_nth_range : forall n x i, 0 <= nth i (be_bytes n x) 0 < 256.
Proof.
  intros n x i. pose proof (be_bytes_aux_range n x [] (Forall_nil _)) as H. fold (be_bytes n x) in H.
  destruct (Nat.lt_ge_cases i (length (be_bytes n x))) as [Hl|Hl].
  - rewrite Forall_forall in H. apply H. apply nth_In. exact Hl.
  - rewrite nth_overflow by exact Hl. lia.
Qed.

Lemma const_byte_eval : forall b z, const_byte b = Some z -> beval rho b = z /\ 0 <= z < 256.
Proof.
  intros [i t] z. unfold const_byte, beval. cbn [fst snd]. destruct t; try discriminate.
  intros H. assert (Hz : z = nth i (be_bytes 32 z0) 0) by congruence. clear H. rewrite Hz.
  split; [reflexivity | apply be_bytes_nth_range].
Qed.

Lemma const_bytes_eval : forall l zs, const_bytes l = Some zs -> map (beval rho) l = zs /\ bytes_ok zs.
Proof.
  induction l as [|b l IH]; intros zs H; cbn [const_bytes] in H.
  - injection H as <-. split; [reflexivity | constructor].
  - destruct (const_byte b) as [z|] eqn:Eb; [|discriminate].
    destruct (const_bytes l) as [zs'|]; [|discriminate]. injection H as <-.
    destruct (IH zs' eq_refl) as [H1 H2]. destruct (const_byte_eval _ _ Eb) as [H3 H4].
    cbn [map]. rewrite H1, H3. split; [reflexivity | constructor; assumption].
Qed.

Lemma WA_new_account : forall w cw new,
  WA w cw ->
  WA (mkSW ((new, []) :: sw_code w) ((new, []) :: sw_store w) ((new, []) :: sw_tstore w) (sw_bal w))
     (mkWorld (aset new [] (w_code cw)) (aset new [] (w_storage cw)) (aset new [] (w_transient cw)) (w_balance cw)).
Proof.
  intros w cw new [c1 c2 c3 c4 c5 c6]. constructor.
  - intros a. unfold get_code, sw_get_code, aset. cbn [w_code sw_code alookup].
    destruct (a =? new); [reflexivity | apply c1].
  - intros a. unfold has_account, sw_has_account, aset. cbn [w_code sw_code alookup].
    destruct (a =? new); [reflexivity | apply c2].
  - intros a k. cbn [sw_store w_storage]. unfold sload_of, aset. cbn [alookup].
    destruct (Z.eq_dec a new) as [->|Hne].
    + rewrite Z.eqb_refl, get_writes_head. reflexivity.
    + rewrite get_writes_other by exact Hne. destruct (a =? new) eqn:E; [apply Z.eqb_eq in E; contradiction|]. apply c3.
  - intros a k. cbn [sw_tstore w_transient]. unfold sload_of, aset. cbn [alookup].
    destruct (Z.eq_dec a new) as [->|Hne].
    + rewrite Z.eqb_refl, get_writes_head. reflexivity.
    + rewrite get_writes_other by exact Hne. destruct (a =? new) eqn:E; [apply Z.eqb_eq in E; contradiction|]. apply c4.
  - intros a. apply c5.
  - intros a. unfold sw_get_code. cbn [sw_code alookup]. destruct (a =? new); [constructor | apply c6].
Qed.

Lemma WA_set_code : forall w cw new code,
  WA w cw -> bytes_ok code ->
  WA (mkSW ((new, code) :: sw_code w) (sw_store w) (sw_tstore w) (sw_bal w))
     (mkWorld (aset new code (w_code cw)) (w_storage cw) (w_transient cw) (w_balance cw)).
Proof.
  intros w cw new code [c1 c2 c3 c4 c5 c6] Hb. constructor; auto.
  - intros a. unfold get_code, sw_get_code, aset. cbn [w_code sw_code alookup].
    destruct (a =? new); [reflexivity | apply c1].
  - intros a. unfold has_account, sw_has_account, aset. cbn [w_code sw_code alookup].
    destruct (a =? new); [reflexivity | apply c2].
  - intros a. unfold sw_get_code. cbn [sw_code alookup]. destruct (a =? new); [exact Hb | apply c6].
Qed.

Section Rec.
Variable rec : recfun.
Hypothesis Hsound : sound_rec rec.
Hypothesis Hext : extends_rec rec.

Lemma local_sound : forall fr w ctr sg s i opc,
  is_sub i = false ->
  nth_error (f_code fr) (ss_pc sg) = Some opc -> decode_op opc = i ->
  R2 fr w ctr sg s ->
  forall l, In l (fst (local_step lim oracle loop rec fr w ctr sg i)) -> sat rho (l2_path l) ->
  exists n, outcome2 (l2_kind l) (exec lim n (inst_frame fr) s).
Proof.
  intros fr w ctr sg s i opc Hi Hnth Hdec H2 l Hin Hsat.
  pose proof (R2_R _ _ _ _ _ H2) as HR.
  pose proof (sim_step_i lim (se_of fr w) rho rs0 (R2_code _ _ _ _ _ H2) i sg s HR) as Hsim.
  rewrite inst_frame_eq in Hsim.
  assert (Hstep : forall rs, step lim rs (inst_frame fr) s = step_i lim rs0 i (inst_frame fr) s).
  { intros rs. unfold step. cbn [e_code inst_frame]. rewrite (R2_pc _ _ _ _ _ H2), Hnth, Hdec.
    apply step_i_irrel. exact Hi. }
  unfold local_step in Hin.
  destruct (sstep_i lim (se_of fr w) i sg) as [sg'|k|c t rest] eqn:Es; cbn [sim_result] in Hsim.
  - (* SNext *)
    destruct Hsim as [s' [Hs' HR']].
    assert (H2' : R2 fr w ctr sg' s').
    { eapply R_R2; [exact H2 | exact HR' |].
      apply (step_i_local lim rs0 i (inst_frame fr) s s' Hi Hs'). }
    destruct (Hsound _ _ _ _ _ H2' l Hin Hsat) as [n Hn].
    exists (S n). rewrite (exec_step_continue n _ _ s') by (intros rs; rewrite Hstep; exact Hs'). exact Hn.
  - (* SLeaf *)
    destruct Hin as [<-|[]]. cbn [l2_kind leaf_of].
    destruct k; try (exists O; exact I); destruct Hsim as [r [Hr Hm]]; exists 1%nat;
      rewrite (exec_step_done O _ _ r) by (intros rs; rewrite Hstep; exact Hr); cbn [leaf_matches] in Hm.
    + (* LOk *)
      destruct Hm as [cw [logs [-> [Hst [Htst Hbal]]]]].
      destruct (step_i_local_done lim rs0 i (inst_frame fr) s _ _ _ _ Hi Hr) as [-> Hc].
      cbn [outcome2]. eexists _, _. split; [rewrite (R2_ctr _ _ _ _ _ H2); reflexivity|].
      apply (WA_replace_this fr w sg); [apply (R2_world _ _ _ _ _ H2) | exact Hst | exact Htst].
    + subst r. cbn [outcome2]. rewrite (R2_ctr _ _ _ _ _ H2). reflexivity.
    + subst r. cbn [outcome2]. rewrite (R2_ctr _ _ _ _ _ H2). reflexivity.
  - (* SBranch *)
    destruct (visits_of (jumpid (se_of fr w) sg) (ss_visits sg)) as [vt vf].
    set (d := jumpi_decide (oracle (ss_path sg) c true) (oracle (ss_path sg) c false) vt vf loop) in *.
    destruct Hsim as [Hfalse [Htrue Hbad]].
    destruct (d_follow_true d && negb (is_jumpdest (f_code fr) t)) eqn:Eearly.
    + apply andb_true_iff in Eearly. destruct Eearly as [_ Einv]. apply negb_true_iff in Einv.
      cbn [fst] in Hin. destruct Hin as [<-|Hin].
      * cbn [l2_path l2_kind] in *.
        assert (Hc : eval rho c <> 0).
        { inversion Hsat as [|x xs Hx _]. subst. unfold holds in Hx. cbn in Hx. apply Z.eqb_neq. exact Hx. }
        exists 1%nat.
        rewrite (exec_step_done O _ _ _) by (intros rs; rewrite Hstep; exact (Hbad Hc Einv)).
        cbn [outcome2]. rewrite (R2_ctr _ _ _ _ _ H2). reflexivity.
      * destruct (d_symbolic d && d_follow_false d); [|destruct Hin].
        destruct (Hext _ _ _ _ _ Hin) as [pre Hp]. cbn [ss_path] in Hp.
        assert (Hc : eval rho c = 0).
        { rewrite Hp in Hsat. apply sat_app2 in Hsat. inversion Hsat as [|x xs Hx _]. subst.
          unfold holds in Hx. cbn in Hx. apply Z.eqb_eq. exact Hx. }
        destruct (Hfalse Hc) as [s' [Hs' HR']].
        assert (Hrest : rest_same (f_this fr) s s') by (apply (step_i_local lim rs0 i (inst_frame fr) s s' Hi Hs')).
        assert (H2' : R2 fr w ctr _ s') by (eapply R_R2; [exact H2 | apply HR' | exact Hrest]).
        destruct (Hsound _ _ _ _ _ H2' l Hin Hsat) as [n Hn].
        exists (S n).
        rewrite (exec_step_continue n _ _ s') by (intros rs; rewrite Hstep; exact Hs'). exact Hn.
    + cbn [fst] in Hin. apply in_app_or in Hin. destruct Hin as [Hin|Hin].
      * destruct (d_follow_true d) eqn:Eft; [|destruct Hin].
        cbn [andb] in Eearly. apply negb_false_iff in Eearly.
        destruct (Hext _ _ _ _ _ Hin) as [pre Hp]. cbn [ss_path] in Hp.
        assert (Hc : eval rho c <> 0).
        { rewrite Hp in Hsat. apply sat_app2 in Hsat. inversion Hsat as [|x xs Hx _]. subst.
          unfold holds in Hx. cbn in Hx. apply Z.eqb_neq. exact Hx. }
        destruct (Htrue Hc Eearly) as [s1 [s2 [Hs1 [Hs2 [Hw2 [Hc2 HR2]]]]]].
        assert (Hrest1 : rest_same (f_this fr) s s1) by (apply (step_i_local lim rs0 i (inst_frame fr) s s1 Hi Hs1)).
        assert (Hrest : rest_same (f_this fr) s s2).
        { destruct Hrest1 as [e1 [e2 [e3 [e4 e5]]]]. unfold rest_same. rewrite Hw2, Hc2. auto. }
        assert (H2' : R2 fr w ctr _ s2) by (eapply R_R2; [exact H2 | apply HR2 | exact Hrest]).
        destruct (Hsound _ _ _ _ _ H2' l Hin Hsat) as [n Hn].
        exists (S (S n)).
        rewrite (exec_step_continue (S n) _ _ s1) by (intros rs; rewrite Hstep; exact Hs1).
        rewrite (exec_step_continue n _ _ s2) by exact Hs2. exact Hn.
      * destruct (d_follow_false d) eqn:Eff; [|destruct Hin].
        destruct (Hext _ _ _ _ _ Hin) as [pre Hp]. cbn [ss_path] in Hp.
        assert (Hc : eval rho c = 0).
        { rewrite Hp in Hsat. apply sat_app2 in Hsat. inversion Hsat as [|x xs Hx _]. subst.
          unfold holds in Hx. cbn in Hx. apply Z.eqb_eq. exact Hx. }
        destruct (Hfalse Hc) as [s' [Hs' HR']].
        assert (Hrest : rest_same (f_this fr) s s') by (apply (step_i_local lim rs0 i (inst_frame fr) s s' Hi Hs')).
        assert (H2' : R2 fr w ctr _ s') by (eapply R_R2; [exact H2 | apply HR' | exact Hrest]).
        destruct (Hsound _ _ _ _ _ H2' l Hin Hsat) as [n Hn].
        exists (S n).
        rewrite (exec_step_continue n _ _ s') by (intros rs; rewrite Hstep; exact Hs'). exact Hn.
Qed.
(* ---- paths only grow ---- *)
Lemma resume_path : forall fr s rest st ret ro rsz w p, ss_path (resume fr s rest st ret ro rsz w p) = p.
Proof. reflexivity. Qed.

Lemma resume_all_in : forall fr s subs wf rest ro rsz on_ok l,
  In l (fst (resume_all rec fr s subs wf rest ro rsz on_ok)) ->
  exists sl, In sl (fst subs) /\ In l (fst (resume_one rec fr s wf rest ro rsz on_ok sl)).
Proof.
  intros fr s [subs lg] wf rest ro rsz on_ok l. unfold resume_all. cbn [fst snd].
  induction subs as [|sl subs IH]; cbn [fold_right fst]; intros H; [destruct H|].
  apply in_app_or in H. destruct H as [H|H].
  - exists sl. split; [left; reflexivity | exact H].
  - destruct (IH H) as [sl' [H1 H2]]. exists sl'. split; [right; exact H1 | exact H2].
Qed.

Lemma resume_one_extends : forall fr s wf rest ro rsz on_ok sl l,
  In l (fst (resume_one rec fr s wf rest ro rsz on_ok sl)) -> exists pre, l2_path l = pre ++ l2_path sl.
Proof.
  intros fr s wf rest ro rsz on_ok sl l H. unfold resume_one in H.
  destruct (l2_kind sl) as [ret w2 c2|ret c2|kd c2| |].
  - destruct (on_ok ret w2) as [[[st ret'] w3]|].
    + apply Hext in H. rewrite resume_path in H. exact H.
    + destruct H as [<-|[]]. exists []. reflexivity.
  - apply Hext in H. rewrite resume_path in H. exact H.
  - apply Hext in H. rewrite resume_path in H. exact H.
  - destruct H as [<-|[]]. exists []. reflexivity.
  - destruct H as [<-|[]]. exists []. reflexivity.
Qed.

Lemma extends_cons : forall (l : leaf2) pre c p, l2_path l = pre ++ c :: p -> exists pre', l2_path l = pre' ++ p.
Proof. intros l pre c p H. exists (pre ++ [c]). rewrite H, <- app_assoc. reflexivity. Qed.

Lemma local_extends : forall fr w ctr sg i l,
  In l (fst (local_step lim oracle loop rec fr w ctr sg i)) -> exists pre, l2_path l = pre ++ ss_path sg.
Proof.
  intros fr w ctr sg i l Hin. unfold local_step in Hin.
  destruct (sstep_i lim (se_of fr w) i sg) as [sg'|k|c t rest] eqn:Es.
  - apply Hext in Hin. destruct Hin as [pre Hp]. exists pre. rewrite Hp. f_equal.
    apply (sstep_i_next_path lim (se_of fr w) i sg sg' Es).
  - destruct Hin as [<-|[]]. exists []. reflexivity.
  - destruct (visits_of (jumpid (se_of fr w) sg) (ss_visits sg)) as [vt vf].
    set (d := jumpi_decide (oracle (ss_path sg) c true) (oracle (ss_path sg) c false) vt vf loop) in *.
    destruct (d_follow_true d && negb (is_jumpdest (f_code fr) t)).
    + cbn [fst] in Hin. destruct Hin as [<-|Hin].
      * exists [(c, true)]. reflexivity.
      * destruct (d_symbolic d && d_follow_false d); [|destruct Hin]. apply Hext in Hin. cbn [ss_path] in Hin.
        destruct Hin as [pre Hp]. eapply extends_cons. exact Hp.
    + cbn [fst] in Hin. apply in_app_or in Hin. destruct Hin as [Hin|Hin].
      * destruct (d_follow_true d); [|destruct Hin]. apply Hext in Hin. cbn [ss_path] in Hin.
        destruct Hin as [pre Hp]. eapply extends_cons. exact Hp.
      * destruct (d_follow_false d); [|destruct Hin]. apply Hext in Hin. cbn [ss_path] in Hin.
        destruct Hin as [pre Hp]. eapply extends_cons. exact Hp.
Qed.

(* ---- CALL / CALLCODE / DELEGATECALL / STATICCALL ---- *)
Lemma call_sound : forall fr w ctr sg s opc op,
  nth_error (f_code fr) (ss_pc sg) = Some opc -> decode_op opc = ICall op ->
  R2 fr w ctr sg s ->
  forall l, In l (fst (call_step lim special oracle rec fr w ctr sg op)) -> sat rho (l2_path l) ->
  exists n, outcome2 (l2_kind l) (exec lim n (inst_frame fr) s).
Proof.
  intros fr w ctr sg s opc op Hnth Hdec H2 l Hin Hsat.
  assert (Hop : In op call_ops).
  { eapply decode_call_op; [|exact Hdec]. eapply nth_error_bytes; [apply (R2_code _ _ _ _ _ H2) | exact Hnth]. }
  assert (Hstep : forall rs, step lim rs (inst_frame fr) s = do_call lim rs (inst_frame fr) s op).
  { intros rs. unfold step. cbn [e_code inst_frame]. rewrite (R2_pc _ _ _ _ _ H2), Hnth, Hdec. reflexivity. }
  pose proof (R2_R _ _ _ _ _ H2) as HR.
  pose proof H2 as [hpc hst hlen hmem hret hctr hW hcode].
  unfold call_step in Hin.
  destruct (call_args op (ss_stack sg)) as [[args|]|] eqn:Ea.
  2: { destruct Hin as [<-|[]]. exists O. exact I. }
  2: { (* stack underflow *)
    destruct Hin as [<-|[]]. exists 1%nat. cbn [exec]. rewrite Hstep, do_call_cargs, hst, (cargs_eq _ _ Hop).
    rewrite (call_args_none _ _ Ea). cbn [l2_kind outcome2 halt_leaf halt]. rewrite hctr. reflexivity. }
  destruct args as [[[[[[to0 v] ao] asz] ro] rsz] r].
  assert (Hcargs : cargs op (s_stack s) = Some (to0, eval rho v, ao, asz, ro, rsz, map (eval rho) r)).
  { rewrite hst, (cargs_eq _ _ Hop). apply call_args_some. exact Ea. }
  (* shape of the symbolic stack: a prefix of at least one element, then r *)
  assert (Hshape : exists g, ss_stack sg = g ++ r /\ (1 <= length g)%nat).
  { clear - Ea. unfold call_args in Ea. destruct (ss_stack sg) as [|g0 [|t0 rest]]; try discriminate.
    destruct ((op =? 241) || (op =? 242)).
    - destruct rest as [|v' [|a1 [|a2 [|a3 [|a4 r']]]]]; try discriminate.
      destruct (as_const t0), (as_const a1), (as_const a2), (as_const a3), (as_const a4); try discriminate.
      inversion Ea; subst. exists [g0; t0; v; a1; a2; a3; a4]. split; [reflexivity | cbn; lia].
    - destruct rest as [|a1 [|a2 [|a3 [|a4 r']]]]; try discriminate.
      destruct (as_const t0), (as_const a1), (as_const a2), (as_const a3), (as_const a4); try discriminate.
      inversion Ea; subst. exists [g0; t0; a1; a2; a3; a4]. split; [reflexivity | cbn; lia]. }
  destruct Hshape as [g [Hg Hglen]].
  set (V := eval rho v) in *.
  set (to := to0 mod 2 ^ 160) in *.
  set (this := f_this fr) in *.
  assert (Hbody : forall rs, step lim rs (inst_frame fr) s = call_body rs (inst_frame fr) s op to0 V ao asz ro rsz (map (eval rho) r)).
  { intros rs. rewrite Hstep, do_call_cargs, Hcargs. reflexivity. }
  clear Hstep.
  (* static-context check *)
  cbv zeta in Hin.
  set (sv := if (op =? 241) && f_static fr then match v with TConst z => if z =? 0 then 0 else 1 | _ => 2 end else 0) in Hin.
  destruct (sv =? 1) eqn:Esv1.
  { destruct Hin as [<-|[]]. exists 1%nat. cbn [exec]. rewrite Hbody. unfold call_body. cbn [e_static inst_frame].
    assert (Hc : (op =? 241) && f_static fr && negb (V =? 0) = true).
    { subst sv. destruct ((op =? 241) && f_static fr); [|discriminate].
      destruct v; try discriminate. subst V. cbn [eval]. destruct (z =? 0); [discriminate | reflexivity]. }
    rewrite Hc. cbn [halt_leaf l2_kind outcome2 halt]. rewrite hctr. reflexivity. }
  destruct (sv =? 2) eqn:Esv2; [destruct Hin as [<-|[]]; exists O; exact I|].
  assert (Hstat : (op =? 241) && f_static fr && negb (V =? 0) = false).
  { subst sv. destruct ((op =? 241) && f_static fr); [|reflexivity].
    destruct v; try discriminate. subst V. cbn [eval]. destruct (z =? 0); [reflexivity | discriminate]. }
  destruct (negb (nonneg [ao; asz; ro; rsz])) eqn:Enn; [destruct Hin as [<-|[]]; exists O; exact I|].
  destruct (s_oog_range lim ao asz || s_oog_range lim ro rsz) eqn:Eoog.
  { destruct Hin as [<-|[]]. exists 1%nat. cbn [exec]. rewrite Hbody. unfold call_body. cbn [e_static inst_frame].
    rewrite Hstat. unfold s_oog_range in Eoog. unfold oog_range. rewrite Eoog.
    cbn [halt_leaf l2_kind outcome2 halt]. rewrite hctr. reflexivity. }
  destruct (((1 <=? to) && (to <=? 10)) || special to) eqn:Esp; [destruct Hin as [<-|[]]; exists O; exact I|].
  apply orb_false_iff in Esp. destruct Esp as [Epre _].
  (* memory after the two expansions, and the call data *)
  set (m1c := mexpand (mexpand (s_mem s) (Z.to_nat ao) (Z.to_nat asz)) (Z.to_nat ro) (Z.to_nat rsz)).
  assert (Hm1 : forall i, nth i m1c 0 = nth i (s_mem s) 0) by (intros i; subst m1c; rewrite !mexpand_nth; reflexivity).
  assert (Hm1len : Z.to_nat rsz <> 0%nat -> (Z.to_nat ro + Z.to_nat rsz <= length m1c)%nat).
  { intros Hn. subst m1c. apply mexpand_length. exact Hn. }
  assert (Hdata : mread m1c (Z.to_nat ao) (Z.to_nat asz) = map (beval rho) (smread (ss_mem sg) (Z.to_nat ao) (Z.to_nat asz))).
  { apply (mread_agree (se_of fr w) rho sg s); [exact HR | exact Hm1]. }
  set (w0 := sync fr w sg) in *.
  assert (HW0 : WA w0 (s_world s)) by exact hW.
  assert (Hbal : get_balance (s_world s) this = eval rho (sw_balance w this)).
  { rewrite (WA_bal _ _ HW0). reflexivity. }
  (* what a failed call looks like on the concrete side *)
  set (s_fail := fun ctr' (ret : list bterm) =>
         mkSt (S (s_pc s)) (0 :: map (eval rho) r)
              (let n := Nat.min (Z.to_nat rsz) (length (map (beval rho) ret)) in
               if (n =? 0)%nat then m1c else mwrite m1c (Z.to_nat ro) (firstn n (map (beval rho) ret)))
              (map (beval rho) ret) (s_world s) ctr' (s_logs s)).
  assert (Hfail_R2 : forall ctr' ret p, R2 fr w0 ctr' (resume fr sg r 0 ret ro rsz w0 p) (s_fail ctr' ret)).
  { intros ctr' ret p. subst s_fail. cbv beta. eapply R2_resume; eauto. }
  destruct (1024 <? Z.of_nat (f_depth fr) + 1) eqn:Edepth.
  { (* call depth exhausted *)
    apply (step_then0 _ s (s_fail ctr [])).
    - intros rs. rewrite Hbody. unfold call_body. cbn [e_static e_depth inst_frame]. rewrite Hstat.
      unfold s_oog_range in Eoog. unfold oog_range. rewrite Eoog. fold to. rewrite Epre, Edepth.
      subst s_fail. cbv beta. cbn [map length Nat.min Nat.eqb]. rewrite Nat.min_0_r. cbn [Nat.eqb]. rewrite hctr. reflexivity.
    - eapply Hsound; [apply Hfail_R2 | exact Hin | exact Hsat]. }
  set (transfers := (op =? 241) || (op =? 242)) in *.
  set (c := TBin BLt (sw_balance w this) v) in *.
  assert (Hc : eval rho c = b2w (get_balance (s_world s) this <? V)).
  { subst c. cbn [eval bop_sem]. unfold evm_lt. rewrite Hbal. reflexivity. }
  cbn [fst] in Hin. apply in_app_or in Hin. destruct Hin as [Hin|Hin].
  - (* insufficient balance *)
    destruct (transfers && funds_fail_keep (oracle (ss_path sg) c true)) eqn:Etf; [|destruct Hin].
    apply andb_true_iff in Etf. destruct Etf as [Etr _].
    destruct (Hext _ _ _ _ _ Hin) as [pre Hp]. rewrite resume_path in Hp.
    assert (Hlt : (get_balance (s_world s) this <? V) = true).
    { rewrite Hp in Hsat. apply sat_app2 in Hsat. inversion Hsat as [|x xs Hx _]. subst.
      unfold holds in Hx. cbn [fst snd negb] in Hx. rewrite Hc in Hx.
      destruct (get_balance (s_world s) this <? V); [reflexivity | discriminate]. }
    apply (step_then0 _ s (s_fail ctr [])).
    + intros rs. rewrite Hbody. unfold call_body. cbn [e_static e_depth e_this inst_frame]. rewrite Hstat.
      unfold s_oog_range in Eoog. unfold oog_range. rewrite Eoog. fold to. rewrite Epre, Edepth.
      fold transfers. fold this. rewrite Etr, Hlt. cbn [andb].
      subst s_fail. cbv beta. cbn [map length]. rewrite Nat.min_0_r. cbn [Nat.eqb]. rewrite hctr. reflexivity.
    + eapply Hsound; [apply Hfail_R2 | exact Hin | exact Hsat].
  - (* the callee runs *)
    set (p_ok := if transfers then (c, false) :: ss_path sg else ss_path sg) in *.
    set (w1 := if op =? 241 then sw_transfer w0 this to v else w0) in *.
    set (sub_this := if (op =? 241) || (op =? 250) then to else this) in *.
    set (sub := mkFrame sub_this (sw_get_code w to) (if op =? 244 then f_caller fr else TConst this)
                        (f_origin fr) (if op =? 244 then f_value fr else v)
                        (smread (ss_mem sg) (Z.to_nat ao) (Z.to_nat asz)) (f_static fr || (op =? 250))
                        (S (f_depth fr)) (f_block fr)) in *.
    set (s_sub := mkSS 0 [] [] (get_writes (sw_store w1) sub_this) (get_writes (sw_tstore w1) sub_this) p_ok [] []) in *.
    destruct (resume_all_in _ _ _ _ _ _ _ _ _ Hin) as [sl [Hsl Hl]].
    destruct (resume_one_extends _ _ _ _ _ _ _ _ _ Hl) as [pre1 Hp1].
    destruct (Hext _ _ _ _ _ Hsl) as [pre2 Hp2]. cbn [ss_path s_sub] in Hp2.
    assert (Hsat_sl : sat rho (l2_path sl)) by (rewrite Hp1 in Hsat; apply sat_app2 in Hsat; exact Hsat).
    assert (Hsat_ok : sat rho p_ok) by (rewrite Hp2 in Hsat_sl; apply sat_app2 in Hsat_sl; exact Hsat_sl).
    assert (Hge : transfers && (get_balance (s_world s) this <? V) = false).
    { destruct transfers eqn:Etr; [|reflexivity]. subst p_ok. inversion Hsat_ok as [|x xs Hx _]. subst.
      unfold holds in Hx. cbn [fst snd negb] in Hx. rewrite Hc in Hx.
      destruct (get_balance (s_world s) this <? V); [discriminate | reflexivity]. }
    (* the concrete callee *)
    set (w1c := if op =? 241 then transfer (s_world s) this to V else s_world s).
    assert (HW1 : WA w1 w1c).
    { subst w1 w1c. destruct (op =? 241); [apply WA_transfer; exact HW0 | exact HW0]. }
    set (subc := mkEnv (if (op =? 241) || (op =? 250) then to else this) (get_code (s_world s) to)
                       (if op =? 244 then e_caller (inst_frame fr) else this) (e_origin (inst_frame fr))
                       (if op =? 244 then e_value (inst_frame fr) else V)
                       (mread m1c (Z.to_nat ao) (Z.to_nat asz))
                       (f_static fr || (op =? 250)) (S (f_depth fr)) (f_block fr)).
    assert (Hsubc : inst_frame sub = subc).
    { subst sub subc. unfold inst_frame. cbn [f_this f_code f_caller f_origin f_value f_data f_static f_depth f_block e_caller e_origin e_value].
      rewrite (WA_code _ _ HW0). cbn [sw_get_code w0 sync sw_code]. rewrite Hdata, !eval_if. reflexivity. }
    assert (H2sub : R2 sub w1 ctr s_sub (init_state w1c (s_ctr s))).
    { constructor.
      - reflexivity.
      - reflexivity.
      - cbn; lia.
      - intros i. destruct i; reflexivity.
      - reflexivity.
      - cbn. exact hctr.
      - eapply WA_equiv; [|exact HW1]. apply sync_loaded_equiv; reflexivity.
      - cbn [f_code sub]. apply (WA_codes_ok _ _ HW0 to). }
    destruct (Hsound _ _ _ _ _ H2sub sl Hsl Hsat_sl) as [n1 Hn1]. rewrite Hsubc in Hn1.
    (* the concrete step, given the callee's result *)
    assert (Hpre_body : forall rs, step lim rs (inst_frame fr) s =
              match rs subc w1c (s_ctr s) with
              | ROk w2 ctr2 ret logs =>
                  Continue (mkSt (S (s_pc s)) (1 :: map (eval rho) r)
                     (let n := Nat.min (Z.to_nat rsz) (length ret) in
                      if (n =? 0)%nat then m1c else mwrite m1c (Z.to_nat ro) (firstn n ret))
                     ret w2 ctr2 (s_logs s ++ logs))
              | RRevert ctr2 ret =>
                  Continue (mkSt (S (s_pc s)) (0 :: map (eval rho) r)
                     (let n := Nat.min (Z.to_nat rsz) (length ret) in
                      if (n =? 0)%nat then m1c else mwrite m1c (Z.to_nat ro) (firstn n ret))
                     ret (s_world s) ctr2 (s_logs s))
              | RHalt ctr2 _ => Continue (mkSt (S (s_pc s)) (0 :: map (eval rho) r) m1c [] (s_world s) ctr2 (s_logs s))
              | RFuel => Done RFuel
              | RUnsupported x => Done (RUnsupported x)
              end).
    { intros rs. rewrite Hbody. unfold call_body. cbn [e_static e_depth e_this e_caller e_origin e_value e_block inst_frame].
      rewrite Hstat. unfold s_oog_range in Eoog. unfold oog_range. rewrite Eoog. fold to. rewrite Epre, Edepth.
      fold transfers. fold this. rewrite Hge. reflexivity. }
    unfold resume_one in Hl.
    destruct (l2_kind sl) as [ret w2 ctr2|ret ctr2|kd ctr2|why|] eqn:Ek; cbn [outcome2] in Hn1.
    + (* the callee succeeded *)
      destruct Hn1 as [cw2 [logs [Hr HW2]]].
      eapply (step_then _ s _ _ subc w1c (s_ctr s) _ n1 Hr); [discriminate | |].
      * intros rs Hrs. rewrite Hpre_body, Hrs. reflexivity.
      * eapply Hsound; [|exact Hl|exact Hsat].
        eapply R2_resume; eauto.
    + (* the callee reverted *)
      eapply (step_then _ s _ _ subc w1c (s_ctr s) _ n1 Hn1); [discriminate | |].
      * intros rs Hrs. rewrite Hpre_body, Hrs. reflexivity.
      * eapply Hsound; [|exact Hl|exact Hsat]. apply (Hfail_R2 ctr2 ret).
    + (* the callee halted exceptionally *)
      eapply (step_then _ s (s_fail ctr2 []) _ subc w1c (s_ctr s) _ n1 Hn1); [discriminate | |].
      * intros rs Hrs. rewrite Hpre_body, Hrs. subst s_fail. cbv beta. cbn [map length]. rewrite Nat.min_0_r. reflexivity.
      * eapply Hsound; [|exact Hl|exact Hsat]. apply (Hfail_R2 ctr2 []).
    + destruct Hl as [<-|[]]. rewrite Ek. exists O. exact I.
    + destruct Hl as [<-|[]]. rewrite Ek. exists O. exact I.
Qed.

(* ---- CREATE ---- *)
Lemma create_sound : forall fr w ctr sg s opc,
  nth_error (f_code fr) (ss_pc sg) = Some opc -> decode_op opc = ICreate ->
  R2 fr w ctr sg s ->
  forall l, In l (fst (create_step lim oracle rec fr w ctr sg)) -> sat rho (l2_path l) ->
  exists n, outcome2 (l2_kind l) (exec lim n (inst_frame fr) s).
Proof.
  intros fr w ctr sg s opc Hnth Hdec H2 l Hin Hsat.
  assert (Hstep : forall rs, step lim rs (inst_frame fr) s = do_create lim rs (inst_frame fr) s).
  { intros rs. unfold step. cbn [e_code inst_frame]. rewrite (R2_pc _ _ _ _ _ H2), Hnth, Hdec. reflexivity. }
  pose proof (R2_R _ _ _ _ _ H2) as HR.
  pose proof H2 as [hpc hst hlen hmem hret hctr hW hcode].
  unfold create_step, halt_leaf, stuck_leaf in Hin.
  assert (Hunder : forall st', ss_stack sg = st' -> (length st' < 3)%nat ->
            l = mkLeaf2 (ss_path sg) (K2Halt H_UNDERFLOW ctr) -> exists n, outcome2 (l2_kind l) (exec lim n (inst_frame fr) s)).
  { intros st' Hs Hl ->. exists 1%nat. cbn [exec]. rewrite Hstep. unfold do_create. rewrite hst, Hs.
    destruct st' as [|a [|b [|c' st']]]; cbn [map length] in *; try lia;
      cbn [l2_kind outcome2 halt]; rewrite hctr; reflexivity. }
  destruct (ss_stack sg) as [|v [|toff [|tsize r]]] eqn:Est.
  1-2: cbn [fst In] in Hin; destruct Hin as [<-|[]]; eapply Hunder; [reflexivity | cbn; lia | reflexivity].
  1: destruct toff; (cbn [fst In] in Hin; destruct Hin as [<-|[]]; eapply Hunder; [reflexivity | cbn; lia | reflexivity]).
  destruct toff; try (destruct Hin as [<-|[]]; exists O; exact I).
  destruct tsize; try (destruct Hin as [<-|[]]; exists O; exact I).
  rename z into off. rename z0 into size.
  set (V := eval rho v) in *. set (this := f_this fr) in *.
  assert (Hbody : forall rs, step lim rs (inst_frame fr) s =
            do_create lim rs (inst_frame fr) s) by exact Hstep.
  assert (Hstk : s_stack s = V :: off :: size :: map (eval rho) r) by (rewrite hst; reflexivity).
  destruct (f_static fr) eqn:Estatic.
  { destruct Hin as [<-|[]]. exists 1%nat. cbn [exec]. rewrite Hstep. unfold do_create. rewrite Hstk.
    cbn [e_static inst_frame]. rewrite Estatic. cbn [halt_leaf l2_kind outcome2 halt]. rewrite hctr. reflexivity. }
  destruct (negb (nonneg [off; size])) eqn:Enn; [destruct Hin as [<-|[]]; exists O; exact I|].
  destruct (s_oog_range lim off size) eqn:Eoog.
  { destruct Hin as [<-|[]]. exists 1%nat. cbn [exec]. rewrite Hstep. unfold do_create. rewrite Hstk.
    cbn [e_static inst_frame]. rewrite Estatic. unfold s_oog_range in Eoog. unfold oog_range. rewrite Eoog.
    cbn [halt_leaf l2_kind outcome2 halt]. rewrite hctr. reflexivity. }
  destruct (const_bytes (smread (ss_mem sg) (Z.to_nat off) (Z.to_nat size))) as [init|] eqn:Einit;
    [|destruct Hin as [<-|[]]; exists O; exact I].
  destruct (const_bytes_eval _ _ Einit) as [Hinit Hinit_ok].
  set (m1c := mexpand (s_mem s) (Z.to_nat off) (Z.to_nat size)).
  assert (Hm1 : forall i, nth i m1c 0 = nth i (s_mem s) 0) by (intros i; subst m1c; apply mexpand_nth).
  assert (Hinitc : mread m1c (Z.to_nat off) (Z.to_nat size) = init).
  { rewrite <- Hinit. apply (mread_agree (se_of fr w) rho sg s); [exact HR | exact Hm1]. }
  set (ctr1 := ctr + 1) in *. set (new := CREATE_BASE + ctr1) in *.
  set (w0 := sync fr w sg) in *.
  assert (HW0 : WA w0 (s_world s)) by exact hW.
  assert (Hbal : get_balance (s_world s) this = eval rho (sw_balance w this)) by (rewrite (WA_bal _ _ HW0); reflexivity).
  assert (Hshape : ss_stack sg = [v; TConst off; TConst size] ++ r) by (rewrite Est; reflexivity).
  set (s_fail := fun ctr' (ret : list bterm) =>
         mkSt (S (s_pc s)) (0 :: map (eval rho) r) m1c (map (beval rho) ret) (s_world s) ctr' (s_logs s)).
  assert (Hfail_R2 : forall ctr' ret p, R2 fr w0 ctr' (resume fr sg r 0 ret 0 0 w0 p) (s_fail ctr' ret)).
  { intros ctr' ret p. subst s_fail. cbv beta.
    pose proof (R2_resume fr w ctr sg s [v; TConst off; TConst size] r w0 (s_world s) ctr' 0 ret 0 0 p m1c (s_logs s)
                          H2 ltac:(rewrite Est; reflexivity) ltac:(cbn; lia) HW0 Hm1 ltac:(cbn; lia)) as HH.
    cbn [Z.to_nat Nat.min Nat.eqb] in HH. exact HH. }
  (* the concrete step up to the sub-frame *)
  assert (Hpre : forall rs, step lim rs (inst_frame fr) s =
     if (1024 <? Z.of_nat (f_depth fr) + 1) then Continue (s_fail ctr1 [])
     else if get_balance (s_world s) this <? V then Continue (s_fail ctr1 [])
     else if has_account (s_world s) new then Continue (s_fail ctr1 [])
     else
       let w0c := mkWorld (aset new [] (w_code (s_world s))) (aset new [] (w_storage (s_world s)))
                          (aset new [] (w_transient (s_world s))) (w_balance (s_world s)) in
       let w1c := transfer w0c this new V in
       let subc := mkEnv new init this (e_origin (inst_frame fr)) V [] false (S (f_depth fr)) (f_block fr) in
       match rs subc w1c ctr1 with
       | ROk w2 ctr' ret logs =>
           Continue (mkSt (S (s_pc s)) (new :: map (eval rho) r) m1c []
                          (mkWorld (aset new ret (w_code w2)) (w_storage w2) (w_transient w2) (w_balance w2))
                          ctr' (s_logs s ++ logs))
       | RRevert ctr' ret => Continue (mkSt (S (s_pc s)) (0 :: map (eval rho) r) m1c ret (s_world s) ctr' (s_logs s))
       | RHalt ctr' _ => Continue (s_fail ctr' [])
       | RFuel => Done RFuel
       | RUnsupported x => Done (RUnsupported x)
       end).
  { intros rs. rewrite Hstep. unfold do_create. rewrite Hstk. cbn [e_static e_depth e_this e_origin e_block inst_frame].
    rewrite Estatic. unfold s_oog_range in Eoog. unfold oog_range. rewrite Eoog. cbv zeta.
    fold m1c. rewrite Hinitc. rewrite hctr. fold ctr1. fold new. fold this. reflexivity. }
  cbv zeta in Hin.
  destruct (1024 <? Z.of_nat (f_depth fr) + 1) eqn:Edepth.
  { apply (step_then0 _ s (s_fail ctr1 [])); [intros rs; rewrite Hpre; reflexivity|].
    eapply Hsound; [apply Hfail_R2 | exact Hin | exact Hsat]. }
  set (c := TBin BLt (sw_balance w this) v) in *.
  assert (Hc : eval rho c = b2w (get_balance (s_world s) this <? V)).
  { subst c. cbn [eval bop_sem]. unfold evm_lt. rewrite Hbal. reflexivity. }
  assert (Hfail_branch : forall l',
     In l' (fst (if funds_fail_keep (oracle (ss_path sg) c true)
                 then rec fr w0 ctr1 (resume fr sg r 0 [] 0 0 w0 ((c, true) :: ss_path sg)) else ([], false))) ->
     sat rho (l2_path l') -> exists n, outcome2 (l2_kind l') (exec lim n (inst_frame fr) s)).
  { intros l' Hin' Hsat'. destruct (funds_fail_keep (oracle (ss_path sg) c true)); [|destruct Hin'].
    destruct (Hext _ _ _ _ _ Hin') as [pre Hp]. rewrite resume_path in Hp.
    assert (Hlt : (get_balance (s_world s) this <? V) = true).
    { rewrite Hp in Hsat'. apply sat_app2 in Hsat'. inversion Hsat' as [|x xs Hx _]. subst.
      unfold holds in Hx. cbn [fst snd negb] in Hx. rewrite Hc in Hx.
      destruct (get_balance (s_world s) this <? V); [reflexivity | discriminate]. }
    apply (step_then0 _ s (s_fail ctr1 [])); [intros rs; rewrite Hpre, Hlt; reflexivity|].
    eapply Hsound; [apply Hfail_R2 | exact Hin' | exact Hsat']. }
  assert (Hge_of : forall p', sat rho (p' ++ (c, false) :: ss_path sg) -> (get_balance (s_world s) this <? V) = false).
  { intros p' Hs. apply sat_app2 in Hs. inversion Hs as [|x xs Hx _]. subst.
    unfold holds in Hx. cbn [fst snd negb] in Hx. rewrite Hc in Hx.
    destruct (get_balance (s_world s) this <? V); [discriminate | reflexivity]. }
  assert (Hacc : has_account (s_world s) new = sw_has_account w new).
  { rewrite (WA_acc _ _ HW0). reflexivity. }
  destruct (sw_has_account w new) eqn:Ecol.
  - (* address collision *)
    cbn [fst] in Hin. apply in_app_or in Hin. destruct Hin as [Hin|Hin]; [apply Hfail_branch; assumption|].
    destruct (Hext _ _ _ _ _ Hin) as [pre Hp]. rewrite resume_path in Hp.
    assert (Hge : (get_balance (s_world s) this <? V) = false) by (apply (Hge_of pre); rewrite Hp in Hsat; exact Hsat).
    apply (step_then0 _ s (s_fail ctr1 [])); [intros rs; rewrite Hpre, Hge, Hacc; reflexivity|].
    eapply Hsound; [apply Hfail_R2 | exact Hin | exact Hsat].
  - cbn [fst] in Hin. apply in_app_or in Hin. destruct Hin as [Hin|Hin]; [apply Hfail_branch; assumption|].
    set (p_ok := (c, false) :: ss_path sg) in *.
    set (wn := mkSW ((new, []) :: sw_code w0) ((new, []) :: sw_store w0) ((new, []) :: sw_tstore w0) (sw_bal w0)) in *.
    set (w1 := sw_transfer wn this new v) in *.
    set (sub := mkFrame new init (TConst this) (f_origin fr) v [] false (S (f_depth fr)) (f_block fr)) in *.
    set (s_sub := mkSS 0 [] [] [] [] p_ok [] []) in *.
    destruct (resume_all_in _ _ _ _ _ _ _ _ _ Hin) as [sl [Hsl Hl]].
    destruct (resume_one_extends _ _ _ _ _ _ _ _ _ Hl) as [pre1 Hp1].
    destruct (Hext _ _ _ _ _ Hsl) as [pre2 Hp2]. cbn [ss_path s_sub] in Hp2.
    assert (Hsat_sl : sat rho (l2_path sl)) by (rewrite Hp1 in Hsat; apply sat_app2 in Hsat; exact Hsat).
    assert (Hge : (get_balance (s_world s) this <? V) = false) by (apply (Hge_of pre2); rewrite Hp2 in Hsat_sl; exact Hsat_sl).
    set (w0c := mkWorld (aset new [] (w_code (s_world s))) (aset new [] (w_storage (s_world s)))
                        (aset new [] (w_transient (s_world s))) (w_balance (s_world s))).
    set (w1c := transfer w0c this new V).
    set (subc := mkEnv new init this (e_origin (inst_frame fr)) V [] false (S (f_depth fr)) (f_block fr)).
    assert (HW1 : WA w1 w1c).
    { subst w1 w1c. apply WA_transfer. subst wn w0c. apply WA_new_account. exact HW0. }
    assert (Hsubc : inst_frame sub = subc) by reflexivity.
    assert (H2sub : R2 sub w1 ctr1 s_sub (init_state w1c ctr1)).
    { constructor.
      - reflexivity.
      - reflexivity.
      - cbn; lia.
      - intros i. destruct i; reflexivity.
      - reflexivity.
      - reflexivity.
      - eapply WA_equiv; [|exact HW1]. apply sync_loaded_equiv.
        + subst w1 wn. unfold sw_transfer, sw_set_balance. cbn [sw_store f_this sub ss_store s_sub]. rewrite get_writes_head. reflexivity.
        + subst w1 wn. unfold sw_transfer, sw_set_balance. cbn [sw_tstore f_this sub ss_tstore s_sub]. rewrite get_writes_head. reflexivity.
      - exact Hinit_ok. }
    destruct (Hsound _ _ _ _ _ H2sub sl Hsl Hsat_sl) as [n1 Hn1]. rewrite Hsubc in Hn1.
    assert (Hpre2 : forall rs, step lim rs (inst_frame fr) s =
       match rs subc w1c ctr1 with
       | ROk w2 ctr' ret logs =>
           Continue (mkSt (S (s_pc s)) (new :: map (eval rho) r) m1c []
                          (mkWorld (aset new ret (w_code w2)) (w_storage w2) (w_transient w2) (w_balance w2))
                          ctr' (s_logs s ++ logs))
       | RRevert ctr' ret => Continue (mkSt (S (s_pc s)) (0 :: map (eval rho) r) m1c ret (s_world s) ctr' (s_logs s))
       | RHalt ctr' _ => Continue (s_fail ctr' [])
       | RFuel => Done RFuel
       | RUnsupported x => Done (RUnsupported x)
       end).
    { intros rs. rewrite Hpre, Hge, Hacc. reflexivity. }
    unfold resume_one in Hl.
    destruct (l2_kind sl) as [ret w2 ctr2|ret ctr2|kd ctr2|why|] eqn:Ek; cbn [outcome2] in Hn1.
    + destruct Hn1 as [cw2 [logs [Hr HW2]]].
      destruct (const_bytes ret) as [code|] eqn:Ecode.
      * destruct (const_bytes_eval _ _ Ecode) as [Hcode_eq Hcode_ok].
        eapply (step_then _ s _ _ subc w1c ctr1 _ n1 Hr); [discriminate | |].
        -- intros rs Hrs. rewrite Hpre2, Hrs. reflexivity.
        -- eapply Hsound; [|exact Hl|exact Hsat].
           rewrite Hcode_eq.
           pose proof (R2_resume fr w ctr sg s [v; TConst off; TConst size] r _ _ ctr2 new [] 0 0 (l2_path sl) m1c (s_logs s ++ logs)
                         H2 ltac:(rewrite Est; reflexivity) ltac:(cbn; lia) (WA_set_code _ _ new code HW2 Hcode_ok) Hm1 ltac:(cbn; lia)) as HH.
           cbn [Z.to_nat Nat.min Nat.eqb map] in HH. exact HH.
      * destruct Hl as [<-|[]]. exists O. exact I.
    + eapply (step_then _ s _ _ subc w1c ctr1 _ n1 Hn1); [discriminate | |].
      * intros rs Hrs. rewrite Hpre2, Hrs. reflexivity.
      * eapply Hsound; [|exact Hl|exact Hsat]. apply (Hfail_R2 ctr2 ret).
    + eapply (step_then _ s (s_fail ctr2 []) _ subc w1c ctr1 _ n1 Hn1); [discriminate | |].
      * intros rs Hrs. rewrite Hpre2, Hrs. reflexivity.
      * eapply Hsound; [|exact Hl|exact Hsat]. apply (Hfail_R2 ctr2 []).
    + destruct Hl as [<-|[]]. rewrite Ek. exists O. exact I.
    + destruct Hl as [<-|[]]. rewrite Ek. exists O. exact I.
Qed.

(* ---- one unfolding of the exploration ---- *)
Lemma body_sound : sound_rec (body lim special oracle loop rec).
Proof.
  intros fr w ctr sg s H2 l Hin Hsat. unfold body in Hin.
  destruct (nth_error (f_code fr) (ss_pc sg)) as [opc|] eqn:Hnth.
  - destruct (decode_op opc) eqn:Hdec;
      try (eapply (local_sound fr w ctr sg s _ opc); [| exact Hnth | exact Hdec | exact H2 | exact Hin | exact Hsat]; reflexivity).
    + exact (create_sound fr w ctr sg s opc Hnth Hdec H2 l Hin Hsat).
    + (* CREATE2 is outside the modelled subset: the model's path is stuck, no claim *)
      destruct Hin as [<-|[]]. exists O. exact I.
    + exact (call_sound fr w ctr sg s opc op Hnth Hdec H2 l Hin Hsat).
  - (* running off the end of the code: implicit STOP *)
    destruct Hin as [<-|[]]. exists 1%nat. cbn [exec]. unfold step. cbn [e_code inst_frame].
    rewrite (R2_pc _ _ _ _ _ H2), Hnth. cbn [l2_kind leaf_of outcome2 map].
    eexists _, _. split; [rewrite (R2_ctr _ _ _ _ _ H2); reflexivity|]. apply (R2_world _ _ _ _ _ H2).
Qed.

Lemma in_single : forall (l x : leaf2), In l [x] -> l = x.
Proof. intros l x [H|[]]. symmetry. exact H. Qed.

Lemma resume_all_extends : forall fr s subs wf rest ro rsz on_ok p l,
  (forall sl, In sl (fst subs) -> exists pre, l2_path sl = pre ++ p) ->
  In l (fst (resume_all rec fr s subs wf rest ro rsz on_ok)) -> exists pre, l2_path l = pre ++ p.
Proof.
  intros fr s subs wf rest ro rsz on_ok p l Hsub Hin.
  destruct (resume_all_in _ _ _ _ _ _ _ _ _ Hin) as [sl [Hsl Hl]].
  destruct (resume_one_extends _ _ _ _ _ _ _ _ _ Hl) as [pre1 Hp1].
  destruct (Hsub sl Hsl) as [pre2 Hp2]. exists (pre1 ++ pre2). rewrite Hp1, Hp2, app_assoc. reflexivity.
Qed.

Lemma body_extends : extends_rec (body lim special oracle loop rec).
Proof.
  intros fr w ctr sg l Hin. unfold body in Hin.
  assert (Hself : forall k, l = mkLeaf2 (ss_path sg) k -> exists pre, l2_path l = pre ++ ss_path sg).
  { intros k ->. exists []. reflexivity. }
  assert (Hres : forall w' c' rest st ret ro rsz w'' p pre0,
            In l (fst (rec fr w' c' (resume fr sg rest st ret ro rsz w'' p))) -> p = pre0 ++ ss_path sg ->
            exists pre, l2_path l = pre ++ ss_path sg).
  { intros w' c' rest st ret ro rsz w'' p pre0 H Hp. apply Hext in H. rewrite resume_path in H.
    destruct H as [pre Hl]. exists (pre ++ pre0). rewrite Hl, Hp, app_assoc. reflexivity. }
  destruct (nth_error (f_code fr) (ss_pc sg)) as [opc|].
  2: { apply in_single in Hin. eapply Hself. exact Hin. }
  destruct (decode_op opc); try (eapply local_extends; exact Hin).
  - (* create *)
    unfold create_step, halt_leaf, stuck_leaf in Hin.
    destruct (ss_stack sg) as [|v [|toff [|tsize r]]]; try (apply in_single in Hin; eapply Hself; exact Hin).
    { destruct toff; apply in_single in Hin; eapply Hself; exact Hin. }
    destruct toff; try (apply in_single in Hin; eapply Hself; exact Hin).
    destruct tsize; try (apply in_single in Hin; eapply Hself; exact Hin).
    destruct (f_static fr); [apply in_single in Hin; eapply Hself; exact Hin|].
    destruct (negb (nonneg [z; z0])); [apply in_single in Hin; eapply Hself; exact Hin|].
    destruct (s_oog_range lim z z0); [apply in_single in Hin; eapply Hself; exact Hin|].
    destruct (const_bytes _); [|apply in_single in Hin; eapply Hself; exact Hin].
    cbv zeta in Hin.
    destruct (1024 <? Z.of_nat (f_depth fr) + 1); [eapply (Hres _ _ _ _ _ _ _ _ _ []); [exact Hin | reflexivity]|].
    assert (Hf : forall (b : bool) w' c' rest st ret ro rsz w'' cnd,
              In l (fst (if b then rec fr w' c' (resume fr sg rest st ret ro rsz w'' (cnd :: ss_path sg)) else ([], false))) ->
              exists pre, l2_path l = pre ++ ss_path sg).
    { intros b w' c' rest st ret ro rsz w'' cnd H. destruct b; [|destruct H].
      eapply (Hres _ _ _ _ _ _ _ _ _ [cnd]); [exact H | reflexivity]. }
    destruct (sw_has_account w _); cbn [fst] in Hin; apply in_app_or in Hin; destruct Hin as [Hin|Hin];
      try (eapply Hf; exact Hin).
    + eapply (Hres _ _ _ _ _ _ _ _ _ [_]); [exact Hin | reflexivity].
    + eapply (resume_all_extends _ _ _ _ _ _ _ _ (ss_path sg)); [|exact Hin].
      intros sl Hsl. apply Hext in Hsl. cbn [ss_path] in Hsl. destruct Hsl as [pre Hp].
      eapply extends_cons. exact Hp.
  - (* call *)
    unfold call_step, halt_leaf, stuck_leaf in Hin.
    destruct (call_args op (ss_stack sg)) as [[[[[[[[to0 v] ao] asz] ro] rsz] r]|]|];
      try (apply in_single in Hin; eapply Hself; exact Hin).
    cbv zeta in Hin.
    repeat match type of Hin with
           | In _ (fst (if ?b then ([_], false) else _)) => destruct b; [apply in_single in Hin; eapply Hself; exact Hin|]
           end.
    destruct (1024 <? Z.of_nat (f_depth fr) + 1); [eapply (Hres _ _ _ _ _ _ _ _ _ []); [exact Hin | reflexivity]|].
    cbn [fst] in Hin. apply in_app_or in Hin. destruct Hin as [Hin|Hin].
    + match type of Hin with In _ (fst (if ?b then _ else _)) => destruct b; [|destruct Hin] end.
      eapply (Hres _ _ _ _ _ _ _ _ _ [_]); [exact Hin | reflexivity].
    + eapply (resume_all_extends _ _ _ _ _ _ _ _ (ss_path sg)); [|exact Hin].
      intros sl Hsl. apply Hext in Hsl. cbn [ss_path] in Hsl. destruct Hsl as [pre Hp].
      destruct ((op =? 241) || (op =? 242)); [eapply extends_cons; exact Hp | exists pre; exact Hp].
Qed.

End Rec.

(* ---------------------------------------------------------------- the theorem *)
Theorem sexec2_sound_ext : forall fuel,
  sound_rec (sexec2 lim special oracle loop fuel) /\ extends_rec (sexec2 lim special oracle loop fuel).
Proof.
  induction fuel as [|f [IH1 IH2]]; cbn [sexec2].
  - split.
    + intros fr w ctr sg s _ l Hin _. destruct Hin as [<-|[]]. exists O. exact I.
    + intros fr w ctr sg l Hin. destruct Hin as [<-|[]]. exists []. reflexivity.
  - split; [apply body_sound; assumption | apply body_extends; assumption].
Qed.

Theorem sexec2_sound : forall fuel fr w ctr sg s,
  R2 fr w ctr sg s ->
  forall l, In l (fst (sexec2 lim special oracle loop fuel fr w ctr sg)) -> sat rho (l2_path l) ->
  exists n, outcome2 (l2_kind l) (exec lim n (inst_frame fr) s).
Proof. intros fuel. apply (proj1 (sexec2_sound_ext fuel)). Qed.

End CS.
