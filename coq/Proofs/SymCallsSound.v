(* Soundness of the mini-SEVM with calls and creations (Model/SymCalls.v) against the
   reference interpreter Spec/Evm.v. *)
From Coq Require Import ZArith List Bool Lia Arith.
From HV Require Import Base.Word Spec.Evm Gen.GenJumpi Model.SymExec Model.SymCalls
  Proofs.SymExecLemmas Proofs.SymExecSound Proofs.EvmMono Proofs.SymCallsLemmas.
Import ListNotations.
Open Scope Z_scope.

Lemma get_writes_head : forall a l m, get_writes ((a, l) :: m) a = l.
Proof. intros. unfold get_writes. cbn. rewrite Z.eqb_refl. reflexivity. Qed.

Lemma get_writes_other : forall a b l m, b <> a -> get_writes ((a, l) :: m) b = get_writes m b.
Proof.
  intros a b l m H. unfold get_writes. cbn.
  destruct (b =? a) eqn:E; [apply Z.eqb_eq in E; contradiction | reflexivity].
Qed.

(* ---- the concrete argument parsing of do_call, named ---- *)
Definition cargs (op : Z) (st : list Z) : option (Z * Z * Z * Z * Z * Z * list Z) :=
  match op, st with
  | 241, _ :: to :: v :: ao :: asz :: ro :: rsz :: r => Some (to, v, ao, asz, ro, rsz, r)
  | 242, _ :: to :: v :: ao :: asz :: ro :: rsz :: r => Some (to, v, ao, asz, ro, rsz, r)
  | 244, _ :: to :: ao :: asz :: ro :: rsz :: r => Some (to, 0, ao, asz, ro, rsz, r)
  | 250, _ :: to :: ao :: asz :: ro :: rsz :: r => Some (to, 0, ao, asz, ro, rsz, r)
  | _, _ => None
  end.

Definition call_ops : list Z := [241; 242; 244; 250].

Definition decode_call_ok (opc : Z) : bool :=
  match decode_op opc with
  | ICall op => (op =? opc) && existsb (Z.eqb op) call_ops
  | _ => true
  end.

Lemma decode_call_table : forallb decode_call_ok (map Z.of_nat (seq 0 256)) = true.
Proof. vm_compute. reflexivity. Qed.

Lemma decode_call_op : forall opc op, 0 <= opc < 256 -> decode_op opc = ICall op -> In op call_ops.
Proof.
  intros opc op Hr Hd. pose proof decode_call_table as T. rewrite forallb_forall in T.
  assert (Hin : In opc (map Z.of_nat (seq 0 256))).
  { apply in_map_iff. exists (Z.to_nat opc). split; [lia|]. apply in_seq. lia. }
  specialize (T opc Hin). unfold decode_call_ok in T. rewrite Hd in T.
  apply andb_true_iff in T. destruct T as [_ T]. apply existsb_exists in T.
  destruct T as [x [Hx Heq]]. apply Z.eqb_eq in Heq. subst x. exact Hx.
Qed.

Section CS.
Variable lim : Z.
Variable special : Z -> bool.
Variable oracle : list cond -> term -> bool -> Z.
Variable loop : Z.
Variable rho : var -> Z.

Definition inst_frame (fr : frame) : env :=
  mkEnv (f_this fr) (f_code fr) (eval rho (f_caller fr)) (eval rho (f_origin fr))
        (eval rho (f_value fr)) (map (beval rho) (f_data fr)) (f_static fr) (f_depth fr) (f_block fr).

Lemma inst_frame_eq : forall fr w, inst_env (se_of fr w) rho = inst_frame fr.
Proof. reflexivity. Qed.

Definition bytes_ok (c : list Z) : Prop := Forall (fun b => 0 <= b < 256) c.

(* the symbolic world describes the concrete one under rho *)
Record WA (w : sworld) (cw : world) : Prop := mkWA {
  WA_code : forall a, get_code cw a = sw_get_code w a;
  WA_acc : forall a, has_account cw a = sw_has_account w a;
  WA_store : forall a k, sload_of (w_storage cw) a k = lookupZ k (map (evalp rho) (get_writes (sw_store w) a));
  WA_tstore : forall a k, sload_of (w_transient cw) a k = lookupZ k (map (evalp rho) (get_writes (sw_tstore w) a));
  WA_bal : forall a, get_balance cw a = eval rho (sw_balance w a);
  WA_codes_ok : forall a, bytes_ok (sw_get_code w a);
}.

Record R2 (fr : frame) (w : sworld) (ctr : Z) (sg : sstate) (s : mstate) : Prop := mkR2 {
  R2_pc : s_pc s = ss_pc sg;
  R2_stack : s_stack s = map (eval rho) (ss_stack sg);
  R2_len : (length (ss_stack sg) <= 1024)%nat;
  R2_mem : forall i, nth i (s_mem s) 0 = nth i (map (beval rho) (ss_mem sg)) 0;
  R2_ret : s_ret s = map (beval rho) (ss_ret sg);
  R2_ctr : s_ctr s = ctr;
  R2_world : WA (sync fr w sg) (s_world s);
  R2_code : bytes_ok (f_code fr);
}.

Lemma R2_R : forall fr w ctr sg s, R2 fr w ctr sg s -> R (se_of fr w) rho sg s.
Proof.
  intros fr w ctr sg s [h1 h2 h3 h4 h5 h6 h7 h8]. destruct h7 as [c1 c2 c3 c4 c5 c6].
  constructor; auto.
  - intros k. cbn [se_this se_of]. rewrite c3. cbn [sw_store sync]. rewrite get_writes_head. reflexivity.
  - intros k. cbn [se_this se_of]. rewrite c4. cbn [sw_tstore sync]. rewrite get_writes_head. reflexivity.
Qed.

(* from the frame-level relation R after a local step back to R2 *)
Lemma R_R2 : forall fr w ctr sg s sg' s',
  R2 fr w ctr sg s -> R (se_of fr w) rho sg' s' -> rest_same (f_this fr) s s' ->
  R2 fr w ctr sg' s'.
Proof.
  intros fr w ctr sg s sg' s' H2 HR Hrest.
  destruct H2 as [h1 h2 h3 h4 h5 h6 h7 h8]. destruct h7 as [c1 c2 c3 c4 c5 c6].
  destruct HR as [r1 r2 r3 r4 r5 r6 r7 r8].
  destruct Hrest as [e1 [e2 [e3 [e4 e5]]]].
  constructor; auto; try congruence.
  constructor.
  - intros a. unfold get_code. rewrite e2. apply c1.
  - intros a. unfold has_account. rewrite e2. apply c2.
  - intros a k. cbn [sw_store sync]. destruct (Z.eq_dec a (f_this fr)) as [->|Hne].
    + rewrite get_writes_head. apply r5.
    + rewrite get_writes_other by exact Hne. rewrite e4 by exact Hne. rewrite c3.
      cbn [sw_store sync]. rewrite get_writes_other by exact Hne. reflexivity.
  - intros a k. cbn [sw_tstore sync]. destruct (Z.eq_dec a (f_this fr)) as [->|Hne].
    + rewrite get_writes_head. apply r6.
    + rewrite get_writes_other by exact Hne. rewrite e5 by exact Hne. rewrite c4.
      cbn [sw_tstore sync]. rewrite get_writes_other by exact Hne. reflexivity.
  - intros a. apply r7.
  - exact c6.
Qed.

Definition outcome2 (k : kind2) (r : result) : Prop :=
  match k with
  | K2Ok ret w ctr => exists cw logs, r = ROk cw ctr (map (beval rho) ret) logs /\ WA w cw
  | K2Revert ret ctr => r = RRevert ctr (map (beval rho) ret)
  | K2Halt kd ctr => r = RHalt ctr kd
  | K2Stuck _ | K2Fuel | K2Early => True
  end.

Definition sound_rec (rec : recfun) : Prop :=
  forall fr w ctr sg s,
    R2 fr w ctr sg s ->
    forall l, In l (fst (rec fr w ctr sg)) -> sat rho (l2_path l) ->
    exists n, outcome2 (l2_kind l) (exec lim n (inst_frame fr) s).

Definition extends_rec (rec : recfun) : Prop :=
  forall fr w ctr sg l, In l (fst (rec fr w ctr sg)) -> exists pre, l2_path l = pre ++ ss_path sg.

Definition rs0 : env -> world -> Z -> result := fun _ _ _ => RFuel.

(* exec with one more unit of fuel, when the step does not consult the sub-frame runner *)
Lemma exec_step_continue : forall n e s s',
  (forall rs, step lim rs e s = Continue s') -> exec lim (S n) e s = exec lim n e s'.
Proof. intros n e s s' H. cbn [exec]. rewrite H. reflexivity. Qed.

Lemma exec_step_done : forall n e s r,
  (forall rs, step lim rs e s = Done r) -> exec lim (S n) e s = r.
Proof. intros n e s r H. cbn [exec]. rewrite H. reflexivity. Qed.

Lemma sat_app2 : forall p q, sat rho (p ++ q) -> sat rho q.
Proof. intros p q H. unfold sat in *. apply Forall_app in H. tauto. Qed.

Lemma step_i_irrel : forall i rs1 rs2 e s,
  is_sub i = false -> step_i lim rs1 i e s = step_i lim rs2 i e s.
Proof. intros i rs1 rs2 e s H. destruct i; try discriminate H; reflexivity. Qed.

Lemma WA_replace_this : forall fr w sg cw st tst,
  WA (sync fr w sg) cw ->
  (forall k, sload_of (w_storage cw) (f_this fr) k = lookupZ k (map (evalp rho) st)) ->
  (forall k, sload_of (w_transient cw) (f_this fr) k = lookupZ k (map (evalp rho) tst)) ->
  WA (mkSW (sw_code w) ((f_this fr, st) :: sw_store w) ((f_this fr, tst) :: sw_tstore w) (sw_bal w)) cw.
Proof.
  intros fr w sg cw st tst [c1 c2 c3 c4 c5 c6] H1 H2. constructor; auto.
  - intros a k. cbn [sw_store]. destruct (Z.eq_dec a (f_this fr)) as [->|Hne].
    + rewrite get_writes_head. apply H1.
    + rewrite get_writes_other by exact Hne. rewrite c3. cbn [sw_store sync].
      rewrite get_writes_other by exact Hne. reflexivity.
  - intros a k. cbn [sw_tstore]. destruct (Z.eq_dec a (f_this fr)) as [->|Hne].
    + rewrite get_writes_head. apply H2.
    + rewrite get_writes_other by exact Hne. rewrite c4. cbn [sw_tstore sync].
      rewrite get_writes_other by exact Hne. reflexivity.
Qed.

(* the concrete parsing, in the same shape *)
Definition cargs' (op : Z) (st : list Z) : option (Z * Z * Z * Z * Z * Z * list Z) :=
  let with_value := (op =? 241) || (op =? 242) in
  match st with
  | _ :: to :: rest =>
      let vr := if with_value then match rest with v :: r' => Some (v, r') | [] => None end
                else Some (0, rest) in
      match vr with
      | Some (v, ao :: asz :: ro :: rsz :: r) => Some (to, v, ao, asz, ro, rsz, r)
      | _ => None
      end
  | _ => None
  end.

Lemma cargs_eq : forall op st, In op call_ops -> cargs op st = cargs' op st.
Proof.
  intros op st Hop. unfold call_ops in Hop. cbn [In] in Hop.
  destruct Hop as [<-|[<-|[<-|[<-|[]]]]];
    repeat (destruct st as [|? st]; try reflexivity).
Qed.

Lemma as_const_eval : forall t z, as_const t = Some z -> eval rho t = z.
Proof. intros t z H. destruct t; try discriminate. inversion H. reflexivity. Qed.

Lemma call_args_none : forall op st,
  call_args op st = None -> cargs' op (map (eval rho) st) = None.
Proof.
  intros op st H. unfold call_args, cargs' in *.
  destruct st as [|g [|to rest]]; cbn [map]; try reflexivity.
  destruct ((op =? 241) || (op =? 242)).
  - destruct rest as [|v [|ao [|asz [|ro [|rsz r]]]]]; cbn [map]; try reflexivity.
    destruct (as_const to), (as_const ao), (as_const asz), (as_const ro), (as_const rsz); discriminate.
  - destruct rest as [|ao [|asz [|ro [|rsz r]]]]; cbn [map]; try reflexivity.
    destruct (as_const to), (as_const ao), (as_const asz), (as_const ro), (as_const rsz); discriminate.
Qed.

Lemma call_args_some : forall op st to0 v ao asz ro rsz r,
  call_args op st = Some (Some (to0, v, ao, asz, ro, rsz, r)) ->
  cargs' op (map (eval rho) st) = Some (to0, eval rho v, ao, asz, ro, rsz, map (eval rho) r).
Proof.
  intros op st to0 v ao asz ro rsz r H. unfold call_args, cargs' in *.
  destruct st as [|g [|to rest]]; try discriminate. cbn [map].
  destruct ((op =? 241) || (op =? 242)).
  - destruct rest as [|v' [|ao' [|asz' [|ro' [|rsz' r']]]]]; try discriminate. cbn [map].
    destruct (as_const to) eqn:E1, (as_const ao') eqn:E2, (as_const asz') eqn:E3, (as_const ro') eqn:E4, (as_const rsz') eqn:E5; try discriminate.
    inversion H; subst.
    rewrite (as_const_eval _ _ E1), (as_const_eval _ _ E2), (as_const_eval _ _ E3), (as_const_eval _ _ E4), (as_const_eval _ _ E5).
    reflexivity.
  - destruct rest as [|ao' [|asz' [|ro' [|rsz' r']]]]; try discriminate. cbn [map].
    destruct (as_const to) eqn:E1, (as_const ao') eqn:E2, (as_const asz') eqn:E3, (as_const ro') eqn:E4, (as_const rsz') eqn:E5; try discriminate.
    inversion H; subst.
    rewrite (as_const_eval _ _ E1), (as_const_eval _ _ E2), (as_const_eval _ _ E3), (as_const_eval _ _ E4), (as_const_eval _ _ E5).
    reflexivity.
Qed.

Section Rec.
Variable rec : recfun.
Hypothesis Hsound : sound_rec rec.
Hypothesis Hext : extends_rec rec.

Lemma local_sound : forall fr w ctr sg s i opc,
  is_sub i = false ->
  nth_error (f_code fr) (ss_pc sg) = Some opc -> decode_op opc = i ->
  R2 fr w ctr sg s ->
  forall l, In l (fst (local_step lim oracle loop rec fr w ctr sg i)) -> sat rho (l2_path l) ->
  exists n, outcome2 (l2_kind l) (exec lim n (inst_frame fr) s).
Proof.
  intros fr w ctr sg s i opc Hi Hnth Hdec H2 l Hin Hsat.
  pose proof (R2_R _ _ _ _ _ H2) as HR.
  pose proof (sim_step_i lim (se_of fr w) rho rs0 (R2_code _ _ _ _ _ H2) i sg s HR) as Hsim.
  rewrite inst_frame_eq in Hsim.
  assert (Hstep : forall rs, step lim rs (inst_frame fr) s = step_i lim rs0 i (inst_frame fr) s).
  { intros rs. unfold step. cbn [e_code inst_frame]. rewrite (R2_pc _ _ _ _ _ H2), Hnth, Hdec.
    apply step_i_irrel. exact Hi. }
  unfold local_step in Hin.
  destruct (sstep_i lim (se_of fr w) i sg) as [sg'|k|c t rest] eqn:Es; cbn [sim_result] in Hsim.
  - (* SNext *)
    destruct Hsim as [s' [Hs' HR']].
    assert (H2' : R2 fr w ctr sg' s').
    { eapply R_R2; [exact H2 | exact HR' |].
      apply (step_i_local lim rs0 i (inst_frame fr) s s' Hi Hs'). }
    destruct (Hsound _ _ _ _ _ H2' l Hin Hsat) as [n Hn].
    exists (S n). rewrite (exec_step_continue n _ _ s') by (intros rs; rewrite Hstep; exact Hs'). exact Hn.
  - (* SLeaf *)
    destruct Hin as [<-|[]]. cbn [l2_kind leaf_of].
    destruct k; try (exists O; exact I); destruct Hsim as [r [Hr Hm]]; exists 1%nat;
      rewrite (exec_step_done O _ _ r) by (intros rs; rewrite Hstep; exact Hr); cbn [leaf_matches] in Hm.
    + (* LOk *)
      destruct Hm as [cw [logs [-> [Hst [Htst Hbal]]]]].
      destruct (step_i_local_done lim rs0 i (inst_frame fr) s _ _ _ _ Hi Hr) as [-> Hc].
      cbn [outcome2]. eexists _, _. split; [rewrite (R2_ctr _ _ _ _ _ H2); reflexivity|].
      apply (WA_replace_this fr w sg); [apply (R2_world _ _ _ _ _ H2) | exact Hst | exact Htst].
    + subst r. cbn [outcome2]. rewrite (R2_ctr _ _ _ _ _ H2). reflexivity.
    + subst r. cbn [outcome2]. rewrite (R2_ctr _ _ _ _ _ H2). reflexivity.
  - (* SBranch *)
    destruct (visits_of (jumpid (se_of fr w) sg) (ss_visits sg)) as [vt vf].
    set (d := jumpi_decide (oracle (ss_path sg) c true) (oracle (ss_path sg) c false) vt vf loop) in *.
    destruct Hsim as [Hfalse [Htrue Hbad]].
    destruct (d_follow_true d && negb (is_jumpdest (f_code fr) t)) eqn:Eearly.
    + destruct Hin as [<-|[]]. exists O. exact I.
    + cbn [fst] in Hin. apply in_app_or in Hin. destruct Hin as [Hin|Hin].
      * destruct (d_follow_true d) eqn:Eft; [|destruct Hin].
        cbn [andb] in Eearly. apply negb_false_iff in Eearly.
        destruct (Hext _ _ _ _ _ Hin) as [pre Hp]. cbn [ss_path] in Hp.
        assert (Hc : eval rho c <> 0).
        { rewrite Hp in Hsat. apply sat_app2 in Hsat. inversion Hsat as [|x xs Hx _]. subst.
          unfold holds in Hx. cbn in Hx. apply Z.eqb_neq. exact Hx. }
        destruct (Htrue Hc Eearly) as [s1 [s2 [Hs1 [Hs2 [Hw2 [Hc2 HR2]]]]]].
        assert (Hrest1 : rest_same (f_this fr) s s1) by (apply (step_i_local lim rs0 i (inst_frame fr) s s1 Hi Hs1)).
        assert (Hrest : rest_same (f_this fr) s s2).
        { destruct Hrest1 as [e1 [e2 [e3 [e4 e5]]]]. unfold rest_same. rewrite Hw2, Hc2. auto. }
        assert (H2' : R2 fr w ctr _ s2) by (eapply R_R2; [exact H2 | apply HR2 | exact Hrest]).
        destruct (Hsound _ _ _ _ _ H2' l Hin Hsat) as [n Hn].
        exists (S (S n)).
        rewrite (exec_step_continue (S n) _ _ s1) by (intros rs; rewrite Hstep; exact Hs1).
        rewrite (exec_step_continue n _ _ s2) by exact Hs2. exact Hn.
      * destruct (d_follow_false d) eqn:Eff; [|destruct Hin].
        destruct (Hext _ _ _ _ _ Hin) as [pre Hp]. cbn [ss_path] in Hp.
        assert (Hc : eval rho c = 0).
        { rewrite Hp in Hsat. apply sat_app2 in Hsat. inversion Hsat as [|x xs Hx _]. subst.
          unfold holds in Hx. cbn in Hx. apply Z.eqb_eq. exact Hx. }
        destruct (Hfalse Hc) as [s' [Hs' HR']].
        assert (Hrest : rest_same (f_this fr) s s') by (apply (step_i_local lim rs0 i (inst_frame fr) s s' Hi Hs')).
        assert (H2' : R2 fr w ctr _ s') by (eapply R_R2; [exact H2 | apply HR' | exact Hrest]).
        destruct (Hsound _ _ _ _ _ H2' l Hin Hsat) as [n Hn].
        exists (S n).
        rewrite (exec_step_continue n _ _ s') by (intros rs; rewrite Hstep; exact Hs'). exact Hn.
Qed.
(* ---- paths only grow ---- *)
Lemma resume_path : forall fr s rest st ret ro rsz w p, ss_path (resume fr s rest st ret ro rsz w p) = p.
Proof. reflexivity. Qed.

Lemma resume_all_in : forall fr s subs wf rest ro rsz on_ok l,
  In l (fst (resume_all rec fr s subs wf rest ro rsz on_ok)) ->
  exists sl, In sl (fst subs) /\ In l (fst (resume_one rec fr s wf rest ro rsz on_ok sl)).
Proof.
  intros fr s [subs lg] wf rest ro rsz on_ok l. unfold resume_all. cbn [fst snd].
  induction subs as [|sl subs IH]; cbn [fold_right fst]; intros H; [destruct H|].
  apply in_app_or in H. destruct H as [H|H].
  - exists sl. split; [left; reflexivity | exact H].
  - destruct (IH H) as [sl' [H1 H2]]. exists sl'. split; [right; exact H1 | exact H2].
Qed.

Lemma resume_one_extends : forall fr s wf rest ro rsz on_ok sl l,
  In l (fst (resume_one rec fr s wf rest ro rsz on_ok sl)) -> exists pre, l2_path l = pre ++ l2_path sl.
Proof.
  intros fr s wf rest ro rsz on_ok sl l H. unfold resume_one in H.
  destruct (l2_kind sl) as [ret w2 c2|ret c2|kd c2| | |].
  - destruct (on_ok ret w2) as [[[st ret'] w3]|].
    + apply Hext in H. rewrite resume_path in H. exact H.
    + destruct H as [<-|[]]. exists []. reflexivity.
  - apply Hext in H. rewrite resume_path in H. exact H.
  - apply Hext in H. rewrite resume_path in H. exact H.
  - destruct H as [<-|[]]. exists []. reflexivity.
  - destruct H as [<-|[]]. exists []. reflexivity.
  - destruct H as [<-|[]]. exists []. reflexivity.
Qed.

Lemma extends_cons : forall (l : leaf2) pre c p, l2_path l = pre ++ c :: p -> exists pre', l2_path l = pre' ++ p.
Proof. intros l pre c p H. exists (pre ++ [c]). rewrite H, <- app_assoc. reflexivity. Qed.

Lemma local_extends : forall fr w ctr sg i l,
  In l (fst (local_step lim oracle loop rec fr w ctr sg i)) -> exists pre, l2_path l = pre ++ ss_path sg.
Proof.
  intros fr w ctr sg i l Hin. unfold local_step in Hin.
  destruct (sstep_i lim (se_of fr w) i sg) as [sg'|k|c t rest] eqn:Es.
  - apply Hext in Hin. destruct Hin as [pre Hp]. exists pre. rewrite Hp. f_equal.
    apply (sstep_i_next_path lim (se_of fr w) i sg sg' Es).
  - destruct Hin as [<-|[]]. exists []. reflexivity.
  - destruct (visits_of (jumpid (se_of fr w) sg) (ss_visits sg)) as [vt vf].
    set (d := jumpi_decide (oracle (ss_path sg) c true) (oracle (ss_path sg) c false) vt vf loop) in *.
    destruct (d_follow_true d && negb (is_jumpdest (f_code fr) t)).
    + destruct Hin as [<-|[]]. exists []. reflexivity.
    + cbn [fst] in Hin. apply in_app_or in Hin. destruct Hin as [Hin|Hin].
      * destruct (d_follow_true d); [|destruct Hin]. apply Hext in Hin. cbn [ss_path] in Hin.
        destruct Hin as [pre Hp]. eapply extends_cons. exact Hp.
      * destruct (d_follow_false d); [|destruct Hin]. apply Hext in Hin. cbn [ss_path] in Hin.
        destruct Hin as [pre Hp]. eapply extends_cons. exact Hp.
Qed.

End Rec.

End CS.
