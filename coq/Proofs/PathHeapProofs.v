(* C11 proofs, object level: when Path.branch / Path.extend_path give the new Path object
   its own containers (PathCopyDefs.separate), a program over any number of Path objects,
   in any interleaving, leaves every object in the state the pure model (SmtTextModel)
   computes along that object's own lineage -- no constraint leaks from one path into another. *)
From Coq Require Import ZArith List Bool Lia Arith.
From HV Require Import Spec.SmtQuerySpec Model.PathCopyDefs Model.SmtTextModel Model.PathHeapModel
  Proofs.SmtTextProofs.
Import ListNotations.
Open Scope Z_scope.

(* ------------------------------------------------------------------ lists *)
Lemma upd_length : forall {A} (l : list A) i x, List.length (upd l i x) = List.length l.
Proof. induction l as [|y l IH]; intros [|i] x; simpl; auto. Qed.

Lemma nth_upd_same : forall {A} (l : list A) i x d, (i < List.length l)%nat -> nth i (upd l i x) d = x.
Proof. induction l as [|y l IH]; intros [|i] x d H; simpl in *; try lia; auto. apply IH. lia. Qed.

Lemma nth_upd_other : forall {A} (l : list A) i j x d, i <> j -> nth j (upd l i x) d = nth j l d.
Proof.
  induction l as [|y l IH]; intros [|i] [|j] x d H; simpl; auto; try congruence.
Qed.

Lemma nth_error_upd_same : forall {A} (l : list A) i x, (i < List.length l)%nat -> nth_error (upd l i x) i = Some x.
Proof. induction l as [|y l IH]; intros [|i] x H; simpl in *; try lia; auto. apply IH. lia. Qed.

Lemma nth_error_upd_other : forall {A} (l : list A) i j x, i <> j -> nth_error (upd l i x) j = nth_error l j.
Proof.
  induction l as [|y l IH]; intros [|i] [|j] x H; simpl; auto; try congruence.
Qed.

Lemma upd_app_last : forall {A} (l : list A) y x, upd (l ++ [y]) (List.length l) x = (l ++ [x])%list.
Proof. induction l as [|z l IH]; intros; simpl; [reflexivity | rewrite IH; reflexivity]. Qed.

Lemma nth_app_last : forall {A} (l : list A) x d, nth (List.length l) (l ++ [x]) d = x.
Proof. intros. rewrite app_nth2 by lia. rewrite Nat.sub_diag. reflexivity. Qed.

Lemma nth_app_old : forall {A} (l r : list A) i d, (i < List.length l)%nat -> nth i (l ++ r) d = nth i l d.
Proof. intros. apply app_nth1. assumption. Qed.

Lemma nth_error_app_last : forall {A} (l : list A) x, nth_error (l ++ [x]) (List.length l) = Some x.
Proof. intros. rewrite nth_error_app2 by lia. rewrite Nat.sub_diag. reflexivity. Qed.

Lemma nth_error_lt : forall {A} (l : list A) i x, nth_error l i = Some x -> (i < List.length l)%nat.
Proof. intros A l i x H. apply nth_error_Some. congruence. Qed.

Lemma nth_error_nth_default : forall {A} (l : list A) i x d, nth_error l i = Some x -> nth i l d = x.
Proof. intros. apply nth_error_nth. assumption. Qed.

Lemma NoDup_app_last : forall {A} (l : list A) x, NoDup l -> ~ In x l -> NoDup (l ++ [x]).
Proof.
  induction l as [|y l IH]; intros x Hnd Hn; simpl.
  - constructor; [intros []|constructor].
  - inversion Hnd; subst. constructor.
    + intros Hin. apply in_app_or in Hin. destruct Hin as [Hin|[<-|[]]]; [contradiction|].
      apply Hn. left. reflexivity.
    + apply IH; [assumption|]. intros Hin. apply Hn. right. exact Hin.
Qed.

(* ------------------------------------------------------------------ var_to_conds: references vs values *)
Definition refs (d : list (Z * nat)) : list nat := map snd d.

Definition wf (d : list (Z * nat)) (S : list (list nat)) : Prop :=
  NoDup (refs d) /\ forall r, In r (refs d) -> (r < List.length S)%nat.

Lemma find_deref : forall S d v,
  find (fun kv : Z * list nat => fst kv =? v) (deref S d)
  = option_map (fun kv : Z * nat => (fst kv, nth (snd kv) S [])) (find (fun kv : Z * nat => fst kv =? v) d).
Proof.
  intros S d v. induction d as [|[k r] d IH]; simpl; [reflexivity|].
  destruct (k =? v); [reflexivity | exact IH].
Qed.

Lemma has_deref : forall S d v,
  v2c_has (deref S d) v = match d_ref d v with Some _ => true | None => false end.
Proof.
  intros S d v. unfold v2c_has, d_ref. induction d as [|[k r] d IH]; simpl; [reflexivity|].
  destruct (k =? v); simpl; [reflexivity | exact IH].
Qed.

Lemma get_deref : forall S d v, v2c_get (deref S d) v = d_get d S v.
Proof.
  intros S d v. unfold v2c_get, d_get, d_ref. rewrite find_deref.
  destruct (find (fun kv : Z * nat => fst kv =? v) d) as [[k r]|]; reflexivity.
Qed.

Lemma d_ref_in : forall d v r, d_ref d v = Some r -> In r (refs d).
Proof.
  intros d v r. unfold d_ref.
  destruct (find (fun kv : Z * nat => fst kv =? v) d) as [[k r']|] eqn:Hf; [|discriminate].
  intros H. inversion H; subst. apply find_some in Hf. destruct Hf as [Hin _].
  unfold refs. apply in_map_iff. exists (k, r). auto.
Qed.

Lemma deref_ext : forall S S' d,
  (forall r, In r (refs d) -> nth r S' [] = nth r S []) -> deref S' d = deref S d.
Proof.
  intros S S' d H. unfold deref. apply map_ext_in. intros [k r] Hin. simpl.
  rewrite H; [reflexivity|]. unfold refs. apply in_map_iff. exists (k, r). auto.
Qed.

(* what an operation on the dict object d (and the set heap) guarantees *)
Definition dspec (d : list (Z * nat)) (S : list (list nat)) (d' : list (Z * nat)) (S' : list (list nat)) : Prop :=
  wf d' S' /\ (List.length S <= List.length S')%nat /\
  (forall r, (r < List.length S)%nat -> ~ In r (refs d) -> nth r S' [] = nth r S []) /\
  (forall r, In r (refs d') -> In r (refs d) \/ (List.length S <= r)%nat).

Lemma dspec_refl : forall d S, wf d S -> dspec d S d S.
Proof. intros d S H. repeat split; try apply H; auto. Qed.

Lemma dspec_trans : forall d S d1 S1 d2 S2,
  wf d S -> dspec d S d1 S1 -> dspec d1 S1 d2 S2 -> dspec d S d2 S2.
Proof.
  intros d S d1 S1 d2 S2 Hwf (Hwf1 & Hl1 & Hf1 & Hr1) (Hwf2 & Hl2 & Hf2 & Hr2).
  split; [exact Hwf2|]. split; [lia|]. split.
  - intros r Hr Hn. rewrite Hf2; [apply Hf1; assumption | lia |].
    intros Hin. destruct (Hr1 r Hin) as [H|H]; [contradiction | lia].
  - intros r Hin. destruct (Hr2 r Hin) as [H|H]; [|right; lia].
    destruct (Hr1 r H) as [H'|H']; [left; exact H' | right; exact H'].
Qed.

Lemma touch_spec : forall d S v d' S', wf d S -> d_touch d S v = (d', S') ->
  dspec d S d' S' /\ deref S' d' = v2c_touch (deref S d) v.
Proof.
  intros d S v d' S' Hwf H. unfold d_touch in H. unfold v2c_touch. rewrite has_deref.
  destruct (d_ref d v) as [r|] eqn:Hr; inversion H; subst; clear H.
  - split; [apply dspec_refl; exact Hwf | reflexivity].
  - destruct Hwf as [Hnd Hb]. split.
    + split; [|split; [|split]].
      * split.
        -- unfold refs. rewrite map_app. simpl. apply NoDup_app_last; [exact Hnd|].
           intros Hin. apply Hb in Hin. lia.
        -- intros r Hin. unfold refs in Hin. rewrite map_app in Hin. apply in_app_or in Hin. simpl in Hin.
           rewrite app_length. simpl. destruct Hin as [Hin|[<-|[]]]; [apply Hb in Hin; lia | lia].
      * rewrite app_length. simpl. lia.
      * intros r Hlt _. apply nth_app_old. exact Hlt.
      * intros r Hin. unfold refs in Hin. rewrite map_app in Hin. apply in_app_or in Hin. simpl in Hin.
        destruct Hin as [Hin|[<-|[]]]; [left; exact Hin | right; lia].
    + unfold deref. rewrite map_app. simpl. rewrite nth_app_last. f_equal.
      apply map_ext_in. intros [k r] Hin. simpl. rewrite nth_app_old; [reflexivity|].
      apply Hb. unfold refs. apply in_map_iff. exists (k, r). auto.
Qed.

Lemma collect_spec : forall vs d S acc cs d' S', wf d S -> d_collect d S vs acc = (cs, d', S') ->
  dspec d S d' S' /\ v2c_collect (deref S d) vs acc = (cs, deref S' d').
Proof.
  induction vs as [|v vs IH]; intros d S acc cs d' S' Hwf H; simpl in H.
  - inversion H; subst. split; [apply dspec_refl; exact Hwf | reflexivity].
  - destruct (d_touch d S v) as [d1 S1] eqn:Ht.
    destruct (touch_spec _ _ _ _ _ Hwf Ht) as [Hs1 He1].
    assert (Hwf1 : wf d1 S1) by apply Hs1.
    destruct (IH _ _ _ _ _ _ Hwf1 H) as [Hs2 He2].
    split; [eapply dspec_trans; eauto|].
    simpl. rewrite <- He1. rewrite get_deref. exact He2.
Qed.

Lemma update_none : forall S d v f, d_ref d v = None -> v2c_update (deref S d) v f = deref S d.
Proof.
  intros S d v f. unfold d_ref. induction d as [|[k r] d IH]; simpl; [reflexivity|].
  destruct (k =? v); [discriminate|]. intros H. rewrite IH; [reflexivity | exact H].
Qed.

Lemma update_deref : forall S d v r f,
  NoDup (refs d) -> (forall r', In r' (refs d) -> (r' < List.length S)%nat) -> d_ref d v = Some r ->
  deref (upd S r (f (nth r S []))) d = v2c_update (deref S d) v f.
Proof.
  intros S d v r f. induction d as [|[k r0] d IH]; intros Hnd Hb Hr.
  - discriminate.
  - simpl in Hnd. inversion Hnd as [|x l Hnotin Hnd']; subst.
    unfold d_ref in Hr. simpl in Hr. simpl. destruct (k =? v) eqn:E.
    + inversion Hr; subst r0. rewrite nth_upd_same by (apply Hb; left; reflexivity).
      f_equal. apply deref_ext. intros r' Hin. apply nth_upd_other. intros ->. contradiction.
    + assert (Hin : In r (refs d)) by (apply (d_ref_in d v); exact Hr).
      rewrite nth_upd_other by (intros ->; contradiction). f_equal.
      apply IH; [exact Hnd' | intros r' H'; apply Hb; right; exact H' | exact Hr].
Qed.

Lemma dspec_upd : forall d S d' S' r x, dspec d S d' S' -> In r (refs d') ->
  dspec d S d' (upd S' r x).
Proof.
  intros d S d' S' r x ((Hnd & Hb) & Hl & Hf & Hr) Hin.
  split; [split; [exact Hnd | intros r' H'; rewrite upd_length; apply Hb; exact H']|].
  split; [rewrite upd_length; exact Hl|]. split; [|exact Hr].
  intros r' Hlt Hn. rewrite nth_upd_other; [apply Hf; assumption|].
  intros ->. destruct (Hr r' Hin) as [H|H]; [contradiction | lia].
Qed.

Lemma add_spec : forall d S v idx d' S', wf d S -> d_add d S v idx = (d', S') ->
  dspec d S d' S' /\ deref S' d' = v2c_add (deref S d) v idx.
Proof.
  intros d S v idx d' S' Hwf H. unfold d_add in H. unfold v2c_add.
  destruct (d_touch d S v) as [d1 S1] eqn:Ht.
  destruct (touch_spec _ _ _ _ _ Hwf Ht) as [Hs1 He1]. rewrite <- He1.
  destruct (d_ref d1 v) as [r|] eqn:Hr; inversion H; subst; clear H.
  - split; [apply dspec_upd; [exact Hs1 | apply (d_ref_in _ v); exact Hr]|].
    destruct Hs1 as ((Hnd & Hb) & _). apply (update_deref S1 d' v r (fun l => set_add l idx)); assumption.
  - split; [exact Hs1|]. symmetry. apply update_none. exact Hr.
Qed.

Lemma add_all_spec : forall vs d S idx d' S', wf d S -> d_add_all d S vs idx = (d', S') ->
  dspec d S d' S' /\ deref S' d' = fold_left (fun m v => v2c_add m v idx) vs (deref S d).
Proof.
  induction vs as [|v vs IH]; intros d S idx d' S' Hwf H; simpl in H.
  - inversion H; subst. split; [apply dspec_refl; exact Hwf | reflexivity].
  - destruct (d_add d S v idx) as [d1 S1] eqn:Ha.
    destruct (add_spec _ _ _ _ _ _ Hwf Ha) as [Hs1 He1].
    assert (Hwf1 : wf d1 S1) by apply Hs1.
    destruct (IH _ _ _ _ _ Hwf1 H) as [Hs2 He2].
    split; [eapply dspec_trans; eauto|]. simpl. rewrite <- He1. exact He2.
Qed.

(* a dict object that shares no set with d keeps its value *)
Lemma dspec_frame : forall d S d' S' e,
  dspec d S d' S' -> (forall r, In r (refs e) -> (r < List.length S)%nat /\ ~ In r (refs d)) ->
  deref S' e = deref S e.
Proof.
  intros d S d' S' e (_ & _ & Hf & _) He. apply deref_ext. intros r Hin.
  destruct (He r Hin) as [Hlt Hn]. apply Hf; assumption.
Qed.

Lemma refs_combine_seq : forall (ks : list Z) n, refs (combine ks (seq n (List.length ks))) = seq n (List.length ks).
Proof.
  unfold refs. induction ks as [|k ks IH]; intros n; simpl; [reflexivity | rewrite IH; reflexivity].
Qed.

Lemma deref_deep : forall (S : list (list nat)) d P,
  deref (P ++ map (fun kv : Z * nat => nth (snd kv) S []) d)
        (combine (map fst d) (seq (List.length P) (List.length d))) = deref S d.
Proof.
  intros S d. induction d as [|[k r] d IH]; intros P; [reflexivity|].
  simpl. rewrite app_nth2 by lia. rewrite Nat.sub_diag. simpl. f_equal.
  specialize (IH (P ++ [nth r S []])%list). rewrite app_length in IH. simpl in IH.
  rewrite Nat.add_1_r in IH. rewrite <- app_assoc in IH. simpl in IH. exact IH.
Qed.

Lemma deep_copy_spec : forall d S d' S', deep_copy_v2c d S = (d', S') ->
  deref S' d' = deref S d /\ wf d' S' /\ (exists L, S' = (S ++ L)%list) /\
  (forall r, In r (refs d') -> (List.length S <= r)%nat).
Proof.
  intros d S d' S' H. unfold deep_copy_v2c in H. inversion H; subst; clear H.
  assert (Hrefs : refs (combine (map fst d) (seq (List.length S) (List.length d))) = seq (List.length S) (List.length d)).
  { rewrite <- (map_length fst d). apply refs_combine_seq. }
  split; [apply deref_deep|]. split; [|split].
  - split; [rewrite Hrefs; apply seq_NoDup|].
    intros r Hin. rewrite Hrefs in Hin. apply in_seq in Hin. rewrite app_length, map_length. lia.
  - eexists. reflexivity.
  - intros r Hin. rewrite Hrefs in Hin. apply in_seq in Hin. lia.
Qed.

(* ------------------------------------------------------------------ the heap of var_to_conds objects *)
(* every dict object owns its sets: well-formed, and no set is referenced by two dicts *)
Definition vinv (V : list (list (Z * nat))) (S : list (list nat)) : Prop :=
  (forall i, wf (nth i V []) S) /\
  (forall i j r, i <> j -> In r (refs (nth i V [])) -> ~ In r (refs (nth j V []))).

Lemma vinv_upd : forall V S i d' S',
  vinv V S -> (i < List.length V)%nat -> dspec (nth i V []) S d' S' ->
  vinv (upd V i d') S' /\
  (forall j, j <> i -> deref S' (nth j (upd V i d') []) = deref S (nth j V [])).
Proof.
  intros V S i d' S' [Hwf Hdj] Hi Hs.
  pose proof Hs as (Hwf' & Hl & Hf & Hr).
  split; [split|].
  - intros j. destruct (Nat.eq_dec j i) as [->|Hne].
    + rewrite nth_upd_same by exact Hi. exact Hwf'.
    + rewrite nth_upd_other by congruence. destruct (Hwf j) as [Hnd Hb].
      split; [exact Hnd | intros r Hin; apply Hb in Hin; lia].
  - intros j k r Hne Hin1 Hin2.
    destruct (Nat.eq_dec j i) as [->|Hj]; destruct (Nat.eq_dec k i) as [->|Hk]; try congruence.
    + rewrite nth_upd_same in Hin1 by exact Hi. rewrite nth_upd_other in Hin2 by congruence.
      destruct (Hr r Hin1) as [H|H].
      * apply (Hdj i k r); [congruence | exact H | exact Hin2].
      * destruct (Hwf k) as [_ Hb]. apply Hb in Hin2. lia.
    + rewrite nth_upd_other in Hin1 by congruence. rewrite nth_upd_same in Hin2 by exact Hi.
      destruct (Hr r Hin2) as [H|H].
      * apply (Hdj i j r); [congruence | exact H | exact Hin1].
      * destruct (Hwf j) as [_ Hb]. apply Hb in Hin1. lia.
    + rewrite nth_upd_other in Hin1 by congruence. rewrite nth_upd_other in Hin2 by congruence.
      apply (Hdj j k r); assumption.
  - intros j Hne. rewrite nth_upd_other by congruence.
    apply (dspec_frame _ _ _ _ _ Hs). intros r Hin. split.
    + destruct (Hwf j) as [_ Hb]. apply Hb. exact Hin.
    + intros Hin'. apply (Hdj j i r); [exact Hne | exact Hin | exact Hin'].
Qed.

Lemma vinv_deep : forall V S old d' S',
  vinv V S -> deep_copy_v2c (nth old V []) S = (d', S') ->
  vinv (V ++ [d']) S' /\ deref S' d' = deref S (nth old V []) /\
  (forall j, (j < List.length V)%nat -> deref S' (nth j (V ++ [d']) []) = deref S (nth j V [])).
Proof.
  intros V S old d' S' [Hwf Hdj] Hc.
  destruct (deep_copy_spec _ _ _ _ Hc) as (He & Hwf' & [L HL] & Hfresh). subst S'.
  assert (Hold : forall j r, In r (refs (nth j V [])) -> (r < List.length S)%nat).
  { intros j r Hin. destruct (Hwf j) as [_ Hb]. apply Hb. exact Hin. }
  assert (Hnth : forall j, (j < List.length V)%nat -> nth j (V ++ [d']) [] = nth j V []).
  { intros j Hj. apply nth_app_old. exact Hj. }
  assert (Hnth2 : forall j, (List.length V < j)%nat -> nth j (V ++ [d']) [] = []).
  { intros j Hj. apply nth_overflow. rewrite app_length. simpl. lia. }
  split; [split|split].
  - intros j. destruct (lt_eq_lt_dec j (List.length V)) as [[Hj| ->]|Hj].
    + rewrite Hnth by exact Hj. destruct (Hwf j) as [Hnd Hb]. split; [exact Hnd|].
      intros r Hin. apply Hb in Hin. rewrite app_length. lia.
    + rewrite nth_app_last. exact Hwf'.
    + rewrite Hnth2 by exact Hj. split; [constructor | intros r []].
  - intros j k r Hne Hin1 Hin2.
    destruct (lt_eq_lt_dec j (List.length V)) as [[Hj| ->]|Hj];
      [rewrite Hnth in Hin1 by exact Hj | rewrite nth_app_last in Hin1 | rewrite Hnth2 in Hin1 by exact Hj; destruct Hin1];
      (destruct (lt_eq_lt_dec k (List.length V)) as [[Hk| ->]|Hk];
       [rewrite Hnth in Hin2 by exact Hk | rewrite nth_app_last in Hin2 | rewrite Hnth2 in Hin2 by exact Hk; destruct Hin2]).
    + apply (Hdj j k r); assumption.
    + apply Hfresh in Hin2. apply Hold in Hin1. lia.
    + apply Hfresh in Hin1. apply Hold in Hin2. lia.
    + congruence.
  - exact He.
  - intros j Hj. rewrite Hnth by exact Hj. apply deref_ext. intros r Hin.
    apply nth_app_old. apply (Hold j). exact Hin.
Qed.

(* ------------------------------------------------------------------ the worklist loop of Path.slice *)
Lemma slice_loop_spec : forall (cond : Type) (vars : cond -> list Z) fuel conds d S sl seen work sl' d' S',
  wf d S -> d_slice_loop cond vars fuel conds d S sl seen work = Some (sl', d', S') ->
  dspec d S d' S' /\ slice_loop cond vars fuel conds (deref S d) sl seen work = Some (sl', deref S' d').
Proof.
  intros cond vars. induction fuel as [|f IH]; intros conds d S sl seen work sl' d' S' Hwf H; simpl in H; [discriminate|].
  destruct work as [|var rest].
  - inversion H; subst. split; [apply dspec_refl; exact Hwf | reflexivity].
  - simpl. destruct (existsb (Z.eqb var) seen); [apply IH; assumption|].
    destruct (d_touch d S var) as [d1 S1] eqn:Ht.
    destruct (touch_spec _ _ _ _ _ Hwf Ht) as [Hs1 He1]. rewrite <- He1. rewrite get_deref.
    destruct (slice_visit cond vars conds (d_get d1 S1 var) sl rest) as [[sl1 w1]|]; [|discriminate].
    assert (Hwf1 : wf d1 S1) by apply Hs1.
    destruct (IH _ _ _ _ _ _ _ _ _ Hwf1 H) as [Hs2 He2].
    split; [eapply dspec_trans; eauto | exact He2].
Qed.
