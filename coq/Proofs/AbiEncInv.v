(* C12: invariants of every EncodingResult (size, symbol indices, size symbols, offsets). *)
From Coq Require Import ZArith List Bool Lia ZifyBool Permutation.
From HV Require Import Spec.AbiSpec Gen.GenAbiEnc Model.AbiEncModel Proofs.AbiEncProofs.
Import ListNotations.
Open Scope Z_scope.
Ltac Zify.zify_post_hook ::= Z.to_euclidean_division_equations.

Lemma fold_head_sum : forall xs a,
  fold_left (fun s x => (s + head_size x)%nat) xs a = (a + lsum (map head_size xs))%nat.
Proof. induction xs as [|x xs IH]; intros a; cbn; [lia|]. rewrite IH. lia. Qed.

Lemma chain_In : forall c k es dss k' e, chain c k es dss k' -> In e es ->
  exists lo hi d, inv c lo hi e d.
Proof.
  intros c k es dss k' e H. induction H; intros Hin; [destruct Hin|].
  destruct Hin as [<-|Hin]; [eauto|auto].
Qed.

Lemma chain_static_nil : forall c k es dss k', chain c k es dss k' ->
  forallb e_static es = true -> concat dss = [].
Proof.
  intros c k es dss k' H. induction H; intros Hs; [reflexivity|].
  cbn in Hs. apply andb_true_iff in Hs. destruct Hs as [Hs1 Hs2].
  cbn. rewrite (inv_static _ _ _ _ _ H Hs1), IHchain by exact Hs2. reflexivity.
Qed.

Lemma chain_dcand : forall c k es dss k', chain c k es dss k' ->
  Forall (fun d => d_sizes d = cand c (d_name d) (d_array d)) (concat dss).
Proof.
  intros c k es dss k' H. induction H; cbn; [constructor|].
  apply Forall_app. split; [exact (inv_dcand _ _ _ _ _ H)|exact IHchain].
Qed.

Definition et_facts (es : list enc) (dss : list (list dynp)) (total : nat) (h t : list item) (s : nat) : Prop :=
  items_size h = lsum (map head_size es) /\
  s = (total + items_size t)%nat /\
  dyns h = [] /\ dyns t = map dpair (concat dss) /\
  Permutation (ids (h ++ t)) (all_ids es) /\
  (t = [] <-> forallb e_static es = true) /\
  (forall it, In it (h ++ t) ->
     (exists z, it = Con z /\ Z.of_nat total <= z <= Z.of_nat s) \/
     (exists e, In e es /\ In it (e_items e))) /\
  (forall e, In e es -> (e_size e <= lsum (map head_size es) + items_size t)%nat).

Lemma et_loop_inv : forall c k es dss k', chain c k es dss k' ->
  forall total h t s, et_loop es total = (h, t, s) -> et_facts es dss total h t s.
Proof.
  intros c k es dss k' H. induction H as [k|k k1 k2 e d es dss Hi Hc IH]; intros total h t s El.
  - cbn in El. inversion El; subst. unfold et_facts. cbn.
    repeat split; try reflexivity; try lia; try constructor.
    all: try (intros ? []).
  - cbn [et_loop] in El. pose proof (head_size_spec e) as Hh.
    destruct (e_static e) eqn:Es.
    + destruct (et_loop es total) as [[h' t'] s'] eqn:El'. inversion El; subst. clear El.
      destruct (IH _ _ _ _ El') as (F1 & F2 & F3 & F4 & F5 & F6 & F7 & F8).
      pose proof (inv_size _ _ _ _ _ Hi) as Hsz.
      pose proof (inv_static _ _ _ _ _ Hi Es) as Hd. subst d.
      pose proof (inv_dyn _ _ _ _ _ Hi) as Hdy. cbn in Hdy.
      unfold et_facts. repeat split.
      * rewrite items_size_app. cbn [map lsum]. lia.
      * exact F2.
      * rewrite dyns_app, Hdy, F3. reflexivity.
      * cbn. exact F4.
      * rewrite <- app_assoc, ids_app. cbn [all_ids flat_map]. apply Permutation_app_head. exact F5.
      * intros Ht. cbn. rewrite Es. apply F6. exact Ht.
      * intros Hf. cbn in Hf. rewrite Es in Hf. apply F6. exact Hf.
      * intros it Hin. rewrite <- app_assoc in Hin. apply in_app_or in Hin. destruct Hin as [Hin|Hin].
        -- right. exists e. split; [left; reflexivity|exact Hin].
        -- destruct (F7 it Hin) as [Hc'|[e' [He' Hit]]]; [left; exact Hc'|].
           right. exists e'. split; [right; exact He'|exact Hit].
      * intros e' [<-|Hin]; cbn [map lsum].
        -- lia.
        -- specialize (F8 e' Hin). lia.
    + destruct (et_loop es (total + e_size e)%nat) as [[h' t'] s'] eqn:El'. inversion El; subst. clear El.
      destruct (IH _ _ _ _ El') as (F1 & F2 & F3 & F4 & F5 & F6 & F7 & F8).
      pose proof (inv_size _ _ _ _ _ Hi) as Hsz.
      pose proof (inv_dyn _ _ _ _ _ Hi) as Hdy.
      unfold et_facts. repeat split.
      * cbn [map lsum]. change (Con (Z.of_nat total) :: h') with ([Con (Z.of_nat total)] ++ h').
        rewrite items_size_app. cbn. lia.
      * rewrite items_size_app. lia.
      * change (Con (Z.of_nat total) :: h') with ([Con (Z.of_nat total)] ++ h').
        rewrite dyns_app. cbn. exact F3.
      * rewrite dyns_app, Hdy, F4. cbn [concat]. rewrite map_app. reflexivity.
      * change ((Con (Z.of_nat total) :: h') ++ e_items e ++ t') with
          ([Con (Z.of_nat total)] ++ h' ++ e_items e ++ t').
        rewrite !ids_app. cbn [ids flat_map item_id app all_ids].
        fold (ids (e_items e)). fold (all_ids es).
        eapply Permutation_trans; [apply Permutation_app_swap_app|].
        apply Permutation_app_head. rewrite <- ids_app. exact F5.
      * intros Ht. apply app_eq_nil in Ht. destruct Ht as [Ht _].
        exfalso. exact (inv_ne _ _ _ _ _ Hi Es Ht).
      * intros Hf. cbn in Hf. rewrite Es in Hf. discriminate.
      * intros it Hin. cbn [app] in Hin. destruct Hin as [<-|Hin].
        -- left. eexists. split; [reflexivity|]. lia.
        -- apply in_app_or in Hin. destruct Hin as [Hin|Hin].
           ++ destruct (F7 it (in_or_app _ _ _ (or_introl Hin))) as [[z [-> Hz]]|[e' [He' Hit]]].
              ** left. eexists. split; [reflexivity|]. lia.
              ** right. exists e'. split; [right; exact He'|exact Hit].
           ++ apply in_app_or in Hin. destruct Hin as [Hin|Hin].
              ** right. exists e. split; [left; reflexivity|exact Hin].
              ** destruct (F7 it (in_or_app _ _ _ (or_intror Hin))) as [[z [-> Hz]]|[e' [He' Hit]]].
                 --- left. eexists. split; [reflexivity|]. lia.
                 --- right. exists e'. split; [right; exact He'|exact Hit].
      * intros e' [<-|Hin]; cbn [map lsum]; rewrite items_size_app.
        -- lia.
        -- specialize (F8 e' Hin). lia.
Qed.

Lemma tuple_inv : forall c k es dss k', chain c k es dss k' ->
  inv c k k' (encode_tuple es) (concat dss).
Proof.
  intros c k es dss k' Hc. unfold encode_tuple. rewrite fold_head_sum. cbn [Nat.add].
  destruct (et_loop es (lsum (map head_size es))) as [[h t] s] eqn:El.
  destruct (et_loop_inv _ _ _ _ _ Hc _ _ _ _ El) as (F1 & F2 & F3 & F4 & F5 & F6 & F7 & F8).
  destruct (chain_ids _ _ _ _ _ Hc) as [I1 I2].
  constructor; cbn [e_items e_size e_static].
  - rewrite items_size_app. lia.
  - intros Hs Hn. apply app_eq_nil in Hn. destruct Hn as [_ ->]. discriminate.
  - rewrite dyns_app, F3, F4. reflexivity.
  - intros Hs. eapply chain_static_nil; [exact Hc|]. apply F6. destruct t; [reflexivity|discriminate].
  - eapply chain_le. exact Hc.
  - intros i Hin. apply I1. eapply Permutation_in; [exact F5|exact Hin].
  - eapply Permutation_NoDup; [apply Permutation_sym; exact F5|exact I2].
  - intros z Hin. destruct (F7 _ Hin) as [[z' [Hz Hb]]|[e [He Hit]]].
    + inversion Hz; subst. lia.
    + destruct (chain_In _ _ _ _ _ _ Hc He) as (lo & hi & d & Hi).
      pose proof (inv_con _ _ _ _ _ Hi _ Hit). specialize (F8 e He). lia.
  - intros k0 nm sz Hin. destruct (F7 _ Hin) as [[z' [Hz _]]|[e [He Hit]]]; [discriminate|].
    destruct (chain_In _ _ _ _ _ _ Hc He) as (lo & hi & d & Hi).
    exact (inv_cand _ _ _ _ _ Hi _ _ _ Hit).
  - eapply chain_dcand. exact Hc.
Qed.

Lemma pad_zero : pad 0 = 0%nat.
Proof. reflexivity. Qed.

Theorem encode_inv : forall t c name k e ds k',
  encode c name t k = (e, ds, k') -> inv c k k' e ds.
Proof.
  induction t as [s|t n IH|t IH|its IH] using ty_ind'; intros c name k e ds k' H; cbn [encode] in H.
  - destruct (is_dyn_base s).
    + rewrite get_dyn_sizes_cand in H. inversion H; subst. clear H.
      destruct (0 <? maxl (cand c name false))%nat eqn:Em;
        constructor; cbn [e_items e_size e_static app]; unfold items_size, ids, dyns;
          cbn [map lsum item_size flat_map item_id dyn_of_item app dpair d_id d_sizes d_name d_array];
          try (intros; discriminate); try reflexivity; try lia.
      * intros i [<-|[<-|[]]]; lia.
      * constructor; [intros [Hx|[]]; lia|]. constructor; [intros []|constructor].
      * intros z [Hx|[Hx|[]]]; discriminate.
      * intros k0 nm sz [Hx|[Hx|[]]]; [|discriminate]. inversion Hx; subst. exists false. reflexivity.
      * constructor; [reflexivity|constructor].
      * apply Nat.ltb_ge in Em. assert (maxl (cand c name false) = 0%nat) as -> by lia. reflexivity.
      * intros i [<-|[]]; lia.
      * constructor; [intros []|constructor].
      * intros z [Hx|[]]; discriminate.
      * intros k0 nm sz [Hx|[]]. inversion Hx; subst. exists false. reflexivity.
      * constructor; [reflexivity|constructor].
    + inversion H; subst. clear H.
      constructor; cbn [e_items e_size e_static]; unfold items_size, ids, dyns;
        cbn [map lsum item_size flat_map item_id dyn_of_item app];
        try (intros; discriminate); try reflexivity; try lia.
      * intros i [<-|[]]; lia.
      * constructor; [intros []|constructor].
      * intros z [Hx|[]]; discriminate.
      * intros k0 nm sz [Hx|[]]; discriminate.
      * constructor.
  - destruct (run_list _ k) as [[es ds'] k2] eqn:Er. inversion H; subst. clear H.
    apply run_list_runs in Er. destruct Er as [dss [-> Hr]].
    apply tuple_inv. eapply runs_chain; [|exact Hr].
    intros a _ k0 e0 d0 k1 Hg. eapply IH. exact Hg.
  - rewrite get_dyn_sizes_cand in H.
    destruct (run_list _ (S k)) as [[es ds'] k2] eqn:Er. inversion H; subst. clear H.
    apply run_list_runs in Er. destruct Er as [dss [-> Hr]].
    assert (Hc : chain c (S k) es dss k').
    { eapply runs_chain; [|exact Hr]. intros a _ k0 e0 d0 k1 Hg. eapply IH. exact Hg. }
    pose proof (tuple_inv _ _ _ _ _ Hc) as Hi.
    constructor; cbn [e_items e_size e_static].
    + change (SizeVar k name (cand c name true) :: e_items (encode_tuple es)) with
        ([SizeVar k name (cand c name true)] ++ e_items (encode_tuple es)).
      rewrite items_size_app, <- (inv_size _ _ _ _ _ Hi). reflexivity.
    + intros _. discriminate.
    + unfold dyns. cbn [flat_map dyn_of_item app map dpair d_id d_sizes]. f_equal.
      exact (inv_dyn _ _ _ _ _ Hi).
    + intros Hx. discriminate.
    + pose proof (inv_le _ _ _ _ _ Hi). lia.
    + unfold ids. cbn [flat_map item_id app]. intros i [<-|Hin].
      * pose proof (inv_le _ _ _ _ _ Hi). lia.
      * apply (inv_ids _ _ _ _ _ Hi) in Hin. lia.
    + unfold ids. cbn [flat_map item_id app]. constructor; [|exact (inv_nodup _ _ _ _ _ Hi)].
      intros Hin. apply (inv_ids _ _ _ _ _ Hi) in Hin. lia.
    + intros z [Hx|Hin]; [discriminate|]. pose proof (inv_con _ _ _ _ _ Hi _ Hin). lia.
    + intros k0 nm sz [Hx|Hin].
      * inversion Hx; subst. exists true. reflexivity.
      * exact (inv_cand _ _ _ _ _ Hi _ _ _ Hin).
    + constructor; [reflexivity|exact (inv_dcand _ _ _ _ _ Hi)].
  - destruct (run_list _ k) as [[es ds'] k2] eqn:Er. inversion H; subst. clear H.
    apply run_list_runs in Er. destruct Er as [dss [-> Hr]].
    apply tuple_inv. eapply runs_chain; [|exact Hr].
    intros a Ha k0 e0 d0 k1 Hg. rewrite Forall_forall in IH. eapply (IH a Ha). exact Hg.
Qed.

Lemma tuple_size_ge : forall c k es dss k' e, chain c k es dss k' -> In e es ->
  (e_size e <= e_size (encode_tuple es))%nat.
Proof.
  intros c k es dss k' e Hc Hin. unfold encode_tuple. rewrite fold_head_sum. cbn [Nat.add].
  destruct (et_loop es (lsum (map head_size es))) as [[h t] s] eqn:El.
  destruct (et_loop_inv _ _ _ _ _ Hc _ _ _ _ El) as (F1 & F2 & F3 & F4 & F5 & F6 & F7 & F8).
  cbn [e_size]. specialize (F8 e Hin). lia.
Qed.

Lemma tuple_static : forall c k es dss k', chain c k es dss k' ->
  e_static (encode_tuple es) = forallb e_static es /\
  (forallb e_static es = true -> e_size (encode_tuple es) = lsum (map e_size es)).
Proof.
  intros c k es dss k' Hc. unfold encode_tuple. rewrite fold_head_sum. cbn [Nat.add].
  destruct (et_loop es (lsum (map head_size es))) as [[h t] s] eqn:El.
  destruct (et_loop_inv _ _ _ _ _ Hc _ _ _ _ El) as (F1 & F2 & F3 & F4 & F5 & F6 & F7 & F8).
  cbn [e_static e_size]. split.
  - destruct t as [|x t].
    + symmetry. apply F6. reflexivity.
    + destruct (forallb e_static es) eqn:E; [|reflexivity].
      destruct F6 as [_ F6]. specialize (F6 eq_refl). discriminate.
  - intros Hs. destruct F6 as [_ F6]. rewrite (F6 Hs) in F2. cbn in F2. subst s.
    rewrite Nat.add_0_r. clear -Hs. induction es as [|e es IH]; [reflexivity|].
    cbn in Hs. apply andb_true_iff in Hs. destruct Hs as [H1 H2].
    cbn [map lsum]. rewrite IH by exact H2. rewrite head_size_spec, H1. reflexivity.
Qed.

Lemma runs_Forall : forall {A} (g : A -> nat -> R) (P : enc -> Prop) l k es dss k',
  (forall a, In a l -> forall k e d k1, g a k = (e, d, k1) -> P e) ->
  runs g l k es dss k' -> Forall P es.
Proof.
  intros A g P l k es dss k' Hg H. induction H; constructor.
  - eapply Hg; [left; reflexivity|eassumption].
  - apply IHruns. intros a' Ha'. apply Hg. right. exact Ha'.
Qed.
