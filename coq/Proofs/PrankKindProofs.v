(* Proofs about Model/PrankKindModel.v against Spec/PrankKindSpec.v *)
From Coq Require Import ZArith List Bool Lia.
From HV Require Import Gen.GenOpcodes Gen.GenCheatSelectors Gen.GenPrankUse Spec.FoundrySpec Spec.PrankKindSpec
  Model.PrankModel Model.PrankKindModel Proofs.PrankProofs.
Import ListNotations.
Open Scope Z_scope.

(* ---------------------------------------------------------------- what the regenerated selections
   are, per opcode (finite: one closed opcode per kind; everything else is a variable) *)
Lemma call_sel : forall k a this caller origin cv pc po v,
  pu_call_target (op_of_ckind k) a this caller origin cv pc po (pu_call_fund (op_of_ckind k) v)
    = match k with CkCall | CkStatic => a | _ => this end /\
  pu_call_caller (op_of_ckind k) a this caller origin cv pc po (pu_call_fund (op_of_ckind k) v)
    = match k with CkDelegate => caller | _ => pc end /\
  pu_call_origin (op_of_ckind k) a this caller origin cv pc po (pu_call_fund (op_of_ckind k) v) = po /\
  pu_call_value (op_of_ckind k) a this caller origin cv pc po (pu_call_fund (op_of_ckind k) v)
    = match k with CkDelegate => cv | CkStatic => 0 | _ => v end /\
  pu_call_hif_payer (op_of_ckind k) a this caller origin cv pc po (pu_call_fund (op_of_ckind k) v) = pc /\
  pu_call_hif_value (op_of_ckind k) a this caller origin cv pc po (pu_call_fund (op_of_ckind k) v) = moved k v /\
  pu_call_sends (op_of_ckind k) = match k with CkCall => true | _ => false end /\
  pu_call_checks (op_of_ckind k) (pu_call_fund (op_of_ckind k) v) = match k with CkCallcode => negb (v =? 0) | _ => false end.
Proof. intros. destruct k; repeat split; reflexivity. Qed.

(* the accounts handed to transfer_value by a CALL, and the account whose balance a CALLCODE requires *)
Lemma call_tv_sel : forall a this caller origin cv pc po v,
  pu_call_tv_from OP_CALL a this caller origin cv pc po (pu_call_fund OP_CALL v) = pc /\
  pu_call_tv_to OP_CALL a this caller origin cv pc po (pu_call_fund OP_CALL v) = a /\
  pu_call_tv_value OP_CALL a this caller origin cv pc po (pu_call_fund OP_CALL v) = v /\
  pu_call_check_payer OP_CALLCODE a this caller origin cv pc po (pu_call_fund OP_CALLCODE v) = pc /\
  pu_call_fund OP_CALLCODE v = v.
Proof. intros. repeat split; reflexivity. Qed.

Lemma create_sel : forall k a this caller origin cv pc po v,
  pu_create_target (op_of_nkind k) a this caller origin cv pc po v = a /\
  pu_create_caller (op_of_nkind k) a this caller origin cv pc po v = pc /\
  pu_create_origin (op_of_nkind k) a this caller origin cv pc po v = po /\
  pu_create_value (op_of_nkind k) a this caller origin cv pc po v = v /\
  pu_create_hif_payer (op_of_nkind k) a this caller origin cv pc po v = pc /\
  pu_create_hif_value (op_of_nkind k) a this caller origin cv pc po v = v /\
  pu_create_tv_from (op_of_nkind k) a this caller origin cv pc po v = pc /\
  pu_create_tv_to (op_of_nkind k) a this caller origin cv pc po v = a /\
  pu_create_tv_value (op_of_nkind k) a this caller origin cv pc po v = v.
Proof. intros. destruct k; repeat split; reflexivity. Qed.

(* handle_insufficient_fund_case and transfer_value are complementary on the same account *)
Lemma funds_sel : forall bal v,
  pu_hif_zero_shortcut = true /\ pu_tv_zero_shortcut = true /\
  pu_insufficient bal v = (bal <? v) /\ pu_balance_ok bal v = (bal >=? v) /\ pu_call_check_ok bal v = (bal >=? v) /\
  pu_debit bal v = bal - v /\ pu_credit bal v = bal + v.
Proof. intros. repeat split; reflexivity. Qed.

(* ---------------------------------------------------------------- balances (compared pointwise) *)
Definition beq (b b' : balances) : Prop := forall a, b a = b' a.

Lemma beq_refl : forall b, beq b b.
Proof. intros b a. reflexivity. Qed.

Lemma move_ext : forall b b' p r v, beq b b' -> beq (move b p r v) (move b' p r v).
Proof.
  intros b b' p r v H a. unfold move, bupd. rewrite !H.
  destruct (a =? r); [destruct (r =? p)|destruct (a =? p)]; rewrite ?H; reflexivity.
Qed.

Lemma move_zero : forall b p r, beq (move b p r 0) b.
Proof.
  intros b p r a. unfold move, bupd.
  destruct (a =? r) eqn:E1.
  - apply Z.eqb_eq in E1. subst a. destruct (r =? p) eqn:E2; [apply Z.eqb_eq in E2; subst; lia | lia].
  - destruct (a =? p) eqn:E2; [apply Z.eqb_eq in E2; subst; lia | reflexivity].
Qed.

Lemma move_self : forall b p v, beq (move b p p v) b.
Proof.
  intros b p v a. unfold move, bupd. rewrite Z.eqb_refl.
  destruct (a =? p) eqn:E; [apply Z.eqb_eq in E; subst; lia | reflexivity].
Qed.

Lemma short_zero : forall h, short h 0 = false.
Proof. intros. reflexivity. Qed.

(* what the funds fork + transfer_value of the model amount to when both talk about account p *)
Lemma fork_same_account : forall b p r v,
  m_fails b p v = short (b p) v /\
  m_transfer b p r v = if short (b p) v then None else Some (if v =? 0 then b else move b p r v).
Proof.
  intros b p r v. unfold m_fails, m_transfer, short.
  destruct (funds_sel (b p) v) as (-> & -> & -> & -> & _ & -> & _). cbn [andb].
  destruct (v =? 0) eqn:Ev; cbn [negb andb]; [split; reflexivity|].
  rewrite Z.geb_leb, Z.leb_antisym. destruct (b p <? v); cbn [negb]; [split; reflexivity|].
  split; [reflexivity|]. unfold move.
  destruct (funds_sel (bupd b p (b p - v) r) v) as (_ & _ & _ & _ & _ & _ & ->). reflexivity.
Qed.

(* ---------------------------------------------------------------- the abstraction *)
Definition kfrel (sf : ksframe) (mf : kframe) : Prop := frel (ks_f sf) (k_f mf) /\ k_value mf = ks_value sf.

Lemma kfrel_fresh : forall a s o v, kfrel (ks_fresh a s o v) (k_fresh a s o v).
Proof. intros. split; [apply frel_fresh | reflexivity]. Qed.

Definition kres_rel (a : ksres) (m : kres) : Prop :=
  match a, m with
  | KSErr, KMErr => True
  | KSOk ss bs out, KMOk ms bm out' => out = out' /\ Forall2 kfrel ss ms /\ beq bs bm
  | _, _ => False
  end.

Lemma outcome_rel : forall (sh : bool) sf' srest bs bs' sg mf' mrest bm bm' mg,
  kfrel sf' mf' -> Forall2 kfrel srest mrest -> beq bs bm -> beq bs' bm' -> kfrel sg mg ->
  kres_rel (if sh then KSOk (sf' :: srest) bs [KObsNoFunds] else KSOk (sg :: sf' :: srest) bs' [obs_of sg])
           (m_outcome sh (if sh then None else Some bm') (mf' :: mrest) bm mg (k_obs mg)).
Proof.
  intros sh sf' srest bs bs' sg mf' mrest bm bm' mg Hf Hr Hb Hb' Hg.
  destruct sh; cbn.
  - split; [reflexivity|]. split; [constructor; assumption | assumption].
  - split.
    + destruct Hg as ((Ht & Hc & Ho & _) & Hv). unfold obs_of, k_obs. rewrite Ht, Hc, Ho, Hv. reflexivity.
    + split; [constructor; [assumption | constructor; assumption] | assumption].
Qed.

Lemma outcome_ok : forall sf' srest bs' sg mf' mrest bm bm' mg,
  kfrel sf' mf' -> Forall2 kfrel srest mrest -> beq bs' bm' -> kfrel sg mg ->
  kres_rel (KSOk (sg :: sf' :: srest) bs' [obs_of sg]) (m_outcome false (Some bm') (mf' :: mrest) bm mg (k_obs mg)).
Proof.
  intros sf' srest bs' sg mf' mrest bm bm' mg Hf Hr Hb' Hg.
  exact (outcome_rel false sf' srest bs' bs' sg mf' mrest bm' bm' mg Hf Hr Hb' Hb' Hg).
Qed.

Lemma call_sim : forall k a v sf mf srest mrest bs bm,
  kfrel sf mf -> Forall2 kfrel srest mrest -> beq bs bm ->
  ~ In a cheatcode_addresses -> kop_scope sf (KCallK k a v) = true ->
  kres_rel (ks_step (sf :: srest) bs (KCallK k a v)) (km_call k a v mf mrest bm).
Proof.
  intros k a v sf mf srest mrest bs bm [Hf Hv] Hr Hb Hto Hsc.
  apply not_cheat_not_exempt in Hto.
  destruct (resolve_consume (ks_f sf) (k_f mf) a Hf Hto) as [H1 H2].
  cbn [ks_step]. unfold km_call.
  destruct (resolve_prank (k_f mf) a) as [[pc po] f1]. cbn [fst snd] in H1, H2.
  destruct (s_next_call (ks_f sf)) as [s og] eqn:Enc. inversion H1; subst pc po.
  cbv zeta.
  destruct Hf as (Ht & Hc & Ho & Hp).
  destruct (call_sel k a (m_this (k_f mf)) (m_caller (k_f mf)) (m_origin (k_f mf)) (k_value mf) s og v)
    as (-> & -> & -> & -> & -> & -> & -> & ->).
  assert (Hf1 : kfrel (ks_log LCall sf) (k_with mf f1)) by (split; [exact H2 | exact Hv]).
  destruct (fork_same_account bs s (receiver k sf a) (moved k v)) as [Hfa Htr].
  assert (Hfails : m_fails bm s (moved k v) = short (bs s) (moved k v)).
  { rewrite <- Hfa. unfold m_fails. rewrite (Hb s). reflexivity. }
  rewrite Hfails.
  destruct k; cbn [moved receiver entered op_of_ckind] in *.
  - (* CALL *)
    destruct (call_tv_sel a (m_this (k_f mf)) (m_caller (k_f mf)) (m_origin (k_f mf)) (k_value mf) s og v)
      as (-> & -> & -> & _ & _).
    destruct (fork_same_account bm s a v) as [_ Htm]. rewrite Htm. rewrite <- (Hb s).
    apply outcome_rel; auto.
    + destruct (v =? 0) eqn:Ev.
      * apply Z.eqb_eq in Ev. subst v. intros x. rewrite move_zero. apply Hb.
      * apply move_ext. exact Hb.
    + apply kfrel_fresh.
  - (* CALLCODE *)
    destruct (call_tv_sel a (m_this (k_f mf)) (m_caller (k_f mf)) (m_origin (k_f mf)) (k_value mf) s og v)
      as (_ & _ & _ & -> & ->).
    destruct (funds_sel (bm s) v) as (_ & _ & _ & _ & -> & _ & _). rewrite <- (Hb s).
    assert (Hc2 : (if negb (v =? 0) then if bs s >=? v then Some bm else None else Some bm)
                  = if short (bs s) v then None else Some bm).
    { unfold short. destruct (v =? 0); cbn [negb andb]; [reflexivity|].
      rewrite Z.geb_leb, Z.leb_antisym. destruct (bs s <? v); reflexivity. }
    rewrite Hc2. rewrite Ht.
    apply outcome_rel; auto.
    + cbn [kop_scope] in Hsc. rewrite Enc in Hsc. cbn [fst] in Hsc.
      apply orb_true_iff in Hsc. destruct Hsc as [Ez | Es].
      * apply Z.eqb_eq in Ez. subst v. intros x. rewrite move_zero. apply Hb.
      * apply Z.eqb_eq in Es. subst s. intros x. rewrite move_self. apply Hb.
    + rewrite <- Ht. apply kfrel_fresh.
  - (* DELEGATECALL *)
    rewrite short_zero. rewrite Ht, Hc, Hv.
    apply outcome_ok; auto.
    + intros x. rewrite move_zero. apply Hb.
    + apply kfrel_fresh.
  - (* STATICCALL *)
    rewrite short_zero.
    apply outcome_ok; auto.
    + intros x. rewrite move_zero. apply Hb.
    + apply kfrel_fresh.
Qed.

Lemma create_sim : forall k a v sf mf srest mrest bs bm,
  kfrel sf mf -> Forall2 kfrel srest mrest -> beq bs bm ->
  kres_rel (ks_step (sf :: srest) bs (KCreate k a v)) (km_create k a v mf mrest bm).
Proof.
  intros k a v sf mf srest mrest bs bm [Hf Hv] Hr Hb.
  destruct (resolve_consume (ks_f sf) (k_f mf) 0 Hf exempt_zero) as [H1 H2].
  cbn [ks_step]. unfold km_create.
  destruct (resolve_prank (k_f mf) 0) as [[pc po] f1]. cbn [fst snd] in H1, H2.
  destruct (s_next_call (ks_f sf)) as [s og] eqn:Enc. inversion H1; subst pc po.
  cbv zeta.
  destruct (create_sel k a (m_this (k_f mf)) (m_caller (k_f mf)) (m_origin (k_f mf)) (k_value mf) s og v)
    as (-> & -> & -> & -> & -> & -> & -> & -> & ->).
  assert (Hf1 : kfrel (ks_log LCall sf) (k_with mf f1)) by (split; [exact H2 | exact Hv]).
  destruct (fork_same_account bm s a v) as [Hfa Htm]. rewrite Hfa, Htm. rewrite <- (Hb s).
  apply outcome_rel; auto.
  - destruct (v =? 0) eqn:Ev.
    + apply Z.eqb_eq in Ev. subst v. intros x. rewrite move_zero. apply Hb.
    + apply move_ext. exact Hb.
  - apply kfrel_fresh.
Qed.

Lemma kstep_sim : forall ss ms bs bm o,
  Forall2 kfrel ss ms -> beq bs bm -> ktarget_ok o ->
  match ss with [] => True | f :: _ => kop_scope f o = true end ->
  kres_rel (ks_step ss bs o) (km_step ms bm o).
Proof.
  intros ss ms bs bm o HF Hb Hto Hsc.
  destruct HF as [|sf mf srest mrest Hf Hr].
  - destruct o; cbn; repeat split; auto.
  - destruct o as [keep s og| |c|k a v|k a v| |a]; cbn [ks_step km_step].
    + destruct Hf as [Hf Hv]. rewrite resolve_exempt by exact exempt_hevm.
      destruct Hf as (Ht & Hc & Ho & Hp). unfold do_prank. rewrite Hp.
      rewrite in_effect_scan. unfold abs_prank.
      destruct (scan (s_hist (ks_f sf)) false) as [[[k' s'] o']|] eqn:E; cbn.
      * exact I.
      * split; [reflexivity|]. split; [|exact Hb]. constructor; [|exact Hr].
        split; [|exact Hv]. repeat split; cbn; auto. unfold abs_prank. cbn [scan]. destruct keep; reflexivity.
    + destruct Hf as [Hf Hv]. rewrite resolve_exempt by exact exempt_hevm. cbn. split; [reflexivity|].
      split; [|exact Hb]. constructor; [|exact Hr]. split; [|exact Hv].
      destruct Hf as (Ht & Hc & Ho & Hp). repeat split; cbn; auto.
    + destruct Hf as [Hf Hv]. rewrite resolve_exempt by apply cheat_addr_exempt. cbn. split; [reflexivity|].
      split; [|exact Hb]. constructor; [|exact Hr]. split; [|exact Hv].
      destruct Hf as (Ht & Hc & Ho & Hp). repeat split; cbn; auto.
    + apply call_sim; auto.
    + apply create_sim; auto.
    + destruct Hr as [|sf2 mf2 sr2 mr2 Hf2 Hr2]; cbn.
      * split; [reflexivity|]. split; [constructor; [exact Hf | constructor] | exact Hb].
      * split; [reflexivity|]. split; [constructor; assumption | exact Hb].
    + cbn. split; [rewrite (Hb a); reflexivity|]. split; [constructor; assumption | exact Hb].
Qed.

Lemma krun_sim : forall ops ss ms bs bm,
  Forall2 kfrel ss ms -> beq bs bm -> Forall ktarget_ok ops -> ks_scope ss bs ops = true ->
  km_run ms bm ops = ks_run ss bs ops.
Proof.
  induction ops as [|o r IH]; intros ss ms bs bm HF Hb Hto Hsc; [reflexivity|].
  inversion Hto as [|? ? Hto1 Hto2]; subst.
  cbn [ks_scope] in Hsc. apply andb_true_iff in Hsc. destruct Hsc as [Hsc1 Hsc2].
  assert (Hs : kres_rel (ks_step ss bs o) (km_step ms bm o)).
  { apply kstep_sim; auto. destruct ss; [exact I | exact Hsc1]. }
  cbn [km_run ks_run].
  destruct (ks_step ss bs o) as [|ss' bs' out]; destruct (km_step ms bm o) as [| | |ms' bm' out']; cbn in Hs; try contradiction.
  - reflexivity.
  - destruct Hs as (-> & HF' & Hb'). f_equal. apply IH; assumption.
Qed.

(* what every entered frame observes (ADDRESS, CALLER, ORIGIN, CALLVALUE), which calls fail for lack of
   funds and every balance read, for every finite op sequence over every call / creation kind and value *)
Theorem prank_kinds : forall this sender origin value b ops,
  Forall ktarget_ok ops -> ks_scope [ks_fresh this sender origin value] b ops = true ->
  km_run [k_fresh this sender origin value] b ops = ks_run [ks_fresh this sender origin value] b ops.
Proof.
  intros. apply krun_sim; auto using beq_refl. constructor; [apply kfrel_fresh | constructor].
Qed.

(* no input is lost or covered twice: the failing and the continuing side of the funds fork are
   complementary for every kind (immediate from prank_kinds: the specification never says so) *)
Lemma ks_run_never_lost : forall ops st b, ~ In KObsLost (ks_run st b ops) /\ ~ In KObsDouble (ks_run st b ops).
Proof.
  induction ops as [|o r IH]; intros st b; cbn [ks_run]; [split; intros []|].
  destruct (ks_step st b o) as [|st' b' out] eqn:E.
  - split; intros [H|[]]; discriminate.
  - assert (Hout : ~ In KObsLost out /\ ~ In KObsDouble out).
    { destruct st as [|f rest]; [destruct o; cbn in E; inversion E; subst; split; intros []|].
      destruct o as [keep s og| |c|k a v|k a v| |a]; cbn [ks_step] in E.
      - destruct (in_effect (s_hist (ks_f f)) false); inversion E; subst; split; intros [].
      - inversion E; subst; split; intros [].
      - inversion E; subst; split; intros [].
      - destruct (s_next_call (ks_f f)) as [s og]. destruct (short (b s) (moved k v)); inversion E; subst;
          split; intros [H|[]]; discriminate.
      - destruct (s_next_call (ks_f f)) as [s og]. destruct (short (b s) v); inversion E; subst;
          split; intros [H|[]]; discriminate.
      - destruct rest; inversion E; subst; split; intros [].
      - inversion E; subst; split; intros [H|[]]; discriminate. }
    destruct (IH st' b') as [I1 I2]. destruct Hout as [O1 O2].
    split; intros H; apply in_app_or in H; tauto.
Qed.

Theorem prank_kinds_total : forall this sender origin value b ops,
  Forall ktarget_ok ops -> ks_scope [ks_fresh this sender origin value] b ops = true ->
  ~ In KObsLost (km_run [k_fresh this sender origin value] b ops) /\
  ~ In KObsDouble (km_run [k_fresh this sender origin value] b ops).
Proof. intros. rewrite prank_kinds by assumption. apply ks_run_never_lost. Qed.

(* ---------------------------------------------------------------- the direct statement: a prank in
   force decides msg.sender of the next call of EVERY kind but DELEGATECALL, and is used up by it *)
Theorem pending_prank_every_kind : forall k a v this caller origin cv s og keep rest b,
  ~ In a cheatcode_addresses -> k <> CkDelegate ->
  let f := {| k_f := {| m_this := this; m_caller := caller; m_origin := origin;
                        m_prank := {| active := {| p_sender := Some s; p_origin := og |}; keep := keep |} |};
              k_value := cv |} in
  let o' := match og with Some x => x | None => origin end in
  let after := {| k_f := {| m_this := this; m_caller := caller; m_origin := origin;
                            m_prank := if keep then m_prank (k_f f) else fresh_prank |}; k_value := cv |} in
  (short (b s) (moved k v) = true /\ km_step (f :: rest) b (KCallK k a v) = KMOk (after :: rest) b [KObsNoFunds]) \/
  (short (b s) (moved k v) = false /\
   exists g b', km_step (f :: rest) b (KCallK k a v) = KMOk (g :: after :: rest) b' [k_obs g] /\
     m_caller (k_f g) = s /\ m_origin (k_f g) = o' /\ k_value g = moved k v /\ m_prank (k_f g) = fresh_prank /\
     m_this (k_f g) = match k with CkCall | CkStatic => a | _ => this end).
Proof.
  intros k a v this caller origin cv s og keep rest b Hto Hk f o' after.
  apply not_cheat_not_exempt in Hto.
  cbn [km_step]. unfold km_call. unfold resolve_prank, lookup. subst f. cbn [k_f m_prank m_this m_caller m_origin k_value].
  unfold prank_bool. cbn [active presult_bool p_sender]. rewrite Hto. cbn [negb andb p_sender p_origin].
  cbv zeta. fold o'.
  destruct (call_sel k a this caller origin cv s o' v) as (-> & -> & -> & -> & -> & -> & -> & ->).
  destruct (fork_same_account b s a (moved k v)) as [Hfa Htr]. rewrite Hfa.
  match goal with |- context [k_with ?x ?y] =>
    assert (Hafter : k_with x y = after) by (subst after; unfold k_with, m_with; cbn; destruct keep; reflexivity);
    rewrite Hafter end.
  destruct k; try congruence; cbn [moved op_of_ckind] in *.
  - destruct (call_tv_sel a this caller origin cv s o' v) as (-> & -> & -> & _ & _). rewrite Htr.
    destruct (short (b s) v); [left; split; reflexivity|]. right. split; [reflexivity|].
    eexists. eexists. split; [reflexivity|]. cbn. repeat split.
  - destruct (call_tv_sel a this caller origin cv s o' v) as (_ & _ & _ & -> & ->).
    destruct (funds_sel (b s) v) as (_ & _ & _ & _ & -> & _ & _).
    unfold short. destruct (v =? 0); cbn [negb andb].
    + right. split; [reflexivity|]. eexists. eexists. split; [reflexivity|]. cbn. repeat split.
    + rewrite Z.geb_leb, Z.leb_antisym. destruct (b s <? v); cbn [negb].
      * left. split; reflexivity.
      * right. split; [reflexivity|]. eexists. eexists. split; [reflexivity|]. cbn. repeat split.
  - rewrite short_zero. right. split; [reflexivity|]. eexists. eexists. split; [reflexivity|]. cbn. repeat split.
Qed.

(* a creation: msg.sender and the paying account are the pranked address, for CREATE and CREATE2 *)
Theorem pending_prank_create : forall k a v this caller origin cv s og keep rest b,
  let f := {| k_f := {| m_this := this; m_caller := caller; m_origin := origin;
                        m_prank := {| active := {| p_sender := Some s; p_origin := og |}; keep := keep |} |};
              k_value := cv |} in
  let o' := match og with Some x => x | None => origin end in
  let after := {| k_f := {| m_this := this; m_caller := caller; m_origin := origin;
                            m_prank := if keep then m_prank (k_f f) else fresh_prank |}; k_value := cv |} in
  (short (b s) v = true /\ km_step (f :: rest) b (KCreate k a v) = KMOk (after :: rest) b [KObsNoFunds]) \/
  (short (b s) v = false /\
   exists b', km_step (f :: rest) b (KCreate k a v) = KMOk (k_fresh a s o' v :: after :: rest) b' [KObs a s o' v] /\
              beq b' (move b s a v)).
Proof.
  intros k a v this caller origin cv s og keep rest b f o' after.
  cbn [km_step]. unfold km_create. unfold resolve_prank, lookup. subst f. cbn [k_f m_prank m_this m_caller m_origin k_value].
  unfold prank_bool. cbn [active presult_bool p_sender]. rewrite exempt_zero. cbn [negb andb p_sender p_origin].
  cbv zeta. fold o'.
  destruct (create_sel k a this caller origin cv s o' v) as (-> & -> & -> & -> & -> & -> & -> & -> & ->).
  destruct (fork_same_account b s a v) as [-> ->].
  match goal with |- context [k_with ?x ?y] =>
    assert (Hafter : k_with x y = after) by (subst after; unfold k_with, m_with; cbn; destruct keep; reflexivity);
    rewrite Hafter end.
  destruct (short (b s) v); [left; split; reflexivity|]. right. split; [reflexivity|].
  eexists. split; [reflexivity|].
  destruct (v =? 0) eqn:Ev; [|apply beq_refl].
  apply Z.eqb_eq in Ev. subst v. intros x. symmetry. apply move_zero.
Qed.

(* ---------------------------------------------------------------- outside the fragment:
   a value-bearing CALLCODE under a prank of another address moves nothing in halmos *)
Definition gap_ops : list kop :=
  [KPrank false 11 None; KCallK CkCallcode 50 5; KReturn; KBalance 11; KBalance 1].
Definition gap_bal : balances := fun a => if a =? 11 then 9 else 0.

Lemma callcode_value_gap :
  km_run [k_fresh 1 2 3 0] gap_bal gap_ops <> ks_run [ks_fresh 1 2 3 0] gap_bal gap_ops /\
  ks_scope [ks_fresh 1 2 3 0] gap_bal gap_ops = false.
Proof. split; [vm_compute; discriminate | vm_compute; reflexivity]. Qed.
