(* Proofs for C13, part 2: the condition a handler builds is the stated relation on the
   strictly ABI-decoded operands, for all calldata. *)
From Coq Require Import ZArith NArith List Bool String Ascii Lia ZifyBool.
From HV Require Import Base.Word Base.SmtBV Spec.AssertSpec Model.AssertModel Proofs.AssertProofs.
Import ListNotations.
Open Scope list_scope.
Open Scope Z_scope.

(* ------------------------------------------------------------------ big-endian numbers *)
Lemma zlen_cons : forall a (l : list Z), zlen (a :: l) = zlen l + 1.
Proof. intros. unfold zlen. cbn [List.length]. lia. Qed.
Lemma zlen_nonneg : forall l : list Z, 0 <= zlen l.
Proof. intros. unfold zlen. lia. Qed.

Lemma be_num_acc : forall l acc, be_num acc l = acc * 256 ^ zlen l + be_num 0 l.
Proof.
  induction l as [|b r IH]; intros acc.
  - cbn. lia.
  - cbn [be_num]. rewrite (IH (acc * 256 + b)), (IH (0 * 256 + b)), zlen_cons.
    rewrite Z.pow_add_r by (pose proof (zlen_nonneg r); lia). lia.
Qed.

Lemma be_val_cons : forall b r, be_val (b :: r) = b * 256 ^ zlen r + be_val r.
Proof. intros. unfold be_val. cbn [be_num]. rewrite be_num_acc. lia. Qed.

Lemma pow256_pos : forall n, 0 <= n -> 0 < 256 ^ n.
Proof. intros. apply Z.pow_pos_nonneg; lia. Qed.

Lemma be_val_bound : forall l, bytes_ok l -> 0 <= be_val l < 256 ^ zlen l.
Proof.
  induction l as [|b r IH]; intros H.
  - cbn. lia.
  - inversion H as [|? ? Hb Hr]; subst. specialize (IH Hr). rewrite be_val_cons, zlen_cons.
    rewrite Z.pow_add_r by (pose proof (zlen_nonneg r); lia).
    unfold byte_ok in Hb. pose proof (pow256_pos (zlen r) (zlen_nonneg r)). nia.
Qed.

Lemma list_eqb_len : forall (l1 l2 : list Z), list_eqb Z.eqb l1 l2 = true -> List.length l1 = List.length l2.
Proof.
  induction l1 as [|a r IH]; intros [|b s]; cbn; try discriminate; auto.
  intros H. apply andb_true_iff in H. destruct H as [_ H]. f_equal. auto.
Qed.

Lemma list_eqb_be : forall l1 l2, bytes_ok l1 -> bytes_ok l2 -> List.length l1 = List.length l2 ->
  list_eqb Z.eqb l1 l2 = (be_val l1 =? be_val l2).
Proof.
  induction l1 as [|a r IH]; intros [|b s] H1 H2 Hl; cbn in Hl; try discriminate.
  - reflexivity.
  - inversion H1 as [|? ? Ha Hr]; inversion H2 as [|? ? Hb Hs]; subst.
    injection Hl as Hl. cbn [list_eqb]. rewrite (IH s Hr Hs Hl), !be_val_cons.
    assert (zlen r = zlen s) as E by (unfold zlen; lia). rewrite E.
    pose proof (be_val_bound r Hr) as B1. pose proof (be_val_bound s Hs) as B2. rewrite E in B1.
    pose proof (pow256_pos (zlen s) (zlen_nonneg s)) as P.
    unfold byte_ok in *.
    destruct (a =? b) eqn:Eab; destruct (be_val r =? be_val s) eqn:Ers; cbn [andb];
      symmetry; [apply Z.eqb_eq|apply Z.eqb_neq..]; nia.
Qed.

Lemma list_eqb_app : forall (h1 h2 t1 t2 : list Z), List.length h1 = List.length h2 ->
  list_eqb Z.eqb (h1 ++ t1) (h2 ++ t2) = list_eqb Z.eqb h1 h2 && list_eqb Z.eqb t1 t2.
Proof.
  induction h1 as [|a r IH]; intros [|b s] t1 t2 Hl; cbn in Hl; try discriminate.
  - reflexivity.
  - injection Hl as Hl. cbn [app list_eqb]. rewrite (IH s t1 t2 Hl). apply andb_assoc.
Qed.

(* ------------------------------------------------------------------ slices *)
Lemma bytes_ok_firstn : forall n l, bytes_ok l -> bytes_ok (firstn n l).
Proof.
  intros n l H. rewrite <- (firstn_skipn n l) in H. apply Forall_app in H. tauto.
Qed.
Lemma bytes_ok_skipn : forall n l, bytes_ok l -> bytes_ok (skipn n l).
Proof.
  intros n l H. rewrite <- (firstn_skipn n l) in H. apply Forall_app in H. tauto.
Qed.

Lemma sub_some : forall l off n l', sub l off n = Some l' ->
  0 <= off /\ 0 <= n /\ off + n <= zlen l /\ l' = firstn (Z.to_nat n) (skipn (Z.to_nat off) l).
Proof.
  unfold sub. intros l off n l' H.
  destruct ((0 <=? off) && (0 <=? n) && (off + n <=? zlen l)) eqn:E; [|discriminate].
  injection H as <-. repeat split; try reflexivity; lia.
Qed.
Lemma sub_length : forall l off n l', sub l off n = Some l' -> List.length l' = Z.to_nat n.
Proof.
  intros l off n l' H. apply sub_some in H. destruct H as (H0 & H1 & H2 & ->).
  rewrite firstn_length, skipn_length. unfold zlen in H2. lia.
Qed.
Lemma sub_bytes_ok : forall l off n l', bytes_ok l -> sub l off n = Some l' -> bytes_ok l'.
Proof.
  intros l off n l' Hb H. apply sub_some in H. destruct H as (_ & _ & _ & ->).
  apply bytes_ok_firstn, bytes_ok_skipn, Hb.
Qed.

Lemma args_of_some : forall cd args, args_of cd = Some args -> 4 <= zlen cd /\ args = skipn 4 cd /\ zlen args = zlen cd - 4.
Proof.
  unfold args_of. intros cd args H. destruct (4 <=? zlen cd) eqn:E; [|discriminate].
  assert (args = skipn 4 cd) as -> by congruence. clear H. split; [lia|]. split; [reflexivity|]. unfold zlen in *. rewrite skipn_length. lia.
Qed.

Lemma skipn_add : forall b a (l : list Z), skipn a (skipn b l) = skipn (a + b) l.
Proof.
  induction b as [|b IH]; intros a l.
  - rewrite Nat.add_0_r. reflexivity.
  - rewrite Nat.add_succ_r. destruct l as [|x l].
    + rewrite !skipn_nil. reflexivity.
    + cbn [skipn]. apply IH.
Qed.

(* reading a strictly in-bounds slice through the zero-padding extractor gives the slice *)
Lemma extract_sub : forall cd args off n l,
  args_of cd = Some args -> sub args off n = Some l -> extract_bytes cd (4 + off) n = l.
Proof.
  intros cd args off n l Ha Hs.
  destruct (args_of_some _ _ Ha) as (H4 & -> & Hz).
  pose proof (sub_length _ _ _ _ Hs) as Hlen.
  apply sub_some in Hs. destruct Hs as (H0 & H1 & H2 & Hl).
  unfold extract_bytes, skipZ, pad_right.
  destruct (4 + off <? 0) eqn:E0; [lia|].
  destruct (zlen cd <=? 4 + off) eqn:E1.
  - assert (n = 0) by lia. subst n. cbn [Z.to_nat firstn] in *. subst l. reflexivity.
  - replace (Z.to_nat (4 + off)) with (Z.to_nat off + 4)%nat by lia.
    rewrite <- skipn_add. rewrite <- Hl. rewrite Hlen. rewrite Nat.sub_diag. cbn [repeat]. apply app_nil_r.
Qed.

Lemma extract_word_at : forall cd args off w,
  args_of cd = Some args -> word_at args off = Some w -> extract_word cd (4 + off) = w.
Proof.
  unfold word_at, extract_word. intros cd args off w Ha H.
  destruct (sub args off 32) as [l|] eqn:Hs; [|discriminate]. injection H as <-.
  rewrite (extract_sub _ _ _ _ _ Ha Hs). reflexivity.
Qed.

Lemma extract_bytes_argument_spec : forall cd args i m,
  args_of cd = Some args -> dyn_bytes args i = Some m -> extract_bytes_argument cd i = m.
Proof.
  unfold dyn_bytes, head_word, extract_bytes_argument. intros cd args i m Ha H.
  destruct (sub args (32 * i) 32) as [l|] eqn:Hs; [|discriminate]. cbn [option_map bind] in H.
  destruct (word_at args (be_val l)) as [len|] eqn:Hw; [|discriminate]. cbn [bind] in H.
  replace (4 + i * 32) with (4 + 32 * i) by lia.
  assert (extract_word cd (4 + 32 * i) = be_val l) as E1.
  { unfold extract_word. rewrite (extract_sub _ _ _ _ _ Ha Hs). reflexivity. }
  rewrite E1. rewrite (extract_word_at _ _ _ _ Ha Hw).
  destruct (len =? 0) eqn:E0.
  - apply Z.eqb_eq in E0. subst len. apply sub_some in H. destruct H as (_ & _ & _ & ->). reflexivity.
  - replace (4 + be_val l + 32) with (4 + (be_val l + 32)) by lia. apply (extract_sub _ _ _ _ _ Ha H).
Qed.

Lemma extract_array_spec : forall cd args i off len c,
  args_of cd = Some args -> head_word args i = Some off -> word_at args off = Some len ->
  sub args (off + 32) (32 * len) = Some c -> extract_bytes32_array_argument cd i = c.
Proof.
  unfold head_word, extract_bytes32_array_argument. intros cd args i off len c Ha Hh Hw Hc.
  destruct (sub args (32 * i) 32) as [l|] eqn:Hs; [|discriminate]. injection Hh as <-.
  replace (4 + i * 32) with (4 + 32 * i) by lia.
  assert (extract_word cd (4 + 32 * i) = be_val l) as E1.
  { unfold extract_word. rewrite (extract_sub _ _ _ _ _ Ha Hs). reflexivity. }
  rewrite E1. rewrite (extract_word_at _ _ _ _ Ha Hw).
  destruct (len =? 0) eqn:E0.
  - apply Z.eqb_eq in E0. subst len. apply sub_some in Hc. destruct Hc as (_ & _ & _ & ->). reflexivity.
  - replace (4 + be_val l + 32) with (4 + (be_val l + 32)) by lia.
    replace (len * 32) with (32 * len) by lia. apply (extract_sub _ _ _ _ _ Ha Hc).
Qed.

(* ------------------------------------------------------------------ mk_cond *)
Lemma is_empty_len : forall l : list Z, (0 < List.length l)%nat -> is_empty l = false.
Proof. intros [|a r] H; [cbn in H; lia|reflexivity]. Qed.

Lemma mk_cond_Eq : forall l1 l2, bytes_ok l1 -> bytes_ok l2 ->
  mk_cond "Eq" l1 l2 = CBool (list_eqb Z.eqb l1 l2).
Proof.
  intros l1 l2 H1 H2. unfold mk_cond.
  destruct l1 as [|a r], l2 as [|b s]; try reflexivity.
  cbn [is_empty andb orb].
  destruct (8 * zlen (a :: r) =? 8 * zlen (b :: s)) eqn:E; cbn [negb].
  - change (String.eqb "Eq" "Eq") with true. cbv iota.
    rewrite list_eqb_be by (auto; unfold zlen in E; lia). reflexivity.
  - change (eq_like "Eq" false) with (CBool false). f_equal.
    destruct (list_eqb Z.eqb (a :: r) (b :: s)) eqn:L; [|reflexivity].
    apply list_eqb_len in L. unfold zlen in E. lia.
Qed.

Lemma mk_cond_NotEq : forall l1 l2, bytes_ok l1 -> bytes_ok l2 ->
  mk_cond "NotEq" l1 l2 = CBool (negb (list_eqb Z.eqb l1 l2)).
Proof.
  intros l1 l2 H1 H2. unfold mk_cond.
  destruct l1 as [|a r], l2 as [|b s]; try reflexivity.
  cbn [is_empty andb orb].
  destruct (8 * zlen (a :: r) =? 8 * zlen (b :: s)) eqn:E; cbn [negb].
  - change (String.eqb "NotEq" "Eq") with false. change (String.eqb "NotEq" "NotEq") with true. cbv iota.
    rewrite list_eqb_be by (auto; unfold zlen in E; lia). reflexivity.
  - change (eq_like "NotEq" false) with (CBool true). f_equal.
    destruct (list_eqb Z.eqb (a :: r) (b :: s)) eqn:L; [|reflexivity].
    apply list_eqb_len in L. unfold zlen in E. lia.
Qed.

(* on two 32-byte operands the comparison operators reach their SMT-LIB meaning *)
Lemma mk_cond_word : forall bop l1 l2, List.length l1 = 32%nat -> List.length l2 = 32%nat ->
  mk_cond bop l1 l2 =
    let n1 := be_val l1 in let n2 := be_val l2 in
    if String.eqb bop "Eq" then CBool (n1 =? n2)
    else if String.eqb bop "NotEq" then CBool (negb (n1 =? n2))
    else if String.eqb bop "ULt" then CBool (bvult n1 n2)
    else if String.eqb bop "UGt" then CBool (bvult n2 n1)
    else if String.eqb bop "ULe" then CBool (bvule n1 n2)
    else if String.eqb bop "UGe" then CBool (bvule n2 n1)
    else if String.eqb bop "SLt" then CBool (bvslt 256 n1 n2)
    else if String.eqb bop "SGt" then CBool (bvslt 256 n2 n1)
    else if String.eqb bop "SLe" then CBool (bvsle 256 n1 n2)
    else if String.eqb bop "SGe" then CBool (bvsle 256 n2 n1)
    else CRaise.
Proof.
  intros bop l1 l2 H1 H2. unfold mk_cond.
  rewrite (is_empty_len l1) by lia. rewrite (is_empty_len l2) by lia. cbn [andb orb].
  unfold zlen. rewrite H1, H2. change (8 * Z.of_nat 32) with 256. rewrite Z.eqb_refl. cbn [negb orb].
  reflexivity.
Qed.

(* ------------------------------------------------------------------ words *)
Lemma to_signed_inj : forall a b, 0 <= a < W -> 0 <= b < W -> (to_signed a =? to_signed b) = (a =? b).
Proof.
  intros a b Ha Hb. unfold to_signed, W, W2 in *.
  destruct (a <? 2 ^ 255) eqn:E1; destruct (b <? 2 ^ 255) eqn:E2; lia.
Qed.

Lemma bvsigned_to_signed : forall x, bvsigned 256 x = to_signed x.
Proof. intros. unfold bvsigned, to_signed, W2, W. change (256 - 1) with 255. reflexivity. Qed.

Lemma word_bound : forall l, bytes_ok l -> List.length l = 32%nat -> 0 <= be_val l < W.
Proof.
  intros l H Hl. pose proof (be_val_bound l H) as B. unfold zlen in B. rewrite Hl in B.
  unfold W. change (256 ^ Z.of_nat 32) with (2 ^ 256) in B. exact B.
Qed.

Lemma word_eq_num : forall t a b, 0 <= a < W -> 0 <= b < W ->
  valid_word t a = true -> valid_word t b = true -> word_eq t a b = (a =? b).
Proof.
  intros t a b Ha Hb Va Vb. destruct t; cbn [word_eq valid_word] in *; try reflexivity.
  - unfold word_truth. destruct (a =? 0) eqn:E1; destruct (b =? 0) eqn:E2; cbn; lia.
  - apply to_signed_inj; assumption.
Qed.

Lemma word_eq_bytes : forall t h1 h2, bytes_ok h1 -> bytes_ok h2 ->
  List.length h1 = 32%nat -> List.length h2 = 32%nat ->
  valid_word t (be_val h1) = true -> valid_word t (be_val h2) = true ->
  word_eq t (be_val h1) (be_val h2) = list_eqb Z.eqb h1 h2.
Proof.
  intros. rewrite word_eq_num by (auto using word_bound). symmetry. apply list_eqb_be; auto. lia.
Qed.

(* the condition built for two one-word operands is the stated relation *)
Lemma word_rel : forall o t msg l1 l2 r,
  bytes_ok l1 -> bytes_ok l2 -> List.length l1 = 32%nat -> List.length l2 = 32%nat ->
  valid_word t (be_val l1) = true -> valid_word t (be_val l2) = true ->
  is_dyn t = false ->
  rel o t (VWord (be_val l1)) (VWord (be_val l2)) = Some r ->
  mk_cond (expected_bop (mkDescr o t false msg)) l1 l2 = CBool r.
Proof.
  intros o t msg l1 l2 r B1 B2 L1 L2 V1 V2 Hd Hr.
  pose proof (word_bound l1 B1 L1) as W1. pose proof (word_bound l2 B2 L2) as W2.
  rewrite mk_cond_word by assumption. cbv zeta.
  assert (word_eq t (be_val l1) (be_val l2) = (be_val l1 =? be_val l2)) as WE by (apply word_eq_num; auto).
  destruct o; cbn [rel val_eq option_map] in Hr; try discriminate.
  - (* Eq *) injection Hr as <-. rewrite WE. reflexivity.
  - (* NotEq *) injection Hr as <-. rewrite WE. reflexivity.
  - (* Lt *) destruct t; cbn [word_lt] in Hr; try discriminate; injection Hr as <-.
    + reflexivity.
    + change (expected_bop _) with "SLt"%string. cbn [String.eqb Ascii.eqb Bool.eqb andb].
      unfold bvslt. rewrite !bvsigned_to_signed. reflexivity.
  - (* Gt *) destruct t; cbn [word_lt] in Hr; try discriminate; injection Hr as <-.
    + reflexivity.
    + change (expected_bop _) with "SGt"%string. cbn [String.eqb Ascii.eqb Bool.eqb andb].
      unfold bvslt. rewrite !bvsigned_to_signed. reflexivity.
  - (* Le *) destruct t; cbn [word_lt option_map] in Hr; try discriminate; injection Hr as <-.
    + change (expected_bop _) with "ULe"%string. cbn [String.eqb Ascii.eqb Bool.eqb andb].
      unfold bvule. f_equal. apply Z.leb_antisym.
    + change (expected_bop _) with "SLe"%string. cbn [String.eqb Ascii.eqb Bool.eqb andb].
      unfold bvsle. rewrite !bvsigned_to_signed. f_equal. apply Z.leb_antisym.
  - (* Ge *) destruct t; cbn [word_lt option_map] in Hr; try discriminate; injection Hr as <-.
    + change (expected_bop _) with "UGe"%string. cbn [String.eqb Ascii.eqb Bool.eqb andb].
      unfold bvule. f_equal. apply Z.leb_antisym.
    + change (expected_bop _) with "SGe"%string. cbn [String.eqb Ascii.eqb Bool.eqb andb].
      unfold bvsle. rewrite !bvsigned_to_signed. f_equal. apply Z.leb_antisym.
Qed.

(* ------------------------------------------------------------------ arrays *)
Lemma split32 : forall (c : list Z) k, List.length c = (32 * S k)%nat ->
  c = firstn 32 c ++ skipn 32 c /\ List.length (firstn 32 c) = 32%nat /\ List.length (skipn 32 c) = (32 * k)%nat.
Proof.
  intros c k H. split; [symmetry; apply firstn_skipn|]. rewrite firstn_length, skipn_length. lia.
Qed.

Lemma words_eq_bytes : forall t n1 n2 c1 c2,
  bytes_ok c1 -> bytes_ok c2 -> List.length c1 = (32 * n1)%nat -> List.length c2 = (32 * n2)%nat ->
  forallb (valid_word t) (words_of n1 c1) = true -> forallb (valid_word t) (words_of n2 c2) = true ->
  list_eqb (word_eq t) (words_of n1 c1) (words_of n2 c2) = list_eqb Z.eqb c1 c2.
Proof.
  induction n1 as [|k1 IH]; intros n2 c1 c2 B1 B2 L1 L2 V1 V2.
  - destruct c1; [|cbn in L1; lia]. destruct n2 as [|k2].
    + destruct c2; [reflexivity|cbn in L2; lia].
    + destruct c2; [cbn in L2; lia|reflexivity].
  - destruct n2 as [|k2].
    + destruct c2; [|cbn in L2; lia]. destruct c1; [cbn in L1; lia|reflexivity].
    + destruct (split32 c1 k1 L1) as (E1 & F1 & S1). destruct (split32 c2 k2 L2) as (E2 & F2 & S2).
      cbn [words_of list_eqb forallb] in *.
      apply andb_true_iff in V1. destruct V1 as [V1h V1t].
      apply andb_true_iff in V2. destruct V2 as [V2h V2t].
      rewrite (IH k2 (skipn 32 c1) (skipn 32 c2)); auto using bytes_ok_skipn.
      rewrite word_eq_bytes; auto using bytes_ok_firstn.
      rewrite E1 at 3. rewrite E2 at 3. rewrite list_eqb_app by lia. reflexivity.
Qed.

(* ------------------------------------------------------------------ decoding facts *)
Lemma decode_word_inv : forall t args i v, is_dyn t = false -> decode_arg t false args i = Some v ->
  exists l, sub args (32 * i) 32 = Some l /\ v = VWord (be_val l) /\ valid_word t (be_val l) = true.
Proof.
  unfold decode_arg, head_word. intros t args i v Hd H. rewrite Hd in H.
  destruct (sub args (32 * i) 32) as [l|] eqn:Hs; [|discriminate]. cbn [option_map bind] in H.
  destruct (valid_word t (be_val l)) eqn:V; [|discriminate]. injection H as <-. eauto.
Qed.

Lemma decode_bytes_inv : forall t args i v, is_dyn t = true -> decode_arg t false args i = Some v ->
  exists m, dyn_bytes args i = Some m /\ v = VBytes m.
Proof.
  unfold decode_arg. intros t args i v Hd H. rewrite Hd in H.
  destruct (dyn_bytes args i) as [m|]; [|discriminate]. injection H as <-. eauto.
Qed.

Lemma dyn_bytes_ok : forall args i m, bytes_ok args -> dyn_bytes args i = Some m -> bytes_ok m.
Proof.
  unfold dyn_bytes. intros args i m Hb H.
  destruct (head_word args i) as [off|]; [|discriminate]. cbn [bind] in H.
  destruct (word_at args off) as [len|]; [|discriminate]. cbn [bind] in H.
  eapply sub_bytes_ok; eauto.
Qed.

Lemma decode_arr_inv : forall t args i v, is_dyn t = false -> decode_arg t true args i = Some v ->
  exists off len c, head_word args i = Some off /\ word_at args off = Some len /\
    sub args (off + 32) (32 * len) = Some c /\ 0 <= len /\
    v = VArr (words_of (Z.to_nat len) c) /\ forallb (valid_word t) (words_of (Z.to_nat len) c) = true.
Proof.
  unfold decode_arg, dyn_words. intros t args i v Hd H. rewrite Hd in H.
  destruct (head_word args i) as [off|]; [|discriminate]. cbn [bind] in H.
  destruct (word_at args off) as [len|] eqn:Hw; [|discriminate]. cbn [bind] in H.
  destruct (sub args (off + 32) (32 * len)) as [c|] eqn:Hs; [|discriminate]. cbn [bind] in H.
  destruct (forallb (valid_word t) (words_of (Z.to_nat len) c)) eqn:V; [|discriminate].
  injection H as <-. exists off, len, c.
  destruct (sub_some _ _ _ _ Hs) as (_ & P & _ & _).
  split; [reflexivity|]. split; [exact Hw|]. split; [exact Hs|]. split; [lia|]. split; [reflexivity|exact V].
Qed.

Lemma with_msg_spec : forall cd args b (log : bool) idx m,
  args_of cd = Some args -> (log = true -> dyn_bytes args idx = Some m) ->
  with_msg (CBool b) log cd idx =
    if log then (if utf8_valid m then RCond b (Some m) else RUnicodeError) else RCond b None.
Proof.
  intros cd args b log idx m Ha Hm. unfold with_msg. destruct log; [|reflexivity].
  rewrite (extract_bytes_argument_spec _ _ _ _ Ha (Hm eq_refl)). reflexivity.
Qed.

Lemma args_bytes_ok : forall cd args, bytes_ok cd -> args_of cd = Some args -> bytes_ok args.
Proof. intros cd args Hb Ha. destruct (args_of_some _ _ Ha) as (_ & -> & _). apply bytes_ok_skipn, Hb. Qed.

(* ------------------------------------------------------------------ the condition, per handler class *)
Definition binary_part (d : descr) (args : list Z) : option bool :=
  bind (decode_arg (d_ty d) (d_arr d) args 0) (fun v1 =>
  bind (decode_arg (d_ty d) (d_arr d) args 1) (fun v2 =>
  rel (d_op d) (d_ty d) v1 v2)).

Lemma binary_word : forall o t msg cd args r,
  bytes_ok cd -> args_of cd = Some args -> is_dyn t = false ->
  binary_part (mkDescr o t false msg) args = Some r ->
  mk_cond (expected_bop (mkDescr o t false msg)) (extract_bytes cd 4 32) (extract_bytes cd 36 32) = CBool r.
Proof.
  intros o t msg cd args r Hb Ha Hd H. unfold binary_part in H. cbn [d_op d_ty d_arr] in H.
  destruct (decode_arg t false args 0) as [v1|] eqn:D1; [|discriminate]. cbn [bind] in H.
  destruct (decode_arg t false args 1) as [v2|] eqn:D2; [|discriminate]. cbn [bind] in H.
  destruct (decode_word_inv _ _ _ _ Hd D1) as (l1 & S1 & -> & V1).
  destruct (decode_word_inv _ _ _ _ Hd D2) as (l2 & S2 & -> & V2).
  pose proof (args_bytes_ok _ _ Hb Ha) as Hab.
  replace (extract_bytes cd 4 32) with (extract_bytes cd (4 + 32 * 0) 32) by reflexivity.
  replace (extract_bytes cd 36 32) with (extract_bytes cd (4 + 32 * 1) 32) by reflexivity.
  rewrite (extract_sub _ _ _ _ _ Ha S1), (extract_sub _ _ _ _ _ Ha S2).
  apply word_rel; eauto using sub_bytes_ok.
  - apply sub_length in S1. exact S1.
  - apply sub_length in S2. exact S2.
Qed.

Lemma rel_eq_like : forall o t msg arr v1 v2 r l1 l2,
  bytes_ok l1 -> bytes_ok l2 ->
  val_eq t v1 v2 = Some (list_eqb Z.eqb l1 l2) ->
  (forall a b, v1 <> VWord a \/ v2 <> VWord b) ->
  rel o t v1 v2 = Some r ->
  mk_cond (expected_bop (mkDescr o t arr msg)) l1 l2 = CBool r.
Proof.
  intros o t msg arr v1 v2 r l1 l2 B1 B2 He Hnw Hr.
  destruct o; cbn [rel] in Hr; try discriminate.
  - rewrite He in Hr. injection Hr as <-. apply mk_cond_Eq; assumption.
  - rewrite He in Hr. cbn [option_map] in Hr. injection Hr as <-. apply mk_cond_NotEq; assumption.
  - destruct v1, v2; try discriminate. destruct (Hnw w w0) as [E|E]; congruence.
  - destruct v1, v2; try discriminate. destruct (Hnw w w0) as [E|E]; congruence.
  - destruct v1, v2; try discriminate. destruct (Hnw w w0) as [E|E]; congruence.
  - destruct v1, v2; try discriminate. destruct (Hnw w w0) as [E|E]; congruence.
Qed.

Lemma binary_bytes : forall o t msg cd args r,
  bytes_ok cd -> args_of cd = Some args -> is_dyn t = true ->
  binary_part (mkDescr o t false msg) args = Some r ->
  mk_cond (expected_bop (mkDescr o t false msg)) (extract_bytes_argument cd 0) (extract_bytes_argument cd 1) = CBool r.
Proof.
  intros o t msg cd args r Hb Ha Hd H. unfold binary_part in H. cbn [d_op d_ty d_arr] in H.
  destruct (decode_arg t false args 0) as [v1|] eqn:D1; [|discriminate]. cbn [bind] in H.
  destruct (decode_arg t false args 1) as [v2|] eqn:D2; [|discriminate]. cbn [bind] in H.
  destruct (decode_bytes_inv _ _ _ _ Hd D1) as (m1 & S1 & ->).
  destruct (decode_bytes_inv _ _ _ _ Hd D2) as (m2 & S2 & ->).
  pose proof (args_bytes_ok _ _ Hb Ha) as Hab.
  rewrite (extract_bytes_argument_spec _ _ _ _ Ha S1), (extract_bytes_argument_spec _ _ _ _ Ha S2).
  eapply rel_eq_like; eauto using dyn_bytes_ok.
  - reflexivity.
  - intros a b. left. discriminate.
Qed.

Lemma binary_arr : forall o t msg cd args r,
  bytes_ok cd -> args_of cd = Some args -> is_dyn t = false ->
  binary_part (mkDescr o t true msg) args = Some r ->
  mk_cond (expected_bop (mkDescr o t true msg)) (extract_bytes32_array_argument cd 0) (extract_bytes32_array_argument cd 1) = CBool r.
Proof.
  intros o t msg cd args r Hb Ha Hd H. unfold binary_part in H. cbn [d_op d_ty d_arr] in H.
  destruct (decode_arg t true args 0) as [v1|] eqn:D1; [|discriminate]. cbn [bind] in H.
  destruct (decode_arg t true args 1) as [v2|] eqn:D2; [|discriminate]. cbn [bind] in H.
  destruct (decode_arr_inv _ _ _ _ Hd D1) as (o1 & n1 & c1 & H1 & W1 & S1 & P1 & -> & V1).
  destruct (decode_arr_inv _ _ _ _ Hd D2) as (o2 & n2 & c2 & H2 & W2 & S2 & P2 & -> & V2).
  pose proof (args_bytes_ok _ _ Hb Ha) as Hab.
  rewrite (extract_array_spec _ _ _ _ _ _ Ha H1 W1 S1), (extract_array_spec _ _ _ _ _ _ Ha H2 W2 S2).
  eapply rel_eq_like; eauto using sub_bytes_ok.
  - cbn [val_eq]. f_equal. apply words_eq_bytes; eauto using sub_bytes_ok.
    + apply sub_length in S1. lia.
    + apply sub_length in S2. lia.
  - intros a b. left. discriminate.
Qed.

(* ------------------------------------------------------------------ the main statement *)
Definition expected_result (d : descr) (cd : list Z) (r : bool) : hres :=
  match spec_msg d cd with
  | None => RCond r None
  | Some m => if utf8_valid m then RCond r (Some m) else RUnicodeError
  end.

Lemma cond_exact : forall d cd r,
  valid_descr d = true -> bytes_ok cd -> spec_assert d cd = Some r ->
  run_handler (expected_handler d) cd = expected_result d cd r.
Proof.
  intros [o t arr msg] cd r Hv Hb Hs.
  unfold spec_assert, expected_result, spec_msg in *. cbn [d_op d_ty d_arr d_msg] in *.
  destruct (args_of cd) as [args|] eqn:Ha; [|discriminate]. cbn [bind] in *.
  set (idx := msg_index (mkDescr o t arr msg)) in *.
  (* the message part *)
  assert (exists m, (msg = true -> dyn_bytes args idx = Some m) /\
                    (if msg then dyn_bytes args idx else None) = (if msg then Some m else None) /\
                    (if is_unary o
                     then bind (decode_arg t arr args 0) (fun v =>
                            match v, o with
                            | VWord w, OTrue => Some (word_truth w)
                            | VWord w, OFalse => Some (negb (word_truth w))
                            | _, _ => None
                            end)
                     else binary_part (mkDescr o t arr msg) args) = Some r) as (m & Hm & Em & Hc).
  { destruct msg.
    - destruct (dyn_bytes args idx) as [m|] eqn:Em; [|discriminate]. exists m. auto.
    - exists []. cbn [bind] in Hs. repeat split; auto. discriminate. }
  clear Hs. rewrite Em.
  assert (forall b, with_msg (CBool b) msg cd idx =
            match (if msg then Some m else None) with
            | None => RCond b None
            | Some m0 => if utf8_valid m0 then RCond b (Some m0) else RUnicodeError
            end) as WM.
  { intros b. rewrite (with_msg_spec cd args b msg idx m Ha Hm). destruct msg; reflexivity. }
  unfold expected_handler. cbn [d_op d_ty d_arr d_msg].
  destruct (is_unary o) eqn:Hu.
  - (* assertTrue / assertFalse *)
    unfold valid_descr in Hv. cbn [d_op d_ty d_arr] in Hv. rewrite Hu in Hv.
    destruct t; try discriminate. destruct arr; try discriminate.
    destruct (decode_arg TBool false args 0) as [v|] eqn:D; [|discriminate]. cbn [bind] in Hc.
    destruct (decode_word_inv TBool args 0 v eq_refl D) as (l & S & -> & V).
    assert (extract_word cd 4 = be_val l) as E.
    { unfold extract_word. replace (extract_bytes cd 4 32) with (extract_bytes cd (4 + 32 * 0) 32) by reflexivity.
      rewrite (extract_sub _ _ _ _ _ Ha S). reflexivity. }
    assert (idx = 1) as -> by (unfold idx, msg_index; cbn [d_op]; rewrite Hu; reflexivity).
    destruct o; try discriminate; cbn [run_handler]; rewrite E; injection Hc as <-; unfold word_truth; rewrite ?negb_involutive; apply WM.
  - assert (idx = 2) as Ei by (unfold idx, msg_index; cbn [d_op]; rewrite Hu; reflexivity).
    rewrite Ei in WM.
    destruct (is_dyn t) eqn:Hd; destruct arr.
    + (* bytes[] / string[]: no specification *)
      unfold binary_part in Hc. cbn [d_op d_ty d_arr] in Hc. unfold decode_arg in Hc. rewrite Hd in Hc. discriminate.
    + cbn [run_handler]. rewrite (binary_bytes o t msg cd args r Hb Ha Hd Hc). apply WM.
    + cbn [run_handler]. rewrite (binary_arr o t msg cd args r Hb Ha Hd Hc). apply WM.
    + cbn [run_handler]. rewrite (binary_word o t msg cd args r Hb Ha Hd Hc). apply WM.
Qed.

(* the handler halmos derives from the rendered signature is the expected one (finite check) *)
Lemma handler_of_render_b :
  forallb (fun d => match mk_assert_handler (render d) with
                    | Some h => handler_eqb h (expected_handler d) | None => false end) all_descrs = true.
Proof. vm_compute. reflexivity. Qed.

Lemma handler_of_render : forall d, In d all_descrs -> mk_assert_handler (render d) = Some (expected_handler d).
Proof.
  intros d Hd. pose proof (proj1 (forallb_forall _ _) handler_of_render_b d Hd) as H. cbv beta in H.
  destruct (mk_assert_handler (render d)) as [h|]; [|discriminate].
  apply handler_eqb_eq in H. subst. reflexivity.
Qed.

Lemma all_descrs_valid : forall d, In d all_descrs -> valid_descr d = true.
Proof. intros d H. unfold all_descrs in H. apply filter_In in H. tauto. Qed.

(* C13_cond *)
Lemma cond_theorem : forall d cd r,
  In d all_descrs -> bytes_ok cd -> spec_assert d cd = Some r ->
  exists h, mk_assert_handler (render d) = Some h /\
    run_handler h cd =
      match spec_msg d cd with
      | None => RCond r None
      | Some m => if utf8_valid m then RCond r (Some m) else RUnicodeError
      end.
Proof.
  intros d cd r Hd Hb Hs. exists (expected_handler d). split; [apply handler_of_render, Hd|].
  apply (cond_exact d cd r (all_descrs_valid d Hd) Hb Hs).
Qed.

(* bytes[] / string[]: the handler raises, on every calldata, the class the source names *)
Lemma bytes_array_raises : forall d cd,
  In d all_descrs -> is_dyn (d_ty d) = true -> d_arr d = true ->
  exists h, mk_assert_handler (render d) = Some h /\ run_handler h cd = RRaise unsupported_class.
Proof.
  intros d cd Hd Hy Ha. exists (expected_handler d). split; [apply handler_of_render, Hd|].
  pose proof (all_descrs_valid d Hd) as Hv.
  destruct d as [o t arr msg]. cbn [d_ty d_arr] in *. subst arr.
  unfold expected_handler. cbn [d_op d_ty d_arr d_msg]. rewrite Hy.
  destruct (is_unary o) eqn:Hu; [|reflexivity].
  unfold valid_descr in Hv. cbn [d_op d_ty d_arr] in Hv. rewrite Hu in Hv.
  destruct t; discriminate.
Qed.

(* vm.assume: the appended condition is the decoded bool *)
Lemma assume_cond_spec : forall cd b, spec_assume cd = Some b -> assume_cond cd = b.
Proof.
  unfold spec_assume, assume_cond. intros cd b H.
  destruct (args_of cd) as [args|] eqn:Ha; [|discriminate]. cbn [bind] in H.
  destruct (decode_arg TBool false args 0) as [v|] eqn:D; [|discriminate]. cbn [bind] in H.
  destruct (decode_word_inv TBool args 0 v eq_refl D) as (l & S & -> & V). injection H as <-.
  unfold extract_word. replace (extract_bytes cd 4 32) with (extract_bytes cd (4 + 32 * 0) 32) by reflexivity.
  rewrite (extract_sub _ _ _ _ _ Ha S). reflexivity.
Qed.

(* the defect: a valid encoding with a non-UTF-8 message never yields a condition *)
Definition bad_msg_calldata : list Z :=
  [163; 78; 220; 3] ++ repeat 0 31 ++ [0] ++ repeat 0 31 ++ [64] ++ repeat 0 31 ++ [1] ++ [255] ++ repeat 0 31.
Lemma msg_refuted :
  exists d cd r, In d all_descrs /\ bytes_ok cd /\ spec_assert d cd = Some r /\ r = false /\
    forall h, mk_assert_handler (render d) = Some h -> run_handler h cd = RUnicodeError.
Proof.
  exists (mkDescr OTrue TBool false true), bad_msg_calldata, false.
  split; [vm_compute; tauto|]. split.
  - unfold bad_msg_calldata, bytes_ok. repeat (apply Forall_app; split); try (apply Forall_forall; intros x Hx; apply repeat_spec in Hx; subst; unfold byte_ok; lia);
      repeat constructor; unfold byte_ok; lia.
  - split; [vm_compute; reflexivity|]. split; [reflexivity|].
    intros h Hh. vm_compute in Hh. injection Hh as <-. vm_compute. reflexivity.
Qed.
