(* Proofs about Gen/GenDynRoom.v: the room Calldata.encode lays out for the symbolic content of a dynamic
   parameter, as a function of its list of length candidates (the list is taken verbatim from the options:
   any order, duplicates allowed). *)
From Coq Require Import ZArith List Lia.
From HV Require Import Gen.GenDynRoom.
Import ListNotations.
Open Scope Z_scope.
Ltac Zify.zify_post_hook ::= Z.to_euclidean_division_equations.

Lemma fold_max_ge : forall r x, x <= fold_left Z.max r x /\ forall n, In n r -> n <= fold_left Z.max r x.
Proof.
  induction r as [|y r IH]; intros x; cbn [fold_left].
  - split; [lia | intros n []].
  - destruct (IH (Z.max x y)) as [A B]. split; [lia|].
    intros n [<-|Hin]; [lia | apply B, Hin].
Qed.

Lemma list_max_z_ge : forall l n, In n l -> n <= list_max_z l.
Proof.
  intros [|x r] n Hin; [destruct Hin|]. unfold list_max_z.
  destruct (fold_max_ge r x) as [A B]. destruct Hin as [<-|Hin]; [exact A | apply B, Hin].
Qed.

Lemma list_max_z_in : forall l, l <> [] -> In (list_max_z l) l.
Proof.
  intros [|x r] H; [congruence|]. unfold list_max_z. clear H.
  revert x. induction r as [|y r IH]; intros x; cbn [fold_left]; [left; reflexivity|].
  destruct (IH (Z.max x y)) as [E|Hin].
  - destruct (Z.max_spec x y) as [[_ M]|[_ M]]; [right; left | left]; rewrite <- E; symmetry; exact M.
  - right; right; exact Hin.
Qed.

(* whatever the order of the candidates, EVERY candidate length fits in the symbolic area: a T[] parameter has
   at least n symbolic elements, a bytes / string parameter at least n symbolic bytes (also after padding) *)
Theorem every_candidate_fits : forall sizes n, In n sizes ->
  n <= array_room sizes /\ n <= bytes_room sizes /\ bytes_room sizes <= bytes_room_padded sizes.
Proof.
  intros sizes n Hin. unfold array_room, bytes_room_padded, bytes_room.
  pose proof (list_max_z_ge sizes n Hin). repeat split; lia.
Qed.

(* and the room is not larger than needed: it is one of the candidates *)
Theorem room_is_a_candidate : forall sizes, sizes <> [] -> In (array_room sizes) sizes /\ In (bytes_room sizes) sizes.
Proof. intros sizes H. unfold array_room, bytes_room. split; apply list_max_z_in, H. Qed.

(* ------------------------------------------------------------------ distinct parameters, distinct symbols *)

(* The z3 constant of the k-th symbol created for a calldata is named
     p_<name>_<type | "length">_<uid part>_<counter>
   texts abstracted by numbers.  uid_of k = the value of the uid() call made while the k-th symbol is created (uid() is
   a fresh-name stream: injective); tag = whatever stands in the uid position when it is NOT such a call. *)
Section Symbols.
  Variable uid_of : nat -> Z.
  Hypothesis uid_fresh : forall i j, uid_of i = uid_of j -> i = j.
  Variable tag : Z.

  Definition value_symbol (k : nat) (name typ counter : Z) : Z * Z * Z * Z :=
    (name, typ, (if value_symbol_uid_fresh then uid_of k else tag), counter).
  Definition length_symbol (k : nat) (name counter : Z) : Z * Z * Z :=
    (name, (if length_symbol_uid_fresh then uid_of k else tag), counter).

  (* two different symbols of a calldata never share a z3 constant -- whatever the ABI names and types of the
     parameters (unnamed parameters, equal names) and whatever the counter *)
  Theorem distinct_symbols : forall k1 k2, k1 <> k2 ->
    (forall n1 t1 c1 n2 t2 c2, value_symbol k1 n1 t1 c1 <> value_symbol k2 n2 t2 c2) /\
    (forall n1 c1 n2 c2, length_symbol k1 n1 c1 <> length_symbol k2 n2 c2).
  Proof.
    intros k1 k2 Hk. unfold value_symbol, length_symbol, value_symbol_uid_fresh, length_symbol_uid_fresh. split.
    - intros n1 t1 c1 n2 t2 c2 H. apply Hk, uid_fresh. congruence.
    - intros n1 c1 n2 c2 H. apply Hk, uid_fresh. congruence.
  Qed.
End Symbols.

