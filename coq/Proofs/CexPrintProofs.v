(* C04: the text halmos prints for a counterexample denotes exactly the assignment it was
   given (round trip through the reader of Spec/CexPrintSpec.v), for every model. *)
From Coq Require Import ZArith List String Ascii Bool Lia Permutation.
From HV Require Import Spec.CexPrintSpec Model.CexPrintDefs Gen.GenCexPrint Gen.GenHexify Model.CexPrintModel.
Import ListNotations.
Open Scope Z_scope.

(* ------------------------------------------------------------------ strings *)
Lemma app_empty_r : forall s : string, (s ++ "")%string = s.
Proof. induction s as [|c s IH]; [reflexivity | cbn; rewrite IH; reflexivity]. Qed.

Lemma app_assoc_s : forall a b c : string, ((a ++ b) ++ c)%string = (a ++ (b ++ c))%string.
Proof. induction a as [|x a IH]; intros; [reflexivity | cbn; rewrite IH; reflexivity]. Qed.

Fixpoint no_nl (s : string) : bool :=
  match s with EmptyString => true | String c r => negb (Ascii.eqb c nl) && no_nl r end.

Lemma no_nl_app : forall a b, no_nl (a ++ b) = no_nl a && no_nl b.
Proof. induction a as [|c a IH]; intros b; [reflexivity | cbn; rewrite IH, andb_assoc; reflexivity]. Qed.

Lemma all_plain_no_nl : forall s, all_plain s = true -> no_nl s = true.
Proof.
  induction s as [|c s IH]; [reflexivity|]. cbn. unfold plain. intros H.
  apply andb_true_iff in H as [H1 H2]. apply andb_true_iff in H1 as [H1 _].
  rewrite H1, (IH H2). reflexivity.
Qed.

(* ------------------------------------------------------------------ hex digits *)
Lemma hex_cases : forall d, 0 <= d < 16 ->
  In d [0;1;2;3;4;5;6;7;8;9;10;11;12;13;14;15].
Proof. intros d H. simpl. lia. Qed.

Lemma hexval_hex_char : forall d, 0 <= d < 16 ->
  hexval (hex_char false d) = Some d /\ Ascii.eqb (hex_char false d) nl = false.
Proof.
  intros d Hd. pose proof (hex_cases d Hd) as H. simpl in H.
  repeat (destruct H as [<-|H]; [vm_compute; split; reflexivity|]). contradiction.
Qed.

Lemma read_hex_app : forall a b acc,
  read_hex (a ++ b) acc = match read_hex a acc with Some x => read_hex b x | None => None end.
Proof.
  induction a as [|c a IH]; intros b acc; [reflexivity|].
  cbn [append read_hex]. destruct (hexval c); [apply IH | reflexivity].
Qed.

Lemma read_hex_go : forall f n, 0 <= n < 16 ^ Z.of_nat f ->
  read_hex (hex_go false f n) 0 = Some n.
Proof.
  induction f as [|f IH]; intros n Hn.
  - simpl in *. f_equal. lia.
  - cbn [hex_go]. destruct (n =? 0) eqn:E.
    + apply Z.eqb_eq in E. subst. reflexivity.
    + rewrite read_hex_app.
      rewrite Nat2Z.inj_succ, Z.pow_succ_r in Hn by lia.
      assert (Hq : 0 <= n / 16 < 16 ^ Z.of_nat f).
      { split; [apply Z.div_pos; lia | apply Z.div_lt_upper_bound; lia]. }
      rewrite (IH _ Hq).
      assert (Hm : 0 <= n mod 16 < 16) by (apply Z.mod_pos_bound; lia).
      destruct (hexval_hex_char (n mod 16) Hm) as [Hv _].
      cbn [read_hex]. rewrite Hv. f_equal. pose proof (Z.div_mod n 16). lia.
Qed.

Lemma no_nl_hex_go : forall f n, 0 <= n -> no_nl (hex_go false f n) = true.
Proof.
  induction f as [|f IH]; intros n Hn; [reflexivity|].
  cbn [hex_go]. destruct (n =? 0); [reflexivity|].
  rewrite no_nl_app, IH by (apply Z.div_pos; lia).
  assert (Hm : 0 <= n mod 16 < 16) by (apply Z.mod_pos_bound; lia).
  destruct (hexval_hex_char (n mod 16) Hm) as [_ Hc].
  cbn [no_nl]. rewrite Hc. reflexivity.
Qed.

Lemma fuel16 : forall n, 0 < n -> n < 16 ^ Z.of_nat (S (Z.to_nat (Z.log2 n))).
Proof.
  intros n Hn. rewrite Nat2Z.inj_succ, Z2Nat.id by apply Z.log2_nonneg.
  destruct (Z.log2_spec n Hn) as [_ Hu].
  eapply Z.lt_le_trans; [exact Hu|].
  apply Z.pow_le_mono_l. lia.
Qed.

Lemma read_hex_digits : forall n, 0 <= n -> read_hex (hex_digits false n) 0 = Some n.
Proof.
  intros n Hn. unfold hex_digits. destruct (n =? 0) eqn:E.
  - apply Z.eqb_eq in E. subst. reflexivity.
  - apply Z.eqb_neq in E. apply read_hex_go. split; [lia | apply fuel16; lia].
Qed.

Lemma no_nl_hex_digits : forall n, 0 <= n -> no_nl (hex_digits false n) = true.
Proof.
  intros n Hn. unfold hex_digits. destruct (n =? 0); [reflexivity | apply no_nl_hex_go; exact Hn].
Qed.

Lemma hex_digits_nonempty : forall n, 0 <= n -> hex_digits false n <> EmptyString.
Proof.
  intros n Hn. unfold hex_digits. destruct (n =? 0) eqn:E; [discriminate|].
  cbn [hex_go]. rewrite E. destruct (hex_go false (Z.to_nat (Z.log2 n)) (n / 16)); discriminate.
Qed.

Lemma read_hex_zeros : forall k s, read_hex (zeros k ++ s) 0 = read_hex s 0.
Proof. induction k as [|k IH]; intros s; [reflexivity | cbn; apply IH]. Qed.

Lemma no_nl_zeros : forall k, no_nl (zeros k) = true.
Proof. induction k as [|k IH]; [reflexivity | cbn; exact IH]. Qed.

Lemma app_nonempty_r : forall a b : string, b <> EmptyString -> (a ++ b)%string <> EmptyString.
Proof. intros [|c a] b H; [exact H | discriminate]. Qed.

(* the digits hexify prints after 0x *)
Definition hex_body (n : Z) : string := pad_left gen_hexify_minwidth (hex_digits gen_hexify_upper n).

Lemma hex_body_props : forall n, 0 <= n ->
  read_hex (hex_body n) 0 = Some n /\ no_nl (hex_body n) = true /\ hex_body n <> EmptyString.
Proof.
  intros n Hn. unfold hex_body, pad_left. change gen_hexify_upper with false.
  split; [|split].
  - rewrite read_hex_zeros. apply read_hex_digits; exact Hn.
  - rewrite no_nl_app, no_nl_zeros, no_nl_hex_digits by exact Hn. reflexivity.
  - apply app_nonempty_r, hex_digits_nonempty; exact Hn.
Qed.

(* ------------------------------------------------------------------ one line *)
(* a variable the theorems speak about: a name without space / newline (halmos_var_pattern
   admits no space; solvers print a name on one line), not empty, and a natural number *)
Definition var_ok (v : mvar) : Prop :=
  all_plain (full_name v) = true /\ full_name v <> EmptyString /\ 0 <= value v.

Definition body (v : mvar) : string :=
  ("    " ++ full_name v ++ " = 0x" ++ hex_body (value v))%string.

Lemma render_line_shape : forall v, render_line v = String nl (body v).
Proof.
  intros v. unfold render_line, body, hexify_int, hex_body.
  change gen_line with [PLit (String nl "    "); PStr FFullName; PLit " = "; PHexify FValue]%string.
  change gen_hexify_prefix with "0x"%string.
  cbn [fold_right render_piece get_s get_i append]. rewrite app_empty_r. reflexivity.
Qed.

Lemma span_name_plain : forall a r, all_plain a = true ->
  span_name (a ++ String sp r) = (a, String sp r).
Proof.
  induction a as [|c a IH]; intros r H; [reflexivity|].
  cbn [all_plain] in H. apply andb_true_iff in H as [Hc Ha].
  unfold plain in Hc. apply andb_true_iff in Hc as [_ Hs]. apply negb_true_iff in Hs.
  cbn [append span_name]. rewrite Hs, (IH r Ha). reflexivity.
Qed.

Lemma read_line_body : forall v, var_ok v -> read_line (body v) = Some (full_name v, value v).
Proof.
  intros v (Hp & Hne & Hv). unfold read_line, body.
  cbn -[hex_body read_hex span_name].
  change (" = 0x" ++ hex_body (value v))%string with (String sp ("= 0x" ++ hex_body (value v)))%string.
  rewrite span_name_plain by exact Hp.
  destruct (full_name v) eqn:En; [contradiction|]. rewrite <- En.
  cbn -[hex_body read_hex].
  destruct (hex_body_props (value v) Hv) as (Hr & _ & Hn).
  rewrite Hr. destruct (hex_body (value v)); [contradiction | reflexivity].
Qed.

Lemma no_nl_body : forall v, var_ok v -> no_nl (body v) = true.
Proof.
  intros v (Hp & _ & Hv). unfold body.
  rewrite !no_nl_app. rewrite (all_plain_no_nl _ Hp).
  destruct (hex_body_props (value v) Hv) as (_ & Hn & _). rewrite Hn. reflexivity.
Qed.

(* ------------------------------------------------------------------ lines of the text *)
Lemma split_nl_plain : forall a, no_nl a = true -> split_nl a = [a].
Proof.
  induction a as [|c a IH]; intros H; [reflexivity|].
  cbn [no_nl] in H. apply andb_true_iff in H as [Hc Ha]. apply negb_true_iff in Hc.
  cbn [split_nl]. rewrite Hc, (IH Ha). reflexivity.
Qed.

Lemma split_nl_app : forall a r, no_nl a = true ->
  split_nl (a ++ String nl r) = a :: split_nl r.
Proof.
  induction a as [|c a IH]; intros r H.
  - cbn [append split_nl]. rewrite Ascii.eqb_refl. reflexivity.
  - cbn [no_nl] in H. apply andb_true_iff in H as [Hc Ha]. apply negb_true_iff in Hc.
    cbn [append split_nl]. rewrite Hc, (IH r Ha). reflexivity.
Qed.

Lemma split_lines : forall l v, Forall var_ok (v :: l) ->
  split_nl (body v ++ join_lines (map render_line l)) = map body (v :: l).
Proof.
  induction l as [|w l IH]; intros v H; inversion H as [|? ? Hv Hl]; subst.
  - cbn [map join_lines fold_right]. rewrite app_empty_r. apply split_nl_plain, no_nl_body; exact Hv.
  - cbn [map join_lines fold_right]. rewrite render_line_shape.
    cbn [append]. rewrite split_nl_app by (apply no_nl_body; exact Hv).
    change (fold_right append EmptyString (map render_line l)) with (join_lines (map render_line l)).
    rewrite (IH w Hl). reflexivity.
Qed.

Lemma read_lines_bodies : forall l, Forall var_ok l ->
  read_lines (map body l) = Some (assignment l).
Proof.
  induction l as [|v l IH]; intros H; [reflexivity|].
  inversion H as [|? ? Hv Hl]; subst.
  cbn [map read_lines]. rewrite (read_line_body v Hv), (IH Hl). reflexivity.
Qed.

Lemma nl_line_not_sign : forall s, String.eqb (String nl s) empty_sign = false.
Proof. intros s. reflexivity. Qed.

Lemma read_joined : forall v l, Forall var_ok (v :: l) ->
  read_cex (join_lines (map render_line (v :: l))) = Some (assignment (v :: l)).
Proof.
  intros v l H. cbn [map join_lines fold_right]. rewrite render_line_shape.
  cbn [append]. unfold read_cex. rewrite nl_line_not_sign, Ascii.eqb_refl.
  change (fold_right append EmptyString (map render_line l)) with (join_lines (map render_line l)).
  rewrite (split_lines l v H). apply read_lines_bodies; exact H.
Qed.

(* ------------------------------------------------------------------ sorted() *)
Lemma insert_perm : forall x l, Permutation (x :: l) (insert x l).
Proof.
  induction l as [|y t IH]; [apply Permutation_refl|].
  cbn [insert]. destruct (str_leb x y); [apply Permutation_refl|].
  eapply Permutation_trans; [apply perm_swap | apply perm_skip, IH].
Qed.

Lemma sort_lines_perm : forall l, Permutation l (sort_lines l).
Proof.
  induction l as [|x l IH]; [apply Permutation_refl|].
  cbn [sort_lines fold_right]. eapply Permutation_trans; [apply perm_skip, IH | apply insert_perm].
Qed.

(* ------------------------------------------------------------------ the whole text *)
Theorem printed_cex_round_trip : forall m, Forall var_ok m ->
  exists l, read_cex (render_model m) = Some l /\ Permutation l (assignment m).
Proof.
  intros m H. unfold render_model. destruct m as [|v m].
  - exists []. split; [reflexivity | apply Permutation_refl].
  - cbn [map]. change gen_sorted with true. cbv iota.
    change (render_line v :: map render_line m) with (map render_line (v :: m)).
    pose proof (sort_lines_perm (map render_line (v :: m))) as Hp.
    apply Permutation_sym in Hp.
    destruct (Permutation_map_inv _ _ Hp) as (m' & Hm' & Hpm).
    rewrite Hm'.
    assert (Hok : Forall var_ok m') by (eapply Permutation_Forall; [exact Hpm | exact H]).
    destruct m' as [|v' m''].
    + apply Permutation_sym, Permutation_nil in Hpm. discriminate.
    + exists (assignment (v' :: m'')). split; [apply read_joined; exact Hok|].
      unfold assignment. apply Permutation_map, Permutation_sym, Hpm.
Qed.

(* the rendering is injective (up to the order of the variables, which a dict does not have):
   two models that print the same text are the same assignment *)
Theorem printed_cex_injective : forall m1 m2, Forall var_ok m1 -> Forall var_ok m2 ->
  render_model m1 = render_model m2 -> Permutation (assignment m1) (assignment m2).
Proof.
  intros m1 m2 H1 H2 E.
  destruct (printed_cex_round_trip m1 H1) as (l1 & R1 & P1).
  destruct (printed_cex_round_trip m2 H2) as (l2 & R2 & P2).
  rewrite E, R2 in R1. injection R1 as <-.
  eapply Permutation_trans; [apply Permutation_sym, P1 | exact P2].
Qed.

(* every printed line is the line of one variable: its full name and its whole value (no
   width, type or size enters the text) *)
Theorem printed_value_whole : forall v, var_ok v ->
  read_cex (render_model [v]) = Some [(full_name v, value v)].
Proof.
  intros v H. unfold render_model. cbn [map]. change gen_sorted with true. cbv iota.
  cbn [sort_lines fold_right insert].
  change [render_line v] with (map render_line [v]).
  apply (read_joined v []). constructor; [exact H | constructor].
Qed.
