(* C15: the regenerated path slice (Gen/GenPathSlice.v) is exactly the set of conditions that constrain
   the state variables (Spec/PathSliceSpec.v constrains: dependency closure in either order). *)
From Coq Require Import ZArith List Bool Lia PeanoNat Setoid.
From HV Require Import Spec.PathSliceSpec Model.PathSliceModel Gen.GenPathSlice.
Import ListNotations.
Open Scope Z_scope.

Lemma vmem_In : forall x l, vmem x l = true <-> In x l.
Proof.
  intros x l. unfold vmem. rewrite existsb_exists. split.
  - intros [y [Hy E]]. apply Z.eqb_eq in E. subst. exact Hy.
  - intros H. exists x. split; [exact H | apply Z.eqb_refl].
Qed.

(* membership in the result of _get_related *)
Lemma get_related_in : forall (rel : nat -> list nat) (v2c : Z -> list nat) (S : list Z) (i : nat),
  In i (get_related rel v2c S) <->
  (exists v, In v S /\ In i (v2c v)) \/
  (exists c, (exists v, In v S /\ In c (v2c v)) /\ In i (rel c)).
Proof.
  (* independent of how the regenerated body splits the accumulation into steps *)
  intros rel v2c S i. unfold get_related. cbv zeta.
  repeat (setoid_rewrite in_app_iff || setoid_rewrite in_flat_map). cbn [In].
  timeout 30 firstorder.
Qed.

(* chains k > c1 > c2 > ... > i of conditions, consecutive ones sharing a variable *)
Inductive reachL (vs : list (list Z)) : nat -> nat -> Prop :=
| rl_one : forall k i, (i < k)%nat -> share (cvars vs i) (cvars vs k) -> reachL vs k i
| rl_cons : forall k c i, (c < k)%nat -> share (cvars vs c) (cvars vs k) -> reachL vs c i -> reachL vs k i.

Lemma reachL_lt : forall vs k i, reachL vs k i -> (i < k)%nat.
Proof. intros vs k i H. induction H; lia. Qed.

Lemma reachL_snoc : forall vs k j, reachL vs k j ->
  forall i, (i < j)%nat -> share (cvars vs i) (cvars vs j) -> reachL vs k i.
Proof.
  intros vs k j H. induction H as [k j Hjk Hs | k c j Hck Hs Hr IH]; intros i Hij Hsh.
  - apply (rl_cons vs k j i); [exact Hjk | exact Hs | apply rl_one; assumption].
  - apply (rl_cons vs k c i); [exact Hck | exact Hs | apply IH; assumption].
Qed.

Lemma cvars_app_lt : forall vs V i, (i < length vs)%nat -> cvars (vs ++ [V]) i = cvars vs i.
Proof. intros vs V i H. unfold cvars. apply app_nth1. exact H. Qed.

Lemma cvars_app_eq : forall vs V, cvars (vs ++ [V]) (length vs) = V.
Proof. intros vs V. unfold cvars. rewrite app_nth2; [| lia]. rewrite Nat.sub_diag. reflexivity. Qed.

Lemma reachL_app : forall vs V k i, (k < length vs)%nat -> (reachL (vs ++ [V]) k i <-> reachL vs k i).
Proof.
  intros vs V k i Hk. split; intros H.
  - induction H as [k i Hik Hs | k c i Hck Hs Hr IH].
    + apply rl_one; [exact Hik |]. rewrite !cvars_app_lt in Hs by lia. exact Hs.
    + apply (rl_cons vs k c i); [exact Hck | | apply IH; lia].
      rewrite !cvars_app_lt in Hs by lia. exact Hs.
  - induction H as [k i Hik Hs | k c i Hck Hs Hr IH].
    + apply rl_one; [exact Hik |]. rewrite !cvars_app_lt by lia. exact Hs.
    + apply (rl_cons _ k c i); [exact Hck | | apply IH; lia].
      rewrite !cvars_app_lt by lia. exact Hs.
Qed.

(* what the tables hold after the conditions vs have been appended *)
Record inv (vs : list (list Z)) (p : pdeps) : Prop := mkInv {
  inv_n : p_n p = length vs;
  inv_v2c : forall v i, In i (p_v2c p v) <-> ((i < length vs)%nat /\ In v (cvars vs i));
  inv_rel : forall k i, (k < length vs)%nat -> (In i (p_related p k) <-> reachL vs k i) }.

Lemma inv_empty : inv [] p_empty.
Proof.
  constructor.
  - reflexivity.
  - intros v i. cbn. split; [intros [] | intros [H _]; lia].
  - intros k i H. cbn in H. lia.
Qed.

Lemma inv_append : forall vs p V, inv vs p -> inv (vs ++ [V]) (p_append p V).
Proof.
  intros vs p V [Hn Hv Hr]. constructor.
  - unfold p_append. cbn [p_n]. rewrite Hn, app_length. cbn. lia.
  - intros v i. unfold p_append. cbn [p_v2c]. rewrite app_length. cbn [length]. rewrite Hn.
    destruct (vmem v V) eqn:M.
    + apply vmem_In in M. cbn [In]. rewrite Hv. split.
      * intros [E | [Hi Hin]].
        -- subst i. split; [lia |]. rewrite cvars_app_eq. exact M.
        -- split; [lia |]. rewrite cvars_app_lt by exact Hi. exact Hin.
      * intros [Hi Hin]. destruct (Nat.eq_dec i (length vs)) as [E | NE].
        -- left. auto.
        -- right. assert (Hi' : (i < length vs)%nat) by lia. split; [exact Hi' |].
           rewrite cvars_app_lt in Hin by exact Hi'. exact Hin.
    + rewrite Hv. split.
      * intros [Hi Hin]. split; [lia |]. rewrite cvars_app_lt by exact Hi. exact Hin.
      * intros [Hi Hin]. destruct (Nat.eq_dec i (length vs)) as [E | NE].
        -- subst i. rewrite cvars_app_eq in Hin. apply vmem_In in Hin. congruence.
        -- assert (Hi' : (i < length vs)%nat) by lia. split; [exact Hi' |].
           rewrite cvars_app_lt in Hin by exact Hi'. exact Hin.
  - intros k i Hk. rewrite app_length in Hk. cbn [length] in Hk.
    unfold p_append. cbn [p_related]. rewrite Hn.
    destruct (Nat.eqb k (length vs)) eqn:E.
    + apply Nat.eqb_eq in E. subst k. rewrite get_related_in. split.
      * intros [[v [HvV Hi]] | [c [[v [HvV Hc]] Hi]]].
        -- apply Hv in Hi. destruct Hi as [Hi Hin]. apply rl_one; [exact Hi |].
           rewrite cvars_app_eq, cvars_app_lt by exact Hi. exists v. auto.
        -- apply Hv in Hc. destruct Hc as [Hc Hin].
           apply (rl_cons _ (length vs) c i); [exact Hc | |].
           ++ rewrite cvars_app_eq, cvars_app_lt by exact Hc. exists v. auto.
           ++ apply reachL_app; [exact Hc |]. apply Hr; [exact Hc | exact Hi].
      * intros H. inversion H as [k' i' Hik Hs | k' c i' Hck Hs Hrc]; subst.
        -- left. rewrite cvars_app_eq, cvars_app_lt in Hs by exact Hik.
           destruct Hs as [v [H1 H2]]. exists v. split; [exact H2 |]. apply Hv. auto.
        -- right. exists c. rewrite cvars_app_eq, cvars_app_lt in Hs by exact Hck.
           destruct Hs as [v [H1 H2]]. split.
           ++ exists v. split; [exact H2 |]. apply Hv. auto.
           ++ apply Hr; [exact Hck |]. apply (reachL_app vs V); [exact Hck | exact Hrc].
    + apply Nat.eqb_neq in E. assert (Hk' : (k < length vs)%nat) by lia.
      rewrite Hr by exact Hk'. symmetry. apply reachL_app. exact Hk'.
Qed.

Lemma p_build_snoc : forall vs V, p_build (vs ++ [V]) = p_append (p_build vs) V.
Proof. intros vs V. unfold p_build. rewrite fold_left_app. reflexivity. Qed.

Lemma inv_build : forall vs, inv vs (p_build vs).
Proof.
  intros vs. induction vs as [|V vs IH] using rev_ind.
  - exact inv_empty.
  - rewrite p_build_snoc. apply inv_append. exact IH.
Qed.

(* ------------------------------------------------------------------ Path.slice: the worklist closure *)
Lemma nmem_In : forall x l, nmem x l = true <-> In x l.
Proof.
  intros x l. unfold nmem. rewrite existsb_exists. split.
  - intros [y [Hy E]]. apply Nat.eqb_eq in E. subst. exact Hy.
  - intros H. exists x. split; [exact H | apply Nat.eqb_refl].
Qed.

(* the inner loop over the conditions of one variable *)
Lemma visit_fold : forall (cv : nat -> list Z) (l : list nat) (sl : list nat) (wk : list Z),
  let st := fold_left (slice_visit cv) l (sl, wk) in
  (forall i, In i (fst st) <-> In i sl \/ In i l) /\
  (forall v, In v wk -> In v (snd st)) /\
  (forall i v, In i l -> In v (cv i) -> In i sl \/ In v (snd st)) /\
  (forall v, In v (snd st) -> In v wk \/ exists i, In i l /\ In v (cv i)).
Proof.
  intros cv l. induction l as [|x l IH]; intros sl wk; cbn [fold_left].
  - cbn. repeat split; intros; tauto.
  - destruct (nmem x sl) eqn:M.
    + assert (Es : slice_visit cv (sl, wk) x = (sl, wk)) by (unfold slice_visit; cbn [fst snd]; rewrite M; reflexivity).
      rewrite Es. clear Es.
      apply nmem_In in M. destruct (IH sl wk) as [H1 [H2 [H3 H4]]]. cbv zeta in *.
      split; [| split; [| split]].
      * intros i. rewrite H1. cbn [In]. split; [tauto |]. intros [H | [H | H]]; [tauto | subst; tauto | tauto].
      * exact H2.
      * intros i v [E | Hi] Hv; [subst; left; exact M | apply H3; assumption].
      * intros v Hv. destruct (H4 v Hv) as [H | [i [Hi Hc]]]; [left; exact H | right; exists i; split; [right; exact Hi | exact Hc]].
    + assert (Es : slice_visit cv (sl, wk) x = (x :: sl, rev (cv x) ++ wk)) by (unfold slice_visit; cbn [fst snd]; rewrite M; reflexivity).
      rewrite Es. clear Es.
      destruct (IH (x :: sl) (rev (cv x) ++ wk)) as [H1 [H2 [H3 H4]]]. cbv zeta in *.
      split; [| split; [| split]].
      * intros i. rewrite H1. cbn [In]. tauto.
      * intros v Hv. apply H2. apply in_or_app. right. exact Hv.
      * intros i v [E | Hi] Hv.
        -- subst i. right. apply H2. apply in_or_app. left. apply in_rev in Hv. exact Hv.
        -- destruct (H3 i v Hi Hv) as [[E | H] | H]; [| left; exact H | right; exact H].
           subst i. right. apply H2. apply in_or_app. left. apply in_rev in Hv. exact Hv.
      * intros v Hv. destruct (H4 v Hv) as [H | [i [Hi Hc]]].
        -- apply in_app_or in H. destruct H as [H | H]; [| left; exact H].
           right. exists x. split; [left; reflexivity | apply in_rev; exact H].
        -- right. exists i. split; [right; exact Hi | exact Hc].
Qed.

Section Closure.
  Variable vs : list (list Z).
  Variable S : list Z.
  Variable v2c : Z -> list nat.
  Hypothesis Hv2c : forall v i, In i (v2c v) <-> ((i < length vs)%nat /\ In v (cvars vs i)).

  (* a variable the closure may reach: a state variable, or a variable of a condition that constrains the state *)
  Definition reach_var (v : Z) : Prop := In v S \/ exists j, constrains vs S j /\ In v (cvars vs j).

  Definition LInv (sl : list nat) (seen wk : list Z) : Prop :=
    (forall v, In v S -> In v seen \/ In v wk) /\
    (forall v idx, In v seen -> In idx (v2c v) -> In idx sl) /\
    (forall idx v, In idx sl -> In v (cvars vs idx) -> In v seen \/ In v wk) /\
    (forall idx, In idx sl -> constrains vs S idx) /\
    (forall v, In v seen \/ In v wk -> reach_var v).

  Lemma reach_var_constrains : forall v idx, reach_var v -> In idx (v2c v) -> constrains vs S idx.
  Proof.
    intros v idx Hr Hi. apply Hv2c in Hi. destruct Hi as [Hlt Hin]. destruct Hr as [HS | [j [Hj Hvj]]].
    - apply constrains_direct; [exact Hlt | exists v; auto].
    - apply (constrains_step vs S idx j); [exact Hlt | exact Hj | exists v; auto].
  Qed.

  Lemma loop_correct : forall fuel sl seen wk r,
    LInv sl seen wk ->
    slice_loop fuel v2c (fun idx => nth idx vs []) sl seen wk = Some r ->
    forall i, In i r <-> constrains vs S i.
  Proof.
    induction fuel as [|f IH]; intros sl seen wk r HI E; [discriminate |].
    cbn [slice_loop] in E. destruct wk as [|var rest].
    - (* the worklist is empty: sliced is closed *)
      injection E as E. subst r. destruct HI as [Ha [Hb [Hc [Hd _]]]]. intros i. split; [apply Hd |].
      intros Hcon. induction Hcon as [i Hlt [v [Hvi HvS]] | i j Hlt Hj IHj [v [Hvi Hvj]]].
      + destruct (Ha v HvS) as [Hs | []]. apply (Hb v i Hs). apply Hv2c. auto.
      + destruct (Hc j v IHj Hvj) as [Hs | []]. apply (Hb v i Hs). apply Hv2c. auto.
    - destruct (vmem var seen) eqn:M.
      + (* already seen *)
        apply vmem_In in M. apply (IH sl seen rest r); [| exact E].
        destruct HI as [Ha [Hb [Hc [Hd He]]]]. repeat split.
        * intros v Hv. destruct (Ha v Hv) as [H | [H | H]]; [left; exact H | subst; left; exact M | right; exact H].
        * exact Hb.
        * intros idx v Hi Hv. destruct (Hc idx v Hi Hv) as [H | [H | H]]; [left; exact H | subst; left; exact M | right; exact H].
        * exact Hd.
        * intros v [H | H]; apply He; [left; exact H | right; right; exact H].
      + (* a new variable: its conditions are sliced, their variables pushed *)
        pose proof (visit_fold (fun idx => nth idx vs []) (v2c var) sl rest) as Hvf. cbv zeta in Hvf.
        destruct Hvf as [H1 [H2 [H3 H4]]].
        eapply IH; [| exact E].
        destruct HI as [Ha [Hb [Hc [Hd He]]]].
        assert (Hrv : reach_var var) by (apply He; right; left; reflexivity).
        repeat split.
        * intros v Hv. destruct (Ha v Hv) as [H | [H | H]]; [left; right; exact H | subst; left; left; reflexivity | right; apply H2; exact H].
        * intros v idx [Ev | Hs] Hi.
          -- subst v. apply H1. right. exact Hi.
          -- apply H1. left. apply (Hb v idx Hs Hi).
        * intros idx v Hi Hv. apply H1 in Hi. destruct Hi as [Hi | Hi].
          -- destruct (Hc idx v Hi Hv) as [H | [H | H]]; [left; right; exact H | subst; left; left; reflexivity | right; apply H2; exact H].
          -- destruct (H3 idx v Hi Hv) as [Hsl | Hw]; [| right; exact Hw].
             destruct (Hc idx v Hsl Hv) as [H | [H | H]]; [left; right; exact H | subst; left; left; reflexivity | right; apply H2; exact H].
        * intros idx Hi. apply H1 in Hi. destruct Hi as [Hi | Hi]; [apply Hd; exact Hi | apply (reach_var_constrains var); assumption].
        * intros v [[Ev | Hs] | Hw].
          -- subst v. exact Hrv.
          -- apply He. left. exact Hs.
          -- destruct (H4 v Hw) as [H | [i [Hi Hci]]]; [apply He; right; right; exact H |].
             right. exists i. split; [apply (reach_var_constrains var); assumption | exact Hci].
  Qed.
End Closure.

(* Path.slice gives exactly the conditions that constrain the state variables (dependency in either
   order), whenever the loop ends within the fuel *)
Lemma slice_closure : forall vs S fuel r,
  p_slice (p_build vs) vs S fuel = Some r -> forall i, In i r <-> constrains vs S i.
Proof.
  intros vs S fuel r E. destruct (inv_build vs) as [Hn Hv Hr]. unfold p_slice in E.
  apply (loop_correct vs S (p_v2c (p_build vs)) Hv fuel [] [] (rev S) r); [| exact E].
  repeat split.
  - intros v Hv'. right. apply in_rev in Hv'. exact Hv'.
  - intros v idx [].
  - intros idx v [].
  - intros idx [].
  - intros v [[] | Hw]. left. apply in_rev. exact Hw.
Qed.

(* ------------------------------------------------------------------ the loop ends *)
Section Termination.
  Variable n : nat.
  Variable cv : nat -> list Z.
  Variable v2c : Z -> list nat.
  Hypothesis Hrange : forall v i, In i (v2c v) -> (i < n)%nat.

  (* the variables still to be pushed: those of the conditions not yet sliced *)
  Definition pending (L : list nat) (sl : list nat) : nat :=
    list_sum (map (fun i => if nmem i sl then O else length (cv i)) L).

  Lemma pending_cons : forall y L sl,
    pending (y :: L) sl = ((if nmem y sl then O else length (cv y)) + pending L sl)%nat.
  Proof. reflexivity. Qed.

  Lemma nmem_cons_other : forall y x sl, y <> x -> nmem y (x :: sl) = nmem y sl.
  Proof.
    intros y x sl H. unfold nmem. cbn [existsb]. destruct (Nat.eqb_spec y x); [contradiction | reflexivity].
  Qed.

  Lemma pending_notin : forall L sl x, ~ In x L -> pending L (x :: sl) = pending L sl.
  Proof.
    induction L as [|y L IH]; intros sl x Hn; [reflexivity |]. rewrite !pending_cons.
    rewrite IH by (intros H; apply Hn; right; exact H).
    rewrite nmem_cons_other; [reflexivity |]. intros E. apply Hn. left. exact E.
  Qed.

  Lemma pending_add : forall L sl x, NoDup L -> In x L -> nmem x sl = false ->
    (pending L (x :: sl) + length (cv x) = pending L sl)%nat.
  Proof.
    induction L as [|y L IH]; intros sl x Hnd Hin Hm; [destruct Hin |].
    inversion Hnd as [| ? ? Hny HndL]; subst. rewrite !pending_cons.
    destruct Hin as [E | Hin].
    - subst y. rewrite (pending_notin L sl x Hny). rewrite Hm.
      assert (Hx : nmem x (x :: sl) = true) by (unfold nmem; cbn [existsb]; rewrite Nat.eqb_refl; reflexivity).
      rewrite Hx. lia.
    - specialize (IH sl x HndL Hin Hm).
      assert (Hyx : y <> x) by (intros E; subst; contradiction).
      rewrite (nmem_cons_other y x sl Hyx). lia.
  Qed.

  Definition measure (sl : list nat) (wk : list Z) : nat := (length wk + pending (seq 0 n) sl)%nat.

  Lemma visit_measure : forall l sl wk, (forall i, In i l -> (i < n)%nat) ->
    let st := fold_left (slice_visit cv) l (sl, wk) in measure (fst st) (snd st) = measure sl wk.
  Proof.
    induction l as [|x l IH]; intros sl wk Hl; [reflexivity |]. cbn [fold_left]. cbv zeta.
    assert (Hx : (x < n)%nat) by (apply Hl; left; reflexivity).
    assert (Hl' : forall i, In i l -> (i < n)%nat) by (intros i Hi; apply Hl; right; exact Hi).
    destruct (nmem x sl) eqn:M.
    - assert (Es : slice_visit cv (sl, wk) x = (sl, wk)) by (unfold slice_visit; cbn [fst snd]; rewrite M; reflexivity).
      rewrite Es. apply (IH sl wk Hl').
    - assert (Es : slice_visit cv (sl, wk) x = (x :: sl, rev (cv x) ++ wk)) by (unfold slice_visit; cbn [fst snd]; rewrite M; reflexivity).
      rewrite Es. rewrite (IH (x :: sl) (rev (cv x) ++ wk) Hl'). unfold measure.
      rewrite app_length, rev_length.
      pose proof (pending_add (seq 0 n) sl x (seq_NoDup n 0) (proj2 (in_seq n 0 x) (conj (Nat.le_0_l x) Hx)) M). lia.
  Qed.

  Lemma loop_terminates : forall fuel sl seen wk,
    (measure sl wk < fuel)%nat -> slice_loop fuel v2c cv sl seen wk <> None.
  Proof.
    induction fuel as [|f IH]; intros sl seen wk Hm; [lia |]. cbn [slice_loop].
    destruct wk as [|var rest]; [discriminate |].
    destruct (vmem var seen).
    - apply IH. unfold measure in *. cbn [length] in Hm. lia.
    - apply IH. rewrite (visit_measure (v2c var) sl rest (Hrange var)).
      unfold measure in *. cbn [length] in Hm. lia.
  Qed.
End Termination.

Lemma pending_nil_bound : forall vs L, (forall i, In i L -> True) ->
  pending (fun idx => nth idx vs []) L [] = list_sum (map (fun i => length (nth i vs [])) L).
Proof. intros vs L _. unfold pending. reflexivity. Qed.

Lemma map_nth_seq : forall (l : list (list Z)) k,
  map (fun i => length (nth (i - k) l [])) (seq k (length l)) = map (@length Z) l.
Proof.
  induction l as [|x l IH]; intros k; [reflexivity |]. cbn [length seq map]. rewrite Nat.sub_diag. cbn [nth].
  f_equal. rewrite <- (IH (Datatypes.S k)). apply map_ext_in. intros i Hi. apply in_seq in Hi.
  replace (i - k)%nat with (Datatypes.S (i - Datatypes.S k)) by lia. reflexivity.
Qed.

Lemma sum_nth_seq : forall (vs : list (list Z)),
  list_sum (map (fun i => length (nth i vs [])) (seq 0 (length vs))) = list_sum (map (@length Z) vs).
Proof.
  intros vs. rewrite <- (map_nth_seq vs 0). f_equal. apply map_ext. intros i. rewrite Nat.sub_0_r. reflexivity.
Qed.

Lemma slice_terminates : forall vs S, p_slice (p_build vs) vs S (slice_fuel vs S) <> None.
Proof.
  intros vs S. destruct (inv_build vs) as [Hn Hv Hr]. unfold p_slice.
  apply (loop_terminates (length vs)).
  - intros v i Hi. apply Hv in Hi. tauto.
  - unfold measure, slice_fuel. rewrite rev_length, pending_nil_bound by auto. rewrite sum_nth_seq. lia.
Qed.

(* Path.slice, unconditionally: with that fuel the result exists and is exactly the closure *)
Lemma slice_closure_total : forall vs S,
  exists r, p_slice (p_build vs) vs S (slice_fuel vs S) = Some r /\ forall i, In i r <-> constrains vs S i.
Proof.
  intros vs S. destruct (p_slice (p_build vs) vs S (slice_fuel vs S)) as [r |] eqn:E.
  - exists r. split; [reflexivity | exact (slice_closure vs S _ r E)].
  - exfalso. exact (slice_terminates vs S E).
Qed.

(* x == v; v > 9 with the state variable x: both conditions are sliced now *)
Lemma slice_forward_example :
  p_slice (p_build ForwardInst.vs) ForwardInst.vs ForwardInst.S 10 = Some [1%nat; 0%nat] /\
  constrains ForwardInst.vs ForwardInst.S 1.
Proof.
  split; [reflexivity |].
  apply (constrains_step _ _ 1%nat 0%nat).
  - cbn. lia.
  - apply constrains_direct; [cbn; lia |]. exists 1. cbn. auto.
  - exists 2. cbn. auto.
Qed.
