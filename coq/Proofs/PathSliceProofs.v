(* C15: the regenerated path slice (Gen/GenPathSlice.v) is exactly the BACKWARD dependency closure
   of the state variables (Spec/PathSliceSpec.v constrains_back), which is smaller than the
   constraints on the state (constrains): a witness is given. *)
From Coq Require Import ZArith List Bool Lia PeanoNat Setoid.
From HV Require Import Spec.PathSliceSpec Model.PathSliceModel Gen.GenPathSlice.
Import ListNotations.
Open Scope Z_scope.

Lemma vmem_In : forall x l, vmem x l = true <-> In x l.
Proof.
  intros x l. unfold vmem. rewrite existsb_exists. split.
  - intros [y [Hy E]]. apply Z.eqb_eq in E. subst. exact Hy.
  - intros H. exists x. split; [exact H | apply Z.eqb_refl].
Qed.

(* membership in the result of _get_related *)
Lemma get_related_in : forall (rel : nat -> list nat) (v2c : Z -> list nat) (S : list Z) (i : nat),
  In i (get_related rel v2c S) <->
  (exists v, In v S /\ In i (v2c v)) \/
  (exists c, (exists v, In v S /\ In c (v2c v)) /\ In i (rel c)).
Proof.
  (* independent of how the regenerated body splits the accumulation into steps *)
  intros rel v2c S i. unfold get_related. cbv zeta.
  repeat (setoid_rewrite in_app_iff || setoid_rewrite in_flat_map). cbn [In].
  timeout 30 firstorder.
Qed.

(* chains k > c1 > c2 > ... > i of conditions, consecutive ones sharing a variable *)
Inductive reachL (vs : list (list Z)) : nat -> nat -> Prop :=
| rl_one : forall k i, (i < k)%nat -> share (cvars vs i) (cvars vs k) -> reachL vs k i
| rl_cons : forall k c i, (c < k)%nat -> share (cvars vs c) (cvars vs k) -> reachL vs c i -> reachL vs k i.

Lemma reachL_lt : forall vs k i, reachL vs k i -> (i < k)%nat.
Proof. intros vs k i H. induction H; lia. Qed.

Lemma reachL_snoc : forall vs k j, reachL vs k j ->
  forall i, (i < j)%nat -> share (cvars vs i) (cvars vs j) -> reachL vs k i.
Proof.
  intros vs k j H. induction H as [k j Hjk Hs | k c j Hck Hs Hr IH]; intros i Hij Hsh.
  - apply (rl_cons vs k j i); [exact Hjk | exact Hs | apply rl_one; assumption].
  - apply (rl_cons vs k c i); [exact Hck | exact Hs | apply IH; assumption].
Qed.

Lemma cvars_app_lt : forall vs V i, (i < length vs)%nat -> cvars (vs ++ [V]) i = cvars vs i.
Proof. intros vs V i H. unfold cvars. apply app_nth1. exact H. Qed.

Lemma cvars_app_eq : forall vs V, cvars (vs ++ [V]) (length vs) = V.
Proof. intros vs V. unfold cvars. rewrite app_nth2; [| lia]. rewrite Nat.sub_diag. reflexivity. Qed.

Lemma reachL_app : forall vs V k i, (k < length vs)%nat -> (reachL (vs ++ [V]) k i <-> reachL vs k i).
Proof.
  intros vs V k i Hk. split; intros H.
  - induction H as [k i Hik Hs | k c i Hck Hs Hr IH].
    + apply rl_one; [exact Hik |]. rewrite !cvars_app_lt in Hs by lia. exact Hs.
    + apply (rl_cons vs k c i); [exact Hck | | apply IH; lia].
      rewrite !cvars_app_lt in Hs by lia. exact Hs.
  - induction H as [k i Hik Hs | k c i Hck Hs Hr IH].
    + apply rl_one; [exact Hik |]. rewrite !cvars_app_lt by lia. exact Hs.
    + apply (rl_cons _ k c i); [exact Hck | | apply IH; lia].
      rewrite !cvars_app_lt by lia. exact Hs.
Qed.

(* what the tables hold after the conditions vs have been appended *)
Record inv (vs : list (list Z)) (p : pdeps) : Prop := mkInv {
  inv_n : p_n p = length vs;
  inv_v2c : forall v i, In i (p_v2c p v) <-> ((i < length vs)%nat /\ In v (cvars vs i));
  inv_rel : forall k i, (k < length vs)%nat -> (In i (p_related p k) <-> reachL vs k i) }.

Lemma inv_empty : inv [] p_empty.
Proof.
  constructor.
  - reflexivity.
  - intros v i. cbn. split; [intros [] | intros [H _]; lia].
  - intros k i H. cbn in H. lia.
Qed.

Lemma inv_append : forall vs p V, inv vs p -> inv (vs ++ [V]) (p_append p V).
Proof.
  intros vs p V [Hn Hv Hr]. constructor.
  - unfold p_append. cbn [p_n]. rewrite Hn, app_length. cbn. lia.
  - intros v i. unfold p_append. cbn [p_v2c]. rewrite app_length. cbn [length]. rewrite Hn.
    destruct (vmem v V) eqn:M.
    + apply vmem_In in M. cbn [In]. rewrite Hv. split.
      * intros [E | [Hi Hin]].
        -- subst i. split; [lia |]. rewrite cvars_app_eq. exact M.
        -- split; [lia |]. rewrite cvars_app_lt by exact Hi. exact Hin.
      * intros [Hi Hin]. destruct (Nat.eq_dec i (length vs)) as [E | NE].
        -- left. auto.
        -- right. assert (Hi' : (i < length vs)%nat) by lia. split; [exact Hi' |].
           rewrite cvars_app_lt in Hin by exact Hi'. exact Hin.
    + rewrite Hv. split.
      * intros [Hi Hin]. split; [lia |]. rewrite cvars_app_lt by exact Hi. exact Hin.
      * intros [Hi Hin]. destruct (Nat.eq_dec i (length vs)) as [E | NE].
        -- subst i. rewrite cvars_app_eq in Hin. apply vmem_In in Hin. congruence.
        -- assert (Hi' : (i < length vs)%nat) by lia. split; [exact Hi' |].
           rewrite cvars_app_lt in Hin by exact Hi'. exact Hin.
  - intros k i Hk. rewrite app_length in Hk. cbn [length] in Hk.
    unfold p_append. cbn [p_related]. rewrite Hn.
    destruct (Nat.eqb k (length vs)) eqn:E.
    + apply Nat.eqb_eq in E. subst k. rewrite get_related_in. split.
      * intros [[v [HvV Hi]] | [c [[v [HvV Hc]] Hi]]].
        -- apply Hv in Hi. destruct Hi as [Hi Hin]. apply rl_one; [exact Hi |].
           rewrite cvars_app_eq, cvars_app_lt by exact Hi. exists v. auto.
        -- apply Hv in Hc. destruct Hc as [Hc Hin].
           apply (rl_cons _ (length vs) c i); [exact Hc | |].
           ++ rewrite cvars_app_eq, cvars_app_lt by exact Hc. exists v. auto.
           ++ apply reachL_app; [exact Hc |]. apply Hr; [exact Hc | exact Hi].
      * intros H. inversion H as [k' i' Hik Hs | k' c i' Hck Hs Hrc]; subst.
        -- left. rewrite cvars_app_eq, cvars_app_lt in Hs by exact Hik.
           destruct Hs as [v [H1 H2]]. exists v. split; [exact H2 |]. apply Hv. auto.
        -- right. exists c. rewrite cvars_app_eq, cvars_app_lt in Hs by exact Hck.
           destruct Hs as [v [H1 H2]]. split.
           ++ exists v. split; [exact H2 |]. apply Hv. auto.
           ++ apply Hr; [exact Hck |]. apply (reachL_app vs V); [exact Hck | exact Hrc].
    + apply Nat.eqb_neq in E. assert (Hk' : (k < length vs)%nat) by lia.
      rewrite Hr by exact Hk'. symmetry. apply reachL_app. exact Hk'.
Qed.

Lemma p_build_snoc : forall vs V, p_build (vs ++ [V]) = p_append (p_build vs) V.
Proof. intros vs V. unfold p_build. rewrite fold_left_app. reflexivity. Qed.

Lemma inv_build : forall vs, inv vs (p_build vs).
Proof.
  intros vs. induction vs as [|V vs IH] using rev_ind.
  - exact inv_empty.
  - rewrite p_build_snoc. apply inv_append. exact IH.
Qed.

Lemma cb_reach : forall vs S d i, constrains_back vs S d -> reachL vs d i -> constrains_back vs S i.
Proof.
  intros vs S d i Hd Hr. revert Hd. induction Hr as [k i Hik Hs | k c i Hck Hs Hr IH]; intros Hd.
  - apply (cb_step vs S i k); assumption.
  - apply IH. apply (cb_step vs S c k); assumption.
Qed.

Lemma cb_inv : forall vs S i, constrains_back vs S i ->
  exists d, (d < length vs)%nat /\ share (cvars vs d) S /\ (i = d \/ reachL vs d i).
Proof.
  intros vs S i H. induction H as [i Hi Hs | i j Hij Hj [d [Hd [Hsd Hor]]] Hs].
  - exists i. auto.
  - exists d. split; [exact Hd | split; [exact Hsd |]]. right. destruct Hor as [E | Hr].
    + subst j. apply rl_one; assumption.
    + apply (reachL_snoc vs d j); assumption.
Qed.

(* Path.slice gives exactly the backward dependency closure of the state variables *)
Lemma slice_exact : forall vs S i,
  In i (p_slice (p_build vs) S) <-> constrains_back vs S i.
Proof.
  intros vs S i. destruct (inv_build vs) as [Hn Hv Hr]. unfold p_slice. rewrite get_related_in. split.
  - intros [[v [HvS Hi]] | [c [[v [HvS Hc]] Hi]]].
    + apply Hv in Hi. destruct Hi as [Hi Hin]. apply cb_direct; [exact Hi | exists v; auto].
    + apply Hv in Hc. destruct Hc as [Hc Hin].
      apply (cb_reach vs S c i); [apply cb_direct; [exact Hc | exists v; auto] |].
      apply Hr; [exact Hc | exact Hi].
  - intros H. apply cb_inv in H. destruct H as [d [Hd [[v [H1 H2]] Hor]]].
    destruct Hor as [E | Hrd].
    + subst i. left. exists v. split; [exact H2 |]. apply Hv. auto.
    + right. exists d. split; [exists v; split; [exact H2 | apply Hv; auto] |].
      apply Hr; [exact Hd | exact Hrd].
Qed.

(* every condition that mentions a state variable is in the slice ... *)
Lemma slice_direct : forall vs S i, (i < length vs)%nat -> share (cvars vs i) S -> In i (p_slice (p_build vs) S).
Proof. intros vs S i Hi Hs. apply slice_exact. apply cb_direct; assumption. Qed.

(* ... and so is every EARLIER condition sharing a variable with a condition of the slice *)
Lemma slice_backward : forall vs S i j, In j (p_slice (p_build vs) S) -> (i < j)%nat ->
  share (cvars vs i) (cvars vs j) -> In i (p_slice (p_build vs) S).
Proof. intros vs S i j Hj Hij Hs. apply slice_exact. apply (cb_step vs S i j); [exact Hij | apply slice_exact; exact Hj | exact Hs]. Qed.

(* ... but not a LATER one: x == v; v > 9 with the state variable x *)
Lemma slice_forward_refuted :
  constrains ForwardInst.vs ForwardInst.S 1 /\
  p_slice (p_build ForwardInst.vs) ForwardInst.S = [O] /\
  ~ In 1%nat (p_slice (p_build ForwardInst.vs) ForwardInst.S).
Proof.
  split; [| split].
  - apply (constrains_step _ _ 1%nat 0%nat).
    + cbn. lia.
    + apply constrains_direct; [cbn; lia |]. exists 1. cbn. auto.
    + exists 2. cbn. auto.
  - reflexivity.
  - intros [H | []]. discriminate.
Qed.
