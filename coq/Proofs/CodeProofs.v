(* Proofs about Model/CodeModel.v against Spec/CodeSpec.v *)
From Coq Require Import ZArith List Bool Lia Arith.
From HV Require Import Gen.GenOpcodes Spec.CodeSpec Model.CodeModel.
Import ListNotations.
Open Scope Z_scope.

(* ---- the generated insn_len / constants agree with the specification ---- *)

Lemma insn_len_spec : forall op, insn_len op = spec_insn_len op.
Proof.
  intros op. unfold insn_len, spec_insn_len, OP_PUSH0, OP_PUSH1, OP_PUSH32.
  destruct (96 <=? op) eqn:H1; destruct (op <=? 127) eqn:H2; cbn [andb Z.b2z]; lia.
Qed.

Lemma jumpdest_const : OP_JUMPDEST = 91.
Proof. reflexivity. Qed.

Lemma spec_insn_len_pos : forall op, 1 <= spec_insn_len op.
Proof.
  intros op. unfold spec_insn_len.
  destruct (96 <=? op) eqn:H1; destruct (op <=? 127) eqn:H2; cbn [andb]; lia.
Qed.

Lemma spec_len_pos : forall op, (1 <= spec_len op)%nat.
Proof. intros op. unfold spec_len. pose proof (spec_insn_len_pos op). lia. Qed.

Lemma spec_len_jumpdest : spec_len 91 = 1%nat.
Proof. reflexivity. Qed.

(* ---- boundaries form a chain ---- *)

Section Chain.
Variable c : code.

Lemma boundary_chain :
  forall q p op, boundary c p -> boundary c q -> nth_error c p = Some (Some op) ->
                 (p < q)%nat -> (p + spec_len op <= q)%nat.
Proof.
  intro q. induction q as [q IH] using lt_wf_ind.
  intros p op Hp Hq Hop Hlt.
  inversion Hq as [Hq0 | q0 op0 Hq0 Hop0 Heq].
  - lia.
  - pose proof (spec_len_pos op0) as Hpos.
    destruct (Nat.lt_trichotomy p q0) as [Hl | [He | Hg]].
    + assert (p + spec_len op <= q0)%nat by (apply (IH q0); try assumption; lia). lia.
    + subst q0. rewrite Hop in Hop0. inversion Hop0; subst. lia.
    + (* q0 < p < q : the instruction at q0 would end at q <= p *)
      assert (q0 + spec_len op0 <= p)%nat by (apply (IH p); try assumption; lia). lia.
Qed.

Lemma boundary_stops :
  forall p, boundary c p ->
            (forall op, nth_error c p <> Some (Some op)) ->
            forall q, boundary c q -> (q <= p)%nat.
Proof.
  intros p Hp Hnc q Hq. induction Hq as [| q0 op0 Hq0 IH Hop0].
  - lia.
  - destruct (Nat.eq_dec q0 p) as [-> | Hne].
    + exfalso. apply (Hnc op0). exact Hop0.
    + apply (boundary_chain p q0 op0); try assumption. lia.
Qed.

(* invariant of the scan: pc is a boundary and acc holds exactly the valid
   jump destinations below pc *)
Definition scan_inv (pc : nat) (acc : list nat) : Prop :=
  boundary c pc /\ forall q, In q acc <-> (valid_jd c q /\ (q < pc)%nat).

Lemma scan_inv_init : scan_inv O [].
Proof.
  split; [constructor|]. intros q; split; [intros []| intros [_ H]; lia].
Qed.

Lemma scan_preserves :
  forall fuel l pc acc,
    (forall i x, nth_error l i = Some x -> nth_error c i = Some x) ->
    scan_inv pc acc ->
    scan_inv (fst (scan fuel l pc acc)) (snd (scan fuel l pc acc)).
Proof.
  induction fuel as [|f IH]; intros l pc acc Hsub Hinv; cbn [scan]; [exact Hinv|].
  destruct (nth_error l pc) as [[op|]|] eqn:Hn; try exact Hinv.
  apply Hsub in Hn. destruct Hinv as [Hb Hacc].
  destruct (op =? OP_JUMPDEST) eqn:Hj.
  - apply Z.eqb_eq in Hj. rewrite jumpdest_const in Hj. subst op.
    apply IH; [exact Hsub|]. split.
    + replace (pc + 1)%nat with (pc + spec_len 91)%nat by (rewrite spec_len_jumpdest; lia).
      econstructor; eassumption.
    + intros q; cbn [In]; rewrite Hacc; split.
      * intros [<- | [Hv Hlt]]; [split; [split; assumption | lia] | split; [assumption | lia]].
      * intros [Hv Hlt]. destruct (Nat.eq_dec pc q) as [-> | Hne]; [left; reflexivity | right; split; [assumption | lia]].
  - apply Z.eqb_neq in Hj. rewrite jumpdest_const in Hj.
    apply IH; [exact Hsub|]. rewrite insn_len_spec. fold (spec_len op). split.
    + econstructor; eassumption.
    + intros q; rewrite Hacc; split.
      * intros [Hv Hlt]; split; [assumption | lia].
      * intros [Hv Hlt]; split; [assumption|].
        destruct (Nat.lt_ge_cases q pc) as [|Hge]; [assumption|exfalso].
        destruct Hv as [Hbq Hq].
        destruct (Nat.eq_dec q pc) as [-> | Hne].
        -- rewrite Hn in Hq. inversion Hq. congruence.
        -- assert (pc + spec_len op <= q)%nat by (apply (boundary_chain q pc op); try assumption; lia). lia.
Qed.

(* with enough fuel the scan ends where the sequence ends or turns symbolic *)
Lemma scan_terminal :
  forall fuel l pc acc,
    (length l <= fuel + pc)%nat ->
    forall op, nth_error l (fst (scan fuel l pc acc)) <> Some (Some op).
Proof.
  induction fuel as [|f IH]; intros l pc acc Hf op; cbn [scan].
  - cbn [fst]. intro H. assert (nth_error l pc <> None) by congruence.
    apply nth_error_Some in H0. lia.
  - destruct (nth_error l pc) as [[op'|]|] eqn:Hn; cbn [fst]; try congruence.
    destruct (op' =? OP_JUMPDEST).
    + apply IH. lia.
    + apply IH. rewrite insn_len_spec. pose proof (spec_len_pos op'). unfold spec_len in *. lia.
Qed.

Lemma scan_pc_mono :
  forall fuel l pc acc, (pc <= fst (scan fuel l pc acc))%nat.
Proof.
  induction fuel as [|f IH]; intros l pc acc; cbn [scan]; [cbn; lia|].
  destruct (nth_error l pc) as [[op'|]|]; cbn [fst]; try lia.
  destruct (op' =? OP_JUMPDEST).
  - specialize (IH l (pc + 1)%nat (pc :: acc)). lia.
  - specialize (IH l (pc + Z.to_nat (insn_len op'))%nat acc). lia.
Qed.

End Chain.

Lemma nth_error_firstn_sub :
  forall (A : Type) n (l : list A) i x, nth_error (firstn n l) i = Some x -> nth_error l i = Some x.
Proof.
  intros A n; induction n as [|n IH]; intros l i x H.
  - destruct i; discriminate.
  - destruct l as [|a l]; [destruct i; discriminate|].
    destruct i; cbn in *; [assumption | apply IH; assumption].
Qed.

(* the two loops of __get_jumpdests as one statement about the final (pc, acc) *)
Definition jumpdests_state (nfast : nat) (c : code) : nat * list nat :=
  let fast := firstn nfast c in
  let s1 := match fast with [] => (O, []) | _ => scan (length fast) fast O [] end in
  match c with [] => s1 | _ => scan (length c) c (fst s1) (snd s1) end.

Lemma jumpdests_state_eq : forall nfast c, jumpdests nfast c = snd (jumpdests_state nfast c).
Proof.
  intros nfast c. unfold jumpdests, jumpdests_state.
  destruct (firstn nfast c) as [|x fast] eqn:Hf.
  - destruct c; [reflexivity|]. destruct (scan _ _ _ _); reflexivity.
  - destruct (scan (length (x :: fast)) (x :: fast) 0 []) as [pc1 acc1].
    destruct c; [reflexivity|]. cbn [fst snd]. destruct (scan _ _ _ _); reflexivity.
Qed.

Theorem jumpdests_correct :
  forall nfast c pc, In pc (jumpdests nfast c) <-> valid_jd c pc.
Proof.
  intros nfast c pc. rewrite jumpdests_state_eq. unfold jumpdests_state.
  set (fast := firstn nfast c).
  set (s1 := match fast with [] => (O, []) | _ => scan (length fast) fast O [] end).
  assert (Hinv1 : scan_inv c (fst s1) (snd s1)).
  { subst s1. destruct fast as [|x f] eqn:Hf; [apply scan_inv_init|].
    apply scan_preserves; [|apply scan_inv_init].
    intros i y Hy. apply (nth_error_firstn_sub _ nfast). fold fast. rewrite Hf. exact Hy. }
  destruct c as [|b c'] eqn:Hc.
  - (* empty code: nothing is a jump destination *)
    destruct Hinv1 as [_ Hacc]. rewrite Hacc. split; [tauto|].
    intros [Hb Hn]. destruct pc; discriminate.
  - rewrite <- Hc in *.
    assert (Hinv2 : scan_inv c (fst (scan (length c) c (fst s1) (snd s1))) (snd (scan (length c) c (fst s1) (snd s1)))).
    { apply scan_preserves; [auto | exact Hinv1]. }
    pose proof (scan_terminal (length c) c (fst s1) (snd s1) ltac:(lia)) as Hterm.
    destruct Hinv2 as [Hb2 Hacc2]. rewrite Hacc2. split; [tauto|].
    intros Hv. split; [assumption|].
    destruct Hv as [Hbq Hq].
    pose proof (boundary_stops c _ Hb2 Hterm pc Hbq) as Hle.
    destruct (Nat.eq_dec pc (fst (scan (length c) c (fst s1) (snd s1)))) as [He | Hne]; [|lia].
    exfalso. rewrite <- He in Hterm. apply (Hterm 91). exact Hq.
Qed.

Corollary jumpdests_prefix_independent :
  forall n m c pc, In pc (jumpdests n c) <-> In pc (jumpdests m c).
Proof. intros. rewrite !jumpdests_correct. tauto. Qed.

Corollary jumpdests_not_in_push :
  forall nfast c b op pc,
    boundary c b -> nth_error c b = Some (Some op) ->
    (b < pc < b + spec_len op)%nat -> ~ In pc (jumpdests nfast c).
Proof.
  intros nfast c b op pc Hb Hop Hr Hin. apply jumpdests_correct in Hin. destruct Hin as [Hbq _].
  pose proof (boundary_chain c pc b op Hb Hbq Hop ltac:(lia)). lia.
Qed.

Corollary jumpdests_complete :
  forall nfast c pc, valid_jd c pc -> In pc (jumpdests nfast c).
Proof. intros. apply jumpdests_correct. assumption. Qed.

(* ---- reads: fast path = slow path = zero-extended flat array ---- *)

Lemma nth_error_firstn_lt :
  forall (A : Type) n (l : list A) i, (i < n)%nat -> nth_error (firstn n l) i = nth_error l i.
Proof.
  intros A n; induction n as [|n IH]; intros l i H; [lia|].
  destruct l as [|a l]; [destruct i; reflexivity|].
  destruct i; cbn; [reflexivity | apply IH; lia].
Qed.

Lemma nth_error_skipn' :
  forall (A : Type) n (l : list A) i, nth_error (skipn n l) i = nth_error l (n + i).
Proof.
  intros A n; induction n as [|n IH]; intros l i; [reflexivity|].
  destruct l as [|a l]; [destruct i; reflexivity | cbn; apply IH].
Qed.

Lemma getitem_flat : forall nfast c key, getitem nfast c key = code_byte c key.
Proof.
  intros nfast c key. unfold getitem, code_byte.
  destruct (key <? nfast)%nat eqn:H; [|reflexivity].
  apply Nat.ltb_lt in H. rewrite nth_error_firstn_lt by assumption. reflexivity.
Qed.

Lemma code_slice_nth :
  forall c start size i, (i < size)%nat ->
    nth_error (code_slice c start size) i = Some (code_byte c (start + i)).
Proof.
  intros c start size i H. unfold code_slice.
  rewrite nth_error_map, nth_error_nth' with (d := O) by (rewrite seq_length; exact H).
  rewrite seq_nth by exact H. reflexivity.
Qed.

Lemma code_slice_length : forall c start size, length (code_slice c start size) = size.
Proof. intros. unfold code_slice. rewrite map_length, seq_length. reflexivity. Qed.

Lemma list_ext_nth_error :
  forall (A : Type) (l1 l2 : list A),
    length l1 = length l2 -> (forall i, (i < length l1)%nat -> nth_error l1 i = nth_error l2 i) -> l1 = l2.
Proof.
  intros A l1; induction l1 as [|a l1 IH]; intros [|b l2] Hl Hn; try discriminate; [reflexivity|].
  f_equal.
  - specialize (Hn O ltac:(cbn; lia)). cbn in Hn. congruence.
  - apply IH; [cbn in Hl; lia|]. intros i Hi. apply (Hn (S i)). cbn; lia.
Qed.

Lemma zext_bytes_length : forall c start size, length (zext_bytes c start size) = size.
Proof.
  intros. unfold zext_bytes. rewrite firstn_length, app_length, repeat_length. lia.
Qed.

Lemma zext_bytes_nth :
  forall c start size i, (i < size)%nat ->
    nth_error (zext_bytes c start size) i = Some (code_byte c (start + i)).
Proof.
  intros c start size i H. unfold zext_bytes, code_byte.
  rewrite nth_error_firstn_lt by exact H.
  destruct (Nat.lt_ge_cases i (length (skipn start c))) as [Hlt | Hge].
  - rewrite nth_error_app1 by exact Hlt. rewrite nth_error_skipn'.
    destruct (nth_error c (start + i)) eqn:E; [reflexivity|].
    apply nth_error_None in E. rewrite skipn_length in Hlt. lia.
  - rewrite nth_error_app2 by exact Hge.
    rewrite skipn_length in *.
    assert (Hnone : nth_error c (start + i) = None) by (apply nth_error_None; lia).
    rewrite Hnone.
    rewrite nth_error_repeat by lia. reflexivity.
Qed.

Lemma code_slice_zext : forall c start size, code_slice c start size = zext_bytes c start size.
Proof.
  intros. apply list_ext_nth_error.
  - rewrite code_slice_length, zext_bytes_length. reflexivity.
  - intros i Hi. rewrite code_slice_length in Hi.
    rewrite code_slice_nth, zext_bytes_nth by exact Hi. reflexivity.
Qed.

Lemma slice_flat :
  forall nfast c start size, (nfast <= length c)%nat ->
    slice nfast c start size = zext_bytes c start size.
Proof.
  intros nfast c start size Hn. unfold slice. rewrite <- code_slice_zext.
  destruct ((0 <? nfast)%nat && (start + size <? nfast)%nat) eqn:H; [|reflexivity].
  apply andb_true_iff in H. destruct H as [_ H]. apply Nat.ltb_lt in H.
  apply list_ext_nth_error.
  - rewrite code_slice_length, firstn_length, skipn_length, firstn_length. lia.
  - intros i Hi. rewrite firstn_length, skipn_length, firstn_length in Hi.
    assert (Hi' : (i < size)%nat) by lia.
    rewrite code_slice_nth by exact Hi'.
    rewrite nth_error_firstn_lt by exact Hi'.
    rewrite nth_error_skipn', nth_error_firstn_lt by lia.
    unfold code_byte.
    destruct (nth_error c (start + i)) eqn:E; [reflexivity|].
    apply nth_error_None in E. lia.
Qed.

(* ---- decode ---- *)

Theorem decode_stop_beyond :
  forall nfast c pc, (length c <= pc)%nat -> decode nfast c pc = DStop.
Proof.
  intros nfast c pc H. unfold decode. apply Nat.leb_le in H. rewrite H. reflexivity.
Qed.

Theorem decode_spec :
  forall nfast c pc op, (nfast <= length c)%nat ->
    nth_error c pc = Some (Some op) ->
    decode nfast c pc =
      DInsn op (pc + spec_len op)
        (if (1 <? spec_len op)%nat
         then Some (be_value 0 (zext_bytes c (pc + 1) (spec_len op - 1)))
         else None).
Proof.
  intros nfast c pc op Hn Hop. unfold decode.
  assert (Hlt : (pc < length c)%nat) by (apply nth_error_Some; congruence).
  destruct (length c <=? pc)%nat eqn:Hle; [apply Nat.leb_le in Hle; lia|].
  rewrite getitem_flat. unfold code_byte. rewrite Hop.
  rewrite insn_len_spec. fold (spec_len op).
  destruct (1 <? spec_len op)%nat; [|reflexivity].
  rewrite slice_flat by exact Hn. reflexivity.
Qed.

Theorem decode_symbolic :
  forall nfast c pc, nth_error c pc = Some None -> decode nfast c pc = DSymbolic.
Proof.
  intros nfast c pc Hop. unfold decode.
  assert (Hlt : (pc < length c)%nat) by (apply nth_error_Some; congruence).
  destruct (length c <=? pc)%nat eqn:Hle; [apply Nat.leb_le in Hle; lia|].
  rewrite getitem_flat. unfold code_byte. rewrite Hop. reflexivity.
Qed.

(* be_value of concrete bytes is the big-endian number *)
Fixpoint be_num (acc : Z) (l : list Z) : Z :=
  match l with [] => acc | b :: r => be_num (acc * 256 + b) r end.

Lemma be_value_concrete : forall l acc, be_value acc (map Some l) = Some (be_num acc l).
Proof. induction l as [|b l IH]; intros acc; cbn; [reflexivity | apply IH]. Qed.

Lemma be_value_symbolic : forall l acc, In None l -> be_value acc l = None.
Proof.
  induction l as [|[b|] l IH]; intros acc H; cbn in *; try tauto.
  destruct H as [H|H]; [discriminate | apply IH; assumption].
Qed.
