(* Proofs about the binary64 model of Model/ConfigFloatModel.v:
     round_mag_exact         a ratio whose value is a representable magnitude rounds to it
     round_mag_representable every rounding result has at most 53 significant bits
     round_mag_bound         the result is at most twice the truncated quotient, plus one
   and the facts about f_of_Z / f_mul / f_div / f_trunc / comparisons the codec proofs need. *)
From Coq Require Import ZArith List Bool Lia.
From HV Require Import Model.ConfigFloatModel.
Import ListNotations.
Open Scope Z_scope.

Lemma F_UNIT_pos : 0 < F_UNIT.
Proof. unfold F_UNIT. apply Z.pow_pos_nonneg; lia. Qed.

Lemma F_TOP_eq : F_TOP = F_UNIT * 2 ^ 1024.
Proof. unfold F_TOP, F_UNIT. rewrite <- Z.pow_add_r by lia. reflexivity. Qed.

Lemma F_UNIT_log2 : Z.log2 F_UNIT = 1074.
Proof. unfold F_UNIT. apply Z.log2_pow2. lia. Qed.

(* from here on the two constants are opaque: no proof computes with 2^1074 *)
Global Opaque F_UNIT F_TOP.

(* ---------------------------------------------------------------- shifts, powers *)

Lemma pow2_pos : forall s, 0 <= s -> 0 < 2 ^ s.
Proof. intros. apply Z.pow_pos_nonneg; lia. Qed.

Lemma f_shift_nonneg : forall k, 0 <= f_shift k.
Proof. intros. unfold f_shift. lia. Qed.

Lemma div_eucl_div_mod : forall a b y r, Z.div_eucl a b = (y, r) -> y = a / b /\ r = a mod b.
Proof. intros a b y r H. unfold Z.div, Z.modulo. rewrite H. split; reflexivity. Qed.

(* a magnitude below the quantum bound has the quotient below 2^53 *)
Lemma shifted_lt_2p53 : forall y, 0 <= y -> y / 2 ^ f_shift y < 2 ^ 53.
Proof.
  intros y Hy. pose proof (f_shift_nonneg y) as Hs. pose proof (pow2_pos _ Hs) as Hp.
  destruct (Z.eq_dec y 0) as [->|Hne].
  - rewrite Z.div_0_l by lia. apply Z.pow_pos_nonneg; lia.
  - apply Z.div_lt_upper_bound; [exact Hp|].
    rewrite <- Z.pow_add_r by lia.
    assert (Hl : Z.log2 y < f_shift y + 53) by (unfold f_shift; lia).
    apply Z.log2_lt_pow2; lia.
Qed.

(* q * 2^s with q <= 2^53 has at most 53 significant bits *)
Lemma representable_mul_pow2 : forall q s, 0 <= s -> 0 <= q <= 2 ^ 53 -> representable (q * 2 ^ s).
Proof.
  intros q s Hs [Hq0 Hq]. pose proof (pow2_pos s Hs) as Hp. split; [nia|].
  destruct (Z.eq_dec q 0) as [->|Hne]; [rewrite Z.mul_0_l; apply Z.mod_0_l; pose proof (pow2_pos _ (f_shift_nonneg 0)); lia|].
  assert (Hlog : Z.log2 (q * 2 ^ s) = s + Z.log2 q) by (apply Z.log2_mul_pow2; lia).
  unfold f_shift. rewrite Hlog.
  destruct (Z_lt_le_dec q (2 ^ 53)) as [Hlt|Hge].
  - assert (Hl : Z.log2 q < 53) by (apply Z.log2_lt_pow2; lia).
    set (t := Z.max 0 (s + Z.log2 q - 52)).
    assert (Ht : 0 <= t <= s) by (unfold t; pose proof (Z.log2_nonneg q); lia).
    replace (2 ^ s) with (2 ^ (s - t) * 2 ^ t) by (rewrite <- Z.pow_add_r by lia; f_equal; lia).
    rewrite Z.mul_assoc. apply Z.mod_mul. pose proof (pow2_pos t ltac:(lia)). lia.
  - assert (q = 2 ^ 53) by lia. subst q. rewrite Z.log2_pow2 by lia.
    replace (Z.max 0 (s + 53 - 52)) with (s + 1) by lia.
    replace (2 ^ 53 * 2 ^ s) with (2 ^ 52 * 2 ^ (s + 1)).
    + apply Z.mod_mul. pose proof (pow2_pos (s + 1) ltac:(lia)). lia.
    + rewrite <- !Z.pow_add_r by lia. f_equal. lia.
Qed.

(* ---------------------------------------------------------------- round_mag *)

Lemma round_mag_exact : forall n d k,
  0 < d -> n * F_UNIT = k * d -> representable k -> round_mag n d = k.
Proof.
  intros n d k Hd Heq [Hk Hmod]. unfold round_mag. rewrite Heq.
  destruct (Z.div_eucl (k * d) d) as [y r0] eqn:E.
  apply div_eucl_div_mod in E. destruct E as [Hy Hr].
  rewrite Z.div_mul in Hy by lia. rewrite Z.mod_mul in Hr by lia. subst y r0.
  pose proof (f_shift_nonneg k) as Hs. pose proof (pow2_pos _ Hs) as Hp.
  rewrite Z.shiftr_div_pow2 by exact Hs. rewrite !Z.shiftl_mul_pow2 by exact Hs.
  assert (Hk2 : k / 2 ^ f_shift k * 2 ^ f_shift k = k).
  { pose proof (Z.div_mod k (2 ^ f_shift k) ltac:(lia)). lia. }
  rewrite Hk2. replace ((k - k) * d + 0) with 0 by lia.
  replace (2 * 0 <? d * 2 ^ f_shift k) with true by (symmetry; apply Z.ltb_lt; nia).
  exact Hk2.
Qed.

(* the pieces of round_mag, named *)
Lemma round_mag_cases : forall n d, 0 <= n -> 0 < d ->
  let y := n * F_UNIT / d in
  let s := f_shift y in
  0 <= y /\ (round_mag n d = (y / 2 ^ s) * 2 ^ s \/ round_mag n d = (y / 2 ^ s + 1) * 2 ^ s).
Proof.
  intros n d Hn Hd y s. pose proof F_UNIT_pos as HU.
  assert (Hy : 0 <= y) by (apply Z.div_pos; nia).
  split; [exact Hy|]. unfold round_mag.
  destruct (Z.div_eucl (n * F_UNIT) d) as [y' r0] eqn:E.
  apply div_eucl_div_mod in E. destruct E as [Hy' _]. fold y in Hy'. subst y'. fold s.
  pose proof (f_shift_nonneg y) as Hs. fold s in Hs.
  rewrite Z.shiftr_div_pow2 by exact Hs. rewrite !Z.shiftl_mul_pow2 by exact Hs.
  destruct (2 * ((y - y / 2 ^ s * 2 ^ s) * d + r0) <? d * 2 ^ s); [left; reflexivity|].
  destruct (d * 2 ^ s <? 2 * ((y - y / 2 ^ s * 2 ^ s) * d + r0)); [right; reflexivity|].
  destruct (Z.even (y / 2 ^ s)); [left|right]; reflexivity.
Qed.

Lemma round_mag_representable : forall n d, 0 <= n -> 0 < d -> representable (round_mag n d).
Proof.
  intros n d Hn Hd. destruct (round_mag_cases n d Hn Hd) as [Hy Hc].
  set (y := n * F_UNIT / d) in *. set (s := f_shift y) in *.
  pose proof (f_shift_nonneg y) as Hs. fold s in Hs. pose proof (pow2_pos s Hs) as Hp.
  pose proof (shifted_lt_2p53 y Hy) as Hq. fold s in Hq.
  assert (Hq0 : 0 <= y / 2 ^ s) by (apply Z.div_pos; lia).
  destruct Hc as [-> | ->]; apply representable_mul_pow2; lia.
Qed.

Lemma round_mag_bound : forall n d, 0 <= n -> 0 < d -> round_mag n d <= 2 * (n * F_UNIT / d) + 1.
Proof.
  intros n d Hn Hd. destruct (round_mag_cases n d Hn Hd) as [Hy Hc].
  set (y := n * F_UNIT / d) in *. set (s := f_shift y) in *.
  pose proof (f_shift_nonneg y) as Hs. fold s in Hs. pose proof (pow2_pos s Hs) as Hp.
  assert (Hdm : y / 2 ^ s * 2 ^ s <= y).
  { pose proof (Z.div_mod y (2 ^ s) ltac:(lia)). pose proof (Z.mod_pos_bound y (2 ^ s) Hp). lia. }
  assert (Hpow : 2 ^ s <= y + 1).
  { destruct (Z.eq_dec s 0) as [Hs0|Hs0]; [rewrite Hs0; change (2 ^ 0) with 1; lia|].
    assert (Hy1 : 0 < y).
    { destruct (Z.eq_dec y 0) as [Hy0|]; [|lia]. exfalso. unfold s, f_shift in Hs0. rewrite Hy0 in Hs0. cbn in Hs0. lia. }
    assert (s <= Z.log2 y) by (pose proof (Z.log2_nonneg y); unfold s, f_shift; lia).
    pose proof (Z.log2_spec y Hy1) as [Hlo _].
    assert (2 ^ s <= 2 ^ Z.log2 y) by (apply Z.pow_le_mono_r; lia). lia. }
  destruct Hc as [-> | ->]; [lia|]. rewrite Z.mul_add_distr_r. lia.
Qed.

Lemma round_mag_nonneg : forall n d, 0 <= n -> 0 < d -> 0 <= round_mag n d.
Proof. intros n d Hn Hd. destruct (round_mag_representable n d Hn Hd) as [H _]. exact H. Qed.

(* ---------------------------------------------------------------- round_mag is a correct rounding *)

(* which neighbour is taken: with a = n * 2^1074 = (d * 2^s) * q + r, the lower neighbour q * 2^s
   when r is at most half of d * 2^s, the upper one when it is at least half *)
Lemma round_mag_dist : forall n d, 0 <= n -> 0 < d ->
  let a := n * F_UNIT in
  let y := a / d in
  let P := 2 ^ f_shift y in
  let q := y / P in
  let b := d * P in
  let r := a - b * q in
  0 <= r < b /\
  ((round_mag n d = q * P /\ 2 * r <= b) \/ (round_mag n d = (q + 1) * P /\ b <= 2 * r)).
Proof.
  intros n d Hn Hd a y P q b r. pose proof F_UNIT_pos as HU.
  assert (Ha : 0 <= a) by (unfold a; nia).
  assert (Hy : 0 <= y) by (apply Z.div_pos; lia).
  pose proof (f_shift_nonneg y) as Hs. assert (HP : 0 < P) by (apply pow2_pos; exact Hs).
  pose proof (Z.div_mod a d ltac:(lia)) as Hdm. fold y in Hdm.
  pose proof (Z.mod_pos_bound a d Hd) as Hr0.
  pose proof (Z.div_mod y P ltac:(lia)) as Hdm2. fold q in Hdm2.
  pose proof (Z.mod_pos_bound y P HP) as Hl.
  assert (Hr : r = (y - q * P) * d + a mod d) by (unfold r, b; nia).
  assert (Hrange : 0 <= r < b) by (unfold b; nia).
  split; [exact Hrange|].
  unfold round_mag. fold a.
  destruct (Z.div_eucl a d) as [y' r0] eqn:E. apply div_eucl_div_mod in E. destruct E as [Ey Er].
  fold y in Ey. subst y' r0.
  rewrite Z.shiftr_div_pow2 by exact Hs. rewrite !Z.shiftl_mul_pow2 by exact Hs.
  fold P. fold q. rewrite <- Hr. fold b.
  destruct (2 * r <? b) eqn:E1; [left; split; [reflexivity|apply Z.ltb_lt in E1; lia]|].
  apply Z.ltb_ge in E1.
  destruct (b <? 2 * r) eqn:E2; [right; split; [reflexivity|exact E1]|].
  apply Z.ltb_ge in E2.
  destruct (Z.even q); [left|right]; (split; [reflexivity|lia]).
Qed.

(* there is no representable magnitude strictly inside the gap the two neighbours span *)
Lemma no_representable_in_gap : forall y k, 0 <= y -> representable k ->
  let P := 2 ^ f_shift y in
  let q := y / P in
  k <= q * P \/ (q + 1) * P <= k.
Proof.
  intros y k Hy [Hk Hm] P q.
  pose proof (f_shift_nonneg y) as Hs. assert (HP : 0 < P) by (apply pow2_pos; exact Hs).
  destruct (Z_le_gt_dec k (q * P)) as [Hle|Hgt]; [left; exact Hle|right].
  (* k > q * P: k is a multiple of P *)
  assert (Hmul : k mod P = 0).
  { destruct (Z.eq_dec (f_shift y) 0) as [H0|H0].
    - unfold P. rewrite H0. apply Z.mod_1_r.
    - (* s > 0: q * P >= 2^(s+52), so the quantum at k is at least P *)
      assert (Hy0 : 0 < y).
      { destruct (Z.eq_dec y 0) as [E|]; [|lia]. exfalso. apply H0. rewrite E. reflexivity. }
      assert (Hsy : f_shift y = Z.log2 y - 52) by (unfold f_shift in *; lia).
      pose proof (Z.log2_spec y Hy0) as [Hlo _].
      assert (Hq : 2 ^ 52 <= q).
      { unfold q. apply Z.div_le_lower_bound; [exact HP|].
        unfold P. rewrite Z.mul_comm, <- Z.pow_add_r by lia.
        replace (52 + f_shift y) with (Z.log2 y) by lia. exact Hlo. }
      assert (Hk52 : 2 ^ (f_shift y + 52) <= k).
      { rewrite Z.pow_add_r by lia. fold P. nia. }
      assert (Hk0 : 0 < k) by (assert (0 < 2 ^ (f_shift y + 52)) by (apply Z.pow_pos_nonneg; lia); lia).
      assert (Hlk : f_shift y + 52 <= Z.log2 k) by (apply Z.log2_le_pow2; assumption).
      assert (Hsk : f_shift k = f_shift y + (Z.log2 k - 52 - f_shift y)) by (unfold f_shift at 1; lia).
      rewrite Hsk, Z.pow_add_r in Hm by lia. fold P in Hm.
      set (t := 2 ^ (Z.log2 k - 52 - f_shift y)) in *.
      assert (Ht : 0 < t) by (apply Z.pow_pos_nonneg; lia).
      pose proof (Z.div_mod k (P * t) ltac:(nia)) as Hd. rewrite Hm in Hd.
      replace k with ((t * (k / (P * t))) * P) by lia. apply Z.mod_mul. lia. }
  pose proof (Z.div_mod k P ltac:(lia)) as Hd. rewrite Hmul in Hd.
  assert (q < k / P) by nia. nia.
Qed.

(* round to nearest: no representable magnitude is closer to n / d (distances in units of
   1 / (d * 2^1074)); the overflow to inf is decided afterwards, by f_mk, on this result *)
Theorem round_mag_nearest : forall n d k, 0 <= n -> 0 < d -> representable k ->
  Z.abs (round_mag n d * d - n * F_UNIT) <= Z.abs (k * d - n * F_UNIT).
Proof.
  intros n d k Hn Hd Hk. pose proof F_UNIT_pos as HU.
  destruct (round_mag_dist n d Hn Hd) as [Hr Hc].
  assert (Hy : 0 <= n * F_UNIT / d) by (apply Z.div_pos; nia).
  pose proof (no_representable_in_gap _ k Hy Hk) as Hgap. cbv zeta in Hgap, Hr, Hc.
  set (a := n * F_UNIT) in *. set (y := a / d) in *. set (P := 2 ^ f_shift y) in *.
  set (q := y / P) in *. set (b := d * P) in *.
  assert (HP : 0 < P) by (apply pow2_pos; apply f_shift_nonneg).
  destruct Hc as [[-> H2]|[-> H2]]; destruct Hgap as [Hg|Hg]; unfold b in *; nia.
Qed.

(* ... and a tie is broken towards the even multiple of the quantum *)
Theorem round_mag_tie_even : forall n d, 0 <= n -> 0 < d ->
  let P := 2 ^ f_shift (n * F_UNIT / d) in
  let q := n * F_UNIT / d / P in
  2 * (n * F_UNIT - d * P * q) = d * P ->
  round_mag n d = (if Z.even q then q else q + 1) * P.
Proof.
  intros n d Hn Hd P q Htie. pose proof F_UNIT_pos as HU.
  unfold round_mag.
  destruct (Z.div_eucl (n * F_UNIT) d) as [y' r0] eqn:E. apply div_eucl_div_mod in E. destruct E as [Ey Er].
  subst y' r0. set (y := n * F_UNIT / d) in *.
  pose proof (f_shift_nonneg y) as Hs.
  rewrite Z.shiftr_div_pow2 by exact Hs. rewrite !Z.shiftl_mul_pow2 by exact Hs.
  fold P. fold q.
  pose proof (Z.div_mod (n * F_UNIT) d ltac:(lia)) as Hdm. fold y in Hdm.
  assert (Hr : (y - q * P) * d + (n * F_UNIT) mod d = n * F_UNIT - d * P * q) by nia.
  rewrite Hr.
  replace (2 * (n * F_UNIT - d * P * q) <? d * P) with false by (symmetry; apply Z.ltb_ge; lia).
  replace (d * P <? 2 * (n * F_UNIT - d * P * q)) with false by (symmetry; apply Z.ltb_ge; lia).
  destruct (Z.even q); reflexivity.
Qed.

(* ---------------------------------------------------------------- validity of results *)

Lemma f_mk_valid : forall neg k, representable k -> valid_f64 (f_mk neg k).
Proof.
  intros neg k Hk. unfold f_mk. destruct (F_TOP <=? k) eqn:E; cbn; [exact I|].
  split; [exact Hk|]. apply Z.leb_gt. exact E.
Qed.

Lemma f_of_ratio_valid : forall neg n d, 0 <= n -> 0 < d -> valid_f64 (f_of_ratio neg n d).
Proof. intros. apply f_mk_valid. apply round_mag_representable; assumption. Qed.

Lemma f_mul_valid : forall x y, valid_f64 x -> valid_f64 y -> valid_f64 (f_mul x y).
Proof.
  intros x y Hx Hy. pose proof F_UNIT_pos.
  destruct x as [|a|a k1], y as [|b|b k2]; cbn; try exact I.
  - destruct (k2 =? 0); exact I.
  - destruct (k1 =? 0); exact I.
  - destruct Hx as [[Hx _] _], Hy as [[Hy _] _]. apply f_of_ratio_valid; nia.
Qed.

(* ---------------------------------------------------------------- ints *)

Lemma f_mk_fin : forall neg k, k < F_TOP -> f_mk neg k = FFin neg k.
Proof. intros neg k H. unfold f_mk. replace (F_TOP <=? k) with false; [reflexivity|]. symmetry. apply Z.leb_gt. exact H. Qed.

(* an integer whose magnitude z * 2^1074 is representable and finite converts exactly *)
Lemma f_of_Z_exact : forall z, representable (Z.abs z * F_UNIT) -> Z.abs z * F_UNIT < F_TOP ->
  f_of_Z z = FFin (z <? 0) (Z.abs z * F_UNIT).
Proof.
  intros z Hr Ht. unfold f_of_Z, f_of_ratio.
  rewrite (round_mag_exact (Z.abs z) 1 (Z.abs z * F_UNIT)); [apply f_mk_fin; exact Ht|lia|lia|exact Hr].
Qed.

Lemma pow2_1074 : 2 ^ 1074 = F_UNIT.
Proof. Transparent F_UNIT. reflexivity. Opaque F_UNIT. Qed.

Lemma f_of_Z_small : forall z, 0 <= z < 2 ^ 53 -> f_of_Z z = FFin false (z * F_UNIT).
Proof.
  intros z Hz. rewrite f_of_Z_exact.
  - replace (z <? 0) with false by (symmetry; apply Z.ltb_ge; lia). rewrite Z.abs_eq by lia. reflexivity.
  - rewrite Z.abs_eq by lia. rewrite <- pow2_1074. apply representable_mul_pow2; lia.
  - rewrite Z.abs_eq by lia. rewrite F_TOP_eq. pose proof F_UNIT_pos.
    assert (2 ^ 53 < 2 ^ 1024) by (apply Z.pow_lt_mono_r; lia). nia.
Qed.

(* ---------------------------------------------------------------- comparisons *)

Lemma f_same_eq : forall x y, f_same x y = true -> x = y.
Proof.
  intros x y H. destruct x as [|a|a k1], y as [|b|b k2]; cbn in H; try discriminate; try reflexivity.
  - apply Bool.eqb_prop in H. subst. reflexivity.
  - apply andb_true_iff in H. destruct H as [H1 H2]. apply Bool.eqb_prop in H1. apply Z.eqb_eq in H2. subst. reflexivity.
Qed.

Lemma f_same_refl : forall x, f_same x x = true.
Proof. intros [|a|a k]; cbn; [reflexivity|apply Bool.eqb_reflx|rewrite Bool.eqb_reflx, Z.eqb_refl; reflexivity]. Qed.
