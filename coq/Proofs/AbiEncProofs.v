(* Proofs about Model/AbiEncModel.v against Spec/AbiSpec.v (C12). *)
From Coq Require Import ZArith List Bool Lia ZifyBool Permutation.
From HV Require Import Spec.AbiSpec Gen.GenAbiEnc Model.AbiEncModel.
Import ListNotations.
Open Scope Z_scope.
Ltac Zify.zify_post_hook ::= Z.to_euclidean_division_equations.

(* ------------------------------------------------------------------ induction principle for ty *)

Section TyInd.
  Variable P : ty -> Prop.
  Hypothesis HB : forall s, P (Base s).
  Hypothesis HF : forall t n, P t -> P (Fixed t n).
  Hypothesis HD : forall t, P t -> P (Dyn t).
  Hypothesis HT : forall its, Forall (fun it => P (snd it)) its -> P (Tuple its).
  Fixpoint ty_ind' (t : ty) : P t :=
    match t with
    | Base s => HB s
    | Fixed t' n => HF t' n (ty_ind' t')
    | Dyn t' => HD t' (ty_ind' t')
    | Tuple its =>
        HT its ((fix go (l : list (str * ty)) : Forall (fun it => P (snd it)) l :=
                   match l with
                   | [] => Forall_nil _
                   | it :: r => Forall_cons it (ty_ind' (snd it)) (go r)
                   end) its)
    end.
End TyInd.

(* ------------------------------------------------------------------ regenerated arithmetic *)

(* the regenerated padding is the ABI's: the least multiple of 32 that is >= n
   (proved by lia, so any extensionally equal rewrite of the Python expression passes) *)
Lemma pad_spec : forall n, Z.of_nat (pad n) = (Z.of_nat n + 31) / 32 * 32.
Proof. intros n. unfold pad, gen_pad. lia. Qed.

Lemma pad_ge : forall n, (n <= pad n)%nat.
Proof. intros n. unfold pad, gen_pad. lia. Qed.

Lemma head_size_spec : forall x, head_size x = if e_static x then e_size x else 32%nat.
Proof.
  intros x. unfold head_size, gen_head_size. destruct (e_static x); cbn [negb]; lia.
Qed.

Lemma gen_consts :
  gen_static_bits = 256 /\ gen_sizevar_bits = 256 /\ gen_bits_per_byte = 8 /\
  Z.to_nat gen_dyn_len_bytes = 32%nat /\ Z.to_nat gen_bytes_len_bytes = 32%nat /\
  Z.to_nat gen_static_size = 32%nat /\
  gen_dyn_static = false /\ gen_bytes_static = false /\ gen_static_static = true.
Proof. repeat split; reflexivity. Qed.

(* ------------------------------------------------------------------ strings *)

Lemma str_eqb_eq : forall a b, str_eqb a b = true <-> a = b.
Proof.
  induction a as [|x a IH]; destruct b as [|y b]; cbn; split; intros H; try congruence; try discriminate.
  - apply andb_true_iff in H. destruct H as [H1 H2]. apply Z.eqb_eq in H1. apply IH in H2. congruence.
  - inversion H; subst. rewrite Z.eqb_refl. cbn. apply IH. reflexivity.
Qed.

Lemma str_eqb_refl : forall a, str_eqb a a = true.
Proof. intros a. apply str_eqb_eq. reflexivity. Qed.

Lemma m_lookup_eq : forall m k, m_lookup m k = lookup m k.
Proof. induction m as [|[k' v] m IH]; intros k; cbn; [reflexivity|]. rewrite IH. reflexivity. Qed.

Lemma get_dyn_sizes_cand : forall c name arr k,
  get_dyn_sizes c name arr k =
  (cand c name arr, SizeVar k name (cand c name arr),
   {| d_name := name; d_sizes := cand c name arr; d_id := k; d_array := arr |}).
Proof. intros. unfold get_dyn_sizes, cand. rewrite m_lookup_eq. reflexivity. Qed.

Lemma m_idx_eq : forall name i, m_idx name i = idx name i.
Proof. reflexivity. Qed.

Lemma m_prefix_field : forall name fld, m_prefix name ++ fld = field name fld.
Proof.
  intros name fld. unfold m_prefix, field. destruct name as [|a name]; [reflexivity|].
  rewrite <- app_assoc. reflexivity.
Qed.

(* the dynamic elementary types of the encoder are the spec's *)
Lemma is_dyn_base_spec : forall s, is_dyn_base s = base_dyn s.
Proof.
  intros s. unfold is_dyn_base, base_dyn, classify, gen_dyn_base_names. cbn [existsb].
  change [98; 121; 116; 101; 115] with s_bytes. change [115; 116; 114; 105; 110; 103] with s_string.
  destruct (str_eqb s s_bytes); [reflexivity|].
  destruct (str_eqb s s_string); [reflexivity|]. cbn [orb].
  destruct (str_eqb s s_address); [reflexivity|].
  destruct (str_eqb s s_bool); [reflexivity|].
  destruct (strip_prefix s_uint s) as [d|].
  { destruct (parse_dec d) as [m|]; [|reflexivity]. destruct (_ && _); reflexivity. }
  destruct (strip_prefix s_int s) as [d|].
  { destruct (parse_dec d) as [m|]; [|reflexivity]. destruct (_ && _); reflexivity. }
  destruct (strip_prefix s_bytes s) as [d|]; [|reflexivity].
  destruct (parse_dec d) as [m|]; [|reflexivity]. destruct (_ && _); reflexivity.
Qed.

(* ------------------------------------------------------------------ bytes and words *)

Lemma be_bytes_length : forall n w, length (be_bytes n w) = n.
Proof.
  induction n as [|n IH]; intros w; cbn [be_bytes]; [reflexivity|].
  rewrite app_length, IH. cbn. lia.
Qed.

Lemma be_val_app1 : forall l b, be_val (l ++ [b]) = be_val l * 256 + b.
Proof. intros l b. unfold be_val. rewrite fold_left_app. reflexivity. Qed.

Lemma be_val_be_bytes : forall n w, 0 <= w -> be_val (be_bytes n w) = w mod 256 ^ Z.of_nat n.
Proof.
  induction n as [|n IH]; intros w Hw.
  - cbn. rewrite Z.mod_1_r. reflexivity.
  - cbn [be_bytes]. rewrite be_val_app1, IH by (apply Z.div_pos; lia).
    rewrite Nat2Z.inj_succ, Z.pow_succ_r by lia.
    rewrite (Z.rem_mul_r w 256 (256 ^ Z.of_nat n)) by lia. lia.
Qed.

Lemma be_val_word : forall w, 0 <= w < W256 -> be_val (be_bytes 32 w) = w.
Proof.
  intros w Hw. rewrite be_val_be_bytes by lia.
  change (256 ^ Z.of_nat 32) with W256. apply Z.mod_small. exact Hw.
Qed.

Lemma skipn_app_exact : forall {A} (a b : list A), skipn (length a) (a ++ b) = b.
Proof. intros A a b. rewrite skipn_app, skipn_all, Nat.sub_diag. reflexivity. Qed.

Lemma firstn_app_exact : forall {A} (a b : list A), firstn (length a) (a ++ b) = a.
Proof. intros A a b. rewrite firstn_app, firstn_all, Nat.sub_diag. cbn. apply app_nil_r. Qed.

Lemma word_at : forall pre w post, 0 <= w < W256 ->
  word (pre ++ be_bytes 32 w ++ post) (length pre) = Some w.
Proof.
  intros pre w post Hw. unfold word.
  rewrite !app_length, be_bytes_length.
  destruct (Nat.leb_spec (length pre + 32) (length pre + (32 + length post))) as [_|H]; [|lia].
  rewrite skipn_app_exact.
  rewrite <- (be_bytes_length 32 w) at 1. rewrite firstn_app_exact.
  rewrite be_val_word by exact Hw. reflexivity.
Qed.

Lemma slice_at : forall pre bs post,
  slice (pre ++ bs ++ post) (length pre) (Z.of_nat (length bs)) = Some bs.
Proof.
  intros pre bs post. unfold slice. rewrite !app_length.
  destruct ((0 <=? Z.of_nat (length bs)) &&
            (Z.of_nat (length pre) + Z.of_nat (length bs) <=?
             Z.of_nat (length pre + (length bs + length post)))) eqn:E; [|lia].
  rewrite Nat2Z.id, skipn_app_exact, firstn_app_exact. reflexivity.
Qed.

(* ------------------------------------------------------------------ sizes, ids, size symbols *)

Lemma lsum_app : forall a b, lsum (a ++ b) = (lsum a + lsum b)%nat.
Proof. induction a as [|x a IH]; intros b; cbn; [reflexivity|]. rewrite IH. lia. Qed.
Lemma list_sum_lsum : forall l, list_sum l = lsum l.
Proof. induction l as [|x l IH]; cbn; [reflexivity|]. rewrite <- IH. reflexivity. Qed.

Lemma items_size_app : forall a b, items_size (a ++ b) = (items_size a + items_size b)%nat.
Proof. intros. unfold items_size. rewrite map_app, lsum_app. reflexivity. Qed.

Lemma ids_app : forall a b, ids (a ++ b) = ids a ++ ids b.
Proof. intros. unfold ids. apply flat_map_app. Qed.

Lemma dyns_app : forall a b, dyns (a ++ b) = dyns a ++ dyns b.
Proof. intros. unfold dyns. apply flat_map_app. Qed.

(* what is known of every encoding result produced with symbol indices in [lo, hi) *)
Record inv (c : cfg) (lo hi : nat) (e : enc) (ds : list dynp) : Prop := {
  inv_size : e_size e = items_size (e_items e);
  inv_ne : e_static e = false -> e_items e <> [];
  inv_dyn : dyns (e_items e) = map dpair ds;
  inv_static : e_static e = true -> ds = [];
  inv_le : (lo <= hi)%nat;
  inv_ids : forall i, In i (ids (e_items e)) -> (lo <= i < hi)%nat;
  inv_nodup : NoDup (ids (e_items e));
  inv_con : forall z, In (Con z) (e_items e) -> 0 <= z <= Z.of_nat (e_size e);
  inv_cand : forall k nm sz, In (SizeVar k nm sz) (e_items e) -> exists arr, sz = cand c nm arr;
  inv_dcand : Forall (fun d => d_sizes d = cand c (d_name d) (d_array d)) ds
}.

(* the trace of run_list over [map g l] *)
Inductive runs {A} (g : A -> nat -> R) : list A -> nat -> list enc -> list (list dynp) -> nat -> Prop :=
| runs_nil : forall k, runs g [] k [] [] k
| runs_cons : forall a l k e d k1 es dss k2,
    g a k = (e, d, k1) -> runs g l k1 es dss k2 -> runs g (a :: l) k (e :: es) (d :: dss) k2.

Lemma run_list_runs : forall {A} (g : A -> nat -> R) l k es ds k',
  run_list (map g l) k = (es, ds, k') -> exists dss, ds = concat dss /\ runs g l k es dss k'.
Proof.
  intros A g. induction l as [|a l IH]; intros k es ds k' H; cbn in H.
  - inversion H; subst. exists []. split; [reflexivity|constructor].
  - destruct (g a k) as [[e d] k1] eqn:Eg.
    destruct (run_list (map g l) k1) as [[es' ds'] k2] eqn:Er.
    inversion H; subst. destruct (IH _ _ _ _ Er) as [dss [-> Hr]].
    exists (d :: dss). split; [reflexivity|]. econstructor; eassumption.
Qed.

Lemma runs_cons_inv : forall {A} (g : A -> nat -> R) a l k es dss k',
  runs g (a :: l) k es dss k' ->
  exists e d k1 es' dss', es = e :: es' /\ dss = d :: dss' /\ g a k = (e, d, k1) /\ runs g l k1 es' dss' k'.
Proof.
  intros A g a l k es dss k' H. inversion H; subst.
  do 5 eexists. repeat split; eassumption.
Qed.

Lemma runs_nil_inv : forall {A} (g : A -> nat -> R) k es dss k',
  runs g [] k es dss k' -> es = [] /\ dss = [] /\ k' = k.
Proof. intros A g k es dss k' H. inversion H; subst. repeat split. Qed.

Lemma runs_app : forall {A} (g : A -> nat -> R) l1 l2 k es dss k',
  runs g (l1 ++ l2) k es dss k' ->
  exists es1 es2 dss1 dss2 k1, es = es1 ++ es2 /\ dss = dss1 ++ dss2 /\
    runs g l1 k es1 dss1 k1 /\ runs g l2 k1 es2 dss2 k'.
Proof.
  intros A g. induction l1 as [|a l1 IH]; intros l2 k es dss k' H; cbn in H.
  - exists [], es, [], dss, k. repeat split; try reflexivity; [constructor|exact H].
  - apply runs_cons_inv in H. destruct H as (e & d & k1 & es' & dss' & -> & -> & Hg & Hr).
    destruct (IH _ _ _ _ _ Hr) as (es1 & es2 & dss1 & dss2 & k1' & -> & -> & H1 & H2).
    exists (e :: es1), es2, (d :: dss1), dss2, k1'. repeat split; try reflexivity; [|exact H2].
    econstructor; eassumption.
Qed.

(* a chain of encodings with consecutive index ranges *)
Inductive chain (c : cfg) : nat -> list enc -> list (list dynp) -> nat -> Prop :=
| chain_nil : forall k, chain c k [] [] k
| chain_cons : forall k k1 k2 e d es dss,
    inv c k k1 e d -> chain c k1 es dss k2 -> chain c k (e :: es) (d :: dss) k2.

Lemma runs_chain : forall {A} c (g : A -> nat -> R) l k es dss k',
  (forall a, In a l -> forall k e d k1, g a k = (e, d, k1) -> inv c k k1 e d) ->
  runs g l k es dss k' -> chain c k es dss k'.
Proof.
  intros A c g l k es dss k' Hg H. induction H.
  - constructor.
  - econstructor.
    + eapply Hg; [left; reflexivity|eassumption].
    + apply IHruns. intros a' Ha'. apply Hg. right. exact Ha'.
Qed.

Lemma chain_le : forall c k es dss k', chain c k es dss k' -> (k <= k')%nat.
Proof. intros c k es dss k' H. induction H; [lia|]. pose proof (inv_le _ _ _ _ _ H). lia. Qed.

Lemma NoDup_app_intro : forall {A} (a b : list A),
  NoDup a -> NoDup b -> (forall x, In x a -> In x b -> False) -> NoDup (a ++ b).
Proof.
  intros A a b Ha Hb Hd. induction Ha as [|x a Hx Ha IH]; cbn; [exact Hb|].
  constructor.
  - intros Hin. apply in_app_or in Hin. destruct Hin as [Hin|Hin]; [exact (Hx Hin)|].
    apply (Hd x); [left; reflexivity|exact Hin].
  - apply IH. intros y Hy. apply Hd. right. exact Hy.
Qed.

Definition all_ids (es : list enc) : list nat := flat_map (fun e => ids (e_items e)) es.

Lemma chain_ids : forall c k es dss k', chain c k es dss k' ->
  (forall i, In i (all_ids es) -> (k <= i < k')%nat) /\ NoDup (all_ids es).
Proof.
  intros c k es dss k' H. induction H as [k|k k1 k2 e d es dss Hi Hc [IH1 IH2]].
  - split; [intros i []|constructor].
  - pose proof (chain_le _ _ _ _ _ Hc). pose proof (inv_le _ _ _ _ _ Hi).
    cbn [all_ids flat_map]. split.
    + intros i Hin. apply in_app_or in Hin. destruct Hin as [Hin|Hin].
      * apply (inv_ids _ _ _ _ _ Hi) in Hin. lia.
      * apply IH1 in Hin. lia.
    + apply NoDup_app_intro; [exact (inv_nodup _ _ _ _ _ Hi)|exact IH2|].
      intros i H1 H2. apply (inv_ids _ _ _ _ _ Hi) in H1. apply IH1 in H2. lia.
Qed.
