(* Proofs about Model/AbiEncModel.v against Spec/AbiSpec.v (C12). *)
From Coq Require Import ZArith List Bool Lia ZifyBool.
From HV Require Import Spec.AbiSpec Gen.GenAbiEnc Model.AbiEncModel.
Import ListNotations.
Open Scope Z_scope.
Ltac Zify.zify_post_hook ::= Z.to_euclidean_division_equations.

(* the regenerated arithmetic is the ABI's *)
Lemma pad_spec : forall n, (pad n = (n + 31) / 32 * 32)%nat.
Proof.
  intros n. unfold pad, gen_pad.
  rewrite <- (Nat2Z.id ((n + 31) / 32 * 32)).
  f_equal. rewrite Nat2Z.inj_mul, Nat2Z.inj_div, Nat2Z.inj_add. reflexivity.
Qed.
