(* Exec.select reads the last write, whatever the branching solver answers -- provided `unsat` is the
   only answer it DECIDES from.  Over Gen/GenSelectRow.v (regenerated from the source on every run). *)
From Coq Require Import ZArith List Bool Lia.
From HV Require Import Spec.SelectRowSpec Gen.GenSelectRow Model.SelectRowModel.
Import ListNotations.
Open Scope Z_scope.

Definition answer_ok (a : Z) : Prop := a = 0 \/ a = 1 \/ a = 2.

(* a decision function that says yes to the answer `unsat` only *)
Definition only_unsat (f : Z -> bool) : Prop := forall a, answer_ok a -> f a = true -> a = 0.

Lemma term_eqb_ev : forall a b rho, term_eqb a b = true -> ev rho a = ev rho b.
Proof.
  intros [x|n] [y|m] rho H; cbn in *; try discriminate.
  - apply Z.eqb_eq in H. subst. reflexivity.
  - apply Nat.eqb_eq in H. subst. reflexivity.
Qed.

Theorem select_with_reads_last_write :
  forall skip hit, only_unsat skip -> only_unsat hit ->
  forall (P : (nat -> Z) -> Prop) check,
    (forall q, answer_ok (check q)) -> sound_on_unsat P check ->
  forall symbolic init, (symbolic = false -> forall z, init z = 0) ->
  forall chain k rho, P rho ->
    ev_res rho init (select_with skip hit check symbolic chain k) = last_write rho init chain (ev rho k).
Proof.
  intros skip hit Hskip Hhit P check Hok Hsound symbolic init Hinit chain.
  induction chain as [|[k0 v0] base IH]; intros k rho HP; cbn [select_with].
  - destruct symbolic; cbn.
    + reflexivity.
    + symmetry. apply Hinit. reflexivity.
  - destruct (term_eqb k k0) eqn:E.
    + cbn [ev_res last_write]. rewrite (term_eqb_ev _ _ rho E), Z.eqb_refl. reflexivity.
    + destruct (skip (check (QEq k k0))) eqn:S.
      * apply (Hskip _ (Hok _)) in S. pose proof (Hsound _ S rho HP) as Hne. cbn in Hne.
        rewrite (IH k rho HP). cbn [last_write].
        destruct (ev rho k0 =? ev rho k) eqn:E2; [|reflexivity].
        apply Z.eqb_eq in E2. exfalso. apply Hne. symmetry. exact E2.
      * destruct (hit (check (QNe k k0))) eqn:H.
        -- apply (Hhit _ (Hok _)) in H. pose proof (Hsound _ H rho HP) as Heq. cbn in Heq.
           cbn [ev_res last_write].
           destruct (ev rho k0 =? ev rho k) eqn:E2; [reflexivity|].
           apply Z.eqb_neq in E2. exfalso. apply Heq. intro X. apply E2. symmetry. exact X.
        -- cbn [ev_res]. reflexivity.
Qed.

(* the decision functions as the code says now *)
Lemma select_skip_only_unsat : only_unsat select_skip.
Proof. intros a [->|[->| ->]] H; vm_compute in H; try reflexivity; discriminate H. Qed.

Lemma select_hit_only_unsat : only_unsat select_hit.
Proof. intros a [->|[->| ->]] H; vm_compute in H; try reflexivity; discriminate H. Qed.

Theorem select_reads_last_write :
  forall (P : (nat -> Z) -> Prop) check,
    (forall q, answer_ok (check q)) -> sound_on_unsat P check ->
  forall symbolic init, (symbolic = false -> forall z, init z = 0) ->
  forall chain k rho, P rho ->
    ev_res rho init (select check symbolic chain k) = last_write rho init chain (ev rho k).
Proof. exact (select_with_reads_last_write _ _ select_skip_only_unsat select_hit_only_unsat). Qed.

(* NECESSITY: a decision function that says yes to `sat` or to `unknown` makes the shortcut wrong under
   an oracle that is perfectly legal (it never answers unsat at all) *)
Theorem select_decision_on_non_unsat_refuted :
  forall skip hit a, (a = 1 \/ a = 2) -> (skip a = true \/ hit a = true) ->
    exists check chain k rho,
      (forall q, answer_ok (check q)) /\ sound_on_unsat (fun _ => True) check /\
      ev_res rho (fun _ => 0) (select_with skip hit check false chain k)
        <> last_write rho (fun _ => 0) chain (ev rho k).
Proof.
  intros skip hit a Ha Hd.
  assert (Hok : answer_ok a) by (destruct Ha as [->| ->]; [right; left|right; right]; reflexivity).
  assert (Hs : sound_on_unsat (fun _ => True) (fun _ => a)).
  { intros q Hq. exfalso. destruct Ha as [->| ->]; discriminate Hq. }
  destruct (skip a) eqn:S.
  - exists (fun _ => a), [(TConst 3, TConst 5)], (TVar 0), (fun _ => 3).
    split; [intro; exact Hok|]. split; [exact Hs|].
    cbn. rewrite S. cbn. discriminate.
  - destruct Hd as [Hd|Hd]; [discriminate Hd|].
    exists (fun _ => a), [(TConst 3, TConst 5)], (TVar 0), (fun _ => 4).
    split; [intro; exact Hok|]. split; [exact Hs|].
    cbn. rewrite S, Hd. cbn. discriminate.
Qed.

(* the refutation witness for `check(key != key0) != sat`: after m[3] = 5 the read m[x] is the constant 5 *)
Theorem select_hit_not_sat_refuted :
  exists check chain k rho,
    (forall q, answer_ok (check q)) /\ sound_on_unsat (fun _ => True) check /\
    ev_res rho (fun _ => 0) (select_with (fun a => a =? 0) (fun a => negb (a =? 1)) check false chain k)
      <> last_write rho (fun _ => 0) chain (ev rho k).
Proof.
  apply (select_decision_on_non_unsat_refuted _ _ 2); [right; reflexivity|right; reflexivity].
Qed.

(* the position encoding of the extracted entry agrees with the model *)
Lemma select_pos_tag :
  forall skip hit check symbolic chain k pos,
    hd 9 (select_pos skip hit check symbolic chain k pos) =
      match select_with skip hit check symbolic chain k with RZero => 0 | RVal _ => 1 | RSelect _ _ => 2 end.
Proof.
  intros skip hit check symbolic chain. induction chain as [|[k0 v0] base IH]; intros k pos; cbn.
  - destruct symbolic; reflexivity.
  - destruct (term_eqb k k0); [reflexivity|].
    destruct (skip (check (QEq k k0))); [apply IH|].
    destruct (hit (check (QNe k k0))); reflexivity.
Qed.
