(* Proofs for C04: nothing is reported from a solver result that arrives after the executor was
   shut down (its process may have been killed in the middle of its output); the callback's
   dispatch is SolveModel.classify. *)
From Coq Require Import ZArith List String Ascii Bool Lia.
From HV Require Import Model.SexpDefs Gen.GenRefine Model.SmtTextModel Model.SolveModel
  Model.CexDefs Gen.GenCexHandler Model.CexModel Proofs.SolveProofs.
Import ListNotations.
Open Scope Z_scope.

Ltac split_outcome o := destruct o as [|[|] ?s| |].

Lemma callback_is_classify : forall ee o, gen_callback_verdict ee o = classify o.
Proof. intros ee o. destruct ee; split_outcome o; reflexivity. Qed.

Lemma nothing_after_shutdown : forall ee f, gen_callback_verdict ee (gen_get_solver_output true f) = NoModel.
Proof. intros ee [| |o]; destruct ee; try reflexivity; split_outcome o; reflexivity. Qed.

Lemma get_solver_output_running : forall o, gen_get_solver_output false (FRes o) = o.
Proof. intros o. split_outcome o; reflexivity. Qed.

Lemma get_solver_output_failed : forall sh, gen_get_solver_output sh FExc = OErr /\ gen_get_solver_output sh FRaise = OErr.
Proof. intros [|]; split; reflexivity. Qed.

Lemma shutdown_only_after_valid : forall ee o,
  gen_callback_shutdown ee o = true -> ee = true /\ gen_callback_verdict ee o = ValidCex.
Proof. intros [|] o H; split_outcome o; cbn in H; try discriminate; split; reflexivity. Qed.

Lemma valid_cex_from_complete_output :
  forall ee is_shutdown killed k1 k2 core_hit is_refined out1 changes out2,
    (killed = true -> is_shutdown = true) ->
    handle ee is_shutdown killed k1 k2 core_hit is_refined out1 changes out2 = ValidCex ->
    is_shutdown = false /\ killed = false /\
    exists s k, solve_e2e core_hit is_refined out1 changes out2 = (OSat true s, k) /\
                contains invalid_marker s = false /\ (s = out1 \/ s = out2).
Proof.
  intros ee sh killed k1 k2 core_hit is_refined out1 changes out2 Hk H. unfold handle in H.
  destruct sh.
  - rewrite nothing_after_shutdown in H. discriminate.
  - destruct killed; [specialize (Hk eq_refl); discriminate|].
    split; [reflexivity|]. split; [reflexivity|].
    unfold observed in H. rewrite get_solver_output_running, callback_is_classify in H.
    destruct (solve_e2e core_hit is_refined out1 changes out2) as [o k] eqn:E. cbn [fst] in H.
    destruct o as [|v s| |]; try discriminate. destruct v; [|discriminate].
    exists s, k. split; [reflexivity|].
    apply solve_e2e_valid in E. destruct E as [Hc [[-> _]|[-> _]]]; auto.
Qed.

(* why the guard must not look at the result: a cut output can hide the abstraction *)
Lemma prefix_contains : forall m k s, contains m (prefix k s) = true -> contains m s = true.
Proof.
  assert (Hsp : forall m k s r, strip_prefix m (prefix k s) = Some r -> exists r', strip_prefix m s = Some r').
  { induction m as [|a m IH]; intros k s r H.
    - exists s. destruct s; reflexivity.
    - destruct k as [|k]; [destruct s; discriminate|]. destruct s as [|c s]; [discriminate|].
      cbn [prefix strip_prefix] in *. destruct (Ascii.eqb a c); [|discriminate].
      eapply IH; eauto. }
  intros m k. revert k. induction k as [|k IH]; intros s H.
  - assert (E : prefix 0 s = EmptyString) by (destruct s; reflexivity). rewrite E in H.
    destruct s as [|c s]; [exact H|].
    cbn [contains] in H. unfold starts_with in *. rewrite orb_false_r in H.
    destruct (strip_prefix m EmptyString) eqn:Em; [|discriminate].
    destruct m; [|discriminate]. reflexivity.
  - destruct s as [|c s]; [exact H|].
    cbn [prefix] in H. cbn [contains] in *. apply orb_true_iff in H. apply orb_true_iff.
    destruct H as [H|H].
    + left. unfold starts_with in *.
      destruct (strip_prefix m (String c (prefix k s))) eqn:E; [|discriminate].
      change (String c (prefix k s)) with (prefix (S k) (String c s)) in E.
      apply Hsp in E. destruct E as [r' ->]. reflexivity.
    + right. apply IH. exact H.
Qed.
