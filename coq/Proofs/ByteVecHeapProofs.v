(* Proofs about the object-store layer Model/ByteVecHeapModel.v: copy isolation under the
   proviso, and necessity of the proviso. *)
From Coq Require Import List Arith Bool Lia.
From HV Require Import Spec.ByteVecSpec Model.ByteVecModel Model.ByteVecHeapModel.
Import ListNotations.

Section HeapProofs.
Variable B : Type.
Variable zero : B.

Notation chunk := (chunk B).
Notation bvec := (bvec B).
Notation heap := (heap B).
Notation refresh := (refresh B).
Notation creach := (creach B).
Notation h_step := (h_step B zero).
Notation h_run := (h_run B zero).
Notation h_flat := (h_flat B).
Notation h_load := (h_load B).

Lemma chunk_ind2 (P : chunk -> Prop) :
  (forall sym d s l, P (Leaf sym d s l)) ->
  (forall tag cs len, Forall (fun kc => P (snd kc)) cs -> P (Nest tag cs len)) ->
  forall c, P c.
Proof.
  intros HL HN. fix IH 1. intros [sym d s l | tag cs len].
  - apply HL.
  - apply HN. induction cs as [|[k c] r IHr]; constructor; [apply IH | apply IHr].
Qed.

Lemma refresh_leaf : forall f h sym d s l,
  refresh (S f) h (Leaf sym d s l) = Some (Leaf sym d s l).
Proof. reflexivity. Qed.

Lemma refresh_owned : forall f h cs len,
  refresh (S f) h (Nest None cs len) =
  match omap_snd B (refresh (S f) h) cs with
  | Some cs' => Some (Nest None cs' len)
  | None => None
  end.
Proof. reflexivity. Qed.

Lemma refresh_ref : forall f h i cs len,
  refresh (S f) h (Nest (Some i) cs len) =
  match nth_error h i with
  | None => None
  | Some w =>
      match refresh f h (Nest None (chunks w) (blen w)) with
      | Some (Nest _ cs' len') => Some (Nest (Some i) cs' len')
      | _ => None
      end
  end.
Proof. reflexivity. Qed.

Lemma omap_snd_cons : forall (f : chunk -> option chunk) k c r,
  omap_snd B f ((k, c) :: r) =
  match f c, omap_snd B f r with
  | Some c2, Some r2 => Some ((k, c2) :: r2)
  | _, _ => None
  end.
Proof. reflexivity. Qed.

Lemma omap_agree : forall (g g' : chunk -> option chunk) cs,
  Forall (fun kc => forall t, g (snd kc) = Some t -> g' (snd kc) = Some t) cs ->
  forall cs', omap_snd B g cs = Some cs' -> omap_snd B g' cs = Some cs'.
Proof.
  intros g g' cs H. induction H as [|[k c] r Hc Hr IH]; intros cs' E; [exact E|].
  rewrite omap_snd_cons in *. cbn [snd] in Hc.
  destruct (g c) as [c2|] eqn:E1; [|discriminate].
  destruct (omap_snd B g r) as [r2|] eqn:E2; [|discriminate].
  rewrite (Hc c2 eq_refl), (IH r2 eq_refl). exact E.
Qed.

(* the denotation of X only depends on the objects reachable from X *)
Lemma refresh_agree : forall fuel (h h' : heap) (c : chunk) t,
  (forall j w, creach h c j -> nth_error h j = Some w -> nth_error h' j = Some w) ->
  refresh fuel h c = Some t -> refresh fuel h' c = Some t.
Proof.
  induction fuel as [|f IHf]; intros h h' c; [discriminate|].
  induction c as [sym d s l | tag cs len IHc] using chunk_ind2; intros t Hag H.
  - exact H.
  - destruct tag as [i|].
    + rewrite refresh_ref in *.
      destruct (nth_error h i) as [w|] eqn:Ei; [|discriminate].
      rewrite (Hag i w (cr_tag _ _ _ _ _) Ei).
      destruct (refresh f h (Nest None (chunks w) (blen w))) as [c1|] eqn:Er; [|discriminate].
      rewrite (IHf h h' _ c1); [exact H | | exact Er].
      intros j w' Hr Hj. apply Hag; [|exact Hj]. eapply cr_obj; eauto.
    + rewrite refresh_owned in *.
      assert (Hl : forall cs', omap_snd B (refresh (S f) h) cs = Some cs' ->
                               omap_snd B (refresh (S f) h') cs = Some cs').
      { apply omap_agree. apply Forall_forall. intros [k c] Hin t0 Ht0.
        rewrite Forall_forall in IHc. apply (IHc (k, c) Hin t0); [|exact Ht0].
        intros j w Hr Hj. apply Hag; [eapply cr_sub; eauto | exact Hj]. }
      destruct (omap_snd B (refresh (S f) h) cs) as [cs'|] eqn:E; [|discriminate].
      rewrite (Hl cs' eq_refl). exact H.
Qed.

(* ---- the store ---- *)

Lemma nth_error_write_other : forall (h : heap) x o j, j <> x ->
  nth_error (h_write h x o) j = nth_error h j.
Proof.
  induction h as [|a h IH]; intros x o j Hne.
  - destruct x; reflexivity.
  - destruct x as [|x]; destruct j as [|j]; cbn; try reflexivity; try lia.
    apply IH. lia.
Qed.

Lemma nth_error_alloc : forall (h : heap) o j w,
  nth_error h j = Some w -> nth_error (h ++ [o]) j = Some w.
Proof.
  intros h o j w H. rewrite nth_error_app1; [exact H|]. apply nth_error_Some. congruence.
Qed.

(* agreement with the initial store on everything reachable from X *)
Definition agrees (h1 : heap) (X : chunk) (h : heap) : Prop :=
  forall j w, creach h1 X j -> nth_error h1 j = Some w -> nth_error h j = Some w.

Lemma step_agrees : forall fuel h1 X h s h' raised,
  h_step fuel h s = Some (h', raised) ->
  (forall r, receiver s = Some r -> ~ creach h1 X r) ->
  agrees h1 X h -> agrees h1 X h'.
Proof.
  intros fuel h1 X h s h' raised Hs Hrecv Hag j w Hr Hj.
  destruct s as [| r | r a b | r o]; cbn [ByteVecHeapModel.h_step] in Hs.
  - inversion Hs; subst. apply nth_error_alloc. apply Hag; assumption.
  - destruct (nth_error h r); [|discriminate]. inversion Hs; subst.
    apply nth_error_alloc. apply Hag; assumption.
  - destruct (ByteVecHeapModel.h_load B fuel h r); [|discriminate]. inversion Hs; subst.
    apply nth_error_alloc. apply Hag; assumption.
  - destruct (ByteVecHeapModel.h_load B fuel h r); [|discriminate].
    destruct (h_val B zero fuel h (hop_val B o)); [|discriminate].
    destruct (pure_op B zero b o c) as [t' rs]. inversion Hs; subst.
    rewrite nth_error_write_other; [apply Hag; assumption|].
    intros ->. apply (Hrecv r eq_refl). exact Hr.
Qed.

Lemma run_agrees : forall fuel h1 X ops h h',
  h_run fuel h ops = Some h' ->
  (forall s r, In s ops -> receiver s = Some r -> ~ creach h1 X r) ->
  agrees h1 X h -> agrees h1 X h'.
Proof.
  intros fuel h1 X ops. induction ops as [|s ops IH]; intros h h' Hrun Hrecv Hag.
  - inversion Hrun; subst. exact Hag.
  - cbn [ByteVecHeapModel.h_run] in Hrun.
    destruct (h_step fuel h s) as [[h2 raised]|] eqn:Es; [|discriminate].
    apply (IH h2 h' Hrun).
    + intros s' r Hin. apply Hrecv. right. exact Hin.
    + eapply step_agrees; [exact Es | | exact Hag].
      intros r. apply Hrecv. left. reflexivity.
Qed.

(* frame theorem: operations whose receivers are not reachable from X leave what X denotes
   unchanged *)
Lemma isolation : forall fuel (h1 : heap) ops h' (X : chunk) t,
  h_run fuel h1 ops = Some h' ->
  (forall s r, In s ops -> receiver s = Some r -> ~ creach h1 X r) ->
  refresh fuel h1 X = Some t -> refresh fuel h' X = Some t.
Proof.
  intros fuel h1 ops h' X t Hrun Hrecv Ht.
  apply (refresh_agree fuel h1 h' X t); [|exact Ht].
  apply (run_agrees fuel h1 X ops h1 h' Hrun Hrecv). intros j w _ Hj. exact Hj.
Qed.

Lemma isolation_flat : forall fuel (h1 : heap) ops h' x l,
  h_run fuel h1 ops = Some h' ->
  (forall s r, In s ops -> receiver s = Some r -> ~ creach h1 (oref x) r) ->
  h_flat fuel h1 x = Some l -> h_flat fuel h' x = Some l.
Proof.
  intros fuel h1 ops h' x l Hrun Hrecv Hl. unfold h_flat, ByteVecHeapModel.h_flat in *.
  destruct (refresh fuel h1 (oref x)) as [t|] eqn:E; [|discriminate].
  rewrite (isolation fuel h1 ops h' (oref x) t Hrun Hrecv E). exact Hl.
Qed.

(* copy(): the new object denotes what the original denotes, and what is reachable from
   it is itself plus what the original's chunks reference *)
Lemma copy_same : forall fuel (h : heap) v o,
  nth_error h v = Some o ->
  h_step fuel h (HCopy v) = Some (h ++ [o], false) /\
  h_load fuel (h ++ [o]) (length h) = h_load fuel (h ++ [o]) v.
Proof.
  intros fuel h v o Hv. split.
  - cbn [ByteVecHeapModel.h_step]. rewrite Hv. reflexivity.
  - unfold h_load, ByteVecHeapModel.h_load, oref. destruct fuel as [|f]; [reflexivity|].
    rewrite !refresh_ref.
    rewrite (nth_error_alloc h o v o Hv).
    rewrite nth_error_app2 by lia. rewrite Nat.sub_diag. cbn [nth_error].
    destruct (refresh f (h ++ [o]) (Nest None (chunks o) (blen o))) as [[| t cs len]|]; reflexivity.
Qed.

Lemma creach_ref_inv : forall (h : heap) i cs len j,
  creach h (Nest (Some i) cs len) j ->
  j = i \/ exists w, nth_error h i = Some w /\ creach h (Nest None (chunks w) (blen w)) j.
Proof.
  intros h i cs len j H. inversion H; subst; [left; reflexivity | right; eexists; eauto].
Qed.

Lemma copy_reach : forall (h : heap) o j,
  creach (h ++ [o]) (oref (length h)) j ->
  j = length h \/ creach (h ++ [o]) (Nest None (chunks o) (blen o)) j.
Proof.
  intros h o j H. apply creach_ref_inv in H. destruct H as [-> | [w [Hw Hr]]].
  - left. reflexivity.
  - right. rewrite nth_error_app2 in Hw by lia. rewrite Nat.sub_diag in Hw. cbn in Hw.
    inversion Hw; subst. assumption.
Qed.

Lemma copy_isolation : forall fuel (h : heap) v o ops h' l,
  nth_error h v = Some o ->
  h_run fuel (h ++ [o]) ops = Some h' ->
  (forall s r, In s ops -> receiver s = Some r ->
      r <> length h /\ ~ creach (h ++ [o]) (Nest None (chunks o) (blen o)) r) ->
  h_flat fuel (h ++ [o]) (length h) = Some l -> h_flat fuel h' (length h) = Some l.
Proof.
  intros fuel h v o ops h' l Hv Hrun Hrecv Hl.
  apply (isolation_flat fuel (h ++ [o]) ops h' (length h) l Hrun); [|exact Hl].
  intros s r Hin Hr Hreach. destruct (Hrecv s r Hin Hr) as [H1 H2].
  destruct (copy_reach h o r Hreach) as [-> | H3]; [apply H1; reflexivity | apply H2; exact H3].
Qed.

End HeapProofs.

(* ---- the proviso is necessary: a reachable store where mutating an object that is
   referenced as a nested chunk changes what a copy denotes ---- *)

Definition alias_prefix : list (hstep nat) :=
  [ HNew; HNew;
    HMut 0 (HAppend (HVLeaf (wrap false [1; 2])));
    HMut 1 (HAppend (HVLeaf (wrap false [3; 4])));
    HMut 0 (HSetSlice 0 2 (HVWhole 1));     (* aligned: stores object 1 itself *)
    HCopy 0 ].                              (* object 2 *)

Definition alias_step : hstep nat := HMut 1 (HSetByte 0 false 9).

Lemma alias_witness :
  exists h1 h',
    h_run nat 0 8 [] alias_prefix = Some h1 /\
    h_run nat 0 8 h1 [alias_step] = Some h' /\
    receiver alias_step = Some 1 /\ 1 <> 2 /\ 1 <> 0 /\
    creach nat h1 (oref 2) 1 /\
    h_flat nat 8 h1 2 = Some [3; 4] /\ h_flat nat 8 h' 2 = Some [9; 4] /\
    h_flat nat 8 h1 0 = Some [3; 4] /\ h_flat nat 8 h' 0 = Some [9; 4].
Proof.
  destruct (h_run nat 0 8 [] alias_prefix) as [h1|] eqn:E1; [|vm_compute in E1; discriminate].
  destruct (h_run nat 0 8 h1 [alias_step]) as [h'|] eqn:E2.
  2:{ vm_compute in E1. inversion E1; subst. vm_compute in E2. discriminate. }
  exists h1, h'. vm_compute in E1. inversion E1; subst. vm_compute in E2. inversion E2; subst.
  repeat split; try (vm_compute; reflexivity); try lia.
  eapply cr_obj; [vm_compute; reflexivity|]. cbn [chunks blen].
  eapply cr_sub; [left; reflexivity|]. apply cr_tag.
Qed.

Lemma creach_owned_inv : forall (B : Type) (h : heap B) cs len j,
  creach B h (Nest None cs len) j -> exists k c, In (k, c) cs /\ creach B h c j.
Proof. intros B h cs len j H. inversion H; subst. eauto. Qed.

Lemma creach_ref_inv' : forall (B : Type) (h : heap B) i cs len j,
  creach B h (Nest (Some i) cs len) j ->
  j = i \/ exists w, nth_error h i = Some w /\ creach B h (Nest None (chunks w) (blen w)) j.
Proof.
  intros B h i cs len j H. inversion H; subst; [left; reflexivity | right; eexists; eauto].
Qed.

Lemma isolation_example :
  exists h1 h' : heap nat,
    h_run nat 0 8 [] alias_prefix = Some h1 /\
    h_run nat 0 8 h1 [HMut 0 (HSetByte 1 false 9)] = Some h' /\
    ~ creach nat h1 (oref 2) 0 /\
    h_flat nat 8 h' 2 = Some [3; 4] /\ h_flat nat 8 h' 0 = Some [3; 9].
Proof.
  destruct (h_run nat 0 8 [] alias_prefix) as [h1|] eqn:E1; [|vm_compute in E1; discriminate].
  destruct (h_run nat 0 8 h1 [HMut 0 (HSetByte 1 false 9)]) as [h'|] eqn:E2.
  2:{ vm_compute in E1. inversion E1; subst. vm_compute in E2. discriminate. }
  exists h1, h'. vm_compute in E1. inversion E1; subst. vm_compute in E2. inversion E2; subst.
  split; [reflexivity|]. split; [reflexivity|]. split; [|split; vm_compute; reflexivity].
  intros H. apply creach_ref_inv' in H. destruct H as [H | [w [Hw H]]]; [discriminate|].
  vm_compute in Hw. inversion Hw; subst; clear Hw. cbn [chunks blen] in H.
  apply creach_owned_inv in H. destruct H as [k [c [Hin H]]].
  destruct Hin as [Hin | []]. inversion Hin; subst; clear Hin.
  apply creach_ref_inv' in H. destruct H as [H | [w [Hw H]]]; [discriminate|].
  vm_compute in Hw. inversion Hw; subst; clear Hw. cbn [chunks blen] in H.
  apply creach_owned_inv in H. destruct H as [k [c [Hin H]]].
  destruct Hin as [Hin | []]. inversion Hin; subst. inversion H.
Qed.
