(* C11 proofs, object level (4): the z3 solver objects.  Under the exploration discipline of
   SEVM.run (Model/PathHeapModel.sched_step), the solver object a Path is running on holds
   exactly the assertions of the pure model's solver view of that Path, and every fork that
   waits for activation finds, below the scope saved by Path.branch, the assertions of its
   parent at the time of the fork. *)
From Coq Require Import ZArith List Bool Lia Arith.
From HV Require Import Spec.SmtQuerySpec Model.PathCopyDefs Model.SmtTextModel Model.PathHeapModel
  Proofs.SmtTextProofs Proofs.PathHeapProofs Proofs.PathHeapSim.
Import ListNotations.
Open Scope nat_scope.

Section SolverInv.
  Variable cond : Type.
  Notation stack := (list (list cond)).
  Notation hpath := (hpath cond).
  Notation s_assertions := (s_assertions cond).
  Notation s_add := (s_add cond).

  Definition scopes_of (P : list hpath) (j : nat) : nat :=
    match nth_error P j with Some hp => hp_scopes hp | None => 0 end.

  Fixpoint wait_ok (P : list hpath) (sv : nat -> list cond) (st : stack) (W : list nat) : Prop :=
    match W with
    | [] => True
    | j :: W' =>
        let d := scopes_of P j in
        d + 2 <= List.length st /\
        s_assertions (skipn (List.length st - (d + 1)) st) = sv j /\
        wait_ok P sv (skipn (List.length st - (d + 1)) st) W'
    end.

  Definition SI (P : list hpath) (So : list stack) (sv : nat -> list cond) (sc : sched) : Prop :=
    List.length (sc_solver_of sc) = List.length P /\
    (forall j hp, nth_error P j = Some hp ->
       nth j (sc_solver_of sc) 0 = hp_solver hp /\ hp_solver hp < List.length So) /\
    List.length (sc_current sc) = List.length So /\
    List.length (sc_waiting sc) = List.length So /\
    forall s, s < List.length So ->
      let st := nth s So [] in
      let cur := nth s (sc_current sc) 0 in
      let W := nth s (sc_waiting sc) [] in
      st <> [] /\
      cur < List.length P /\ nth cur (sc_solver_of sc) 0 = s /\ s_assertions st = sv cur /\
      wait_ok P sv st W /\
      (forall j, In j W -> j < List.length P /\ j <> cur /\ nth j (sc_solver_of sc) 0 = s) /\
      NoDup W.

  Lemma wait_ok_ext : forall P P' sv sv' W st,
    (forall j, In j W -> sv' j = sv j /\ scopes_of P' j = scopes_of P j) ->
    wait_ok P sv st W -> wait_ok P' sv' st W.
  Proof.
    intros P P' sv sv' W. induction W as [|j W IH]; intros st He H; simpl in *; [exact I|].
    destruct (He j (or_introl eq_refl)) as [E1 E2]. rewrite E1, E2.
    destruct H as (H1 & H2 & H3). repeat split; auto.
  Qed.

  Lemma assertions_add : forall st c, s_assertions (s_add st c) = (s_assertions st ++ [c])%list.
  Proof.
    intros [|top r] c; unfold PathHeapModel.s_assertions, PathHeapModel.s_add; simpl; [reflexivity|].
    rewrite !concat_app. simpl. rewrite !app_nil_r. rewrite app_assoc. reflexivity.
  Qed.

  Lemma assertions_push : forall st, s_assertions ([] :: st) = s_assertions st.
  Proof.
    intros st. unfold PathHeapModel.s_assertions. simpl. rewrite concat_app. simpl. rewrite app_nil_r. reflexivity.
  Qed.

  Lemma add_length : forall st c, st <> [] -> List.length (s_add st c) = List.length st.
  Proof. intros [|t r] c H; [congruence | reflexivity]. Qed.

  Lemma skipn_add : forall st c n, 1 <= n -> n <= List.length st -> skipn n (s_add st c) = skipn n st.
  Proof. intros [|t r] c [|n] H1 H2; simpl in *; try lia; reflexivity. Qed.

  (* what is below the top scope is not touched by an addition *)
  Lemma wait_ok_add : forall P sv W st c, wait_ok P sv st W -> wait_ok P sv (s_add st c) W.
  Proof.
    intros P sv [|j W] st c H; simpl in *; [exact I|].
    destruct H as (H1 & H2 & H3).
    assert (Hne : st <> []) by (destruct st; simpl in H1; [lia | congruence]).
    rewrite add_length by exact Hne. rewrite skipn_add by lia. auto.
  Qed.

  Lemma wait_ok_push : forall P sv W st, wait_ok P sv st W -> wait_ok P sv ([] :: st) W.
  Proof.
    intros P sv [|j W] st H; [exact I|]. simpl in H.
    destruct H as (H1 & H2 & H3). cbn [wait_ok].
    assert (E : skipn (List.length ([] :: st) - (scopes_of P j + 1)) ([] :: st)
                = skipn (List.length st - (scopes_of P j + 1)) st).
    { cbn [List.length].
      replace (S (List.length st) - (scopes_of P j + 1)) with (S (List.length st - (scopes_of P j + 1))) by lia.
      reflexivity. }
    rewrite E. cbn [List.length]. split; [lia|]. split; assumption.
  Qed.

  Lemma scopes_app_old : forall P hpn j, j < List.length P -> scopes_of (P ++ [hpn]) j = scopes_of P j.
  Proof. intros P hpn j Hj. unfold scopes_of. rewrite nth_error_app1 by exact Hj. reflexivity. Qed.

  (* same path metadata, same solver views: same invariant *)
  Lemma SI_ext : forall P P' So sv sv' sc,
    SI P So sv sc -> List.length P' = List.length P ->
    (forall j hp, nth_error P j = Some hp ->
       exists hp', nth_error P' j = Some hp' /\ hp_scopes hp' = hp_scopes hp /\ hp_solver hp' = hp_solver hp) ->
    (forall j, j < List.length P -> sv' j = sv j) ->
    SI P' So sv' sc.
  Proof.
    intros P P' So sv sv' sc (H1 & H2 & H3 & H4 & H5) Hlen Hmeta Hsv.
    assert (Hsc : forall j, scopes_of P' j = scopes_of P j).
    { intros j. unfold scopes_of. destruct (nth_error P j) as [hp|] eqn:E.
      - destruct (Hmeta j hp E) as (hp' & E' & Es & _). rewrite E'. exact Es.
      - apply nth_error_None in E. rewrite <- Hlen in E. apply nth_error_None in E. rewrite E. reflexivity. }
    split; [lia|]. split.
    { intros j hp' E'. assert (Hj : j < List.length P) by (rewrite <- Hlen; apply (nth_error_lt _ _ _ E')).
      destruct (nth_error P j) as [hp|] eqn:E; [|apply nth_error_None in E; lia].
      destruct (Hmeta j hp E) as (hp2 & E2 & _ & Eso). rewrite E' in E2. inversion E2; subst hp2.
      rewrite Eso. apply (H2 j hp E). }
    split; [exact H3|]. split; [exact H4|].
    intros s Hs. destruct (H5 s Hs) as (A0 & A1 & A2 & A3 & A4 & A5 & A6). cbv zeta.
    split; [exact A0|]. split; [lia|]. split; [exact A2|]. split; [rewrite Hsv by exact A1; exact A3|].
    split.
    - apply (wait_ok_ext P P' sv sv'); [|exact A4]. intros j Hin. split; [apply Hsv; apply (A5 j Hin) | apply Hsc].
    - split; [|exact A6]. intros j Hin. destruct (A5 j Hin) as (B1 & B2 & B3). repeat split; auto. lia.
  Qed.

  (* the running path of solver object s adds an assertion *)
  Lemma SI_add : forall P So sv sv' sc i c,
    SI P So sv sc -> i < List.length P ->
    nth (nth i (sc_solver_of sc) 0) (sc_current sc) 0 = i ->
    sv' i = (sv i ++ [c])%list -> (forall j, j <> i -> sv' j = sv j) ->
    SI P (upd So (nth i (sc_solver_of sc) 0) (s_add (nth (nth i (sc_solver_of sc) 0) So []) c)) sv' sc.
  Proof.
    intros P So sv sv' sc i c (H1 & H2 & H3 & H4 & H5) Hi Hcur Hsvi Hsvo.
    set (s := nth i (sc_solver_of sc) 0) in *.
    assert (Hs : s < List.length So).
    { destruct (nth_error P i) as [hp|] eqn:E; [|apply nth_error_None in E; lia].
      destruct (H2 i hp E) as [E1 E2]. unfold s. rewrite E1. exact E2. }
    split; [exact H1|]. split.
    { intros j hp E. rewrite upd_length. apply (H2 j hp E). }
    rewrite !upd_length. split; [exact H3|]. split; [exact H4|].
    intros s' Hs'. destruct (H5 s' Hs') as (A0 & A1 & A2 & A3 & A4 & A5 & A6). cbv zeta.
    destruct (Nat.eq_dec s' s) as [->|Hne].
    - rewrite nth_upd_same by exact Hs. rewrite Hcur in *.
      split; [destruct (nth s So []); discriminate|]. split; [exact A1|]. split; [exact A2|].
      split; [rewrite assertions_add, Hsvi, A3; reflexivity|].
      split; [|split; [exact A5 | exact A6]].
      apply wait_ok_add. apply (wait_ok_ext P P sv sv'); [|exact A4].
      intros j Hin. split; [apply Hsvo; apply (A5 j Hin) | reflexivity].
    - rewrite nth_upd_other by congruence.
      assert (Hci : nth s' (sc_current sc) 0 <> i).
      { intros E. rewrite E in A2. unfold s in Hne. congruence. }
      split; [exact A0|]. split; [exact A1|]. split; [exact A2|]. split; [rewrite Hsvo by exact Hci; exact A3|].
      split; [|split; [exact A5 | exact A6]].
      apply (wait_ok_ext P P sv sv'); [|exact A4].
      intros j Hin. split; [|reflexivity]. apply Hsvo. intros ->.
      destruct (A5 i Hin) as (_ & _ & B3). unfold s in Hne. congruence.
  Qed.

  (* Path.branch by the running path i: the fork waits above a new scope *)
  Lemma SI_push : forall P So sv sv' sc i hpn,
    SI P So sv sc -> i < List.length P ->
    nth (nth i (sc_solver_of sc) 0) (sc_current sc) 0 = i ->
    hp_solver hpn = nth i (sc_solver_of sc) 0 ->
    hp_scopes hpn = pred (List.length (nth (nth i (sc_solver_of sc) 0) So [])) ->
    sv' (List.length P) = sv i -> (forall j, j < List.length P -> sv' j = sv j) ->
    SI (P ++ [hpn]) (upd So (nth i (sc_solver_of sc) 0) ([] :: nth (nth i (sc_solver_of sc) 0) So [])) sv'
       (mkSched (sc_solver_of sc ++ [nth i (sc_solver_of sc) 0]) (sc_current sc)
                (upd (sc_waiting sc) (nth i (sc_solver_of sc) 0)
                     (List.length (sc_solver_of sc) :: nth (nth i (sc_solver_of sc) 0) (sc_waiting sc) []))).
  Proof.
    intros P So sv sv' sc i hpn (H1 & H2 & H3 & H4 & H5) Hi Hcur Hso Hsc Hsvn Hsvo.
    set (s := nth i (sc_solver_of sc) 0) in *.
    assert (Hs : s < List.length So).
    { destruct (nth_error P i) as [hp|] eqn:E; [|apply nth_error_None in E; lia].
      destruct (H2 i hp E) as [E1 E2]. unfold s. rewrite E1. exact E2. }
    assert (Hsof : forall j, j < List.length P -> nth j (sc_solver_of sc ++ [s]) 0 = nth j (sc_solver_of sc) 0).
    { intros j Hj. apply nth_app_old. lia. }
    unfold SI. cbn [sc_solver_of sc_current sc_waiting].
    split; [rewrite !app_length; simpl; lia|]. split.
    { intros j hp E. rewrite upd_length. destruct (lt_eq_lt_dec j (List.length P)) as [[Hj| ->]|Hj].
      - rewrite nth_error_app1 in E by exact Hj. rewrite Hsof by exact Hj. apply (H2 j hp E).
      - rewrite nth_error_app_last in E. inversion E; subst hp. rewrite <- H1. rewrite nth_app_last.
        split; [symmetry; exact Hso | rewrite Hso; exact Hs].
      - apply nth_error_lt in E. rewrite app_length in E. simpl in E. lia. }
    rewrite !upd_length. split; [exact H3|]. split; [exact H4|].
    intros s' Hs'. destruct (H5 s' Hs') as (A0 & A1 & A2 & A3 & A4 & A5 & A6). cbv zeta.
    rewrite app_length. simpl List.length.
    destruct (Nat.eq_dec s' s) as [->|Hne].
    - rewrite !nth_upd_same by lia. rewrite Hcur in *.
      split; [discriminate|]. split; [lia|]. split; [rewrite Hsof by exact Hi; reflexivity|].
      split; [rewrite assertions_push, Hsvo by exact Hi; exact A3|].
      split; [|split].
      + cbn [wait_ok]. rewrite H1.
        assert (Hd : scopes_of (P ++ [hpn]) (List.length P) = pred (List.length (nth s So []))).
        { unfold scopes_of. rewrite nth_error_app_last. exact Hsc. }
        rewrite Hd. cbn [List.length].
        assert (Hl : 1 <= List.length (nth s So [])) by (destruct (nth s So []); [congruence | simpl; lia]).
        replace (S (List.length (nth s So [])) - (pred (List.length (nth s So [])) + 1)) with 1 by lia.
        cbn [skipn]. split; [lia|]. split; [rewrite Hsvn; exact A3|].
        apply (wait_ok_ext P (P ++ [hpn]) sv sv'); [|exact A4].
        intros j Hin. destruct (A5 j Hin) as (B1 & _). split; [apply Hsvo; exact B1 | apply scopes_app_old; exact B1].
      + intros j [<-|Hin].
        * split; [lia|]. split; [lia|]. apply nth_app_last.
        * destruct (A5 j Hin) as (B1 & B2 & B3). split; [lia|]. split; [exact B2|]. rewrite Hsof by exact B1. exact B3.
      + constructor; [|exact A6]. intros Hin. destruct (A5 _ Hin) as (B1 & _). lia.
    - rewrite !nth_upd_other by congruence.
      split; [exact A0|]. split; [lia|]. split; [rewrite Hsof by exact A1; exact A2|].
      split; [rewrite Hsvo by exact A1; exact A3|]. split; [|split; [|exact A6]].
      + apply (wait_ok_ext P (P ++ [hpn]) sv sv'); [|exact A4].
        intros j Hin. destruct (A5 j Hin) as (B1 & _). split; [apply Hsvo; exact B1 | apply scopes_app_old; exact B1].
      + intros j Hin. destruct (A5 j Hin) as (B1 & B2 & B3). split; [lia|]. split; [exact B2|].
        rewrite Hsof by exact B1. exact B3.
  Qed.

  (* Path.activate of the most recent waiting fork j: the solver is popped to the saved scope *)
  Lemma SI_pop : forall P So sv sc j rest,
    SI P So sv sc -> j < List.length P ->
    nth (nth j (sc_solver_of sc) 0) (sc_waiting sc) [] = j :: rest ->
    let s := nth j (sc_solver_of sc) 0 in
    let st := nth s So [] in
    scopes_of P j <= pred (List.length st) /\
    SI P (upd So s (skipn (pred (List.length st) - scopes_of P j) st)) sv
       (mkSched (sc_solver_of sc) (upd (sc_current sc) s j) (upd (sc_waiting sc) s rest)).
  Proof.
    intros P So sv sc j rest (H1 & H2 & H3 & H4 & H5) Hj HW s st.
    assert (Hs : s < List.length So).
    { destruct (nth_error P j) as [hp|] eqn:E; [|apply nth_error_None in E; lia].
      destruct (H2 j hp E) as [E1 E2]. unfold s. rewrite E1. exact E2. }
    destruct (H5 s Hs) as (A0 & A1 & A2 & A3 & A4 & A5 & A6). cbv zeta in *.
    fold s in HW. rewrite HW in A4, A5, A6. cbn [wait_ok] in A4. fold st in A4.
    destruct A4 as (W1 & W2 & W3).
    replace (pred (List.length st) - scopes_of P j) with (List.length st - (scopes_of P j + 1)) by lia.
    split; [lia|].
    unfold SI. cbn [sc_solver_of sc_current sc_waiting].
    split; [exact H1|]. split.
    { intros k hp E. rewrite upd_length. apply (H2 k hp E). }
    rewrite !upd_length. split; [exact H3|]. split; [exact H4|].
    intros s' Hs'. cbv zeta. destruct (Nat.eq_dec s' s) as [->|Hne].
    - rewrite !nth_upd_same by lia.
      split.
      { intros E. apply (f_equal (@List.length _)) in E. rewrite skipn_length in E. simpl in E. lia. }
      split; [exact Hj|]. split; [reflexivity|]. split; [exact W2|]. split; [exact W3|].
      inversion A6 as [|x l Hnotin Hnd]; subst. split; [|exact Hnd].
      intros k Hin. destruct (A5 k (or_intror Hin)) as (B1 & B2 & B3). split; [exact B1|]. split; [|exact B3].
      intros ->. contradiction.
    - rewrite !nth_upd_other by congruence. apply (H5 s' Hs').
  Qed.

  (* a new Path object on a new solver object *)
  Lemma SI_new : forall P So sv sv' sc hpn x,
    SI P So sv sc -> hp_solver hpn = List.length So -> hp_scopes hpn = 0 ->
    sv' (List.length P) = x -> (forall j, j < List.length P -> sv' j = sv j) ->
    SI (P ++ [hpn]) (So ++ [[x]]) sv'
       (mkSched (sc_solver_of sc ++ [List.length (sc_current sc)]) (sc_current sc ++ [List.length (sc_solver_of sc)])
                (sc_waiting sc ++ [[]])).
  Proof.
    intros P So sv sv' sc hpn x (H1 & H2 & H3 & H4 & H5) Hso Hsc Hsvn Hsvo.
    assert (Hsof : forall j, j < List.length P -> nth j (sc_solver_of sc ++ [List.length (sc_current sc)]) 0 = nth j (sc_solver_of sc) 0).
    { intros j Hj. apply nth_app_old. lia. }
    unfold SI. cbn [sc_solver_of sc_current sc_waiting].
    split; [rewrite !app_length; simpl; lia|]. split.
    { intros j hp E. rewrite app_length. simpl. destruct (lt_eq_lt_dec j (List.length P)) as [[Hj| ->]|Hj].
      - rewrite nth_error_app1 in E by exact Hj. rewrite Hsof by exact Hj. destruct (H2 j hp E). split; [assumption | lia].
      - rewrite nth_error_app_last in E. inversion E; subst hp. rewrite <- H1. rewrite nth_app_last.
        split; [lia | lia].
      - apply nth_error_lt in E. rewrite app_length in E. simpl in E. lia. }
    rewrite !app_length. simpl List.length. split; [lia|]. split; [lia|].
    intros s' Hs'. cbv zeta. destruct (lt_eq_lt_dec s' (List.length So)) as [[Hlt| ->]|Hgt]; [| |lia].
    - destruct (H5 s' Hlt) as (A0 & A1 & A2 & A3 & A4 & A5 & A6). cbv zeta in *.
      rewrite (nth_app_old So), (nth_app_old (sc_current sc)), (nth_app_old (sc_waiting sc)) by lia.
      split; [exact A0|]. split; [lia|]. split; [rewrite Hsof by exact A1; exact A2|].
      split; [rewrite Hsvo by exact A1; exact A3|]. split; [|split; [|exact A6]].
      + apply (wait_ok_ext P (P ++ [hpn]) sv sv'); [|exact A4].
        intros j Hin. destruct (A5 j Hin) as (B1 & _). split; [apply Hsvo; exact B1 | apply scopes_app_old; exact B1].
      + intros j Hin. destruct (A5 j Hin) as (B1 & B2 & B3). split; [lia|]. split; [exact B2|].
        rewrite Hsof by exact B1. exact B3.
    - assert (E1 : nth (List.length So) (So ++ [[x]]) [] = [x]) by apply nth_app_last.
      assert (E2 : nth (List.length So) (sc_current sc ++ [List.length (sc_solver_of sc)]) 0 = List.length (sc_solver_of sc))
        by (rewrite <- H3; apply nth_app_last).
      assert (E3 : nth (List.length So) (sc_waiting sc ++ [[]]) [] = []) by (rewrite <- H4; apply nth_app_last).
      assert (E4 : nth (List.length (sc_solver_of sc)) (sc_solver_of sc ++ [List.length (sc_current sc)]) 0 = List.length (sc_current sc))
        by apply nth_app_last.
      rewrite E1, E2, E3, E4.
      split; [discriminate|]. split; [lia|]. split; [exact H3|].
      split; [unfold PathHeapModel.s_assertions; simpl; rewrite app_nil_r; rewrite H1; symmetry; exact Hsvn|].
      split; [exact I|]. split; [intros j []|constructor].
  Qed.
End SolverInv.
