(* C05 -- proofs about Model/VerdictModel.v over the regenerated Gen/GenVerdict.v and
   Gen/GenSolveDispatch.v. *)
From Coq Require Import ZArith List Bool String Ascii Lia ZifyBool Permutation.
From HV Require Import Spec.VerdictSpec Gen.GenVerdict Gen.GenSolveDispatch Model.VerdictModel.
Import ListNotations.
Local Open Scope nat_scope.

(* ------------------------------------------------------------------ counting *)

Lemma cnt_app : forall A (f : A -> bool) l1 l2, cnt f (l1 ++ l2) = cnt f l1 + cnt f l2.
Proof. induction l1; intros; cbn [cnt app]; [reflexivity | rewrite IHl1; lia]. Qed.

Lemma cnt_ext : forall A (f g : A -> bool) l, (forall x, f x = g x) -> cnt f l = cnt g l.
Proof. induction l; intros H; cbn [cnt]; [reflexivity | rewrite H, IHl by assumption; reflexivity]. Qed.

Lemma cnt_perm : forall A (f : A -> bool) l1 l2, Permutation l1 l2 -> cnt f l1 = cnt f l2.
Proof. induction 1; cbn [cnt]; lia. Qed.

Lemma cnt_pos : forall A (f : A -> bool) l, existsb f l = true <-> 0 < cnt f l.
Proof.
  induction l; cbn [cnt existsb]; [split; [discriminate | lia] |].
  destruct (f a); cbn [orb]; [split; [lia | reflexivity] |].
  rewrite IHl. lia.
Qed.

Lemma cnt_zero : forall A (f : A -> bool) l, existsb f l = false <-> cnt f l = 0.
Proof.
  intros. destruct (existsb f l) eqn:E.
  - apply cnt_pos in E. split; [discriminate | lia].
  - split; [intros _ | reflexivity]. destruct (cnt f l) eqn:C; [reflexivity |].
    assert (H : 0 < cnt f l) by lia. apply cnt_pos in H. congruence.
Qed.

Lemma cnt_map_filter : forall (f : answer -> bool) (g : path -> bool) ps,
  cnt f (map ans (filter g ps)) = cnt (fun p => g p && f (ans p)) ps.
Proof.
  induction ps; cbn [filter map cnt]; [reflexivity |].
  destruct (g a); cbn [map cnt andb]; rewrite IHps; reflexivity.
Qed.

(* ------------------------------------------------------------------ classification of a path *)

Lemma action_submit : forall p,
  (match kind_action (kind p) with ASubmit => true | _ => false end) = potential p.
Proof. intros [k a]; destruct k; reflexivity. Qed.

Lemma action_stuck : forall p,
  (match kind_action (kind p) with AStuckSolve => stuck_counted (is_unsat (ans p)) | _ => false end) = confirmed_stuck p.
Proof. intros [k a]; destruct k; reflexivity. Qed.

Lemma action_normal : forall p,
  (match kind_action (kind p) with ACountNormal => true | _ => false end) = succeeded p.
Proof. intros [k a]; destruct k; reflexivity. Qed.

Definition pot_cnt (f : answer -> bool) (ps : list path) : nat :=
  cnt (fun p => potential p && f (ans p)) ps.

Lemma submitted_cnt : forall f ps, cnt f (submitted ps) = pot_cnt f ps.
Proof.
  intros. unfold submitted, pot_cnt. rewrite cnt_map_filter. apply cnt_ext.
  intros p. rewrite action_submit. reflexivity.
Qed.

Lemma stuck_count_eq : forall ps, stuck_count ps = cnt confirmed_stuck ps.
Proof. intros. apply cnt_ext, action_stuck. Qed.

Lemma normal_count_eq : forall ps, normal_count ps = cnt succeeded ps.
Proof. intros. apply cnt_ext, action_normal. Qed.

Lemma key_sat : forall a, String.eqb (key_of a) "sat" = is_sat a.
Proof. destruct a; reflexivity. Qed.
Lemma key_unsat : forall a, String.eqb (key_of a) "unsat" = is_unsat a.
Proof. destruct a; reflexivity. Qed.
Lemma key_unknown : forall a, String.eqb (key_of a) "unknown" = is_unknown a.
Proof. destruct a; reflexivity. Qed.
Lemma key_err : forall a, String.eqb (key_of a) "err" = is_err a.
Proof. destruct a; reflexivity. Qed.

(* verdict_of only depends on the four class counts of the outputs *)
Lemma verdict_of_counts : forall outs outs' ns nn,
  (forall f, cnt f outs = cnt f outs') -> verdict_of outs ns nn = verdict_of outs' ns nn.
Proof. intros. unfold verdict_of, counter. rewrite !H. reflexivity. Qed.

(* ------------------------------------------------------------------ the chain *)

(* case analysis on every guard of the generated chain, whatever comparison it is written with *)
Ltac split_ifs :=
  repeat match goal with
         | |- context [if ?b then _ else _] => let E := fresh "E" in destruct b eqn:E
         end.

Lemma chain_cases : forall ns nu nk ne nst nn : Z,
  (0 <= ns -> 0 <= ne -> 0 <= nk -> 0 <= nst -> 0 <= nn ->
   let v := verdict_chain ns nu nk ne nst nn in
   (0 < ns -> v = (LFail, EX_COUNTEREXAMPLE)) /\
   (ns = 0 -> 0 < ne -> v = (LError, EX_EXCEPTION)) /\
   (ns = 0 -> ne = 0 -> 0 < nk -> v = (LTimeout, EX_TIMEOUT)) /\
   (ns = 0 -> ne = 0 -> nk = 0 -> 0 < nst -> v = (LError, EX_STUCK)) /\
   (ns = 0 -> ne = 0 -> nk = 0 -> nst = 0 -> nn = 0 -> v = (LError, EX_REVERT_ALL)) /\
   (ns = 0 -> ne = 0 -> nk = 0 -> nst = 0 -> 0 < nn -> v = (LPass, EX_PASS)))%Z.
Proof.
  intros ns nu nk ne nst nn Hs He Hk Hst Hn. cbv zeta. unfold verdict_chain.
  repeat split; intros; split_ifs; try reflexivity; exfalso; lia.
Qed.

Lemma chain_sat : forall ns nu nk ne nst nn : Z,
  (0 <= ns -> 0 <= ne -> 0 <= nk -> 0 <= nst -> 0 <= nn -> 0 < ns ->
   verdict_chain ns nu nk ne nst nn = (LFail, EX_COUNTEREXAMPLE))%Z.
Proof.
  intros ns nu nk ne nst nn Hs He Hk Hst Hn H.
  exact (proj1 (chain_cases ns nu nk ne nst nn Hs He Hk Hst Hn) H).
Qed.

(* label and numeric code agree on what "passed" means, for every input of the chain *)
Lemma chain_label_code : forall ns nu nk ne nst nn,
  fst (verdict_chain ns nu nk ne nst nn) = LPass <-> snd (verdict_chain ns nu nk ne nst nn) = EX_PASS.
Proof.
  intros. unfold verdict_chain. split_ifs; cbn [fst snd]; split; intros X; try discriminate X; reflexivity.
Qed.

Lemma chain_code_passed : forall ns nu nk ne nst nn,
  test_passed (snd (verdict_chain ns nu nk ne nst nn)) = label_eqb (fst (verdict_chain ns nu nk ne nst nn)) LPass.
Proof.
  intros. unfold verdict_chain. split_ifs; reflexivity.
Qed.

(* ------------------------------------------------------------------ model verdict vs specification *)

Section Counts.
  Variable ps : list path.
  Let cs := pot_cnt is_sat ps.
  Let ce := pot_cnt is_err ps.
  Let ck := pot_cnt is_unknown ps.
  Let cst := cnt confirmed_stuck ps.
  Let cn := cnt succeeded ps.

  Lemma model_verdict_counts :
    model_verdict ps =
    verdict_chain (Z.of_nat cs) (Z.of_nat (pot_cnt is_unsat ps)) (Z.of_nat ck) (Z.of_nat ce) (Z.of_nat cst) (Z.of_nat cn).
  Proof.
    unfold model_verdict, verdict_of, counter.
    rewrite (cnt_ext _ _ is_sat (submitted ps) key_sat), (cnt_ext _ _ is_unsat (submitted ps) key_unsat),
            (cnt_ext _ _ is_unknown (submitted ps) key_unknown), (cnt_ext _ _ is_err (submitted ps) key_err).
    rewrite !submitted_cnt, stuck_count_eq, normal_count_eq. reflexivity.
  Qed.

  Lemma spec_verdict_counts :
    spec_verdict ps =
    if (0 <? cs)%nat then LFail else if (0 <? ce)%nat then LError else if (0 <? ck)%nat then LTimeout
    else if (0 <? cst)%nat then LError else if (cn =? 0)%nat then LError else LPass.
  Proof.
    unfold spec_verdict.
    assert (X : forall (f : path -> bool), existsb f ps = (0 <? cnt f ps)%nat).
    { intros f. destruct (existsb f ps) eqn:E.
      - apply cnt_pos in E. symmetry. apply Nat.ltb_lt. exact E.
      - apply cnt_zero in E. rewrite E. reflexivity. }
    rewrite !X. fold (pot_cnt is_sat ps) (pot_cnt is_err ps) (pot_cnt is_unknown ps).
    fold cs ce ck cst cn.
    destruct (0 <? cn)%nat eqn:En.
    - apply Nat.ltb_lt in En. assert (H : (cn =? 0)%nat = false) by (apply Nat.eqb_neq; lia). rewrite H. reflexivity.
    - apply Nat.ltb_ge in En. assert (H : (cn =? 0)%nat = true) by (apply Nat.eqb_eq; lia). rewrite H. reflexivity.
  Qed.

  Lemma model_verdict_label : fst (model_verdict ps) = spec_verdict ps.
  Proof.
    rewrite model_verdict_counts, spec_verdict_counts.
    pose proof (chain_cases (Z.of_nat cs) (Z.of_nat (pot_cnt is_unsat ps)) (Z.of_nat ck) (Z.of_nat ce) (Z.of_nat cst) (Z.of_nat cn)
                  ltac:(lia) ltac:(lia) ltac:(lia) ltac:(lia) ltac:(lia)) as H.
    cbv zeta in H. destruct H as (H1 & H2 & H3 & H4 & H5 & H6).
    destruct (0 <? cs)%nat eqn:E1; [apply Nat.ltb_lt in E1; rewrite H1 by lia; reflexivity | apply Nat.ltb_ge in E1].
    destruct (0 <? ce)%nat eqn:E2; [apply Nat.ltb_lt in E2; rewrite H2 by lia; reflexivity | apply Nat.ltb_ge in E2].
    destruct (0 <? ck)%nat eqn:E3; [apply Nat.ltb_lt in E3; rewrite H3 by lia; reflexivity | apply Nat.ltb_ge in E3].
    destruct (0 <? cst)%nat eqn:E4; [apply Nat.ltb_lt in E4; rewrite H4 by lia; reflexivity | apply Nat.ltb_ge in E4].
    destruct (cn =? 0)%nat eqn:E5; [apply Nat.eqb_eq in E5; rewrite H5 by lia; reflexivity | apply Nat.eqb_neq in E5].
    rewrite H6 by lia. reflexivity.
  Qed.
End Counts.

Lemma model_verdict_perm : forall ps ps', Permutation ps ps' -> model_verdict ps = model_verdict ps'.
Proof.
  intros ps ps' H. rewrite !model_verdict_counts. unfold pot_cnt.
  rewrite !(cnt_perm _ _ _ _ H). reflexivity.
Qed.

Lemma verdict_of_perm : forall outs outs' ns nn, Permutation outs outs' -> verdict_of outs ns nn = verdict_of outs' ns nn.
Proof. intros. apply verdict_of_counts. intros f. apply cnt_perm. assumption. Qed.

Lemma model_verdict_code : forall ps,
  snd (model_verdict ps) = EX_PASS <-> spec_verdict ps = LPass.
Proof.
  intros. rewrite <- model_verdict_label. unfold model_verdict, verdict_of. symmetry. apply chain_label_code.
Qed.

(* PASS in words *)
Lemma spec_pass_iff : forall ps,
  spec_verdict ps = LPass <->
  (forall p, In p ps -> potential p = true -> ans p = Unsat) /\
  (forall p, In p ps -> kind p = Stuck -> ans p = Unsat) /\
  (exists p, In p ps /\ kind p = Success).
Proof.
  intros ps. unfold spec_verdict.
  destruct (existsb (fun p => potential p && is_sat (ans p)) ps) eqn:E1.
  { split; [discriminate |]. intros (H & _ & _). apply existsb_exists in E1. destruct E1 as (p & Hin & Hp).
    apply andb_prop in Hp. destruct Hp as [Hp Hs]. rewrite (H p Hin Hp) in Hs. discriminate. }
  destruct (existsb (fun p => potential p && is_err (ans p)) ps) eqn:E2.
  { split; [discriminate |]. intros (H & _ & _). apply existsb_exists in E2. destruct E2 as (p & Hin & Hp).
    apply andb_prop in Hp. destruct Hp as [Hp Hs]. rewrite (H p Hin Hp) in Hs. discriminate. }
  destruct (existsb (fun p => potential p && is_unknown (ans p)) ps) eqn:E3.
  { split; [discriminate |]. intros (H & _ & _). apply existsb_exists in E3. destruct E3 as (p & Hin & Hp).
    apply andb_prop in Hp. destruct Hp as [Hp Hs]. rewrite (H p Hin Hp) in Hs. discriminate. }
  destruct (existsb confirmed_stuck ps) eqn:E4.
  { split; [discriminate |]. intros (_ & H & _). apply existsb_exists in E4. destruct E4 as (p & Hin & Hp).
    unfold confirmed_stuck in Hp. destruct (kind p) eqn:K; try discriminate. rewrite (H p Hin K) in Hp. discriminate. }
  destruct (existsb succeeded ps) eqn:E5; cbn [negb].
  - split; [intros _ | reflexivity]. repeat split.
    + intros p Hin Hp. destruct (ans p) eqn:A; try reflexivity; exfalso.
      * assert (X : existsb (fun p => potential p && is_sat (ans p)) ps = true)
          by (apply existsb_exists; exists p; rewrite Hp, A; auto). congruence.
      * assert (X : existsb (fun p => potential p && is_unknown (ans p)) ps = true)
          by (apply existsb_exists; exists p; rewrite Hp, A; auto). congruence.
      * assert (X : existsb (fun p => potential p && is_err (ans p)) ps = true)
          by (apply existsb_exists; exists p; rewrite Hp, A; auto). congruence.
    + intros p Hin K. destruct (is_unsat (ans p)) eqn:A; [destruct (ans p); try discriminate; reflexivity |].
      exfalso. assert (X : existsb confirmed_stuck ps = true)
        by (apply existsb_exists; exists p; unfold confirmed_stuck; rewrite K, A; auto). congruence.
    + apply existsb_exists in E5. destruct E5 as (p & Hin & Hp). exists p. split; [assumption |].
      unfold succeeded in Hp. destruct (kind p); try discriminate. reflexivity.
  - split; [discriminate |]. intros (_ & _ & (p & Hin & K)).
    assert (X : existsb succeeded ps = true) by (apply existsb_exists; exists p; unfold succeeded; rewrite K; auto).
    congruence.
Qed.

(* ------------------------------------------------------------------ schedules *)

Definition pend_cnt (f : answer -> bool) (pd : list (nat * answer)) : nat := cnt (fun x => f (snd x)) pd.

Lemma take_spec : forall j l a r, take j l = Some (a, r) ->
  In (j, a) l /\ (forall x, In x r -> In x l) /\ (forall f, pend_cnt f l = (if f a then 1 else 0) + pend_cnt f r).
Proof.
  induction l as [| [i b] l IH]; intros a r H; cbn [take] in H; [discriminate |].
  destruct (Nat.eqb i j) eqn:E.
  - inversion H; subst. apply Nat.eqb_eq in E. subst. repeat split.
    + left; reflexivity.
    + intros x Hx; right; assumption.
  - destruct (take j l) as [[b' r'] |] eqn:T; [| discriminate]. inversion H; subst.
    destruct (IH _ _ eq_refl) as (H1 & H2 & H3). repeat split.
    + right; assumption.
    + intros x [Hx | Hx]; [left; assumption | right; apply H2; assumption].
    + intros f. unfold pend_cnt in *. cbn [cnt snd]. rewrite H3. lia.
Qed.

(* rz: whether EvMainRaise events may occur in the schedule *)
Record inv (ee rz : bool) (ps : list path) (s : st) : Prop := mkinv {
  inv_sub : forall p, In p (todo s) -> In p ps;
  inv_pend : forall j a, In (j, a) (pending s) -> exists p, In p ps /\ potential p = true /\ ans p = a;
  inv_outs_sat : forall v, In (Sat v) (outs s) -> exists p, In p ps /\ potential p = true /\ ans p = Sat v;
  inv_flag : flag s = true -> ee = true /\ In (Sat true) (outs s);
  inv_count : flag s = false ->
      (forall f, cnt f (outs s) + pend_cnt f (pending s) + pot_cnt f (todo s) = pot_cnt f ps)
      /\ nstuck s + cnt confirmed_stuck (todo s) = cnt confirmed_stuck ps
      /\ normal s + cnt succeeded (todo s) = cnt succeeded ps;
  inv_done : mst s = MDone -> flag s = false -> todo s = [];
  inv_crash : mst s = MCrashed ->
      (flag s = true /\ exists p, In p ps /\ kind p = Stuck) \/
      (rz = true /\ exists p, In p ps /\ kind p = Stuck /\ ans p = Err)
}.

Lemma inv_init : forall ee rz ps, inv ee rz ps (init ps).
Proof.
  intros. constructor; cbn; try discriminate; try tauto; try (intros; contradiction).
  all: try (intros _; repeat split; try lia; intros f; unfold pend_cnt; cbn; lia).
Qed.

Lemma inv_set_mst : forall ee rz ps s m, inv ee rz ps s ->
  (m = MDone -> flag s = false -> todo s = []) ->
  (m = MCrashed -> (flag s = true /\ exists p, In p ps /\ kind p = Stuck) \/
                   (rz = true /\ exists p, In p ps /\ kind p = Stuck /\ ans p = Err)) ->
  inv ee rz ps (set_mst s m).
Proof. intros ee rz ps s m [] Hd Hc. constructor; cbn; assumption. Qed.

Lemma inv_step_main : forall ee rz ps s, inv ee rz ps s -> inv ee rz ps (step_main s).
Proof.
  intros ee rz ps s I. unfold step_main.
  destruct (mst s) eqn:M; [| | assumption | assumption].
  - (* MCheck *)
    destruct (todo s) eqn:T.
    + apply inv_set_mst; [assumption | intros; assumption | discriminate].
    + destruct (flag s) eqn:F.
      * apply inv_set_mst; [assumption | intros _ X; congruence | discriminate].
      * apply inv_set_mst; [assumption | discriminate | discriminate].
  - (* MBody *)
    destruct (todo s) as [| p rest] eqn:T.
    + apply inv_set_mst; [assumption | intros; assumption | discriminate].
    + destruct I as [Isub Ipend Iouts Iflag Icount Idone Icrash].
      assert (Hp : In p ps) by (apply Isub; rewrite T; left; reflexivity).
      assert (Hrest : forall q, In q rest -> In q ps) by (intros q Hq; apply Isub; rewrite T; right; assumption).
      destruct p as [k a]. destruct k; cbn [kind_action classify kind ans orb negb].
      * (* Success *)
        constructor; cbn; try assumption; try discriminate.
        intros F. destruct (Icount F) as (C1 & C2 & C3). rewrite T in *. unfold pot_cnt, pend_cnt in *.
        cbn [cnt potential succeeded confirmed_stuck kind ans andb] in *. repeat split; [intros f; specialize (C1 f) | |]; lia.
      * (* Revert *)
        constructor; cbn; try assumption; try discriminate.
        intros F. destruct (Icount F) as (C1 & C2 & C3). rewrite T in *. unfold pot_cnt, pend_cnt in *.
        cbn [cnt potential succeeded confirmed_stuck kind ans andb] in *. repeat split; [intros f; specialize (C1 f) | |]; lia.
      * (* Panic *)
        constructor; cbn; try assumption; try discriminate.
        -- intros j b Hin. apply in_app_or in Hin. destruct Hin as [Hin | [Hin | []]]; [eapply Ipend; eassumption |].
           inversion Hin; subst. exists (mkpath Panic b). auto.
        -- intros F. destruct (Icount F) as (C1 & C2 & C3). rewrite T in *. unfold pot_cnt, pend_cnt in *.
           cbn [cnt potential succeeded confirmed_stuck kind ans andb] in *.
           repeat split; [intros f; specialize (C1 f); rewrite cnt_app; cbn [cnt snd] | |]; lia.
      * (* FailFlag *)
        constructor; cbn; try assumption; try discriminate.
        -- intros j b Hin. apply in_app_or in Hin. destruct Hin as [Hin | [Hin | []]]; [eapply Ipend; eassumption |].
           inversion Hin; subst. exists (mkpath FailFlag b). auto.
        -- intros F. destruct (Icount F) as (C1 & C2 & C3). rewrite T in *. unfold pot_cnt, pend_cnt in *.
           cbn [cnt potential succeeded confirmed_stuck kind ans andb] in *.
           repeat split; [intros f; specialize (C1 f); rewrite cnt_app; cbn [cnt snd] | |]; lia.
      * (* Stuck *)
        case_eq (flag s); intros F.
        -- destruct stuck_shutdown_escapes.
           ++ apply inv_set_mst; [constructor; assumption | discriminate |].
              intros _. left. split; [assumption |]. exists (mkpath Stuck a). auto.
           ++ apply inv_set_mst; [constructor; assumption | intros _ X; congruence | discriminate].
        -- unfold stuck_solved. constructor; cbn; try assumption; try discriminate.
           intros _. destruct (Icount F) as (C1 & C2 & C3). rewrite T in *. unfold pot_cnt, pend_cnt, stuck_counted in *.
           cbn [cnt potential succeeded confirmed_stuck kind ans andb] in *.
           repeat split; [intros f; specialize (C1 f); lia | | lia].
           destruct (is_unsat a); cbn [negb] in *; lia.
Qed.

Lemma get_output_live : forall a, get_solver_output false (Some a) = a.
Proof. reflexivity. Qed.
Lemma get_output_shutdown : forall r, get_solver_output true r = Err.
Proof. reflexivity. Qed.

Lemma inv_step_cb : forall ee rz ps j s, inv ee rz ps s -> inv ee rz ps (step_cb ee j s).
Proof.
  intros ee rz ps j s I. unfold step_cb.
  destruct (take j (pending s)) as [[a rest] |] eqn:T; [| assumption].
  destruct (take_spec _ _ _ _ T) as (Hin & Hsub & Hcnt).
  destruct I as [Isub Ipend Iouts Iflag Icount Idone Icrash].
  destruct (flag s) eqn:F.
  - (* after shutdown: the result is read as err *)
    rewrite get_output_shutdown. cbn [orb].
    constructor; cbn; try assumption; try discriminate.
    + intros i b Hb. eapply Ipend. apply Hsub. eassumption.
    + intros v Hv. apply in_app_or in Hv. destruct Hv as [Hv | [Hv | []]]; [auto | discriminate].
    + intros _. destruct (Iflag eq_refl). split; [assumption | apply in_or_app; left; assumption].
  - rewrite get_output_live. cbn [orb].
    constructor; cbn; try assumption.
    + intros i b Hb. eapply Ipend. apply Hsub. eassumption.
    + intros v Hv. apply in_app_or in Hv. destruct Hv as [Hv | [Hv | []]]; [auto |]. subst a. eapply Ipend. eassumption.
    + intros H. apply andb_prop in H. destruct H as [He Hs]. split; [assumption |].
      apply in_or_app. right. left. destruct a as [[|] | | |]; try discriminate. reflexivity.
    + intros H. destruct (Icount eq_refl) as (C1 & C2 & C3). repeat split; try assumption.
      intros f. specialize (C1 f). rewrite cnt_app. cbn [cnt]. rewrite Hcnt in C1.
      unfold pend_cnt, pot_cnt in *. destruct (f a); lia.
    + intros M H. apply Idone; [assumption | reflexivity].
    + intros M. destruct (Icrash M) as [[X _] | X]; [discriminate | right; assumption].
Qed.

(* with the `except Exception` handler a raising stuck-path solve is an ordinary main-loop step:
   the from_error output is not `unsat`, exactly like the `err` result it stands for *)
Lemma step_main_raise_eq : stuck_exception_escapes = false -> forall s, step_main_raise s = step_main s.
Proof.
  intros NE s. unfold step_main_raise.
  destruct (mst s) eqn:M; try reflexivity.
  destruct (todo s) as [| p rest] eqn:T; try reflexivity.
  destruct (kind_action (kind p)) eqn:A; try reflexivity.
  destruct (flag s) eqn:F; [reflexivity |].
  destruct (is_err (ans p)) eqn:E; [| reflexivity].
  rewrite NE. unfold step_main. rewrite M, T, A, F.
  destruct (ans p); try discriminate E. reflexivity.
Qed.

Lemma inv_step_main_raise : forall ee ps s, inv ee true ps s -> inv ee true ps (step_main_raise s).
Proof.
  intros ee ps s I.
  destruct stuck_exception_escapes eqn:NE; [| rewrite (step_main_raise_eq NE); apply inv_step_main; assumption].
  unfold step_main_raise. rewrite NE.
  destruct (mst s) eqn:M; try (apply inv_step_main; assumption).
  destruct (todo s) as [| p rest] eqn:T; [apply inv_step_main; assumption |].
  destruct (kind_action (kind p)) eqn:A; try (apply inv_step_main; assumption).
  destruct (flag s) eqn:F; [apply inv_step_main; assumption |].
  destruct (is_err (ans p)) eqn:E; [| apply inv_step_main; assumption].
  apply inv_set_mst; [assumption | discriminate |].
  intros _. right. split; [reflexivity |]. exists p.
  split; [apply (inv_sub _ _ _ _ I); rewrite T; left; reflexivity |].
  destruct p as [k a]. cbn [kind ans] in *. split.
  - destruct k; cbn in A; try discriminate A; reflexivity.
  - destruct a; try discriminate E; reflexivity.
Qed.

Lemma inv_run : forall ee rz ps sched,
  (rz = false -> ~ In EvMainRaise sched) -> inv ee rz ps (run ee ps sched).
Proof.
  intros ee rz ps sched. unfold run.
  assert (G : forall s, (rz = false -> ~ In EvMainRaise sched) -> inv ee rz ps s -> inv ee rz ps (fold_left (step ee) sched s)).
  { induction sched as [| e sched IH]; intros s N I; cbn [fold_left]; [assumption |].
    apply IH; [intros Z X; apply (N Z); right; assumption |].
    destruct e; cbn [step]; [apply inv_step_main | | apply inv_step_cb]; try assumption.
    destruct rz; [apply inv_step_main_raise; assumption |].
    exfalso. apply (N eq_refl). left. reflexivity. }
  intros N. apply G; [assumption | apply inv_init].
Qed.

Lemma sat_out_fail : forall outs ns nn v, In (Sat v) outs -> verdict_of outs ns nn = (LFail, EX_COUNTEREXAMPLE).
Proof.
  intros outs ns nn v H. unfold verdict_of.
  assert (P : 0 < cnt (fun a => String.eqb (key_of a) "sat") outs).
  { apply cnt_pos. apply existsb_exists. exists (Sat v). split; [assumption | reflexivity]. }
  unfold counter. apply chain_sat; lia.
Qed.

Lemma spec_fail_of_sat : forall ps p v, In p ps -> potential p = true -> ans p = Sat v -> spec_verdict ps = LFail.
Proof.
  intros ps p v Hin Hp Ha. unfold spec_verdict.
  assert (X : existsb (fun p => potential p && is_sat (ans p)) ps = true)
    by (apply existsb_exists; exists p; rewrite Hp, Ha; auto).
  rewrite X. reflexivity.
Qed.

(* main result about schedules *)
Lemma schedule_sound_gen : forall ee rz ps sched r,
  (rz = false -> ~ In EvMainRaise sched) ->
  result (run ee ps sched) = Some r ->
  r = model_verdict ps \/
  (ee = true /\ spec_verdict ps = LFail /\ r = (raised_label, raised_exitcode) /\ exists p, In p ps /\ kind p = Stuck) \/
  (rz = true /\ r = (raised_label, raised_exitcode) /\ exists p, In p ps /\ kind p = Stuck /\ ans p = Err).
Proof.
  intros ee rz ps sched r N H. pose proof (inv_run ee rz ps sched N) as I. set (s := run ee ps sched) in *.
  destruct I as [Isub Ipend Iouts Iflag Icount Idone Icrash]. unfold result in H.
  destruct (mst s) eqn:M; try discriminate.
  - (* MDone *)
    destruct (pending s) eqn:P; [| discriminate]. inversion H; subst r. left.
    destruct (flag s) eqn:F.
    + destruct (Iflag eq_refl) as [_ Hs]. rewrite (sat_out_fail _ _ _ _ Hs).
      destruct (Iouts _ Hs) as (p & Hin & Hp & Ha).
      rewrite model_verdict_counts.
      set (cs := pot_cnt is_sat ps) in *.
      assert (0 < cs).
      { unfold cs, pot_cnt. apply cnt_pos. apply existsb_exists. exists p. rewrite Hp, Ha. auto. }
      symmetry. apply chain_sat; lia.
    + destruct (Icount eq_refl) as (C1 & C2 & C3). pose proof (Idone eq_refl eq_refl) as TD.
      rewrite TD in C2, C3. setoid_rewrite TD in C1.
      unfold model_verdict. rewrite stuck_count_eq, normal_count_eq.
      cbn [cnt] in C2, C3. rewrite Nat.add_0_r in C2, C3. rewrite <- C2, <- C3.
      apply verdict_of_counts. intros f. rewrite submitted_cnt. specialize (C1 f).
      unfold pend_cnt in C1. unfold pot_cnt in C1 at 1. cbn [cnt] in C1. lia.
  - (* MCrashed *)
    inversion H; subst r. right. destruct (Icrash eq_refl) as [(F & Hst) | (Z & Hst)].
    + left. destruct (Iflag F) as [He Hs]. destruct (Iouts _ Hs) as (p & Hin & Hp & Ha).
      repeat split; try assumption. eapply spec_fail_of_sat; eassumption.
    + right. repeat split; assumption.
Qed.

(* schedules in which no synchronous solve raises on its own *)
Lemma schedule_sound : forall ee ps sched r,
  ~ In EvMainRaise sched ->
  result (run ee ps sched) = Some r ->
  r = model_verdict ps \/
  (ee = true /\ spec_verdict ps = LFail /\ r = (raised_label, raised_exitcode) /\ exists p, In p ps /\ kind p = Stuck).
Proof.
  intros ee ps sched r N H.
  destruct (schedule_sound_gen ee false ps sched r (fun _ => N) H) as [X | [X | (X & _)]]; [left | right | discriminate X]; assumption.
Qed.

Lemma schedule_sound_any : forall ee ps sched r,
  result (run ee ps sched) = Some r ->
  r = model_verdict ps \/
  (ee = true /\ spec_verdict ps = LFail /\ r = (raised_label, raised_exitcode) /\ exists p, In p ps /\ kind p = Stuck) \/
  (r = (raised_label, raised_exitcode) /\ exists p, In p ps /\ kind p = Stuck /\ ans p = Err).
Proof.
  intros ee ps sched r H.
  destruct (schedule_sound_gen ee true ps sched r (fun X => False_ind _ (Bool.diff_true_false X)) H) as [X | [X | (_ & X)]]; auto.
Qed.

(* ------------------------------------------------------------------ first line dispatch *)

Lemma first_line_app : forall l rest,
  (forall c, In c (list_ascii_of_string l) -> c <> "010"%char) ->
  first_line (l ++ String "010"%char rest) = l.
Proof.
  induction l; intros rest H; cbn [append first_line].
  - rewrite Ascii.eqb_refl. reflexivity.
  - destruct (Ascii.eqb a "010"%char) eqn:E.
    + apply Ascii.eqb_eq in E. exfalso. apply (H a); [left; reflexivity | assumption].
    + f_equal. apply IHl. intros c Hc. apply H. right. assumption.
Qed.

Lemma first_line_id : forall l,
  (forall c, In c (list_ascii_of_string l) -> c <> "010"%char) -> first_line l = l.
Proof.
  induction l; intros H; cbn [first_line]; [reflexivity |].
  destruct (Ascii.eqb a "010"%char) eqn:E.
  - apply Ascii.eqb_eq in E. exfalso. apply (H a); [left; reflexivity | assumption].
  - f_equal. apply IHl. intros c Hc. apply H. right. assumption.
Qed.

(* s has exactly `l` as its first line *)
Definition has_first_line (s l : string) : Prop :=
  s = l \/ exists rest, s = (l ++ String "010"%char rest)%string.

Lemma first_line_decomp : forall s, has_first_line s (first_line s).
Proof.
  induction s; cbn [first_line]; [left; reflexivity |].
  destruct (Ascii.eqb a "010"%char) eqn:E.
  - apply Ascii.eqb_eq in E. subst. right. exists s. reflexivity.
  - destruct IHs as [H | [rest H]].
    + left. f_equal. assumption.
    + right. exists rest. cbn [append]. f_equal. assumption.
Qed.

Lemma has_first_line_unique : forall s l,
  (forall c, In c (list_ascii_of_string l) -> c <> "010"%char) ->
  has_first_line s l -> first_line s = l.
Proof.
  intros s l Hl [H | [rest H]]; subst.
  - apply first_line_id; assumption.
  - apply first_line_app; assumption.
Qed.

Definition no_nl (l : string) : Prop := forall c, In c (list_ascii_of_string l) -> c <> "010"%char.

Lemma hfl_iff : forall s l, no_nl l -> (has_first_line s l <-> first_line s = l).
Proof.
  intros s l Hl. split.
  - apply has_first_line_unique. exact Hl.
  - intros <-. apply first_line_decomp.
Qed.

Ltac no_nl_tac := intros c Hc; cbn in Hc; repeat (destruct Hc as [<- | Hc]; [discriminate |]); contradiction.

Lemma no_nl_sat : no_nl "sat". Proof. no_nl_tac. Qed.
Lemma no_nl_unsat : no_nl "unsat". Proof. no_nl_tac. Qed.
Lemma no_nl_unknown : no_nl "unknown". Proof. no_nl_tac. Qed.

Lemma class_char : forall l,
  (first_line_class l = CUnsat <-> l = "unsat"%string) /\
  (first_line_class l = CSat <-> l = "sat"%string) /\
  (first_line_class l = CUnknown <-> l = "unknown"%string) /\
  (first_line_class l = CErr <-> l <> "sat"%string /\ l <> "unsat"%string /\ l <> "unknown"%string).
Proof.
  intros l. unfold first_line_class.
  destruct (String.eqb l "unsat") eqn:E1.
  { apply String.eqb_eq in E1. subst l. split; [| split; [| split]].
    - split; intros _; reflexivity.
    - split; intros X; discriminate X.
    - split; intros X; discriminate X.
    - split; [intros X; discriminate X | intros (_ & X & _); exfalso; apply X; reflexivity]. }
  destruct (String.eqb l "sat") eqn:E2.
  { apply String.eqb_eq in E2. subst l. split; [| split; [| split]].
    - split; intros X; discriminate X.
    - split; intros _; reflexivity.
    - split; intros X; discriminate X.
    - split; [intros X; discriminate X | intros (X & _); exfalso; apply X; reflexivity]. }
  destruct (String.eqb l "unknown") eqn:E3.
  { apply String.eqb_eq in E3. subst l. split; [| split; [| split]].
    - split; intros X; discriminate X.
    - split; intros X; discriminate X.
    - split; intros _; reflexivity.
    - split; [intros X; discriminate X | intros (_ & _ & X); exfalso; apply X; reflexivity]. }
  apply String.eqb_neq in E1, E2, E3. split; [| split; [| split]].
  - split; [intros X; discriminate X | intros X; contradiction].
  - split; [intros X; discriminate X | intros X; contradiction].
  - split; [intros X; discriminate X | intros X; contradiction].
  - split; [intros _; auto | reflexivity].
Qed.

(* complete characterisation of SolverOutput.from_result by the first line of stdout *)
Lemma from_result_char : forall s ok,
  (from_result s ok = Some Unsat <-> has_first_line s "unsat") /\
  (from_result s ok = Some Unknown <-> has_first_line s "unknown") /\
  ((exists v, from_result s ok = Some (Sat v)) <-> has_first_line s "sat" /\ ok = true) /\
  (from_result s ok = None <-> has_first_line s "sat" /\ ok = false) /\
  (from_result s ok = Some Err <->
     ~ has_first_line s "sat" /\ ~ has_first_line s "unsat" /\ ~ has_first_line s "unknown").
Proof.
  intros s ok.
  rewrite (hfl_iff s _ no_nl_sat), (hfl_iff s _ no_nl_unsat), (hfl_iff s _ no_nl_unknown).
  unfold from_result. destruct (class_char (first_line s)) as (A & B & C & D).
  destruct (first_line_class (first_line s)) eqn:K; cbn [answer_of_class].
  - (* CSat *)
    pose proof (proj1 B eq_refl) as L. rewrite L in *. destruct ok.
    + split; [| split; [| split; [| split]]].
      * split; intros X; discriminate X.
      * split; intros X; discriminate X.
      * split; [intros _; split; reflexivity | intros _; eexists; reflexivity].
      * split; [intros X; discriminate X | intros [_ X]; discriminate X].
      * split; [intros X; discriminate X | intros (X & _); exfalso; apply X; reflexivity].
    + split; [| split; [| split; [| split]]].
      * split; intros X; discriminate X.
      * split; intros X; discriminate X.
      * split; [intros [v X]; discriminate X | intros [_ X]; discriminate X].
      * split; [intros _; split; reflexivity | reflexivity].
      * split; [intros X; discriminate X | intros (X & _); exfalso; apply X; reflexivity].
  - (* CUnsat *)
    pose proof (proj1 A eq_refl) as L. rewrite L in *.
    split; [| split; [| split; [| split]]].
    + split; intros _; reflexivity.
    + split; intros X; discriminate X.
    + split; [intros [v X]; discriminate X | intros [X _]; discriminate X].
    + split; [intros X; discriminate X | intros [X _]; discriminate X].
    + split; [intros X; discriminate X | intros (_ & X & _); exfalso; apply X; reflexivity].
  - (* CUnknown *)
    pose proof (proj1 C eq_refl) as L. rewrite L in *.
    split; [| split; [| split; [| split]]].
    + split; intros X; discriminate X.
    + split; intros _; reflexivity.
    + split; [intros [v X]; discriminate X | intros [X _]; discriminate X].
    + split; [intros X; discriminate X | intros [X _]; discriminate X].
    + split; [intros X; discriminate X | intros (_ & _ & X); exfalso; apply X; reflexivity].
  - (* CErr *)
    destruct (proj1 D eq_refl) as (N1 & N2 & N3).
    split; [| split; [| split; [| split]]].
    + split; [intros X; discriminate X | intros X; contradiction].
    + split; [intros X; discriminate X | intros X; contradiction].
    + split; [intros [v X]; discriminate X | intros [X _]; contradiction].
    + split; [intros X; discriminate X | intros [X _]; contradiction].
    + split; [intros _; auto | reflexivity].
Qed.

(* the return code plays no role; timeouts are `unknown`; a worker exception or a result read
   after shutdown is `err` *)
Lemma solve_low_level_timeout : solve_low_level RawTimeout = Some Unknown.
Proof. reflexivity. Qed.
Lemma get_output_exception : forall sh, get_solver_output sh None = Err.
Proof. destruct sh; reflexivity. Qed.

(* ------------------------------------------------------------------ process exit code *)

Local Open Scope Z_scope.

Fixpoint sum_found (cs : list contract) : Z :=
  match cs with [] => 0 | c :: r => fst c + sum_found r end.
Fixpoint sum_failed (cs : list contract) : Z :=
  match cs with [] => 0 | c :: r => num_failed_of (fst c) (num_passed (snd c)) + sum_failed r end.

Lemma totals_sums : forall cs, totals cs = (sum_found cs, sum_failed cs).
Proof.
  intros cs. unfold totals.
  assert (G : forall a b, fold_left (fun acc c => (fst acc + fst c, snd acc + num_failed_of (fst c) (num_passed (snd c)))) cs (a, b)
                          = (a + sum_found cs, b + sum_failed cs)).
  { induction cs as [| c cs IH]; intros a b; cbn [fold_left sum_found sum_failed fst snd].
    - f_equal; lia.
    - rewrite IH. f_equal; lia. }
  rewrite G. f_equal.
Qed.

Lemma cnt_le_length : forall A (f : A -> bool) l, (cnt f l <= List.length l)%nat.
Proof. induction l; cbn [cnt List.length]; [lia | destruct (f a); lia]. Qed.

Lemma cnt_full : forall A (f : A -> bool) l, cnt f l = List.length l <-> (forall x, In x l -> f x = true).
Proof.
  induction l; cbn [cnt List.length In]; [split; [intros _ x [] | reflexivity] |].
  pose proof (cnt_le_length _ f l). destruct (f a) eqn:E.
  - split.
    + intros H0 x [<- | Hx]; [assumption |]. apply IHl; [lia | assumption].
    + intros H0. assert (E0 : cnt f l = List.length l) by (apply IHl; intros x Hx; apply H0; right; assumption).
      lia.
  - split; [lia |]. intros H0. rewrite (H0 a (or_introl eq_refl)) in E. discriminate.
Qed.

Definition well_formed (c : contract) : Prop := Z.of_nat (List.length (snd c)) <= fst c.
Definition all_passed (c : contract) : Prop :=
  Z.of_nat (List.length (snd c)) = fst c /\ forall r, In r (snd c) -> r = EX_PASS.

Lemma contract_failed : forall c, well_formed c ->
  0 <= num_failed_of (fst c) (num_passed (snd c)) /\
  (num_failed_of (fst c) (num_passed (snd c)) = 0 <-> all_passed c).
Proof.
  intros [n rs] W. unfold well_formed, all_passed, num_failed_of, num_passed in *. cbn [fst snd] in *.
  pose proof (cnt_le_length _ test_passed rs) as L. split; [lia |]. split.
  - intros H0. assert (E : cnt test_passed rs = List.length rs) by lia. split; [lia |].
    intros r Hr. pose proof (proj1 (cnt_full _ test_passed rs) E r Hr) as P.
    unfold test_passed in P. apply Z.eqb_eq in P. exact P.
  - intros [H1 H2]. assert (E : cnt test_passed rs = List.length rs).
    { apply cnt_full. intros r Hr. unfold test_passed. apply Z.eqb_eq. apply H2. assumption. }
    lia.
Qed.

Lemma sum_failed_zero : forall cs, (forall c, In c cs -> well_formed c) ->
  0 <= sum_failed cs /\ (sum_failed cs = 0 <-> forall c, In c cs -> all_passed c).
Proof.
  induction cs as [| c cs IH]; intros W; cbn [sum_failed].
  - split; [lia |]. split; [intros _ c [] | reflexivity].
  - destruct (contract_failed c (W c (or_introl eq_refl))) as [P0 P1].
    destruct (IH (fun c' H => W c' (or_intror H))) as [Q0 Q1]. split; [lia |]. split.
    + intros H c' [<- | Hc].
      * apply P1. lia.
      * apply Q1; [lia | assumption].
    + intros H. assert (num_failed_of (fst c) (num_passed (snd c)) = 0) by (apply P1, H; left; reflexivity).
      assert (sum_failed cs = 0) by (apply Q1; intros c' Hc; apply H; right; assumption). lia.
Qed.

Lemma main_exit_zero_iff : forall cs, (forall c, In c cs -> well_formed c) ->
  (main_exit cs = 0 <-> sum_found cs <> 0 /\ forall c, In c cs -> all_passed c).
Proof.
  intros cs W. unfold main_exit. rewrite totals_sums. cbn [fst snd].
  unfold no_tests, no_tests_exit, final_exit.
  destruct (sum_failed_zero cs W) as [Q0 Q1].
  destruct (Z.eqb (sum_found cs) 0) eqn:E.
  - apply Z.eqb_eq in E. split; [discriminate | intros [H _]; contradiction].
  - apply Z.eqb_neq in E. destruct (Z.eqb (sum_failed cs) 0) eqn:E2.
    + apply Z.eqb_eq in E2. split; [intros _; split; [assumption | apply Q1; assumption] | reflexivity].
    + apply Z.eqb_neq in E2. split; [discriminate |]. intros [_ H]. exfalso. apply E2, Q1, H.
Qed.

Lemma main_exit_range : forall cs, main_exit cs = 0 \/ main_exit cs = 1.
Proof.
  intros cs. unfold main_exit, no_tests, no_tests_exit, final_exit.
  destruct (Z.eqb (fst (totals cs)) 0); [right; reflexivity |].
  destruct (Z.eqb (snd (totals cs)) 0); [left | right]; reflexivity.
Qed.

Lemma sum_found_nonzero : forall cs, (forall c, In c cs -> well_formed c) ->
  (sum_found cs <> 0 <-> exists c, In c cs /\ fst c <> 0).
Proof.
  induction cs as [| c cs IH]; intros W; cbn [sum_found].
  - split; [intros H; contradiction | intros (c & [] & _)].
  - assert (P : 0 <= fst c) by (pose proof (W c (or_introl eq_refl)) as X; unfold well_formed in X; lia).
    assert (Q : 0 <= sum_found cs).
    { clear IH P. induction cs as [| d cs IH]; cbn [sum_found]; [lia |].
      assert (0 <= fst d) by (pose proof (W d (or_intror (or_introl eq_refl))) as X; unfold well_formed in X; lia).
      assert (0 <= sum_found cs) by (apply IH; intros c' [<- | H']; apply W; [left | right; right]; auto).
      lia. }
    specialize (IH (fun c' H => W c' (or_intror H))). split.
    + intros H. destruct (Z.eq_dec (fst c) 0) as [E | E].
      * assert (S : sum_found cs <> 0) by lia. apply IH in S. destruct S as (d & Hd & Nd).
        exists d. split; [right; assumption | assumption].
      * exists c. split; [left; reflexivity | assumption].
    + intros (d & [<- | Hd] & Nd); [lia |].
      assert (S : sum_found cs <> 0) by (apply IH; exists d; auto). lia.
Qed.

(* the form used in Props/C05.v: everything spelled out *)
Lemma main_exit_char : forall cs : list contract,
  (forall c, In c cs -> Z.of_nat (List.length (snd c)) <= fst c) ->
  (main_exit cs = 0 <->
     (exists c, In c cs /\ fst c <> 0) /\
     (forall c, In c cs -> Z.of_nat (List.length (snd c)) = fst c /\ forall r, In r (snd c) -> r = EX_PASS)).
Proof.
  intros cs W. rewrite (main_exit_zero_iff cs W). rewrite (sum_found_nonzero cs W). reflexivity.
Qed.

Lemma main_exit_nonzero : forall cs : list contract,
  (forall c, In c cs -> Z.of_nat (List.length (snd c)) <= fst c) ->
  ((exists c r, In c cs /\ In r (snd c) /\ r <> EX_PASS) \/
   (exists c, In c cs /\ Z.of_nat (List.length (snd c)) < fst c) \/
   (forall c, In c cs -> fst c = 0)) ->
  main_exit cs = 1.
Proof.
  intros cs W H. destruct (main_exit_range cs) as [E | E]; [| assumption]. exfalso.
  apply (main_exit_char cs W) in E. destruct E as ((c0 & Hc0 & N0) & A).
  destruct H as [(c & r & Hc & Hr & Nr) | [(c & Hc & L) | Z0]].
  - destruct (A c Hc) as [_ P]. apply Nr, P, Hr.
  - destruct (A c Hc) as [P _]. lia.
  - apply N0, Z0, Hc0.
Qed.

Local Close Scope Z_scope.

(* ------------------------------------------------------------------ statements about paths, for Props *)

Lemma model_pass_iff : forall ps,
  fst (model_verdict ps) = LPass <->
  (forall p, In p ps -> potential p = true -> ans p = Unsat) /\
  (forall p, In p ps -> kind p = Stuck -> ans p = Unsat) /\
  (exists p, In p ps /\ kind p = Success).
Proof. intros. rewrite model_verdict_label. apply spec_pass_iff. Qed.

Lemma model_verdict_cases : forall ps,
  let S := existsb (fun p => potential p && is_sat (ans p)) ps in
  let E := existsb (fun p => potential p && is_err (ans p)) ps in
  let K := existsb (fun p => potential p && is_unknown (ans p)) ps in
  let T := existsb confirmed_stuck ps in
  let N := existsb succeeded ps in
  (S = true -> model_verdict ps = (LFail, EX_COUNTEREXAMPLE)) /\
  (S = false -> E = true -> model_verdict ps = (LError, EX_EXCEPTION)) /\
  (S = false -> E = false -> K = true -> model_verdict ps = (LTimeout, EX_TIMEOUT)) /\
  (S = false -> E = false -> K = false -> T = true -> model_verdict ps = (LError, EX_STUCK)) /\
  (S = false -> E = false -> K = false -> T = false -> N = false -> model_verdict ps = (LError, EX_REVERT_ALL)) /\
  (S = false -> E = false -> K = false -> T = false -> N = true -> model_verdict ps = (LPass, EX_PASS)).
Proof.
  intros ps. cbv zeta. rewrite model_verdict_counts.
  pose proof (chain_cases (Z.of_nat (pot_cnt is_sat ps)) (Z.of_nat (pot_cnt is_unsat ps)) (Z.of_nat (pot_cnt is_unknown ps))
                (Z.of_nat (pot_cnt is_err ps)) (Z.of_nat (cnt confirmed_stuck ps)) (Z.of_nat (cnt succeeded ps))
                ltac:(lia) ltac:(lia) ltac:(lia) ltac:(lia) ltac:(lia)) as H.
  cbv zeta in H. destruct H as (H1 & H2 & H3 & H4 & H5 & H6).
  unfold pot_cnt in *.
  repeat split; intros;
    repeat match goal with
           | X : existsb _ _ = true |- _ => apply cnt_pos in X
           | X : existsb _ _ = false |- _ => apply cnt_zero in X
           end;
    [apply H1 | apply H2 | apply H3 | apply H4 | apply H5 | apply H6]; lia.
Qed.

Lemma schedule_failsafe : forall ee ps sched r,
  result (run ee ps sched) = Some r ->
  (fst r = LPass <-> spec_verdict ps = LPass) /\ (snd r = EX_PASS <-> spec_verdict ps = LPass).
Proof.
  intros ee ps sched r H. destruct (schedule_sound_any _ _ _ _ H) as [-> | [(_ & SF & -> & _) | (-> & p & Hin & K & A)]].
  - split; [rewrite model_verdict_label; reflexivity | apply model_verdict_code].
  - rewrite SF. split; split; intros X; discriminate X.
  - assert (NP : spec_verdict ps <> LPass).
    { intros P. apply spec_pass_iff in P. destruct P as (_ & P & _). rewrite (P p Hin K) in A. discriminate A. }
    split; split; intros X; try discriminate X; contradiction.
Qed.

Lemma schedule_no_stuck : forall ee ps sched r,
  (forall p, In p ps -> kind p <> Stuck) ->
  result (run ee ps sched) = Some r -> r = model_verdict ps.
Proof.
  intros ee ps sched r NS H. destruct (schedule_sound_any _ _ _ _ H) as [-> | [(_ & _ & _ & (p & Hin & K)) | (_ & p & Hin & K & _)]].
  - reflexivity.
  - exfalso. apply (NS p Hin K).
  - exfalso. apply (NS p Hin K).
Qed.

Lemma schedule_no_early_exit : forall ps sched r,
  ~ In EvMainRaise sched ->
  result (run false ps sched) = Some r -> r = model_verdict ps /\ fst r = spec_verdict ps.
Proof.
  intros ps sched r N H. destruct (schedule_sound _ _ _ _ N H) as [-> | (X & _)]; [| discriminate X].
  split; [reflexivity | apply model_verdict_label].
Qed.

(* ------------------------------------------------------------------ the stuck-path solve is exception-safe
   (fix e923044: try / except ShutdownError: break / except Exception: from_error output) *)

(* what the regenerated source says about the two handlers; everything below rests on it *)
Lemma stuck_handlers : stuck_shutdown_escapes = false /\ stuck_exception_escapes = false.
Proof. split; reflexivity. Qed.

Lemma step_main_crash : forall s, mst (step_main s) = MCrashed -> mst s = MCrashed \/ stuck_shutdown_escapes = true.
Proof.
  intros s H. unfold step_main in H. destruct (mst s) eqn:M.
  - destruct (todo s); [cbn in H; discriminate H |]. destruct (flag s); cbn in H; discriminate H.
  - destruct (todo s) as [| p rest]; [cbn in H; discriminate H |].
    destruct (kind_action (kind p)); try (cbn in H; discriminate H).
    destruct (flag s); [| cbn in H; discriminate H].
    destruct stuck_shutdown_escapes; [right; reflexivity | cbn in H; discriminate H].
  - congruence.
  - left. reflexivity.
Qed.

Lemma step_crash : forall ee s e, mst (step ee s e) = MCrashed ->
  mst s = MCrashed \/ stuck_shutdown_escapes = true \/ stuck_exception_escapes = true.
Proof.
  intros ee s e H. destruct e; cbn [step] in H.
  - destruct (step_main_crash s H) as [X | X]; auto.
  - destruct stuck_exception_escapes eqn:NE; [auto |]. rewrite (step_main_raise_eq NE) in H.
    destruct (step_main_crash s H) as [X | X]; auto.
  - unfold step_cb in H. destruct (take j (pending s)) as [[a rest] |]; [cbn in H |]; auto.
Qed.

(* run_test never raises: no interleaving of main-loop steps, callbacks and failing stuck-path solves
   leaves the loop through an exception *)
Lemma never_crashes : forall ee ps sched, mst (run ee ps sched) <> MCrashed.
Proof.
  intros ee ps sched. unfold run. destruct stuck_handlers as [N1 N2].
  assert (G : forall s, mst s <> MCrashed -> mst (fold_left (step ee) sched s) <> MCrashed).
  { induction sched as [| e r IH]; intros s H; cbn [fold_left]; [assumption |]. apply IH. intros X.
    destruct (step_crash ee s e X) as [Y | [Y | Y]]; [contradiction | congruence | congruence]. }
  apply G. cbn. discriminate.
Qed.

(* an exception of the stuck-path solve is the same step as an `err` answer of that solve *)
Definition unraise (e : event) : event := match e with EvMainRaise => EvMain | _ => e end.

Lemma run_unraise : forall ee ps sched, run ee ps sched = run ee ps (map unraise sched).
Proof.
  intros ee ps sched. unfold run. generalize (init ps).
  induction sched as [| e r IH]; intros s; cbn [fold_left map]; [reflexivity |].
  rewrite IH. f_equal. destruct e; cbn [unraise step]; try reflexivity.
  apply step_main_raise_eq. exact (proj2 stuck_handlers).
Qed.

(* the executor is already shut down when the main loop reaches a stuck path: the loop ends *)
Lemma shutdown_ends_loop : forall s p rest,
  mst s = MBody -> todo s = p :: rest -> kind p = Stuck -> flag s = true -> step_main s = set_mst s MDone.
Proof.
  intros s [k a] rest M T K F. cbn [kind] in K. subst k. unfold step_main. rewrite M, T. cbn [kind kind_action classify orb negb].
  rewrite F. reflexivity.
Qed.

(* full strength: every finished run, with or without --early-exit, whatever fails in a stuck-path solve *)
Lemma schedule_full : forall ee ps sched r,
  result (run ee ps sched) = Some r -> r = model_verdict ps /\ fst r = spec_verdict ps.
Proof.
  intros ee ps sched r H.
  assert (E : r = model_verdict ps); [| split; [assumption | rewrite E; apply model_verdict_label]].
  pose proof (never_crashes ee ps sched) as NC.
  pose proof (inv_run ee true ps sched (fun X => False_ind _ (Bool.diff_true_false X))) as I.
  set (s := run ee ps sched) in *.
  destruct I as [Isub Ipend Iouts Iflag Icount Idone Icrash]. unfold result in H.
  destruct (mst s) eqn:M; try discriminate; [| contradiction].
  destruct (pending s) eqn:P; [| discriminate]. inversion H; subst r.
  destruct (flag s) eqn:F.
  - destruct (Iflag eq_refl) as [_ Hs]. rewrite (sat_out_fail _ _ _ _ Hs).
    destruct (Iouts _ Hs) as (p & Hin & Hp & Ha).
    rewrite model_verdict_counts.
    set (cs := pot_cnt is_sat ps) in *.
    assert (0 < cs).
    { unfold cs, pot_cnt. apply cnt_pos. apply existsb_exists. exists p. rewrite Hp, Ha. auto. }
    symmetry. apply chain_sat; lia.
  - destruct (Icount eq_refl) as (C1 & C2 & C3). pose proof (Idone eq_refl eq_refl) as TD.
    rewrite TD in C2, C3. setoid_rewrite TD in C1.
    unfold model_verdict. rewrite stuck_count_eq, normal_count_eq.
    cbn [cnt] in C2, C3. rewrite Nat.add_0_r in C2, C3. rewrite <- C2, <- C3.
    apply verdict_of_counts. intros f. rewrite submitted_cnt. specialize (C1 f).
    unfold pend_cnt in C1. unfold pot_cnt in C1 at 1. cbn [cnt] in C1. lia.
Qed.
