(* Proofs about Model/RunnerModel.v (over the regenerated Gen/GenPanic.v and Gen/GenRunTest.v). *)
From Coq Require Import ZArith List Bool Lia ZifyBool.
From Coq Require String.
From HV Require Import Base.Keccak Gen.GenPanic Gen.GenRunTest Spec.PanicSpec Model.RunnerModel.
Import ListNotations.
Open Scope Z_scope.
Ltac Zify.zify_post_hook ::= Z.to_euclidean_division_equations.

(* ------------------------------------------------------------------ big-endian bytes *)

Lemma be_value_app : forall l1 l2 acc, be_value acc (l1 ++ l2) = be_value (be_value acc l1) l2.
Proof. induction l1 as [|x l1 IH]; intros; cbn [be_value app]; auto. Qed.

Lemma be_bytes_length : forall n v, length (be_bytes n v) = n.
Proof.
  induction n as [|n IH]; intros v; cbn [be_bytes]; auto.
  rewrite app_length, IH. cbn. lia.
Qed.

Lemma be_bytes_bytes : forall n v, Forall is_byte (be_bytes n v).
Proof.
  induction n as [|n IH]; intros v; cbn [be_bytes]; auto.
  apply Forall_app. split; auto. constructor; auto. unfold is_byte. lia.
Qed.

Lemma be_value_be_bytes : forall n v, be_value 0 (be_bytes n v) = v mod 256 ^ Z.of_nat n.
Proof.
  induction n as [|n IH]; intros v.
  - cbn. rewrite Z.mod_1_r. reflexivity.
  - cbn [be_bytes]. rewrite be_value_app, IH. cbn [be_value].
    rewrite Nat2Z.inj_succ, Z.pow_succ_r by lia.
    rewrite (Z.rem_mul_r v 256 (256 ^ Z.of_nat n)) by lia. lia.
Qed.

Lemma be_value_range : forall l, Forall is_byte l -> 0 <= be_value 0 l < 256 ^ Z.of_nat (length l).
Proof.
  intros l. induction l as [|x l IH] using rev_ind; intros H.
  - cbn. lia.
  - apply Forall_app in H. destruct H as [Hl Hx]. inversion Hx as [|? ? Hb _]; subst.
    rewrite be_value_app. cbn [be_value]. rewrite app_length. cbn [length].
    rewrite Nat.add_1_r, Nat2Z.inj_succ, Z.pow_succ_r by lia.
    specialize (IH Hl). unfold is_byte in Hb. nia.
Qed.

Lemma be_bytes_be_value : forall l, Forall is_byte l -> be_bytes (length l) (be_value 0 l) = l.
Proof.
  intros l. induction l as [|x l IH] using rev_ind; intros H; auto.
  apply Forall_app in H. destruct H as [Hl Hx]. inversion Hx as [|? ? Hb _]; subst.
  rewrite be_value_app. cbn [be_value]. rewrite app_length. cbn [length]. rewrite Nat.add_1_r.
  cbn [be_bytes]. unfold is_byte in Hb.
  replace ((be_value 0 l * 256 + x) / 256) with (be_value 0 l) by lia.
  replace ((be_value 0 l * 256 + x) mod 256) with x by lia.
  rewrite IH by auto. reflexivity.
Qed.

Lemma list_eqb_eq : forall a b, list_eqb a b = true <-> a = b.
Proof.
  induction a as [|x a IH]; intros [|y b]; cbn [list_eqb]; split; intros H; try discriminate; auto.
  - apply andb_true_iff in H. destruct H as [H1 H2]. apply Z.eqb_eq in H1. apply IH in H2. congruence.
  - inversion H; subst. rewrite Z.eqb_refl. apply IH. reflexivity.
Qed.

Lemma memZ_In : forall x l, memZ x l = true <-> In x l.
Proof.
  induction l as [|y l IH]; cbn [memZ In]; split; intros H; try discriminate; try tauto.
  - apply orb_true_iff in H. destruct H as [H|H]; [left; symmetry; apply Z.eqb_eq; auto | right; apply IH; auto].
  - apply orb_true_iff. destruct H as [H|H]; [left; apply Z.eqb_eq; auto | right; apply IH; auto].
Qed.

Lemma concrete_bytes_map : forall bs, concrete_bytes (map BC bs) = Some bs.
Proof. induction bs as [|b bs IH]; cbn; auto. rewrite IH. reflexivity. Qed.

Lemma slice_map : forall (A B : Type) (f : A -> B) lo hi l, slice lo hi (map f l) = map f (slice lo hi l).
Proof. intros. unfold slice. rewrite skipn_map, firstn_map. reflexivity. Qed.

Lemma concrete_slice : forall lo hi bs, concrete_bytes (slice lo hi (map BC bs)) = Some (slice lo hi bs).
Proof. intros. rewrite slice_map. apply concrete_bytes_map. Qed.

Lemma slice_split_36 : forall (A : Type) (l : list A), length l = 36%nat -> l = slice 0 4 l ++ slice 4 36 l.
Proof.
  intros A l H. unfold slice.
  change (Z.to_nat (4 - 0)) with 4%nat. change (Z.to_nat (36 - 4)) with 32%nat.
  change (Z.to_nat 0) with 0%nat. change (Z.to_nat 4) with 4%nat. rewrite skipn_O.
  rewrite (firstn_all2 (n := 32%nat)) by (rewrite skipn_length; lia).
  symmetry. apply firstn_skipn.
Qed.

Lemma slice_lengths_36 : forall (A : Type) (l : list A), length l = 36%nat ->
  length (slice 0 4 l) = 4%nat /\ length (slice 4 36 l) = 32%nat.
Proof.
  intros A l H. unfold slice.
  change (Z.to_nat (4 - 0)) with 4%nat. change (Z.to_nat (36 - 4)) with 32%nat.
  change (Z.to_nat 0) with 0%nat. change (Z.to_nat 4) with 4%nat. rewrite skipn_O.
  rewrite !firstn_length, skipn_length. lia.
Qed.

Lemma Forall_firstn : forall (A : Type) (P : A -> Prop) n l, Forall P l -> Forall P (firstn n l).
Proof.
  intros A P. induction n as [|n IH]; intros [|x l] H; cbn [firstn]; auto.
  inversion H; subst. constructor; auto.
Qed.

Lemma Forall_skipn : forall (A : Type) (P : A -> Prop) n l, Forall P l -> Forall P (skipn n l).
Proof.
  intros A P. induction n as [|n IH]; intros [|x l] H; cbn [skipn]; auto.
  inversion H; subst. auto.
Qed.

Lemma Forall_slice : forall (A : Type) (P : A -> Prop) lo hi l, Forall P l -> Forall P (slice lo hi l).
Proof. intros. unfold slice. apply Forall_firstn, Forall_skipn. assumption. Qed.

(* ------------------------------------------------------------------ is_panic_of *)

(* the selector constant of the spec is the one derived from the signature *)
Module SelectorExample.
  Import String.
  Example panic_selector_is_keccak :
    map Z.of_N (firstn 4 (keccak256 (bytes_of_string "Panic(uint256)"%string))) = panic_selector.
  Proof. vm_compute. reflexivity. Qed.
End SelectorExample.

(* on concrete revert data the model reduces to three tests *)
Lemma is_panic_of_concrete : forall bs codes,
  is_panic_of ERevert (Some (map BC bs)) codes =
    if negb (Z.of_nat (length bs) =? 36) then TFalse
    else if negb (list_eqb (slice 0 4 bs) panic_selector) then TFalse
    else match codes with
         | [] => TTrue
         | _ => tri_of_bool (memZ (be_value 0 (slice 4 36 bs)) codes)
         end.
Proof.
  intros bs codes. unfold is_panic_of. rewrite map_length.
  unfold SEL_LO, SEL_HI, CODE_LO, CODE_HI, PANIC_SELECTOR_BYTES, panic_selector.
  rewrite !concrete_slice. reflexivity.
Qed.

Lemma panic_encoding_slices : forall k,
  length (panic_encoding k) = 36%nat /\
  slice 0 4 (panic_encoding k) = panic_selector /\
  slice 4 36 (panic_encoding k) = be_bytes 32 k.
Proof.
  intros k. unfold panic_encoding. split; [|split].
  - rewrite app_length, be_bytes_length. reflexivity.
  - unfold slice. change (Z.to_nat (4 - 0)) with 4%nat. change (Z.to_nat 0) with 0%nat.
    rewrite skipn_O. unfold panic_selector. reflexivity.
  - unfold slice. change (Z.to_nat (36 - 4)) with 32%nat. change (Z.to_nat 4) with 4%nat.
    unfold panic_selector. cbn [app skipn].
    apply firstn_all2. rewrite be_bytes_length. lia.
Qed.

(* is_panic_of is exact w.r.t. the byte-level encoding of Panic(uint256), for ALL byte strings *)
Theorem is_panic_of_exact : forall bs codes, Forall is_byte bs ->
  (is_panic_of ERevert (Some (map BC bs)) codes = TTrue <-> is_panic_data codes bs) /\
  (is_panic_of ERevert (Some (map BC bs)) codes = TFalse <-> ~ is_panic_data codes bs).
Proof.
  intros bs codes Hb.
  assert (Hiff : is_panic_of ERevert (Some (map BC bs)) codes = TTrue <-> is_panic_data codes bs).
  { rewrite is_panic_of_concrete. split.
    - intros H.
      destruct (Z.of_nat (length bs) =? 36) eqn:Hlen; cbn [negb] in H; [|discriminate].
      apply Z.eqb_eq in Hlen. assert (Hl : length bs = 36%nat) by lia.
      destruct (list_eqb (slice 0 4 bs) panic_selector) eqn:Hsel; cbn [negb] in H; [|discriminate].
      apply list_eqb_eq in Hsel.
      destruct (slice_lengths_36 _ bs Hl) as [_ L32].
      assert (Hcb : Forall is_byte (slice 4 36 bs)) by (apply Forall_slice; auto).
      exists (be_value 0 (slice 4 36 bs)). split; [|split].
      + pose proof (be_value_range _ Hcb) as R. rewrite L32 in R.
        change (256 ^ Z.of_nat 32) with (2 ^ 256) in R. exact R.
      + unfold panic_encoding. rewrite <- L32 at 1. rewrite be_bytes_be_value by auto.
        rewrite <- Hsel. apply slice_split_36. exact Hl.
      + destruct codes as [|c cs]; [left; reflexivity|right].
        apply memZ_In. destruct (memZ (be_value 0 (slice 4 36 bs)) (c :: cs)); [reflexivity|discriminate].
    - intros [k [Hk [Hd Hc]]]. subst bs.
      destruct (panic_encoding_slices k) as [L [S1 S2]].
      rewrite L, S1, S2. change (Z.of_nat 36 =? 36) with true. cbn [negb].
      assert (E : list_eqb panic_selector panic_selector = true) by (apply list_eqb_eq; reflexivity).
      rewrite E. cbn [negb].
      destruct codes as [|c cs]; [reflexivity|].
      rewrite be_value_be_bytes. change (256 ^ Z.of_nat 32) with (2 ^ 256).
      rewrite Z.mod_small by lia.
      destruct Hc as [Hc|Hc]; [discriminate|].
      apply memZ_In in Hc. rewrite Hc. reflexivity. }
  split; [exact Hiff|].
  rewrite <- Hiff. rewrite is_panic_of_concrete.
  destruct (negb (Z.of_nat (length bs) =? 36)); [split; [discriminate|reflexivity]|].
  destruct (negb (list_eqb (slice 0 4 bs) panic_selector)); [split; [discriminate|reflexivity]|].
  destruct codes as [|c cs]; [split; [discriminate|intros H; exfalso; apply H; reflexivity]|].
  destruct (memZ (be_value 0 (slice 4 36 bs)) (c :: cs)); cbn [tri_of_bool];
    split; try discriminate; try reflexivity. intros H; exfalso; apply H; reflexivity.
Qed.

(* never an exception on concrete data *)
Lemma is_panic_of_concrete_no_raise : forall e bs codes, is_panic_of e (Some (map BC bs)) codes <> TRaise.
Proof.
  intros e bs codes. destruct e; try discriminate.
  rewrite is_panic_of_concrete.
  destruct (negb (Z.of_nat (length bs) =? 36)); [discriminate|].
  destruct (negb (list_eqb (slice 0 4 bs) panic_selector)); [discriminate|].
  destruct codes; [discriminate|].
  destruct (memZ (be_value 0 (slice 4 36 bs)) (z :: codes)); discriminate.
Qed.

(* not a Revert: never a panic, whatever the data *)
Lemma is_panic_of_not_revert : forall e d codes, e <> ERevert -> is_panic_of e d codes = TFalse.
Proof. intros e d codes H. destruct e; try reflexivity. congruence. Qed.

(* the hand-written model agrees with the decision function REGENERATED from is_panic_of's source
   on the observations the Python code makes (length, selector value, emptiness of the code set,
   membership of the code) *)
Theorem is_panic_of_matches_source : forall bs codes, Forall is_byte bs ->
  is_panic_of ERevert (Some (map BC bs)) codes =
    tri_of_bool (is_panic_decide true (Z.of_nat (length bs)) (be_value 0 (slice SEL_LO SEL_HI bs))
                   (Z.of_nat (length codes)) (memZ (be_value 0 (slice CODE_LO CODE_HI bs)) codes)).
Proof.
  intros bs codes Hb. rewrite is_panic_of_concrete. unfold is_panic_decide, SEL_LO, SEL_HI, CODE_LO, CODE_HI.
  cbn [negb].
  destruct (Z.of_nat (length bs) =? 36) eqn:Hlen; cbn [negb]; [|reflexivity].
  apply Z.eqb_eq in Hlen. assert (Hl : length bs = 36%nat) by lia.
  destruct (slice_lengths_36 _ bs Hl) as [L4 _].
  assert (Hsb : Forall is_byte (slice 0 4 bs)) by (apply Forall_slice; auto).
  assert (Hsel : list_eqb (slice 0 4 bs) panic_selector = (be_value 0 (slice 0 4 bs) =? 1313373041)).
  { destruct (list_eqb (slice 0 4 bs) panic_selector) eqn:E.
    - apply list_eqb_eq in E. rewrite E. reflexivity.
    - symmetry. apply Z.eqb_neq. intros V.
      assert (slice 0 4 bs = panic_selector).
      { rewrite <- (be_bytes_be_value _ Hsb). rewrite L4, V. reflexivity. }
      apply list_eqb_eq in H. congruence. }
  rewrite Hsel.
  destruct (be_value 0 (slice 0 4 bs) =? 1313373041); cbn [negb]; [|reflexivity].
  destruct codes as [|c cs]; [reflexivity|].
  replace (Z.of_nat (length (c :: cs)) =? 0) with false by (symmetry; apply Z.eqb_neq; cbn [length]; lia).
  reflexivity.
Qed.

Theorem is_panic_of_matches_source_not_revert : forall len sel ncodes code_in,
  is_panic_decide false len sel ncodes code_in = false.
Proof. intros. reflexivity. Qed.

(* ------------------------------------------------------------------ is_global_fail_set *)

Section CtreeInd.
  Variable P : ctree -> Prop.
  Hypothesis H : forall e subs, Forall P subs -> P (CNode e subs).
  Fixpoint ctree_ind' (c : ctree) : P c :=
    match c with
    | CNode e subs =>
        H e subs ((fix go (l : list ctree) : Forall P l :=
                     match l with
                     | [] => Forall_nil P
                     | x :: r => Forall_cons x (ctree_ind' x) (go r)
                     end) subs)
    end.
End CtreeInd.

Theorem global_fail_spec : forall c, global_fail c = true <-> has_fail c.
Proof.
  intros c. split.
  - induction c as [e subs IH] using ctree_ind'. cbn [global_fail]. intros Hg.
    apply orb_true_iff in Hg. destruct Hg as [Hg|Hg].
    + destruct e; try discriminate. constructor.
    + apply existsb_exists in Hg. destruct Hg as [s [Hin Hs]].
      rewrite Forall_forall in IH. eapply hf_sub; eauto.
  - intros Hf. induction Hf as [subs | e subs s Hin Hs IH].
    + reflexivity.
    + cbn [global_fail]. apply orb_true_iff. right. apply existsb_exists. eauto.
Qed.

(* ------------------------------------------------------------------ verdict *)

Ltac split_ifs :=
  repeat match goal with
         | |- context [if ?c then _ else _] => destruct c eqn:?
         | H : context [if ?c then _ else _] |- _ => destruct c eqn:?
         end.

(* PASS only if no sat / err / unknown answer was counted, no stuck path, and some path succeeded *)
Lemma verdict_pass : forall n_sat n_err n_unknown n_stuck normal,
  verdict n_sat n_err n_unknown n_stuck normal = EX_PASS ->
  n_sat <= 0 /\ n_err <= 0 /\ n_unknown <= 0 /\ n_stuck <= 0 /\ normal <> 0.
Proof.
  intros a b c d n. unfold verdict, EX_PASS, EX_COUNTEREXAMPLE, EX_EXCEPTION, EX_TIMEOUT, EX_STUCK, EX_REVERT_ALL.
  intros H. split_ifs; try discriminate; lia.
Qed.

Lemma count_zero_not_in : forall x l, count x l <= 0 -> ~ In x l.
Proof.
  intros x l H Hin. unfold count in H.
  assert (In x (filter (Z.eqb x) l)) by (apply filter_In; split; auto; apply Z.eqb_refl).
  destruct (filter (Z.eqb x) l); [contradiction|]. cbn [length] in H. lia.
Qed.

(* ------------------------------------------------------------------ the main loop *)

Section Loop.
  Variable Q : Type.
  Variable solve_assert solve_low : Q -> Z.

  (* the early exit (executor shutdown after a valid counterexample) did not interrupt a stuck-path solve *)
  Hypothesis no_shutdown_answer : forall q, solve_low q <> S_SHUTDOWN.

  Let step := step_leaf Q solve_assert solve_low.
  Let lp := loop Q solve_assert solve_low.

  Lemma shutdown_at_false : forall codes l, shutdown_at Q solve_low codes l = false.
  Proof.
    intros codes l. unfold shutdown_at.
    assert (E : (solve_low (l_query l) =? S_SHUTDOWN) = false) by (apply Z.eqb_neq, no_shutdown_answer).
    rewrite E. destruct (is_panic_of (l_err Q l) (l_data l) codes); try reflexivity; apply andb_false_r.
  Qed.

  Definition panic_found (codes : list Z) (l : leaf Q) : bool :=
    match is_panic_of (l_err Q l) (l_data l) codes with TTrue => true | _ => false end.

  Definition cls_of (codes : list Z) (l : leaf Q) : Z :=
    classify (panic_found codes l) (global_fail (l_ctx l)) (is_stuck Q l) (has_error Q l).

  Lemma step_leaf_props : forall codes l a a',
    step codes l a = Some a' ->
    is_panic_of (l_err Q l) (l_data l) codes <> TRaise /\
    a_raised a' = a_raised a /\ a_width_warn a' = a_width_warn a /\
    incl (a_results a) (a_results a') /\
    (cls_of codes l = CL_POTENTIAL -> In (solve_assert (l_query l)) (a_results a')).
  Proof.
    intros codes l a a' H. unfold step, step_leaf in H. unfold cls_of, panic_found.
    destruct (is_panic_of (l_err Q l) (l_data l) codes) eqn:E; try discriminate;
      (split; [discriminate|]); inversion H; subst; clear H;
      match goal with |- context [classify ?p ?f ?s ?h] => destruct (classify p f s h =? CL_POTENTIAL) eqn:C end;
      cbn [a_raised a_width_warn a_results];
      try (repeat split; auto; [apply incl_appl, incl_refl | intros _; apply in_or_app; right; left; reflexivity]);
      (apply Z.eqb_neq in C;
       repeat split; split_ifs; cbn [a_raised a_width_warn a_results]; auto using incl_refl; try (intros; contradiction)).
  Qed.

  Lemma loop_props : forall codes width ls pid a0,
    a_raised (lp codes width pid ls a0) = false ->
    a_width_warn (lp codes width pid ls a0) = false ->
    a_raised a0 = false /\ a_width_warn a0 = false /\
    incl (a_results a0) (a_results (lp codes width pid ls a0)) /\
    forall l, In l ls ->
      is_panic_of (l_err Q l) (l_data l) codes <> TRaise /\
      (cls_of codes l = CL_POTENTIAL -> In (solve_assert (l_query l)) (a_results (lp codes width pid ls a0))).
  Proof.
    intros codes width ls. induction ls as [|l ls IH]; intros pid a0 Hr Hw.
    - cbn in *. split; [auto|split; [auto|split; [apply incl_refl|intros l0 []]]].
    - unfold lp in *. cbn [loop] in *. rewrite shutdown_at_false in *.
      destruct (step_leaf Q solve_assert solve_low codes l a0) as [a'|] eqn:S.
      + destruct (width_cut width pid) eqn:W.
        * cbn [a_width_warn] in Hw. discriminate.
        * destruct (step_leaf_props _ _ _ _ S) as [Hn [Hr' [Hw' [Hincl Hpot]]]].
          destruct (IH (pid + 1) a' Hr Hw) as [R1 [W1 [I1 F1]]].
          repeat split; try congruence.
          { eapply incl_tran; eauto. }
          { destruct H as [<-|Hin]; [exact Hn | apply (F1 l0 Hin)]. }
          { destruct H as [<-|Hin]; [intros C; apply I1, Hpot, C | apply (F1 l0 Hin)]. }
      + cbn [a_raised] in Hr. discriminate.
  Qed.
  (* the stuck counter never decreases, and a stuck candidate the solver does not refute increments it *)
  Lemma step_leaf_stuck : forall codes l a a',
    step codes l a = Some a' ->
    a_stuck a <= a_stuck a' /\
    (cls_of codes l = CL_STUCK -> stuck_counts (solve_low (l_query l)) = true -> a_stuck a < a_stuck a').
  Proof.
    intros codes l a a' H. unfold step, step_leaf in H. unfold cls_of, panic_found.
    assert (G : forall c : Z,
      Some (if c =? CL_POTENTIAL then
              mkAcc (a_results a ++ [solve_assert (l_query l)]) (a_stuck a) (a_normal a) (a_raised a) (a_width_warn a)
            else if c =? CL_STUCK then
              (if stuck_counts (solve_low (l_query l))
               then mkAcc (a_results a) (a_stuck a + 1) (a_normal a) (a_raised a) (a_width_warn a)
               else a)
            else if c =? CL_NORMAL then
              mkAcc (a_results a) (a_stuck a) (a_normal a + 1) (a_raised a) (a_width_warn a)
            else a) = Some a' ->
      a_stuck a <= a_stuck a' /\
      (c = CL_STUCK -> stuck_counts (solve_low (l_query l)) = true -> a_stuck a < a_stuck a')).
    { intros c Hc. injection Hc as <-.
      destruct (c =? CL_POTENTIAL) eqn:C1.
      { apply Z.eqb_eq in C1. cbn [a_stuck]. split; [lia|]. intros C2. rewrite C1 in C2. unfold CL_POTENTIAL, CL_STUCK in C2. discriminate C2. }
      destruct (c =? CL_STUCK) eqn:C2.
      { destruct (stuck_counts (solve_low (l_query l))) eqn:S; cbn [a_stuck]; split; try lia; intros _ D; try discriminate D; lia. }
      apply Z.eqb_neq in C2.
      destruct (c =? CL_NORMAL); cbn [a_stuck]; split; try lia; intros C3; contradiction. }
    destruct (is_panic_of (l_err Q l) (l_data l) codes) eqn:E; try discriminate H; apply G; exact H.
  Qed.

  Lemma loop_stuck_mono : forall codes width ls pid a0, a_stuck a0 <= a_stuck (lp codes width pid ls a0).
  Proof.
    intros codes width ls. induction ls as [|l ls IH]; intros pid a0; unfold lp in *; cbn [loop]; [lia|].
    destruct (shutdown_at Q solve_low codes l); [lia|].
    destruct (step_leaf Q solve_assert solve_low codes l a0) as [a'|] eqn:S; [|cbn [a_stuck]; lia].
    destruct (step_leaf_stuck _ _ _ _ S) as [M _].
    destruct (width_cut width pid); [cbn [a_stuck]; lia|].
    specialize (IH (pid + 1) a'). lia.
  Qed.

  Lemma loop_stuck_counted : forall codes width ls pid a0,
    a_raised (lp codes width pid ls a0) = false ->
    a_width_warn (lp codes width pid ls a0) = false ->
    forall l, In l ls -> cls_of codes l = CL_STUCK -> stuck_counts (solve_low (l_query l)) = true ->
      a_stuck a0 < a_stuck (lp codes width pid ls a0).
  Proof.
    intros codes width ls. induction ls as [|l ls IH]; intros pid a0 Hr Hw l0 Hin Hc Hs; [destruct Hin|].
    unfold lp in *. cbn [loop] in *. rewrite shutdown_at_false in *.
    destruct (step_leaf Q solve_assert solve_low codes l a0) as [a'|] eqn:S; [|cbn [a_raised] in Hr; discriminate].
    destruct (width_cut width pid) eqn:W; [cbn [a_width_warn] in Hw; discriminate|].
    destruct (step_leaf_stuck _ _ _ _ S) as [M1 M2].
    destruct Hin as [<-|Hin].
    - specialize (M2 Hc Hs). pose proof (loop_stuck_mono codes width ls (pid + 1) a') as M3. unfold lp in M3. lia.
    - specialize (IH (pid + 1) a' Hr Hw l0 Hin Hc Hs). lia.
  Qed.
End Loop.

(* a failed solver call while confirming a stuck path does not escape run_test: it is the `err` answer, which the
   filter counts (regenerated: the handler `except Exception` ends in SolverOutput.from_error) *)
Lemma stuck_solve_failure_counted : stuck_failure_counts = true /\ stuck_counts S_ERR = true.
Proof. split; reflexivity. Qed.

(* a PASS without --width warning: every reported path that is stuck (output data None, or an internal
   HalmosException -- wherever in the call tree it was raised) was either an assertion-failure candidate or
   refuted by the solver *)
Theorem pass_no_stuck : forall Q sa sl codes width (e : exploration Q),
  (forall q, sl q <> S_SHUTDOWN) ->
  r_exit (run_test Q sa sl codes width e) = EX_PASS ->
  r_warn_width (run_test Q sa sl codes width e) = false ->
  forall l, In l (ex_leaves e) -> is_stuck Q l = true ->
    panic_found Q codes l = true \/ global_fail (l_ctx l) = true \/ sl (l_query l) = S_UNSAT.
Proof.
  intros Q sa sl codes width e Hns Hexit Hw l Hin Hst.
  unfold run_test in *. cbn [r_exit r_warn_width] in *.
  set (a := loop Q sa sl codes width 0 (ex_leaves e) acc0) in *.
  destruct (a_raised a) eqn:Hr; [unfold EX_EXCEPTION, EX_PASS in Hexit; discriminate|].
  apply verdict_pass in Hexit. destruct Hexit as [_ [_ [_ [Hstuck _]]]].
  destruct (panic_found Q codes l) eqn:P; [left; reflexivity|].
  destruct (global_fail (l_ctx l)) eqn:F; [right; left; reflexivity|].
  right; right.
  destruct (Z.eq_dec (sl (l_query l)) S_UNSAT) as [U|U]; [exact U|exfalso].
  assert (C : cls_of Q codes l = CL_STUCK).
  { unfold cls_of. rewrite P, F, Hst. unfold classify, CL_STUCK. destruct (has_error Q l); reflexivity. }
  assert (S : stuck_counts (sl (l_query l)) = true).
  { unfold stuck_counts. apply negb_true_iff, Z.eqb_neq. exact U. }
  pose proof (loop_stuck_counted Q sa sl Hns codes width (ex_leaves e) 0 acc0 Hr Hw l Hin C S) as L.
  fold a in L. cbn [a_stuck acc0] in L. lia.
Qed.

(* ------------------------------------------------------------------ solve_end_to_end *)

Section SolveSound.
  Variable Q : Type.
  Variable Qeqb : Q -> Q -> bool.
  Variable core_hit : Q -> bool.
  Variable low : Q -> Z * bool.
  Variable refine : Q -> Q.
  Variable input : Type.
  Variable qsat : Q -> input -> Prop.
  Hypothesis core_sound : forall q, core_hit q = true -> forall i, ~ qsat q i.
  Hypothesis low_truthful : forall q, fst (low q) = S_UNSAT -> forall i, ~ qsat q i.
  Hypothesis refine_exact : forall q i, qsat q i -> qsat (refine q) i.

  Lemma solve_end_to_end_unsat_sound : forall q r,
    solve_end_to_end Q Qeqb core_hit low refine q r = S_UNSAT -> forall i, ~ qsat q i.
  Proof.
    intros q r H i Hs. unfold solve_end_to_end in H.
    destruct (core_hit q) eqn:C; [eapply core_sound; eauto|].
    destruct (low q) as [res valid] eqn:L.
    destruct ((res =? S_SAT) && negb valid && negb r) eqn:G.
    - destruct (negb (Qeqb (refine q) q)).
      + eapply low_truthful; eauto.
      + apply andb_true_iff in G. destruct G as [G _]. apply andb_true_iff in G. destruct G as [G _].
        apply Z.eqb_eq in G. subst res. unfold S_SAT, S_UNSAT in H. discriminate.
    - eapply (low_truthful q); eauto. rewrite L. exact H.
  Qed.
End SolveSound.

(* ------------------------------------------------------------------ PASS is sound (composition) *)

Section PassSound.
  Variable Q : Type.
  Variable solve_assert solve_low : Q -> Z.
  Variable input : Type.
  Variable admissible : input -> Prop.
  Variable concrete : input -> outcome.
  Variable qsat : Q -> input -> Prop.
  Variable holds : input -> leaf Q -> Prop.
  Variable eval : input -> Z -> Z.

  Definition inst_byte (i : input) (b : sbyte) : Z := match b with BC v => v | BS t => eval i t end.

  (* the reported path describes the concrete execution under the input (C01 direction) *)
  Definition agrees (i : input) (l : leaf Q) (o : outcome) : Prop :=
    o_fail o = global_fail (l_ctx l) /\
    (o_fail o = false ->
       (o_kind o = ORevert -> l_err Q l = ERevert /\ exists d, l_data l = Some d /\ map (inst_byte i) d = o_data o)).

  Variable codes : list Z.
  Variable width : Z.
  Variable e : exploration Q.

  Hypothesis explore_complete :
    ex_bounded e = false -> ex_depth_cut e = false ->
    forall i, admissible i -> exists l, In l (ex_leaves e) /\ holds i l /\ agrees i l (concrete i).
  Hypothesis query_is_path : forall l i, In l (ex_leaves e) -> holds i l -> qsat (l_query l) i.
  Hypothesis solver_truthful : forall q, solve_assert q = S_UNSAT -> forall i, ~ qsat q i.
  Hypothesis solver_range : forall q, In (solve_assert q) [S_UNSAT; S_SAT; S_UNKNOWN; S_ERR].
  Hypothesis panic_data_concrete :
    forall l d, In l (ex_leaves e) -> l_err Q l = ERevert -> l_data l = Some d -> length d = 36%nat ->
      exists bs, d = map BC bs /\ Forall is_byte bs.
  Hypothesis no_early_exit : forall q, solve_low q <> S_SHUTDOWN.

  Lemma map_inst_BC : forall i bs, map (inst_byte i) (map BC bs) = bs.
  Proof. intros i bs. rewrite map_map. cbn [inst_byte]. apply map_id. Qed.

  Theorem pass_sound :
    r_exit (run_test Q solve_assert solve_low codes width e) = EX_PASS ->
    clean (run_test Q solve_assert solve_low codes width e) = true ->
    forall i, admissible i -> ~ violates codes (concrete i).
  Proof.
    intros Hexit Hclean i Hadm Hviol.
    unfold clean, run_test in Hclean. cbn [r_warn_loop r_warn_depth r_warn_width] in Hclean.
    apply andb_true_iff in Hclean. destruct Hclean as [Hclean Hw].
    apply andb_true_iff in Hclean. destruct Hclean as [Hl Hd].
    apply negb_true_iff in Hl, Hd, Hw.
    assert (Hb : ex_bounded e = false).
    { unfold test_warns_loop_bound in Hl. cbn [andb] in Hl. exact Hl. }
    destruct (explore_complete Hb Hd i Hadm) as [l [Hin [Hholds [Hfail Hrest]]]].
    unfold run_test in Hexit. cbn [r_exit] in Hexit.
    set (a := loop Q solve_assert solve_low codes width 0 (ex_leaves e) acc0) in *.
    destruct (a_raised a) eqn:Hr; [unfold EX_EXCEPTION, EX_PASS in Hexit; discriminate|].
    destruct (loop_props Q solve_assert solve_low no_early_exit codes width (ex_leaves e) 0 acc0 Hr Hw) as [_ [_ [_ Hall]]].
    destruct (Hall l Hin) as [Hnoraise Hpot]. fold a in Hpot.
    apply verdict_pass in Hexit. destruct Hexit as [Hsat [Herr [Hunk _]]].
    apply count_zero_not_in in Hsat, Herr, Hunk.
    assert (Hcls : cls_of Q codes l = CL_POTENTIAL).
    { unfold cls_of, classify, CL_POTENTIAL.
      destruct Hviol as [[Hk Hp]|Hf].
      - destruct (o_fail (concrete i)) eqn:Hof.
        + rewrite <- Hfail. rewrite orb_true_r. reflexivity.
        + destruct (Hrest eq_refl Hk) as [Herr' [d [Hd' Hinst]]].
          assert (Hlen : length d = 36%nat).
          { destruct Hp as [k [_ [Hpe _]]]. rewrite <- (map_length (inst_byte i)), Hinst, Hpe.
            apply (panic_encoding_slices k). }
          destruct (panic_data_concrete l d Hin Herr' Hd' Hlen) as [bs [-> Hbs]].
          rewrite map_inst_BC in Hinst. subst bs.
          unfold panic_found. rewrite Herr', Hd'.
          destruct (is_panic_of_exact (o_data (concrete i)) codes Hbs) as [E _].
          apply E in Hp. rewrite Hp. reflexivity.
      - rewrite <- Hfail, Hf. rewrite orb_true_r. reflexivity. }
    specialize (Hpot Hcls).
    destruct (solver_range (l_query l)) as [U|[S|[K|[R|[]]]]].
    - symmetry in U. exact (solver_truthful _ U i (query_is_path l i Hin Hholds)).
    - rewrite <- S in Hpot. contradiction.
    - rewrite <- K in Hpot. contradiction.
    - rewrite <- R in Hpot. contradiction.
  Qed.
End PassSound.

(* the same with the assertion solver spelled out as solve_end_to_end over a truthful low-level
   solver, a sound unsat-core cache and an exact refinement *)
Section PassSoundE2E.
  Variable Q : Type.
  Variable Qeqb : Q -> Q -> bool.
  Variable core_hit : Q -> bool.
  Variable low : Q -> Z * bool.
  Variable refine : Q -> Q.
  Variable solve_low : Q -> Z.
  Variable input : Type.
  Variable admissible : input -> Prop.
  Variable concrete : input -> outcome.
  Variable qsat : Q -> input -> Prop.
  Variable holds : input -> leaf Q -> Prop.
  Variable eval : input -> Z -> Z.
  Variable codes : list Z.
  Variable width : Z.
  Variable e : exploration Q.

  Let solve_assert := fun q => solve_end_to_end Q Qeqb core_hit low refine q false.

  Theorem pass_sound_e2e :
    (ex_bounded e = false -> ex_depth_cut e = false ->
       forall i, admissible i -> exists l, In l (ex_leaves e) /\ holds i l /\ agrees Q input eval i l (concrete i)) ->
    (forall l i, In l (ex_leaves e) -> holds i l -> qsat (l_query l) i) ->
    (forall q, core_hit q = true -> forall i, ~ qsat q i) ->
    (forall q, fst (low q) = S_UNSAT -> forall i, ~ qsat q i) ->
    (forall q i, qsat q i -> qsat (refine q) i) ->
    (forall q, In (fst (low q)) [S_UNSAT; S_SAT; S_UNKNOWN; S_ERR]) ->
    (forall l d, In l (ex_leaves e) -> l_err Q l = ERevert -> l_data l = Some d -> length d = 36%nat ->
       exists bs, d = map BC bs /\ Forall is_byte bs) ->
    (forall q, solve_low q <> S_SHUTDOWN) ->
    r_exit (run_test Q solve_assert solve_low codes width e) = EX_PASS ->
    clean (run_test Q solve_assert solve_low codes width e) = true ->
    forall i, admissible i -> ~ violates codes (concrete i).
  Proof.
    intros Hex Hq Hcore Hlow Href Hrange Hconc Hns.
    apply (pass_sound Q solve_assert solve_low input admissible concrete qsat holds eval codes width e); auto.
    - intros q. apply (solve_end_to_end_unsat_sound Q Qeqb core_hit low refine input qsat); auto.
    - intros q. unfold solve_assert, solve_end_to_end.
      destruct (core_hit q); [left; reflexivity|].
      destruct (low q) as [res valid] eqn:L.
      pose proof (Hrange q) as R. rewrite L in R. cbn [fst] in R.
      destruct ((res =? S_SAT) && negb valid && negb false); [|exact R].
      destruct (negb (Qeqb (refine q) q)); [apply Hrange | exact R].
  Qed.
End PassSoundE2E.

(* ------------------------------------------------------------------ the symbolic-code caveat is real *)

(* Without `panic_data_concrete` the statement is false of the faithful model: a path reverting with
   Panic(x), x symbolic and constrained to 1 by the path, is not classified as an assertion failure. *)
Definition sym_panic_data : list sbyte :=
  map BC panic_selector ++ map BC (be_bytes 31 0) ++ [BS 0].

Definition cex_leaves : list (leaf bool) :=
  [ mkLeaf (CNode ERevert []) (Some sym_panic_data) true;     (* if (x == 1) revert Panic(x) *)
    mkLeaf (CNode ENone []) (Some []) false ].                (* else stop *)

Definition cex_solver (q : bool) : Z := if q then S_SAT else S_UNSAT.

Theorem pass_unsound_symbolic_code :
  let e := mkExploration cex_leaves false false in
  let concrete := fun _ : unit => mkOutcome ORevert (panic_encoding 1) false in
  let qsat := fun (q : bool) (_ : unit) => q = true in
  let holds := fun (_ : unit) (l : leaf bool) => l_query l = true in
  let eval := fun (_ : unit) (_ : Z) => 1 in
  (* every hypothesis of pass_sound except panic_data_concrete holds ... *)
  (forall i : unit, exists l, In l (ex_leaves e) /\ holds i l /\ agrees bool unit eval i l (concrete i)) /\
  (forall l i, In l (ex_leaves e) -> holds i l -> qsat (l_query l) i) /\
  (forall q, cex_solver q = S_UNSAT -> forall i, ~ qsat q i) /\
  (forall q, In (cex_solver q) [S_UNSAT; S_SAT; S_UNKNOWN; S_ERR]) /\
  (* ... the verdict is a clean PASS ... *)
  r_exit (run_test bool cex_solver cex_solver [1] 0 e) = EX_PASS /\
  clean (run_test bool cex_solver cex_solver [1] 0 e) = true /\
  (* ... and the (only) input violates the test *)
  violates [1] (concrete tt).
Proof.
  cbv zeta. repeat split.
  - intros i. exists (mkLeaf (CNode ERevert []) (Some sym_panic_data) true).
    split; [left; reflexivity|]. split; [reflexivity|].
    split; [reflexivity|]. intros _ _. split; [reflexivity|].
    exists sym_panic_data. split; reflexivity.
  - intros l i _ H. exact H.
  - intros q H i Hq. subst q. unfold cex_solver, S_SAT, S_UNSAT in H. discriminate.
  - intros q. destruct q; cbn; auto.
  - left. split; [reflexivity|]. exists 1. split; [lia|]. split; [reflexivity|]. right. left. reflexivity.
Qed.

(* ------------------------------------------------------------------ setup() keeps the only feasible success path *)

Section Setup.
  Variable Q : Type.
  Variable solve_low : Q -> Z.

  (* a path of setUp counts as successful iff it has no error AND is not stuck *)
  Lemma setup_path_ok_spec : forall e st, setup_path_ok e st = true <-> (e = false /\ st = false).
  Proof. intros e st. unfold setup_path_ok. destruct e, st; cbn; split; intros H; try discriminate; try tauto; destruct H; discriminate. Qed.

  Lemma setup_keeps_spec : forall r, setup_keeps r = true <-> r <> S_UNSAT.
  Proof. intros r. unfold setup_keeps, S_UNSAT. rewrite negb_true_iff, Z.eqb_neq. tauto. Qed.

  (* a path that is dropped although it has no error of its own (stuck inside a sub-call) is reported *)
  Lemma setup_dropped_stuck_reported : forall e st,
    setup_path_ok e st = false -> e = false -> setup_reports e st = true.
  Proof. intros e st H ->. unfold setup_path_ok, setup_reports in *. destruct st; cbn in *; [reflexivity | discriminate]. Qed.

  Theorem setup_select_unique : forall paths p,
    setup_select Q solve_low paths = SetupOk p ->
    In p paths /\ sp_error p = false /\ sp_stuck p = false /\
    forall p', In p' paths -> sp_error p' = false -> sp_stuck p' = false -> p' = p \/ solve_low (sp_query p') = S_UNSAT.
  Proof.
    intros paths p H. unfold setup_select in H.
    set (ok := filter (fun p => setup_path_ok (sp_error p) (sp_stuck p)) paths) in *.
    assert (Hok : forall x, In x ok <-> In x paths /\ sp_error x = false /\ sp_stuck x = false).
    { intros x. unfold ok. rewrite filter_In. rewrite setup_path_ok_spec. tauto. }
    destruct ok as [|p1 [|p2 rest]] eqn:E.
    - discriminate.
    - inversion H; subst p1. destruct (proj1 (Hok p) (or_introl eq_refl)) as [A [B C]].
      repeat split; auto. intros p' Hin He Hs. left.
      destruct (proj2 (Hok p') (conj Hin (conj He Hs))) as [<-|[]]. reflexivity.
    - set (f := filter (fun p => setup_keeps (solve_low (sp_query p))) (p1 :: p2 :: rest)) in *.
      assert (Hf : forall x, In x f <-> In x (p1 :: p2 :: rest) /\ solve_low (sp_query x) <> S_UNSAT).
      { intros x. unfold f. rewrite filter_In, setup_keeps_spec. tauto. }
      destruct f as [|q1 [|q2 rest']] eqn:F; try discriminate.
      inversion H; subst q1.
      destruct (proj1 (Hf p) (or_introl eq_refl)) as [A B].
      destruct (proj1 (Hok p) A) as [A1 [A2 A3]].
      repeat split; auto. intros p' Hin He Hs.
      destruct (Z.eq_dec (solve_low (sp_query p')) S_UNSAT) as [U|U]; [right; exact U|left].
      destruct (proj2 (Hf p') (conj (proj2 (Hok p') (conj Hin (conj He Hs))) U)) as [<-|[]]. reflexivity.
  Qed.

  (* the state handed to the tests is never a path that halmos could not continue *)
  Corollary setup_selected_not_stuck : forall paths p,
    setup_select Q solve_low paths = SetupOk p -> sp_error p = false /\ sp_stuck p = false.
  Proof. intros paths p H. destruct (setup_select_unique paths p H) as [_ [A [B _]]]. split; assumption. Qed.
End Setup.

(* ------------------------------------------------------------------ which loop-bound logs are reported (C10) *)

Lemma loop_bound_setup_and_test_reported : forall r,
  iv_setup r = true \/ iv_test r = true -> loop_bound_warned r = true.
Proof.
  intros r [H|H]; unfold loop_bound_warned, setup_warns_loop_bound, test_warns_loop_bound; rewrite H; cbn [andb orb];
    auto using orb_true_r.
Qed.

(* run_target_function reports the log of its private SEVM once the transaction has been explored:
   a bounded loop in ANY of the transactions of an invariant run is warned about, and nothing else is *)
Lemma loop_bound_in_target_reported : forall r,
  In true (iv_targets r) -> loop_bound_warned r = true.
Proof.
  intros r H. unfold loop_bound_warned, target_warns_loop_bound.
  assert (E : existsb (fun b : bool => true && b) (iv_targets r) = true).
  { apply existsb_exists. exists true. split; [exact H | reflexivity]. }
  rewrite E. rewrite orb_true_r. reflexivity.
Qed.

Theorem loop_bound_warned_iff : forall r,
  loop_bound_warned r = true <-> (iv_setup r = true \/ In true (iv_targets r) \/ iv_test r = true).
Proof.
  intros r. split.
  - unfold loop_bound_warned. intros H.
    apply orb_true_iff in H. destruct H as [H|H].
    + apply orb_true_iff in H. destruct H as [H|H].
      * apply andb_true_iff in H. tauto.
      * right; left. apply existsb_exists in H. destruct H as [b [Hin Hb]].
        apply andb_true_iff in Hb. destruct Hb as [_ ->]. exact Hin.
    + apply andb_true_iff in H. tauto.
  - intros [H|[H|H]].
    + apply loop_bound_setup_and_test_reported. left. exact H.
    + apply loop_bound_in_target_reported. exact H.
    + apply loop_bound_setup_and_test_reported. right. exact H.
Qed.

Lemma width_cut_spec : forall width pid, width_cut width pid = true <-> (width <> 0 /\ pid >= width).
Proof.
  intros. unfold width_cut. rewrite andb_true_iff, negb_true_iff, Z.eqb_neq, Z.geb_le. lia.
Qed.

(* a regular test: a bounded loop or a cut by --width reaches the report *)
Lemma run_test_flags : forall Q sa sl codes width (e : exploration Q),
  (ex_bounded e = true -> r_warn_loop (run_test Q sa sl codes width e) = true) /\
  (ex_depth_cut e = true -> r_warn_depth (run_test Q sa sl codes width e) = true).
Proof.
  intros. unfold run_test. cbn [r_warn_loop r_warn_depth]. unfold test_warns_loop_bound. split; intros ->; reflexivity.
Qed.

(* when no exception escapes and --width does not warn, every leaf was classified *)
Lemma run_test_no_width_warn_all_processed : forall Q sa sl codes width (e : exploration Q),
  (forall q, sl q <> S_SHUTDOWN) ->
  r_warn_width (run_test Q sa sl codes width e) = false ->
  r_exit (run_test Q sa sl codes width e) <> EX_EXCEPTION ->
  forall l, In l (ex_leaves e) -> is_panic_of (l_err Q l) (l_data l) codes <> TRaise.
Proof.
  intros Q sa sl codes width e Hns Hw Hx l Hin. unfold run_test in *. cbn [r_warn_width r_exit] in *.
  destruct (a_raised (loop Q sa sl codes width 0 (ex_leaves e) acc0)) eqn:R; [congruence|].
  destruct (loop_props Q sa sl Hns codes width (ex_leaves e) 0 acc0 R Hw) as [_ [_ [_ H]]].
  apply (H l Hin).
Qed.

(* ------------------------------------------------------------------ classification chain and stuck filter *)

Lemma classify_potential_spec : forall p f s h, classify p f s h = CL_POTENTIAL <-> (p = true \/ f = true).
Proof.
  intros p f s h. unfold classify, CL_POTENTIAL.
  destruct p, f, s, h; cbn; split; intros H; try discriminate; auto; destruct H; discriminate.
Qed.

Lemma classify_stuck_spec : forall p f s h, classify p f s h = CL_STUCK <-> (p = false /\ f = false /\ s = true).
Proof.
  intros p f s h. unfold classify, CL_STUCK.
  destruct p, f, s, h; cbn; split; intros H; try discriminate; auto; destruct H as [? [? ?]]; discriminate.
Qed.

Lemma stuck_counts_spec : forall r, stuck_counts r = true <-> r <> S_UNSAT.
Proof. intros r. unfold stuck_counts, S_UNSAT. rewrite negb_true_iff, Z.eqb_neq. tauto. Qed.
