(* C16 — proofs about Model/CacheTestModel.v: the cache and the consumers of the solver in a test.

   Two semantics.  A path condition mentions mul/div/mod/exp/... through uninterpreted functions
   (f_evm_bvmul_256 ...): `holds_a` is truth under an arbitrary interpretation of them (the query
   as posed), `holds_r` truth under the real EVM operations (the query after refine()).  Every
   real valuation is an abstract one: sat_r fs -> sat_a fs (`abstraction`).
   A core returned for the un-refined file is unsat under holds_a (hence under holds_r); a core
   returned for the refined file is unsat under holds_r ONLY.  So the cache invariant is
   "every stored core is unsat under holds_r", which justifies answering a consumer whose own
   pipeline ends in refinement (solve_end_to_end) and nobody else. *)
From Coq Require Import ZArith List Bool Lia.
From HV Require Import Gen.GenUnsatCore Gen.GenCoreAppend Gen.GenCacheUsers
  Spec.CacheSpec Model.CacheModel Model.CacheTestModel Proofs.CacheProofs.
Import ListNotations.

Section CacheTestProofs.
  Variable id : Type.
  Variable id_eqb : id -> id -> bool.
  Hypothesis id_eqb_spec : forall a b, id_eqb a b = true <-> a = b.
  Variables (formula model Va Vr : Type).
  Variable holds_a : Va -> formula -> Prop.
  Variable holds_r : Vr -> formula -> Prop.
  Hypothesis abstraction : forall fs, sat formula Vr holds_r fs -> sat formula Va holds_a fs.
  Variable low : bool -> query id formula -> reply id model.
  Variable refine_changes : query id formula -> bool.

  Notation query := (query id formula).
  Notation reply := (reply id model).
  Notation tpath := (tpath id formula).
  Notation tstate := (tstate id model).
  Notation check := (check_unsat_cores id id_eqb).
  Notation select := (select id id_eqb formula).
  Notation callback := (callback id model).
  Notation low_level := (solve_low_level id formula model low).
  Notation e2e := (solve_end_to_end id id_eqb formula model low refine_changes).
  Notation stuck_solve := (stuck_solve id id_eqb formula model low refine_changes).
  Notation setup_solve := (setup_solve id id_eqb formula model low refine_changes).
  Notation assert_solve := (assert_solve id id_eqb formula model low refine_changes).
  Notation test_step := (test_step id id_eqb formula model low refine_changes).
  Notation test_run := (test_run id id_eqb formula model low refine_changes).
  Notation test_verdict := (test_verdict id id_eqb formula model low refine_changes).
  Notation observe := (observe id model).
  Notation strip := (strip id model).
  Notation sat_a := (sat formula Va holds_a).
  Notation sat_r := (sat formula Vr holds_r).
  Notation unsat_a := (unsat formula Va holds_a).
  Notation unsat_r := (unsat formula Vr holds_r).

  Definition tqueries (ps : list tpath) : list query := map snd ps.

  (* H1, per file: the core of the un-refined file is unsat as posed, the core of the refined file is
     unsat under the real operations *)
  Definition low_core_sound2 (qs : list query) : Prop :=
    forall q b c, In q qs -> low b q = Unsat (Some c) -> c <> [] ->
      if b then unsat_r (select q c) else unsat_a (select q c).

  (* H3, for the assertion queries only *)
  Definition off_complete_on (ps : list tpath) : Prop :=
    forall q, In (KAssert, q) ps -> unsat_r (map snd q) -> strip (e2e false [] q) = Unsat None.

  Lemma unsat_a_r : forall fs, unsat_a fs -> unsat_r fs.
  Proof. intros fs H Hs. apply H. apply abstraction. exact Hs. Qed.

  Lemma core_sound2_r : forall qs, low_core_sound2 qs ->
    low_core_sound id id_eqb formula model Vr holds_r low qs.
  Proof.
    intros qs H q b c Hq Hl Hne. specialize (H q b c Hq Hl Hne). destruct b; [exact H | apply unsat_a_r; exact H].
  Qed.

  (* ---------------- the un-refined consumers: independent of the cache, whatever it contains *)
  Lemma stuck_any_state : forall cache cores q,
    strip (stuck_solve cache cores q) = strip (low false q).
  Proof.
    intros cache cores q. unfold CacheTestModel.stuck_solve, consume, gen_stuck_solve, solve_low_level.
    apply strip_from_result.
  Qed.

  Lemma setup_any_state : forall cache cores q,
    strip (setup_solve cache cores q) = strip (low false q).
  Proof.
    intros cache cores q. unfold CacheTestModel.setup_solve, consume, gen_setup_solve, solve_low_level.
    apply strip_from_result.
  Qed.

  Lemma is_unsat_strip : forall r : reply, is_unsat id model (strip r) = is_unsat id model r.
  Proof. destruct r; reflexivity. Qed.

  Lemma setup_keeps_any_state : forall cache cores q,
    setup_keeps id id_eqb formula model low refine_changes cache cores q =
    negb (is_unsat id model (low false q)).
  Proof.
    intros. unfold setup_keeps. rewrite <- is_unsat_strip, setup_any_state, is_unsat_strip. reflexivity.
  Qed.

  (* a stuck / setup consumer is never answered without the solver *)
  Lemma stuck_never_skips : forall cache cores q,
    skips id id_eqb formula (@gen_stuck_solve bool) cache cores q = false.
  Proof. reflexivity. Qed.

  Lemma unrefined_any_state : forall cache cores q,
    strip (stuck_solve cache cores q) = strip (low false q) /\
    strip (setup_solve cache cores q) = strip (low false q) /\
    skips id id_eqb formula (@gen_stuck_solve bool) cache cores q = false.
  Proof.
    intros. exact (conj (stuck_any_state cache cores q) (conj (setup_any_state cache cores q) (stuck_never_skips cache cores q))).
  Qed.

  (* ---------------- the refining consumer, any sound cache state *)
  Lemma assert_any_state : forall qs cores q,
    stable_queries id formula qs ->
    witnessed_q id id_eqb formula Vr holds_r qs cores ->
    In q qs ->
    (unsat_r (map snd q) -> strip (e2e false [] q) = Unsat None) ->
    strip (assert_solve true cores q) = strip (assert_solve false [] q).
  Proof.
    intros qs cores q Hst Hw Hq Hc.
    unfold CacheTestModel.assert_solve, consume, gen_assert_solve.
    destruct (check (qids id formula q) cores) eqn:Hhit.
    - rewrite (Hc (hit_unsat id id_eqb id_eqb_spec formula Vr holds_r qs cores q Hst Hw Hq Hhit)).
      rewrite e2e_eq, Hhit. reflexivity.
    - rewrite !e2e_eq, Hhit, (check_nil id id_eqb id_eqb_spec). unfold solve_low_level.
      destruct (low false q) as [m [|] | co | |] eqn:E; simpl; try reflexivity.
      destruct (refine_changes q); [|reflexivity].
      rewrite !strip_from_result. reflexivity.
  Qed.

  (* every consumer answered without the solver is unsatisfiable in the semantics of ITS query *)
  Definition consumer_unsat (k : pkind) (q : query) : Prop :=
    match k with
    | KAssert => unsat_r (map snd q)      (* solve_end_to_end: the answer after refinement *)
    | _ => unsat_a (map snd q)            (* the query as posed *)
    end.

  Definition skipped (cache : bool) (cores : list (list id)) (p : tpath) : bool :=
    match fst p with
    | KAssert => skips id id_eqb formula (@gen_assert_solve bool) cache cores (snd p)
    | KStuck => skips id id_eqb formula (@gen_stuck_solve bool) cache cores (snd p)
    | _ => false
    end.

  Lemma skipped_sound : forall qs cores p,
    stable_queries id formula qs ->
    witnessed_q id id_eqb formula Vr holds_r qs cores ->
    In (snd p) qs ->
    skipped true cores p = true -> consumer_unsat (fst p) (snd p).
  Proof.
    intros qs cores [k q] Hst Hw Hq. unfold skipped. simpl.
    (* the un-refined consumers never skip the solver (stuck_never_skips): only the assertion case is left *)
    destruct k; simpl; try discriminate.
    unfold skips, gen_assert_solve, lookup. intros Hhit.
    exact (hit_unsat id id_eqb id_eqb_spec formula Vr holds_r qs cores q Hst Hw Hq Hhit).
  Qed.

  (* ---------------- the whole path loop *)
  Definition related (qs : list query) (a b : tstate) : Prop :=
    witnessed_q id id_eqb formula Vr holds_r qs (t_cores id model a) /\
    t_cores id model b = [] /\ observe a = observe b.

  Lemma observe_eq : forall a b : tstate, observe a = observe b ->
    map strip (t_outs id model a) = map strip (t_outs id model b) /\
    t_stuck id model a = t_stuck id model b /\ t_normal id model a = t_normal id model b.
  Proof. intros a b H. unfold CacheTestModel.observe in H. inversion H. auto. Qed.

  Lemma step_related : forall ps a b p,
    low_core_sound2 (tqueries ps) -> stable_queries id formula (tqueries ps) -> off_complete_on ps ->
    In p ps -> related (tqueries ps) a b ->
    related (tqueries ps) (test_step true a p) (test_step false b p).
  Proof.
    intros ps a b [k q] Hs Hst Hc Hp [Hw [Hb Ho]].
    assert (Hq : In q (tqueries ps)) by (unfold tqueries; apply in_map_iff; exists (k, q); auto).
    apply observe_eq in Ho. destruct Ho as [Ho [Hk Hn]].
    destruct k; unfold CacheTestModel.test_step; cbn [t_cores t_outs t_stuck t_normal].
    - (* assertion query *)
      assert (E : strip (assert_solve true (t_cores id model a) q) = strip (assert_solve false (t_cores id model b) q)).
      { rewrite Hb. apply (assert_any_state (tqueries ps)); auto. }
      split; [|split].
      + cbn [t_cores]. unfold CacheTestModel.assert_solve, consume, gen_assert_solve.
        apply (callback_witnessed id id_eqb formula model Vr holds_r low refine_changes (tqueries ps) _ true q);
          [apply core_sound2_r; exact Hs | exact Hq | exact Hw].
      + cbn [t_cores]. rewrite Hb. unfold CacheTestModel.assert_solve, consume, gen_assert_solve.
        apply callback_no_core. apply e2e_off_no_core.
      + unfold CacheTestModel.observe. cbn [t_outs t_stuck t_normal].
        rewrite !map_app. cbn [map]. rewrite Ho, E, Hk, Hn. reflexivity.
    - (* stuck path *)
      split; [|split]; cbn [t_cores]; [exact Hw | exact Hb |].
      unfold CacheTestModel.observe. cbn [t_outs t_stuck t_normal].
      rewrite <- (is_unsat_strip (stuck_solve true _ q)), <- (is_unsat_strip (stuck_solve false _ q)).
      rewrite !stuck_any_state. rewrite Ho, Hk, Hn. reflexivity.
    - split; [|split]; cbn [t_cores]; [exact Hw | exact Hb |].
      unfold CacheTestModel.observe. cbn [t_outs t_stuck t_normal]. rewrite Ho, Hk, Hn. reflexivity.
    - split; [|split]; [exact Hw | exact Hb |].
      unfold CacheTestModel.observe. rewrite Ho, Hk, Hn. reflexivity.
  Qed.

  Lemma fold_related : forall ps rest a b,
    low_core_sound2 (tqueries ps) -> stable_queries id formula (tqueries ps) -> off_complete_on ps ->
    (forall p, In p rest -> In p ps) -> related (tqueries ps) a b ->
    related (tqueries ps) (fold_left (test_step true) rest a) (fold_left (test_step false) rest b).
  Proof.
    intros ps rest. induction rest as [|p rest IH]; intros a b Hs Hst Hc Hsub Hr; [exact Hr|].
    simpl. apply IH; auto.
    - intros x Hx. apply Hsub. right. exact Hx.
    - apply step_related; auto. apply Hsub. left. reflexivity.
  Qed.

  (* TRANSPARENCY of a whole test: assertion, stuck, normal and reverted paths in any number and order *)
  Theorem test_transparent : forall ps,
    low_core_sound2 (tqueries ps) -> stable_queries id formula (tqueries ps) -> off_complete_on ps ->
    observe (test_run true ps) = observe (test_run false ps).
  Proof.
    intros ps Hs Hst Hc. unfold CacheTestModel.test_run.
    apply (fold_related ps ps); auto.
    split; [|split]; [intros c [] | reflexivity | reflexivity].
  Qed.

  Theorem test_transparent_verdict : forall ps,
    low_core_sound2 (tqueries ps) -> stable_queries id formula (tqueries ps) -> off_complete_on ps ->
    test_verdict true ps = test_verdict false ps.
  Proof.
    intros ps Hs Hst Hc. pose proof (test_transparent ps Hs Hst Hc) as H.
    apply observe_eq in H. destruct H as [Ho [Hk Hn]].
    unfold CacheTestModel.test_verdict. rewrite Hk, Hn. apply strip_verdict. exact Ho.
  Qed.

  Theorem test_transparent_both : forall ps,
    low_core_sound2 (tqueries ps) -> stable_queries id formula (tqueries ps) -> off_complete_on ps ->
    observe (test_run true ps) = observe (test_run false ps) /\ test_verdict true ps = test_verdict false ps.
  Proof. intros ps H1 H2 H3. exact (conj (test_transparent ps H1 H2 H3) (test_transparent_verdict ps H1 H2 H3)). Qed.

  (* SOUNDNESS of a whole test: whenever a consumer is answered without the solver, its query is
     unsatisfiable in the semantics that consumer asks about *)
  Lemma run_witnessed : forall ps rest a,
    low_core_sound2 (tqueries ps) -> (forall p, In p rest -> In p ps) ->
    witnessed_q id id_eqb formula Vr holds_r (tqueries ps) (t_cores id model a) ->
    witnessed_q id id_eqb formula Vr holds_r (tqueries ps) (t_cores id model (fold_left (test_step true) rest a)).
  Proof.
    intros ps rest. induction rest as [|[k q] rest IH]; intros a Hs Hsub Hw; [exact Hw|].
    simpl. apply IH; auto; [intros x Hx; apply Hsub; right; exact Hx|].
    assert (Hq : In q (tqueries ps)).
    { unfold tqueries. apply in_map_iff. exists (k, q). split; [reflexivity | apply Hsub; left; reflexivity]. }
    destruct k; cbn [t_cores]; try exact Hw.
    unfold CacheTestModel.assert_solve, consume, gen_assert_solve.
    apply (callback_witnessed id id_eqb formula model Vr holds_r low refine_changes (tqueries ps) _ true q);
      [apply core_sound2_r; exact Hs | exact Hq | exact Hw].
  Qed.

  Theorem test_sound : forall ps,
    low_core_sound2 (tqueries ps) -> stable_queries id formula (tqueries ps) ->
    forall pre p post, ps = pre ++ p :: post ->
      skipped true (t_cores id model (test_run true pre)) p = true ->
      consumer_unsat (fst p) (snd p).
  Proof.
    intros ps Hs Hst pre p post Heq Hsk.
    apply (skipped_sound (tqueries ps) (t_cores id model (test_run true pre)) p Hst); [| |exact Hsk].
    - unfold CacheTestModel.test_run. apply run_witnessed; auto.
      + intros x Hx. rewrite Heq. apply in_or_app. left. exact Hx.
      + intros c [].
    - unfold tqueries. apply in_map. rewrite Heq. apply in_or_app. right. left. reflexivity.
  Qed.
End CacheTestProofs.

(* ================================================================== why the un-refined consumers must not look up
   formulas: literals over boolean variables; variable 0 stands for the value of an abstracted
   operation, which the real semantics fixes to `true`.  q1 = {1: x0 is false} is satisfiable as
   posed and unsatisfiable once refined; a truthful solver says so and returns the core [1] for the
   refined file.  After that, the cache contains [1]; the stuck path q2 = {1: x0 is false, 2: x1}
   contains it and is SATISFIABLE as posed: a look-up by the stuck-path consumer would be wrong. *)
Definition lit_holds_r (v : N -> bool) (f : lit) : Prop := lit_holds v f /\ v 0%N = true.

Definition rq1 : query N lit := [(1%N, (0%N, false))].
Definition rq2 : query N lit := [(1%N, (0%N, false)); (2%N, (1%N, true))].
Definition rlow (refined : bool) (q : query N lit) : reply N N :=
  if refined then Unsat (Some [1%N]) else Sat 0%N false.

Lemma lit_abstraction : forall fs, sat lit (N -> bool) lit_holds_r fs -> sat lit (N -> bool) lit_holds fs.
Proof. intros fs [v H]. exists v. intros f Hf. apply (H f Hf). Qed.

Lemma refined_core_not_abstract :
  low_core_sound2 N N.eqb lit N (N -> bool) (N -> bool) lit_holds lit_holds_r rlow [rq1; rq2] /\
  stable_queries N lit [rq1; rq2] /\
  lookup N N.eqb lit (t_cores N N (test_run N N.eqb lit N rlow (fun _ => true) true [(KAssert, rq1)])) rq2 = true /\
  sat lit (N -> bool) lit_holds (map snd rq2) /\
  is_unsat N N (rlow false rq2) = false.
Proof.
  split; [|split; [|split; [|split]]].
  - intros q b c Hq Hl Hne. destruct b; simpl in Hl; [|discriminate].
    injection Hl as Hc. subst c.
    intros [v Hv]. destruct Hq as [Hq | [Hq | []]]; subst q.
    + specialize (Hv (0%N, false)). simpl in Hv. destruct (Hv (or_introl eq_refl)) as [H1 H2].
      unfold lit_holds in H1. simpl in H1. congruence.
    + specialize (Hv (0%N, false)). simpl in Hv. destruct (Hv (or_introl eq_refl)) as [H1 H2].
      unfold lit_holds in H1. simpl in H1. congruence.
  - intros q1 q2 H1 H2 i f1 f2 Hf1 Hf2.
    destruct H1 as [H1 | [H1 | []]]; destruct H2 as [H2 | [H2 | []]]; subst q1 q2; simpl in Hf1, Hf2;
      repeat match goal with H : _ \/ _ |- _ => destruct H | H : False |- _ => destruct H end;
      congruence.
  - vm_compute. reflexivity.
  - exists (fun n => N.eqb n 1%N). intros f Hf. simpl in Hf.
    destruct Hf as [Hf | [Hf | []]]; subst f; reflexivity.
  - reflexivity.
Qed.

(* non-vacuity of test_transparent: on that very test (assertion path, then the stuck path, then a normal one)
   the real run_test counts the stuck path with and without the cache: [ERROR] stuck both times *)
Lemma test_nonvacuous :
  test_verdict N N.eqb lit N rlow (fun _ => true) true [(KAssert, rq1); (KStuck, rq2); (KNormal, [])] = VStuck /\
  test_verdict N N.eqb lit N rlow (fun _ => true) false [(KAssert, rq1); (KStuck, rq2); (KNormal, [])] = VStuck /\
  t_cores N N (test_run N N.eqb lit N rlow (fun _ => true) true [(KAssert, rq1); (KStuck, rq2); (KNormal, [])]) = [[1%N]].
Proof. vm_compute. auto. Qed.
