(* C16 — proofs about Model/CacheTestModel.v: the cache and the consumers of the solver in a test.

   Two semantics.  A path condition mentions mul/div/mod/exp/... through uninterpreted functions
   (f_evm_bvmul_256 ...): `holds_a` is truth under an arbitrary interpretation of them (the query
   as posed), `holds_r` truth under the real EVM operations (the query after refine()).  Every
   real valuation is an abstract one: sat_r fs -> sat_a fs (`abstraction`).
   A core returned for the un-refined file is unsat under holds_a (hence under holds_r); a core
   returned for the refined file is unsat under holds_r ONLY.  So the cache invariant is
   "every stored core is unsat under holds_r", which justifies answering a consumer whose own
   pipeline ends in refinement (solve_end_to_end) and nobody else. *)
From Coq Require Import ZArith List Bool Lia.
From HV Require Import Gen.GenUnsatCore Gen.GenCoreAppend Gen.GenCacheUsers
  Spec.CacheSpec Model.CacheModel Model.CacheTestModel Proofs.CacheProofs.
Import ListNotations.

Section CacheTestProofs.
  Variable id : Type.
  Variable id_eqb : id -> id -> bool.
  Hypothesis id_eqb_spec : forall a b, id_eqb a b = true <-> a = b.
  Variables (formula model Va Vr : Type).
  Variable holds_a : Va -> formula -> Prop.
  Variable holds_r : Vr -> formula -> Prop.
  Hypothesis abstraction : forall fs, sat formula Vr holds_r fs -> sat formula Va holds_a fs.
  Variable low : bool -> query id formula -> reply id model.
  Variable refine_changes : query id formula -> bool.

  Notation query := (query id formula).
  Notation reply := (reply id model).
  Notation tpath := (tpath id formula).
  Notation tstate := (tstate id model).
  Notation check := (check_unsat_cores id id_eqb).
  Notation select := (select id id_eqb formula).
  Notation callback := (callback id model).
  Notation low_level := (solve_low_level id formula model low).
  Notation e2e := (solve_end_to_end id id_eqb formula model low refine_changes).
  Notation stuck_solve := (stuck_solve id id_eqb formula model low refine_changes).
  Notation setup_solve := (setup_solve id id_eqb formula model low refine_changes).
  Notation assert_solve := (assert_solve id id_eqb formula model low refine_changes).
  Notation test_step := (test_step id id_eqb formula model low refine_changes).
  Notation test_run := (test_run id id_eqb formula model low refine_changes).
  Notation test_verdict := (test_verdict id id_eqb formula model low refine_changes).
  Notation observe := (observe id model).
  Notation strip := (strip id model).
  Notation sat_a := (sat formula Va holds_a).
  Notation sat_r := (sat formula Vr holds_r).
  Notation unsat_a := (unsat formula Va holds_a).
  Notation unsat_r := (unsat formula Vr holds_r).

  Definition tqueries (ps : list tpath) : list query := map snd ps.

  (* H1, per file: the core of the un-refined file is unsat as posed, the core of the refined file is
     unsat under the real operations *)
  Definition low_core_sound2 (qs : list query) : Prop :=
    forall q b c, In q qs -> low b q = Unsat (Some c) -> c <> [] ->
      if b then unsat_r (select q c) else unsat_a (select q c).

  (* H3, for the assertion queries only *)
  Definition off_complete_on (ps : list tpath) : Prop :=
    forall q, In (KAssert, q) ps -> unsat_r (map snd q) -> strip (e2e false [] q) = Unsat None.

  Lemma unsat_a_r : forall fs, unsat_a fs -> unsat_r fs.
  Proof. intros fs H Hs. apply H. apply abstraction. exact Hs. Qed.

  Lemma core_sound2_r : forall qs, low_core_sound2 qs ->
    low_core_sound id id_eqb formula model Vr holds_r low qs.
  Proof.
    intros qs H q b c Hq Hl Hne. specialize (H q b c Hq Hl Hne). destruct b; [exact H | apply unsat_a_r; exact H].
  Qed.

  (* ---------------- the un-refined consumers: independent of the cache, whatever it contains *)
  Lemma stuck_any_state : forall cache cores q,
    strip (stuck_solve cache cores q) = strip (low false q).
  Proof.
    intros cache cores q. unfold CacheTestModel.stuck_solve, consume, gen_stuck_solve, solve_low_level.
    apply strip_from_result.
  Qed.

  Lemma setup_any_state : forall cache cores q,
    strip (setup_solve cache cores q) = strip (low false q).
  Proof.
    intros cache cores q. unfold CacheTestModel.setup_solve, consume, gen_setup_solve, solve_low_level.
    apply strip_from_result.
  Qed.

  Lemma is_unsat_strip : forall r : reply, is_unsat id model (strip r) = is_unsat id model r.
  Proof. destruct r; reflexivity. Qed.

  Lemma setup_keeps_any_state : forall cache cores q,
    setup_keeps id id_eqb formula model low refine_changes cache cores q =
    negb (is_unsat id model (low false q)).
  Proof.
    intros. unfold setup_keeps. rewrite <- is_unsat_strip, setup_any_state, is_unsat_strip. reflexivity.
  Qed.

  (* a stuck / setup consumer is never answered without the solver *)
  Lemma stuck_never_skips : forall cache cores q,
    skips id id_eqb formula (@gen_stuck_solve bool) cache cores q = false.
  Proof. reflexivity. Qed.

  Lemma unrefined_any_state : forall cache cores q,
    strip (stuck_solve cache cores q) = strip (low false q) /\
    strip (setup_solve cache cores q) = strip (low false q) /\
    skips id id_eqb formula (@gen_stuck_solve bool) cache cores q = false.
  Proof.
    intros. exact (conj (stuck_any_state cache cores q) (conj (setup_any_state cache cores q) (stuck_never_skips cache cores q))).
  Qed.

  (* ---------------- the refining consumer, any sound cache state *)
  Lemma assert_any_state : forall qs cores q,
    stable_queries id formula qs ->
    witnessed_q id id_eqb formula Vr holds_r qs cores ->
    In q qs ->
    (unsat_r (map snd q) -> strip (e2e false [] q) = Unsat None) ->
    strip (assert_solve true cores q) = strip (assert_solve false [] q).
  Proof.
    intros qs cores q Hst Hw Hq Hc.
    unfold CacheTestModel.assert_solve, consume, gen_assert_solve.
    destruct (check (qids id formula q) cores) eqn:Hhit.
    - rewrite (Hc (hit_unsat id id_eqb id_eqb_spec formula Vr holds_r qs cores q Hst Hw Hq Hhit)).
      rewrite e2e_eq, Hhit. reflexivity.
    - rewrite !e2e_eq, Hhit, (check_nil id id_eqb id_eqb_spec). unfold solve_low_level.
      destruct (low false q) as [m [|] | co | |] eqn:E; simpl; try reflexivity.
      destruct (refine_changes q); [|reflexivity].
      rewrite !strip_from_result. reflexivity.
  Qed.

  (* every consumer answered without the solver is unsatisfiable in the semantics of ITS query *)
  Definition consumer_unsat (k : pkind) (q : query) : Prop :=
    match k with
    | KAssert => unsat_r (map snd q)      (* solve_end_to_end: the answer after refinement *)
    | _ => unsat_a (map snd q)            (* the query as posed *)
    end.

  Definition skipped (cache : bool) (cores : list (list id)) (p : tpath) : bool :=
    match fst p with
    | KAssert => skips id id_eqb formula (@gen_assert_solve bool) cache cores (snd p)
    | KStuck => skips id id_eqb formula (@gen_stuck_solve bool) cache cores (snd p)
    | _ => false
    end.

  Lemma skipped_sound : forall qs cores p,
    stable_queries id formula qs ->
    witnessed_q id id_eqb formula Vr holds_r qs cores ->
    In (snd p) qs ->
    skipped true cores p = true -> consumer_unsat (fst p) (snd p).
  Proof.
    intros qs cores [k q] Hst Hw Hq. unfold skipped. simpl.
    (* the un-refined consumers never skip the solver (stuck_never_skips): only the assertion case is left *)
    destruct k; simpl; try discriminate.
    unfold skips, gen_assert_solve, lookup. intros Hhit.
    exact (hit_unsat id id_eqb id_eqb_spec formula Vr holds_r qs cores q Hst Hw Hq Hhit).
  Qed.

  (* ---------------- the whole path loop *)
  Definition related (qs : list query) (a b : tstate) : Prop :=
    witnessed_q id id_eqb formula Vr holds_r qs (t_cores id model a) /\
    t_cores id model b = [] /\ observe a = observe b.

  Lemma observe_eq : forall a b : tstate, observe a = observe b ->
    map strip (t_outs id model a) = map strip (t_outs id model b) /\
    t_stuck id model a = t_stuck id model b /\ t_normal id model a = t_normal id model b.
  Proof. intros a b H. unfold CacheTestModel.observe in H. inversion H. auto. Qed.

  Lemma step_related : forall ps a b p,
    low_core_sound2 (tqueries ps) -> stable_queries id formula (tqueries ps) -> off_complete_on ps ->
    In p ps -> related (tqueries ps) a b ->
    related (tqueries ps) (test_step true a p) (test_step false b p).
  Proof.
    intros ps a b [k q] Hs Hst Hc Hp [Hw [Hb Ho]].
    assert (Hq : In q (tqueries ps)) by (unfold tqueries; apply in_map_iff; exists (k, q); auto).
    apply observe_eq in Ho. destruct Ho as [Ho [Hk Hn]].
    destruct k; unfold CacheTestModel.test_step; cbn [t_cores t_outs t_stuck t_normal].
    - (* assertion query *)
      assert (E : strip (assert_solve true (t_cores id model a) q) = strip (assert_solve false (t_cores id model b) q)).
      { rewrite Hb. apply (assert_any_state (tqueries ps)); auto. }
      split; [|split].
      + cbn [t_cores]. unfold CacheTestModel.assert_solve, consume, gen_assert_solve.
        apply (callback_witnessed id id_eqb formula model Vr holds_r low refine_changes (tqueries ps) _ true q);
          [apply core_sound2_r; exact Hs | exact Hq | exact Hw].
      + cbn [t_cores]. rewrite Hb. unfold CacheTestModel.assert_solve, consume, gen_assert_solve.
        apply callback_no_core. apply e2e_off_no_core.
      + unfold CacheTestModel.observe. cbn [t_outs t_stuck t_normal].
        rewrite !map_app. cbn [map]. rewrite Ho, E, Hk, Hn. reflexivity.
    - (* stuck path *)
      split; [|split]; cbn [t_cores]; [exact Hw | exact Hb |].
      unfold CacheTestModel.observe. cbn [t_outs t_stuck t_normal].
      rewrite <- (is_unsat_strip (stuck_solve true _ q)), <- (is_unsat_strip (stuck_solve false _ q)).
      rewrite !stuck_any_state. rewrite Ho, Hk, Hn. reflexivity.
    - split; [|split]; cbn [t_cores]; [exact Hw | exact Hb |].
      unfold CacheTestModel.observe. cbn [t_outs t_stuck t_normal]. rewrite Ho, Hk, Hn. reflexivity.
    - split; [|split]; [exact Hw | exact Hb |].
      unfold CacheTestModel.observe. rewrite Ho, Hk, Hn. reflexivity.
  Qed.

  Lemma fold_related : forall ps rest a b,
    low_core_sound2 (tqueries ps) -> stable_queries id formula (tqueries ps) -> off_complete_on ps ->
    (forall p, In p rest -> In p ps) -> related (tqueries ps) a b ->
    related (tqueries ps) (fold_left (test_step true) rest a) (fold_left (test_step false) rest b).
  Proof.
    intros ps rest. induction rest as [|p rest IH]; intros a b Hs Hst Hc Hsub Hr; [exact Hr|].
    simpl. apply IH; auto.
    - intros x Hx. apply Hsub. right. exact Hx.
    - apply step_related; auto. apply Hsub. left. reflexivity.
  Qed.

  (* TRANSPARENCY of a whole test: assertion, stuck, normal and reverted paths in any number and order *)
  Theorem test_transparent : forall ps,
    low_core_sound2 (tqueries ps) -> stable_queries id formula (tqueries ps) -> off_complete_on ps ->
    observe (test_run true ps) = observe (test_run false ps).
  Proof.
    intros ps Hs Hst Hc. unfold CacheTestModel.test_run.
    apply (fold_related ps ps); auto.
    split; [|split]; [intros c [] | reflexivity | reflexivity].
  Qed.

  Theorem test_transparent_verdict : forall ps,
    low_core_sound2 (tqueries ps) -> stable_queries id formula (tqueries ps) -> off_complete_on ps ->
    test_verdict true ps = test_verdict false ps.
  Proof.
    intros ps Hs Hst Hc. pose proof (test_transparent ps Hs Hst Hc) as H.
    apply observe_eq in H. destruct H as [Ho [Hk Hn]].
    unfold CacheTestModel.test_verdict. rewrite Hk, Hn. apply strip_verdict. exact Ho.
  Qed.

  Theorem test_transparent_both : forall ps,
    low_core_sound2 (tqueries ps) -> stable_queries id formula (tqueries ps) -> off_complete_on ps ->
    observe (test_run true ps) = observe (test_run false ps) /\ test_verdict true ps = test_verdict false ps.
  Proof. intros ps H1 H2 H3. exact (conj (test_transparent ps H1 H2 H3) (test_transparent_verdict ps H1 H2 H3)). Qed.

  (* SOUNDNESS of a whole test: whenever a consumer is answered without the solver, its query is
     unsatisfiable in the semantics that consumer asks about *)
  Lemma run_witnessed : forall ps rest a,
    low_core_sound2 (tqueries ps) -> (forall p, In p rest -> In p ps) ->
    witnessed_q id id_eqb formula Vr holds_r (tqueries ps) (t_cores id model a) ->
    witnessed_q id id_eqb formula Vr holds_r (tqueries ps) (t_cores id model (fold_left (test_step true) rest a)).
  Proof.
    intros ps rest. induction rest as [|[k q] rest IH]; intros a Hs Hsub Hw; [exact Hw|].
    simpl. apply IH; auto; [intros x Hx; apply Hsub; right; exact Hx|].
    assert (Hq : In q (tqueries ps)).
    { unfold tqueries. apply in_map_iff. exists (k, q). split; [reflexivity | apply Hsub; left; reflexivity]. }
    destruct k; cbn [t_cores]; try exact Hw.
    unfold CacheTestModel.assert_solve, consume, gen_assert_solve.
    apply (callback_witnessed id id_eqb formula model Vr holds_r low refine_changes (tqueries ps) _ true q);
      [apply core_sound2_r; exact Hs | exact Hq | exact Hw].
  Qed.

  Theorem test_sound : forall ps,
    low_core_sound2 (tqueries ps) -> stable_queries id formula (tqueries ps) ->
    forall pre p post, ps = pre ++ p :: post ->
      skipped true (t_cores id model (test_run true pre)) p = true ->
      consumer_unsat (fst p) (snd p).
  Proof.
    intros ps Hs Hst pre p post Heq Hsk.
    apply (skipped_sound (tqueries ps) (t_cores id model (test_run true pre)) p Hst); [| |exact Hsk].
    - unfold CacheTestModel.test_run. apply run_witnessed; auto.
      + intros x Hx. rewrite Heq. apply in_or_app. left. exact Hx.
      + intros c [].
    - unfold tqueries. apply in_map. rewrite Heq. apply in_or_app. right. left. reflexivity.
  Qed.
  (* ---------------- the whole path loop under ANY completion order of the solver pool *)
  Notation sstate := (sstate id formula model).
  Notation tjob := (tjob id formula model).
  Notation sched_step := (sched_step id id_eqb formula model low refine_changes).
  Notation sched_run := (sched_run id id_eqb formula model low refine_changes).
  Notation take_done := (take_done id formula model).
  Notation start_job := (start_job id id_eqb formula model low refine_changes).

  (* a submitted assertion query in the run with the cache and the same one in the run without *)
  Definition job_rel (ps : list tpath) (a b : tjob) : Prop :=
    match a, b with
    | (i, q, st), (i', q', st') =>
        i = i' /\ q = q' /\ In (KAssert, q) ps /\
        match st, st' with
        | None, None => True
        | Some o, Some o' =>
            strip o = strip o' /\ core_of id model o' = None /\
            (forall c, o = Unsat (Some c) -> exists b, low b q = Unsat (Some c))
        | _, _ => False
        end
    end.

  Definition srelated (ps : list tpath) (a b : sstate) : Prop :=
    related (tqueries ps) (s_t id formula model a) (s_t id formula model b) /\
    s_next id formula model a = s_next id formula model b /\
    Forall2 (job_rel ps) (s_jobs id formula model a) (s_jobs id formula model b).

  Lemma in_tqueries : forall (ps : list tpath) k q, In (k, q) ps -> In q (tqueries ps).
  Proof. intros ps k q H. unfold tqueries. apply in_map_iff. exists (k, q). auto. Qed.

  Lemma start_job_rel : forall ps cores j la lb,
    low_core_sound2 (tqueries ps) -> stable_queries id formula (tqueries ps) -> off_complete_on ps ->
    witnessed_q id id_eqb formula Vr holds_r (tqueries ps) cores ->
    Forall2 (job_rel ps) la lb ->
    Forall2 (job_rel ps) (start_job true cores j la) (start_job false [] j lb).
  Proof.
    intros ps cores j la lb Hs Hst Hc Hw H. induction H as [|[[i q] st] [[i' q'] st'] la lb Hj H IH]; [constructor|].
    simpl. constructor; [|exact IH].
    destruct Hj as [Hi [Hq [Hin Hst']]]. subst i' q'.
    destruct st as [o|]; destruct st' as [o'|]; try contradiction.
    - exact (conj eq_refl (conj eq_refl (conj Hin Hst'))).
    - destruct (Nat.eqb i j); [|repeat split; auto].
      repeat split; auto.
      + exact (assert_any_state (tqueries ps) cores q Hst Hw (in_tqueries ps _ q Hin) (Hc q Hin)).
      + unfold CacheTestModel.assert_solve, consume, gen_assert_solve. apply e2e_off_no_core.
      + intros c Hc'. unfold CacheTestModel.assert_solve, consume, gen_assert_solve in Hc'.
        eapply e2e_core_origin. exact Hc'.
  Qed.

  Lemma take_done_rel : forall ps j la lb,
    Forall2 (job_rel ps) la lb ->
    match take_done j la, take_done j lb with
    | Some (o, la'), Some (o', lb') =>
        Forall2 (job_rel ps) la' lb' /\ strip o = strip o' /\ core_of id model o' = None /\
        exists q, In (KAssert, q) ps /\ forall c, o = Unsat (Some c) -> exists b, low b q = Unsat (Some c)
    | None, None => True
    | _, _ => False
    end.
  Proof.
    intros ps j la lb H. induction H as [|[[i q] st] [[i' q'] st'] la lb Hj H IH]; [exact I|].
    destruct Hj as [Hi [Hq [Hin Hst']]]. subst i' q'. simpl.
    destruct (Nat.eqb i j).
    - destruct st as [o|]; destruct st' as [o'|]; try contradiction.
      + destruct Hst' as [E [N O]]. repeat split; auto. exists q. split; auto.
      + destruct (take_done j la) as [[o la']|]; destruct (take_done j lb) as [[o' lb']|]; try contradiction; auto.
        destruct IH as [F R]. split; [|exact R]. constructor; [|exact F]. repeat split; auto.
    - destruct (take_done j la) as [[o la']|]; destruct (take_done j lb) as [[o' lb']|]; try contradiction; auto.
      destruct IH as [F R]. split; [|exact R]. constructor; [|exact F]. repeat split; auto.
  Qed.

  Lemma callback_witnessed_any : forall qs cores (o : reply) q,
    low_core_sound id id_eqb formula model Vr holds_r low qs -> In q qs ->
    (forall c, o = Unsat (Some c) -> exists b, low b q = Unsat (Some c)) ->
    witnessed_q id id_eqb formula Vr holds_r qs cores ->
    witnessed_q id id_eqb formula Vr holds_r qs (callback cores o).
  Proof.
    intros qs cores o q Hs Hq Ho Hw c Hc. apply callback_in in Hc. destruct Hc as [Hc | [Hc Hne]]; [apply Hw; exact Hc|].
    destruct (Ho c Hc) as [b Hb]. exists q. split; [exact Hq|]. eapply Hs; eauto.
  Qed.

  Lemma sched_step_related : forall ps a b e,
    low_core_sound2 (tqueries ps) -> stable_queries id formula (tqueries ps) -> off_complete_on ps ->
    (forall p, e = TPath p -> In p ps) -> srelated ps a b ->
    srelated ps (sched_step true a e) (sched_step false b e).
  Proof.
    intros ps a b e Hs Hst Hc He [Hr [Hn Hj]].
    destruct e as [[k q] | j | j].
    - (* the main loop takes the next path *)
      assert (Hp : In (k, q) ps) by (apply He; reflexivity).
      destruct k; unfold CacheTestModel.sched_step; cbn [s_t s_jobs s_next].
      + split; [exact Hr|]. split; [rewrite Hn; reflexivity|].
        apply Forall2_app; [exact Hj|]. constructor; [|constructor]. rewrite Hn. repeat split; auto.
      + split; [apply (step_related ps); auto|]. split; [rewrite Hn; reflexivity | exact Hj].
      + split; [apply (step_related ps); auto|]. split; [rewrite Hn; reflexivity | exact Hj].
      + split; [apply (step_related ps); auto|]. split; [rewrite Hn; reflexivity | exact Hj].
    - (* a worker enters solve_end_to_end *)
      unfold CacheTestModel.sched_step; cbn [s_t s_jobs s_next].
      split; [exact Hr|]. split; [exact Hn|].
      destruct Hr as [Hw [Hb Ho]]. rewrite Hb. apply start_job_rel; auto.
    - (* a done-callback runs *)
      unfold CacheTestModel.sched_step.
      pose proof (take_done_rel ps j _ _ Hj) as T.
      destruct (take_done j (s_jobs id formula model a)) as [[o la']|];
        destruct (take_done j (s_jobs id formula model b)) as [[o' lb']|]; try contradiction.
      + destruct T as [F [E [N [q [Hin Ho]]]]]. destruct Hr as [Hw [Hb Hobs]].
        apply observe_eq in Hobs. destruct Hobs as [Hout [Hk Hnm]].
        split; [|split; [exact Hn | exact F]]. cbn [s_t].
        split; [|split]; cbn [t_cores].
        * apply (callback_witnessed_any (tqueries ps) _ o q); auto; [apply core_sound2_r; exact Hs | eapply in_tqueries; eauto].
        * rewrite Hb. apply callback_no_core. exact N.
        * unfold CacheTestModel.observe. cbn [t_outs t_stuck t_normal].
          rewrite !map_app. cbn [map]. rewrite Hout, E, Hk, Hnm. reflexivity.
      + split; [exact Hr|]. split; [exact Hn | exact Hj].
  Qed.

  Lemma sched_paths_in : forall evs p, In (TPath p) evs -> In p (sched_paths id formula evs).
  Proof.
    induction evs as [|e evs IH]; intros p H; [destruct H|].
    destruct H as [H | H]; [subst e; left; reflexivity|].
    destruct e; simpl; [right|idtac|idtac]; apply IH; exact H.
  Qed.

  Lemma sched_fold_related : forall ps rest a b,
    low_core_sound2 (tqueries ps) -> stable_queries id formula (tqueries ps) -> off_complete_on ps ->
    (forall p, In (TPath p) rest -> In p ps) -> srelated ps a b ->
    srelated ps (fold_left (sched_step true) rest a) (fold_left (sched_step false) rest b).
  Proof.
    intros ps rest. induction rest as [|e rest IH]; intros a b Hs Hst Hc Hsub Hr; [exact Hr|].
    simpl. apply IH; auto.
    - intros p Hp. apply Hsub. right. exact Hp.
    - apply sched_step_related; auto. intros p Hp. apply Hsub. left. exact Hp.
  Qed.

  (* TRANSPARENCY under any schedule: same outputs (in the order the callbacks ran), same counters, and the same
     queries still pending, with and without the cache *)
  Theorem sched_transparent : forall evs,
    let ps := sched_paths id formula evs in
    low_core_sound2 (tqueries ps) -> stable_queries id formula (tqueries ps) -> off_complete_on ps ->
    observe (s_t id formula model (sched_run true evs)) = observe (s_t id formula model (sched_run false evs)) /\
    map fst (s_jobs id formula model (sched_run true evs)) = map fst (s_jobs id formula model (sched_run false evs)) /\
    sched_verdict id id_eqb formula model low refine_changes true evs =
    sched_verdict id id_eqb formula model low refine_changes false evs.
  Proof.
    intros evs ps Hs Hst Hc.
    assert (R : srelated ps (sched_run true evs) (sched_run false evs)).
    { unfold CacheTestModel.sched_run. apply sched_fold_related; auto.
      - intros p Hp. apply sched_paths_in. exact Hp.
      - split; [|split; [reflexivity | constructor]].
        split; [intros c []|split; reflexivity]. }
    destruct R as [[Hw [Hb Ho]] [Hn Hj]].
    assert (J : map fst (s_jobs id formula model (sched_run true evs)) = map fst (s_jobs id formula model (sched_run false evs))).
    { clear -Hj. induction Hj as [|[[i q] st] [[i' q'] st'] la lb H Hj IH]; [reflexivity|].
      destruct H as [Hi [Hq _]]. subst. simpl. rewrite IH. reflexivity. }
    split; [exact Ho|]. split; [exact J|].
    unfold CacheTestModel.sched_verdict.
    destruct (s_jobs id formula model (sched_run true evs)) as [|x la]; destruct (s_jobs id formula model (sched_run false evs)) as [|y lb];
      try discriminate; [|reflexivity].
    apply observe_eq in Ho. destruct Ho as [Hout [Hk Hnm]]. rewrite Hk, Hnm. f_equal. apply strip_verdict. exact Hout.
  Qed.
End CacheTestProofs.

(* ================================================================== why the un-refined consumers must not look up
   formulas: literals over boolean variables; variable 0 stands for the value of an abstracted
   operation, which the real semantics fixes to `true`.  q1 = {1: x0 is false} is satisfiable as
   posed and unsatisfiable once refined; a truthful solver says so and returns the core [1] for the
   refined file.  After that, the cache contains [1]; the stuck path q2 = {1: x0 is false, 2: x1}
   contains it and is SATISFIABLE as posed: a look-up by the stuck-path consumer would be wrong. *)
Definition lit_holds_r (v : N -> bool) (f : lit) : Prop := lit_holds v f /\ v 0%N = true.

Definition rq1 : query N lit := [(1%N, (0%N, false))].
Definition rq2 : query N lit := [(1%N, (0%N, false)); (2%N, (1%N, true))].
Definition rlow (refined : bool) (q : query N lit) : reply N N :=
  if refined then Unsat (Some [1%N]) else Sat 0%N false.

Lemma lit_abstraction : forall fs, sat lit (N -> bool) lit_holds_r fs -> sat lit (N -> bool) lit_holds fs.
Proof. intros fs [v H]. exists v. intros f Hf. apply (H f Hf). Qed.

Lemma refined_core_not_abstract :
  low_core_sound2 N N.eqb lit N (N -> bool) (N -> bool) lit_holds lit_holds_r rlow [rq1; rq2] /\
  stable_queries N lit [rq1; rq2] /\
  lookup N N.eqb lit (t_cores N N (test_run N N.eqb lit N rlow (fun _ => true) true [(KAssert, rq1)])) rq2 = true /\
  sat lit (N -> bool) lit_holds (map snd rq2) /\
  is_unsat N N (rlow false rq2) = false.
Proof.
  split; [|split; [|split; [|split]]].
  - intros q b c Hq Hl Hne. destruct b; simpl in Hl; [|discriminate].
    injection Hl as Hc. subst c.
    intros [v Hv]. destruct Hq as [Hq | [Hq | []]]; subst q.
    + specialize (Hv (0%N, false)). simpl in Hv. destruct (Hv (or_introl eq_refl)) as [H1 H2].
      unfold lit_holds in H1. simpl in H1. congruence.
    + specialize (Hv (0%N, false)). simpl in Hv. destruct (Hv (or_introl eq_refl)) as [H1 H2].
      unfold lit_holds in H1. simpl in H1. congruence.
  - intros q1 q2 H1 H2 i f1 f2 Hf1 Hf2.
    destruct H1 as [H1 | [H1 | []]]; destruct H2 as [H2 | [H2 | []]]; subst q1 q2; simpl in Hf1, Hf2;
      repeat match goal with H : _ \/ _ |- _ => destruct H | H : False |- _ => destruct H end;
      congruence.
  - vm_compute. reflexivity.
  - exists (fun n => N.eqb n 1%N). intros f Hf. simpl in Hf.
    destruct Hf as [Hf | [Hf | []]]; subst f; reflexivity.
  - reflexivity.
Qed.

(* non-vacuity of test_transparent: on that very test (assertion path, then the stuck path, then a normal one)
   the real run_test counts the stuck path with and without the cache: [ERROR] stuck both times *)
Lemma test_nonvacuous :
  test_verdict N N.eqb lit N rlow (fun _ => true) true [(KAssert, rq1); (KStuck, rq2); (KNormal, [])] = VStuck /\
  test_verdict N N.eqb lit N rlow (fun _ => true) false [(KAssert, rq1); (KStuck, rq2); (KNormal, [])] = VStuck /\
  t_cores N N (test_run N N.eqb lit N rlow (fun _ => true) true [(KAssert, rq1); (KStuck, rq2); (KNormal, [])]) = [[1%N]].
Proof. vm_compute. auto. Qed.
