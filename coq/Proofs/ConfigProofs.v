(* Proofs about Model/ConfigModel.v against Spec/ConfigSpec.v *)
From Coq Require Import ZArith List Bool Lia Arith ZifyBool.
From HV Require Import Gen.GenConfig Gen.GenConfigTime Gen.GenConfigMain Spec.ConfigSpec Model.ConfigModel.
Import ListNotations.
Open Scope Z_scope.
Ltac Zify.zify_post_hook ::= Z.to_euclidean_division_equations.

(* ====================================================================== precedence ===== *)

(* the generated guard of value_with_source: the layer must set the option and have a
   STRICTLY higher source than the best so far *)
Lemma vws_takes_spec : forall b cur best, vws_takes b cur best = b && (best <? cur).
Proof.
  intros b cur best. unfold vws_takes. destruct b; cbn [andb]; [|reflexivity].
  destruct (best <? cur) eqn:H; lia.
Qed.

Lemma vws_init_is_void : vws_init_source = SRC_void.
Proof. reflexivity. Qed.

Lemma vws_loop_spec : forall o st bv bs,
  (vws_loop o st (bv, bs) = (bv, bs) /\
   forall l, In l st -> ~ layer_unset l o -> fst l <= bs)
  \/
  (exists i l v,
      nth_error st i = Some l /\ layer_sets l o v /\
      vws_loop o st (bv, bs) = (Some v, fst l) /\ bs < fst l /\
      forall j l', nth_error st j = Some l' -> ~ layer_unset l' o ->
                   fst l' < fst l \/ (fst l' = fst l /\ (i <= j)%nat)).
Proof.
  intros o st. induction st as [|[src vals] p IH]; intros bv bs.
  - left. split; [reflexivity|]. intros l [].
  - cbn [vws_loop]. cbv zeta. rewrite vws_takes_spec. cbn [snd].
    destruct (assoc o vals) as [v|] eqn:Ha; cbn [is_some andb].
    + destruct (bs <? src) eqn:Hlt.
      * destruct (IH (Some v) src) as [[Heq Hall] | (i & l & v' & Hn & Hs & Heq & Hlt' & Hmax)].
        -- right. exists 0%nat, (src, vals), v. cbn [nth_error fst].
           split; [reflexivity|]. split; [exact Ha|]. split; [exact Heq|]. split; [lia|].
           intros j l' Hj Hset. destruct j as [|j]; cbn [nth_error] in Hj.
           ++ inversion Hj; subst. right. split; [reflexivity|lia].
           ++ apply nth_error_In in Hj. specialize (Hall l' Hj Hset).
              destruct (Z.eq_dec (fst l') src); [right; split; [assumption|lia] | left; lia].
        -- right. exists (S i), l, v'. cbn [nth_error].
           split; [exact Hn|]. split; [exact Hs|]. split; [exact Heq|]. split; [lia|].
           intros j l' Hj Hset. destruct j as [|j]; cbn [nth_error] in Hj.
           ++ inversion Hj; subst. cbn [fst]. left. lia.
           ++ destruct (Hmax j l' Hj Hset) as [H|[H1 H2]]; [left; exact H | right; split; [exact H1|lia]].
      * destruct (IH bv bs) as [[Heq Hall] | (i & l & v' & Hn & Hs & Heq & Hlt' & Hmax)].
        -- left. split; [exact Heq|]. intros l [<-|Hin] Hset; [cbn [fst]; lia | exact (Hall l Hin Hset)].
        -- right. exists (S i), l, v'. cbn [nth_error].
           split; [exact Hn|]. split; [exact Hs|]. split; [exact Heq|]. split; [lia|].
           intros j l' Hj Hset. destruct j as [|j]; cbn [nth_error] in Hj.
           ++ inversion Hj; subst. cbn [fst]. left. lia.
           ++ destruct (Hmax j l' Hj Hset) as [H|[H1 H2]]; [left; exact H | right; split; [exact H1|lia]].
    + destruct (IH bv bs) as [[Heq Hall] | (i & l & v' & Hn & Hs & Heq & Hlt' & Hmax)].
      * left. split; [exact Heq|]. intros l [<-|Hin] Hset; [exfalso; apply Hset; exact Ha | exact (Hall l Hin Hset)].
      * right. exists (S i), l, v'. cbn [nth_error].
        split; [exact Hn|]. split; [exact Hs|]. split; [exact Heq|]. split; [lia|].
        intros j l' Hj Hset. destruct j as [|j]; cbn [nth_error] in Hj.
        -- inversion Hj; subst. exfalso. apply Hset. exact Ha.
        -- destruct (Hmax j l' Hj Hset) as [H|[H1 H2]]; [left; exact H | right; split; [exact H1|lia]].
Qed.

Definition valid_sources (st : stack) : Prop := forall l, In l st -> SRC_void < fst l.

Lemma vws_cases : forall o st, valid_sources st ->
  (exists i v s, value_with_source o st = (Some v, s) /\ wins st o i v s /\ SRC_void < s)
  \/ (value_with_source o st = (None, SRC_void) /\ forall l, In l st -> layer_unset l o).
Proof.
  intros o st Hv. unfold value_with_source. rewrite vws_init_is_void.
  destruct (vws_loop_spec o st None SRC_void) as [[Heq Hall] | (i & l & v & Hn & Hs & Heq & Hlt & Hmax)].
  - right. split; [exact Heq|]. intros l Hin. unfold layer_unset.
    destruct (assoc o (snd l)) eqn:E; [exfalso|reflexivity].
    assert (fst l <= SRC_void) by (apply Hall; [exact Hin | unfold layer_unset; rewrite E; discriminate]).
    specialize (Hv l Hin). lia.
  - left. exists i, v, (fst l). split; [exact Heq|]. split; [|exact Hlt].
    exists l. repeat split; assumption.
Qed.

Lemma lookup_correct : forall st o, valid_sources st -> effective st o (vws_result o st).
Proof.
  intros st o Hv. unfold vws_result.
  destruct (vws_cases o st Hv) as [(i & v & s & Heq & Hw & _) | [Heq Hall]]; rewrite Heq; cbn.
  - exists i. exact Hw.
  - exact Hall.
Qed.

Lemma wins_unique : forall st o i v s i' v' s',
  wins st o i v s -> wins st o i' v' s' -> i = i' /\ v = v' /\ s = s'.
Proof.
  intros st o i v s i' v' s' (l & Hn & Hs & Hset & Hmax) (l' & Hn' & Hs' & Hset' & Hmax').
  assert (A : fst l < s' \/ (fst l = s' /\ (i' <= i)%nat)).
  { apply (Hmax' i l Hn). unfold layer_unset, layer_sets in *. rewrite Hset. discriminate. }
  assert (B : fst l' < s \/ (fst l' = s /\ (i <= i')%nat)).
  { apply (Hmax i' l' Hn'). unfold layer_unset, layer_sets in *. rewrite Hset'. discriminate. }
  assert (i = i') by lia. subst i'. rewrite Hn in Hn'. inversion Hn'; subst l'.
  unfold layer_sets in *. rewrite Hset in Hset'. inversion Hset'. repeat split; lia.
Qed.

Lemma effective_unique : forall st o r r', effective st o r -> effective st o r' -> r = r'.
Proof.
  intros st o [[v s]|] [[v' s']|]; cbn; intros H H'.
  - destruct H as [i H], H' as [i' H']. destruct (wins_unique _ _ _ _ _ _ _ _ H H') as (_ & -> & ->). reflexivity.
  - destruct H as [i (l & Hn & _ & Hset & _)]. apply nth_error_In in Hn.
    specialize (H' l Hn). unfold layer_unset, layer_sets in *. congruence.
  - destruct H' as [i (l & Hn & _ & Hset & _)]. apply nth_error_In in Hn.
    specialize (H l Hn). unfold layer_unset, layer_sets in *. congruence.
  - reflexivity.
Qed.

Lemma getattr_correct : forall st o, valid_sources st ->
  effective st o (match getattr o st with Some v => Some (v, snd (value_with_source o st)) | None => None end).
Proof.
  intros st o Hv. pose proof (lookup_correct st o Hv) as H. unfold vws_result, getattr in *.
  destruct (value_with_source o st) as [[v|] s]; exact H.
Qed.

(* ---- solver-command vs solver ---- *)

Lemma use_solver_command_spec : forall b cs ss,
  use_solver_command b cs ss = b && negb (cs =? 0) && (ss <=? cs).
Proof.
  intros b cs ss. unfold use_solver_command. destruct b; cbn [andb]; [|reflexivity].
  destruct (cs =? 0) eqn:H1; destruct (ss <=? cs) eqn:H2; cbn [negb andb]; lia.
Qed.

Lemma void_is_zero : SRC_void = 0.
Proof. reflexivity. Qed.

Lemma solver_cmd_correct : forall st, valid_sources st -> forall c,
  resolved_solver_command st = UseCommand c <->
  (c <> 0 /\ exists i s, wins st OPT_solver_command i c s /\
                         forall j v s', wins st OPT_solver j v s' -> s' <= s).
Proof.
  intros st Hv c. unfold resolved_solver_command.
  pose proof void_is_zero as Hz.
  destruct (vws_cases OPT_solver st Hv) as [(j0 & v0 & s0 & E0 & W0 & P0) | [E0 U0]];
  destruct (vws_cases OPT_solver_command st Hv) as [(i1 & v1 & s1 & E1 & W1 & P1) | [E1 U1]];
  rewrite E0, E1; rewrite use_solver_command_spec; cbn [cmd_truthy].
  - (* both set *)
    assert (Hs1 : (s1 =? 0) = false) by lia. rewrite Hs1.
    destruct (v1 =? 0) eqn:Hc; destruct (s0 <=? s1) eqn:Hle; cbn [negb andb].
    + split; [discriminate|]. intros [Hne (i & s & W & _)].
      destruct (wins_unique _ _ _ _ _ _ _ _ W1 W) as (_ & Hv1 & _). lia.
    + split; [discriminate|]. intros [Hne (i & s & W & _)].
      destruct (wins_unique _ _ _ _ _ _ _ _ W1 W) as (_ & Hv1 & _). lia.
    + split.
      * intros H. injection H as Hv1. subst c. split; [lia|]. exists i1, s1. split; [exact W1|].
        intros j v s' W. destruct (wins_unique _ _ _ _ _ _ _ _ W0 W) as (_ & _ & Hs). lia.
      * intros [Hne (i & s & W & _)].
        destruct (wins_unique _ _ _ _ _ _ _ _ W1 W) as (_ & Hv1 & _). subst c. reflexivity.
    + split; [discriminate|]. intros [Hne (i & s & W & Hb)].
      destruct (wins_unique _ _ _ _ _ _ _ _ W1 W) as (_ & _ & Hs). subst s.
      specialize (Hb _ _ _ W0). lia.
  - (* solver set, command unset *)
    cbn [andb]. split; [discriminate|].
    intros [_ (i & s & (l & Hn & _ & Hset & _) & _)]. apply nth_error_In in Hn.
    specialize (U1 l Hn). unfold layer_unset, layer_sets in *. congruence.
  - (* solver unset, command set *)
    assert (Hs1 : (s1 =? 0) = false) by lia. rewrite Hs1.
    assert (Hle : (SRC_void <=? s1) = true) by lia. rewrite Hle.
    destruct (v1 =? 0) eqn:Hc; cbn [negb andb].
    + split; [discriminate|]. intros [Hne (i & s & W & _)].
      destruct (wins_unique _ _ _ _ _ _ _ _ W1 W) as (_ & Hv1 & _). lia.
    + split.
      * intros H. injection H as Hv1. subst c. split; [lia|]. exists i1, s1. split; [exact W1|].
        intros j v s' (l & Hn & _ & Hset & _). apply nth_error_In in Hn.
        specialize (U0 l Hn). unfold layer_unset, layer_sets in *. congruence.
      * intros [Hne (i & s & W & _)].
        destruct (wins_unique _ _ _ _ _ _ _ _ W1 W) as (_ & Hv1 & _). subst c. reflexivity.
  - cbn [andb]. split; [discriminate|].
    intros [_ (i & s & (l & Hn & _ & Hset & _) & _)]. apply nth_error_In in Hn.
    specialize (U1 l Hn). unfold layer_unset, layer_sets in *. congruence.
Qed.

(* ====================================================================== layering ======= *)

Lemma run_tests_nth : forall args fs1 f dd fs2,
  nth_error (run_tests args (fs1 ++ (f, dd) :: fs2)) (length fs1) = Some (f, with_devdoc args dd).
Proof.
  intros args fs1 f dd fs2. induction fs1 as [|[g d] r IH].
  - reflexivity.
  - cbn [app run_tests length nth_error]. unfold run_tests_rebinds_args. exact IH.
Qed.

Lemma main_loop_nth : forall args cs1 c ns fs cs2,
  nth_error (main_loop args (cs1 ++ (c, ns, fs) :: cs2)) (length cs1)
  = Some (c, run_tests (with_natspec args ns) fs).
Proof.
  intros args cs1 c ns fs cs2. induction cs1 as [|[[c' ns'] fs'] r IH].
  - reflexivity.
  - cbn [app main_loop length nth_error]. unfold main_rebinds_args. exact IH.
Qed.

Lemma scope_correct : forall args cs1 cs2 A nsA fs1 fs2 f ddf,
  exists res,
    nth_error (main_loop args (cs1 ++ (A, nsA, fs1 ++ (f, ddf) :: fs2) :: cs2)) (length cs1) = Some (A, res) /\
    nth_error res (length fs1) = Some (f, with_devdoc (with_natspec args nsA) ddf).
Proof.
  intros. eexists. split; [apply main_loop_nth | apply run_tests_nth].
Qed.

(* the documented chain, for the stacks the runner builds *)
Lemma chain_correct : forall deflt file cli ns dd o,
  getattr o (with_devdoc (with_natspec (load_config deflt file cli) ns) dd) =
  first_some [assoc o cli; opt_assoc o dd; opt_assoc o ns; opt_assoc o file; assoc o deflt].
Proof.
  intros deflt file cli ns dd o.
  destruct file as [fl|], ns as [nl|], dd as [dl|];
    unfold with_devdoc, with_natspec, load_config, with_overrides, opt_assoc, getattr, value_with_source;
    cbn [vws_loop]; cbv zeta;
    repeat match goal with |- context [assoc o ?x] => destruct (assoc o x) end;
    reflexivity.
Qed.

Lemma load_config_valid : forall deflt file cli ns dd,
  valid_sources (with_devdoc (with_natspec (load_config deflt file cli) ns) dd).
Proof.
  intros deflt file cli ns dd l.
  destruct file, ns, dd; cbn; intros H;
    repeat (destruct H as [<-|H]; [reflexivity|]); destruct H.
Qed.
