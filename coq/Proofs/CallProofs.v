(* C09 -- proofs: the halmos call model (Model/CallModel.v over the regenerated
   Gen/GenCallMsg.v) refines the EVM call-tree specification (Spec/CallSpec.v) on every
   script tree; atomicity, conservation, static-context corollaries; facts proved directly
   about the reference interpreter's do_call / do_create / transfer (Spec/Evm.v). *)
From Coq Require Import ZArith List Bool Lia ZifyBool.
From HV Require Import Base.Word Spec.Evm Spec.CallSpec Gen.GenOpcodes Gen.GenConsts Gen.GenCallMsg Model.CallModel.
Import ListNotations.
Open Scope Z_scope.

(* ------------------------------------------------------------------ the refinement relation *)
Definition R (m : mres) (s : sres * Z * list logitem) : Prop :=
  let '(f, st, lg) := m in
  let '(r, ctr, lg') := s in
  lg = lg' /\ m_cnt st = ctr /\
  match r with
  | SOk ret w => f = FOk ret /\ world_of st = w
  | SRevert ret => f = FRevert ret
  | SHalt => f = FHalt
  end.

(* every reported result is the specified one, and there is at least one *)
Definition Sim (ms : list mres) (s : sres * Z * list logitem) : Prop :=
  ms <> [] /\ Forall (fun m => R m s) ms.

Lemma mstate_world : forall st, mstate_of (world_of st) (m_cnt st) = st.
Proof. destruct st; reflexivity. Qed.
Lemma world_mstate : forall w c, world_of (mstate_of w c) = w.
Proof. destruct w; reflexivity. Qed.
Lemma cnt_mstate : forall w c, m_cnt (mstate_of w c) = c.
Proof. reflexivity. Qed.

Lemma Sim_single : forall m s, R m s -> Sim [m] s.
Proof. intros m s H; split; [discriminate | constructor; auto]. Qed.

Lemma Sim_addlog : forall pre ms r c lg, Sim ms (r, c, lg) -> Sim (map (addlog pre) ms) (r, c, pre ++ lg).
Proof.
  intros pre ms r c lg [Hne Hall]; split.
  - destruct ms; [congruence | discriminate].
  - apply Forall_map. eapply Forall_impl; [| exact Hall].
    intros [[f st] l] HR. unfold R in *. cbn in *. destruct HR as (-> & Hc & Hr). auto.
Qed.

Lemma Sim_flat_map : forall (f : mres -> list mres) subs s,
  subs <> [] -> (forall sub, In sub subs -> Sim (f sub) s) -> Sim (flat_map f subs) s.
Proof.
  intros f subs s Hne H; split.
  - destruct subs as [|a subs]; [congruence|]. cbn.
    destruct (H a (or_introl eq_refl)) as [Hn _].
    destruct (f a); [congruence | discriminate].
  - apply Forall_forall. intros m Hin. apply in_flat_map in Hin as (sub & Hs & Hm).
    destruct (H sub Hs) as [_ Hall]. rewrite Forall_forall in Hall. auto.
Qed.

Lemma Sim_app_nil_r : forall ms s, Sim ms s -> Sim (ms ++ []) s.
Proof. intros; rewrite app_nil_r; auto. Qed.

Lemma Sim_app : forall a b s, Sim a s -> Sim b s -> Sim (a ++ b) s.
Proof.
  intros a b s [Ha Fa] [Hb Fb]; split.
  - destruct a; [congruence | discriminate].
  - apply Forall_app; auto.
Qed.

(* ------------------------------------------------------------------ model pieces = spec pieces *)
Lemma balance_of_eq : forall w c a, balance_of (mstate_of w c) a = get_balance w a.
Proof. reflexivity. Qed.
Lemma in_code_eq : forall w c a, in_code (mstate_of w c) a = has_account w a.
Proof. reflexivity. Qed.
Lemma code_at_eq : forall w c a, code_at (mstate_of w c) a = get_code w a.
Proof. reflexivity. Qed.

Lemma transfer_cond_eq : forall w c from v, transfer_cond (mstate_of w c) from v = can_pay w from v.
Proof.
  intros. unfold transfer_cond, can_pay, balance_ok. rewrite balance_of_eq. lia.
Qed.
Lemma transfer_force_eq : forall w c from to v,
  transfer_force (mstate_of w c) from to v = mstate_of (xfer w from to v) c.
Proof.
  intros. unfold transfer_force, xfer. destruct (v =? 0); [reflexivity|].
  unfold transfer_debit, transfer_credit, balance_update, balance_of, transfer, set_balance, get_balance, mstate_of.
  cbn. reflexivity.
Qed.
Lemma transfer_value_eq : forall w c from to v,
  transfer_value (mstate_of w c) from to v =
  if can_pay w from v then Some (mstate_of (xfer w from to v) c) else None.
Proof. intros. unfold transfer_value. rewrite transfer_cond_eq, transfer_force_eq. reflexivity. Qed.

Lemma ret_area_eq : forall rsz data, m_ret_area rsz data = ret_area rsz data.
Proof.
  intros. unfold m_ret_area, ret_area, effective_ret_size, blen.
  replace (Z.to_nat (Z.min rsz (Z.of_nat (length data)))) with (Nat.min (Z.to_nat rsz) (length data)) by lia.
  reflexivity.
Qed.
Lemma after_call_eq : forall ob flag l rsz data,
  m_after_call ob flag l rsz data = after_call ob flag (returndata l) rsz data.
Proof. intros. unfold m_after_call, after_call. rewrite ret_area_eq. reflexivity. Qed.
Lemma after_create_eq : forall ob p l, m_after_create ob p l = after_create ob p (returndata l).
Proof. reflexivity. Qed.
Lemma observation_eq : forall c w ctr k, m_observation c (mstate_of w ctr) k = observation c w k.
Proof. reflexivity. Qed.

Lemma returndata_call : forall e d, returndata (Some (false, e, d)) = d.
Proof. intros. unfold returndata, returndata_hidden. destruct e; reflexivity. Qed.
Lemma returndata_create_ok : forall d, returndata (Some (true, false, d)) = [].
Proof. reflexivity. Qed.
Lemma returndata_create_err : forall d, returndata (Some (true, true, d)) = d.
Proof. reflexivity. Qed.

Lemma msg_eq : forall kd c w ctr to v0,
  mkCtx (msg_target (op_of kd) to (c_this c)) (msg_caller (op_of kd) (c_this c) (c_caller c))
        (msg_origin (c_origin c)) (msg_value (op_of kd) (call_fund (op_of kd) v0) (c_value c))
        (code_at (mstate_of w ctr) to) (msg_static (op_of kd) (c_static c)) (c_depth c + 1)
  = sub_ctx kd c w to (if carries_value kd then v0 else 0).
Proof.
  intros. rewrite code_at_eq.
  destruct kd; cbn; unfold msg_static; cbn; rewrite ?orb_false_r, ?orb_true_r; reflexivity.
Qed.
Lemma fund_eq : forall kd v0, call_fund (op_of kd) v0 = if carries_value kd then v0 else 0.
Proof. destruct kd; reflexivity. Qed.
Lemma sends_eq : forall kd, sends_value (op_of kd) = is_kcall kd.
Proof. destruct kd; reflexivity. Qed.
Lemma insufficient_eq : forall w a v,
  negb (v =? 0) && insufficient (get_balance w a) v = negb (can_pay w a v).
Proof. intros. unfold insufficient, can_pay. lia. Qed.
Lemma can_pay_zero : forall w a, can_pay w a 0 = true.
Proof. reflexivity. Qed.
(* the static-context test of a value-bearing CALL *)
Lemma static_check_eq : forall kd st v0,
  call_static_value_check (op_of kd) st (call_fund (op_of kd) v0)
  = is_kcall kd && st && negb ((if carries_value kd then v0 else 0) =? 0).
Proof. destruct kd; intros; cbn; rewrite ?andb_false_r; reflexivity. Qed.
(* send_callvalue: a value-carrying scheme goes ahead only if the caller can pay; CALL transfers *)
Lemma send_cond_eq : forall kd w ctr a v0,
  send_cond (op_of kd) (mstate_of w ctr) a (call_fund (op_of kd) v0)
  = negb (carries_value kd && negb (can_pay w a (if carries_value kd then v0 else 0))).
Proof.
  intros. unfold send_cond. rewrite sends_eq.
  destruct kd; cbn [is_kcall carries_value andb negb]; try reflexivity.
  - change (call_fund (op_of KCall) v0) with v0. rewrite transfer_cond_eq, negb_involutive. reflexivity.
  - change (call_fund (op_of KCallcode) v0) with v0.
    unfold callvalue_checks_balance, callvalue_balance_ok, can_pay. rewrite balance_of_eq, negb_involutive.
    change (Z.eqb (op_of KCallcode) OP_CALLCODE) with true. cbn [andb].
    destruct (v0 =? 0); cbn [negb orb]; [reflexivity | lia].
Qed.
Lemma send_force_eq : forall kd w ctr a to v0,
  send_force (op_of kd) (mstate_of w ctr) a to (call_fund (op_of kd) v0)
  = mstate_of (if is_kcall kd then xfer w a to (if carries_value kd then v0 else 0) else w) ctr.
Proof.
  intros. unfold send_force. rewrite sends_eq. destruct kd; cbn [is_kcall carries_value]; try reflexivity.
  change (call_fund (op_of KCall) v0) with v0. apply transfer_force_eq.
Qed.
(* the status word of a call of an account without code: 1 unless the depth limit is exceeded *)
Lemma unknown_ok_eq : forall d, unknown_call_ok d = negb (MAX_DEPTH <? d + 1).
Proof. intros. unfold unknown_call_ok, MAX_CALL_DEPTH, MAX_DEPTH. lia. Qed.
Lemma depth_eq : forall d, depth_exceeded (d + 1) = (MAX_DEPTH <? d + 1).
Proof. intros. unfold depth_exceeded, MAX_CALL_DEPTH, MAX_DEPTH. lia. Qed.
Lemma new_address_eq : forall n, new_address n = CREATE_BASE + n.
Proof. intros. unfold new_address, magic_address, new_address_offset, CREATE_BASE. lia. Qed.

Lemma restore_call_eq : forall w c0 sub, restore_call (mstate_of w c0) sub = mstate_of w (m_cnt sub).
Proof. destruct w; reflexivity. Qed.
Lemma restore_create_eq : forall w c0 sub, restore_create (mstate_of w c0) sub = mstate_of w (m_cnt sub).
Proof. destruct w; reflexivity. Qed.

Lemma R_state : forall f st lg ret w ctr lg',
  R (f, st, lg) (SOk ret w, ctr, lg') -> st = mstate_of w ctr /\ f = FOk ret /\ lg = lg'.
Proof.
  intros. unfold R in H. destruct H as (-> & <- & -> & <-). rewrite mstate_world. auto.
Qed.

(* ------------------------------------------------------------------ simulation of one call / create *)
Definition callee_hyp (callee : script) (run : fctx -> mstate -> list mres) : Prop :=
  forall c' w' ctr' r ctr'' lg,
    sexec callee c' w' ctr' [] [] = (r, ctr'', lg) ->
    Sim (run c' (mstate_of w' ctr')) (r, ctr'', lg).
Definition cont_hyp (rest : script) (c : fctx) (cont : mstate -> list Z -> lastsub -> list mres) : Prop :=
  forall w' ctr' ob' l' r ctr'' lg,
    sexec rest c w' ctr' ob' (returndata l') = (r, ctr'', lg) ->
    Sim (cont (mstate_of w' ctr') ob' l') (r, ctr'', lg).

Lemma sub_frame_sim : forall callee run sc w1 ctr r1 ctr1 lg1,
  callee_hyp callee run ->
  depth_exceeded (c_depth sc) = false ->
  match c_code sc with
  | [] => stop_frame sc w1 ctr
  | _ => let '(r, c1, l1) := sexec callee sc w1 ctr [] [] in (r, c1, LFrame sc :: l1)
  end = (r1, ctr1, lg1) ->
  Sim (sub_frame sc (mstate_of w1 ctr) run) (r1, ctr1, lg1).
Proof.
  intros callee run sc w1 ctr r1 ctr1 lg1 Hc Hd Hs.
  unfold sub_frame. rewrite Hd.
  destruct (c_code sc) eqn:Hcode.
  - unfold stop_frame in Hs. inversion Hs; subst. apply Sim_single.
    unfold R. rewrite world_mstate. auto.
  - destruct (sexec callee sc w1 ctr [] []) as [[r c1] l1] eqn:He.
    inversion Hs; subst.
    change (LFrame sc :: l1) with ([LFrame sc] ++ l1).
    apply Sim_addlog. apply Hc; auto.
Qed.

Lemma call_finish_sim : forall c w ctr0 ob rsz rest cont subs r1 ctr1 lg1 r2 ctr2 lg2,
  cont_hyp rest c cont ->
  Sim subs (r1, ctr1, lg1) ->
  match r1 with
  | SOk ret w2 => sexec rest c w2 ctr1 (after_call ob 1 ret rsz ret) ret
  | SRevert ret => sexec rest c w ctr1 (after_call ob 0 ret rsz ret) ret
  | SHalt => sexec rest c w ctr1 (after_call ob 0 [] rsz []) []
  end = (r2, ctr2, lg2) ->
  Sim (flat_map
         (fun sub : mres =>
            let '(r, st2, lg) := sub in
            let '(data, has_error) := output_of r in
            let success := call_success has_error in
            let l := Some (false, has_error, data) in
            let st3 := if success then st2 else restore_call (mstate_of w ctr0) st2 in
            map (addlog lg) (cont st3 (m_after_call ob (if success then 1 else 0) l rsz data) l))
         subs) (r2, ctr2, lg1 ++ lg2).
Proof.
  intros c w ctr0 ob rsz rest cont subs r1 ctr1 lg1 r2 ctr2 lg2 Hk [Hne Hall] Hs.
  apply Sim_flat_map; [exact Hne|].
  intros [[f st2] lg] Hin. rewrite Forall_forall in Hall. specialize (Hall _ Hin).
  destruct r1 as [ret w2 | ret |].
  - apply R_state in Hall as (-> & -> & ->). cbn [output_of call_success negb].
    apply Sim_addlog. rewrite after_call_eq. apply Hk.
    rewrite returndata_call. exact Hs.
  - destruct Hall as (-> & Hc & ->). cbn [output_of call_success negb].
    rewrite restore_call_eq, Hc. apply Sim_addlog. rewrite after_call_eq. apply Hk.
    rewrite returndata_call. exact Hs.
  - destruct Hall as (-> & Hc & ->). cbn [output_of call_success negb].
    rewrite restore_call_eq, Hc. apply Sim_addlog. rewrite after_call_eq. apply Hk.
    rewrite returndata_call. exact Hs.
Qed.

Lemma sub_ctx_depth : forall kd c w to v, c_depth (sub_ctx kd c w to v) = c_depth c + 1.
Proof. destruct kd; reflexivity. Qed.
Lemma sub_ctx_code : forall kd c w to v, c_code (sub_ctx kd c w to v) = get_code w to.
Proof. destruct kd; reflexivity. Qed.
Lemma no_account_no_code : forall w a, has_account w a = false -> get_code w a = [].
Proof. intros w a. unfold has_account, get_code. destruct (alookup a (w_code w)); [discriminate | reflexivity]. Qed.

(* what a frame sees of another account's code *)
Lemma code_window_length : forall code off, length (code_window code off) = 32%nat.
Proof. intros. unfold code_window. rewrite firstn_length, app_length, repeat_length. lia. Qed.
Lemma ext_observation_eq : forall w ctr a off,
  m_ext_observation (mstate_of w ctr) a off = ext_observation w a off.
Proof.
  intros. unfold m_ext_observation, ext_observation.
  rewrite in_code_eq, code_at_eq.
  unfold extcodecopy_guard, extcodecopy_use_code, extcodecopy_empty_len.
  change (negb (32 =? 0)) with true. cbv iota.
  destruct (has_account w (a mod 2 ^ 160)) eqn:Ha.
  - f_equal. rewrite firstn_app, code_window_length, Nat.sub_diag, firstn_O, app_nil_r.
    apply firstn_all2. rewrite code_window_length. lia.
  - rewrite (no_account_no_code _ _ Ha).
    replace (Z.to_nat (Z.max 0 (off + 32 - off))) with 32%nat by lia.
    unfold code_window. rewrite skipn_nil. reflexivity.
Qed.

Lemma Sim_addlog_nil : forall ms s, Sim ms s -> Sim (map (addlog []) ms) s.
Proof. intros ms [[r c] lg] H. apply (Sim_addlog [] ms r c lg H). Qed.

Lemma m_call_sim : forall kd to0 v0 rsz c w ctr ob l callee rest run cont,
  callee_hyp callee run -> cont_hyp rest c cont ->
  forall r ctr' lg,
  sexec (SCall kd to0 v0 rsz callee rest) c w ctr ob (returndata l) = (r, ctr', lg) ->
  Sim (m_call kd to0 v0 rsz c (mstate_of w ctr) ob run cont) (r, ctr', lg).
Proof.
  intros kd to0 v0 rsz c w ctr ob l callee rest run cont Hc Hk r ctr' lg Hs.
  cbn [sexec] in Hs.
  unfold m_call, send_callvalue. cbv zeta.
  change (2 ^ 160) with ADDR_MOD.
  rewrite static_check_eq, !send_cond_eq, !send_force_eq, msg_eq, fund_eq, balance_of_eq, insufficient_eq, in_code_eq.
  set (to := to0 mod ADDR_MOD) in *.
  set (v := if carries_value kd then v0 else 0) in *.
  unfold call_backup_before_transfer. cbv iota.
  destruct (is_kcall kd && c_static c && negb (v =? 0)) eqn:Hsv.
  { (* a value-bearing CALL in a static frame halts the frame *)
    inversion Hs; subst. apply Sim_single. cbn. auto. }
  assert (Hfail : forall l0 r0 c0 lg0, returndata l0 = [] ->
            sexec rest c w ctr (after_call ob 0 [] rsz []) [] = (r0, c0, lg0) ->
            Sim (cont (mstate_of w ctr) (m_after_call ob 0 l0 rsz []) l0) (r0, c0, lg0)).
  { intros l0 r0 c0 lg0 Hl Hr. rewrite after_call_eq, Hl. apply Hk; rewrite Hl; auto. }
  assert (Hnc : carries_value kd = false -> can_pay w (c_this c) v = true).
  { intros E. subst v. rewrite E. reflexivity. }
  set (w1 := if is_kcall kd then xfer w (c_this c) to v else w) in *.
  rewrite unknown_ok_eq.
  destruct (MAX_DEPTH <? c_depth c + 1) eqn:Hd.
  { (* depth limit: the sub-frame of an existing account halts at its first step and the callback
       restores; the call of an account without code pushes 0 and sends nothing *)
    cbn [negb].
    assert (HX : Sim (cont (mstate_of w ctr) (m_after_call ob 0 (Some (false, true, [])) rsz []) (Some (false, true, []))) (r, ctr', lg)).
    { apply Hfail; auto. }
    assert (HU : Sim (cont (mstate_of w ctr) (m_after_call ob 0 (Some (false, false, [])) rsz []) (Some (false, false, []))) (r, ctr', lg)).
    { apply Hfail; auto. }
    destruct (has_account w to) eqn:Ha.
    - destruct (can_pay w (c_this c) v) eqn:Hcp.
      + rewrite andb_false_r. cbn [negb app]. apply Sim_app_nil_r.
        unfold sub_frame. rewrite sub_ctx_depth, depth_eq, Hd.
        cbn [flat_map output_of call_success negb app]. rewrite app_nil_r, restore_call_eq.
        apply Sim_addlog_nil. exact HX.
      + destruct (carries_value kd) eqn:Hcv; [| discriminate (Hnc eq_refl)].
        cbn [andb negb app]. exact HX.
    - destruct (can_pay w (c_this c) v) eqn:Hcp; cbn [negb].
      + apply Sim_app_nil_r. exact HU.
      + apply Sim_app; [exact HU | exact HX]. }
  cbn [negb].
  destruct (carries_value kd && negb (can_pay w (c_this c) v)) eqn:Hp.
  { (* the caller cannot pay: only the insufficient-funds branch holds *)
    apply andb_prop in Hp as [Hcv Hcp]. apply negb_true_iff in Hcp. rewrite Hcp.
    cbn [negb app].
    destruct (has_account w to); cbn [app]; apply (Hfail (Some (false, true, []))); auto. }
  assert (Hcp : can_pay w (c_this c) v = true).
  { destruct (carries_value kd) eqn:Hcv; [|auto]. cbn [andb] in Hp. apply negb_false_iff in Hp. exact Hp. }
  rewrite Hcp. cbn [negb]. rewrite app_nil_r.
  destruct (has_account w to) eqn:Ha.
  - destruct (match c_code (sub_ctx kd c w to v) with
              | [] => stop_frame (sub_ctx kd c w to v) w1 ctr
              | _ :: _ => let '(r, ctr1, lg1) := sexec callee (sub_ctx kd c w to v) w1 ctr [] [] in
                          (r, ctr1, LFrame (sub_ctx kd c w to v) :: lg1)
              end) as [[r1 ctr1] lg1] eqn:Hsub.
    destruct (match r1 with
              | SOk ret w2 => sexec rest c w2 ctr1 (after_call ob 1 ret rsz ret) ret
              | SRevert ret => sexec rest c w ctr1 (after_call ob 0 ret rsz ret) ret
              | SHalt => sexec rest c w ctr1 (after_call ob 0 [] rsz []) []
              end) as [[r2 ctr2] lg2] eqn:Hrest.
    inversion Hs; subst.
    eapply call_finish_sim; eauto.
    eapply sub_frame_sim; eauto.
    rewrite sub_ctx_depth, depth_eq. exact Hd.
  - rewrite sub_ctx_code, (no_account_no_code _ _ Ha) in Hs. unfold stop_frame in Hs.
    destruct (sexec rest c w1 ctr (after_call ob 1 [] rsz []) []) as [[r2 ctr2] lg2] eqn:Hrest.
    inversion Hs; subst.
    change (LFrame (sub_ctx kd c w to v) :: LEnd (FOk []) :: lg2)
      with ([LFrame (sub_ctx kd c w to v); LEnd (FOk [])] ++ lg2).
    apply Sim_addlog. rewrite after_call_eq, returndata_call. apply Hk.
    rewrite returndata_call. exact Hrest.
Qed.

Lemma create_finish_sim : forall c w ctr0 new ob rest cont subs r1 ctr1 lg1 r2 ctr2 lg2,
  cont_hyp rest c cont ->
  Sim subs (r1, ctr1, lg1) ->
  match r1 with
  | SOk ret w2 => sexec rest c (set_code w2 new ret) ctr1 (after_create ob new []) []
  | SRevert ret => sexec rest c w ctr1 (after_create ob 0 ret) ret
  | SHalt => sexec rest c w ctr1 (after_create ob 0 []) []
  end = (r2, ctr2, lg2) ->
  Sim (flat_map
         (fun sub : mres =>
            let '(r, st3, lg) := sub in
            let '(data, has_error) := output_of r in
            let l := Some (true, has_error, data) in
            map (addlog lg)
              (if create_success has_error
               then cont (m_set_code st3 new data) (m_after_create ob new l) l
               else cont (restore_create (mstate_of w ctr0) st3) (m_after_create ob 0 l) l))
         subs) (r2, ctr2, lg1 ++ lg2).
Proof.
  intros c w ctr0 new ob rest cont subs r1 ctr1 lg1 r2 ctr2 lg2 Hk [Hne Hall] Hs.
  apply Sim_flat_map; [exact Hne|].
  intros [[f st2] lg] Hin. rewrite Forall_forall in Hall. specialize (Hall _ Hin).
  destruct r1 as [ret w2 | ret |].
  - apply R_state in Hall as (-> & -> & ->). cbn [output_of create_success negb].
    apply Sim_addlog. rewrite after_create_eq.
    change (m_set_code (mstate_of w2 ctr1) new ret) with (mstate_of (set_code w2 new ret) ctr1).
    apply Hk. rewrite returndata_create_ok. exact Hs.
  - destruct Hall as (-> & Hc & ->). cbn [output_of create_success negb].
    rewrite restore_create_eq, Hc. apply Sim_addlog. rewrite after_create_eq. apply Hk.
    rewrite returndata_create_err. exact Hs.
  - destruct Hall as (-> & Hc & ->). cbn [output_of create_success negb].
    rewrite restore_create_eq, Hc. apply Sim_addlog. rewrite after_create_eq. apply Hk.
    rewrite returndata_create_err. exact Hs.
Qed.

Lemma can_pay_new_account : forall w a from v, can_pay (new_account w a) from v = can_pay w from v.
Proof. reflexivity. Qed.

Lemma m_create_sim : forall v initcode c w ctr ob l init rest run cont,
  callee_hyp init run -> cont_hyp rest c cont ->
  forall r ctr' lg,
  sexec (SCreate v initcode init rest) c w ctr ob (returndata l) = (r, ctr', lg) ->
  Sim (m_create v initcode c (mstate_of w ctr) ob run cont) (r, ctr', lg).
Proof.
  intros v initcode c w ctr ob l init rest run cont Hc Hk r ctr' lg Hs.
  cbn [sexec] in Hs.
  unfold m_create. cbv zeta.
  unfold create_static_check, create_backup_before_setup. cbn [andb].
  destruct (c_static c) eqn:Hst.
  { inversion Hs; subst. apply Sim_single. unfold R. auto. }
  change (m_cnt (mstate_of w ctr)) with ctr.
  change (m_set_cnt (mstate_of w ctr) (ctr + 1)) with (mstate_of w (ctr + 1)).
  rewrite new_address_eq.
  set (ctr0 := ctr + 1) in *. set (new := CREATE_BASE + ctr0) in *.
  rewrite balance_of_eq, insufficient_eq, in_code_eq.
  change (m_new_account (mstate_of w ctr0) new) with (mstate_of (new_account w new) ctr0).
  rewrite transfer_value_eq, can_pay_new_account.
  assert (Hfail : forall r0 c0 lg0,
            sexec rest c w ctr0 (after_create ob 0 []) [] = (r0, c0, lg0) ->
            Sim (cont (mstate_of w ctr0) (m_after_create ob 0 (Some (true, true, []))) (Some (true, true, []))) (r0, c0, lg0)).
  { intros r0 c0 lg0 Hr. rewrite after_create_eq, returndata_create_err. apply Hk; auto. }
  destruct (has_account w new) eqn:Ha.
  { rewrite !orb_true_r in Hs.
    destruct (can_pay w (c_this c) v); cbn [negb app].
    - apply Sim_app_nil_r. apply Hfail; auto.
    - apply Sim_app; apply Hfail; auto. }
  rewrite orb_false_r in Hs.
  destruct (can_pay w (c_this c) v) eqn:Hcp; cbn [negb app] in *.
  2:{ rewrite orb_true_r in Hs. apply Hfail; auto. }
  rewrite orb_false_r in Hs. rewrite app_nil_r.
  set (w1 := xfer (new_account w new) (c_this c) new v) in *.
  set (sc := mkCtx new (c_this c) (c_origin c) v initcode false (c_depth c + 1)) in *.
  destruct (MAX_DEPTH <? c_depth c + 1) eqn:Hd.
  { unfold sub_frame. subst sc. cbn [c_depth]. rewrite depth_eq, Hd.
    cbn [flat_map output_of create_success negb app]. rewrite app_nil_r, restore_create_eq.
    apply Sim_addlog_nil. apply Hfail; auto. }
  destruct (match initcode with
            | [] => stop_frame sc w1 ctr0
            | _ :: _ => let '(r, ctr1, lg1) := sexec init sc w1 ctr0 [] [] in (r, ctr1, LFrame sc :: lg1)
            end) as [[r1 ctr1] lg1] eqn:Hsub.
  destruct (match r1 with
            | SOk ret w2 => sexec rest c (set_code w2 new ret) ctr1 (after_create ob new []) []
            | SRevert ret => sexec rest c w ctr1 (after_create ob 0 ret) ret
            | SHalt => sexec rest c w ctr1 (after_create ob 0 []) []
            end) as [[r2 ctr2] lg2] eqn:Hrest.
  inversion Hs; subst r ctr' lg.
  eapply create_finish_sim; eauto.
  eapply sub_frame_sim; eauto.
  subst sc. cbn [c_depth]. rewrite depth_eq. exact Hd.
Qed.

(* ------------------------------------------------------------------ the refinement theorem *)
Theorem mexec_refines : forall s c w ctr ob l r ctr' lg,
  sexec s c w ctr ob (returndata l) = (r, ctr', lg) ->
  Sim (mexec s c (mstate_of w ctr) ob l) (r, ctr', lg).
Proof.
  induction s; intros c w ctr ob l r ctr' lg Hs.
  - cbn [sexec mexec] in *. inversion Hs; subst. apply Sim_single.
    destruct e; cbn; rewrite ?world_mstate; auto.
  - cbn [sexec mexec] in *. unfold sstore_static_check. cbn [andb]. destruct (c_static c).
    + inversion Hs; subst. apply Sim_single. cbn. auto.
    + change (m_sstore (mstate_of w ctr) (c_this c) k v) with (mstate_of (set_storage w (c_this c) k v) ctr).
      apply IHs; auto.
  - cbn [sexec mexec] in *. unfold sstore_static_check. cbn [andb]. destruct (c_static c).
    + inversion Hs; subst. apply Sim_single. cbn. auto.
    + change (m_tstore (mstate_of w ctr) (c_this c) k v) with (mstate_of (set_transient w (c_this c) k v) ctr).
      apply IHs; auto.
  - cbn [sexec mexec] in *. unfold log_static_check. cbn [andb]. destruct (c_static c).
    + inversion Hs; subst. apply Sim_single. cbn. auto.
    + destruct (sexec s c w ctr ob (returndata l)) as [[r0 c0] lg0] eqn:Hr. inversion Hs; subst.
      change (LEvent (c_this c) :: lg0) with ([LEvent (c_this c)] ++ lg0).
      apply Sim_addlog. apply IHs; auto.
  - cbn [sexec mexec] in *. rewrite observation_eq. apply IHs; auto.
  - cbn [sexec mexec] in *. unfold retcopy_guard, retcopy_copy_guard, retcopy_oob. cbn [andb].
    destruct (off + size >? blen (returndata l)) eqn:Ho;
      destruct (blen (returndata l) <? off + size) eqn:Hb; try lia.
    + inversion Hs; subst. apply Sim_single. cbn. auto.
    + destruct (size =? 0) eqn:Hz; cbn [negb].
      * apply Z.eqb_eq in Hz. subst size. cbn [Z.to_nat firstn] in Hs. rewrite app_nil_r in Hs.
        apply IHs; auto.
      * apply IHs; auto.
  - cbn [sexec mexec] in *. destruct (cond =? 0); [apply IHs2 | apply IHs1]; auto.
  - cbn [sexec mexec] in *. rewrite ext_observation_eq. apply IHs; auto.
  - cbn [mexec]. eapply m_call_sim; eauto.
    + intros c' w' ctr1 r1 ctr2 lg1 H1. apply (IHs1 c' w' ctr1 [] None); auto.
    + intros w' ctr1 ob' l' r1 ctr2 lg1 H1. apply IHs2; auto.
  - cbn [mexec]. eapply m_create_sim; eauto.
    + intros c' w' ctr1 r1 ctr2 lg1 H1. apply (IHs1 c' w' ctr1 [] None); auto.
    + intros w' ctr1 ob' l' r1 ctr2 lg1 H1. apply IHs2; auto.
Qed.

(* whole frames *)
Theorem mframe_refines : forall s c w ctr r ctr' lg,
  c_depth c <= MAX_DEPTH ->
  sframe s c w ctr = (r, ctr', lg) ->
  Sim (mframe s c (mstate_of w ctr)) (r, ctr', lg).
Proof.
  intros s c w ctr r ctr' lg Hd Hs.
  unfold mframe. unfold sframe in Hs.
  eapply sub_frame_sim with (callee := s); eauto.
  - intros c' w' ctr1 r1 ctr2 lg1 H1. apply (mexec_refines s c' w' ctr1 [] None); auto.
  - unfold depth_exceeded, MAX_CALL_DEPTH. unfold MAX_DEPTH in Hd. lia.
Qed.

(* ------------------------------------------------------------------ atomicity at the callbacks *)
Lemma restore_call_world : forall orig sub, world_of (restore_call orig sub) = world_of orig.
Proof. reflexivity. Qed.
Lemma restore_create_world : forall orig sub, world_of (restore_create orig sub) = world_of orig.
Proof. reflexivity. Qed.

(* a continuation that only reports what the caller is handed: failure iff output.error *)
Definition probe : mstate -> list Z -> lastsub -> list mres :=
  fun st' ob' l' =>
    [(match l' with Some (_, true, _) => FRevert ob' | _ => FOk ob' end, st', [])].

Lemma in_map_addlog_probe : forall pre st' ob' l' f st lg,
  In (f, st, lg) (map (addlog pre) (probe st' ob' l')) ->
  st = st' /\ f = match l' with Some (_, true, _) => FRevert ob' | _ => FOk ob' end.
Proof.
  intros. cbn in H. destruct H as [H|[]]. inversion H; subst. auto.
Qed.

Lemma transfer_value_world : forall st a b v st', transfer_value st a b v = Some st' ->
  m_code st' = m_code st /\ m_storage st' = m_storage st /\ m_transient st' = m_transient st.
Proof.
  intros st a b v st' H. unfold transfer_value in H.
  destruct (transfer_cond st a v); [|discriminate]. inversion H; subst.
  unfold transfer_force. destruct (v =? 0); cbn; auto.
Qed.

(* whatever the callee does (ANY function [run], any number of result paths, any states):
   when the caller is told that the call failed, its world is the one before the call *)
Theorem model_call_atomic : forall kd to v rsz c st ob run f st' lg ob',
  In (f, st', lg) (m_call kd to v rsz c st ob run probe) ->
  f = FRevert ob' ->
  world_of st' = world_of st.
Proof.
  intros kd to v rsz c st ob run f st' lg ob' Hin Hf.
  unfold m_call in Hin. cbv zeta in Hin.
  destruct (call_static_value_check _ _ _).
  { destruct Hin as [H|[]]. inversion H; subst. discriminate. }
  apply in_app_or in Hin as [Hin|Hin].
  - unfold call_backup_before_transfer in Hin.
    destruct (in_code st (to mod 2 ^ 160)).
    + destruct (send_callvalue _ _ _ _ _) as [st1|] eqn:Hsend; [|contradiction].
      apply in_flat_map in Hin as ([[r st2] lg0] & _ & Hin).
      destruct r; cbn [output_of call_success negb] in Hin;
        apply in_map_addlog_probe in Hin as [-> ->]; try discriminate Hf; apply restore_call_world.
    + destruct (unknown_call_ok _).
      * destruct (send_callvalue _ _ _ _ _) as [st1|] eqn:Hsend; [|contradiction].
        apply in_map_addlog_probe in Hin as [-> ->]. discriminate Hf.
      * cbn in Hin. destruct Hin as [H|[]]. inversion H; subst. reflexivity.
  - destruct (negb _ && _); [|contradiction].
    cbn in Hin. destruct Hin as [H|[]]. inversion H; subst. reflexivity.
Qed.

Theorem model_create_atomic : forall v initcode c st ob run f st' lg ob',
  In (f, st', lg) (m_create v initcode c st ob run probe) ->
  f = FRevert ob' ->
  world_of st' = world_of st.
Proof.
  intros v initcode c st ob run f st' lg ob' Hin Hf.
  unfold m_create in Hin. cbv zeta in Hin.
  destruct (create_static_check && c_static c).
  { destruct Hin as [H|[]]. inversion H; subst. discriminate. }
  unfold create_backup_before_setup in Hin.
  apply in_app_or in Hin as [Hin|Hin].
  - destruct (in_code _ _).
    + cbn in Hin. destruct Hin as [H|[]]. inversion H; subst. reflexivity.
    + destruct (transfer_value _ _ _ _) as [st2|]; [|contradiction].
      apply in_flat_map in Hin as ([[r st3] lg0] & _ & Hin).
      destruct r; cbn [output_of create_success negb] in Hin;
        apply in_map_addlog_probe in Hin as [-> ->]; try discriminate Hf;
        rewrite restore_create_world; reflexivity.
  - destruct (negb _ && _); [|contradiction].
    cbn in Hin. destruct Hin as [H|[]]. inversion H; subst. reflexivity.
Qed.

(* ------------------------------------------------------------------ conservation *)
Lemma get_balance_set : forall w a x b,
  get_balance (set_balance w a x) b = if b =? a then x else get_balance w b.
Proof. intros. unfold get_balance, set_balance. cbn. destruct (b =? a); reflexivity. Qed.

Lemma total_set_notin : forall addrs w a x, ~ In a addrs -> total addrs (set_balance w a x) = total addrs w.
Proof.
  induction addrs as [|b addrs IH]; intros w a x Hn; cbn [total]; [reflexivity|].
  rewrite get_balance_set, IH by (intros H; apply Hn; right; exact H).
  destruct (b =? a) eqn:E; [|reflexivity].
  apply Z.eqb_eq in E. subst. exfalso. apply Hn. left. reflexivity.
Qed.

Lemma total_set_in : forall addrs w a x, NoDup addrs -> In a addrs ->
  total addrs (set_balance w a x) = total addrs w + (x - get_balance w a).
Proof.
  induction addrs as [|b addrs IH]; intros w a x Hnd Hin; [contradiction|].
  inversion Hnd as [|? ? Hnb Hnd']; subst. cbn [total]. rewrite get_balance_set.
  destruct (b =? a) eqn:E.
  - apply Z.eqb_eq in E. subst. rewrite total_set_notin by exact Hnb. lia.
  - destruct Hin as [->|Hin]; [rewrite Z.eqb_refl in E; discriminate|].
    rewrite IH by assumption. lia.
Qed.

(* the reference interpreter's value transfer conserves the total over any duplicate-free
   set of addresses containing both parties *)
Theorem transfer_conserves : forall addrs w from to v,
  NoDup addrs -> In from addrs -> In to addrs ->
  total addrs (transfer w from to v) = total addrs w.
Proof.
  intros addrs w from to v Hnd Hf Ht. unfold transfer.
  rewrite total_set_in by assumption. rewrite get_balance_set.
  rewrite total_set_in by assumption.
  destruct (to =? from) eqn:E; [apply Z.eqb_eq in E; subst|]; lia.
Qed.

(* w' extends w's balance list by [delta]; the total over any duplicate-free address
   set covering the addresses whose balance entry changed is unchanged *)
Definition bal_ext (w w' : world) : Prop :=
  exists delta, w_balance w' = delta ++ w_balance w /\
    forall addrs, NoDup addrs -> (forall a, In a (map fst delta) -> In a addrs) ->
      total addrs w' = total addrs w.

Lemma total_balance_only : forall addrs w w', w_balance w = w_balance w' -> total addrs w = total addrs w'.
Proof.
  induction addrs; intros; cbn [total]; [reflexivity|].
  unfold get_balance. rewrite H. erewrite IHaddrs; eauto.
Qed.

Lemma bal_ext_refl_eq : forall w w', w_balance w' = w_balance w -> bal_ext w w'.
Proof.
  intros. exists []. split; [exact H|]. intros. apply total_balance_only. exact H.
Qed.
Lemma bal_ext_refl : forall w, bal_ext w w.
Proof. intros. apply bal_ext_refl_eq. reflexivity. Qed.

Lemma bal_ext_trans : forall w1 w2 w3, bal_ext w1 w2 -> bal_ext w2 w3 -> bal_ext w1 w3.
Proof.
  intros w1 w2 w3 (d1 & E1 & T1) (d2 & E2 & T2). exists (d2 ++ d1). split.
  - rewrite E2, E1, app_assoc. reflexivity.
  - intros addrs Hnd Hin. rewrite T2, T1; auto.
    + intros a Ha. apply Hin. rewrite map_app. apply in_or_app. right. exact Ha.
    + intros a Ha. apply Hin. rewrite map_app. apply in_or_app. left. exact Ha.
Qed.

Lemma bal_ext_xfer : forall w from to v, bal_ext w (xfer w from to v).
Proof.
  intros. unfold xfer. destruct (v =? 0); [apply bal_ext_refl|].
  exists [(to, get_balance (set_balance w from (get_balance w from - v)) to + v); (from, get_balance w from - v)].
  split; [reflexivity|].
  intros addrs Hnd Hin. apply transfer_conserves; auto; apply Hin; cbn; auto.
Qed.

Theorem sexec_conserves : forall s c w ctr ob rd ret w' ctr' lg,
  sexec s c w ctr ob rd = (SOk ret w', ctr', lg) -> bal_ext w w'.
Proof.
  induction s; intros c w ctr ob rd ret w' ctr' lg Hs; cbn [sexec] in Hs.
  - destruct e; cbn in Hs; inversion Hs; subst; apply bal_ext_refl.
  - destruct (c_static c); [discriminate|]. apply IHs in Hs.
    eapply bal_ext_trans; [|exact Hs]. apply bal_ext_refl_eq. reflexivity.
  - destruct (c_static c); [discriminate|]. apply IHs in Hs.
    eapply bal_ext_trans; [|exact Hs]. apply bal_ext_refl_eq. reflexivity.
  - destruct (c_static c); [discriminate|].
    destruct (sexec s c w ctr ob rd) as [[r0 c0] l0] eqn:E. inversion Hs; subst. eauto.
  - eauto.
  - destruct (blen rd <? off + size); [discriminate|]. eauto.
  - destruct (cond =? 0); eauto.
  - eauto.
  - destruct (is_kcall kd && c_static c && negb _); [discriminate|].
    destruct (MAX_DEPTH <? c_depth c + 1).
    { destruct (sexec s2 c w ctr _ _) as [[r0 c0] l0] eqn:E. inversion Hs; subst. eauto. }
    destruct (carries_value kd && negb _); [eauto|].
    set (w1 := if is_kcall kd then xfer w (c_this c) (to mod ADDR_MOD) (if carries_value kd then v else 0) else w) in *.
    assert (H1 : bal_ext w w1) by (subst w1; destruct (is_kcall kd); [apply bal_ext_xfer | apply bal_ext_refl]).
    destruct (match c_code _ with [] => _ | _ => _ end) as [[r1 c1] l1] eqn:Esub.
    assert (H2 : forall ret1 w2, r1 = SOk ret1 w2 -> bal_ext w1 w2).
    { intros ret1 w2 ->. destruct (c_code _).
      - unfold stop_frame in Esub. inversion Esub; subst. apply bal_ext_refl.
      - destruct (sexec s1 _ w1 ctr [] []) as [[r0 c0] l0] eqn:E. inversion Esub; subst. eauto. }
    destruct (match r1 with SOk _ _ => _ | SRevert _ => _ | SHalt => _ end) as [[r2 c2] l2] eqn:Erest.
    inversion Hs; subst.
    destruct r1 as [ret1 w2| |]; eauto.
    eapply bal_ext_trans; [exact H1|]. eapply bal_ext_trans; [eapply H2; reflexivity|]. eauto.
  - destruct (c_static c); [discriminate|].
    destruct (_ || _ || _); [eauto|].
    set (new := CREATE_BASE + (ctr + 1)) in *.
    set (w1 := xfer (new_account w new) (c_this c) new v) in *.
    assert (H1 : bal_ext w w1).
    { eapply bal_ext_trans; [|apply bal_ext_xfer]. apply bal_ext_refl_eq. reflexivity. }
    destruct (match initcode with [] => _ | _ => _ end) as [[r1 c1] l1] eqn:Esub.
    assert (H2 : forall ret1 w2, r1 = SOk ret1 w2 -> bal_ext w1 w2).
    { intros ret1 w2 ->. destruct initcode.
      - unfold stop_frame in Esub. inversion Esub; subst. apply bal_ext_refl.
      - destruct (sexec s1 _ w1 _ [] []) as [[r0 c0] l0] eqn:E. inversion Esub; subst. eauto. }
    destruct (match r1 with SOk _ _ => _ | SRevert _ => _ | SHalt => _ end) as [[r2 c2] l2] eqn:Erest.
    inversion Hs; subst.
    destruct r1 as [ret1 w2| |]; eauto.
    eapply bal_ext_trans; [exact H1|]. eapply bal_ext_trans; [eapply H2; reflexivity|].
    apply IHs2 in Erest. eapply bal_ext_trans; [|exact Erest]. apply bal_ext_refl_eq. reflexivity.
Qed.

(* ------------------------------------------------------------------ static context *)
Theorem model_static_sstore : forall k v rest c st ob l, c_static c = true ->
  mexec (SSstore k v rest) c st ob l = [(FHalt, st, [LEnd FHalt])].
Proof. intros. cbn [mexec]. rewrite H. reflexivity. Qed.
Theorem model_static_tstore : forall k v rest c st ob l, c_static c = true ->
  mexec (STstore k v rest) c st ob l = [(FHalt, st, [LEnd FHalt])].
Proof. intros. cbn [mexec]. rewrite H. reflexivity. Qed.
Theorem model_static_log : forall rest c st ob l, c_static c = true ->
  mexec (SLog rest) c st ob l = [(FHalt, st, [LEnd FHalt])].
Proof. intros. cbn [mexec]. rewrite H. reflexivity. Qed.
Theorem model_static_create : forall v ic init rest c st ob l, c_static c = true ->
  mexec (SCreate v ic init rest) c st ob l = [(FHalt, st, [LEnd FHalt])].
Proof. intros. cbn [mexec]. unfold m_create. rewrite H. reflexivity. Qed.
(* the static flag is inherited by every kind of call and set by STATICCALL *)
Theorem model_static_inherited : forall kd b, msg_static (op_of kd) true = true /\ msg_static (op_of KStatic) b = true.
Proof. intros. destruct kd, b; auto. Qed.

Lemma sub_ctx_static : forall kd c w to v, c_static c = true -> c_static (sub_ctx kd c w to v) = true.
Proof. destruct kd; cbn; auto. Qed.

(* specification: a frame running in a static context cannot change the world *)
Theorem sexec_static_pure : forall s c w ctr ob rd ret w' ctr' lg,
  c_static c = true -> sexec s c w ctr ob rd = (SOk ret w', ctr', lg) -> w' = w.
Proof.
  induction s; intros c w ctr ob rd ret w' ctr' lg Hst Hs; cbn [sexec] in Hs; try rewrite Hst in Hs; try discriminate.
  - destruct e; cbn in Hs; inversion Hs; subst; reflexivity.
  - eauto.
  - destruct (blen rd <? off + size); [discriminate|]. eauto.
  - destruct (cond =? 0); eauto.
  - eauto.
  - rewrite andb_true_r in Hs.
    destruct (is_kcall kd && negb _) eqn:Hv; [discriminate|].
    destruct (MAX_DEPTH <? c_depth c + 1).
    { destruct (sexec s2 c w ctr _ _) as [[r0 c0] l0] eqn:E. inversion Hs; subst. eauto. }
    destruct (carries_value kd && negb _); [eauto|].
    assert (Hw1 : (if is_kcall kd then xfer w (c_this c) (to mod ADDR_MOD) (if carries_value kd then v else 0) else w) = w).
    { destruct kd; cbn in *; try reflexivity. unfold xfer. destruct (v =? 0); [reflexivity | discriminate]. }
    rewrite Hw1 in Hs.
    destruct (match c_code _ with [] => _ | _ => _ end) as [[r1 c1] l1] eqn:Esub.
    assert (H2 : forall ret1 w2, r1 = SOk ret1 w2 -> w2 = w).
    { intros ret1 w2 ->. destruct (c_code _).
      - unfold stop_frame in Esub. inversion Esub; subst. reflexivity.
      - destruct (sexec s1 _ w ctr [] []) as [[r0 c0] l0] eqn:E. inversion Esub; subst.
        eapply IHs1; [|exact E]. apply sub_ctx_static. exact Hst. }
    destruct (match r1 with SOk _ _ => _ | SRevert _ => _ | SHalt => _ end) as [[r2 c2] l2] eqn:Erest.
    inversion Hs; subst.
    destruct r1 as [ret1 w2| |]; eauto.
    rewrite (H2 _ _ eq_refl) in Erest. eauto.
Qed.

(* ------------------------------------------------------------------ the repaired situations *)
Definition ctx0 (static : bool) (depth : Z) : fctx := mkCtx 4096 77 77 0 [0] static depth.
Definition world0 (bal : Z) : world :=
  mkWorld [(4096, [0]); (8192, [0])] [] [] [(4096, bal)].

(* the three situations repaired in sevm.py (fea28af, 91e78e2, 4f2dd83), at full strength *)

(* a value-bearing CALL inside a static frame halts the frame: nothing is reported but the
   halt, nothing moves -- whatever the target, the callee and the rest of the frame *)
Theorem static_value_call_halts : forall to v rsz callee rest c w ctr ob l,
  c_static c = true -> v <> 0 ->
  sexec (SCall KCall to v rsz callee rest) c w ctr ob (returndata l) = (SHalt, ctr, [LEnd FHalt]) /\
  mexec (SCall KCall to v rsz callee rest) c (mstate_of w ctr) ob l = [(FHalt, mstate_of w ctr, [LEnd FHalt])].
Proof.
  intros to v rsz callee rest c w ctr ob l Hst Hv.
  assert (E : (v =? 0) = false) by lia.
  split.
  - cbn [sexec carries_value is_kcall]. rewrite Hst, E. reflexivity.
  - cbn [mexec]. unfold m_call. cbv zeta. rewrite static_check_eq.
    cbn [carries_value is_kcall]. rewrite Hst, E. reflexivity.
Qed.

(* CALLCODE with value > balance: the callee never runs and NO succeeding path is reported;
   the only paths are those of the rest of the frame, continued with flag 0, empty return
   data and the untouched state *)
Theorem callcode_insufficient_fails : forall to v rsz callee rest c st ob l,
  0 <= balance_of st (c_this c) < v -> c_depth c + 1 <= MAX_DEPTH ->
  mexec (SCall KCallcode to v rsz callee rest) c st ob l =
  mexec rest c st (m_after_call ob 0 (Some (false, true, [])) rsz []) (Some (false, true, [])).
Proof.
  intros to v rsz callee rest c st ob l Hb Hdp.
  assert (Ev : (v =? 0) = false) by lia.
  assert (Eu : unknown_call_ok (c_depth c) = true) by (rewrite unknown_ok_eq; unfold MAX_DEPTH in *; lia).
  cbn [mexec]. unfold m_call. cbv zeta. rewrite static_check_eq. cbn [is_kcall andb].
  unfold send_callvalue, send_cond. rewrite sends_eq. cbn [is_kcall].
  change (call_fund (op_of KCallcode) v) with v.
  assert (E0 : callvalue_checks_balance (op_of KCallcode) v = true)
    by (unfold callvalue_checks_balance, op_of, OP_CALLCODE; lia).
  assert (E1 : callvalue_balance_ok (balance_of st (c_this c)) v = false) by (unfold callvalue_balance_ok; lia).
  assert (E2 : insufficient (balance_of st (c_this c)) v = true) by (unfold insufficient; lia).
  rewrite E0, E1, E2, Ev, Eu. cbn [andb negb]. destruct (in_code st (to mod 2 ^ 160)); reflexivity.
Qed.

(* RETURNDATACOPY beyond the return data halts the frame, also when the size is 0 *)
Theorem retcopy_oob_halts : forall off size rest c w ctr ob l,
  blen (returndata l) < off + size ->
  sexec (SRetCopy off size rest) c w ctr ob (returndata l) = (SHalt, ctr, [LEnd FHalt]) /\
  mexec (SRetCopy off size rest) c (mstate_of w ctr) ob l = [(FHalt, mstate_of w ctr, [LEnd FHalt])].
Proof.
  intros off size rest c w ctr ob l Hb. split.
  - cbn [sexec]. assert (E : (blen (returndata l) <? off + size) = true) by lia. rewrite E. reflexivity.
  - cbn [mexec].
    assert (E : retcopy_guard size && retcopy_oob off size (blen (returndata l)) = true)
      by (unfold retcopy_guard, retcopy_oob; lia).
    rewrite E. reflexivity.
Qed.

(* 65d68f4: a call (of any kind, with any value) of an address WITHOUT ACCOUNT executed at the
   depth limit fails like any other call: the specification goes on with status word 0 and
   empty return data, and every path the model reports is a path of the rest of the frame
   continued with status word 0, RETURNDATASIZE 0, an untouched return area and the untouched
   state (nothing is sent) *)
Theorem depth_limit_nocode_fails : forall kd to v rsz callee rest c w ctr ob l,
  has_account w (to mod ADDR_MOD) = false -> MAX_DEPTH < c_depth c + 1 ->
  is_kcall kd && c_static c && negb ((if carries_value kd then v else 0) =? 0) = false ->
  sexec (SCall kd to v rsz callee rest) c w ctr ob (returndata l)
    = sexec rest c w ctr (after_call ob 0 [] rsz []) [] /\
  forall m, In m (mexec (SCall kd to v rsz callee rest) c (mstate_of w ctr) ob l) ->
    exists l', returndata l' = [] /\
      In m (mexec rest c (mstate_of w ctr) (m_after_call ob 0 l' rsz []) l').
Proof.
  intros kd to v rsz callee rest c w ctr ob l Ha Hd Hsv.
  assert (Ed : (MAX_DEPTH <? c_depth c + 1) = true) by lia.
  split.
  - cbn [sexec]. rewrite Hsv, Ed. reflexivity.
  - intros m Hin. cbn [mexec] in Hin. unfold m_call in Hin. cbv zeta in Hin.
    change (2 ^ 160) with ADDR_MOD in Hin.
    rewrite static_check_eq, Hsv, in_code_eq, Ha, unknown_ok_eq, Ed in Hin. cbn [negb] in Hin.
    apply in_app_or in Hin as [Hin|Hin].
    + exists (Some (false, false, [])). split; [reflexivity | exact Hin].
    + destruct (negb _ && _); [|contradiction].
      exists (Some (false, true, [])). split; [reflexivity | exact Hin].
Qed.

(* ------------------------------------------------------------------ whole-frame corollaries *)
Theorem mframe_conserves : forall s c w ctr r ctr' lg ret st lg',
  c_depth c <= MAX_DEPTH -> sframe s c w ctr = (r, ctr', lg) ->
  In (FOk ret, st, lg') (mframe s c (mstate_of w ctr)) ->
  bal_ext w (world_of st).
Proof.
  intros s c w ctr r ctr' lg ret st lg' Hd Hs Hin.
  destruct (mframe_refines _ _ _ _ _ _ _ Hd Hs) as [_ Hall].
  rewrite Forall_forall in Hall. specialize (Hall _ Hin).
  destruct r as [ret0 w0| |]; destruct Hall as (_ & _ & Hr); try discriminate Hr.
  destruct Hr as [_ <-].
  unfold sframe in Hs. destruct (c_code c).
  - unfold stop_frame in Hs. inversion Hs; subst. apply bal_ext_refl.
  - destruct (sexec s c w ctr [] []) as [[r0 c0] l0] eqn:E. inversion Hs; subst.
    eapply sexec_conserves; eauto.
Qed.

(* ------------------------------------------------------------------ reference interpreter (Spec/Evm.v) *)
(* do_call: either the status word is 1, or the caller's world is untouched -- for ANY sub-frame executor *)
Theorem evm_do_call_atomic : forall lim run_sub e s op s',
  do_call lim run_sub e s op = Continue s' ->
  (exists r, s_stack s' = 1 :: r) \/ s_world s' = s_world s.
Proof.
  intros lim run_sub e s op s' H. unfold do_call in H.
  destruct (match op with 241 => _ | _ => _ end) as [[[[[[[to0 v] ao] asz] ro] rsz] r]|]; [|discriminate].
  repeat match type of H with
         | (if ?b then _ else _) = _ => destruct b
         | halt _ _ = _ => discriminate
         | Done _ = _ => discriminate
         end;
  try (inversion H; subst; cbn; auto; fail).
  destruct (run_sub _ _ _); inversion H; subst; cbn; eauto.
Qed.

Ltac case_if H := match type of H with (if ?b then _ else _) = _ => destruct b end.

Lemma Continue_inj : forall a b, Continue a = Continue b -> a = b.
Proof. intros a b X. inversion X. reflexivity. Qed.

Theorem evm_do_create_atomic : forall lim run_sub e s s',
  do_create lim run_sub e s = Continue s' ->
  (exists r, s_stack s' = (CREATE_BASE + (s_ctr s + 1)) :: r) \/ s_world s' = s_world s.
Proof.
  intros lim run_sub e s s' H. unfold do_create in H.
  destruct (s_stack s) as [|v [|off [|size r]]]; try discriminate.
  case_if H; [discriminate|].
  case_if H; [discriminate|].
  cbv zeta in H.
  case_if H; [apply Continue_inj in H; rewrite <- H; right; reflexivity|].
  case_if H; [apply Continue_inj in H; rewrite <- H; right; reflexivity|].
  case_if H; [apply Continue_inj in H; rewrite <- H; right; reflexivity|].
  destruct (run_sub _ _ _); cbv beta iota in H.
  - apply Continue_inj in H.
    rewrite <- H.
    left.
    exists r.
    cbn [s_stack].
    reflexivity.
  - apply Continue_inj in H. rewrite <- H. right. reflexivity.
  - apply Continue_inj in H. rewrite <- H. right. reflexivity.
  - discriminate.
  - discriminate.
Qed.

(* CREATE2: the same shape; the address pushed is the (named) EIP-1014 address of the init code read from memory *)
Theorem evm_do_create2_atomic : forall lim run_sub e s s',
  do_create2 lim run_sub e s = Continue s' ->
  (exists v off size salt r,
      s_stack s = v :: off :: size :: salt :: r /\
      s_stack s' = c2name (e_block e) (create2_address (e_this e) salt
                      (mread (mexpand (s_mem s) (Z.to_nat off) (Z.to_nat size)) (Z.to_nat off) (Z.to_nat size))) :: r)
  \/ s_world s' = s_world s.
Proof.
  intros lim run_sub e s s' H. unfold do_create2 in H.
  destruct (s_stack s) as [|v [|off [|size [|salt r]]]] eqn:Est; try discriminate.
  case_if H; [discriminate|].
  case_if H; [discriminate|].
  cbv zeta in H.
  case_if H; [apply Continue_inj in H; rewrite <- H; right; reflexivity|].
  case_if H; [apply Continue_inj in H; rewrite <- H; right; reflexivity|].
  case_if H; [apply Continue_inj in H; rewrite <- H; right; reflexivity|].
  destruct (run_sub _ _ _); cbv beta iota in H.
  - apply Continue_inj in H. rewrite <- H. left. exists v, off, size, salt, r.
    split; [reflexivity|]. cbn [s_stack]. reflexivity.
  - apply Continue_inj in H. rewrite <- H. right. reflexivity.
  - apply Continue_inj in H. rewrite <- H. right. reflexivity.
  - discriminate.
  - discriminate.
Qed.

(* a CREATE2 that does not run a creation frame (depth, funds, collision) leaves the CREATE counter alone;
   one that does hands the frame the counter UNCHANGED (CREATE hands over counter + 1) *)
Theorem evm_do_create2_counter : forall lim e s s' rs,
  (forall e' w' c, rs e' w' c = RHalt c 0) ->
  do_create2 lim rs e s = Continue s' -> s_ctr s' = s_ctr s.
Proof.
  intros lim e s s' rs Hrs H. unfold do_create2 in H.
  destruct (s_stack s) as [|v [|off [|size [|salt r]]]]; try discriminate.
  case_if H; [discriminate|].
  case_if H; [discriminate|].
  cbv zeta in H.
  case_if H; [apply Continue_inj in H; rewrite <- H; reflexivity|].
  case_if H; [apply Continue_inj in H; rewrite <- H; reflexivity|].
  case_if H; [apply Continue_inj in H; rewrite <- H; reflexivity|].
  rewrite Hrs in H. apply Continue_inj in H. rewrite <- H. reflexivity.
Qed.

(* xfer (no-op on zero) and the interpreter's transfer agree on every balance *)
Theorem xfer_transfer_same_balances : forall w from to v a,
  get_balance (xfer w from to v) a = get_balance (transfer w from to v) a.
Proof.
  intros. unfold xfer. destruct (v =? 0) eqn:E; [|reflexivity].
  apply Z.eqb_eq in E. subst. unfold transfer. rewrite !get_balance_set.
  destruct (a =? to) eqn:E1; destruct (a =? from) eqn:E2;
    try (apply Z.eqb_eq in E1); try (apply Z.eqb_eq in E2); subst;
    rewrite ?get_balance_set, ?Z.eqb_refl, ?E1, ?E2; try lia;
    try (destruct (to =? from) eqn:E3; [apply Z.eqb_eq in E3; subst; lia | lia]).
Qed.

(* statement shapes used by Props/C09.v *)
Lemma mframe_refines_supported : forall s c w ctr r ctr' lg,
  supported s = true -> c_depth c <= MAX_DEPTH ->
  sframe s c w ctr = (r, ctr', lg) ->
  mframe s c (mstate_of w ctr) <> [] /\
  Forall (fun m : mres => R m (r, ctr', lg)) (mframe s c (mstate_of w ctr)).
Proof. intros s c w ctr r ctr' lg _ Hd Hs. exact (mframe_refines s c w ctr r ctr' lg Hd Hs). Qed.

Lemma model_static_all : forall c st ob l, c_static c = true ->
  (forall k v rest, mexec (SSstore k v rest) c st ob l = [(FHalt, st, [LEnd FHalt])]) /\
  (forall k v rest, mexec (STstore k v rest) c st ob l = [(FHalt, st, [LEnd FHalt])]) /\
  (forall rest, mexec (SLog rest) c st ob l = [(FHalt, st, [LEnd FHalt])]) /\
  (forall v ic init rest, mexec (SCreate v ic init rest) c st ob l = [(FHalt, st, [LEnd FHalt])]) /\
  (forall kd, msg_static (op_of kd) true = true) /\ (forall b, msg_static (op_of KStatic) b = true).
Proof.
  intros c st ob l H.
  split; [intros; apply model_static_sstore; exact H|].
  split; [intros; apply model_static_tstore; exact H|].
  split; [intros; apply model_static_log; exact H|].
  split; [intros; apply model_static_create; exact H|].
  split; [intros kd; exact (proj1 (model_static_inherited kd true)) | intros b; exact (proj2 (model_static_inherited KCall b))].
Qed.
