(* C09 -- proofs: the halmos call model (Model/CallModel.v over the regenerated
   Gen/GenCallMsg.v) refines the EVM call-tree specification (Spec/CallSpec.v) on every
   script tree; atomicity, conservation, static-context corollaries; facts proved directly
   about the reference interpreter's do_call / do_create / transfer (Spec/Evm.v). *)
From Coq Require Import ZArith List Bool Lia ZifyBool.
From HV Require Import Base.Word Spec.Evm Spec.CallSpec Gen.GenOpcodes Gen.GenConsts Gen.GenCallMsg Model.CallModel.
Import ListNotations.
Open Scope Z_scope.

(* ------------------------------------------------------------------ the refinement relation *)
Definition R (m : mres) (s : sres * Z * list logitem) : Prop :=
  let '(f, st, lg) := m in
  let '(r, ctr, lg') := s in
  lg = lg' /\ m_cnt st = ctr /\
  match r with
  | SOk ret w => f = FOk ret /\ world_of st = w
  | SRevert ret => f = FRevert ret
  | SHalt => f = FHalt
  end.

(* every reported result is the specified one, and there is at least one *)
Definition Sim (ms : list mres) (s : sres * Z * list logitem) : Prop :=
  ms <> [] /\ Forall (fun m => R m s) ms.

Lemma mstate_world : forall st, mstate_of (world_of st) (m_cnt st) = st.
Proof. destruct st; reflexivity. Qed.
Lemma world_mstate : forall w c, world_of (mstate_of w c) = w.
Proof. destruct w; reflexivity. Qed.
Lemma cnt_mstate : forall w c, m_cnt (mstate_of w c) = c.
Proof. reflexivity. Qed.

Lemma Sim_single : forall m s, R m s -> Sim [m] s.
Proof. intros m s H; split; [discriminate | constructor; auto]. Qed.

Lemma Sim_addlog : forall pre ms r c lg, Sim ms (r, c, lg) -> Sim (map (addlog pre) ms) (r, c, pre ++ lg).
Proof.
  intros pre ms r c lg [Hne Hall]; split.
  - destruct ms; [congruence | discriminate].
  - apply Forall_map. eapply Forall_impl; [| exact Hall].
    intros [[f st] l] HR. unfold R in *. cbn in *. destruct HR as (-> & Hc & Hr). auto.
Qed.

Lemma Sim_flat_map : forall (f : mres -> list mres) subs s,
  subs <> [] -> (forall sub, In sub subs -> Sim (f sub) s) -> Sim (flat_map f subs) s.
Proof.
  intros f subs s Hne H; split.
  - destruct subs as [|a subs]; [congruence|]. cbn.
    destruct (H a (or_introl eq_refl)) as [Hn _].
    destruct (f a); [congruence | discriminate].
  - apply Forall_forall. intros m Hin. apply in_flat_map in Hin as (sub & Hs & Hm).
    destruct (H sub Hs) as [_ Hall]. rewrite Forall_forall in Hall. auto.
Qed.

Lemma Sim_app_nil_r : forall ms s, Sim ms s -> Sim (ms ++ []) s.
Proof. intros; rewrite app_nil_r; auto. Qed.

Lemma Sim_app : forall a b s, Sim a s -> Sim b s -> Sim (a ++ b) s.
Proof.
  intros a b s [Ha Fa] [Hb Fb]; split.
  - destruct a; [congruence | discriminate].
  - apply Forall_app; auto.
Qed.

Lemma clean_app : forall a b, clean (a ++ b) = clean a && clean b.
Proof. intros; unfold clean; apply forallb_app. Qed.
Lemma clean_cons : forall x a, clean (x :: a) = negb (is_marker x) && clean a.
Proof. reflexivity. Qed.

(* ------------------------------------------------------------------ model pieces = spec pieces *)
Lemma balance_of_eq : forall w c a, balance_of (mstate_of w c) a = get_balance w a.
Proof. reflexivity. Qed.
Lemma in_code_eq : forall w c a, in_code (mstate_of w c) a = has_account w a.
Proof. reflexivity. Qed.
Lemma code_at_eq : forall w c a, code_at (mstate_of w c) a = get_code w a.
Proof. reflexivity. Qed.

Lemma transfer_value_eq : forall w c from to v,
  transfer_value (mstate_of w c) from to v =
  if can_pay w from v then Some (mstate_of (xfer w from to v) c) else None.
Proof.
  intros. unfold transfer_value, can_pay, xfer.
  destruct (v =? 0) eqn:Hv; cbn [orb]; [reflexivity|].
  rewrite balance_of_eq.
  destruct (balance_ok (get_balance w from) v) eqn:Hb; unfold balance_ok in Hb;
    destruct (v <=? get_balance w from) eqn:Hc; try lia; cbn [negb]; [|reflexivity].
  unfold transfer_debit, transfer_credit, balance_update, balance_of, transfer, set_balance, get_balance, mstate_of.
  cbn. reflexivity.
Qed.

Lemma ret_area_eq : forall rsz data, m_ret_area rsz data = ret_area rsz data.
Proof.
  intros. unfold m_ret_area, ret_area, effective_ret_size, blen.
  replace (Z.to_nat (Z.min rsz (Z.of_nat (length data)))) with (Nat.min (Z.to_nat rsz) (length data)) by lia.
  reflexivity.
Qed.
Lemma after_call_eq : forall ob flag l rsz data,
  m_after_call ob flag l rsz data = after_call ob flag (returndata l) rsz data.
Proof. intros. unfold m_after_call, after_call. rewrite ret_area_eq. reflexivity. Qed.
Lemma after_create_eq : forall ob p l, m_after_create ob p l = after_create ob p (returndata l).
Proof. reflexivity. Qed.
Lemma observation_eq : forall c w ctr k, m_observation c (mstate_of w ctr) k = observation c w k.
Proof. reflexivity. Qed.

Lemma returndata_call : forall e d, returndata (Some (false, e, d)) = d.
Proof. intros. unfold returndata, returndata_hidden. destruct e; reflexivity. Qed.
Lemma returndata_create_ok : forall d, returndata (Some (true, false, d)) = [].
Proof. reflexivity. Qed.
Lemma returndata_create_err : forall d, returndata (Some (true, true, d)) = d.
Proof. reflexivity. Qed.

Lemma msg_eq : forall kd c w ctr to v0,
  mkCtx (msg_target (op_of kd) to (c_this c)) (msg_caller (op_of kd) (c_this c) (c_caller c))
        (msg_origin (c_origin c)) (msg_value (op_of kd) (call_fund (op_of kd) v0) (c_value c))
        (code_at (mstate_of w ctr) to) (msg_static (op_of kd) (c_static c)) (c_depth c + 1)
  = sub_ctx kd c w to (if carries_value kd then v0 else 0).
Proof.
  intros. rewrite code_at_eq.
  destruct kd; cbn; unfold msg_static; cbn; rewrite ?orb_false_r, ?orb_true_r; reflexivity.
Qed.
Lemma fund_eq : forall kd v0, call_fund (op_of kd) v0 = if carries_value kd then v0 else 0.
Proof. destruct kd; reflexivity. Qed.
Lemma sends_eq : forall kd, sends_value (op_of kd) = is_kcall kd.
Proof. destruct kd; reflexivity. Qed.
Lemma insufficient_eq : forall w a v,
  negb (v =? 0) && insufficient (get_balance w a) v = negb (can_pay w a v).
Proof. intros. unfold insufficient, can_pay. lia. Qed.
Lemma depth_eq : forall d, depth_exceeded (d + 1) = (MAX_DEPTH <? d + 1).
Proof. intros. unfold depth_exceeded, MAX_CALL_DEPTH, MAX_DEPTH. lia. Qed.
Lemma new_address_eq : forall n, new_address n = CREATE_BASE + n.
Proof. intros. unfold new_address, magic_address, new_address_offset, CREATE_BASE. lia. Qed.

Lemma restore_call_eq : forall w c0 sub, restore_call (mstate_of w c0) sub = mstate_of w (m_cnt sub).
Proof. destruct w; reflexivity. Qed.
Lemma restore_create_eq : forall w c0 sub, restore_create (mstate_of w c0) sub = mstate_of w (m_cnt sub).
Proof. destruct w; reflexivity. Qed.

Lemma R_state : forall f st lg ret w ctr lg',
  R (f, st, lg) (SOk ret w, ctr, lg') -> st = mstate_of w ctr /\ f = FOk ret /\ lg = lg'.
Proof.
  intros. unfold R in H. destruct H as (-> & <- & -> & <-). rewrite mstate_world. auto.
Qed.

(* ------------------------------------------------------------------ simulation of one call / create *)
Definition callee_hyp (callee : script) (run : fctx -> mstate -> list mres) : Prop :=
  forall c' w' ctr' r ctr'' lg,
    sexec callee c' w' ctr' [] [] = (r, ctr'', lg) -> clean lg = true ->
    Sim (run c' (mstate_of w' ctr')) (r, ctr'', lg).
Definition cont_hyp (rest : script) (c : fctx) (cont : mstate -> list Z -> lastsub -> list mres) : Prop :=
  forall w' ctr' ob' l' r ctr'' lg,
    sexec rest c w' ctr' ob' (returndata l') = (r, ctr'', lg) -> clean lg = true ->
    Sim (cont (mstate_of w' ctr') ob' l') (r, ctr'', lg).

Lemma sub_frame_sim : forall callee run sc w1 ctr r1 ctr1 lg1,
  callee_hyp callee run ->
  depth_exceeded (c_depth sc) = false ->
  match c_code sc with
  | [] => stop_frame sc w1 ctr
  | _ => let '(r, c1, l1) := sexec callee sc w1 ctr [] [] in (r, c1, LFrame sc :: l1)
  end = (r1, ctr1, lg1) ->
  clean lg1 = true ->
  Sim (sub_frame sc (mstate_of w1 ctr) run) (r1, ctr1, lg1).
Proof.
  intros callee run sc w1 ctr r1 ctr1 lg1 Hc Hd Hs Hcl.
  unfold sub_frame. rewrite Hd.
  destruct (c_code sc) eqn:Hcode.
  - unfold stop_frame in Hs. inversion Hs; subst. apply Sim_single.
    unfold R. rewrite world_mstate. auto.
  - destruct (sexec callee sc w1 ctr [] []) as [[r c1] l1] eqn:He.
    inversion Hs; subst.
    change (LFrame sc :: l1) with ([LFrame sc] ++ l1).
    apply Sim_addlog. apply Hc; auto.
Qed.

Lemma call_finish_sim : forall c w ctr0 ob rsz rest cont subs r1 ctr1 lg1 r2 ctr2 lg2,
  cont_hyp rest c cont ->
  Sim subs (r1, ctr1, lg1) ->
  match r1 with
  | SOk ret w2 => sexec rest c w2 ctr1 (after_call ob 1 ret rsz ret) ret
  | SRevert ret => sexec rest c w ctr1 (after_call ob 0 ret rsz ret) ret
  | SHalt => sexec rest c w ctr1 (after_call ob 0 [] rsz []) []
  end = (r2, ctr2, lg2) ->
  clean lg2 = true ->
  Sim (flat_map
         (fun sub : mres =>
            let '(r, st2, lg) := sub in
            let '(data, has_error) := output_of r in
            let success := call_success has_error in
            let l := Some (false, has_error, data) in
            let st3 := if success then st2 else restore_call (mstate_of w ctr0) st2 in
            map (addlog lg) (cont st3 (m_after_call ob (if success then 1 else 0) l rsz data) l))
         subs) (r2, ctr2, lg1 ++ lg2).
Proof.
  intros c w ctr0 ob rsz rest cont subs r1 ctr1 lg1 r2 ctr2 lg2 Hk [Hne Hall] Hs Hcl.
  apply Sim_flat_map; [exact Hne|].
  intros [[f st2] lg] Hin. rewrite Forall_forall in Hall. specialize (Hall _ Hin).
  destruct r1 as [ret w2 | ret |].
  - apply R_state in Hall as (-> & -> & ->). cbn [output_of call_success negb].
    apply Sim_addlog. rewrite after_call_eq. apply Hk; [|exact Hcl].
    rewrite returndata_call. exact Hs.
  - destruct Hall as (-> & Hc & ->). cbn [output_of call_success negb].
    rewrite restore_call_eq, Hc. apply Sim_addlog. rewrite after_call_eq. apply Hk; [|exact Hcl].
    rewrite returndata_call. exact Hs.
  - destruct Hall as (-> & Hc & ->). cbn [output_of call_success negb].
    rewrite restore_call_eq, Hc. apply Sim_addlog. rewrite after_call_eq. apply Hk; [|exact Hcl].
    rewrite returndata_call. exact Hs.
Qed.

Lemma sub_ctx_depth : forall kd c w to v, c_depth (sub_ctx kd c w to v) = c_depth c + 1.
Proof. destruct kd; reflexivity. Qed.
Lemma sub_ctx_code : forall kd c w to v, c_code (sub_ctx kd c w to v) = get_code w to.
Proof. destruct kd; reflexivity. Qed.
Lemma no_account_no_code : forall w a, has_account w a = false -> get_code w a = [].
Proof. intros w a. unfold has_account, get_code. destruct (alookup a (w_code w)); [discriminate | reflexivity]. Qed.

Lemma Sim_addlog_nil : forall ms s, Sim ms s -> Sim (map (addlog []) ms) s.
Proof. intros ms [[r c] lg] H. apply (Sim_addlog [] ms r c lg H). Qed.

Lemma m_call_sim : forall kd to0 v0 rsz c w ctr ob l callee rest run cont,
  callee_hyp callee run -> cont_hyp rest c cont ->
  forall r ctr' lg,
  sexec (SCall kd to0 v0 rsz callee rest) c w ctr ob (returndata l) = (r, ctr', lg) -> clean lg = true ->
  Sim (m_call kd to0 v0 rsz c (mstate_of w ctr) ob run cont) (r, ctr', lg).
Proof.
  intros kd to0 v0 rsz c w ctr ob l callee rest run cont Hc Hk r ctr' lg Hs Hcl.
  cbn [sexec] in Hs.
  unfold m_call. cbv zeta.
  change (2 ^ 160) with ADDR_MOD.
  rewrite msg_eq, fund_eq, sends_eq, balance_of_eq, insufficient_eq, in_code_eq.
  set (to := to0 mod ADDR_MOD) in *.
  set (v := if carries_value kd then v0 else 0) in *.
  rewrite !transfer_value_eq.
  unfold call_backup_before_transfer.
  destruct (is_kcall kd && c_static c && negb (v =? 0)) eqn:Hsv.
  { inversion Hs; subst. discriminate Hcl. }
  assert (Hfail : forall l0 r0 c0 lg0, returndata l0 = [] ->
            sexec rest c w ctr (after_call ob 0 [] rsz []) [] = (r0, c0, lg0) -> clean lg0 = true ->
            Sim (cont (mstate_of w ctr) (m_after_call ob 0 l0 rsz []) l0) (r0, c0, lg0)).
  { intros l0 r0 c0 lg0 Hl Hr Hcl0. rewrite after_call_eq, Hl. apply Hk; [rewrite Hl; auto | auto]. }
  destruct (MAX_DEPTH <? c_depth c + 1) eqn:Hd.
  { (* depth limit: the sub-frame halts at its first step, the callback restores *)
    destruct (sexec rest c w ctr (after_call ob 0 [] rsz []) []) as [[r0 c0] lg0] eqn:Hr.
    destruct (has_account w to) eqn:Ha; inversion Hs; subst; [| discriminate Hcl].
    cbn [app] in Hcl |- *.
    assert (HX : Sim (cont (mstate_of w ctr) (m_after_call ob 0 (Some (false, true, [])) rsz []) (Some (false, true, []))) (r, ctr', lg)).
    { apply Hfail; auto. }
    assert (HY : forall w1, Sim (flat_map
             (fun '(r0, st2, lg0) =>
              let '(data, has_error) := output_of r0 in
               map (addlog lg0)
                 (cont (if call_success has_error then st2
                        else restore_call (if true then mstate_of w ctr else mstate_of w1 ctr) st2)
                    (m_after_call ob (if call_success has_error then 1 else 0)
                       (Some (false, has_error, data)) rsz data)
                    (Some (false, has_error, data))))
             (sub_frame (sub_ctx kd c w to v) (mstate_of w1 ctr) run)) (r, ctr', lg)).
    { intros w1. unfold sub_frame. rewrite sub_ctx_depth, depth_eq, Hd.
      cbn [flat_map output_of call_success negb app]. rewrite app_nil_r, restore_call_eq.
      apply Sim_addlog_nil. exact HX. }
    destruct (is_kcall kd); destruct (can_pay w (c_this c) v); cbn [negb app];
      try apply HY; try (apply Sim_app; [exact HX | apply HY]); try (apply Sim_app_nil_r; exact HX). }
  destruct (carries_value kd && negb (can_pay w (c_this c) v)) eqn:Hp.
  { (* the caller cannot pay: only the insufficient-funds branch is feasible *)
    destruct (sexec rest c w ctr (after_call ob 0 [] rsz []) []) as [[r0 c0] lg0] eqn:Hr.
    inversion Hs; subst. clear Hs.
    destruct kd; subst v; cbn [carries_value andb] in *; try discriminate Hp.
    - cbn [is_kcallcode is_kcall app] in *. rewrite Hp.
      destruct (can_pay w (c_this c) v0); [discriminate Hp|].
      destruct (has_account w to); apply Sim_app_nil_r; apply Hfail; auto.
    - discriminate Hcl. }
  assert (Hcp : can_pay w (c_this c) v = true).
  { subst v. destruct kd; cbn in Hp |- *; try reflexivity;
      destruct (can_pay w (c_this c) v0); auto; discriminate. }
  rewrite Hcp. cbn [negb app].
  set (w1 := if is_kcall kd then xfer w (c_this c) to v else w) in *.
  replace (if is_kcall kd then Some (mstate_of (xfer w (c_this c) to v) ctr) else Some (mstate_of w ctr))
    with (Some (mstate_of w1 ctr)) by (subst w1; destruct (is_kcall kd); reflexivity).
  destruct (has_account w to) eqn:Ha.
  - destruct (match c_code (sub_ctx kd c w to v) with
              | [] => stop_frame (sub_ctx kd c w to v) w1 ctr
              | _ :: _ => let '(r, ctr1, lg1) := sexec callee (sub_ctx kd c w to v) w1 ctr [] [] in
                          (r, ctr1, LFrame (sub_ctx kd c w to v) :: lg1)
              end) as [[r1 ctr1] lg1] eqn:Hsub.
    destruct (match r1 with
              | SOk ret w2 => sexec rest c w2 ctr1 (after_call ob 1 ret rsz ret) ret
              | SRevert ret => sexec rest c w ctr1 (after_call ob 0 ret rsz ret) ret
              | SHalt => sexec rest c w ctr1 (after_call ob 0 [] rsz []) []
              end) as [[r2 ctr2] lg2] eqn:Hrest.
    inversion Hs; subst. rewrite clean_app in Hcl. apply andb_prop in Hcl as [Hcl1 Hcl2].
    eapply call_finish_sim; eauto.
    eapply sub_frame_sim; eauto.
    rewrite sub_ctx_depth, depth_eq. exact Hd.
  - rewrite sub_ctx_code, (no_account_no_code _ _ Ha) in Hs. unfold stop_frame in Hs.
    destruct (sexec rest c w1 ctr (after_call ob 1 [] rsz []) []) as [[r2 ctr2] lg2] eqn:Hrest.
    inversion Hs; subst.
    change (LFrame (sub_ctx kd c w to v) :: LEnd (FOk []) :: lg2)
      with ([LFrame (sub_ctx kd c w to v); LEnd (FOk [])] ++ lg2).
    apply Sim_addlog. rewrite after_call_eq, returndata_call. apply Hk.
    + rewrite returndata_call. exact Hrest.
    + exact Hcl.
Qed.

Lemma create_finish_sim : forall c w ctr0 new ob rest cont subs r1 ctr1 lg1 r2 ctr2 lg2,
  cont_hyp rest c cont ->
  Sim subs (r1, ctr1, lg1) ->
  match r1 with
  | SOk ret w2 => sexec rest c (set_code w2 new ret) ctr1 (after_create ob new []) []
  | SRevert ret => sexec rest c w ctr1 (after_create ob 0 ret) ret
  | SHalt => sexec rest c w ctr1 (after_create ob 0 []) []
  end = (r2, ctr2, lg2) ->
  clean lg2 = true ->
  Sim (flat_map
         (fun sub : mres =>
            let '(r, st3, lg) := sub in
            let '(data, has_error) := output_of r in
            let l := Some (true, has_error, data) in
            map (addlog lg)
              (if create_success has_error
               then cont (m_set_code st3 new data) (m_after_create ob new l) l
               else cont (restore_create (mstate_of w ctr0) st3) (m_after_create ob 0 l) l))
         subs) (r2, ctr2, lg1 ++ lg2).
Proof.
  intros c w ctr0 new ob rest cont subs r1 ctr1 lg1 r2 ctr2 lg2 Hk [Hne Hall] Hs Hcl.
  apply Sim_flat_map; [exact Hne|].
  intros [[f st2] lg] Hin. rewrite Forall_forall in Hall. specialize (Hall _ Hin).
  destruct r1 as [ret w2 | ret |].
  - apply R_state in Hall as (-> & -> & ->). cbn [output_of create_success negb].
    apply Sim_addlog. rewrite after_create_eq.
    change (m_set_code (mstate_of w2 ctr1) new ret) with (mstate_of (set_code w2 new ret) ctr1).
    apply Hk; [|exact Hcl]. rewrite returndata_create_ok. exact Hs.
  - destruct Hall as (-> & Hc & ->). cbn [output_of create_success negb].
    rewrite restore_create_eq, Hc. apply Sim_addlog. rewrite after_create_eq. apply Hk; [|exact Hcl].
    rewrite returndata_create_err. exact Hs.
  - destruct Hall as (-> & Hc & ->). cbn [output_of create_success negb].
    rewrite restore_create_eq, Hc. apply Sim_addlog. rewrite after_create_eq. apply Hk; [|exact Hcl].
    rewrite returndata_create_err. exact Hs.
Qed.

Lemma can_pay_new_account : forall w a from v, can_pay (new_account w a) from v = can_pay w from v.
Proof. reflexivity. Qed.

Lemma m_create_sim : forall v initcode c w ctr ob l init rest run cont,
  callee_hyp init run -> cont_hyp rest c cont ->
  forall r ctr' lg,
  sexec (SCreate v initcode init rest) c w ctr ob (returndata l) = (r, ctr', lg) -> clean lg = true ->
  Sim (m_create v initcode c (mstate_of w ctr) ob run cont) (r, ctr', lg).
Proof.
  intros v initcode c w ctr ob l init rest run cont Hc Hk r ctr' lg Hs Hcl.
  cbn [sexec] in Hs.
  unfold m_create. cbv zeta.
  unfold create_static_check, create_backup_before_setup. cbn [andb].
  destruct (c_static c) eqn:Hst.
  { inversion Hs; subst. apply Sim_single. unfold R. auto. }
  change (m_cnt (mstate_of w ctr)) with ctr.
  change (m_set_cnt (mstate_of w ctr) (ctr + 1)) with (mstate_of w (ctr + 1)).
  rewrite new_address_eq.
  set (ctr0 := ctr + 1) in *. set (new := CREATE_BASE + ctr0) in *.
  rewrite balance_of_eq, insufficient_eq, in_code_eq.
  change (m_new_account (mstate_of w ctr0) new) with (mstate_of (new_account w new) ctr0).
  rewrite transfer_value_eq, can_pay_new_account.
  assert (Hfail : forall r0 c0 lg0,
            sexec rest c w ctr0 (after_create ob 0 []) [] = (r0, c0, lg0) -> clean lg0 = true ->
            Sim (cont (mstate_of w ctr0) (m_after_create ob 0 (Some (true, true, []))) (Some (true, true, []))) (r0, c0, lg0)).
  { intros r0 c0 lg0 Hr Hcl0. rewrite after_create_eq, returndata_create_err. apply Hk; auto. }
  destruct (has_account w new) eqn:Ha.
  { rewrite !orb_true_r in Hs.
    destruct (can_pay w (c_this c) v); cbn [negb app].
    - apply Hfail; auto.
    - apply Sim_app; apply Hfail; auto. }
  rewrite orb_false_r in Hs.
  destruct (can_pay w (c_this c) v) eqn:Hcp; cbn [negb app] in *.
  2:{ rewrite orb_true_r in Hs. apply Sim_app_nil_r. apply Hfail; auto. }
  rewrite orb_false_r in Hs.
  set (w1 := xfer (new_account w new) (c_this c) new v) in *.
  set (sc := mkCtx new (c_this c) (c_origin c) v initcode false (c_depth c + 1)) in *.
  destruct (MAX_DEPTH <? c_depth c + 1) eqn:Hd.
  { unfold sub_frame. subst sc. cbn [c_depth]. rewrite depth_eq, Hd.
    cbn [flat_map output_of create_success negb app]. rewrite app_nil_r, restore_create_eq.
    apply Sim_addlog_nil. apply Hfail; auto. }
  destruct (match initcode with
            | [] => stop_frame sc w1 ctr0
            | _ :: _ => let '(r, ctr1, lg1) := sexec init sc w1 ctr0 [] [] in (r, ctr1, LFrame sc :: lg1)
            end) as [[r1 ctr1] lg1] eqn:Hsub.
  destruct (match r1 with
            | SOk ret w2 => sexec rest c (set_code w2 new ret) ctr1 (after_create ob new []) []
            | SRevert ret => sexec rest c w ctr1 (after_create ob 0 ret) ret
            | SHalt => sexec rest c w ctr1 (after_create ob 0 []) []
            end) as [[r2 ctr2] lg2] eqn:Hrest.
  inversion Hs; subst r ctr' lg. rewrite clean_app in Hcl. apply andb_prop in Hcl as [Hcl1 Hcl2].
  eapply create_finish_sim; eauto.
  eapply sub_frame_sim; eauto.
  subst sc. cbn [c_depth]. rewrite depth_eq. exact Hd.
Qed.

(* ------------------------------------------------------------------ the refinement theorem *)
Theorem mexec_refines : forall s c w ctr ob l r ctr' lg,
  sexec s c w ctr ob (returndata l) = (r, ctr', lg) -> clean lg = true ->
  Sim (mexec s c (mstate_of w ctr) ob l) (r, ctr', lg).
Proof.
  induction s; intros c w ctr ob l r ctr' lg Hs Hcl.
  - cbn [sexec mexec] in *. inversion Hs; subst. apply Sim_single.
    destruct e; cbn; rewrite ?world_mstate; auto.
  - cbn [sexec mexec] in *. unfold sstore_static_check. cbn [andb]. destruct (c_static c).
    + inversion Hs; subst. apply Sim_single. cbn. auto.
    + change (m_sstore (mstate_of w ctr) (c_this c) k v) with (mstate_of (set_storage w (c_this c) k v) ctr).
      apply IHs; auto.
  - cbn [sexec mexec] in *. unfold sstore_static_check. cbn [andb]. destruct (c_static c).
    + inversion Hs; subst. apply Sim_single. cbn. auto.
    + change (m_tstore (mstate_of w ctr) (c_this c) k v) with (mstate_of (set_transient w (c_this c) k v) ctr).
      apply IHs; auto.
  - cbn [sexec mexec] in *. unfold log_static_check. cbn [andb]. destruct (c_static c).
    + inversion Hs; subst. apply Sim_single. cbn. auto.
    + destruct (sexec s c w ctr ob (returndata l)) as [[r0 c0] lg0] eqn:Hr. inversion Hs; subst.
      change (LEvent (c_this c) :: lg0) with ([LEvent (c_this c)] ++ lg0).
      apply Sim_addlog. apply IHs; auto.
  - cbn [sexec mexec] in *. rewrite observation_eq. apply IHs; auto.
  - cbn [sexec mexec] in *. unfold retcopy_guard, retcopy_oob.
    destruct (size =? 0) eqn:Hz; cbn [negb].
    + destruct (blen (returndata l) <? off + size).
      * inversion Hs; subst. discriminate Hcl.
      * apply Z.eqb_eq in Hz. subst size. cbn [Z.to_nat firstn] in Hs. rewrite app_nil_r in Hs.
        apply IHs; auto.
    + destruct (off + size >? blen (returndata l)) eqn:Ho;
        destruct (blen (returndata l) <? off + size) eqn:Hb; try lia.
      * inversion Hs; subst. apply Sim_single. cbn. auto.
      * apply IHs; auto.
  - cbn [mexec]. eapply m_call_sim; eauto.
    + intros c' w' ctr1 r1 ctr2 lg1 H1 H2. apply (IHs1 c' w' ctr1 [] None); auto.
    + intros w' ctr1 ob' l' r1 ctr2 lg1 H1 H2. apply IHs2; auto.
  - cbn [mexec]. eapply m_create_sim; eauto.
    + intros c' w' ctr1 r1 ctr2 lg1 H1 H2. apply (IHs1 c' w' ctr1 [] None); auto.
    + intros w' ctr1 ob' l' r1 ctr2 lg1 H1 H2. apply IHs2; auto.
Qed.

(* whole frames *)
Theorem mframe_refines : forall s c w ctr r ctr' lg,
  c_depth c <= MAX_DEPTH ->
  sframe s c w ctr = (r, ctr', lg) -> clean lg = true ->
  Sim (mframe s c (mstate_of w ctr)) (r, ctr', lg).
Proof.
  intros s c w ctr r ctr' lg Hd Hs Hcl.
  unfold mframe. unfold sframe in Hs.
  eapply sub_frame_sim with (callee := s); eauto.
  - intros c' w' ctr1 r1 ctr2 lg1 H1 H2. apply (mexec_refines s c' w' ctr1 [] None); auto.
  - unfold depth_exceeded, MAX_CALL_DEPTH. unfold MAX_DEPTH in Hd. lia.
Qed.
