(* Proofs about Model/SolverLifeModel.v: the life cycle of the branching solver in life_run. *)
From Coq Require Import ZArith List Bool Lia.
From HV Require Import Gen.GenSolverLife Spec.SolverLifeSpec Model.SolverLifeModel.
Import ListNotations.
Open Scope Z_scope.

Section Proofs.
  Variable cond : Type.
  Variable neg : cond -> cond.
  Variable sat : list cond -> bool.

  Notation zsolver := (zsolver cond).
  Notation explore := (explore cond neg sat).
  Notation alone := (alone cond neg sat).
  Notation life_state := (life_state cond neg sat).
  Notation life_states := (life_states cond neg sat).
  Notation life_depths := (life_depths cond neg sat).
  Notation life_run := (life_run cond neg sat).

  (* ------------------------------------------------------------ isolation by construction *)

  (* what a run starts from: nothing that matters, because the solver is created here; or an empty solver *)
  Definition clean (L : life) (s : zsolver) : Prop := l_created L = InState \/ s = zfresh.

  Lemma pos_eqb_eq : forall p q, pos_eqb p q = true <-> p = q.
  Proof. destruct p, q; simpl; split; intro H; try reflexivity; try discriminate. Qed.

  Lemma enter_clean : forall L p s, clean L s -> clean L (enter cond L p s).
  Proof.
    intros L p s H. unfold enter. destruct (pos_eqb (l_created L) p); [right; reflexivity | exact H].
  Qed.

  Lemma leave_clean : forall L p s, clean L s -> clean L (leave cond L p s).
  Proof.
    intros L p s H. unfold leave. destruct (l_reset L) as [q|]; [|exact H].
    destruct (pos_eqb q p); [right; reflexivity | exact H].
  Qed.

  Lemma run_state_isolated :
    forall L, isolating L = true ->
    forall st s, clean L s ->
      fst (life_state L st s) = alone st /\ clean L (snd (life_state L st s)).
  Proof.
    intros L HL st s Hs. unfold life_state, alone.
    assert (H0 : enter cond L InState s = zfresh).
    { unfold enter. destruct (pos_eqb (l_created L) InState) eqn:E; [reflexivity|].
      destruct Hs as [Hc | Hf]; [|exact Hf].
      rewrite Hc in E. discriminate. }
    rewrite H0.
    destruct (explore (f_prog st) (extend cond (f_slice st) zfresh)) as [o s1] eqn:Ex. simpl.
    split; [reflexivity|].
    unfold isolating in HL. apply orb_true_iff in HL. destruct HL as [Hc | Hr].
    - left. apply pos_eqb_eq. exact Hc.
    - unfold leave. destruct (l_reset L) as [q|]; [|discriminate].
      rewrite Hr. right. reflexivity.
  Qed.

  Lemma run_states_isolated :
    forall L, isolating L = true ->
    forall sts s, clean L s ->
      fst (life_states L sts s) = map alone sts /\ clean L (snd (life_states L sts s)).
  Proof.
    intros L HL. induction sts as [|st r IH]; intros s Hs; simpl.
    - split; [reflexivity | exact Hs].
    - destruct (run_state_isolated L HL st s Hs) as [H1 H2].
      destruct (life_state L st s) as [o s1]. simpl in H1, H2.
      destruct (IH s1 H2) as [H3 H4].
      destruct (life_states L r s1) as [os s2]. simpl in *.
      split; [rewrite H1, H3; reflexivity | exact H4].
  Qed.

  Lemma run_depths_isolated :
    forall L, isolating L = true ->
    forall fr s, clean L s ->
      fst (life_depths L fr s) = map (map alone) fr.
  Proof.
    intros L HL. induction fr as [|sts r IH]; intros s Hs; simpl.
    - reflexivity.
    - destruct (run_states_isolated L HL sts (enter cond L InDepth s) (enter_clean L InDepth s Hs)) as [H1 H2].
      destruct (life_states L sts (enter cond L InDepth s)) as [o s1]. simpl in H1, H2.
      specialize (IH (leave cond L InDepth s1) (leave_clean L InDepth s1 H2)).
      destruct (life_depths L r (leave cond L InDepth s1)) as [os s2]. simpl in *.
      rewrite H1, IH. reflexivity.
  Qed.

  (* every life cycle that creates the solver per state, or empties it after every state: the run on
     each state of each depth is the run on that state alone, whatever the states, their number and
     their order *)
  Theorem isolating_run_message :
    forall L, isolating L = true ->
    forall fr, life_run L fr = map (map alone) fr.
  Proof.
    intros L HL fr. unfold life_run. apply run_depths_isolated; [exact HL|].
    apply enter_clean. right. reflexivity.
  Qed.

  (* ------------------------------------------------------------ what explore leaves behind *)

  Lemma pop_to_frame :
    forall (sfx : list (list cond)) X top rest (s1 : zsolver),
      scopes cond s1 = sfx ++ X :: top :: rest ->
      s_pop_to cond (length rest) s1 = (top, rest).
  Proof.
    intros sfx X top rest [t1 r1] H. unfold s_pop_to, num_scopes, scopes in *. simpl in *.
    assert (Hlen : length r1 = (length sfx + 1 + length rest)%nat).
    { apply (f_equal (@length _)) in H. simpl in H. rewrite app_length in H. simpl in H. lia. }
    replace (length r1 - length rest)%nat with (length (sfx ++ [X])) by (rewrite app_length; simpl; lia).
    rewrite H.
    replace (sfx ++ X :: top :: rest) with ((sfx ++ [X]) ++ top :: rest) by (rewrite <- app_assoc; reflexivity).
    rewrite skipn_app, skipn_all, Nat.sub_diag. simpl. reflexivity.
  Qed.

  (* run() only adds to the scope it was started in and leaves deeper scopes on top of it *)
  Lemma explore_frame :
    forall p top rest,
      exists sfx extra, scopes cond (snd (explore p (top, rest))) = sfx ++ (extra ++ top) :: rest.
  Proof.
    induction p as [o | c t IHt f IHf]; intros top rest.
    - exists [], []. reflexivity.
    - simpl.
      destruct (s_check cond sat (top, rest) c) eqn:Pt; destruct (s_check cond sat (top, rest) (neg c)) eqn:Pf; simpl.
      + unfold s_push, s_add, num_scopes. simpl.
        destruct (IHf [neg c] (top :: rest)) as [sfx1 [ex1 H1]].
        destruct (explore f ([neg c], top :: rest)) as [o_f s1] eqn:Ef. simpl in H1.
        rewrite (pop_to_frame sfx1 (ex1 ++ [neg c]) top rest s1 H1). simpl.
        destruct (IHt (c :: top) rest) as [sfx2 [ex2 H2]].
        destruct (explore t (c :: top, rest)) as [o_t s2] eqn:Et. simpl in *.
        exists sfx2, (ex2 ++ [c]). rewrite <- app_assoc. exact H2.
      + unfold s_add. simpl.
        destruct (IHt (c :: top) rest) as [sfx2 [ex2 H2]].
        exists sfx2, (ex2 ++ [c]). rewrite <- app_assoc. exact H2.
      + unfold s_add. simpl.
        destruct (IHf (neg c :: top) rest) as [sfx2 [ex2 H2]].
        exists sfx2, (ex2 ++ [neg c]). rewrite <- app_assoc. exact H2.
      + exists [], []. reflexivity.
  Qed.

  Lemma explore_pop :
    forall f c top rest,
      s_pop_to cond (length rest) (snd (explore f ([neg c], top :: rest))) = (top, rest).
  Proof.
    intros f c top rest. destruct (explore_frame f [neg c] (top :: rest)) as [sfx [ex H]].
    exact (pop_to_frame sfx (ex ++ [neg c]) top rest _ H).
  Qed.

  (* ------------------------------------------------------------ completeness / soundness of one run *)

  Variable env : Type.
  Variable holds : env -> cond -> bool.
  (* the solver is sound and complete on the queries it is asked; neg is negation *)
  Hypothesis sat_spec : forall cs, sat cs = true <-> exists e, satisfies holds e cs.
  Hypothesis neg_spec : forall e c, holds e (neg c) = negb (holds e c).

  Lemma satisfies_cons : forall e c cs, holds e c = true -> satisfies holds e cs -> satisfies holds e (c :: cs).
  Proof. intros e c cs Hc Hcs x [Hx | Hx]; [subst; exact Hc | exact (Hcs x Hx)]. Qed.

  Lemma assertions_add : forall c (s : zsolver), assertions cond (s_add cond c s) = c :: assertions cond s.
  Proof. intros c [top rest]. reflexivity. Qed.

  (* every leaf a valuation of the solver's context reaches is found *)
  Lemma explore_complete :
    forall p (s : zsolver) e,
      satisfies holds e (assertions cond s) -> In (run_env holds e p) (fst (explore p s)).
  Proof.
    induction p as [o | c t IHt f IHf]; intros [top rest] e He.
    - simpl. left. reflexivity.
    - simpl.
      destruct (holds e c) eqn:Hc.
      + assert (Pt : s_check cond sat (top, rest) c = true).
        { unfold s_check. apply sat_spec. exists e. apply satisfies_cons; assumption. }
        rewrite Pt. simpl.
        destruct (s_check cond sat (top, rest) (neg c)) eqn:Pf.
        * unfold num_scopes. simpl.
          pose proof (explore_pop f c top rest) as Hpop. unfold s_push, s_add in *. simpl in *.
          destruct (explore f ([neg c], top :: rest)) as [o_f s1] eqn:Ef. simpl in Hpop. rewrite Hpop. simpl.
          specialize (IHt (c :: top, rest) e).
          destruct (explore t (c :: top, rest)) as [o_t s2] eqn:Et. simpl in *.
          apply in_or_app. right. apply IHt.
          change (satisfies holds e (c :: assertions cond (top, rest))). apply satisfies_cons; assumption.
        * apply IHt. rewrite assertions_add. apply satisfies_cons; assumption.
      + assert (Hn : holds e (neg c) = true) by (rewrite neg_spec, Hc; reflexivity).
        assert (Pf : s_check cond sat (top, rest) (neg c) = true).
        { unfold s_check. apply sat_spec. exists e. apply satisfies_cons; assumption. }
        rewrite Pf.
        destruct (s_check cond sat (top, rest) c) eqn:Pt; simpl.
        * unfold num_scopes, s_push, s_add. simpl.
          specialize (IHf ([neg c], top :: rest) e).
          destruct (explore f ([neg c], top :: rest)) as [o_f s1] eqn:Ef.
          destruct (explore t (c :: fst (s_pop_to cond (length rest) s1), snd (s_pop_to cond (length rest) s1))) as [o_t s2] eqn:Et.
          simpl in *. apply in_or_app. left. apply IHf.
          change (satisfies holds e (neg c :: assertions cond (top, rest))). apply satisfies_cons; assumption.
        * apply IHf. rewrite assertions_add. apply satisfies_cons; assumption.
  Qed.

  (* ... and, from a satisfiable context, nothing else *)
  Lemma explore_sound :
    forall p (s : zsolver) o,
      sat (assertions cond s) = true -> In o (fst (explore p s)) ->
      exists e, satisfies holds e (assertions cond s) /\ run_env holds e p = o.
  Proof.
    induction p as [o' | c t IHt f IHf]; intros [top rest] o Hs Hin.
    - simpl in Hin. destruct Hin as [<- | []]. apply sat_spec in Hs. destruct Hs as [e He].
      exists e. split; [exact He | reflexivity].
    - simpl in Hin.
      assert (Ht : forall s' : zsolver, assertions cond s' = c :: assertions cond (top, rest) ->
                   s_check cond sat (top, rest) c = true -> In o (fst (explore t s')) ->
                   exists e, satisfies holds e (assertions cond (top, rest)) /\ run_env holds e (Br c t f) = o).
      { intros s' Ha Pt Hi. destruct (IHt s' o) as [e [He Hr]]; [rewrite Ha; exact Pt | exact Hi |].
        rewrite Ha in He. exists e. split; [intros x Hx; apply He; right; exact Hx|].
        simpl. rewrite (He c (or_introl eq_refl)). exact Hr. }
      assert (Hf : forall s' : zsolver, assertions cond s' = neg c :: assertions cond (top, rest) ->
                   s_check cond sat (top, rest) (neg c) = true -> In o (fst (explore f s')) ->
                   exists e, satisfies holds e (assertions cond (top, rest)) /\ run_env holds e (Br c t f) = o).
      { intros s' Ha Pf Hi. destruct (IHf s' o) as [e [He Hr]]; [rewrite Ha; exact Pf | exact Hi |].
        rewrite Ha in He. exists e. split; [intros x Hx; apply He; right; exact Hx|].
        simpl. pose proof (He (neg c) (or_introl eq_refl)) as Hn. rewrite neg_spec in Hn.
        destruct (holds e c); [discriminate | exact Hr]. }
      destruct (s_check cond sat (top, rest) c) eqn:Pt; destruct (s_check cond sat (top, rest) (neg c)) eqn:Pf; simpl in Hin.
      + unfold num_scopes in Hin. simpl in Hin.
        pose proof (explore_pop f c top rest) as Hpop. unfold s_push, s_add in *. simpl in *.
        destruct (explore f ([neg c], top :: rest)) as [o_f s1] eqn:Ef. simpl in Hpop. rewrite Hpop in Hin. simpl in Hin.
        destruct (explore t (c :: top, rest)) as [o_t s2] eqn:Et. simpl in Hin.
        apply in_app_or in Hin. destruct Hin as [Hin | Hin].
        * apply (Hf ([neg c], top :: rest)); [reflexivity | reflexivity | rewrite Ef; exact Hin].
        * apply (Ht (c :: top, rest)); [reflexivity | reflexivity | rewrite Et; exact Hin].
      + apply (Ht (s_add cond c (top, rest))); [apply assertions_add | reflexivity | exact Hin].
      + apply (Hf (s_add cond (neg c) (top, rest))); [apply assertions_add | reflexivity | exact Hin].
      + destruct Hin.
  Qed.

  Lemma assertions_extend :
    forall cs (s : zsolver) e,
      satisfies holds e (assertions cond (extend cond cs s)) <-> (satisfies holds e cs /\ satisfies holds e (assertions cond s)).
  Proof.
    induction cs as [|c r IH]; intros s e; simpl.
    - split; [intro H; split; [intros x [] | exact H] | intros [_ H]; exact H].
    - rewrite IH, assertions_add. split.
      + intros [Hr Hs]. split.
        * intros x [<- | Hx]; [apply Hs; left; reflexivity | apply Hr; exact Hx].
        * intros x Hx. apply Hs. right. exact Hx.
      + intros [Hcr Hs]. split.
        * intros x Hx. apply Hcr. right. exact Hx.
        * intros x [<- | Hx]; [apply Hcr; left; reflexivity | apply Hs; exact Hx].
  Qed.

  (* the run of a test on a state alone finds every outcome the test has on the state ... *)
  Theorem alone_complete :
    forall st o, outcome_of holds st o -> In o (alone st).
  Proof.
    intros st o [e [He <-]]. unfold alone. apply explore_complete.
    apply assertions_extend. split; [exact He | intros x []].
  Qed.

  (* ... and, when the state's own constraints are satisfiable, only those *)
  Theorem alone_sound :
    forall st o, (exists e, satisfies holds e (f_slice st)) -> In o (alone st) -> outcome_of holds st o.
  Proof.
    intros st o [e0 He0] Hin. unfold alone in Hin.
    destruct (explore_sound (f_prog st) (extend cond (f_slice st) zfresh) o) as [e [He Hr]].
    - apply sat_spec. exists e0. apply assertions_extend. split; [exact He0 | intros x []].
    - exact Hin.
    - exists e. split; [|exact Hr]. apply assertions_extend in He. exact (proj1 He).
  Qed.

End Proofs.

(* ------------------------------------------------------------ the regenerated life cycle *)

(* an obligation about the source text: halmos creates the solver per state or empties it per state *)
Lemma gen_life_isolating_of :
  isolating gen_life = true ->
  forall (cond : Type) (neg : cond -> cond) (sat : list cond -> bool) (fr : list (list (fstate cond))),
    life_run cond neg sat gen_life fr = map (map (alone cond neg sat)) fr.
Proof. intros H cond neg sat fr. apply isolating_run_message. exact H. Qed.

Lemma at_pos_map : forall (A B : Type) (g : A -> B) x d i, at_pos (map (map g) x) d i = option_map g (at_pos x d i).
Proof.
  intros A B g x d i. unfold at_pos. rewrite nth_error_map.
  destruct (nth_error x d) as [l|]; simpl; [apply nth_error_map | reflexivity].
Qed.

(* coverage of every state: with the regenerated life cycle isolating, for every frontier list,
   every state in it and every concrete state it stands for, the outcome of the test is among the
   outcomes life_run reports for that state *)
Lemma gen_life_covers_of :
  isolating gen_life = true ->
  forall (cond env : Type) (neg : cond -> cond) (sat : list cond -> bool) (holds : env -> cond -> bool),
    (forall cs, sat cs = true <-> exists e, satisfies holds e cs) ->
    (forall e c, holds e (neg c) = negb (holds e c)) ->
    forall fr d i st e,
      at_pos fr d i = Some st -> satisfies holds e (f_slice st) ->
      exists outs, at_pos (life_run cond neg sat gen_life fr) d i = Some outs /\
                   In (run_env holds e (f_prog st)) outs.
Proof.
  intros H cond env neg sat holds Hsat Hneg fr d i st e Hat He.
  rewrite (gen_life_isolating_of H), at_pos_map, Hat. simpl.
  eexists. split; [reflexivity|].
  apply (alone_complete cond neg sat env holds Hsat Hneg). exists e. split; [exact He | reflexivity].
Qed.

(* ------------------------------------------------------------ refutation for a shared solver *)

(* one solver for all the states of a test (created before the loops, emptied after them): the second
   of two identical states loses an outcome *)
Lemma shared_solver_values :
  l_life_run (mkLife InTest (Some InTest)) [[wit_state]; [wit_state]] = [[[0; 1]]; [[1]]]
  /\ map (map l_alone) [[wit_state]; [wit_state]] = [[[0; 1]]; [[0; 1]]].
Proof. split; vm_compute; reflexivity. Qed.

Lemma shared_solver_refuted :
  exists (L : life) (fr : list (list (fstate eqlit))),
    l_created L = InTest /\ l_reset L = Some InTest /\
    l_life_run L fr <> map (map l_alone) fr.
Proof.
  exists (mkLife InTest (Some InTest)), [[wit_state]; [wit_state]].
  split; [reflexivity|]. split; [reflexivity|].
  destruct shared_solver_values as [H1 H2]. rewrite H1, H2. discriminate.
Qed.

(* ... also when it is created / emptied once per depth: two states of one depth *)
Lemma per_depth_solver_refuted :
  exists (fr : list (list (fstate eqlit))),
    l_life_run (mkLife InDepth (Some InDepth)) fr <> map (map l_alone) fr
    /\ l_life_run (mkLife InDepth None) fr <> map (map l_alone) fr.
Proof. exists [[wit_state; wit_state]]. split; vm_compute; discriminate. Qed.

(* the state's own constraints contradict what the last path of the previous state left behind:
   the state is not explored at all (x > 9 / x <= 9 rendered as x == 12 / x != 12) and its violation
   (outcome 1) is lost *)
Lemma shared_solver_state_lost :
  exists (fr : list (list (fstate eqlit))) (d i : nat) (st : fstate eqlit),
    at_pos fr d i = Some st /\ In 1 (l_alone st) /\
    at_pos (l_life_run (mkLife InTest (Some InTest)) fr) d i = Some [].
Proof.
  exists [[hi_state; lo_state]], O, 1%nat, lo_state.
  split; [reflexivity|]. split; [vm_compute; auto | vm_compute; reflexivity].
Qed.

Lemma alone_exact :
  forall (cond env : Type) (neg : cond -> cond) (sat : list cond -> bool) (holds : env -> cond -> bool),
    (forall cs, sat cs = true <-> exists e, satisfies holds e cs) ->
    (forall e c, holds e (neg c) = negb (holds e c)) ->
    forall (st : fstate cond) (o : Z),
      (exists e, satisfies holds e (f_slice st)) ->
      (In o (alone cond neg sat st) <-> outcome_of holds st o).
Proof.
  intros cond env neg sat holds Hs Hn st o He. split.
  - exact (alone_sound cond neg sat env holds Hs Hn st o He).
  - exact (alone_complete cond neg sat env holds Hs Hn st o).
Qed.

(* the life cycles that create the solver per state, or empty it per state, are fine on the witness *)
Lemma isolating_nonvacuous :
  isolating (mkLife InState (Some InState)) = true /\ isolating (mkLife InState None) = true
  /\ isolating (mkLife InTest (Some InState)) = true /\ isolating (mkLife InTest (Some InTest)) = false
  /\ l_life_run (mkLife InTest (Some InState)) [[wit_state]; [wit_state]] = [[[0; 1]]; [[0; 1]]].
Proof. repeat split; vm_compute; reflexivity. Qed.
