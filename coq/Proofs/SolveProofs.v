(* Proofs for C04: the value parser inverts the three solver value syntaxes for every
   value; a solver output that mentions an abstraction is never classified valid. *)
From Coq Require Import ZArith List String Ascii Bool Lia.
From HV Require Import Model.SexpDefs Gen.GenRefine Spec.SmtQuerySpec Model.SmtTextModel
  Model.SolveModel Proofs.SmtTextProofs.
Import ListNotations.
Open Scope Z_scope.

(* ------------------------------------------------------------------ digits *)
Lemma digit_val_char : forall d, 0 <= d < 16 ->
  digit_val (digit_char d) = Some d /\ digit_val (digit_char_upper d) = Some d.
Proof.
  intros d Hd.
  assert (H : In d [0;1;2;3;4;5;6;7;8;9;10;11;12;13;14;15]) by (simpl; lia).
  simpl in H.
  repeat (destruct H as [<-|H]; [vm_compute; split; reflexivity|]). contradiction.
Qed.

Lemma digit_char_not_ws : forall d, 0 <= d < 10 -> is_ws (digit_char d) = false.
Proof.
  intros d Hd.
  assert (H : In d [0;1;2;3;4;5;6;7;8;9]) by (simpl; lia).
  simpl in H.
  repeat (destruct H as [<-|H]; [vm_compute; reflexivity|]). contradiction.
Qed.

Lemma parse_radix_app : forall r s1 s2 acc,
  parse_radix r (s1 ++ s2) acc =
  match parse_radix r s1 acc with Some a => parse_radix r s2 a | None => None end.
Proof.
  induction s1 as [|c s1 IH]; intros s2 acc; simpl; [reflexivity|].
  destruct (digit_val c) as [d|]; [|reflexivity].
  destruct (d <? r); [apply IH | reflexivity].
Qed.

Lemma parse_fixed : forall up r, 2 <= r <= 16 -> forall k n acc,
  0 <= n < r ^ Z.of_nat k ->
  parse_radix r (print_fixed up r k n) acc = Some (acc * r ^ Z.of_nat k + n).
Proof.
  intros up r Hr. induction k as [|k IH]; intros n acc Hn.
  - simpl in *. f_equal. lia.
  - cbn [print_fixed]. rewrite parse_radix_app.
    rewrite Nat2Z.inj_succ, Z.pow_succ_r in Hn by lia.
    assert (Hq : 0 <= n / r < r ^ Z.of_nat k).
    { split; [apply Z.div_pos; lia | apply Z.div_lt_upper_bound; lia]. }
    rewrite (IH (n / r) acc Hq).
    assert (Hm : 0 <= n mod r < r) by (apply Z.mod_pos_bound; lia).
    assert (Hm16 : 0 <= n mod r < 16) by lia.
    destruct (digit_val_char (n mod r) Hm16) as [Hl Hu].
    cbn [parse_radix].
    assert (Hd : digit_val ((if up then digit_char_upper else digit_char) (n mod r)) = Some (n mod r))
      by (destruct up; assumption).
    rewrite Hd.
    destruct (n mod r <? r) eqn:E; [|apply Z.ltb_ge in E; lia].
    f_equal. rewrite Nat2Z.inj_succ, Z.pow_succ_r by lia.
    pose proof (Z.div_mod n r). nia.
Qed.

Lemma py_int_snoc : forall r s c, py_int r (s ++ String c EmptyString) = parse_radix r (s ++ String c EmptyString) 0.
Proof. intros r [|a s] c; reflexivity. Qed.

(* ------------------------------------------------------------------ #b / #x *)
Lemma parse_b : forall w n, 0 <= n < 2 ^ Z.of_nat (S w) ->
  parse_const_value (print_b (S w) n) = Some n.
Proof.
  intros w n Hn. unfold parse_const_value, print_b. cbn [print_fixed].
  cbn -[Z.div Z.modulo print_fixed parse_radix Z.pow].
  rewrite py_int_snoc.
  change (print_fixed false 2 w (n / 2) ++ String (digit_char (n mod 2)) "")%string
    with (print_fixed false 2 (S w) n).
  rewrite (parse_fixed false 2) by lia. f_equal.
Qed.

Lemma parse_x : forall up w n, 0 <= n < 16 ^ Z.of_nat (S w) ->
  parse_const_value (print_x up (S w) n) = Some n.
Proof.
  intros up w n Hn. unfold parse_const_value, print_x. cbn [print_fixed].
  cbn -[Z.div Z.modulo print_fixed parse_radix Z.pow digit_char digit_char_upper].
  rewrite py_int_snoc.
  change (print_fixed up 16 w (n / 16) ++
          String ((if up then digit_char_upper else digit_char) (n mod 16)) "")%string
    with (print_fixed up 16 (S w) n).
  rewrite (parse_fixed up 16) by lia. f_equal.
Qed.

(* ------------------------------------------------------------------ decimal *)
Lemma parse_dec_go : forall f n, 0 <= n < 10 ^ Z.of_nat f ->
  parse_radix 10 (print_dec_go f n) 0 = Some n.
Proof.
  induction f as [|f IH]; intros n Hn.
  - simpl in *. f_equal. lia.
  - cbn [print_dec_go]. destruct (n =? 0) eqn:E.
    + apply Z.eqb_eq in E. subst. reflexivity.
    + rewrite parse_radix_app.
      rewrite Nat2Z.inj_succ, Z.pow_succ_r in Hn by lia.
      assert (Hq : 0 <= n / 10 < 10 ^ Z.of_nat f).
      { split; [apply Z.div_pos; lia | apply Z.div_lt_upper_bound; lia]. }
      rewrite (IH _ Hq).
      assert (Hm : 0 <= n mod 10 < 10) by (apply Z.mod_pos_bound; lia).
      assert (Hm16 : 0 <= n mod 10 < 16) by lia.
      destruct (digit_val_char (n mod 10) Hm16) as [Hl _].
      cbn [parse_radix]. rewrite Hl.
      destruct (n mod 10 <? 10) eqn:E2; [|apply Z.ltb_ge in E2; lia].
      f_equal. pose proof (Z.div_mod n 10). lia.
Qed.

Lemma fuel_enough : forall n, 0 < n -> n < 10 ^ Z.of_nat (S (Z.to_nat (Z.log2 n))).
Proof.
  intros n Hn. rewrite Nat2Z.inj_succ, Z2Nat.id by apply Z.log2_nonneg.
  destruct (Z.log2_spec n Hn) as [_ Hu].
  eapply Z.lt_le_trans; [exact Hu|].
  apply Z.pow_le_mono_l. lia.
Qed.

Lemma print_dec_go_nonempty : forall f n, 0 < n -> print_dec_go (S f) n <> EmptyString.
Proof.
  intros f n Hn. cbn [print_dec_go]. destruct (n =? 0) eqn:E; [apply Z.eqb_eq in E; lia|].
  destruct (print_dec_go f (n / 10)); discriminate.
Qed.

Lemma py_int_print_dec : forall n, 0 <= n -> py_int 10 (print_dec n) = Some n.
Proof.
  intros n Hn. unfold print_dec. destruct (n =? 0) eqn:E.
  - apply Z.eqb_eq in E. subst. reflexivity.
  - apply Z.eqb_neq in E. assert (Hp : 0 < n) by lia.
    pose proof (print_dec_go_nonempty (Z.to_nat (Z.log2 n)) n Hp) as Hne.
    unfold py_int. destruct (print_dec_go (S (Z.to_nat (Z.log2 n))) n) eqn:Es; [contradiction|].
    rewrite <- Es. apply parse_dec_go. split; [lia | apply fuel_enough; exact Hp].
Qed.

Definition not_ws (c : ascii) : bool := negb (is_ws c).

Lemma all_chars_app : forall f a b, all_chars f (a ++ b) = all_chars f a && all_chars f b.
Proof. induction a as [|c a IH]; intros; simpl; [reflexivity | rewrite IH, andb_assoc; reflexivity]. Qed.

Lemma print_dec_go_no_ws : forall f n, 0 <= n -> all_chars not_ws (print_dec_go f n) = true.
Proof.
  induction f as [|f IH]; intros n Hn; [reflexivity|].
  cbn [print_dec_go]. destruct (n =? 0); [reflexivity|].
  rewrite all_chars_app. rewrite IH by (apply Z.div_pos; lia). simpl.
  unfold not_ws. rewrite digit_char_not_ws by (apply Z.mod_pos_bound; lia). reflexivity.
Qed.

Lemma print_dec_no_ws : forall n, 0 <= n -> all_chars not_ws (print_dec n) = true.
Proof.
  intros n Hn. unfold print_dec. destruct (n =? 0); [reflexivity | apply print_dec_go_no_ws; exact Hn].
Qed.

(* pushing the characters of t onto the reversed current token *)
Fixpoint rev_app (t cur : string) : string :=
  match t with EmptyString => cur | String c r => rev_app r (String c cur) end.
Fixpoint rgo (s acc : string) : string :=
  match s with EmptyString => acc | String c r => rgo r (String c acc) end.

Lemma rev_string_rgo : forall s, rev_string s = rgo s EmptyString.
Proof. reflexivity. Qed.

Lemma rgo_rev_app : forall t cur acc, rgo (rev_app t cur) acc = rgo cur (t ++ acc).
Proof. induction t as [|c t IH]; intros; simpl; [reflexivity | rewrite IH; reflexivity]. Qed.

Lemma rev_app_nonempty : forall t c cur, exists a r, rev_app t (String c cur) = String a r.
Proof. induction t as [|x t IH]; intros c cur; simpl; [eauto | apply IH]. Qed.

Lemma split_ws_token : forall t rest cur,
  all_chars not_ws t = true -> split_ws (t ++ rest) cur = split_ws rest (rev_app t cur).
Proof.
  induction t as [|c t IH]; intros rest cur H; simpl in *; [reflexivity|].
  apply andb_true_iff in H. destruct H as [Hc Ht]. unfold not_ws in Hc.
  apply negb_true_iff in Hc. rewrite Hc. apply IH. exact Ht.
Qed.

Lemma parse_d : forall n w, 0 <= n -> 0 <= w -> parse_const_value (print_d n w) = Some n.
Proof.
  intros n w Hn Hw. unfold parse_const_value, print_d.
  assert (Ht2 : take2 ("(_ bv" ++ print_dec n ++ " " ++ print_dec w ++ ")") = "(_"%string) by reflexivity.
  rewrite Ht2.
  assert (Hf : find (fun a : string * Z => String.eqb (fst a) "(_") const_arms = None) by reflexivity.
  rewrite Hf.
  assert (Hs : exists tl,
    split_ws ("(_ bv" ++ print_dec n ++ " " ++ print_dec w ++ ")") EmptyString
    = "(_"%string :: ("bv" ++ print_dec n)%string :: tl).
  { cbn -[print_dec].
    rewrite (split_ws_token (print_dec n)) by (apply print_dec_no_ws; exact Hn).
    cbn -[print_dec rev_app].
    destruct (rev_app_nonempty (print_dec n) "v"%char "b") as (a & r & Hr).
    rewrite Hr. rewrite <- Hr.
    rewrite rev_string_rgo, rgo_rev_app. cbn -[print_dec]. rewrite append_empty_r.
    eexists. reflexivity. }
  destruct Hs as (tl & ->).
  cbn -[print_dec py_int]. apply py_int_print_dec. exact Hn.
Qed.

(* ------------------------------------------------------------------ the pattern accepts the printed forms *)
Lemma parse_model_var_value : forall name width value W n,
  parse_model_var name width value = Some (W, n) ->
  parse_const_value value = Some n /\ var_name_ok name = true.
Proof.
  intros name width value W n H. unfold parse_model_var in H.
  destruct (var_name_ok name && is_digits width) eqn:E; [|discriminate].
  apply andb_true_iff in E. destruct E as [E1 _].
  destruct (value_form_of value); [|discriminate].
  destruct (existsb _ value_forms); [|discriminate].
  destruct (parse_const_value value) eqn:Ev; [|discriminate].
  inversion H; subst. auto.
Qed.

(* ------------------------------------------------------------------ validity *)
Lemma from_result_valid : forall out s, from_result out = OSat true s ->
  s = out /\ contains invalid_marker out = false.
Proof.
  intros out s H. unfold from_result in H.
  destruct (String.eqb (first_line out) "unsat"); [discriminate|].
  destruct (String.eqb (first_line out) "sat").
  - inversion H as [[Hv Hs]].
    unfold is_model_valid in Hv. apply negb_true_iff in Hv. split; congruence.
  - destruct (String.eqb (first_line out) "unknown"); discriminate.
Qed.

Lemma solve_e2e_valid : forall core_hit is_refined out1 changes out2 s k,
  solve_e2e core_hit is_refined out1 changes out2 = (OSat true s, k) ->
  contains invalid_marker s = false /\
  ((s = out1 /\ k = 1) \/ (s = out2 /\ k = 2 /\ is_refined = false /\ changes = true /\
                           contains invalid_marker out1 = true)).
Proof.
  intros core_hit is_refined out1 changes out2 s k H. unfold solve_e2e in H.
  destruct core_hit; [discriminate|].
  destruct (from_result out1) as [|v s1| |] eqn:E1; try discriminate.
  destruct v.
  - inversion H; subst. apply from_result_valid in E1. destruct E1 as [-> Hc]. auto.
  - destruct is_refined; simpl in H; [discriminate|].
    destruct changes; [|discriminate].
    inversion H as [[H2 Hk]]. apply from_result_valid in H2. destruct H2 as [-> Hc].
    split; [exact Hc|]. right. repeat split; try reflexivity.
    unfold from_result in E1.
    destruct (String.eqb (first_line out1) "unsat"); [discriminate|].
    destruct (String.eqb (first_line out1) "sat").
    + inversion E1 as [[Hv Hs]]. unfold is_model_valid in Hv. apply negb_false_iff in Hv. congruence.
    + destruct (String.eqb (first_line out1) "unknown"); discriminate.
Qed.

Lemma solve_e2e_never_valid : forall core_hit is_refined out1 changes out2,
  contains invalid_marker out1 = true -> contains invalid_marker out2 = true ->
  classify (fst (solve_e2e core_hit is_refined out1 changes out2)) <> ValidCex.
Proof.
  intros core_hit is_refined out1 changes out2 H1 H2 Hc.
  destruct (solve_e2e core_hit is_refined out1 changes out2) as [o k] eqn:E. simpl in Hc.
  destruct o as [|v s| |]; try discriminate. destruct v; [|discriminate].
  apply solve_e2e_valid in E. destruct E as [Hs [[-> _]|[-> _]]]; congruence.
Qed.

Lemma solve_e2e_invocations : forall core_hit is_refined out1 changes out2,
  let k := snd (solve_e2e core_hit is_refined out1 changes out2) in
  0 <= k <= 2 /\ (k = 0 <-> core_hit = true) /\
  (k = 2 -> is_refined = false /\ changes = true /\ exists s, from_result out1 = OSat false s).
Proof.
  intros core_hit is_refined out1 changes out2. unfold solve_e2e.
  destruct core_hit; simpl.
  - repeat split; intros; try lia; try reflexivity; discriminate.
  - destruct (from_result out1) as [|v s| |]; simpl;
      try (repeat split; intros; try lia; discriminate).
    destruct v; simpl; [repeat split; intros; try lia; discriminate|].
    destruct is_refined; simpl; [repeat split; intros; try lia; discriminate|].
    destruct changes; simpl.
    + repeat split; intros; try lia; try discriminate. exists s. reflexivity.
    + repeat split; intros; try lia; discriminate.
Qed.
