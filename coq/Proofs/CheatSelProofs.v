(* Finite theorems over the selector tables regenerated from cheatcodes.py:
   every selector is the first four bytes of Keccak-256 of its signature; no duplicates. *)
From Coq Require Import ZArith NArith List Bool String.
From HV Require Import Base.Keccak Gen.GenCheatSelectors.
Import ListNotations.

Fixpoint nodupb (l : list N) : bool :=
  match l with [] => true | x :: r => negb (existsb (N.eqb x) r) && nodupb r end.

Lemma nodupb_NoDup : forall l, nodupb l = true -> NoDup l.
Proof.
  induction l as [|x r IH]; intros H; [constructor|].
  cbn in H. apply andb_true_iff in H. destruct H as [H1 H2]. constructor; [|auto].
  intros Hin. apply negb_true_iff in H1.
  assert (existsb (N.eqb x) r = true) as E.
  { apply existsb_exists. exists x. split; [exact Hin | apply N.eqb_refl]. }
  congruence.
Qed.

Lemma forallb_In : forall (A : Type) (f : A -> bool) (l : list A) (x : A),
  forallb f l = true -> In x l -> f x = true.
Proof. intros A f l x H Hin. rewrite forallb_forall in H. auto. Qed.

(* the hash is computed by vm_compute only; everywhere else it stays folded *)
Definition sel_ok (p : N * string) : bool := N.eqb (selector_of_sig (snd p)) (fst p).
Definition svm_ok (p : N * string * string) : bool := N.eqb (selector_of_sig (snd (fst p))) (fst (fst p)).

Lemma hevm_selectors_check : forallb sel_ok hevm_selectors = true.
Proof. vm_compute. reflexivity. Qed.

Lemma svm_handlers_check : forallb svm_ok svm_handlers = true.
Proof. vm_compute. reflexivity. Qed.

Lemma hevm_selectors_nodup : NoDup (map fst hevm_selectors).
Proof. apply nodupb_NoDup. vm_compute. reflexivity. Qed.

Lemma svm_handlers_nodup : NoDup (map (fun p => fst (fst p)) svm_handlers).
Proof. apply nodupb_NoDup. vm_compute. reflexivity. Qed.

(* every hevm selector constant is dispatched by hevm_cheat_code.handle *)
Lemma hevm_all_dispatched : forallb (fun p => existsb (N.eqb (fst p)) hevm_dispatched) hevm_selectors = true.
Proof. vm_compute. reflexivity. Qed.

Global Opaque selector_of_sig.

Lemma sel_ok_eq : forall sel sig, sel_ok (sel, sig) = true -> selector_of_sig sig = sel.
Proof. intros sel sig H. unfold sel_ok in H. apply N.eqb_eq. exact H. Qed.

Lemma hevm_selectors_keccak : forall sel sig, In (sel, sig) hevm_selectors -> selector_of_sig sig = sel.
Proof.
  intros sel sig Hin. apply sel_ok_eq.
  exact (forallb_In _ sel_ok hevm_selectors (sel, sig) hevm_selectors_check Hin).
Qed.

Lemma svm_ok_eq : forall sel sig f, svm_ok (sel, sig, f) = true -> selector_of_sig sig = sel.
Proof. intros sel sig f H. unfold svm_ok in H. apply N.eqb_eq. exact H. Qed.

Lemma svm_handlers_keccak : forall sel sig f, In (sel, sig, f) svm_handlers -> selector_of_sig sig = sel.
Proof.
  intros sel sig f Hin. apply (svm_ok_eq sel sig f).
  exact (forallb_In _ svm_ok svm_handlers (sel, sig, f) svm_handlers_check Hin).
Qed.
