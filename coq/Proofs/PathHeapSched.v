(* C11 proofs, object level (5): under the exploration discipline, the solver object of the
   running Path holds the pure model's solver view of that Path. *)
From Coq Require Import ZArith List Bool Lia Arith.
From HV Require Import Spec.SmtQuerySpec Model.PathCopyDefs Model.SmtTextModel Model.PathHeapModel
  Proofs.SmtTextProofs Proofs.PathHeapProofs Proofs.PathHeapSim Proofs.PathHeapSolver.
Import ListNotations.
Open Scope nat_scope.

Section SolverDiscipline.
  Variable cond : Type.
  Variable cond_eqb : cond -> cond -> bool.
  Variable simp : cond -> cond.
  Variable is_true : cond -> bool.
  Variable vars : cond -> list Z.
  Variable md : modes.
  Hypothesis Hsep : separate md = true.

  Notation heap := (heap cond).
  Notation hpath := (hpath cond).
  Notation path := (path cond).
  Notation append := (append cond cond_eqb simp is_true vars).
  Notation extend := (extend cond cond_eqb simp is_true vars).
  Notation activate := (activate cond cond_eqb simp is_true vars).
  Notation h_append := (h_append cond cond_eqb simp is_true vars).
  Notation h_extend := (h_extend cond cond_eqb simp is_true vars).
  Notation h_activate := (h_activate cond cond_eqb simp is_true vars).
  Notation h_step := (h_step cond cond_eqb simp is_true vars md).
  Notation h_run := (h_run cond cond_eqb simp is_true vars md).
  Notation v_step := (v_step cond cond_eqb simp is_true vars).
  Notation v_run := (v_run cond cond_eqb simp is_true vars).
  Notation inv := (inv cond).
  Notation sim := (sim cond).
  Notation sched_step := (sched_step cond).
  Notation sched_run := (sched_run cond).

  Definition psolver (ps : list path) (j : nat) : list cond :=
    match nth_error ps j with Some p => solver p | None => [] end.

  Definition SIh (h : heap) (ps : list path) (sc : sched) : Prop :=
    SI cond (o_paths h) (o_solvers h) (psolver ps) sc.

  Lemma psolver_upd_same : forall ps i x, i < List.length ps -> psolver (upd ps i x) i = solver x.
  Proof. intros. unfold psolver. rewrite nth_error_upd_same by assumption. reflexivity. Qed.

  Lemma psolver_upd_other : forall ps i j x, j <> i -> psolver (upd ps i x) j = psolver ps j.
  Proof. intros. unfold psolver. rewrite nth_error_upd_other by congruence. reflexivity. Qed.

  Lemma psolver_upd_eq : forall ps i p x j, nth_error ps i = Some p -> solver x = solver p ->
    psolver (upd ps i x) j = psolver ps j.
  Proof.
    intros ps i p x j Hp Hs. destruct (Nat.eq_dec j i) as [->|Hne].
    - rewrite psolver_upd_same by (apply (nth_error_lt _ _ _ Hp)). unfold psolver. rewrite Hp. exact Hs.
    - apply psolver_upd_other. exact Hne.
  Qed.

  Lemma is_current_spec : forall sc i, is_current sc i = true ->
    i < List.length (sc_solver_of sc) /\ nth (nth i (sc_solver_of sc) 0) (sc_current sc) 0 = i.
  Proof.
    intros sc i H. unfold is_current in H. apply andb_true_iff in H. destruct H as [H1 H2].
    apply Nat.ltb_lt in H1. split; [exact H1|].
    destruct (nth_error (sc_current sc) (nth i (sc_solver_of sc) 0)) as [j|] eqn:E; [|discriminate].
    apply Nat.eqb_eq in H2. subst j. apply (nth_error_nth _ _ 0 E).
  Qed.

  (* what Path.append does to the solver object, next to the pure model *)
  Lemma h_append_solver : forall h ps i c b h' p hp,
    inv h -> sim h ps -> nth_error ps i = Some p -> nth_error (o_paths h) i = Some hp ->
    h_append h i c b = Some h' ->
    (o_solvers h' = o_solvers h /\ solver (append p c b) = solver p) \/
    (o_solvers h' = upd (o_solvers h) (hp_solver hp)
                        (s_add cond (nth (hp_solver hp) (o_solvers h) []) (simp c)) /\
     solver (append p c b) = (solver p ++ [simp c])%list).
  Proof.
    intros h ps i c b h' p hp Hinv [_ Hsim] Hp Hhp H.
    unfold PathHeapModel.h_append in H. rewrite Hhp in H.
    destruct Hinv as (_ & _ & _ & Hrefs & _). destruct (Hrefs i hp Hhp) as (Rc & _ & _).
    destruct (Hsim i hp p Hhp Hp) as (Sc & _). rewrite Rc, Sc in H.
    unfold SmtTextModel.append.
    destruct (is_true (simp c)); [inversion H; subst; left; auto|].
    destruct (has_cond cond cond_eqb (simp c) (conditions p)); [inversion H; subst; left; auto|].
    destruct (d_collect _ _ _ _) as [[cs d1] S1].
    destruct (d_add_all _ _ _ _) as [d2 S2]. inversion H; subst h'; clear H.
    destruct (get_related cond p (vars (simp c))) as [rel m1]. right. simpl. auto.
  Qed.

  Lemma SIh_append : forall h ps sc i c b h' p,
    inv h -> sim h ps -> SIh h ps sc -> nth_error ps i = Some p -> is_current sc i = true ->
    h_append h i c b = Some h' -> SIh h' (upd ps i (append p c b)) sc.
  Proof.
    intros h ps sc i c b h' p Hinv Hsim HSI Hp Hcur H.
    destruct (h_append_sim cond cond_eqb simp is_true vars _ _ _ _ _ _ _ Hinv Hsim Hp H) as (_ & _ & Hpaths).
    destruct (is_current_spec _ _ Hcur) as [Hi Hc].
    assert (Hlen : List.length ps = List.length (o_paths h)) by apply Hsim.
    assert (HiP : i < List.length (o_paths h)) by (rewrite <- Hlen; apply (nth_error_lt _ _ _ Hp)).
    destruct (nth_error (o_paths h) i) as [hp|] eqn:Hhp; [|apply nth_error_None in Hhp; lia].
    unfold SIh. rewrite Hpaths.
    destruct (h_append_solver _ _ _ _ _ _ _ _ Hinv Hsim Hp Hhp H) as [[Es Ep]|[Es Ep]]; rewrite Es.
    - apply (SI_ext cond (o_paths h) (o_paths h) _ (psolver ps)); [exact HSI | reflexivity | |].
      + intros j hp' E. exists hp'. auto.
      + intros j _. apply (psolver_upd_eq _ _ p); assumption.
    - pose proof HSI as (_ & H2 & _). destruct (H2 i hp Hhp) as [E1 _]. rewrite <- E1.
      apply (SI_add cond (o_paths h) (o_solvers h) (psolver ps)); [exact HSI | exact HiP | exact Hc | |].
      + rewrite psolver_upd_same by (apply (nth_error_lt _ _ _ Hp)). unfold psolver. rewrite Hp. exact Ep.
      + intros j Hne. apply psolver_upd_other. exact Hne.
  Qed.

  Lemma SIh_extend : forall cs h ps sc i b h' p,
    inv h -> sim h ps -> SIh h ps sc -> nth_error ps i = Some p -> is_current sc i = true ->
    h_extend h i cs b = Some h' -> SIh h' (upd ps i (extend p cs b)) sc.
  Proof.
    induction cs as [|c cs IH]; intros h ps sc i b h' p Hinv Hsim HSI Hp Hcur H; simpl in H.
    - inversion H; subst h'. unfold SmtTextModel.extend. simpl. rewrite (upd_same _ _ _ Hp). exact HSI.
    - destruct (h_append h i c b) as [h1|] eqn:Ha; [|discriminate].
      destruct (h_append_sim cond cond_eqb simp is_true vars _ _ _ _ _ _ _ Hinv Hsim Hp Ha) as (Hinv1 & Hsim1 & _).
      pose proof (SIh_append _ _ _ _ _ _ _ _ Hinv Hsim HSI Hp Hcur Ha) as HSI1.
      assert (Hp' : nth_error (upd ps i (append p c b)) i = Some (append p c b)).
      { apply nth_error_upd_same. apply (nth_error_lt _ _ _ Hp). }
      pose proof (IH _ _ _ _ _ _ _ Hinv1 Hsim1 HSI1 Hp' Hcur H) as HSI2.
      rewrite upd_upd in HSI2. exact HSI2.
  Qed.

  Lemma h_branch_shape : forall h i c h' hp,
    nth_error (o_paths h) i = Some hp -> h_branch cond md h i c = Some h' ->
    exists hpn, o_paths h' = (o_paths h ++ [hpn])%list /\ hp_solver hpn = hp_solver hp /\
      hp_scopes hpn = pred (List.length (nth (hp_solver hp) (o_solvers h) [])) /\
      o_solvers h' = upd (o_solvers h) (hp_solver hp) ([] :: nth (hp_solver hp) (o_solvers h) []).
  Proof.
    intros h i c h' hp Hhp H. unfold h_branch in H. rewrite Hhp in H.
    destruct (hp_pending hp); [|discriminate].
    destruct (assign_flat (br_conditions md) _ _ _) as [oc rc].
    destruct (assign_flat (br_related md) _ _ _) as [orl rr].
    destruct (assign_v2c _ _ _ _ _) as [[ov S'] rv].
    inversion H; subst h'; clear H. simpl. eexists. repeat split.
  Qed.

  Lemma h_extend_path_shape : forall h i s0 h' hp,
    nth_error (o_paths h) i = Some hp -> h_extend_path cond md h i s0 = Some h' ->
    exists hpn, o_paths h' = (o_paths h ++ [hpn])%list /\ hp_solver hpn = List.length (o_solvers h) /\
      hp_scopes hpn = 0 /\
      o_solvers h' = (o_solvers h ++ [[(s0 ++ solver_additions cond (nth (hp_conds hpn) (o_conds h') []) (hp_sliced hp))%list]])%list.
  Proof.
    intros h i s0 h' hp Hhp H. unfold h_extend_path in H. rewrite Hhp in H.
    destruct (assign_flat (ex_conditions md) _ _ _) as [oc rc].
    destruct (assign_flat (ex_related md) _ _ _) as [orl rr].
    destruct (assign_v2c _ _ _ _ _) as [[ov S'] rv].
    inversion H; subst h'; clear H. simpl. eexists. repeat split.
  Qed.

  Lemma psolver_app_old : forall ps q j, j < List.length ps -> psolver (ps ++ [q]) j = psolver ps j.
  Proof. intros. unfold psolver. rewrite nth_error_app1 by assumption. reflexivity. Qed.

  Lemma psolver_app_last : forall ps q, psolver (ps ++ [q]) (List.length ps) = solver q.
  Proof. intros. unfold psolver. rewrite nth_error_app_last. reflexivity. Qed.

  Lemma h_step_solver : forall h ps sc o h' sc',
    inv h -> sim h ps -> SIh h ps sc ->
    h_step h o = Some h' -> sched_step sc o = Some sc' ->
    exists ps', v_step ps o = Some ps' /\ inv h' /\ sim h' ps' /\ SIh h' ps' sc'.
  Proof.
    intros h ps sc o h' sc' Hinv Hsim HSI H Hsc.
    destruct (h_step_sim cond cond_eqb simp is_true vars md Hsep _ _ _ _ Hinv Hsim H) as (ps' & Hv & Hinv' & Hsim').
    exists ps'. split; [exact Hv|]. split; [exact Hinv'|]. split; [exact Hsim'|].
    assert (Hlen : List.length ps = List.length (o_paths h)) by apply Hsim.
    pose proof HSI as (G1 & G2 & G3 & G4 & G5).
    destruct o as [i c b|i c|i|i vs|i s0]; simpl in H, Hv, Hsc.
    - (* append *)
      destruct (is_current sc i) eqn:Hcur; [|discriminate]. inversion Hsc; subst sc'.
      destruct (nth_error ps i) as [p|] eqn:Hp; [|discriminate]. inversion Hv; subst ps'.
      apply (SIh_append _ _ _ _ _ _ _ _ Hinv Hsim HSI Hp Hcur H).
    - (* branch *)
      destruct (is_current sc i) eqn:Hcur; [|discriminate]. inversion Hsc; subst sc'; clear Hsc.
      destruct (nth_error ps i) as [p|] eqn:Hp; [|discriminate].
      destruct (branch cond p c) as [q|] eqn:Hb; [|discriminate]. inversion Hv; subst ps'; clear Hv.
      destruct (is_current_spec _ _ Hcur) as [Hi Hc].
      assert (HiP : i < List.length (o_paths h)) by lia.
      destruct (nth_error (o_paths h) i) as [hp|] eqn:Hhp; [|apply nth_error_None in Hhp; lia].
      destruct (h_branch_shape _ _ _ _ _ Hhp H) as (hpn & E1 & E2 & E3 & E4).
      destruct (G2 i hp Hhp) as [F1 _].
      unfold SIh. rewrite E1, E4. rewrite <- F1 in *.
      assert (Hq : solver q = solver p).
      { unfold branch in Hb. destruct (pending p); [|discriminate]. inversion Hb; reflexivity. }
      apply (SI_push cond (o_paths h) (o_solvers h) (psolver ps)); auto.
      + rewrite <- Hlen. rewrite psolver_app_last. unfold psolver. rewrite Hp. exact Hq.
      + intros j Hj. apply psolver_app_old. lia.
    - (* activate *)
      destruct (Nat.ltb i (List.length (sc_solver_of sc))) eqn:Hlt; [|discriminate]. apply Nat.ltb_lt in Hlt.
      destruct (nth (nth i (sc_solver_of sc) 0) (sc_waiting sc) []) as [|j' rest] eqn:HW; [discriminate|].
      destruct (Nat.eqb j' i) eqn:Ej; [|discriminate]. apply Nat.eqb_eq in Ej. subst j'.
      inversion Hsc; subst sc'; clear Hsc.
      destruct (nth_error ps i) as [p|] eqn:Hp; [|discriminate]. inversion Hv; subst ps'; clear Hv.
      assert (HiP : i < List.length (o_paths h)) by lia.
      destruct (nth_error (o_paths h) i) as [hp|] eqn:Hhp; [|apply nth_error_None in Hhp; lia].
      destruct (G2 i hp Hhp) as [F1 F2].
      destruct (SI_pop cond _ _ _ _ _ _ HSI HiP HW) as [Hle HSI1]. cbv zeta in Hle, HSI1.
      assert (Hsco : scopes_of cond (o_paths h) i = hp_scopes hp) by (unfold scopes_of; rewrite Hhp; reflexivity).
      rewrite Hsco, F1 in *.
      unfold PathHeapModel.h_activate in H. rewrite Hhp in H.
      unfold s_num_scopes in H.
      destruct (Nat.ltb _ _) eqn:Hcmp; [apply Nat.ltb_lt in Hcmp; lia|].
      match type of H with match PathHeapModel.h_extend _ _ _ _ _ ?h1 _ _ _ with _ => _ end = _ => set (hh := h1) in * end.
      destruct (h_extend hh i (hp_pending hp) true) as [h2|] eqn:He; [|discriminate].
      inversion H; subst h'; clear H.
      assert (Hinv1 : inv hh) by exact Hinv.
      assert (Hsim1 : sim hh ps) by exact Hsim.
      set (sc1 := mkSched (sc_solver_of sc) (upd (sc_current sc) (hp_solver hp) i) (upd (sc_waiting sc) (hp_solver hp) rest)) in *.
      assert (HSIhh : SIh hh ps sc1) by exact HSI1.
      assert (Hcur1 : is_current sc1 i = true).
      { unfold is_current, sc1. cbn [sc_solver_of sc_current]. apply andb_true_iff. split; [apply Nat.ltb_lt; exact Hlt|].
        rewrite F1. rewrite nth_error_upd_same by lia. apply Nat.eqb_refl. }
      pose proof (SIh_extend _ _ _ _ _ _ _ _ Hinv1 Hsim1 HSIhh Hp Hcur1 He) as HSI2.
      destruct (h_extend_sim cond cond_eqb simp is_true vars _ _ _ _ _ _ _ Hinv1 Hsim1 Hp He) as (_ & _ & Hp2).
      change (o_paths hh) with (o_paths h) in Hp2.
      pose proof (proj2 Hsim i hp p Hhp Hp) as (_ & Spend & _). rewrite Spend in HSI2.
      unfold SIh in *. cbn [o_paths o_solvers].
      apply (SI_ext cond (o_paths h2) _ _ (psolver (upd ps i (extend p (pending p) true)))); [exact HSI2 | apply upd_length | |].
      + intros j hpj Ej. rewrite Hp2 in Ej. destruct (Nat.eq_dec j i) as [->|Hne].
        * rewrite Hhp in Ej. inversion Ej; subst hpj. exists (set_pending cond hp []).
          rewrite Hp2. rewrite nth_error_upd_same by exact HiP. auto.
        * exists hpj. rewrite Hp2. rewrite nth_error_upd_other by congruence. auto.
      + intros j _. destruct (Nat.eq_dec j i) as [->|Hne].
        * rewrite !psolver_upd_same by (apply (nth_error_lt _ _ _ Hp)). reflexivity.
        * rewrite !psolver_upd_other by exact Hne. reflexivity.
    - (* slice *)
      destruct (Nat.ltb i (List.length (sc_solver_of sc))) eqn:Hlt; [|discriminate]. inversion Hsc; subst sc'; clear Hsc.
      destruct (nth_error ps i) as [p|] eqn:Hp; [|discriminate].
      destruct (slice cond vars p vs) as [q|] eqn:Hq; [|discriminate]. inversion Hv; subst ps'; clear Hv.
      unfold h_slice in H.
      destruct (nth_error (o_paths h) i) as [hp|] eqn:Hhp; [|discriminate].
      destruct (hp_sliced hp); [discriminate|].
      destruct (d_slice_loop _ _ _ _ _ _ _ _ _) as [[[sl d1] S1]|]; [|discriminate]. inversion H; subst h'; clear H.
      unfold SIh. cbn [o_paths o_solvers].
      assert (Hsq : solver q = solver p).
      { unfold slice in Hq. destruct (sliced p); [discriminate|].
        destruct (slice_loop _ _ _ _ _ _ _ _) as [[sl' m']|]; [|discriminate]. inversion Hq; reflexivity. }
      apply (SI_ext cond (o_paths h) _ _ (psolver ps)); [exact HSI | apply upd_length | |].
      + intros j hpj Ej. destruct (Nat.eq_dec j i) as [->|Hne].
        * rewrite Hhp in Ej. inversion Ej; subst hpj. eexists.
          rewrite nth_error_upd_same by (apply (nth_error_lt _ _ _ Hhp)). split; [reflexivity | auto].
        * exists hpj. rewrite nth_error_upd_other by congruence. auto.
      + intros j _. apply (psolver_upd_eq _ _ p); assumption.
    - (* extend_path *)
      destruct (Nat.ltb i (List.length (sc_solver_of sc))) eqn:Hlt; [|discriminate]. inversion Hsc; subst sc'; clear Hsc.
      destruct (nth_error ps i) as [p|] eqn:Hp; [|discriminate]. inversion Hv; subst ps'; clear Hv.
      destruct (nth_error (o_paths h) i) as [hp|] eqn:Hhp;
        [|unfold h_extend_path in H; rewrite Hhp in H; discriminate].
      destruct (h_extend_path_shape _ _ _ _ _ Hhp H) as (hpn & E1 & E2 & E3 & E4).
      unfold SIh. rewrite E1, E4.
      apply (SI_new cond (o_paths h) (o_solvers h) (psolver ps)); auto.
      + rewrite <- Hlen. rewrite psolver_app_last.
        (* the conditions of the new object are the parent's *)
        assert (Hn : nth_error (o_paths h') (List.length (o_paths h)) = Some hpn) by (rewrite E1; apply nth_error_app_last).
        assert (Hpn : nth_error (ps ++ [extend_path cond (empty_path cond s0) p]) (List.length (o_paths h))
                      = Some (extend_path cond (empty_path cond s0) p)) by (rewrite <- Hlen; apply nth_error_app_last).
        destruct Hinv' as (_ & _ & _ & Hrefs' & _). destruct (Hrefs' _ _ Hn) as (Rc & _ & _).
        destruct (proj2 Hsim' _ _ _ Hn Hpn) as (Sc & _).
        rewrite Rc, Sc. unfold extend_path, empty_path. cbn [conditions solver].
        pose proof (proj2 Hsim i hp p Hhp Hp) as (_ & _ & _ & _ & Ss). rewrite Ss. reflexivity.
      + intros j Hj. apply psolver_app_old. lia.
  Qed.

  Lemma h_run_solver : forall ops h ps sc h' sc',
    inv h -> sim h ps -> SIh h ps sc ->
    h_run h ops = Some h' -> sched_run sc ops = Some sc' ->
    exists ps', v_run ps ops = Some ps' /\ inv h' /\ sim h' ps' /\ SIh h' ps' sc'.
  Proof.
    induction ops as [|o ops IH]; intros h ps sc h' sc' Hinv Hsim HSI H Hsc; simpl in H, Hsc; simpl.
    - inversion H; subst h'. inversion Hsc; subst sc'. eauto.
    - destruct (h_step h o) as [h1|] eqn:Hs; [|discriminate].
      destruct (sched_step sc o) as [sc1|] eqn:Hs2; [|discriminate].
      destruct (h_step_solver _ _ _ _ _ _ Hinv Hsim HSI Hs Hs2) as (ps1 & Hv & Hinv1 & Hsim1 & HSI1).
      rewrite Hv. apply (IH _ _ _ _ _ Hinv1 Hsim1 HSI1 H Hsc).
  Qed.

  Lemma SIh_init : forall s0, SIh (h_init cond s0) [empty_path cond s0] (sched_init).
  Proof.
    intros s0. unfold SIh, SI, h_init, sched_init. cbn [o_paths o_solvers sc_solver_of sc_current sc_waiting List.length].
    split; [reflexivity|]. split.
    { intros j hp E. destruct j as [|j]; simpl in E; [inversion E; simpl; auto | destruct j; discriminate]. }
    split; [reflexivity|]. split; [reflexivity|].
    intros s Hs. destruct s as [|s]; [|lia]. cbv zeta. simpl.
    split; [discriminate|]. split; [lia|]. split; [reflexivity|].
    split; [unfold PathHeapModel.s_assertions; simpl; apply app_nil_r|].
    split; [exact I|]. split; [intros j []|constructor].
  Qed.

  (* the solver object a Path is running on mirrors the pure model's solver view of it *)
  Theorem solver_mirrors_running_path : forall ops s0 h sc,
    h_run (h_init cond s0) ops = Some h -> sched_run sched_init ops = Some sc ->
    exists ps, v_run [empty_path cond s0] ops = Some ps /\
      forall s i, nth_error (sc_current sc) s = Some i ->
        exists hp p, nth_error (o_paths h) i = Some hp /\ nth_error ps i = Some p /\ hp_solver hp = s /\
                     s_assertions cond (nth s (o_solvers h) []) = solver p.
  Proof.
    intros ops s0 h sc H Hsc.
    destruct (init_inv_sim cond s0) as [Hinv Hsim].
    destruct (h_run_solver _ _ _ _ _ _ Hinv Hsim (SIh_init s0) H Hsc) as (ps & Hv & Hinv' & Hsim' & HSI).
    exists ps. split; [exact Hv|]. intros s i Hcur.
    destruct HSI as (G1 & G2 & G3 & G4 & G5).
    assert (Hs : s < List.length (o_solvers h)) by (rewrite <- G3; apply (nth_error_lt _ _ _ Hcur)).
    destruct (G5 s Hs) as (_ & A1 & A2 & A3 & _). cbv zeta in *.
    rewrite (nth_error_nth _ _ 0 Hcur) in *.
    destruct (nth_error (o_paths h) i) as [hp|] eqn:Hhp; [|apply nth_error_None in Hhp; lia].
    destruct (sim_lookup cond _ _ _ _ Hsim' Hhp) as [p Hp].
    exists hp, p. split; [reflexivity|]. split; [exact Hp|].
    destruct (G2 i hp Hhp) as [F1 _]. split; [congruence|].
    rewrite A3. unfold psolver. rewrite Hp. reflexivity.
  Qed.
End SolverDiscipline.
